(* Proofs about M-ALLOC (Alloc/AllocModel.v): which steps of a thread's log path allocate. *)
From Coq Require Import List NArith Arith Bool Lia.
From Quill Require Import Base.Bytes Codec.CodecDefs Codec.CodecProofs Codec.InlVec Codec.InlVecProofs
  Queue.BQDefs Alloc.AllocModel.
Import ListNotations.
Local Open Scope N_scope.

(* ------------------------------------------------------------------ the size cache *)
Lemma iv_size_app c l : N.of_nat (length (iv_data c ++ l)) = iv_size c + N.of_nat (length l).
Proof. unfold iv_size. rewrite app_length. lia. Qed.

Lemma iv_push_all_data : forall l c, iv_data (fst (iv_push_all l c)) = iv_data c ++ l.
Proof.
  induction l as [|x l IH]; intro c; cbn [iv_push_all].
  - cbn. now rewrite app_nil_r.
  - destruct (iv_push x c) as [c1 a] eqn:E. specialize (IH c1).
    destruct (iv_push_all l c1) as [c2 al]. cbn [fst] in *.
    rewrite IH. pose proof (iv_push_data x c) as Hd. rewrite E in Hd. cbn [fst] in Hd.
    rewrite Hd, <- app_assoc. reflexivity.
Qed.

Lemma iv_push_cap x c : iv_cap c <= iv_cap (fst (iv_push x c)).
Proof. unfold iv_push. destruct (_ =? _); cbn [fst iv_cap]; lia. Qed.

Lemma iv_push_all_cap_mono : forall l c, iv_cap c <= iv_cap (fst (iv_push_all l c)).
Proof.
  induction l as [|x l IH]; intro c; cbn [iv_push_all]; [cbn; lia|].
  pose proof (iv_push_cap x c) as H1.
  destruct (iv_push x c) as [c1 a]. specialize (IH c1).
  destruct (iv_push_all l c1) as [c2 al]. cbn [fst] in *. lia.
Qed.

(* no push allocates while the live entries stay within the current capacity *)
Lemma iv_push_all_no_alloc : forall l c, iv_size c + N.of_nat (length l) <= iv_cap c ->
  snd (iv_push_all l c) = [] /\ iv_cap (fst (iv_push_all l c)) = iv_cap c.
Proof.
  induction l as [|x l IH]; intros c H; cbn [iv_push_all]; [auto|].
  cbn [length] in H.
  pose proof (iv_size_push x c) as Hs.
  unfold iv_push in *. destruct (N.eqb_spec (iv_size c) (iv_cap c)) as [E|E]; [lia|].
  set (c1 := {| iv_data := iv_data c ++ [x]; iv_cap := iv_cap c |}) in *. cbn [fst] in Hs.
  destruct (IH c1) as [A B]; [cbn [iv_cap c1]; lia|].
  destruct (iv_push_all l c1) as [c2 al]. cbn [fst snd] in *. subst al. split; [reflexivity | exact B].
Qed.

(* pushing beyond the capacity allocates *)
Lemma iv_push_all_alloc : forall l c, iv_size c <= iv_cap c -> iv_cap c < iv_size c + N.of_nat (length l) ->
  exists newcap, In (AIvGrow newcap) (snd (iv_push_all l c)).
Proof.
  induction l as [|x l IH]; intros c Hle H; cbn [iv_push_all]; [cbn [length] in H; lia|].
  cbn [length] in H.
  pose proof (iv_size_push x c) as Hs.
  unfold iv_push in *. destruct (N.eqb_spec (iv_size c) (iv_cap c)) as [E|E].
  - set (c1 := {| iv_data := iv_data c ++ [x]; iv_cap := iv_cap c * 2 |}).
    destruct (iv_push_all l c1) as [c2 al]. cbn [snd]. exists (iv_cap c1). left. reflexivity.
  - set (c1 := {| iv_data := iv_data c ++ [x]; iv_cap := iv_cap c |}) in *. cbn [fst] in Hs.
    destruct (IH c1) as [nc Hin]; [cbn [iv_cap c1]; lia | cbn [iv_cap c1]; lia |].
    destruct (iv_push_all l c1) as [c2 al]. cbn [snd] in *. exists nc. exact Hin.
Qed.

(* the size-cache part of a well-formed thread state *)
Definition iv_wf (c : iv) : Prop := INLINE_CAP <= iv_cap c /\ iv_size c <= iv_cap c.

Lemma iv_wf_init : iv_wf iv_init.
Proof. split; vm_compute; discriminate. Qed.

Lemma iv_wf_clear c : iv_wf c -> iv_wf (iv_clear c).
Proof. intros [A B]. split; [exact A|]. cbn. lia. Qed.

Lemma iv_wf_push x c : iv_wf c -> iv_wf (fst (iv_push x c)).
Proof.
  intros [A B]. pose proof (iv_size_push x c) as Hs. unfold iv_wf, INLINE_CAP, IV_INLINE in *.
  unfold iv_push in *. destruct (N.eqb_spec (iv_size c) (iv_cap c)) as [E|E]; cbn [fst iv_cap] in *; lia.
Qed.

Lemma iv_wf_push_all : forall l c, iv_wf c -> iv_wf (fst (iv_push_all l c)).
Proof.
  induction l as [|x l IH]; intros c W; cbn [iv_push_all]; [exact W|].
  pose proof (iv_wf_push x c W) as W1. destruct (iv_push x c) as [c1 a]. cbn [fst] in W1.
  specialize (IH c1 W1). destruct (iv_push_all l c1) as [c2 al]. exact IH.
Qed.

(* ------------------------------------------------------------------ the size pass *)
Lemma size_pass_spec c ts vs :
  let '(sz, c1, al) := size_pass c ts vs in
  sz = fst (args_size true (iv_data c) ts vs) /\ iv_data c1 = snd (args_size true (iv_data c) ts vs).
Proof.
  unfold size_pass, args_size. cbn [andb].
  destruct (size_zip (map size ts) vs) as [s pushed].
  set (c0 := if needs_clear ts then iv_clear c else c).
  pose proof (iv_push_all_data pushed c0) as Hd.
  destruct (iv_push_all pushed c0) as [c1 al]. cbn [fst snd] in *. split; [reflexivity|].
  rewrite Hd. unfold c0. destruct (needs_clear ts); reflexivity.
Qed.

Lemma size_pass_wf c ts vs : iv_wf c -> iv_wf (snd (fst (size_pass c ts vs))).
Proof.
  intro W. unfold size_pass. destruct (size_zip (map size ts) vs) as [s pushed].
  set (c0 := if needs_clear ts then iv_clear c else c).
  assert (W0 : iv_wf c0) by (unfold c0; destruct (needs_clear ts); [now apply iv_wf_clear | exact W]).
  pose proof (iv_wf_push_all pushed c0 W0) as W1.
  destruct (iv_push_all pushed c0) as [c1 al]. exact W1.
Qed.

Lemma size_pass_size c ts vs : fst (fst (size_pass c ts vs)) = fst (size_zip (map size ts) vs).
Proof.
  unfold size_pass. destruct (size_zip (map size ts) vs) as [s pushed].
  destruct (iv_push_all pushed _) as [c1 al]. reflexivity.
Qed.

(* the statement's cached lengths fit the current capacity: the size pass does not allocate and
   keeps the capacity *)
Lemma size_pass_no_alloc c ts vs : iv_wf c -> N.of_nat (stmt_cached ts vs) <= iv_cap c ->
  snd (size_pass c ts vs) = [] /\ iv_cap (snd (fst (size_pass c ts vs))) = iv_cap c.
Proof.
  intros [Wc Ws] H. unfold size_pass, stmt_cached in *.
  destruct (needs_clear ts) eqn:En.
  - destruct (size_zip (map size ts) vs) as [s pushed]. cbn [snd] in H.
    destruct (iv_push_all_no_alloc pushed (iv_clear c)) as [A B]; [cbn; lia|].
    destruct (iv_push_all pushed (iv_clear c)) as [c1 al]. cbn [fst snd] in *. auto.
  - unfold needs_clear in En. apply negb_false_iff in En.
    pose proof (simple_no_push ts vs En) as Hp.
    destruct (size_zip (map size ts) vs) as [s pushed]. cbn [snd] in Hp. subst pushed.
    cbn [iv_push_all fst snd]. auto.
Qed.

(* more cached lengths than the capacity, in a statement that clears the cache: it allocates *)
Lemma size_pass_alloc c ts vs : iv_wf c -> needs_clear ts = true -> iv_cap c < N.of_nat (stmt_cached ts vs) ->
  exists newcap, In (AIvGrow newcap) (snd (size_pass c ts vs)).
Proof.
  intros [Wc Ws] En H. unfold size_pass, stmt_cached in *. rewrite En.
  destruct (size_zip (map size ts) vs) as [s pushed]. cbn [snd] in H.
  destruct (iv_push_all_alloc pushed (iv_clear c)) as [nc Hin]; [cbn; lia | cbn; lia |].
  destruct (iv_push_all pushed (iv_clear c)) as [c1 al]. cbn [snd] in *. eauto.
Qed.

(* ------------------------------------------------------------------ leaves *)
Lemma leaf_zip_Forall (Q : ty * val -> Prop) : forall fs, Forall (fun f => forall v, Forall Q (f v)) fs ->
  forall l, Forall Q (leaf_zip fs l).
Proof.
  induction 1 as [|f fs Hf _ IH]; intros l; destruct l as [|x l]; cbn [leaf_zip]; try constructor.
  apply Forall_app. split; [apply Hf | apply IH].
Qed.

Lemma Forall_repeat {A} (P : A -> Prop) x n : P x -> Forall P (repeat x n).
Proof. intro H. induction n; cbn; constructor; auto. Qed.

(* every leaf the codecs visit has one of the leaf types occurring in t *)
Lemma leaves_all (q : ty -> bool) : forall t, all_leaf q t = true -> forall v, Forall (fun p => q (fst p) = true) (leaves t v).
Proof.
  induction t using ty_ind'; intros Hq v; cbn [all_leaf] in Hq;
    try (cbn [leaves]; constructor; [exact Hq | constructor]).
  - (* Seq *) cbn [leaves]. destruct v; try constructor. destruct (arith_w t); [constructor|].
    apply leaf_zip_Forall, Forall_repeat. auto.
  - (* FwdList *) cbn [leaves]. destruct v; try constructor. apply leaf_zip_Forall, Forall_repeat. auto.
  - (* Arr *) cbn [leaves]. destruct v; try constructor. destruct (arith_w t); [constructor|].
    apply leaf_zip_Forall, Forall_repeat. auto.
  - (* Opt *) cbn [leaves]. destruct v as [| | | |[x|]]; try constructor. auto.
  - (* Pair *) apply andb_prop in Hq. destruct Hq as [Ha Hb]. cbn [leaves]. unfold pairL.
    destruct v; try constructor. apply leaf_zip_Forall. repeat constructor; auto.
  - (* Tuple *) cbn [leaves]. destruct v; try constructor. apply leaf_zip_Forall.
    induction H as [|t ts Ht _ IH]; cbn [map]; [constructor|].
    cbn [forallb] in Hq. apply andb_prop in Hq. destruct Hq as [Hq1 Hq2]. constructor; auto.
  - (* MapLike *) apply andb_prop in Hq. destruct Hq as [Ha Hb]. cbn [leaves].
    destruct v; try constructor.
    assert (Hz : Forall (fun p => q (fst p) = true) (leaf_zip (repeat (pairL (leaves t1) (leaves t2)) (length l)) l)).
    { apply leaf_zip_Forall, Forall_repeat. intro x. unfold pairL. destruct x; try constructor.
      apply leaf_zip_Forall. repeat constructor; auto. }
    destruct (arith_w t1); [destruct (arith_w t2); [constructor | exact Hz] | exact Hz].
Qed.

Lemma stmt_leaves_all (q : ty -> bool) : forall ts, forallb (all_leaf q) ts = true -> forall vs,
  Forall (fun p => q (fst p) = true) (stmt_leaves ts vs).
Proof.
  intros ts Hq vs. unfold stmt_leaves. apply leaf_zip_Forall.
  induction ts as [|t ts IH]; cbn [map]; [constructor|].
  cbn [forallb] in Hq. apply andb_prop in Hq. destruct Hq as [H1 H2].
  constructor; [intro v; now apply leaves_all | auto].
Qed.

Lemma flat_map_nil {A B} (f : A -> list B) l : Forall (fun x => f x = []) l -> flat_map f l = [].
Proof. induction 1 as [|x l Hx _ IH]; cbn [flat_map]; [reflexivity|]. now rewrite Hx, IH. Qed.

(* (4) is empty for the listed types *)
Lemma listed_no_leaf_alloc ts vs e : forallb no_excluded ts = true ->
  flat_map (leaf_alloc e) (stmt_leaves ts vs) = [].
Proof.
  intro H. apply flat_map_nil.
  eapply Forall_impl; [|apply (stmt_leaves_all listed_leaf ts H vs)].
  intros [t v] Hl. cbn [fst] in Hl. unfold leaf_alloc.
  destruct t as [k w| | |k| | |w a| | | | | | |]; try reflexivity; cbn in Hl.
  - destruct k; try discriminate; destruct v; reflexivity.
  - discriminate.
Qed.

(* (5), pinned variant: empty when every map has a key and a mapped type whose copies cannot allocate *)
Lemma temps_free mc : forall t, map_ok t = true -> forall v, Forall (fun p => copy_free (fst p) = true) (temps mc t v).
Proof.
  induction t using ty_ind'; intros Hq v; cbn [map_ok] in Hq; try (cbn [temps]; constructor).
  - (* Seq *) cbn [temps]. destruct v; try constructor. destruct (arith_w t); [constructor|].
    apply leaf_zip_Forall, Forall_repeat. auto.
  - (* FwdList *) cbn [temps]. destruct v; try constructor. apply leaf_zip_Forall, Forall_repeat. auto.
  - (* Arr *) cbn [temps]. destruct v; try constructor. destruct (arith_w t); [constructor|].
    apply leaf_zip_Forall, Forall_repeat. auto.
  - (* Opt *) cbn [temps]. destruct v as [| | | |[x|]]; try constructor. auto.
  - (* Pair *) apply andb_prop in Hq. destruct Hq as [Ha Hb]. cbn [temps]. unfold pairL.
    destruct v; try constructor. apply leaf_zip_Forall. repeat constructor; auto.
  - (* Tuple *) cbn [temps]. destruct v; try constructor. apply leaf_zip_Forall.
    induction H as [|t ts Ht _ IH]; cbn [map]; [constructor|].
    cbn [forallb] in Hq. apply andb_prop in Hq. destruct Hq as [Hq1 Hq2]. constructor; auto.
  - (* MapLike *) apply andb_prop in Hq. destruct Hq as [Hq Hm2]. apply andb_prop in Hq. destruct Hq as [Hq Hm1].
    apply andb_prop in Hq. destruct Hq as [Hc1 Hc2]. cbn [temps].
    destruct v; try constructor.
    assert (Hz : Forall (fun p => copy_free (fst p) = true)
                        (leaf_zip (repeat (pairT mc t1 t2 (temps mc t1) (temps mc t2)) (length l)) l)).
    { apply leaf_zip_Forall, Forall_repeat. intro x. unfold pairT. destruct x as [| | |l0|]; try constructor.
      apply Forall_app. split.
      - destruct mc; [|constructor]. destruct l0 as [|e1 [|e2 [|e3 l0]]]; repeat constructor; assumption.
      - apply leaf_zip_Forall. repeat constructor; auto. }
    destruct (arith_w t1); [destruct (arith_w t2); [constructor | exact Hz] | exact Hz].
Qed.

Lemma stmt_temps_free mc : forall ts, forallb map_ok ts = true -> forall vs,
  Forall (fun p => copy_free (fst p) = true) (stmt_temps mc ts vs).
Proof.
  intros ts Hq vs. unfold stmt_temps. apply leaf_zip_Forall.
  induction ts as [|t ts IH]; cbn [map]; [constructor|].
  cbn [forallb] in Hq. apply andb_prop in Hq. destruct Hq as [H1 H2].
  constructor; [intro v; now apply temps_free | auto].
Qed.

(* (5), repaired variant: the codecs visit the members of a map element in place; there is no
   temporary, whatever the types and the value, at any nesting depth *)
Lemma leaf_zip_nil : forall fs, Forall (fun f : leafF => forall v, f v = []) fs -> forall l, leaf_zip fs l = [].
Proof.
  induction 1 as [|f fs Hf _ IH]; intros l; destruct l as [|x l]; cbn [leaf_zip]; try reflexivity.
  now rewrite Hf, IH.
Qed.

Lemma temps_repaired : forall t v, temps false t v = [].
Proof.
  induction t using ty_ind'; intro v; cbn [temps]; try reflexivity.
  - (* Seq *) destruct v; try reflexivity. destruct (arith_w t); [reflexivity|].
    apply leaf_zip_nil, Forall_repeat. exact IHt.
  - (* FwdList *) destruct v; try reflexivity. apply leaf_zip_nil, Forall_repeat. exact IHt.
  - (* Arr *) destruct v; try reflexivity. destruct (arith_w t); [reflexivity|].
    apply leaf_zip_nil, Forall_repeat. exact IHt.
  - (* Opt *) destruct v as [| | | |[x|]]; try reflexivity. apply IHt.
  - (* Pair *) unfold pairL. destruct v; try reflexivity. apply leaf_zip_nil. repeat constructor; assumption.
  - (* Tuple *) destruct v; try reflexivity. apply leaf_zip_nil.
    induction H as [|t ts Ht _ IH]; cbn [map]; constructor; auto.
  - (* MapLike *) destruct v; try reflexivity.
    assert (Hz : leaf_zip (repeat (pairT false t1 t2 (temps false t1) (temps false t2)) (length l)) l = []).
    { apply leaf_zip_nil, Forall_repeat. intro x. unfold pairT. destruct x as [| | |l0|]; try reflexivity.
      cbn [app]. apply leaf_zip_nil. repeat constructor; assumption. }
    destruct (arith_w t1); [destruct (arith_w t2); [reflexivity | exact Hz] | exact Hz].
Qed.

Lemma stmt_temps_repaired ts vs : stmt_temps false ts vs = [].
Proof.
  unfold stmt_temps. apply leaf_zip_nil.
  induction ts as [|t ts IH]; cbn [map]; constructor; [apply temps_repaired | exact IH].
Qed.

(* one pass over listed arguments allocates nothing by itself: in the repaired variant always, in the
   pinned variant when the maps are as [map_ok] says *)
Lemma listed_no_pass_alloc mc ts vs e : forallb no_excluded ts = true -> (mc = true -> forallb map_ok ts = true) ->
  pass_allocs mc e ts vs = [].
Proof.
  intros H1 H2. unfold pass_allocs. rewrite (listed_no_leaf_alloc ts vs e H1). cbn [app].
  destruct mc; [|now rewrite stmt_temps_repaired].
  apply flat_map_nil. eapply Forall_impl; [|apply (stmt_temps_free true ts (H2 eq_refl) vs)].
  intros p Hp. unfold temp_alloc. now rewrite Hp.
Qed.

(* only Direct leaves are formatted on the caller *)
Lemma leaf_fmt_direct lv : Forall (fun p => fst p = Direct) (flat_map leaf_fmt lv).
Proof.
  induction lv as [|p lv IH]; cbn [flat_map]; [constructor|].
  apply Forall_app. split; [|exact IH].
  unfold leaf_fmt. destruct p as [t v]. cbn [fst].
  destruct t; cbn [formats_on_caller]; repeat constructor.
Qed.

Lemma no_direct_no_fmt ts vs : forallb (fun t => negb (has_direct t)) ts = true ->
  flat_map leaf_fmt (stmt_leaves ts vs) = [].
Proof.
  intro H. apply flat_map_nil.
  assert (H' : forallb (all_leaf (fun t' => negb (formats_on_caller t'))) ts = true).
  { rewrite forallb_forall in *. intros t Ht. specialize (H t Ht). unfold has_direct in H.
    now rewrite negb_involutive in H. }
  eapply Forall_impl; [|apply (stmt_leaves_all _ ts H' vs)].
  intros [t v] Hl. cbn [fst] in Hl. unfold leaf_fmt. cbn [fst].
  apply negb_true_iff in Hl. now rewrite Hl.
Qed.

(* ------------------------------------------------------------------ the queue *)
Lemma register_registered cf s : t_reg s = true -> register cf s = (s, []).
Proof. intro H. unfold register. now rewrite H. Qed.

Lemma register_fresh cf s : t_reg s = false ->
  register cf s = ({| t_reg := true; t_cache := iv_init; t_node := node_init (c_init cf) |}, [ACtx]).
Proof. intro H. unfold register. now rewrite H. Qed.

Lemma register_wf cf s : iv_wf (t_cache s) -> iv_wf (t_cache (fst (register cf s))).
Proof. intro W. unfold register. destruct (t_reg s); cbn [fst t_cache]; [exact W | exact iv_wf_init]. Qed.

Lemma reserve_fits cf nd n : fits nd n = true ->
  exists off q1, reserve cf nd n = ({| n_cap := n_cap nd; n_q := q1 |}, RGot off, []).
Proof.
  unfold fits, reserve. destruct (prepare_write ideal (n_cap nd) (n_q nd) n) as [q1 [off|]]; cbn [snd]; [|discriminate].
  intros _. eauto.
Qed.

(* a bounded queue never allocates in reserve *)
Lemma reserve_bounded cf nd n : c_unbounded cf = false -> snd (reserve cf nd n) = [].
Proof.
  intro H. unfold reserve. destruct (prepare_write ideal (n_cap nd) (n_q nd) n) as [q1 [off|]]; [reflexivity|].
  rewrite H. reflexivity.
Qed.

(* the unbounded queue grows when the record does not fit and the doubled capacity is allowed *)
Lemma reserve_grows cf nd n : c_unbounded cf = true -> fits nd n = false ->
  c_max cf <? grow_cap 64 (n_cap nd * 2) n = false ->
  snd (reserve cf nd n) = [ANode (npow2 (grow_cap 64 (n_cap nd * 2) n))].
Proof.
  intros Hu Hf Hm. unfold fits, reserve in *.
  destruct (prepare_write ideal (n_cap nd) (n_q nd) n) as [q1 [off|]]; cbn [snd] in Hf; [discriminate|].
  rewrite Hu, Hm.
  destruct (prepare_write ideal _ _ n) as [q2 r2]. reflexivity.
Qed.

(* ------------------------------------------------------------------ the log step *)
Lemma log_step_total mc cf s ts vs dyn : reserved (snd (log_step mc cf s ts vs dyn)) = stmt_total ts vs dyn.
Proof.
  unfold log_step, stmt_total. destruct (register cf s) as [s0 a0].
  pose proof (size_pass_size (t_cache s0) ts vs) as Hs.
  destruct (size_pass (t_cache s0) ts vs) as [[sz c1] a1]. cbn [fst] in Hs. subst sz.
  destruct (reserve cf (t_node s0) _) as [[nd r] a2]. destruct r; reflexivity.
Qed.

(* the total is the one M-CODEC's statement layout reserves (C04: = written = consumed) *)
Lemma stmt_total_codec ts vs dyn cache0 :
  stmt_total ts vs dyn = fst (stmt_reserved true cache0 ts vs (if dyn then Some 0 else None)).
Proof.
  unfold stmt_total, stmt_reserved, args_size, dyn_size.
  destruct (size_zip (map size ts) vs) as [s c]. destruct dyn; reflexivity.
Qed.

Lemma log_step_wf mc cf s ts vs dyn : iv_wf (t_cache s) -> iv_wf (t_cache (fst (log_step mc cf s ts vs dyn))).
Proof.
  intro W. unfold log_step. pose proof (register_wf cf s W) as W0.
  destruct (register cf s) as [s0 a0]. cbn [fst] in W0.
  pose proof (size_pass_wf (t_cache s0) ts vs W0) as W1.
  destruct (size_pass (t_cache s0) ts vs) as [[sz c1] a1]. cbn [fst snd] in W1.
  destruct (reserve cf (t_node s0) _) as [[nd r] a2]. destruct r; exact W1.
Qed.

Lemma log_step_reg mc cf s ts vs dyn : t_reg (fst (log_step mc cf s ts vs dyn)) = true.
Proof.
  unfold log_step. destruct (register cf s) as [s0 a0].
  destruct (size_pass (t_cache s0) ts vs) as [[sz c1] a1].
  destruct (reserve cf (t_node s0) _) as [[nd r] a2]. destruct r; reflexivity.
Qed.

(* C11, modelled part, general form: the statement's cached lengths fit the *current* capacity
   of the size cache (which is at least the inline one); [map_ok] is needed by the pinned variant only *)
Theorem steady_no_alloc_cap_gen : forall mc cf s ts vs dyn,
  t_reg s = true -> iv_wf (t_cache s) ->
  N.of_nat (stmt_cached ts vs) <= iv_cap (t_cache s) ->
  fits (t_node s) (stmt_total ts vs dyn) = true ->
  forallb no_excluded ts = true -> (mc = true -> forallb map_ok ts = true) ->
  allocs (snd (log_step mc cf s ts vs dyn)) = [] /\ res (snd (log_step mc cf s ts vs dyn)) = LEnqueued /\
  iv_cap (t_cache (fst (log_step mc cf s ts vs dyn))) = iv_cap (t_cache s).
Proof.
  intros mc cf s ts vs dyn Hr W Hc Hf Hl Hm. unfold log_step. rewrite (register_registered cf s Hr).
  destruct (size_pass_no_alloc (t_cache s) ts vs W Hc) as [Ha Hcap].
  pose proof (size_pass_size (t_cache s) ts vs) as Hs.
  destruct (size_pass (t_cache s) ts vs) as [[sz c1] a1]. cbn [fst snd] in *. subst sz a1.
  fold (stmt_total ts vs dyn).
  destruct (reserve_fits cf (t_node s) _ Hf) as (off & q1 & Hres). rewrite Hres.
  cbn [allocs res fst snd t_cache]. rewrite !listed_no_pass_alloc by assumption. auto.
Qed.

(* repaired variant: no hypothesis about the maps *)
Theorem steady_no_alloc_cap : forall cf s ts vs dyn,
  t_reg s = true -> iv_wf (t_cache s) ->
  N.of_nat (stmt_cached ts vs) <= iv_cap (t_cache s) ->
  fits (t_node s) (stmt_total ts vs dyn) = true ->
  forallb no_excluded ts = true ->
  allocs (snd (log_step false cf s ts vs dyn)) = [] /\ res (snd (log_step false cf s ts vs dyn)) = LEnqueued /\
  iv_cap (t_cache (fst (log_step false cf s ts vs dyn))) = iv_cap (t_cache s).
Proof.
  intros cf s ts vs dyn Hr W Hc Hf Hl. apply steady_no_alloc_cap_gen; auto. discriminate.
Qed.

(* pinned variant *)
Theorem steady_no_alloc_cap_pinned : forall cf s ts vs dyn,
  t_reg s = true -> iv_wf (t_cache s) ->
  N.of_nat (stmt_cached ts vs) <= iv_cap (t_cache s) ->
  fits (t_node s) (stmt_total ts vs dyn) = true ->
  forallb no_excluded ts = true -> forallb map_ok ts = true ->
  allocs (snd (log_step true cf s ts vs dyn)) = [] /\ res (snd (log_step true cf s ts vs dyn)) = LEnqueued /\
  iv_cap (t_cache (fst (log_step true cf s ts vs dyn))) = iv_cap (t_cache s).
Proof.
  intros cf s ts vs dyn Hr W Hc Hf Hl Hm. apply steady_no_alloc_cap_gen; auto.
Qed.

Theorem steady_no_alloc_gen : forall mc cf s ts vs dyn,
  t_reg s = true -> iv_wf (t_cache s) ->
  N.of_nat (stmt_cached ts vs) <= INLINE_CAP ->
  fits (t_node s) (stmt_total ts vs dyn) = true ->
  forallb no_excluded ts = true -> (mc = true -> forallb map_ok ts = true) ->
  allocs (snd (log_step mc cf s ts vs dyn)) = [] /\ res (snd (log_step mc cf s ts vs dyn)) = LEnqueued.
Proof.
  intros mc cf s ts vs dyn Hr W Hc Hf Hl Hm.
  destruct (steady_no_alloc_cap_gen mc cf s ts vs dyn Hr W) as (A & B & _); auto.
  destruct W as [W1 _]. lia.
Qed.

(* every state a thread reaches has a well-formed size cache *)
Lemma t_step_wf mc cf s o : iv_wf (t_cache s) -> iv_wf (t_cache (fst (t_step mc cf s o))).
Proof.
  intro W. destruct o as [|ts vs dyn|cap|]; cbn [t_step].
  - pose proof (register_wf cf s W) as W0. destruct (register cf s) as [s1 a]. exact W0.
  - now apply log_step_wf.
  - destruct (c_unbounded cf); [|exact W].
    pose proof (register_wf cf s W) as W0. destruct (register cf s) as [s1 a]. cbn [fst] in W0.
    destruct (_ <? cap); exact W0.
  - destruct (t_reg s); exact W.
Qed.

Lemma t_run_wf mc cf : forall ops s, iv_wf (t_cache s) -> iv_wf (t_cache (fst (t_run mc cf s ops))).
Proof.
  induction ops as [|o ops IH]; intros s W; cbn [t_run]; [exact W|].
  pose proof (t_step_wf mc cf s o W) as W1. destruct (t_step mc cf s o) as [s1 out]. cbn [fst] in W1.
  specialize (IH s1 W1). destruct (t_run mc cf s1 ops) as [s2 outs]. exact IH.
Qed.

Lemma reachable_wf mc cf s : reachable mc cf s -> iv_wf (t_cache s).
Proof. intros [ops ->]. apply t_run_wf. exact iv_wf_init. Qed.

(* C11_steady_no_alloc over every state a thread can reach: repaired variant (no hypothesis about
   the maps) and pinned variant *)
Theorem steady_no_alloc_reachable : forall cf s ts vs dyn,
  reachable false cf s -> t_reg s = true ->
  N.of_nat (stmt_cached ts vs) <= INLINE_CAP ->
  fits (t_node s) (stmt_total ts vs dyn) = true ->
  forallb no_excluded ts = true ->
  allocs (snd (log_step false cf s ts vs dyn)) = [] /\ res (snd (log_step false cf s ts vs dyn)) = LEnqueued.
Proof.
  intros cf s ts vs dyn Hre Hr Hc Hf Hl.
  apply steady_no_alloc_gen; auto; [now apply reachable_wf with false cf | discriminate].
Qed.

Theorem steady_no_alloc_reachable_pinned : forall cf s ts vs dyn,
  reachable true cf s -> t_reg s = true ->
  N.of_nat (stmt_cached ts vs) <= INLINE_CAP ->
  fits (t_node s) (stmt_total ts vs dyn) = true ->
  forallb no_excluded ts = true -> forallb map_ok ts = true ->
  allocs (snd (log_step true cf s ts vs dyn)) = [] /\ res (snd (log_step true cf s ts vs dyn)) = LEnqueued.
Proof.
  intros cf s ts vs dyn Hre Hr Hc Hf Hl Hm.
  apply steady_no_alloc_gen; auto. now apply reachable_wf with true cf.
Qed.

(* the variant changes what a step allocates, never the state it leaves: the threads of both
   variants reach the same states *)
Lemma log_step_state_variant mc cf s ts vs dyn :
  fst (log_step mc cf s ts vs dyn) = fst (log_step false cf s ts vs dyn) /\
  res (snd (log_step mc cf s ts vs dyn)) = res (snd (log_step false cf s ts vs dyn)) /\
  fmts (snd (log_step mc cf s ts vs dyn)) = fmts (snd (log_step false cf s ts vs dyn)).
Proof.
  unfold log_step. destruct (register cf s) as [s0 a0].
  destruct (size_pass (t_cache s0) ts vs) as [[sz c1] a1].
  destruct (reserve cf (t_node s0) _) as [[nd r] a2]. destruct r; auto.
Qed.

Lemma t_step_state_variant mc cf s o : fst (t_step mc cf s o) = fst (t_step false cf s o).
Proof. destruct o; cbn [t_step]; try reflexivity. apply log_step_state_variant. Qed.

Lemma t_run_state_variant mc cf : forall ops s, fst (t_run mc cf s ops) = fst (t_run false cf s ops).
Proof.
  induction ops as [|o ops IH]; intro s; cbn [t_run]; [reflexivity|].
  pose proof (t_step_state_variant mc cf s o) as H1.
  destruct (t_step mc cf s o) as [s1 out]. destruct (t_step false cf s o) as [s1' out']. cbn [fst] in H1. subst s1'.
  specialize (IH s1). destruct (t_run mc cf s1 ops) as [s2 outs]. destruct (t_run false cf s1 ops) as [s2' outs'].
  exact IH.
Qed.

Lemma reachable_variant mc cf s : reachable mc cf s <-> reachable false cf s.
Proof.
  split; intros [ops ->]; exists ops; [apply t_run_state_variant | symmetry; apply t_run_state_variant].
Qed.

(* a thread is registered after its first log call or preallocate(), and stays so *)
Lemma t_step_reg_mono mc cf s o : t_reg s = true -> t_reg (fst (t_step mc cf s o)) = true.
Proof.
  intro H. destruct o as [|ts vs dyn|cap|]; cbn [t_step].
  - rewrite (register_registered cf s H). exact H.
  - apply log_step_reg.
  - destruct (c_unbounded cf); [|exact H]. rewrite (register_registered cf s H).
    destruct (_ <? cap); [exact H | reflexivity].
  - rewrite H. reflexivity.
Qed.

Lemma registered_after_first mc cf s :
  t_reg (fst (t_step mc cf s OPre)) = true /\ forall ts vs dyn, t_reg (fst (t_step mc cf s (OLog ts vs dyn))) = true.
Proof.
  split; [|intros; apply log_step_reg].
  cbn [t_step]. unfold register. destruct (t_reg s) eqn:E; cbn [fst]; [exact E | reflexivity].
Qed.

(* non-vacuity: the first call does allocate *)
Theorem first_call_allocates : forall mc cf s ts vs dyn, t_reg s = false ->
  In ACtx (allocs (snd (log_step mc cf s ts vs dyn))) /\ In ACtx (allocs (snd (t_step mc cf s OPre))).
Proof.
  intros mc cf s ts vs dyn H. split.
  - unfold log_step. rewrite (register_fresh cf s H).
    destruct (size_pass _ ts vs) as [[sz c1] a1].
    destruct (reserve cf _ _) as [[nd r] a2]. destruct r; cbn [allocs snd app]; left; reflexivity.
  - cbn [t_step]. rewrite (register_fresh cf s H). cbn. left. reflexivity.
Qed.

(* more cached lengths than the capacity of the size cache: the call allocates *)
Theorem over_capacity_allocates : forall mc cf s ts vs dyn,
  t_reg s = true -> iv_wf (t_cache s) -> needs_clear ts = true ->
  iv_cap (t_cache s) < N.of_nat (stmt_cached ts vs) ->
  exists newcap, In (AIvGrow newcap) (allocs (snd (log_step mc cf s ts vs dyn))).
Proof.
  intros mc cf s ts vs dyn Hr W Hn Hc. unfold log_step. rewrite (register_registered cf s Hr).
  destruct (size_pass_alloc (t_cache s) ts vs W Hn Hc) as [nc Hin].
  destruct (size_pass (t_cache s) ts vs) as [[sz c1] a1]. cbn [snd] in Hin.
  destruct (reserve cf _ _) as [[nd r] a2]. exists nc.
  destruct r; cbn [allocs snd app]; apply in_or_app; left; exact Hin.
Qed.

(* the record does not fit the current node of an unbounded queue: a node is allocated *)
Theorem no_fit_grows : forall mc cf s ts vs dyn,
  t_reg s = true -> c_unbounded cf = true ->
  fits (t_node s) (stmt_total ts vs dyn) = false ->
  c_max cf <? grow_cap 64 (n_cap (t_node s) * 2) (stmt_total ts vs dyn) = false ->
  exists cap, In (ANode cap) (allocs (snd (log_step mc cf s ts vs dyn))).
Proof.
  intros mc cf s ts vs dyn Hr Hu Hf Hm. unfold log_step. rewrite (register_registered cf s Hr).
  pose proof (size_pass_size (t_cache s) ts vs) as Hs.
  destruct (size_pass (t_cache s) ts vs) as [[sz c1] a1]. cbn [fst] in Hs. subst sz.
  fold (stmt_total ts vs dyn).
  pose proof (reserve_grows cf (t_node s) _ Hu Hf Hm) as Hg.
  destruct (reserve cf (t_node s) _) as [[nd r] a2]. cbn [snd] in Hg. subst a2.
  exists (npow2 (grow_cap 64 (n_cap (t_node s) * 2) (stmt_total ts vs dyn))).
  destruct r; cbn [allocs snd]; rewrite !in_app_iff; cbn [In]; auto 10.
Qed.

(* a bounded queue never allocates a node, whatever the record size *)
Theorem bounded_never_grows : forall mc cf s ts vs dyn, c_unbounded cf = false -> t_reg s = true ->
  forall a, In a (allocs (snd (log_step mc cf s ts vs dyn))) ->
  match a with ANode _ | AShrinkNode _ | AThrowMsg | ACtx => False | _ => True end.
Proof.
  intros mc cf s ts vs dyn Hb Hr a. unfold log_step. rewrite (register_registered cf s Hr).
  destruct (size_pass (t_cache s) ts vs) as [[sz c1] a1] eqn:Esp.
  pose proof (reserve_bounded cf (t_node s) (HEADER_SIZE + sz + dyn_size dyn) Hb) as Hz.
  destruct (reserve cf (t_node s) _) as [[nd r] a2]. cbn [snd] in Hz. subst a2.
  assert (Ha1 : forall x, In x a1 -> exists n, x = AIvGrow n).
  { unfold size_pass in Esp. destruct (size_zip (map size ts) vs) as [s0 pushed].
    set (c0 := if needs_clear ts then iv_clear (t_cache s) else t_cache s) in Esp.
    assert (G : forall l c x, In x (snd (iv_push_all l c)) -> exists n, x = AIvGrow n).
    { induction l as [|y l IH]; intros c x; cbn [iv_push_all]; [intros []|].
      destruct (iv_push y c) as [c1' b]. specialize (IH c1' x).
      destruct (iv_push_all l c1') as [c2 al]. cbn [snd] in *. intro Hin. apply in_app_or in Hin.
      destruct Hin as [Hin|Hin]; [destruct b; [destruct Hin as [<-|[]]; eauto | destruct Hin] | auto]. }
    specialize (G pushed c0). destruct (iv_push_all pushed c0) as [c1' al]. inversion Esp; subst. exact G. }
  assert (Hl : forall e x, In x (pass_allocs mc e ts vs) ->
                           match x with AUserCopy _ _ | APathString _ | ATempCopy _ _ => True | _ => False end).
  { intros e x Hin. unfold pass_allocs in Hin. apply in_app_or in Hin. destruct Hin as [Hin|Hin];
      [| apply in_flat_map in Hin; destruct Hin as (p & _ & Hin); unfold temp_alloc in Hin;
         destruct (copy_free (fst p)); [destruct Hin | destruct Hin as [<-|[]]; exact I]].
    apply in_flat_map in Hin. destruct Hin as ([t v] & _ & Hin). unfold leaf_alloc in Hin.
    destruct t as [k w| | |k| | |w a'| | | | | | |]; cbn in Hin; try contradiction.
    - destruct k; cbn in Hin; try contradiction. destruct v; cbn in Hin; try contradiction.
      destruct Hin as [<-|[]]. exact I.
    - destruct v; cbn in Hin; try contradiction. destruct e; cbn in Hin; try contradiction.
      destruct Hin as [<-|[]]. exact I. }
  intro Hin.
  assert (Hcases : In a a1 \/ In a (pass_allocs mc false ts vs) \/ In a (pass_allocs mc true ts vs)).
  { destruct r; cbn [allocs snd] in Hin; rewrite !in_app_iff in Hin; cbn [In] in Hin; tauto. }
  destruct Hcases as [H1|[H1|H1]].
  - destruct (Ha1 a H1) as [n ->]. exact I.
  - specialize (Hl false a H1). destruct a; auto.
  - specialize (Hl true a H1). destruct a; auto.
Qed.

(* ------------------------------------------------------------------ where formatting runs *)
Theorem format_on_backend : forall mc cf s ts vs dyn,
  Forall (fun e => e = (Caller, Direct)) (frontend_fmt_events mc cf s ts vs dyn) /\
  (forallb (fun t => negb (has_direct t)) ts = true -> frontend_fmt_events mc cf s ts vs dyn = []) /\
  (forall t, In t ts -> In (Backend, t) (backend_fmt_events ts)).
Proof.
  intros mc cf s ts vs dyn.
  assert (Hf : fmts (snd (log_step mc cf s ts vs dyn)) = flat_map leaf_fmt (stmt_leaves ts vs) ++ flat_map leaf_fmt (stmt_leaves ts vs)
               \/ fmts (snd (log_step mc cf s ts vs dyn)) = flat_map leaf_fmt (stmt_leaves ts vs)).
  { unfold log_step. destruct (register cf s) as [s0 a0].
    destruct (size_pass (t_cache s0) ts vs) as [[sz c1] a1].
    destruct (reserve cf (t_node s0) _) as [[nd r] a2]. destruct r; cbn [fmts snd]; auto. }
  pose proof (leaf_fmt_direct (stmt_leaves ts vs)) as Hd.
  split; [|split].
  - unfold frontend_fmt_events. destruct Hf as [-> | ->].
    + rewrite map_app. apply Forall_app.
      assert (G : Forall (fun e => e = (Caller, Direct)) (map (fun p : ty * val => (Caller, fst p)) (flat_map leaf_fmt (stmt_leaves ts vs)))).
      { apply Forall_map. eapply Forall_impl; [|exact Hd]. intros p Hp. now rewrite Hp. }
      auto.
    + apply Forall_map. eapply Forall_impl; [|exact Hd]. intros p Hp. now rewrite Hp.
  - intro Hn. unfold frontend_fmt_events. rewrite (no_direct_no_fmt ts vs Hn) in Hf. destruct Hf as [-> | ->]; reflexivity.
  - intros t Ht. unfold backend_fmt_events. apply in_map_iff. eauto.
Qed.

(* the kinds of the property's list are deferred: none of their codecs formats at the call site *)
Lemma deferred_kinds_not_on_caller :
  (forall k w, formats_on_caller (Fixed k w) = false) /\ formats_on_caller CStr = false /\
  (forall n, formats_on_caller (CharArr n) = false) /\ (forall k, formats_on_caller (LenStr k) = false) /\
  formats_on_caller StringRef = false /\ (forall w a, formats_on_caller (DeferredAligned w a) = false) /\
  (forall t, formats_on_caller t = true -> t = Direct).
Proof. repeat split; try reflexivity. intros t H. destruct t; try discriminate. reflexivity. Qed.

(* ================================================================== computed instances *)
(* a bounded (8 KiB) and an unbounded (2 KiB, at most 64 KiB) dropping frontend *)
Definition ex_bounded : cfg := {| c_unbounded := false; c_dropping := true; c_init := 8192; c_max := 0 |}.
Definition ex_unbounded : cfg := {| c_unbounded := true; c_dropping := true; c_init := 2048; c_max := 65536 |}.
Definition cstr (n : nat) : val := VB (repeat 97 n).
(* the state after preallocate() (the same in both variants) *)
Definition after_pre (cf : cfg) : tstate := fst (t_step false cf (t_init cf) OPre).

(* a nested statement with most kinds (C04's non-vacuity example without its non-trivially-copyable
   argument): its std::map<std::string, std::array<char[3], 2>> holds a 20-byte key (beyond SSO) *)
Definition ex11_ts : list ty :=
  [ Arith 4; CStr; CharArr 3; Str;
    Vec (Opt CStr);
    MapLike KMap Str (Arr 2 (CharArr 3));
    FwdList Direct;
    Tuple [Enum 1; Pair StrView Ptr; Seq KSet (Arith 2)];
    CStr; DeferredPOD 8 ].
Definition ex11_vs : list val :=
  [ VB [1; 2; 3; 4]; VB [104; 105; 0; 120]; VB [97; 98; 99]; VB (repeat 66 40);
    VL [VO (Some (VB [122])); VO None; VO (Some VNull)];
    VL [VL [VB (repeat 75 20); VL [VB [97; 0; 99]; VB [100; 101; 102]]]];
    VL [VB [85; 49]; VB []];
    VL [VB [9]; VL [VB [115; 118]; VB [1; 0; 0; 0; 0; 0; 0; 0]]; VL [VB [1; 0]; VB [2; 0]]];
    VNull; VB [1; 2; 3; 4; 5; 6; 7; 8] ].

Example steady_no_alloc_nonvacuous :
  reachable false ex_unbounded (after_pre ex_unbounded) /\ t_reg (after_pre ex_unbounded) = true /\
  wt_zip (map wt ex11_ts) ex11_vs /\
  stmt_cached ex11_ts ex11_vs = 10%nat /\
  fits (t_node (after_pre ex_unbounded)) (stmt_total ex11_ts ex11_vs true) = true /\
  forallb no_excluded ex11_ts = true /\ forallb map_ok ex11_ts = false /\ existsb has_direct ex11_ts = true /\
  allocs (snd (log_step false ex_unbounded (after_pre ex_unbounded) ex11_ts ex11_vs true)) = [].
Proof. split; [exists [OPre]; reflexivity | split; [reflexivity | split; [cbn; repeat split | vm_compute; repeat split]]]. Qed.

(* pinned variant: the same statement with the map keyed by an integer instead (copy-free key and
   mapped type) satisfies every hypothesis of the pinned statement *)
Definition ex11p_ts : list ty :=
  [ Arith 4; CStr; CharArr 3; Str;
    Vec (Opt CStr);
    MapLike KMap (Arith 2) (Arr 2 (CharArr 3));
    FwdList Direct;
    Tuple [Enum 1; Pair StrView Ptr; Seq KSet (Arith 2)];
    CStr; DeferredPOD 8 ].
Definition ex11p_vs : list val :=
  [ VB [1; 2; 3; 4]; VB [104; 105; 0; 120]; VB [97; 98; 99]; VB (repeat 66 40);
    VL [VO (Some (VB [122])); VO None; VO (Some VNull)];
    VL [VL [VB [7; 0]; VL [VB [97; 0; 99]; VB [100; 101; 102]]]];
    VL [VB [85; 49]; VB []];
    VL [VB [9]; VL [VB [115; 118]; VB [1; 0; 0; 0; 0; 0; 0; 0]]; VL [VB [1; 0]; VB [2; 0]]];
    VNull; VB [1; 2; 3; 4; 5; 6; 7; 8] ].

Example steady_no_alloc_nonvacuous_pinned :
  reachable true ex_unbounded (after_pre ex_unbounded) /\ t_reg (after_pre ex_unbounded) = true /\
  wt_zip (map wt ex11p_ts) ex11p_vs /\
  stmt_cached ex11p_ts ex11p_vs = 10%nat /\
  fits (t_node (after_pre ex_unbounded)) (stmt_total ex11p_ts ex11p_vs true) = true /\
  forallb no_excluded ex11p_ts = true /\ forallb map_ok ex11p_ts = true /\ existsb has_direct ex11p_ts = true /\
  allocs (snd (log_step true ex_unbounded (after_pre ex_unbounded) ex11p_ts ex11p_vs true)) = [].
Proof. split; [exists [OPre]; reflexivity | split; [reflexivity | split; [cbn; repeat split | vm_compute; repeat split]]]. Qed.

(* finding C11-F1 (fixed by the repair), kept as a statement about the PINNED variant: there the
   full-strength claim "standard containers of strings" is false: a std::map<uint32_t, std::string>
   (listed kinds only, no cached length, fits) copies every mapped string into a temporary pair, in
   the size pass and again in the encode pass.  The repaired variant allocates nothing on the same call. *)
Definition rf11_ts : list ty := [MapLike KMap (Arith 4) Str].
Definition rf11_vs : list val := [VL [VL [VB [1; 0; 0; 0]; VB (repeat 97 16)]]].
Theorem steady_no_alloc_refuted_map :
  let s := after_pre ex_bounded in
  reachable true ex_bounded s /\ t_reg s = true /\ wt_zip (map wt rf11_ts) rf11_vs /\
  stmt_cached rf11_ts rf11_vs = 0%nat /\ fits (t_node s) (stmt_total rf11_ts rf11_vs false) = true /\
  forallb no_excluded rf11_ts = true /\ forallb map_ok rf11_ts = false /\
  allocs (snd (log_step true ex_bounded s rf11_ts rf11_vs false)) = [ATempCopy Str (VB (repeat 97 16)); ATempCopy Str (VB (repeat 97 16))] /\
  allocs (snd (log_step false ex_bounded s rf11_ts rf11_vs false)) = [].
Proof. split; [exists [OPre]; reflexivity | split; [reflexivity | split; [cbn; repeat split | vm_compute; repeat split]]]. Qed.

(* twelve C strings: no allocation; a 13th cached length allocates (capacity 12 -> 24), also when
   the thirteen lengths come from ONE argument, a std::vector<char const*> of 13 elements *)
Theorem twelve_fit_thirteen_allocate :
  let s := after_pre ex_bounded in
  allocs (snd (log_step false ex_bounded s (repeat CStr 12) (repeat (cstr 20) 12) false)) = [] /\
  allocs (snd (log_step false ex_bounded s (repeat CStr 13) (repeat (cstr 20) 13) false)) = [AIvGrow 24] /\
  forallb no_excluded [Vec CStr] = true /\ cached_lengths (Vec CStr) (VL (repeat (cstr 3) 13)) = 13%nat /\
  fits (t_node s) (stmt_total [Vec CStr] [VL (repeat (cstr 3) 13)] false) = true /\
  allocs (snd (log_step false ex_bounded s [Vec CStr] [VL (repeat (cstr 3) 13)] false)) = [AIvGrow 24] /\
  allocs (snd (log_step false ex_bounded s [Vec CStr] [VL (repeat (cstr 3) 12)] false)) = [].
Proof. vm_compute. repeat split. Qed.

(* clear() keeps the capacity: the same 13-length statement does not allocate a second time *)
Theorem grown_cache_is_kept :
  let s1 := fst (log_step false ex_bounded (after_pre ex_bounded) (repeat CStr 13) (repeat (cstr 20) 13) false) in
  iv_cap (t_cache s1) = 24 /\
  allocs (snd (log_step false ex_bounded s1 (repeat CStr 13) (repeat (cstr 20) 13) false)) = [] /\
  iv_cap (t_cache (fst (log_step false ex_bounded s1 [CStr] [cstr 1] false))) = 24.
Proof. vm_compute. repeat split. Qed.

(* exact fit / miss by one on the unbounded queue: after preallocate() the 2048-byte node is filled
   with one string_view statement so that 100 bytes stay free; a statement of exactly 100 bytes fits,
   one of 101 bytes allocates a 4096-byte node; after the backend drained the node it fits again;
   shrink() allocates a node *)
Definition fill (n : N) : top := OLog [StrView] [VB (repeat 120 (N.to_nat n))] false.
Theorem fit_boundary :
  let s := fst (t_run false ex_unbounded (t_init ex_unbounded) [OPre; fill (2048 - 100 - 36)]) in
  stmt_total [StrView] [VB (repeat 120 64)] false = 100 /\
  fits (t_node s) 100 = true /\ fits (t_node s) 101 = false /\
  allocs (snd (log_step false ex_unbounded s [StrView] [VB (repeat 120 64)] false)) = [] /\
  allocs (snd (log_step false ex_unbounded s [StrView] [VB (repeat 120 65)] false)) = [ANode 4096] /\
  allocs (snd (log_step false ex_unbounded (fst (t_step false ex_unbounded s ODrain)) [StrView] [VB (repeat 120 65)] false)) = [] /\
  allocs (snd (t_step false ex_unbounded s (OShrink 1024))) = [AShrinkNode 1024] /\
  allocs (snd (t_step false ex_unbounded s (OShrink 2048))) = [] /\
  (* the same miss on the bounded queue: dropped, no allocation *)
  (let b := fst (t_run false ex_bounded (t_init ex_bounded) [OPre; fill (8192 - 100 - 36)]) in
   allocs (snd (log_step false ex_bounded b [StrView] [VB (repeat 120 65)] false)) = [] /\
   res (snd (log_step false ex_bounded b [StrView] [VB (repeat 120 65)] false)) = LDropped).
Proof. vm_compute. repeat split. Qed.

(* the excluded kinds are visible as allocation sources *)
Theorem excluded_kinds_allocate :
  let s := after_pre ex_bounded in
  allocs (snd (log_step false ex_bounded s [DeferredAligned 40 8] [VB (repeat 1 40)] false)) = [AUserCopy 40 8] /\
  allocs (snd (log_step false ex_bounded s [Path] [VB (repeat 47 30)] false)) = [APathString 30; APathString 30] /\
  allocs (snd (log_step false ex_bounded s [Vec (Opt Path)] [VL [VO (Some (VB (repeat 47 30)))]] false)) = [APathString 30; APathString 30].
Proof. vm_compute. repeat split. Qed.

(* a record larger than the maximum capacity of the unbounded queue: QuillError (its message is built on the caller) *)
Example oversize_throws :
  let out := snd (log_step false ex_unbounded (after_pre ex_unbounded) [StrView] [VB (repeat 120 (N.to_nat 70000))] false) in
  allocs out = [AThrowMsg] /\ res out = LThrow.
Proof. vm_compute. repeat split. Qed.

(* formatting: a statement with a direct-format argument formats exactly that argument on the caller, twice *)
Example direct_formats_on_caller :
  frontend_fmt_events false ex_bounded (after_pre ex_bounded) [Arith 4; Direct; DeferredPOD 8; Vec Direct]
    [VB [1; 0; 0; 0]; VB [65]; VB (repeat 0 8); VL [VB [66]; VB [67]]] false
  = repeat (Caller, Direct) 6.
Proof. vm_compute. reflexivity. Qed.
