(* Spinlock: mutual exclusion and happens-before between critical sections, for every schedule, when the exchange is
   an acquire and the unlock a release; refutations for weaker orders. *)
From Coq Require Import List Arith Bool Lia.
From Quill Require Import Registry.RegModel Registry.RegLemmas Registry.SpinModel.
Import ListNotations.

Lemma someone_in_false : forall l, someone_in l = false <-> forall t, in_cs (nth t l sthr0) = false.
Proof.
  intro l. unfold someone_in. induction l as [|x r IH]; cbn [existsb].
  - split; [intros _ t; destruct t; reflexivity | reflexivity].
  - rewrite orb_false_iff, IH. split.
    + intros [A B] t. destruct t; [exact A | exact (B t)].
    + intro H. split; [exact (H O) | intro t; exact (H (S t))].
Qed.

Record SpI (s : sp) : Prop := {
  sp_know : forall t, know (sth s t) <= dver s;
  sp_view : snd (last (hist s) (false, 0)) <= dver s;
  sp_in : forall t, in_cs (sth s t) = true ->
          know (sth s t) = dver s /\ fst (last (hist s) (false, 0)) = true /\ forall t', in_cs (sth s t') = true -> t' = t;
  sp_out : someone_in (sthrs s) = false -> last (hist s) (false, 0) = (false, dver s);
  sp_race : race s = false;
  sp_overlap : overlap s = false }.

Lemma spi_init : forall nt, SpI (sp0 nt).
Proof.
  intro nt.
  assert (T : forall t, sth (sp0 nt) t = sthr0).
  { intro t. unfold sth. cbn [sp0 sthrs]. destruct (nth_In_or_default _ t (repeat sthr0 nt) sthr0) as [E|E]; [exact E | exact (repeat_spec _ _ _ E)]. }
  constructor; cbn [sp0 hist dver race overlap last snd fst]; try reflexivity; try lia.
  - intro t. rewrite T. cbn. lia.
  - intros t H. rewrite T in H. discriminate.
Qed.

Lemma sth_upd_same : forall s t x, t < length (sthrs s) -> nth t (upd_nth t x (sthrs s)) sthr0 = x.
Proof. intros. apply nth_upd_same. assumption. Qed.

Lemma spi_step : forall o s op, ssufficient o = true -> SpI s -> SpI (sstep o s op).
Proof.
  intros o s op HO [HK HV HA HB HR HOv]. unfold ssufficient in HO. apply andb_true_iff in HO. destruct HO as [OX OU].
  destruct op as [t|t|t]; unfold sstep.
  - destruct ((t <? length (sthrs s)) && negb (in_cs (sth s t))) eqn:C; [|constructor; assumption].
    apply andb_true_iff in C. destruct C as [C1 C2]. apply Nat.ltb_lt in C1. apply negb_true_iff in C2.
    destruct (last (hist s) (false, 0)) as [v k] eqn:L. rewrite OX. cbn [snd fst] in *.
    destruct v.
    + constructor; cbn [hist sthrs dver race overlap]; unfold sth in *; cbn [sthrs]; rewrite ?last_last; cbn [fst snd]; try assumption.
      * intro t'. destruct (Nat.eq_dec t' t) as [->|N]; [rewrite nth_upd_same by exact C1; cbn [know]; specialize (HK t); lia | rewrite nth_upd_other by exact N; exact (HK t')].
      * intros t' H. destruct (Nat.eq_dec t' t) as [->|N]; [rewrite nth_upd_same in H by exact C1; discriminate|].
        rewrite nth_upd_other in * by exact N. destruct (HA _ H) as (A1 & A2 & A3). split; [exact A1|]. split; [reflexivity|].
        intros t'' H'. destruct (Nat.eq_dec t'' t) as [->|N']; [rewrite nth_upd_same in H' by exact C1; discriminate|].
        rewrite nth_upd_other in H' by exact N'. exact (A3 _ H').
      * intro H. exfalso. assert (HS : someone_in (sthrs s) = false).
        { apply someone_in_false. intro t'. rewrite someone_in_false in H. specialize (H t').
          destruct (Nat.eq_dec t' t) as [->|N]; [exact C2 | rewrite nth_upd_other in H by exact N; exact H]. }
        specialize (HB HS). congruence.
    + assert (HS : someone_in (sthrs s) = false).
      { apply someone_in_false. intro t'. destruct (in_cs (nth t' (sthrs s) sthr0)) eqn:E; [|reflexivity].
        destruct (HA _ E) as (_ & A2 & _). discriminate. }
      pose proof (HB HS) as HL. inversion HL. subst k.
      constructor; cbn [hist sthrs dver race overlap]; unfold sth in *; cbn [sthrs]; rewrite ?last_last; cbn [fst snd]; try assumption; try lia.
      * intro t'. destruct (Nat.eq_dec t' t) as [->|N]; [rewrite nth_upd_same by exact C1; cbn [know]; specialize (HK t); lia | rewrite nth_upd_other by exact N; exact (HK t')].
      * intros t' H. destruct (Nat.eq_dec t' t) as [->|N].
        -- rewrite nth_upd_same by exact C1. cbn [know]. split; [specialize (HK t); lia|]. split; [reflexivity|].
           intros t'' H'. destruct (Nat.eq_dec t'' t) as [->|N']; [reflexivity|]. rewrite nth_upd_other in H' by exact N'.
           rewrite someone_in_false in HS. rewrite (HS t'') in H'. discriminate.
        -- rewrite nth_upd_other in H by exact N. rewrite someone_in_false in HS. rewrite (HS t') in H. discriminate.
      * intro H. rewrite someone_in_false in H. specialize (H t). rewrite nth_upd_same in H by exact C1. discriminate.
      * rewrite HOv, HS. reflexivity.
  - destruct (in_cs (sth s t)) eqn:C; [|constructor; assumption].
    destruct (HA _ C) as (A1 & A2 & A3).
    assert (C1 : t < length (sthrs s)).
    { destruct (Nat.lt_ge_cases t (length (sthrs s))) as [L|L]; [exact L|]. unfold sth in C. rewrite nth_overflow in C by exact L. discriminate. }
    constructor; cbn [hist sthrs dver race overlap]; unfold sth in *; cbn [sthrs]; try assumption.
    * intro t'. destruct (Nat.eq_dec t' t) as [->|N]; [rewrite nth_upd_same by exact C1; cbn [know]; lia | rewrite nth_upd_other by exact N; specialize (HK t'); lia].
    * lia.
    * intros t' H. destruct (Nat.eq_dec t' t) as [->|N].
      -- rewrite nth_upd_same by exact C1. cbn [know]. split; [reflexivity|]. split; [exact A2|].
         intros t'' H'. destruct (Nat.eq_dec t'' t) as [->|N']; [reflexivity|]. rewrite nth_upd_other in H' by exact N'. exact (A3 _ H').
      -- rewrite nth_upd_other in H by exact N. exfalso. exact (N (A3 _ H)).
    * intro H. rewrite someone_in_false in H. specialize (H t). rewrite nth_upd_same in H by exact C1. discriminate.
    * rewrite HR, A1. rewrite Nat.leb_refl. reflexivity.
  - destruct (in_cs (sth s t)) eqn:C; [|constructor; assumption].
    destruct (HA _ C) as (A1 & A2 & A3). rewrite OU.
    assert (C1 : t < length (sthrs s)).
    { destruct (Nat.lt_ge_cases t (length (sthrs s))) as [L|L]; [exact L|]. unfold sth in C. rewrite nth_overflow in C by exact L. discriminate. }
    constructor; cbn [hist sthrs dver race overlap]; unfold sth in *; cbn [sthrs]; rewrite ?last_last; cbn [fst snd]; try assumption.
    * intro t'. destruct (Nat.eq_dec t' t) as [->|N]; [rewrite nth_upd_same by exact C1; cbn [know]; lia | rewrite nth_upd_other by exact N; exact (HK t')].
    * lia.
    * intros t' H. destruct (Nat.eq_dec t' t) as [->|N]; [rewrite nth_upd_same in H by exact C1; discriminate|].
      rewrite nth_upd_other in H by exact N. exfalso. exact (N (A3 _ H)).
    * intros _. rewrite A1. reflexivity.
Qed.

Lemma spin_mutex : forall o nt ops, ssufficient o = true -> let s := srun o (sp0 nt) ops in
  overlap s = false /\ race s = false /\ (forall t t', in_cs (sth s t) = true -> in_cs (sth s t') = true -> t = t').
Proof.
  intros o nt ops HO s.
  assert (I : SpI s).
  { unfold s, srun. generalize (spi_init nt). generalize (sp0 nt). induction ops as [|op r IH]; intros s0 I0; [exact I0|].
    cbn [fold_left]. apply IH. apply spi_step; assumption. }
  split; [exact (sp_overlap _ I)|]. split; [exact (sp_race _ I)|].
  intros t t' A B. destruct (sp_in _ I _ B) as (_ & _ & U). exact (U _ A).
Qed.

(* weaker orders: the second critical section does not see the first one's writes *)
Definition sp_trace : list sop := [SXchg 0; SCrit 0; SUnlock 0; SXchg 1; SCrit 1].
Lemma spin_relaxed_exchange_refuted : race (srun {| x_acq := false; u_rel := true |} (sp0 2) sp_trace) = true.
Proof. vm_compute. reflexivity. Qed.
Lemma spin_relaxed_unlock_refuted : race (srun {| x_acq := true; u_rel := false |} (sp0 2) sp_trace) = true.
Proof. vm_compute. reflexivity. Qed.
Example spin_good_run : let s := srun {| x_acq := true; u_rel := true |} (sp0 2) (sp_trace ++ [SXchg 0; SUnlock 1; SXchg 0; SCrit 0]) in
  race s = false /\ overlap s = false /\ dver s = 3 /\ in_cs (sth s 0) = true /\ in_cs (sth s 1) = false.
Proof. vm_compute. repeat split; reflexivity. Qed.
