(* M-REG: refutations of the defective variants (vm_compute witnesses), non-vacuity examples, and the link
   between the command layer run against the implementation and the micro-step schedules of the theorems. *)
From Coq Require Import List NArith Arith Bool Lia.
From Quill Require Import Registry.RegModel Registry.RegExec Registry.RegLemmas Registry.RegInv Registry.RegSafe Registry.RegTheorems.
Import ListNotations.
Local Open Scope N_scope.

(* everything harness/lg.cpp can drive is a micro-step schedule *)
Lemma exec_refines : forall K cs s, exists ops, exec K s cs = mrun K s ops.
Proof.
  intros K cs. induction cs as [|c r IH]; intro s; [exists []; reflexivity|].
  cbn [exec]. destruct (IH (mrun K s (cmd_ops K s c))) as [ops E]. exists (cmd_ops K s c ++ ops).
  rewrite E, mrun_app. reflexivity.
Qed.

(* decidable form of the contract *)
Definition valid_uid (s : st) (u : N) : bool := match find_uid u (lgs s) with Some L => l_valid L | None => false end.
Definition uses_okb (s : st) (o : mop) : bool :=
  match o with
  | FLog _ v _ | FRemove v | FRbReq _ v => match aget v (vars s) with Some u => valid_uid s u | None => true end
  | FRbMark t => match t_blk (th s t) with Some (u, _, false) => valid_uid s u | _ => true end
  | _ => true
  end.
Fixpoint contractb (K : cfg) (s : st) (ops : list mop) : bool :=
  match ops with [] => true | o :: r => uses_okb s o && contractb K (mstep K s o) r end.

Lemma valid_uid_ok : forall s u, valid_uid s u = true -> exists L, find_uid u (lgs s) = Some L /\ l_valid L = true.
Proof. intros s u H. unfold valid_uid in H. destruct (find_uid u (lgs s)) as [L|]; [exists L; tauto | discriminate]. Qed.

Lemma uses_okb_ok : forall s o, uses_okb s o = true -> uses_ok s o.
Proof.
  intros s o H. destruct o; cbn [uses_okb uses_ok] in *; try exact I.
  - intros u E. rewrite E in H. exact (valid_uid_ok _ _ H).
  - intros u E. rewrite E in H. exact (valid_uid_ok _ _ H).
  - intros u E. rewrite E in H. exact (valid_uid_ok _ _ H).
  - intros u f E. rewrite E in H. exact (valid_uid_ok _ _ H).
Qed.

Lemma contractb_ok : forall K ops s, contractb K s ops = true -> contract K s ops.
Proof.
  intros K ops. induction ops as [|o r IH]; intros s H; cbn [contractb contract] in *; [exact I|].
  apply andb_true_iff in H. destruct H as [H1 H2]. split; [exact (uses_okb_ok _ _ H1) | exact (IH _ H2)].
Qed.

Definition mk (gq gt rc fl pr gv : bool) : cfg :=
  {| c_guard_q := gq; c_guard_tb := gt; c_recheck := rc; c_flag_late := fl; c_prune := pr; c_get_valid := gv |}.
Definition cfg_no_q := mk false true true true true true.
Definition cfg_no_tb := mk true false true true true true.
Definition cfg_no_recheck := mk true true false true true true.
Definition cfg_flag_early := mk true true true false true true.
Definition cfg_no_prune := mk true true true true false true.
Definition cfg_get_any := mk true true true true true false.

(* "free when only the queues are empty": the statement already in the transit buffer is processed after its logger is gone *)
Definition w_no_tb : list mop :=
  [FCreateSink 0 0; FCreate 0 0 [0]; FLog 0 0 100; BRead 0; FRemove 0; BClean0; BClean1; BProc 0].
Lemma guard_tbuf_refuted : exists ops, contract cfg_no_tb (st0 1) ops /\ bad (mrun cfg_no_tb (st0 1) ops) = true.
Proof. exists w_no_tb. split; [apply contractb_ok; vm_compute; reflexivity | vm_compute; reflexivity]. Qed.

(* "free when only the transit buffers are empty": the queued record is read after its logger is gone *)
Definition w_no_q : list mop :=
  [FCreateSink 0 0; FCreate 0 0 [0]; FLog 0 0 100; FRemove 0; BClean0; BClean1; BRead 0].
Lemma guard_queue_refuted : exists ops, contract cfg_no_q (st0 1) ops /\ bad (mrun cfg_no_q (st0 1) ops) = true.
Proof. exists w_no_q. split; [apply contractb_ok; vm_compute; reflexivity | vm_compute; reflexivity]. Qed.

(* the guard evaluated once per clean-up instead of once per logger: a logger removed (after its last statement) while the
   loop is running is freed with that statement still queued *)
Definition w_no_recheck : list mop :=
  [FCreateSink 0 0; FCreate 0 0 [0]; FCreate 1 1 [0]; FRemove 0; BClean0; FLog 0 1 100; FRemove 1; BClean1; BClean1; BRead 0].
Lemma recheck_refuted : exists ops, contract cfg_no_recheck (st0 1) ops /\ bad (mrun cfg_no_recheck (st0 1) ops) = true.
Proof. exists w_no_recheck. split; [apply contractb_ok; vm_compute; reflexivity | vm_compute; reflexivity]. Qed.

(* "flag before erase": remove_logger_blocking returns while the logger is still registered; create_or_get of the name
   hands back the invalidated object with the old sink (object 1), not a new logger over the new sink (object 2) *)
Definition w_flag_early : list mop :=
  [FCreateSink 0 0; FCreateSink 1 1; FCreate 0 0 [0]; FRbReq 0 0; FRbMark 0; BRead 0; FWait 0; FCreate 0 0 [1]].
Lemma flag_before_erase_refuted :
  let s := mrun cfg_flag_early (st0 1) w_flag_early in
  contract cfg_flag_early (st0 1) w_flag_early /\ t_blk (th s 0) = None /\ elog s = [] /\ aget 0 (vars s) = Some 1 /\
  lgs s = [{| l_name := 0; l_uid := 1; l_valid := false; l_sinks := [1] |}].
Proof. cbv zeta. split; [apply contractb_ok; vm_compute; reflexivity | vm_compute; repeat split; reflexivity]. Qed.

(* without the contract (documented misuse: a name is created again while its asynchronous removal is pending) the
   caller is handed the invalidated logger, which the backend then frees under it *)
Definition w_limbo : list mop :=
  [FCreateSink 0 0; FCreate 0 0 [0]; FRemove 0; FCreate 0 0 [0]; BClean0; BClean1; BClean2; FLog 0 0 100].
Lemma recreate_while_pending_refuted :
  contractb cfg_good (st0 1) w_limbo = false /\ bad (mrun cfg_good (st0 1) w_limbo) = true /\
  aget 0 (vars (mrun cfg_good (st0 1) (firstn 4 w_limbo))) = Some 1.
Proof. vm_compute. repeat split; reflexivity. Qed.

(* get_logger without the validity test returns a logger that is about to be freed *)
Lemma get_invalid_refuted :
  aget 1 (vars (mrun cfg_get_any (st0 1) [FCreateSink 0 0; FCreate 0 0 [0]; FRemove 0; FGet 1 0])) = Some 1 /\
  aget 1 (vars (mrun cfg_good (st0 1) [FCreateSink 0 0; FCreate 0 0 [0]; FRemove 0; FGet 1 0])) = None.
Proof. vm_compute. split; reflexivity. Qed.

(* no cleanup_unused_sinks: the flag is stored while the expired entry of the destroyed sink is still in the table *)
Definition w_no_prune : list mop :=
  [FCreateSink 0 0; FCreate 0 0 [0]; FDrop 0; FRbReq 0 0; FRbMark 0; BRead 0; BProc 0; BClean0; BClean1; BClean2].
Lemma no_prune_refuted :
  let s := mrun cfg_no_prune (st0 1) w_no_prune in
  fset s = [1] /\ dlog s = [1] /\ stab s = [{| e_name := 0; e_uid := 1 |}] /\ live s = [] /\
  stab (mrun cfg_good (st0 1) w_no_prune) = [].
Proof. vm_compute. repeat split; reflexivity. Qed.

(* ------------------------------------------------------------------ non-vacuity: a run in which everything happens *)
Definition w_good : list mop :=
  [FCreateSink 0 0; FCreateSink 1 1; FCreate 0 0 [0; 1]; FCreate 1 1 [1]; FDrop 0; FDrop 1;
   FLog 0 0 100; FLog 1 0 101; FLog 1 1 102; FRbReq 0 0; FRbMark 0; FWait 0;
   BRead 0; BRead 0; BRead 1; BRead 1; BProc 0; BProc 1; BProc 1; BProc 0;
   BClean0; BClean1; BClean1; BClean2; FWait 0;
   FCreateSink 2 2; FCreate 0 0 [2]; FLog 0 0 103; FLog 0 1 104; BRead 0; BRead 0; BProc 0; BProc 0; FCount; FList].
Example good_run :
  let s := mrun cfg_good (st0 2) w_good in
  contract cfg_good (st0 2) w_good /\ bad s = false /\ elog s = [1] /\ fset s = [1] /\ dlog s = [1] /\
  t_blk (th s 0) = None /\ map l_uid (lgs s) = [3; 2] /\ live s = [3; 3; 2] /\
  wlog s = [(1, 1, 100); (2, 1, 100); (1, 1, 101); (2, 1, 101); (2, 2, 102); (3, 3, 103); (2, 2, 104)].
Proof. cbv zeta. split; [apply contractb_ok; vm_compute; reflexivity | vm_compute; repeat split; reflexivity]. Qed.
