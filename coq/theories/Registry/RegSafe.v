(* M-REG: the invariants that need the protocol of the source (good configuration): every queued or
   buffered record refers to a logger that is still in the registry, processed statements are written to
   every sink of their logger, and the book-keeping of the blocking removal (flags, names, requests). *)
From Coq Require Import List NArith Arith Bool Lia Sorted.
From Quill Require Import Registry.RegModel Registry.RegLemmas Registry.RegFrame Registry.RegInv.
Import ListNotations.
Local Open Scope N_scope.

Definition namedl (l : list lgr) (u n : N) : Prop := exists L, In L l /\ l_uid L = u /\ l_name L = n.

Lemma named_namedl : forall s u n, named s u n <-> namedl (lgs s) u n.
Proof. intros. unfold named, namedl. tauto. Qed.
Lemma namedl_insert : forall x l u n, namedl l u n -> namedl (lb_insert l_name x l) u n.
Proof. intros x l u n (L & A & B & C). exists L. split; [apply lb_insert_In; right; exact A | tauto]. Qed.
Lemma namedl_invalidate : forall v l u n, namedl l u n -> namedl (invalidate v l) u n.
Proof.
  intros v l u n (L & A & B & C). destruct (invalidate_In_rev v l L A) as (L' & A' & B' & C' & _).
  exists L'. split; [exact A' | split; congruence].
Qed.
Lemma namedl_find : forall l u n, namedl l u n -> exists L, find_uid u l = Some L.
Proof. intros l u n (L & A & B & _). exact (find_uid_present _ _ _ A B). Qed.
Lemma namedl_names : forall l u n, namedl l u n -> In n (map l_name l).
Proof. intros l u n (L & A & _ & C). rewrite <- C. apply in_map. exact A. Qed.

Lemma good_flags : forall K, good K = true ->
  c_guard_q K = true /\ c_guard_tb K = true /\ c_recheck K = true /\ c_flag_late K = true /\ c_prune K = true /\ c_get_valid K = true.
Proof. intros K H. unfold good in H. repeat (apply andb_true_iff in H; destruct H as [H ?]). tauto. Qed.

Lemma guard_good_empty : forall K s, good K = true -> guard K s = true -> forall t, pend (th s t) = [].
Proof.
  intros K s HK HG t. destruct (good_flags K HK) as (A & B & _). unfold guard in HG. rewrite A, B in HG. cbn [negb orb] in HG.
  apply andb_true_iff in HG. destruct HG as [G1 G2]. unfold pend. rewrite (all_q_empty_th _ G1), (all_tb_empty_th _ G2). reflexivity.
Qed.

Lemma sorted_del_name : forall i l (x : lgr), StronglySorted N.lt (map l_name l) -> nth_error l i = Some x ->
  ~ In (l_name x) (map l_name (del_nth i l)).
Proof.
  intros i l. revert i. induction l as [|z r IH]; intros i x HS H; [destruct i; discriminate|].
  cbn [map] in HS. apply StronglySorted_inv in HS. destruct HS as [H1 H2]. rewrite Forall_forall in H2.
  destruct i; cbn [nth_error del_nth] in *.
  - inversion H. subst. intro C. specialize (H2 _ C). lia.
  - cbn [map]. intros [C|C].
    + assert (In (l_name x) (map l_name r)) by (apply in_map; exact (nth_error_In _ _ H)). specialize (H2 _ H0). lia.
    + exact (IH _ _ H1 H C).
Qed.

Lemma write_sinks_wlog : forall ss lg m s, wlog (write_sinks ss lg m s) = wlog s ++ map (fun x => (x, lg, m)) ss.
Proof.
  intros ss lg m. induction ss as [|x r IH]; intro s; cbn [write_sinks map]; [rewrite app_nil_r; reflexivity|].
  rewrite IH. destruct (memN x (live s)); sst; rewrite <- app_assoc; reflexivity.
Qed.

Lemma store_flags_fset : forall ns s f, In f (fset (store_flags ns s)) ->
  In f (fset s) \/ exists n, In n ns /\ aget n (rflags s) = Some f.
Proof.
  intro ns. induction ns as [|n r IH]; intros s f H; cbn [store_flags] in H; [left; exact H|].
  apply IH in H. destruct (aget n (rflags s)) as [f0|] eqn:E.
  - sst_in H. destruct H as [H|(n' & A & B)].
    + apply in_app_or in H. destruct H as [H|[H|[]]]; [left; exact H|]. subst f0. right. exists n. split; [left; reflexivity | exact E].
    + right. exists n'. split; [right; exact A|]. destruct (N.eq_dec n' n) as [->|Hne]; [rewrite aget_adel_same in B; discriminate|].
      rewrite aget_adel_other in B by exact Hne. exact B.
  - destruct H as [H|(n' & A & B)]; [left; exact H | right; exists n'; split; [right; exact A | exact B]].
Qed.

Lemma store_flags_rflags : forall ns s n f, aget n (rflags (store_flags ns s)) = Some f -> aget n (rflags s) = Some f.
Proof.
  intro ns. induction ns as [|x r IH]; intros s n f H; cbn [store_flags] in H; [exact H|].
  apply IH in H. destruct (aget x (rflags s)) as [f0|] eqn:E; [|exact H]. sst_in H.
  destruct (N.eq_dec n x) as [->|Hne]; [rewrite aget_adel_same in H; discriminate|].
  rewrite aget_adel_other in H by exact Hne. exact H.
Qed.

Lemma store_flags_fset_mono : forall ns s f, In f (fset s) -> In f (fset (store_flags ns s)).
Proof.
  intro ns. induction ns as [|x r IH]; intros s f H; cbn [store_flags]; [exact H|].
  apply IH. destruct (aget x (rflags s)); [sst; apply in_or_app; left; exact H | exact H].
Qed.

Record GInv (s : st) : Prop := {
  g_refs : forall t r, In r (pend (th s t)) -> namedl (lgs s) (r_lg r) (r_name r);
  g_written : forall t r, In (t, r) (plog s) -> r_kind r = KLog -> forall L0, In L0 (glog s) -> l_uid L0 = r_lg r ->
              forall S, In S (l_sinks L0) -> In (S, r_lg r, r_val r) (wlog s);
  g_flag_lt : forall t r, In (t, r) (clog s) -> r_kind r = KRem -> r_val r < nfl s;
  g_flag_uniq : forall t1 r1 t2 r2, In (t1, r1) (clog s) -> In (t2, r2) (clog s) -> r_kind r1 = KRem -> r_kind r2 = KRem ->
                r_val r1 = r_val r2 -> r1 = r2;
  g_fset_lt : forall f, In f (fset s) -> f < nfl s;
  g_fset : forall t r, In (t, r) (clog s) -> r_kind r = KRem -> In (r_val r) (fset s) -> In (r_lg r) (elog s);
  g_map : forall t r, In (t, r) (clog s) -> r_kind r = KRem -> aget (r_name r) (rflags s) = Some (r_val r) ->
          namedl (lgs s) (r_lg r) (r_name r) \/ In (r_lg r) (elog s);
  g_map_src : forall n f, aget n (rflags s) = Some f -> exists t r, In (t, r) (clog s) /\ r_kind r = KRem /\ r_val r = f /\ r_name r = n;
  g_rem : forall i rem g, pc s = Some (i, rem, g) -> forall n, In n rem -> ~ In n (names s);
  g_blk : forall t u f b, t_blk (th s t) = Some (u, f, b) -> exists r, In (t, r) (clog s) /\ r_kind r = KRem /\ r_lg r = u /\ r_val r = f }.

Lemma ginv_init : forall nt, GInv (st0 nt).
Proof.
  intro nt.
  assert (T : forall t, th (st0 nt) t = thr0).
  { intro t. unfold th. cbn [st0 ths]. destruct (nth_In_or_default _ t (repeat thr0 nt) thr0) as [E|E]; [exact E | exact (repeat_spec _ _ _ E)]. }
  constructor; cbn [st0 plog clog rflags pc fset].
  - intros t r. rewrite T. intros [].
  - intros t r [].
  - intros t r [].
  - intros t1 r1 t2 r2 [].
  - intros f [].
  - intros t r [].
  - intros t r [].
  - intros n f. cbn [aget]. discriminate.
  - discriminate.
  - intros t u f b. rewrite T. cbn. discriminate.
Qed.

Lemma pend_in_clog : forall s t r, Inv s -> In r (pend (th s t)) -> In (t, r) (clog s).
Proof. intros s t r I H. apply proj_In. rewrite (i_cons _ I t). apply in_or_app. right. exact H. Qed.
Lemma plog_in_clog : forall s t r, Inv s -> In (t, r) (plog s) -> In (t, r) (clog s).
Proof. intros s t r I H. apply proj_In. rewrite (i_cons _ I t). apply in_or_app. left. apply In_proj. exact H. Qed.

Ltac gk K HK := destruct (good_flags K HK) as (Kq & Ktb & Krc & Kfl & Kpr & Kgv).
Ltac rwk := repeat match goal with H : ?f ?K = true |- context [?f ?K] => rewrite H end.
Ltac stepk := unfold mstep; rwk; repeat dm; nrm.

Lemma pend_mem : forall x r, In r (pend x) <-> In r (t_tb x) \/ In r (t_q x).
Proof. intros. unfold pend. apply in_app_iff. Qed.

(* a hypothesis  In r (pend (nth t' (upd_nth t x (ths s)) thr0))  split into "the updated thread / another one" *)
Ltac th_hyp Hr := revert Hr; th_auto; intro Hr; rewrite ?pend_mem in Hr; cbn [t_q t_tb t_blk] in Hr; rewrite ?in_app_iff in Hr; cbn [In] in Hr.
Ltac use_q := repeat match goal with
  | E : t_q (nth ?t (ths ?s) thr0) = _ |- _ => rewrite E
  | E : t_tb (nth ?t (ths ?s) thr0) = _ |- _ => rewrite E end.
Ltac old_rec H t := (apply (H t); rewrite pend_mem; use_q; cbn [In]; rewrite ?in_app_iff; cbn [In]; tauto).

Lemma refs_step : forall K s o, good K = true -> Inv s -> GInv s ->
  forall t' r, In r (pend (th (mstep K s o) t')) -> namedl (lgs (mstep K s o)) (r_lg r) (r_name r).
Proof.
  intros K s o HK I G t'. pose proof (g_refs _ G) as H. gk K HK.
  destruct o; stepk; try (exact (H t')).
  - intros r Hr. apply namedl_insert. exact (H _ _ Hr).
  - intros r Hr. th_hyp Hr; [|old_rec H t'].
    destruct Hr as [Hr|[Hr|[Hr|[]]]]; try old_rec H t. subst r. cbn [r_lg r_name].
    match goal with F : find_uid _ _ = Some _ |- _ => destruct (find_uid_Some _ _ _ F) as [A B] end.
    eexists. split; [exact A | split; [exact B | reflexivity]].
  - intros r Hr. apply namedl_invalidate. exact (H _ _ Hr).
  - intros r Hr. th_hyp Hr.
    + destruct Hr as [Hr|[Hr|[Hr|[]]]]; try old_rec H t. subst r. cbn [r_lg r_name].
      match goal with F : find_uid _ _ = Some _ |- _ => destruct (find_uid_Some _ _ _ F) as [A B] end.
      eexists. split; [exact A | split; [exact B | reflexivity]].
    + old_rec H t'.
  - intros r0 Hr. apply namedl_invalidate. th_hyp Hr; [old_rec H t | old_rec H t'].
  - intros r0 Hr. th_hyp Hr; [old_rec H t | old_rec H t'].
  - intros r0 Hr. th_hyp Hr; [old_rec H t | old_rec H t'].
  - intros r0 Hr. th_hyp Hr; [old_rec H t | old_rec H t'].
  - intros r0 Hr. th_hyp Hr; [old_rec H t | old_rec H t'].
  - intros r0 Hr. th_hyp Hr; [old_rec H t | old_rec H t'].
  - intros r0 Hr. th_hyp Hr; [old_rec H t | old_rec H t'].
  - intros r0 Hr. th_hyp Hr; [old_rec H t | old_rec H t'].
  - intros r0 Hr. th_hyp Hr; [old_rec H t | old_rec H t'].
  - intros r0 Hr. th_hyp Hr; [old_rec H t | old_rec H t'].
  - intros r Hr. exfalso.
    match goal with G0 : guard K s = true |- _ => pose proof (guard_good_empty K s HK G0 t') as Z end.
    unfold th in Z. rewrite Z in Hr. destruct Hr.
Qed.

Lemma written_step : forall K s o, good K = true -> Inv s -> GInv s ->
  forall t r, In (t, r) (plog (mstep K s o)) -> r_kind r = KLog -> forall L0, In L0 (glog (mstep K s o)) -> l_uid L0 = r_lg r ->
  forall S, In S (l_sinks L0) -> In (S, r_lg r, r_val r) (wlog (mstep K s o)).
Proof.
  intros K s o HK I G. pose proof (g_written _ G) as H. gk K HK.
  destruct o; stepk; try (exact H).
  - intros t r Hp Hk L0 HL0 HE S HS. apply in_app_or in HL0. destruct HL0 as [HL0|[<-|[]]]; [exact (H _ _ Hp Hk _ HL0 HE _ HS)|].
    exfalso. pose proof (i_clog_lt _ I _ _ (plog_in_clog _ _ _ I Hp)) as Hlt. cbn [l_uid] in HE. lia.
  - intros t0 r0 Hp Hk L0 HL0 HE S HS. rewrite write_sinks_wlog. sst. apply in_or_app.
    apply in_app_or in Hp. destruct Hp as [Hp|[Hp|[]]]; [left; exact (H _ _ Hp Hk _ HL0 HE _ HS)|].
    inversion Hp. subst t0 r0. right.
    match goal with F : find_uid _ _ = Some _ |- _ => destruct (find_uid_Some _ _ _ F) as [A B] end.
    destruct (i_glog _ I _ _ A HL0) as [C _]; [congruence|]. rewrite <- C.
    apply (in_map (fun x => (x, r_lg r, r_val r))). exact HS.
  - intros t0 r0 Hp Hk L0 HL0 HE S HS.
    apply in_app_or in Hp. destruct Hp as [Hp|[Hp|[]]]; [exact (H _ _ Hp Hk _ HL0 HE _ HS)|].
    inversion Hp. subst t0 r0. exfalso.
    assert (Hin : In r (pend (th s t))) by (unfold th; rewrite pend_mem; use_q; left; left; reflexivity).
    destruct (namedl_find _ _ _ (g_refs _ G _ _ Hin)) as [L1 F1]. congruence.
  - intros t0 r0 Hp Hk L0 HL0 HE S HS.
    apply in_app_or in Hp. destruct Hp as [Hp|[Hp|[]]]; [exact (H _ _ Hp Hk _ HL0 HE _ HS)|].
    inversion Hp. subst t0 r0. congruence.
Qed.

Lemma flag_lt_step : forall K s o, good K = true -> Inv s -> GInv s ->
  forall t r, In (t, r) (clog (mstep K s o)) -> r_kind r = KRem -> r_val r < nfl (mstep K s o).
Proof.
  intros K s o HK I G. pose proof (g_flag_lt _ G) as H. gk K HK.
  destruct o; stepk; try (exact H).
  - intros t0 r Hr Hk. apply in_app_or in Hr. destruct Hr as [Hr|[Hr|[]]]; [exact (H _ _ Hr Hk)|]. inversion Hr. subst. discriminate.
  - intros t0 r Hr Hk. apply in_app_or in Hr. destruct Hr as [Hr|[Hr|[]]]; [specialize (H _ _ Hr Hk); lia|]. inversion Hr. subst. cbn [r_val]. lia.
Qed.

Lemma flag_uniq_step : forall K s o, good K = true -> Inv s -> GInv s ->
  forall t1 r1 t2 r2, In (t1, r1) (clog (mstep K s o)) -> In (t2, r2) (clog (mstep K s o)) -> r_kind r1 = KRem -> r_kind r2 = KRem ->
  r_val r1 = r_val r2 -> r1 = r2.
Proof.
  intros K s o HK I G. pose proof (g_flag_uniq _ G) as H. pose proof (g_flag_lt _ G) as H1. gk K HK.
  destruct o; stepk; try (exact H).
  - intros t1 r1 t2 r2 A B K1 K2 HE. apply in_app_or in A. apply in_app_or in B.
    destruct A as [A|[A|[]]]; destruct B as [B|[B|[]]].
    + exact (H _ _ _ _ A B K1 K2 HE).
    + inversion B. subst. discriminate.
    + inversion A. subst. discriminate.
    + congruence.
  - intros t1 r1 t2 r2 A B K1 K2 HE. apply in_app_or in A. apply in_app_or in B.
    destruct A as [A|[A|[]]]; destruct B as [B|[B|[]]].
    + exact (H _ _ _ _ A B K1 K2 HE).
    + inversion B. subst t2 r2. cbn [r_val] in HE. specialize (H1 _ _ A K1). lia.
    + inversion A. subst t1 r1. cbn [r_val] in HE. specialize (H1 _ _ B K2). lia.
    + congruence.
Qed.

Lemma map_src_step : forall K s o, good K = true -> Inv s -> GInv s ->
  forall n f, aget n (rflags (mstep K s o)) = Some f ->
  exists t r, In (t, r) (clog (mstep K s o)) /\ r_kind r = KRem /\ r_val r = f /\ r_name r = n.
Proof.
  intros K s o HK I G. pose proof (g_map_src _ G) as H. gk K HK.
  destruct o; stepk; try (exact H).
  - intros n0 f Hf. destruct (H _ _ Hf) as (t0 & r & A & B). exists t0, r. split; [apply in_or_app; left; exact A | exact B].
  - intros n0 f Hf. destruct (H _ _ Hf) as (t0 & r & A & B). exists t0, r. split; [apply in_or_app; left; exact A | exact B].
  - intros n0 f Hf. apply aget_aemplace in Hf. destruct Hf as [Hf|(-> & -> & _)]; [exact (H _ _ Hf)|].
    exists t, r. split; [|tauto]. apply (pend_in_clog _ _ _ I). unfold th. rewrite pend_mem. use_q. right. left. reflexivity.
  - intros n0 f Hf. apply aget_aemplace in Hf. destruct Hf as [Hf|(-> & -> & _)]; [exact (H _ _ Hf)|].
    exists t, r. split; [|tauto]. apply (pend_in_clog _ _ _ I). unfold th. rewrite pend_mem. use_q. right. left. reflexivity.
  - intros n1 f Hf. apply store_flags_rflags in Hf. sst_in Hf. exact (H _ _ Hf).
Qed.

Lemma fset_lt_step : forall K s o, good K = true -> Inv s -> GInv s ->
  forall f, In f (fset (mstep K s o)) -> f < nfl (mstep K s o).
Proof.
  intros K s o HK I G. pose proof (g_fset_lt _ G) as H. gk K HK.
  destruct o; stepk; try (exact H).
  - intros f Hf. specialize (H _ Hf). lia.
  - intros f Hf. apply store_flags_fset in Hf. sst_in Hf. destruct Hf as [Hf|(n1 & A & B)]; [exact (H _ Hf)|].
    destruct (g_map_src _ G _ _ B) as (t & r & C & D & <- & _). exact (g_flag_lt _ G _ _ C D).
Qed.

Lemma fset_step : forall K s o, good K = true -> Inv s -> GInv s ->
  forall t r, In (t, r) (clog (mstep K s o)) -> r_kind r = KRem -> In (r_val r) (fset (mstep K s o)) -> In (r_lg r) (elog (mstep K s o)).
Proof.
  intros K s o HK I G. pose proof (g_fset _ G) as H. gk K HK.
  destruct o; stepk; try (exact H).
  - intros t0 r Hr Hk Hf. apply in_app_or in Hr. destruct Hr as [Hr|[Hr|[]]]; [exact (H _ _ Hr Hk Hf)|]. inversion Hr. subst. discriminate.
  - intros t0 r Hr Hk Hf. apply in_app_or in Hr. destruct Hr as [Hr|[Hr|[]]]; [exact (H _ _ Hr Hk Hf)|]. inversion Hr. subst t0 r.
    cbn [r_val] in Hf. pose proof (g_fset_lt _ G _ Hf). lia.
  - intros t r Hr Hk Hf. apply in_or_app. left. exact (H _ _ Hr Hk Hf).
  - intros t r Hr Hk Hf. apply store_flags_fset in Hf. sst_in Hf. destruct Hf as [Hf|(n1 & A & B)]; [exact (H _ _ Hr Hk Hf)|].
    destruct (g_map_src _ G _ _ B) as (t1 & r1 & C & D & E5 & E6).
    assert (r1 = r) by (apply (g_flag_uniq _ G _ _ _ _ C Hr D Hk); exact E5). subst r1.
    assert (M : aget (r_name r) (rflags s) = Some (r_val r)) by (rewrite E6; exact B).
    destruct (g_map _ G _ _ Hr Hk M) as [Hn|He]; [|exact He]. exfalso.
    match goal with P : pc s = Some _ |- _ => apply (g_rem _ G _ _ _ P n1 A) end.
    rewrite <- E6. exact (namedl_names _ _ _ Hn).
Qed.

Lemma map_step : forall K s o, good K = true -> Inv s -> GInv s ->
  forall t r, In (t, r) (clog (mstep K s o)) -> r_kind r = KRem -> aget (r_name r) (rflags (mstep K s o)) = Some (r_val r) ->
  namedl (lgs (mstep K s o)) (r_lg r) (r_name r) \/ In (r_lg r) (elog (mstep K s o)).
Proof.
  intros K s o HK I G. pose proof (g_map _ G) as H. gk K HK.
  destruct o; stepk; try (exact H).
  - intros t r Hr Hk Hm. destruct (H _ _ Hr Hk Hm) as [A|A]; [left; apply namedl_insert; exact A | right; exact A].
  - intros t0 r Hr Hk Hm. apply in_app_or in Hr. destruct Hr as [Hr|[Hr|[]]]; [exact (H _ _ Hr Hk Hm)|]. inversion Hr. subst. discriminate.
  - intros t r Hr Hk Hm. destruct (H _ _ Hr Hk Hm) as [A|A]; [left; apply namedl_invalidate; exact A | right; exact A].
  - intros t0 r Hr Hk Hm. apply in_app_or in Hr. destruct Hr as [Hr|[Hr|[]]]; [exact (H _ _ Hr Hk Hm)|]. inversion Hr. subst t0 r.
    cbn [r_name r_val] in Hm. destruct (g_map_src _ G _ _ Hm) as (t1 & r1 & C & D & E5 & _).
    pose proof (g_flag_lt _ G _ _ C D). lia.
  - intros t0 r Hr Hk Hm. destruct (H _ _ Hr Hk Hm) as [A|A]; [left; apply namedl_invalidate; exact A | right; exact A].
  - intros t0 r0 Hr Hk Hm. apply aget_aemplace in Hm. destruct Hm as [Hm|(En & Ev & _)]; [exact (H _ _ Hr Hk Hm)|].
    assert (Hin : In r (pend (th s t))) by (unfold th; rewrite pend_mem; use_q; right; left; reflexivity).
    assert (r0 = r) by (apply (g_flag_uniq _ G _ _ _ _ Hr (pend_in_clog _ _ _ I Hin) Hk); [assumption | exact Ev]). subst r0.
    left. exact (g_refs _ G _ _ Hin).
  - intros t0 r0 Hr Hk Hm. apply aget_aemplace in Hm. destruct Hm as [Hm|(En & Ev & _)]; [exact (H _ _ Hr Hk Hm)|].
    assert (Hin : In r (pend (th s t))) by (unfold th; rewrite pend_mem; use_q; right; left; reflexivity).
    assert (r0 = r) by (apply (g_flag_uniq _ G _ _ _ _ Hr (pend_in_clog _ _ _ I Hin) Hk); [assumption | exact Ev]). subst r0.
    left. exact (g_refs _ G _ _ Hin).
  - intros t r Hr Hk Hm. destruct (H _ _ Hr Hk Hm) as [(L & A & B & C)|A]; [|right; apply in_or_app; left; exact A].
    match goal with P : nth_error (lgs s) _ = Some _ |- _ => destruct (nth_error_In_del _ _ _ _ _ P A) as [->|A'] end.
    + right. apply in_or_app. right. left. exact B.
    + left. exists L. tauto.
  - intros t r Hr Hk Hm. apply store_flags_rflags in Hm. sst_in Hm. exact (H _ _ Hr Hk Hm).
Qed.

Lemma rem_step : forall K s o, good K = true -> Inv s -> GInv s ->
  forall i rem g, pc (mstep K s o) = Some (i, rem, g) -> forall n, In n rem -> ~ In n (names (mstep K s o)).
Proof.
  intros K s o HK I G. pose proof (g_rem _ G) as H. gk K HK. unfold names in *.
  destruct o; stepk; try (exact H); try discriminate;
    try (match goal with P : pc s = _ |- _ => rewrite <- P in H end; exact H).
  - intros i rem g P. unfold locked in E. rewrite P in E. discriminate.
  - intros i rem g P n0 Hn. rewrite invalidate_names. exact (H _ _ _ P _ Hn).
  - intros i rem g P n1 Hn. rewrite invalidate_names. exact (H _ _ _ P _ Hn).
  - intros i rem g P n0 Hn. inversion P. subst. destruct Hn.
  - intros i rem g P n0 Hn. inversion P. subst. exact (H _ _ _ eq_refl _ Hn).
  - intros i rem g P n0 Hn. inversion P. subst. intro C. apply in_app_or in Hn. destruct Hn as [Hn|[Hn|[]]].
    + apply (H _ _ _ eq_refl _ Hn).
      rewrite in_map_iff in *. destruct C as (x & A & B). exists x. split; [exact A | exact (del_nth_In _ _ _ _ B)].
    + subst n0. match goal with Q : nth_error (lgs s) _ = Some _ |- _ => exact (sorted_del_name _ _ _ (i_sorted _ I) Q C) end.
  - intros i rem g P n0 Hn. inversion P. subst. exact (H _ _ _ eq_refl _ Hn).
Qed.

Lemma blk_step : forall K s o, good K = true -> Inv s -> GInv s ->
  forall t' u f b, t_blk (th (mstep K s o) t') = Some (u, f, b) ->
  exists r, In (t', r) (clog (mstep K s o)) /\ r_kind r = KRem /\ r_lg r = u /\ r_val r = f.
Proof.
  intros K s o HK I G t'. pose proof (g_blk _ G) as H. gk K HK.
  destruct o; stepk; try (exact (H t')).
  all: intros u1 f1 b1; th_auto; cbn [t_blk];
    try (let Hb := fresh "Hb" in intro Hb; first [discriminate Hb |
         (destruct (H _ _ _ _ Hb) as (r1 & A1 & B1); exists r1; split; [try (apply in_or_app; left); exact A1 | exact B1])]).
  - intro Hb. inversion Hb. subst. eexists. split; [apply in_or_app; right; left; reflexivity | cbn; tauto].
  - intro Hb. inversion Hb. subst. match goal with Q : t_blk (nth t (ths s) thr0) = Some _ |- _ => exact (H _ _ _ _ Q) end.
  - intro Hb. inversion Hb. subst. match goal with Q : t_blk (nth t (ths s) thr0) = Some _ |- _ => exact (H _ _ _ _ Q) end.
Qed.

Lemma ginv_step : forall K s o, good K = true -> Inv s -> GInv s -> GInv (mstep K s o).
Proof.
  intros K s o HK I G. constructor.
  - exact (refs_step K s o HK I G).
  - exact (written_step K s o HK I G).
  - exact (flag_lt_step K s o HK I G).
  - exact (flag_uniq_step K s o HK I G).
  - exact (fset_lt_step K s o HK I G).
  - exact (fset_step K s o HK I G).
  - exact (map_step K s o HK I G).
  - exact (map_src_step K s o HK I G).
  - exact (rem_step K s o HK I G).
  - exact (blk_step K s o HK I G).
Qed.

Lemma ginv_run : forall K s ops, good K = true -> Inv s -> GInv s -> Inv (mrun K s ops) /\ GInv (mrun K s ops).
Proof.
  intros K s ops HK. revert s. induction ops as [|o r IH]; intros s I G; [split; assumption|].
  cbn [mrun fold_left]. apply IH; [apply inv_step; exact I | apply ginv_step; assumption].
Qed.
