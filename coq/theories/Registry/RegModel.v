(* M-REG: executable model of the logger / sink registries of quill and of the removal protocol
   (include/quill/core/LoggerManager.h, SinkManager.h, Frontend.h remove_logger / remove_logger_blocking,
   backend/BackendWorker.h _cleanup_invalidated_loggers, _logger_removal_flags,
   _check_frontend_queues_and_cached_transit_events_empty).  Definitions only.

   Abstraction level:
   - the per-thread SPSC queue and the transit event buffer are FIFO lists of records (the byte level
     queue is C01/C02's subject); a record carries what the backend dereferences: the LoggerBase pointer
     (here: the logger's creation number, "uid"), the payload and the event kind;
   - a logger object is identified by its creation number, a sink object likewise; names are numbers
     (the harness uses fixed-width decimal names, so that string order = numeric order);
   - shared_ptr<Sink> ownership is a multiset [live]: one entry per owner (the use count in unary);
     weak_ptr entries of SinkManager are expired iff their sink is not in [live];
   - every frontend call that runs under the LoggerManager spinlock is one atomic step and is disabled
     while the backend is inside the clean-up loop (which holds the lock); remove_logger (mark_invalid)
     and log calls take no lock and stay enabled;
   - the backend is a set of micro-steps that may be scheduled in any order (every op list is a
     schedule): read one record, process one event, begin / one iteration / end of the clean-up loop.
   Defective variants of the source are selected by the configuration record. *)
From Coq Require Import List NArith Arith Bool.
Import ListNotations.
Local Open Scope N_scope.

(* ------------------------------------------------------------------ configuration (from SrcFacts) *)
Record cfg := {
  c_guard_q : bool;    (* the clean-up guard looks at every frontend queue *)
  c_guard_tb : bool;   (* ... and at every transit event buffer *)
  c_recheck : bool;    (* the guard is evaluated again for each invalid logger (not once per clean-up) *)
  c_flag_late : bool;  (* the removal flag is stored after erase + sink clean-up, not when the request is read *)
  c_prune : bool;      (* cleanup_unused_sinks runs after loggers were erased, before the flags are stored *)
  c_get_valid : bool   (* get_logger returns valid loggers only *)
}.
Definition good (K : cfg) : bool :=
  c_guard_q K && c_guard_tb K && c_recheck K && c_flag_late K && c_prune K && c_get_valid K.
Definition cfg_good : cfg :=
  {| c_guard_q := true; c_guard_tb := true; c_recheck := true; c_flag_late := true; c_prune := true; c_get_valid := true |}.

(* ------------------------------------------------------------------ data *)
Inductive rkind := KLog | KRem.
Record rcd := { r_kind : rkind; r_lg : N (* LoggerBase* *); r_val : N (* message id / flag id *);
                r_name : N (* logger name (removal request) *); r_ts : N }.
Record lgr := { l_name : N; l_uid : N; l_valid : bool; l_sinks : list N }.
Record sent := { e_name : N; e_uid : N }.     (* SinkInfo: sink_id, weak_ptr *)
Record thr := { t_q : list rcd; t_tb : list rcd; t_blk : option (N * N * bool) (* logger, flag, invalidated yet *) }.
Definition thr0 : thr := {| t_q := []; t_tb := []; t_blk := None |}.

Fixpoint memN (x : N) (l : list N) : bool :=
  match l with [] => false | y :: r => (y =? x) || memN x r end.
Fixpoint remove_one (x : N) (l : list N) : list N :=
  match l with [] => [] | y :: r => if y =? x then r else y :: remove_one x r end.
Fixpoint aget (k : N) (l : list (N * N)) : option N :=
  match l with [] => None | (a, b) :: r => if a =? k then Some b else aget k r end.
Fixpoint adel (k : N) (l : list (N * N)) : list (N * N) :=
  match l with [] => [] | (a, b) :: r => if a =? k then adel k r else (a, b) :: adel k r end.
Definition aset (k v : N) (l : list (N * N)) : list (N * N) := (k, v) :: adel k l.
Fixpoint adel1 (k : N) (l : list (N * N)) : list (N * N) :=
  match l with [] => [] | (a, b) :: r => if a =? k then r else (a, b) :: adel1 k r end.
(* unordered_map::emplace: no effect when the key exists *)
Definition aemplace (k v : N) (l : list (N * N)) : list (N * N) :=
  match aget k l with Some _ => l | None => l ++ [(k, v)] end.
Fixpoint upd_nth {A} (n : nat) (x : A) (l : list A) {struct l} : list A :=
  match l with
  | [] => []
  | y :: r => match n with O => x :: r | S n' => y :: upd_nth n' x r end
  end.
Fixpoint del_nth {A} (n : nat) (l : list A) {struct l} : list A :=
  match l with
  | [] => []
  | y :: r => match n with O => r | S n' => y :: del_nth n' r end
  end.

(* std::lower_bound with "a.name < b" + insert / equality test: on a sorted vector the first element
   that is not smaller than the key *)
Section LB.
Context {A : Type} (key : A -> N).
Fixpoint lb_insert (x : A) (l : list A) : list A :=
  match l with
  | [] => [x]
  | y :: r => if key y <? key x then y :: lb_insert x r else x :: l
  end.
Fixpoint lb_find (n : N) (l : list A) : option A :=
  match l with
  | [] => None
  | y :: r => if key y <? n then lb_find n r else if key y =? n then Some y else None
  end.
End LB.

Definition find_uid (u : N) (l : list lgr) : option lgr := find (fun L => l_uid L =? u) l.
Definition invalidate (u : N) (l : list lgr) : list lgr :=
  map (fun L => if l_uid L =? u then {| l_name := l_name L; l_uid := l_uid L; l_valid := false; l_sinks := l_sinks L |} else L) l.

(* ------------------------------------------------------------------ state
   lgs      LoggerManager::_loggers                 has_inv  _has_invalidated_loggers
   pc       Some (i, removed, g0): the backend is inside cleanup_invalidated_loggers (lock held), iterator at i,
            names removed so far, value of the guard when the loop was entered
   stab     SinkManager::_sinks                     live     owners of every live sink (use counts, unary)
   hnd      shared_ptr<Sink> variables of the user  vars     Logger* variables of the user
   ths      thread contexts (queue, transit buffer, blocked in remove_logger_blocking)
   rflags   BackendWorker::_logger_removal_flags    fset     flags stored true
   ghost: clog committed records, plog processed events, wlog sink writes, dlog destroyed sinks, elog erased
   loggers, glog every logger object ever created, bad = a freed logger or sink was dereferenced; obs = API level observations *)
Record st := {
  lgs : list lgr;
  has_inv : bool;
  pc : option (nat * list N * bool);
  stab : list sent;
  live : list N;
  hnd : list (N * N);
  vars : list (N * N);
  ths : list thr;
  rflags : list (N * N);
  fset : list N;
  nlg : N;
  nsk : N;
  nfl : N;
  clk : N;
  clog : list (nat * rcd);
  plog : list (nat * rcd);
  wlog : list (N * N * N);
  dlog : list N;
  elog : list N;
  glog : list lgr;
  bad : bool;
  obs : list N }.

Definition set_lgs (f : list lgr -> list lgr) (s : st) : st :=
  {| lgs := f (lgs s); has_inv := has_inv s; pc := pc s; stab := stab s; live := live s; hnd := hnd s; vars := vars s; ths := ths s; rflags := rflags s; fset := fset s; nlg := nlg s; nsk := nsk s; nfl := nfl s; clk := clk s; clog := clog s; plog := plog s; wlog := wlog s; dlog := dlog s; elog := elog s; glog := glog s; bad := bad s; obs := obs s |}.
Definition set_has_inv (f : bool -> bool) (s : st) : st :=
  {| lgs := lgs s; has_inv := f (has_inv s); pc := pc s; stab := stab s; live := live s; hnd := hnd s; vars := vars s; ths := ths s; rflags := rflags s; fset := fset s; nlg := nlg s; nsk := nsk s; nfl := nfl s; clk := clk s; clog := clog s; plog := plog s; wlog := wlog s; dlog := dlog s; elog := elog s; glog := glog s; bad := bad s; obs := obs s |}.
Definition set_pc (f : option (nat * list N * bool) -> option (nat * list N * bool)) (s : st) : st :=
  {| lgs := lgs s; has_inv := has_inv s; pc := f (pc s); stab := stab s; live := live s; hnd := hnd s; vars := vars s; ths := ths s; rflags := rflags s; fset := fset s; nlg := nlg s; nsk := nsk s; nfl := nfl s; clk := clk s; clog := clog s; plog := plog s; wlog := wlog s; dlog := dlog s; elog := elog s; glog := glog s; bad := bad s; obs := obs s |}.
Definition set_stab (f : list sent -> list sent) (s : st) : st :=
  {| lgs := lgs s; has_inv := has_inv s; pc := pc s; stab := f (stab s); live := live s; hnd := hnd s; vars := vars s; ths := ths s; rflags := rflags s; fset := fset s; nlg := nlg s; nsk := nsk s; nfl := nfl s; clk := clk s; clog := clog s; plog := plog s; wlog := wlog s; dlog := dlog s; elog := elog s; glog := glog s; bad := bad s; obs := obs s |}.
Definition set_live (f : list N -> list N) (s : st) : st :=
  {| lgs := lgs s; has_inv := has_inv s; pc := pc s; stab := stab s; live := f (live s); hnd := hnd s; vars := vars s; ths := ths s; rflags := rflags s; fset := fset s; nlg := nlg s; nsk := nsk s; nfl := nfl s; clk := clk s; clog := clog s; plog := plog s; wlog := wlog s; dlog := dlog s; elog := elog s; glog := glog s; bad := bad s; obs := obs s |}.
Definition set_hnd (f : list (N * N) -> list (N * N)) (s : st) : st :=
  {| lgs := lgs s; has_inv := has_inv s; pc := pc s; stab := stab s; live := live s; hnd := f (hnd s); vars := vars s; ths := ths s; rflags := rflags s; fset := fset s; nlg := nlg s; nsk := nsk s; nfl := nfl s; clk := clk s; clog := clog s; plog := plog s; wlog := wlog s; dlog := dlog s; elog := elog s; glog := glog s; bad := bad s; obs := obs s |}.
Definition set_vars (f : list (N * N) -> list (N * N)) (s : st) : st :=
  {| lgs := lgs s; has_inv := has_inv s; pc := pc s; stab := stab s; live := live s; hnd := hnd s; vars := f (vars s); ths := ths s; rflags := rflags s; fset := fset s; nlg := nlg s; nsk := nsk s; nfl := nfl s; clk := clk s; clog := clog s; plog := plog s; wlog := wlog s; dlog := dlog s; elog := elog s; glog := glog s; bad := bad s; obs := obs s |}.
Definition set_ths (f : list thr -> list thr) (s : st) : st :=
  {| lgs := lgs s; has_inv := has_inv s; pc := pc s; stab := stab s; live := live s; hnd := hnd s; vars := vars s; ths := f (ths s); rflags := rflags s; fset := fset s; nlg := nlg s; nsk := nsk s; nfl := nfl s; clk := clk s; clog := clog s; plog := plog s; wlog := wlog s; dlog := dlog s; elog := elog s; glog := glog s; bad := bad s; obs := obs s |}.
Definition set_rflags (f : list (N * N) -> list (N * N)) (s : st) : st :=
  {| lgs := lgs s; has_inv := has_inv s; pc := pc s; stab := stab s; live := live s; hnd := hnd s; vars := vars s; ths := ths s; rflags := f (rflags s); fset := fset s; nlg := nlg s; nsk := nsk s; nfl := nfl s; clk := clk s; clog := clog s; plog := plog s; wlog := wlog s; dlog := dlog s; elog := elog s; glog := glog s; bad := bad s; obs := obs s |}.
Definition set_fset (f : list N -> list N) (s : st) : st :=
  {| lgs := lgs s; has_inv := has_inv s; pc := pc s; stab := stab s; live := live s; hnd := hnd s; vars := vars s; ths := ths s; rflags := rflags s; fset := f (fset s); nlg := nlg s; nsk := nsk s; nfl := nfl s; clk := clk s; clog := clog s; plog := plog s; wlog := wlog s; dlog := dlog s; elog := elog s; glog := glog s; bad := bad s; obs := obs s |}.
Definition set_nlg (f : N -> N) (s : st) : st :=
  {| lgs := lgs s; has_inv := has_inv s; pc := pc s; stab := stab s; live := live s; hnd := hnd s; vars := vars s; ths := ths s; rflags := rflags s; fset := fset s; nlg := f (nlg s); nsk := nsk s; nfl := nfl s; clk := clk s; clog := clog s; plog := plog s; wlog := wlog s; dlog := dlog s; elog := elog s; glog := glog s; bad := bad s; obs := obs s |}.
Definition set_nsk (f : N -> N) (s : st) : st :=
  {| lgs := lgs s; has_inv := has_inv s; pc := pc s; stab := stab s; live := live s; hnd := hnd s; vars := vars s; ths := ths s; rflags := rflags s; fset := fset s; nlg := nlg s; nsk := f (nsk s); nfl := nfl s; clk := clk s; clog := clog s; plog := plog s; wlog := wlog s; dlog := dlog s; elog := elog s; glog := glog s; bad := bad s; obs := obs s |}.
Definition set_nfl (f : N -> N) (s : st) : st :=
  {| lgs := lgs s; has_inv := has_inv s; pc := pc s; stab := stab s; live := live s; hnd := hnd s; vars := vars s; ths := ths s; rflags := rflags s; fset := fset s; nlg := nlg s; nsk := nsk s; nfl := f (nfl s); clk := clk s; clog := clog s; plog := plog s; wlog := wlog s; dlog := dlog s; elog := elog s; glog := glog s; bad := bad s; obs := obs s |}.
Definition set_clk (f : N -> N) (s : st) : st :=
  {| lgs := lgs s; has_inv := has_inv s; pc := pc s; stab := stab s; live := live s; hnd := hnd s; vars := vars s; ths := ths s; rflags := rflags s; fset := fset s; nlg := nlg s; nsk := nsk s; nfl := nfl s; clk := f (clk s); clog := clog s; plog := plog s; wlog := wlog s; dlog := dlog s; elog := elog s; glog := glog s; bad := bad s; obs := obs s |}.
Definition set_clog (f : list (nat * rcd) -> list (nat * rcd)) (s : st) : st :=
  {| lgs := lgs s; has_inv := has_inv s; pc := pc s; stab := stab s; live := live s; hnd := hnd s; vars := vars s; ths := ths s; rflags := rflags s; fset := fset s; nlg := nlg s; nsk := nsk s; nfl := nfl s; clk := clk s; clog := f (clog s); plog := plog s; wlog := wlog s; dlog := dlog s; elog := elog s; glog := glog s; bad := bad s; obs := obs s |}.
Definition set_plog (f : list (nat * rcd) -> list (nat * rcd)) (s : st) : st :=
  {| lgs := lgs s; has_inv := has_inv s; pc := pc s; stab := stab s; live := live s; hnd := hnd s; vars := vars s; ths := ths s; rflags := rflags s; fset := fset s; nlg := nlg s; nsk := nsk s; nfl := nfl s; clk := clk s; clog := clog s; plog := f (plog s); wlog := wlog s; dlog := dlog s; elog := elog s; glog := glog s; bad := bad s; obs := obs s |}.
Definition set_wlog (f : list (N * N * N) -> list (N * N * N)) (s : st) : st :=
  {| lgs := lgs s; has_inv := has_inv s; pc := pc s; stab := stab s; live := live s; hnd := hnd s; vars := vars s; ths := ths s; rflags := rflags s; fset := fset s; nlg := nlg s; nsk := nsk s; nfl := nfl s; clk := clk s; clog := clog s; plog := plog s; wlog := f (wlog s); dlog := dlog s; elog := elog s; glog := glog s; bad := bad s; obs := obs s |}.
Definition set_dlog (f : list N -> list N) (s : st) : st :=
  {| lgs := lgs s; has_inv := has_inv s; pc := pc s; stab := stab s; live := live s; hnd := hnd s; vars := vars s; ths := ths s; rflags := rflags s; fset := fset s; nlg := nlg s; nsk := nsk s; nfl := nfl s; clk := clk s; clog := clog s; plog := plog s; wlog := wlog s; dlog := f (dlog s); elog := elog s; glog := glog s; bad := bad s; obs := obs s |}.
Definition set_elog (f : list N -> list N) (s : st) : st :=
  {| lgs := lgs s; has_inv := has_inv s; pc := pc s; stab := stab s; live := live s; hnd := hnd s; vars := vars s; ths := ths s; rflags := rflags s; fset := fset s; nlg := nlg s; nsk := nsk s; nfl := nfl s; clk := clk s; clog := clog s; plog := plog s; wlog := wlog s; dlog := dlog s; elog := f (elog s); glog := glog s; bad := bad s; obs := obs s |}.
Definition set_glog (f : list lgr -> list lgr) (s : st) : st :=
  {| lgs := lgs s; has_inv := has_inv s; pc := pc s; stab := stab s; live := live s; hnd := hnd s; vars := vars s; ths := ths s; rflags := rflags s; fset := fset s; nlg := nlg s; nsk := nsk s; nfl := nfl s; clk := clk s; clog := clog s; plog := plog s; wlog := wlog s; dlog := dlog s; elog := elog s; glog := f (glog s); bad := bad s; obs := obs s |}.
Definition set_bad (f : bool -> bool) (s : st) : st :=
  {| lgs := lgs s; has_inv := has_inv s; pc := pc s; stab := stab s; live := live s; hnd := hnd s; vars := vars s; ths := ths s; rflags := rflags s; fset := fset s; nlg := nlg s; nsk := nsk s; nfl := nfl s; clk := clk s; clog := clog s; plog := plog s; wlog := wlog s; dlog := dlog s; elog := elog s; glog := glog s; bad := f (bad s); obs := obs s |}.
Definition set_obs (f : list N -> list N) (s : st) : st :=
  {| lgs := lgs s; has_inv := has_inv s; pc := pc s; stab := stab s; live := live s; hnd := hnd s; vars := vars s; ths := ths s; rflags := rflags s; fset := fset s; nlg := nlg s; nsk := nsk s; nfl := nfl s; clk := clk s; clog := clog s; plog := plog s; wlog := wlog s; dlog := dlog s; elog := elog s; glog := glog s; bad := bad s; obs := f (obs s) |}.

Definition emit (l : list N) (s : st) : st := set_obs (fun o => o ++ l) s.
Definition th (s : st) (t : nat) : thr := nth t (ths s) thr0.
Definition set_th (t : nat) (x : thr) (s : st) : st := set_ths (upd_nth t x) s.
Definition tfree (s : st) (t : nat) : bool :=
  (t <? length (ths s))%nat && match t_blk (th s t) with None => true | Some _ => false end.
Definition locked (s : st) : bool := match pc s with None => false | Some _ => true end.

Definition st0 (nt : nat) : st :=
  {| lgs := []; has_inv := false; pc := None; stab := []; live := []; hnd := []; vars := [];
     ths := repeat thr0 nt; rflags := []; fset := []; nlg := 1; nsk := 1; nfl := 1; clk := 1;
     clog := []; plog := []; wlog := []; dlog := []; elog := []; glog := []; bad := false; obs := [] |}.

(* ~shared_ptr<Sink>: the owner goes away; the sink is destroyed with its last owner *)
Definition release1 (x : N) (s : st) : st :=
  let lv := remove_one x (live s) in
  let s1 := set_live (fun _ => lv) s in
  if memN x lv then s1 else emit [2; x] (set_dlog (fun d => d ++ [x]) s1).
Fixpoint release (ss : list N) (s : st) : st :=
  match ss with [] => s | x :: r => release r (release1 x s) end.

(* SinkManager::_find_sink: lower_bound, then weak_ptr::lock *)
Definition sink_lookup (name : N) (s : st) : option N :=
  match lb_find e_name name (stab s) with
  | Some e => if memN (e_uid e) (live s) then Some (e_uid e) else None
  | None => None
  end.
Fixpoint handles_of (hs : list N) (h : list (N * N)) : list N :=
  match hs with [] => [] | x :: r => match aget x h with Some u => u :: handles_of r h | None => handles_of r h end end.

Definition all_q_empty (s : st) : bool := forallb (fun x => match t_q x with [] => true | _ => false end) (ths s).
Definition all_tb_empty (s : st) : bool := forallb (fun x => match t_tb x with [] => true | _ => false end) (ths s).
(* _check_frontend_queues_and_cached_transit_events_empty, as far as the source still checks *)
Definition guard (K : cfg) (s : st) : bool :=
  (negb (c_guard_q K) || all_q_empty s) && (negb (c_guard_tb K) || all_tb_empty s).

Definition commit (t : nat) (r : rcd) (s : st) : st :=
  let x := th s t in
  set_clk N.succ (set_clog (fun l => l ++ [(t, r)])
    (set_th t {| t_q := t_q x ++ [r]; t_tb := t_tb x; t_blk := t_blk x |} s)).

Fixpoint write_sinks (ss : list N) (lg m : N) (s : st) : st :=
  match ss with
  | [] => s
  | x :: r =>
      let s1 := emit [1; x; lg; m] (set_wlog (fun w => w ++ [(x, lg, m)]) s) in
      write_sinks r lg m (if memN x (live s) then s1 else set_bad (fun _ => true) s1)
  end.

Fixpoint store_flags (names : list N) (s : st) : st :=
  match names with
  | [] => s
  | n :: r =>
      store_flags r (match aget n (rflags s) with
                     | Some f => set_rflags (adel n) (set_fset (fun l => l ++ [f]) s)
                     | None => s
                     end)
  end.

Inductive mop :=
| FCreateSink (h name : N)            (* handle h := create_or_get_sink(name) *)
| FDrop (h : N)                       (* handle h reset *)
| FCreate (v name : N) (hs : list N)  (* variable v := create_or_get_logger(name, {handles hs}) *)
| FGet (v name : N)                   (* variable v := get_logger(name) *)
| FLog (t : nat) (v m : N)            (* thread t logs message m through variable v *)
| FRemove (v : N)                     (* remove_logger(v) *)
| FRbReq (t : nat) (v : N)            (* remove_logger_blocking, part 1: the removal request is enqueued *)
| FRbMark (t : nat)                   (*   part 2: LoggerManager::remove_logger *)
| FWait (t : nat)                     (*   part 3: one look at the flag *)
| FCount | FList                      (* get_number_of_loggers, get_all_loggers *)
| BRead (t : nat)                     (* one record of thread t's queue -> transit buffer *)
| BProc (t : nat)                     (* process the front event of thread t's transit buffer *)
| BClean0 | BClean1 | BClean2.        (* cleanup_invalidated_loggers: entry, one iteration, exit + sinks + flags *)

Definition mstep (K : cfg) (s : st) (o : mop) : st :=
  match o with
  | FCreateSink h name =>
      match aget h (hnd s) with
      | Some _ => emit [3; h; name; 0] s
      | None =>
          match sink_lookup name s with
          | Some u => emit [3; h; name; u] (set_hnd (cons (h, u)) (set_live (cons u) s))
          | None =>
              let u := nsk s in
              emit [3; h; name; u] (set_nsk N.succ (set_hnd (cons (h, u)) (set_live (cons u)
                (set_stab (lb_insert e_name {| e_name := name; e_uid := u |}) s))))
          end
      end
  | FDrop h =>
      match aget h (hnd s) with
      | None => emit [14; h; 0] s
      | Some u => release1 u (emit [14; h; 1] (set_hnd (adel1 h) s))
      end
  | FCreate v name hs =>
      if locked s then s else
      match lb_find l_name name (lgs s) with
      | Some L => emit ([4; v; name; l_uid L; N.of_nat (length hs)] ++ hs) (set_vars (aset v (l_uid L)) s)
      | None =>
          let ss := handles_of hs (hnd s) in
          let u := nlg s in
          let L := {| l_name := name; l_uid := u; l_valid := true; l_sinks := ss |} in
          emit ([4; v; name; u; N.of_nat (length hs)] ++ hs) (set_nlg N.succ (set_vars (aset v u) (set_live (app ss)
            (set_glog (fun g => g ++ [L]) (set_lgs (lb_insert l_name L) s)))))
      end
  | FGet v name =>
      if locked s then s else
      match lb_find l_name name (lgs s) with
      | Some L => if l_valid L || negb (c_get_valid K)
                  then emit [5; v; name; l_uid L] (set_vars (aset v (l_uid L)) s)
                  else emit [5; v; name; 0] (set_vars (adel v) s)
      | None => emit [5; v; name; 0] (set_vars (adel v) s)
      end
  | FLog t v m =>
      if negb (tfree s t) then emit [6; N.of_nat t; v; m; 0] s else
      match aget v (vars s) with
      | None => emit [6; N.of_nat t; v; m; 0] s
      | Some u =>
          match find_uid u (lgs s) with
          | None => emit [6; N.of_nat t; v; m; 0] (set_bad (fun _ => true) s)      (* the caller uses a freed logger *)
          | Some L => emit [6; N.of_nat t; v; m; 1] (commit t {| r_kind := KLog; r_lg := u; r_val := m; r_name := l_name L; r_ts := clk s |} s)
          end
      end
  | FRemove v =>
      match aget v (vars s) with
      | None => emit [7; v; 0] s
      | Some u =>
          match find_uid u (lgs s) with
          | None => emit [7; v; 0] (set_bad (fun _ => true) s)
          | Some _ => emit [7; v; 1] (set_vars (adel v) (set_has_inv (fun _ => true) (set_lgs (invalidate u) s)))
          end
      end
  | FRbReq t v =>
      if negb (tfree s t) then emit [8; N.of_nat t; v; 0] s else
      match aget v (vars s) with
      | None => emit [8; N.of_nat t; v; 0] s
      | Some u =>
          match find_uid u (lgs s) with
          | None => emit [8; N.of_nat t; v; 0] (set_bad (fun _ => true) s)
          | Some L =>
              let f := nfl s in
              let s1 := commit t {| r_kind := KRem; r_lg := u; r_val := f; r_name := l_name L; r_ts := clk s |} s in
              let x := th s1 t in
              emit [8; N.of_nat t; v; 2] (set_nfl N.succ (set_vars (adel v)
                (set_th t {| t_q := t_q x; t_tb := t_tb x; t_blk := Some (u, f, false) |} s1)))
          end
      end
  | FRbMark t =>
      match t_blk (th s t) with
      | Some (u, f, false) =>
          let x := th s t in
          let s1 := set_th t {| t_q := t_q x; t_tb := t_tb x; t_blk := Some (u, f, true) |} s in
          match find_uid u (lgs s) with
          | None => set_bad (fun _ => true) s1
          | Some _ => set_has_inv (fun _ => true) (set_lgs (invalidate u) s1)
          end
      | _ => s
      end
  | FWait t =>
      match t_blk (th s t) with
      | Some (u, f, true) =>
          if memN f (fset s)
          then let x := th s t in emit [9; N.of_nat t; 1] (set_th t {| t_q := t_q x; t_tb := t_tb x; t_blk := None |} s)
          else emit [9; N.of_nat t; 2] s
      | _ => emit [9; N.of_nat t; 0] s
      end
  | FCount => if locked s then s else emit [10; N.of_nat (length (lgs s))] s
  | FList =>
      if locked s then s else
      let l := map l_uid (filter l_valid (lgs s)) in emit (11 :: N.of_nat (length l) :: l) s
  | BRead t =>
      let x := th s t in
      match t_q x with
      | [] => s
      | r :: q' =>
          let s1 := set_th t {| t_q := q'; t_tb := t_tb x ++ [r]; t_blk := t_blk x |} s in
          (* transit_event->logger_base->clock_source *)
          let s2 := match find_uid (r_lg r) (lgs s) with None => set_bad (fun _ => true) s1 | Some _ => s1 end in
          match r_kind r with
          | KLog => s2
          | KRem => if c_flag_late K then set_rflags (aemplace (r_name r) (r_val r)) s2
                    else set_fset (fun l => l ++ [r_val r]) s2
          end
      end
  | BProc t =>
      let x := th s t in
      match t_tb x with
      | [] => s
      | r :: tb' =>
          let s1 := set_plog (fun l => l ++ [(t, r)]) (set_th t {| t_q := t_q x; t_tb := tb'; t_blk := t_blk x |} s) in
          match r_kind r with
          | KRem => s1
          | KLog => match find_uid (r_lg r) (lgs s) with
                    | None => set_bad (fun _ => true) s1
                    | Some L => write_sinks (l_sinks L) (r_lg r) (r_val r) s1
                    end
          end
      end
  | BClean0 =>
      match pc s with
      | Some _ => s
      | None => if has_inv s then set_pc (fun _ => Some (O, [], guard K s)) (set_has_inv (fun _ => false) s) else s
      end
  | BClean1 =>
      match pc s with
      | None => s
      | Some (i, rem, g0) =>
          match nth_error (lgs s) i with
          | None => s
          | Some L =>
              if l_valid L then set_pc (fun _ => Some (S i, rem, g0)) s
              else if (if c_recheck K then guard K s else g0)
              then release (l_sinks L)
                     (set_pc (fun _ => Some (i, rem ++ [l_name L], g0))
                        (set_elog (fun e => e ++ [l_uid L]) (set_lgs (del_nth i) s)))
              else set_has_inv (fun _ => true) (set_pc (fun _ => Some (S i, rem, g0)) s)
          end
      end
  | BClean2 =>
      match pc s with
      | None => s
      | Some (i, rem, g0) =>
          if (length (lgs s) <=? i)%nat then
            let s1 := set_pc (fun _ => None) s in
            match rem with
            | [] => s1
            | _ :: _ =>
                let s2 := if c_prune K then set_stab (filter (fun e => memN (e_uid e) (live s1))) s1 else s1 in
                store_flags rem s2
            end
          else s
      end
  end.

Definition mrun (K : cfg) (s : st) (ops : list mop) : st := fold_left (mstep K) ops s.
