(* M-REG: the C17 statements (lemmas; Props/Properties_C17.v restates them as theorems). *)
From Coq Require Import List NArith Arith Bool Lia Sorted.
From Quill Require Import Registry.RegModel Registry.RegLemmas Registry.RegFrame Registry.RegInv Registry.RegSafe.
Import ListNotations.
Local Open Scope N_scope.

(* ------------------------------------------------------------------ erased loggers *)
Record EInv (s : st) : Prop := {
  e_nodup : NoDup (map l_uid (lgs s));
  e_lt : forall u, In u (elog s) -> u < nlg s;
  e_gone : forall u L, In u (elog s) -> In L (lgs s) -> l_uid L <> u;
  e_done : forall u t r, In u (elog s) -> In (t, r) (clog s) -> r_lg r = u -> In (t, r) (plog s) }.

Lemma einv_init : forall nt, EInv (st0 nt).
Proof. intro nt. constructor; cbn [st0 lgs elog map]; [constructor | intros u [] | intros u L [] | intros u t r []]. Qed.

Lemma NoDup_map_del : forall A (f : A -> N) i l, NoDup (map f l) -> NoDup (map f (del_nth i l)).
Proof.
  intros A f i l. revert i. induction l as [|z r IH]; intros i H; cbn [del_nth]; [exact H|].
  cbn [map] in H. inversion H as [|? ? H1 H2]. subst. destruct i; [exact H2|]. cbn [map]. constructor; [|exact (IH _ H2)].
  intro C. apply H1. rewrite in_map_iff in *. destruct C as (x & A1 & A2). exists x. split; [exact A1 | exact (del_nth_In _ _ _ _ A2)].
Qed.

Lemma NoDup_map_insert : forall (x : lgr) l, NoDup (map l_uid l) -> ~ In (l_uid x) (map l_uid l) -> NoDup (map l_uid (lb_insert l_name x l)).
Proof.
  intros x l. induction l as [|z r IH]; intros H Hx; cbn [lb_insert map].
  - constructor; [intros [] | constructor].
  - cbn [map] in H. inversion H as [|? ? H1 H2]. subst. destruct (l_name z <? l_name x); cbn [map].
    + constructor.
      * intro C. rewrite in_map_iff in C. destruct C as (y & A1 & A2). apply lb_insert_In in A2. destruct A2 as [->|A2].
        -- apply Hx. left. symmetry. exact A1.
        -- apply H1. rewrite in_map_iff. exists y. tauto.
      * apply IH; [exact H2|]. intro C. apply Hx. right. exact C.
    + constructor; [exact Hx | exact H].
Qed.

Lemma del_nth_uid_gone : forall i l (x y : lgr), NoDup (map l_uid l) -> nth_error l i = Some x -> In y (del_nth i l) -> l_uid y <> l_uid x.
Proof.
  intros i l. revert i. induction l as [|z r IH]; intros i x y H Hn Hy; [destruct i; discriminate|].
  cbn [map] in H. inversion H as [|? ? H1 H2]. subst. destruct i; cbn [nth_error del_nth] in *.
  - inversion Hn. subst. intro C. apply H1. rewrite <- C. apply in_map. exact Hy.
  - destruct Hy as [<-|Hy].
    + intro C. apply H1. rewrite C. apply in_map. exact (nth_error_In _ _ Hn).
    + exact (IH _ _ _ H2 Hn Hy).
Qed.

Lemma einv_step : forall K s o, good K = true -> Inv s -> GInv s -> EInv s -> EInv (mstep K s o).
Proof.
  intros K s o HK I G [H1 H2 H3 H4]. gk K HK. constructor.
  - destruct o; stepk; try exact H1.
    + apply NoDup_map_insert; [exact H1|]. cbn [l_uid]. intro C. rewrite in_map_iff in C. destruct C as (L & A & B).
      pose proof (i_lg_lt _ I _ B). lia.
    + rewrite invalidate_uids. exact H1.
    + rewrite invalidate_uids. exact H1.
    + apply NoDup_map_del. exact H1.
  - destruct o; stepk; try exact H2.
    + intros u Hu. specialize (H2 _ Hu). lia.
    + intros u Hu. apply in_app_or in Hu. destruct Hu as [Hu|[<-|[]]]; [exact (H2 _ Hu)|].
      match goal with Q : nth_error (lgs s) _ = Some _ |- _ => exact (i_lg_lt _ I _ (nth_error_In _ _ Q)) end.
  - destruct o; stepk; try exact H3.
    + intros u L Hu HL. apply lb_insert_In in HL. destruct HL as [->|HL]; [cbn [l_uid]; specialize (H2 _ Hu); lia | exact (H3 _ _ Hu HL)].
    + intros u L Hu HL. apply invalidate_In in HL. destruct HL as (L1 & A & _ & B & _). rewrite B. exact (H3 _ _ Hu A).
    + intros u L Hu HL. apply invalidate_In in HL. destruct HL as (L1 & A & _ & B & _). rewrite B. exact (H3 _ _ Hu A).
    + intros u L Hu HL. apply in_app_or in Hu. destruct Hu as [Hu|[<-|[]]]; [exact (H3 _ _ Hu (del_nth_In _ _ _ _ HL))|].
      match goal with Q : nth_error (lgs s) _ = Some _ |- _ => exact (del_nth_uid_gone _ _ _ _ H1 Q HL) end.
  - destruct o; stepk; try exact H4.
    + intros u t0 r Hu Hr HE. apply in_app_or in Hr. destruct Hr as [Hr|[Hr|[]]]; [exact (H4 _ _ _ Hu Hr HE)|].
      inversion Hr. subst t0 r. cbn [r_lg] in HE. subst u. exfalso.
      match goal with F : find_uid _ _ = Some _ |- _ => destruct (find_uid_Some _ _ _ F) as [A B] end. exact (H3 _ _ Hu A B).
    + intros u t0 r Hu Hr HE. apply in_app_or in Hr. destruct Hr as [Hr|[Hr|[]]]; [exact (H4 _ _ _ Hu Hr HE)|].
      inversion Hr. subst t0 r. cbn [r_lg] in HE. subst u. exfalso.
      match goal with F : find_uid _ _ = Some _ |- _ => destruct (find_uid_Some _ _ _ F) as [A B] end. exact (H3 _ _ Hu A B).
    + intros u t0 r0 Hu Hr HE. apply in_or_app. left. exact (H4 _ _ _ Hu Hr HE).
    + intros u t0 r0 Hu Hr HE. apply in_or_app. left. exact (H4 _ _ _ Hu Hr HE).
    + intros u t0 r0 Hu Hr HE. apply in_or_app. left. exact (H4 _ _ _ Hu Hr HE).
    + intros u t r Hu Hr HE. apply in_app_or in Hu. destruct Hu as [Hu|_]; [exact (H4 _ _ _ Hu Hr HE)|].
      match goal with G0 : guard K s = true |- _ => pose proof (guard_good_empty K s HK G0 t) as Z end.
      apply proj_In. apply In_proj in Hr. rewrite (i_cons _ I t), Z, app_nil_r in Hr. exact Hr.
Qed.

Record Reach (K : cfg) (s : st) : Prop := { r_inv : Inv s; r_ginv : GInv s; r_einv : EInv s }.

Lemma reach_init : forall K nt, Reach K (st0 nt).
Proof. intros. constructor; [apply inv_init | apply ginv_init | apply einv_init]. Qed.
Lemma reach_step : forall K s o, good K = true -> Reach K s -> Reach K (mstep K s o).
Proof.
  intros K s o HK [I G E]. constructor; [apply inv_step; exact I | apply ginv_step; assumption | apply einv_step; assumption].
Qed.
Lemma reach_run : forall K s ops, good K = true -> Reach K s -> Reach K (mrun K s ops).
Proof. intros K s ops HK. apply (mrun_ind K (Reach K)). intros. apply reach_step; assumption. Qed.
Lemma reach_from_init : forall K nt ops, good K = true -> Reach K (mrun K (st0 nt) ops).
Proof. intros K nt ops HK. exact (reach_run K (st0 nt) ops HK (reach_init K nt)). Qed.

(* ------------------------------------------------------------------ (a) nothing logged through a logger is lost *)
Lemma erase_step_drained : forall K s o u, good K = true -> Reach K s -> In u (elog (mstep K s o)) -> ~ In u (elog s) ->
  o = BClean1 /\ (forall t, pend (th s t) = []) /\ (forall t, proj t (clog s) = proj t (plog s)) /\
  (exists L, In L (lgs s) /\ l_uid L = u /\ l_valid L = false).
Proof.
  intros K s o u HK [I G E]. gk K HK.
  destruct o; stepk; try (intros A B; contradiction).
  intros A B. apply in_app_or in A. destruct A as [A|[A|[]]]; [contradiction|]. subst u.
  match goal with G0 : guard K s = true |- _ => pose proof (guard_good_empty K s HK G0) as Z end.
  split; [reflexivity|]. split; [exact Z|]. split.
  - intro t. rewrite (i_cons _ I t), (Z t), app_nil_r. reflexivity.
  - match goal with Q : nth_error (lgs s) _ = Some ?l |- _ => exists l; split; [exact (nth_error_In _ _ Q) | split; [reflexivity | assumption]] end.
Qed.

Lemma delivered_before_free : forall K nt ops, good K = true -> let s := mrun K (st0 nt) ops in
  forall u, In u (elog s) -> forall t r, In (t, r) (clog s) -> r_lg r = u ->
    In (t, r) (plog s) /\
    (r_kind r = KLog -> forall L0, In L0 (glog s) -> l_uid L0 = u -> forall S, In S (l_sinks L0) -> In (S, u, r_val r) (wlog s)).
Proof.
  intros K nt ops HK s u Hu t r Hr HE. destruct (reach_run K (st0 nt) ops HK (reach_init K nt)) as [I G E]. fold s in I, G, E.
  pose proof (e_done _ E _ _ _ Hu Hr HE) as Hp. split; [exact Hp|].
  intros Hk L0 HL0 HL0u S HS. subst u. apply (g_written _ G _ _ Hp Hk _ HL0 HL0u _ HS).
Qed.

Lemma thread_order : forall K nt ops t, let s := mrun K (st0 nt) ops in
  proj t (clog s) = proj t (plog s) ++ t_tb (th s t) ++ t_q (th s t).
Proof. intros K nt ops t s. exact (i_cons _ (inv_run K (st0 nt) ops (inv_init nt)) t). Qed.

(* ------------------------------------------------------------------ (b) no dangling use *)
Lemma refs_present : forall K nt ops, good K = true -> let s := mrun K (st0 nt) ops in
  forall t r, In r (t_tb (th s t) ++ t_q (th s t)) -> exists L, In L (lgs s) /\ l_uid L = r_lg r /\ l_name L = r_name r.
Proof.
  intros K nt ops HK s t r Hr. destruct (reach_run K (st0 nt) ops HK (reach_init K nt)) as [I G E]. fold s in G.
  exact (g_refs _ G t r Hr).
Qed.

(* the documented contract: a logger is used (log, remove) only while it has not been removed *)
Definition uses_ok (s : st) (o : mop) : Prop :=
  match o with
  | FLog _ v _ | FRemove v | FRbReq _ v =>
      forall u, aget v (vars s) = Some u -> exists L, find_uid u (lgs s) = Some L /\ l_valid L = true
  | FRbMark t => forall u f, t_blk (th s t) = Some (u, f, false) -> exists L, find_uid u (lgs s) = Some L /\ l_valid L = true
  | _ => True
  end.
Fixpoint contract (K : cfg) (s : st) (ops : list mop) : Prop :=
  match ops with [] => True | o :: r => uses_ok s o /\ contract K (mstep K s o) r end.

Lemma write_sinks_bad : forall ss lg m s, (forall x, In x ss -> In x (live s)) -> bad (write_sinks ss lg m s) = bad s.
Proof.
  intros ss lg m. induction ss as [|x r IH]; intros s H; cbn [write_sinks]; [reflexivity|].
  assert (M : memN x (live s) = true) by (apply memN_In; apply H; left; reflexivity). rewrite M.
  rewrite IH; [reflexivity|]. intros y Hy. sst. apply H. right. exact Hy.
Qed.

Lemma logger_sinks_live : forall s L x, Inv s -> In L (lgs s) -> In x (l_sinks L) -> In x (live s).
Proof.
  intros s L x I HL Hx. apply cnt_pos_In. rewrite (i_rc _ I x).
  assert (In x (flat_map l_sinks (lgs s))) by (apply in_flat_map; exists L; tauto). apply cnt_pos_In in H. lia.
Qed.

Lemma bad_step : forall K s o, good K = true -> Reach K s -> uses_ok s o -> bad s = false -> bad (mstep K s o) = false.
Proof.
  intros K s o HK [I G E] HU HB. gk K HK.
  destruct o; cbn [uses_ok] in HU; stepk; try exact HB.
  - destruct (HU _ eq_refl) as (L & F & _). congruence.
  - destruct (HU _ eq_refl) as (L & F & _). congruence.
  - destruct (HU _ eq_refl) as (L & F & _). congruence.
  - destruct (HU _ _ eq_refl) as (L & F & _). congruence.
  - assert (Hin : In r (pend (th s t))) by (unfold th; rewrite pend_mem; use_q; right; left; reflexivity).
    destruct (namedl_find _ _ _ (g_refs _ G _ _ Hin)) as [L1 F1]. congruence.
  - assert (Hin : In r (pend (th s t))) by (unfold th; rewrite pend_mem; use_q; right; left; reflexivity).
    destruct (namedl_find _ _ _ (g_refs _ G _ _ Hin)) as [L1 F1]. congruence.
  - rewrite write_sinks_bad; [sst; exact HB|]. intros x Hx. sst.
    match goal with F : find_uid _ _ = Some _ |- _ => destruct (find_uid_Some _ _ _ F) as [A B] end.
    exact (logger_sinks_live _ _ _ I A Hx).
  - assert (Hin : In r (pend (th s t))) by (unfold th; rewrite pend_mem; use_q; left; left; reflexivity).
    destruct (namedl_find _ _ _ (g_refs _ G _ _ Hin)) as [L1 F1]. congruence.
Qed.

Lemma no_dangling : forall K ops s, good K = true -> Reach K s -> bad s = false -> contract K s ops -> bad (mrun K s ops) = false.
Proof.
  intros K ops. induction ops as [|o r IH]; intros s HK R HB HC; [exact HB|].
  cbn [contract] in HC. destruct HC as [HU HC]. cbn [mrun fold_left].
  apply IH; [exact HK | apply reach_step; assumption | apply bad_step; assumption | exact HC].
Qed.

Lemma no_dangling_init : forall K nt ops, good K = true -> contract K (st0 nt) ops -> bad (mrun K (st0 nt) ops) = false.
Proof. intros K nt ops HK HC. exact (no_dangling K ops (st0 nt) HK (reach_init K nt) eq_refl HC). Qed.

(* ------------------------------------------------------------------ (c) sink lifetime = owners (any configuration) *)
Definition referenced (s : st) (S : N) : Prop := In S (map snd (hnd s)) \/ exists L, In L (lgs s) /\ In S (l_sinks L).

Lemma sink_lifetime : forall K nt ops, let s := mrun K (st0 nt) ops in
  (forall S, cnt S (live s) = (cnt S (map snd (hnd s)) + cnt S (flat_map l_sinks (lgs s)))%nat) /\
  (forall S, In S (live s) <-> referenced s S) /\
  (forall S, 1 <= S -> S < nsk s -> (In S (dlog s) <-> ~ referenced s S)) /\
  NoDup (dlog s).
Proof.
  intros K nt ops s. pose proof (inv_run K (st0 nt) ops (inv_init nt)) as I. fold s in I.
  assert (LR : forall S, In S (live s) <-> referenced s S).
  { intro S. unfold referenced. rewrite <- cnt_pos_In, (i_rc _ I S). split.
    - intro H. destruct (Nat.eq_dec (cnt S (map snd (hnd s))) 0) as [Z|Z].
      + right. assert (H1 : In S (flat_map l_sinks (lgs s))) by (apply cnt_pos_In; lia).
        apply in_flat_map in H1. exact H1.
      + left. apply cnt_pos_In. lia.
    - intros [H|(L & A & B)].
      + apply cnt_pos_In in H. lia.
      + assert (H1 : In S (flat_map l_sinks (lgs s))) by (apply in_flat_map; exists L; tauto). apply cnt_pos_In in H1. lia. }
  split; [exact (i_rc _ I)|]. split; [exact LR|]. split; [|exact (si_nodup _ (i_si _ I))].
  intros S A B. rewrite <- LR. split.
  - intro H. exact (proj2 (si_dlog _ (i_si _ I) _ H)).
  - intro H. destruct (si_all _ (i_si _ I) _ A B) as [C|C]; [contradiction | exact C].
Qed.

(* a step destroys a sink exactly when it took its last owner away *)
Lemma release1_dlog_new : forall x s S, In S (dlog (release1 x s)) -> In S (dlog s) \/ S = x.
Proof.
  intros x s S. unfold release1. destruct (memN x (remove_one x (live s))); sst; [tauto|].
  intro H. apply in_app_or in H. destruct H as [H|[H|[]]]; [left; exact H | right; symmetry; exact H].
Qed.
Lemma release_dlog_new : forall ss s S, In S (dlog (release ss s)) -> In S (dlog s) \/ In S ss.
Proof.
  intro ss. induction ss as [|x r IH]; intros s S H; cbn [release] in H; [left; exact H|].
  apply IH in H. destruct H as [H|H]; [|right; right; exact H].
  apply release1_dlog_new in H. destruct H as [H|H]; [left; exact H | right; left; symmetry; exact H].
Qed.

Lemma destroy_step : forall K s o S, Inv s -> In S (dlog (mstep K s o)) -> ~ In S (dlog s) ->
  In S (live s) /\ ~ In S (live (mstep K s o)).
Proof.
  intros K s o S I H1 H2. pose proof (inv_step K s o I) as I'.
  split; [|exact (proj2 (si_dlog _ (i_si _ I') _ H1))]. revert H1.
  destruct o; unfold mstep; repeat dm; nrm; try (intro; contradiction).
  - intro H. apply release1_dlog_new in H. sst_in H. destruct H as [H|H]; [contradiction|]. subst S.
    match goal with Q : aget _ (hnd s) = Some _ |- _ => exact (rc_handle_live _ _ _ I Q) end.
  - intro H. apply release_dlog_new in H. sst_in H. destruct H as [H|H]; [contradiction|].
    match goal with Q : nth_error (lgs s) _ = Some _ |- _ => exact (logger_sinks_live _ _ _ I (nth_error_In _ _ Q) H) end.
Qed.

(* ------------------------------------------------------------------ (d) the blocking removal *)
Lemma flag_after_erase : forall K nt ops, good K = true -> let s := mrun K (st0 nt) ops in
  forall t r, In (t, r) (clog s) -> r_kind r = KRem -> In (r_val r) (fset s) ->
    In (r_lg r) (elog s) /\ (forall L, In L (lgs s) -> l_uid L <> r_lg r).
Proof.
  intros K nt ops HK s t r Hr Hk Hf. destruct (reach_run K (st0 nt) ops HK (reach_init K nt)) as [I G E]. fold s in I, G, E.
  pose proof (g_fset _ G _ _ Hr Hk Hf) as He. split; [exact He|]. intros L HL. exact (e_gone _ E _ _ He HL).
Qed.

Lemma flag_store_step : forall K s o f, good K = true -> Reach K s -> In f (fset (mstep K s o)) -> ~ In f (fset s) ->
  let s' := mstep K s o in
  o = BClean2 /\ pc s' = None /\ (forall e, In e (stab s') -> In (e_uid e) (live s')) /\
  (forall t r, In (t, r) (clog s) -> r_kind r = KRem -> r_val r = f -> In (r_lg r) (elog s') /\ ~ In (r_name r) (names s')).
Proof.
  intros K s o f HK [I G E]. gk K HK. unfold names. cbv zeta.
  destruct o; stepk; try (intros A B; contradiction).
  intros A B. apply store_flags_fset in A. sst_in A. destruct A as [A|(n1 & A1 & A2)]; [contradiction|].
  split; [reflexivity|]. split; [reflexivity|]. split.
  - intros e He. apply filter_In in He. destruct He as [_ He]. apply memN_In. exact He.
  - intros t r Hr Hk Hv. destruct (g_map_src _ G _ _ A2) as (t1 & r1 & C & D & E5 & E6).
    assert (r1 = r) by (apply (g_flag_uniq _ G _ _ _ _ C Hr D Hk); congruence). subst r1.
    assert (Hn : ~ In (r_name r) (map l_name (lgs s))).
    { rewrite E6. match goal with P : pc s = Some _ |- _ => exact (g_rem _ G _ _ _ P n1 A1) end. }
    split; [|exact Hn].
    assert (M : aget (r_name r) (rflags s) = Some (r_val r)) by (rewrite E6, Hv; exact A2).
    destruct (g_map _ G _ _ Hr Hk M) as [Hnm|He]; [|exact He]. exfalso. exact (Hn (namedl_names _ _ _ Hnm)).
Qed.

(* remove_logger_blocking returns (the thread is no longer blocked) only after its logger has been erased *)
Lemma unblock_step : forall K s o t u f b, good K = true -> Reach K s ->
  t_blk (th s t) = Some (u, f, b) -> t_blk (th (mstep K s o) t) = None -> o = FWait t /\ In u (elog s) /\ In f (fset s).
Proof.
  intros K s o t0 u f b HK [I G E] H1. gk K HK. revert H1.
  destruct o; stepk; intros H1 H2; try (rewrite H1 in H2; discriminate H2).
  all: match type of H2 with context [upd_nth ?t _ (ths ?s)] =>
         let Hlt := fresh "Hlt" in assert (Hlt : (t < length (ths s))%nat) by prove_lt;
         match type of H2 with context [nth ?t' (upd_nth t _ _) thr0] =>
           let Hne := fresh "Hne" in destruct (Nat.eq_dec t' t) as [->|Hne];
           [ rewrite ?nth_upd_same in H2 by (rewrite ?upd_nth_length; exact Hlt) | rewrite ?nth_upd_other in H2 by exact Hne ] end end;
       cbn [t_blk] in H2; try (rewrite H1 in H2; discriminate H2); try discriminate H2.
  rewrite E0 in H1. inversion H1. subst. split; [reflexivity|]. apply memN_In in E4. split; [|exact E4].
  destruct (g_blk _ G _ _ _ _ E0) as (r & A & B & C & D). rewrite <- C. apply (g_fset _ G _ _ A B). rewrite D. exact E4.
Qed.

(* once the name is free, create_or_get_logger builds a new logger object with the sinks it is given *)
Lemma create_after : forall K s v name hs, Inv s -> locked s = false -> ~ In name (names s) ->
  let s' := mstep K s (FCreate v name hs) in
  let L := {| l_name := name; l_uid := nlg s; l_valid := true; l_sinks := handles_of hs (hnd s) |} in
  In L (lgs s') /\ aget v (vars s') = Some (nlg s) /\ lb_find l_name name (lgs s') = Some L /\
  (forall L', In L' (lgs s) -> l_uid L' <> nlg s) /\ (forall L', In L' (glog s) -> l_uid L' <> nlg s).
Proof.
  intros K s v name hs I HL Hn. cbv zeta. unfold mstep. rewrite HL.
  rewrite (lb_find_notin_None l_name name (lgs s) Hn). nrm. split; [apply lb_insert_In; left; reflexivity|].
  split; [cbn [aset aget]; rewrite N.eqb_refl; reflexivity|]. split.
  - exact (lb_find_insert l_name {| l_name := name; l_uid := nlg s; l_valid := true; l_sinks := handles_of hs (hnd s) |} (lgs s)).
  - split; intros L' HL' C; [pose proof (i_lg_lt _ I _ HL') | pose proof (i_glog_lt _ I _ HL')]; lia.
Qed.

(* remove_logger_blocking end to end: when the flag of a request is stored the logger object is erased, its name is free,
   no expired sink entry is left; hence create_or_get_logger of that name (create_after) yields a new object *)
Lemma blocking_returns_after : forall K nt ops o f, good K = true -> let s := mrun K (st0 nt) ops in
  In f (fset (mstep K s o)) -> ~ In f (fset s) ->
  let s' := mstep K s o in
  o = BClean2 /\ locked s' = false /\ (forall e, In e (stab s') -> In (e_uid e) (live s')) /\
  (forall t r, In (t, r) (clog s) -> r_kind r = KRem -> r_val r = f -> In (r_lg r) (elog s') /\ ~ In (r_name r) (names s')).
Proof.
  intros K nt ops o f HK s A B. pose proof (reach_run K (st0 nt) ops HK (reach_init K nt)) as R. fold s in R.
  destruct (flag_store_step K s o f HK R A B) as (P1 & P2 & P3 & P4). cbv zeta.
  split; [exact P1|]. split; [unfold locked; rewrite P2; reflexivity|]. split; [exact P3 | exact P4].
Qed.

(* ------------------------------------------------------------------ (e) the sink table: sorted, at most the first entry of a name is live *)
Fixpoint FLp (lv : list N) (l : list sent) : Prop :=
  match l with
  | [] => True
  | e :: r => (forall e', In e' r -> e_name e' = e_name e -> ~ In (e_uid e') lv) /\ FLp lv r
  end.

Lemma FLp_mono : forall lv lv' l, (forall e, In e l -> In (e_uid e) lv' -> In (e_uid e) lv) -> FLp lv l -> FLp lv' l.
Proof.
  intros lv lv' l. induction l as [|e r IH]; intros H F; cbn [FLp] in *; [exact I|]. destruct F as [F1 F2]. split.
  - intros e' He' Hn C. apply (F1 _ He' Hn). apply H; [right; exact He' | exact C].
  - apply IH; [|exact F2]. intros x Hx. apply H. right. exact Hx.
Qed.

Lemma FLp_filter : forall lv p l, FLp lv l -> FLp lv (filter p l).
Proof.
  intros lv p l. induction l as [|e r IH]; intro F; cbn [filter FLp] in *; [exact I|]. destruct F as [F1 F2].
  destruct (p e); cbn [FLp]; [|exact (IH F2)]. split; [|exact (IH F2)].
  intros e' He' Hn. apply filter_In in He'. exact (F1 _ (proj1 He') Hn).
Qed.

Lemma FLp_insert : forall lv x l, FLp lv l -> (forall e', In e' l -> e_name e' = e_name x -> ~ In (e_uid e') lv) ->
  FLp lv (lb_insert e_name x l).
Proof.
  intros lv x l. induction l as [|e r IH]; intros F NL; cbn [lb_insert FLp] in *.
  - split; [intros e' [] | exact I].
  - destruct F as [F1 F2]. destruct (N.ltb_spec (e_name e) (e_name x)) as [Hlt|Hge]; cbn [FLp].
    + split.
      * intros e' He' Hn. apply lb_insert_In in He'. destruct He' as [->|He']; [lia | exact (F1 _ He' Hn)].
      * apply IH; [exact F2|]. intros e' He'. apply NL. right. exact He'.
    + split; [exact NL | split; assumption].
Qed.

Lemma no_live_named : forall lv n l, StronglySorted N.le (map e_name l) -> FLp lv l ->
  (forall e0, lb_find e_name n l = Some e0 -> ~ In (e_uid e0) lv) ->
  forall e', In e' l -> e_name e' = n -> ~ In (e_uid e') lv.
Proof.
  intros lv n l. induction l as [|e r IH]; intros HS F HF e' He' Hn; [destruct He'|].
  cbn [map] in HS. apply StronglySorted_inv in HS. destruct HS as [S1 S2]. rewrite Forall_forall in S2.
  cbn [FLp] in F. destruct F as [F1 F2]. cbn [lb_find] in HF.
  destruct (N.ltb_spec (e_name e) n) as [Hlt|Hge].
  - destruct He' as [<-|He']; [lia | exact (IH S1 F2 HF _ He' Hn)].
  - destruct (N.eqb_spec (e_name e) n) as [Heq|Hne].
    + destruct He' as [<-|He']; [exact (HF _ eq_refl) | apply (F1 _ He'); congruence].
    + destruct He' as [<-|He']; [congruence|]. exfalso.
      assert (In (e_name e') (map e_name r)) by (apply in_map; exact He'). specialize (S2 _ H). lia.
Qed.

Lemma sorted_filter : forall (p : sent -> bool) l, StronglySorted N.le (map e_name l) -> StronglySorted N.le (map e_name (filter p l)).
Proof.
  intros p l. induction l as [|e r IH]; intro HS; cbn [filter map] in *; [constructor|].
  apply StronglySorted_inv in HS. destruct HS as [S1 S2]. destruct (p e); [|exact (IH S1)]. cbn [map].
  constructor; [exact (IH S1)|]. rewrite Forall_forall in *. intros x Hx. apply S2. rewrite in_map_iff in *.
  destruct Hx as (y & A & B). apply filter_In in B. exists y. tauto.
Qed.

Record SInv (s : st) : Prop := {
  s_sorted : StronglySorted N.le (map e_name (stab s));
  s_first : FLp (live s) (stab s);
  s_lt : forall e, In e (stab s) -> e_uid e < nsk s }.

Lemma sinv_init : forall nt, SInv (st0 nt).
Proof. intro nt. constructor; cbn [st0 stab live map FLp]; [constructor | exact I | intros e []]. Qed.

Lemma release1_live_sub : forall x s u, In u (live (release1 x s)) -> In u (live s).
Proof. intros x s u. unfold release1. destruct (memN x (remove_one x (live s))); sst; apply remove_one_In. Qed.
Lemma release_live_sub : forall ss s u, In u (live (release ss s)) -> In u (live s).
Proof.
  intro ss. induction ss as [|x r IH]; intros s u H; cbn [release] in H; [exact H|]. exact (release1_live_sub _ _ _ (IH _ _ H)).
Qed.

Lemma sinv_step : forall K s o, Inv s -> SInv s -> SInv (mstep K s o).
Proof.
  intros K s o I [H1 H2 H3]. constructor.
  - destruct o; unfold mstep; repeat dm; nrm; try exact H1.
    + apply lb_insert_sorted_le. exact H1.
    + apply sorted_filter. exact H1.
  - destruct o; unfold mstep; repeat dm; nrm; try exact H2.
    + apply (FLp_mono (live s)); [|exact H2]. intros e He [C|C]; [|exact C].
      rewrite <- C. exact (sink_lookup_live _ _ _ E0).
    + apply FLp_insert.
      * apply (FLp_mono (live s)); [|exact H2]. intros e He [C|C]; [|exact C]. specialize (H3 _ He). lia.
      * intros e' He' Hn [C|C]; [specialize (H3 _ He'); lia|]. cbn [e_name] in Hn.
        refine (no_live_named (live s) name (stab s) H1 H2 _ e' He' Hn C).
        intros e0 F0 C0. unfold sink_lookup in E0. rewrite F0 in E0. apply memN_In in C0. rewrite C0 in E0. discriminate.
    + apply (FLp_mono (live s)); [|exact H2]. intros e He C. apply release1_live_sub in C. exact C.
    + apply (FLp_mono (live s)); [|exact H2]. intros e He C. apply in_app_or in C. destruct C as [C|C]; [exact (rc_handles_live _ _ _ I C) | exact C].
    + apply (FLp_mono (live s)); [|exact H2]. intros e He C. apply release_live_sub in C. exact C.
    + apply FLp_filter. exact H2.
  - destruct o; unfold mstep; repeat dm; nrm; try exact H3.
    + intros e He. apply lb_insert_In in He. destruct He as [->|He]; [cbn [e_uid]; lia | specialize (H3 _ He); lia].
    + intros e He. apply filter_In in He. exact (H3 _ (proj1 He)).
Qed.

Lemma sinv_run : forall K nt ops, SInv (mrun K (st0 nt) ops) /\ Inv (mrun K (st0 nt) ops).
Proof.
  intros K nt ops. generalize (sinv_init nt) (inv_init nt). generalize (st0 nt). induction ops as [|o r IH]; intros s S I; [split; assumption|].
  cbn [mrun fold_left]. apply IH; [apply sinv_step; assumption | apply inv_step; exact I].
Qed.

(* what the lookup by name returns: the live sink of that name if there is one (there is at most one) *)
Lemma sink_lookup_spec : forall s n, SInv s ->
  match sink_lookup n s with
  | Some u => In u (live s) /\ exists e, In e (stab s) /\ e_name e = n /\ e_uid e = u
  | None => forall e, In e (stab s) -> e_name e = n -> ~ In (e_uid e) (live s)
  end.
Proof.
  intros s n [H1 H2 H3]. destruct (sink_lookup n s) as [u|] eqn:E.
  - split; [exact (sink_lookup_live _ _ _ E)|]. unfold sink_lookup in E. destruct (lb_find e_name n (stab s)) as [e|] eqn:F; [|discriminate].
    destruct (memN (e_uid e) (live s)); [|discriminate]. inversion E. subst u. destruct (lb_find_Some _ _ _ _ F) as [A B]. exists e. tauto.
  - apply (no_live_named (live s) n (stab s) H1 H2). intros e0 F0 C0. unfold sink_lookup in E. rewrite F0 in E.
    apply memN_In in C0. rewrite C0 in E. discriminate.
Qed.

Lemma reg_sorted_unique : forall K nt ops, let s := mrun K (st0 nt) ops in
  StronglySorted N.lt (map l_name (lgs s)) /\ NoDup (map l_name (lgs s)) /\
  StronglySorted N.le (map e_name (stab s)) /\ FLp (live s) (stab s) /\
  (forall n, match sink_lookup n s with
             | Some u => In u (live s) /\ exists e, In e (stab s) /\ e_name e = n /\ e_uid e = u
             | None => forall e, In e (stab s) -> e_name e = n -> ~ In (e_uid e) (live s)
             end) /\
  (forall n, match lb_find l_name n (lgs s) with
             | Some L => In L (lgs s) /\ l_name L = n
             | None => ~ In n (map l_name (lgs s))
             end).
Proof.
  intros K nt ops s. destruct (sinv_run K nt ops) as [S I]. fold s in S, I. pose proof (i_sorted _ I) as HS. unfold names in HS.
  split; [exact HS|]. split.
  - clear - HS. induction (map l_name (lgs s)) as [|x r IH]; [constructor|]. apply StronglySorted_inv in HS. destruct HS as [A B].
    constructor; [|exact (IH A)]. intro C. rewrite Forall_forall in B. specialize (B _ C). lia.
  - split; [exact (s_sorted _ S)|]. split; [exact (s_first _ S)|]. split; [intro n; exact (sink_lookup_spec s n S)|].
    intro n. destruct (lb_find l_name n (lgs s)) as [L|] eqn:F; [exact (lb_find_Some _ _ _ _ F) | exact (lb_find_None_notin_lt _ _ _ HS F)].
Qed.

(* ------------------------------------------------------------------ (e) create_or_get / get are idempotent *)
Lemma create_get_idem : forall K s v v' name hs hs', locked s = false ->
  let s1 := mstep K s (FCreate v name hs) in
  let s2 := mstep K s1 (FCreate v' name hs') in
  lgs s2 = lgs s1 /\ live s2 = live s1 /\ glog s2 = glog s1 /\ nlg s2 = nlg s1 /\
  exists L, lb_find l_name name (lgs s1) = Some L /\ aget v (vars s1) = Some (l_uid L) /\ aget v' (vars s2) = Some (l_uid L).
Proof.
  intros K s v v' name hs hs' HL. cbv zeta.
  assert (A : exists L, lb_find l_name name (lgs (mstep K s (FCreate v name hs))) = Some L /\
                        aget v (vars (mstep K s (FCreate v name hs))) = Some (l_uid L) /\ locked (mstep K s (FCreate v name hs)) = false).
  { unfold mstep. rewrite HL. destruct (lb_find l_name name (lgs s)) as [L|] eqn:F; nrm.
    - exists L. split; [exact F|]. split; [cbn [aset aget]; rewrite N.eqb_refl; reflexivity | exact HL].
    - eexists. split; [exact (lb_find_insert l_name {| l_name := name; l_uid := nlg s; l_valid := true; l_sinks := handles_of hs (hnd s) |} (lgs s))|].
      split; [cbn [aset aget l_uid]; rewrite N.eqb_refl; reflexivity | exact HL]. }
  destruct A as (L & F & V & HL1). generalize dependent (mstep K s (FCreate v name hs)). intros s1 F V HL1.
  unfold mstep. rewrite HL1, F. nrm. repeat split; try reflexivity. exists L. split; [reflexivity|]. split; [exact V|].
  cbn [aset aget]. rewrite N.eqb_refl. reflexivity.
Qed.

Lemma lb_find_invalidate : forall u n l,
  lb_find l_name n (invalidate u l) =
  match lb_find l_name n l with
  | Some L => Some (if l_uid L =? u then {| l_name := l_name L; l_uid := l_uid L; l_valid := false; l_sinks := l_sinks L |} else L)
  | None => None
  end.
Proof.
  intros u n l. induction l as [|z r IH]; [reflexivity|]. cbn [invalidate map lb_find]. fold (invalidate u r).
  assert (E : l_name (if l_uid z =? u then {| l_name := l_name z; l_uid := l_uid z; l_valid := false; l_sinks := l_sinks z |} else z) = l_name z)
    by (destruct (l_uid z =? u); reflexivity).
  rewrite E. destruct (l_name z <? n); [exact IH|]. destruct (l_name z =? n); reflexivity.
Qed.

Lemma get_idem : forall K s v name, c_get_valid K = true -> locked s = false ->
  let s1 := mstep K s (FGet v name) in
  lgs s1 = lgs s /\ live s1 = live s /\
  aget v (vars s1) = match lb_find l_name name (lgs s) with Some L => if l_valid L then Some (l_uid L) else None | None => None end.
Proof.
  intros K s v name HK HL. cbv zeta. unfold mstep. rewrite HL, HK.
  destruct (lb_find l_name name (lgs s)) as [L|]; [destruct (l_valid L)|]; nrm; cbn [orb negb]; nrm;
    repeat split; try reflexivity; cbn [aset aget]; rewrite ?N.eqb_refl, ?aget_adel_same; reflexivity.
Qed.

Lemma get_removed_none : forall K s v v' name L, c_get_valid K = true -> locked s = false ->
  lb_find l_name name (lgs s) = Some L -> aget v (vars s) = Some (l_uid L) -> find_uid (l_uid L) (lgs s) = Some L ->
  aget v' (vars (mstep K (mstep K s (FRemove v)) (FGet v' name))) = None.
Proof.
  intros K s v v' name L HK HL F V U.
  assert (A : lgs (mstep K s (FRemove v)) = invalidate (l_uid L) (lgs s) /\ locked (mstep K s (FRemove v)) = false).
  { unfold mstep. rewrite V, U. nrm. split; [reflexivity | exact HL]. }
  destruct A as [A1 A2]. destruct (get_idem K (mstep K s (FRemove v)) v' name HK A2) as (_ & _ & G). cbv zeta in G.
  rewrite G, A1, lb_find_invalidate, F, N.eqb_refl. reflexivity.
Qed.

Lemma create_sink_idem : forall K s h h' name, aget h (hnd s) = None -> aget h' (hnd s) = None -> h' <> h ->
  let s1 := mstep K s (FCreateSink h name) in
  let s2 := mstep K s1 (FCreateSink h' name) in
  stab s2 = stab s1 /\ nsk s2 = nsk s1 /\
  exists u, aget h (hnd s1) = Some u /\ aget h' (hnd s2) = Some u /\ aget h (hnd s2) = Some u /\ In u (live s1).
Proof.
  intros K s h h' name H1 H2 Hne. cbv zeta.
  assert (A : exists u, sink_lookup name (mstep K s (FCreateSink h name)) = Some u /\
                        hnd (mstep K s (FCreateSink h name)) = (h, u) :: hnd s).
  { unfold mstep. rewrite H1. destruct (sink_lookup name s) as [u|] eqn:F; nrm.
    - exists u. split; [|reflexivity]. unfold sink_lookup in *. nrm. destruct (lb_find e_name name (stab s)) as [e|]; [|discriminate].
      destruct (memN (e_uid e) (live s)) eqn:M; [|discriminate]. inversion F. subst u. cbn [memN]. rewrite M, orb_true_r. reflexivity.
    - exists (nsk s). split; [|reflexivity]. unfold sink_lookup. nrm.
      pose proof (lb_find_insert e_name {| e_name := name; e_uid := nsk s |} (stab s)) as Z. cbn [e_name] in Z. rewrite Z. cbn [e_uid memN]. rewrite N.eqb_refl. reflexivity. }
  destruct A as (u & F & Hh). generalize dependent (mstep K s (FCreateSink h name)). intros s1 F Hh.
  unfold mstep. rewrite Hh. cbn [aget]. destruct (N.eqb_spec h h') as [C|C]; [congruence|]. rewrite H2, F. nrm.
  split; [reflexivity|]. split; [reflexivity|]. exists u. rewrite Hh. cbn [aget]. rewrite !N.eqb_refl.
  destruct (N.eqb_spec h' h) as [C2|C2]; [contradiction|].
  repeat split; try reflexivity. exact (sink_lookup_live _ _ _ F).
Qed.
