(* M-REG: frame lemmas: which fields the recursive helpers (release1, release, write_sinks, store_flags) leave alone.
   The file was produced once by a script (one lemma per helper and untouched field); it is ordinary source, checked by coqc. *)
From Coq Require Import List NArith Bool.
From Quill Require Import Registry.RegModel.
Import ListNotations.
Local Open Scope N_scope.

Lemma release1_lgs : forall x s, lgs (release1 x s) = lgs s.
Proof. intros x s. unfold release1. destruct (memN x (remove_one x (live s))); reflexivity. Qed.
Lemma release_lgs : forall ss s, lgs (release ss s) = lgs s.
Proof. intro ss. induction ss as [|x r IH]; intro s; cbn [release]; [reflexivity | rewrite IH; apply release1_lgs]. Qed.
Lemma write_sinks_lgs : forall ss lg m s, lgs (write_sinks ss lg m s) = lgs s.
Proof. intros ss lg m. induction ss as [|x r IH]; intro s; cbn [write_sinks]; [reflexivity | rewrite IH; destruct (memN x (live s)); reflexivity]. Qed.
Lemma store_flags_lgs : forall ns s, lgs (store_flags ns s) = lgs s.
Proof. intro ns. induction ns as [|x r IH]; intro s; cbn [store_flags]; [reflexivity | rewrite IH; destruct (aget x (rflags s)); reflexivity]. Qed.
Lemma release1_has_inv : forall x s, has_inv (release1 x s) = has_inv s.
Proof. intros x s. unfold release1. destruct (memN x (remove_one x (live s))); reflexivity. Qed.
Lemma release_has_inv : forall ss s, has_inv (release ss s) = has_inv s.
Proof. intro ss. induction ss as [|x r IH]; intro s; cbn [release]; [reflexivity | rewrite IH; apply release1_has_inv]. Qed.
Lemma write_sinks_has_inv : forall ss lg m s, has_inv (write_sinks ss lg m s) = has_inv s.
Proof. intros ss lg m. induction ss as [|x r IH]; intro s; cbn [write_sinks]; [reflexivity | rewrite IH; destruct (memN x (live s)); reflexivity]. Qed.
Lemma store_flags_has_inv : forall ns s, has_inv (store_flags ns s) = has_inv s.
Proof. intro ns. induction ns as [|x r IH]; intro s; cbn [store_flags]; [reflexivity | rewrite IH; destruct (aget x (rflags s)); reflexivity]. Qed.
Lemma release1_pc : forall x s, pc (release1 x s) = pc s.
Proof. intros x s. unfold release1. destruct (memN x (remove_one x (live s))); reflexivity. Qed.
Lemma release_pc : forall ss s, pc (release ss s) = pc s.
Proof. intro ss. induction ss as [|x r IH]; intro s; cbn [release]; [reflexivity | rewrite IH; apply release1_pc]. Qed.
Lemma write_sinks_pc : forall ss lg m s, pc (write_sinks ss lg m s) = pc s.
Proof. intros ss lg m. induction ss as [|x r IH]; intro s; cbn [write_sinks]; [reflexivity | rewrite IH; destruct (memN x (live s)); reflexivity]. Qed.
Lemma store_flags_pc : forall ns s, pc (store_flags ns s) = pc s.
Proof. intro ns. induction ns as [|x r IH]; intro s; cbn [store_flags]; [reflexivity | rewrite IH; destruct (aget x (rflags s)); reflexivity]. Qed.
Lemma release1_stab : forall x s, stab (release1 x s) = stab s.
Proof. intros x s. unfold release1. destruct (memN x (remove_one x (live s))); reflexivity. Qed.
Lemma release_stab : forall ss s, stab (release ss s) = stab s.
Proof. intro ss. induction ss as [|x r IH]; intro s; cbn [release]; [reflexivity | rewrite IH; apply release1_stab]. Qed.
Lemma write_sinks_stab : forall ss lg m s, stab (write_sinks ss lg m s) = stab s.
Proof. intros ss lg m. induction ss as [|x r IH]; intro s; cbn [write_sinks]; [reflexivity | rewrite IH; destruct (memN x (live s)); reflexivity]. Qed.
Lemma store_flags_stab : forall ns s, stab (store_flags ns s) = stab s.
Proof. intro ns. induction ns as [|x r IH]; intro s; cbn [store_flags]; [reflexivity | rewrite IH; destruct (aget x (rflags s)); reflexivity]. Qed.
Lemma write_sinks_live : forall ss lg m s, live (write_sinks ss lg m s) = live s.
Proof. intros ss lg m. induction ss as [|x r IH]; intro s; cbn [write_sinks]; [reflexivity | rewrite IH; destruct (memN x (live s)); reflexivity]. Qed.
Lemma store_flags_live : forall ns s, live (store_flags ns s) = live s.
Proof. intro ns. induction ns as [|x r IH]; intro s; cbn [store_flags]; [reflexivity | rewrite IH; destruct (aget x (rflags s)); reflexivity]. Qed.
Lemma release1_hnd : forall x s, hnd (release1 x s) = hnd s.
Proof. intros x s. unfold release1. destruct (memN x (remove_one x (live s))); reflexivity. Qed.
Lemma release_hnd : forall ss s, hnd (release ss s) = hnd s.
Proof. intro ss. induction ss as [|x r IH]; intro s; cbn [release]; [reflexivity | rewrite IH; apply release1_hnd]. Qed.
Lemma write_sinks_hnd : forall ss lg m s, hnd (write_sinks ss lg m s) = hnd s.
Proof. intros ss lg m. induction ss as [|x r IH]; intro s; cbn [write_sinks]; [reflexivity | rewrite IH; destruct (memN x (live s)); reflexivity]. Qed.
Lemma store_flags_hnd : forall ns s, hnd (store_flags ns s) = hnd s.
Proof. intro ns. induction ns as [|x r IH]; intro s; cbn [store_flags]; [reflexivity | rewrite IH; destruct (aget x (rflags s)); reflexivity]. Qed.
Lemma release1_vars : forall x s, vars (release1 x s) = vars s.
Proof. intros x s. unfold release1. destruct (memN x (remove_one x (live s))); reflexivity. Qed.
Lemma release_vars : forall ss s, vars (release ss s) = vars s.
Proof. intro ss. induction ss as [|x r IH]; intro s; cbn [release]; [reflexivity | rewrite IH; apply release1_vars]. Qed.
Lemma write_sinks_vars : forall ss lg m s, vars (write_sinks ss lg m s) = vars s.
Proof. intros ss lg m. induction ss as [|x r IH]; intro s; cbn [write_sinks]; [reflexivity | rewrite IH; destruct (memN x (live s)); reflexivity]. Qed.
Lemma store_flags_vars : forall ns s, vars (store_flags ns s) = vars s.
Proof. intro ns. induction ns as [|x r IH]; intro s; cbn [store_flags]; [reflexivity | rewrite IH; destruct (aget x (rflags s)); reflexivity]. Qed.
Lemma release1_ths : forall x s, ths (release1 x s) = ths s.
Proof. intros x s. unfold release1. destruct (memN x (remove_one x (live s))); reflexivity. Qed.
Lemma release_ths : forall ss s, ths (release ss s) = ths s.
Proof. intro ss. induction ss as [|x r IH]; intro s; cbn [release]; [reflexivity | rewrite IH; apply release1_ths]. Qed.
Lemma write_sinks_ths : forall ss lg m s, ths (write_sinks ss lg m s) = ths s.
Proof. intros ss lg m. induction ss as [|x r IH]; intro s; cbn [write_sinks]; [reflexivity | rewrite IH; destruct (memN x (live s)); reflexivity]. Qed.
Lemma store_flags_ths : forall ns s, ths (store_flags ns s) = ths s.
Proof. intro ns. induction ns as [|x r IH]; intro s; cbn [store_flags]; [reflexivity | rewrite IH; destruct (aget x (rflags s)); reflexivity]. Qed.
Lemma release1_rflags : forall x s, rflags (release1 x s) = rflags s.
Proof. intros x s. unfold release1. destruct (memN x (remove_one x (live s))); reflexivity. Qed.
Lemma release_rflags : forall ss s, rflags (release ss s) = rflags s.
Proof. intro ss. induction ss as [|x r IH]; intro s; cbn [release]; [reflexivity | rewrite IH; apply release1_rflags]. Qed.
Lemma write_sinks_rflags : forall ss lg m s, rflags (write_sinks ss lg m s) = rflags s.
Proof. intros ss lg m. induction ss as [|x r IH]; intro s; cbn [write_sinks]; [reflexivity | rewrite IH; destruct (memN x (live s)); reflexivity]. Qed.
Lemma release1_fset : forall x s, fset (release1 x s) = fset s.
Proof. intros x s. unfold release1. destruct (memN x (remove_one x (live s))); reflexivity. Qed.
Lemma release_fset : forall ss s, fset (release ss s) = fset s.
Proof. intro ss. induction ss as [|x r IH]; intro s; cbn [release]; [reflexivity | rewrite IH; apply release1_fset]. Qed.
Lemma write_sinks_fset : forall ss lg m s, fset (write_sinks ss lg m s) = fset s.
Proof. intros ss lg m. induction ss as [|x r IH]; intro s; cbn [write_sinks]; [reflexivity | rewrite IH; destruct (memN x (live s)); reflexivity]. Qed.
Lemma release1_nlg : forall x s, nlg (release1 x s) = nlg s.
Proof. intros x s. unfold release1. destruct (memN x (remove_one x (live s))); reflexivity. Qed.
Lemma release_nlg : forall ss s, nlg (release ss s) = nlg s.
Proof. intro ss. induction ss as [|x r IH]; intro s; cbn [release]; [reflexivity | rewrite IH; apply release1_nlg]. Qed.
Lemma write_sinks_nlg : forall ss lg m s, nlg (write_sinks ss lg m s) = nlg s.
Proof. intros ss lg m. induction ss as [|x r IH]; intro s; cbn [write_sinks]; [reflexivity | rewrite IH; destruct (memN x (live s)); reflexivity]. Qed.
Lemma store_flags_nlg : forall ns s, nlg (store_flags ns s) = nlg s.
Proof. intro ns. induction ns as [|x r IH]; intro s; cbn [store_flags]; [reflexivity | rewrite IH; destruct (aget x (rflags s)); reflexivity]. Qed.
Lemma release1_nsk : forall x s, nsk (release1 x s) = nsk s.
Proof. intros x s. unfold release1. destruct (memN x (remove_one x (live s))); reflexivity. Qed.
Lemma release_nsk : forall ss s, nsk (release ss s) = nsk s.
Proof. intro ss. induction ss as [|x r IH]; intro s; cbn [release]; [reflexivity | rewrite IH; apply release1_nsk]. Qed.
Lemma write_sinks_nsk : forall ss lg m s, nsk (write_sinks ss lg m s) = nsk s.
Proof. intros ss lg m. induction ss as [|x r IH]; intro s; cbn [write_sinks]; [reflexivity | rewrite IH; destruct (memN x (live s)); reflexivity]. Qed.
Lemma store_flags_nsk : forall ns s, nsk (store_flags ns s) = nsk s.
Proof. intro ns. induction ns as [|x r IH]; intro s; cbn [store_flags]; [reflexivity | rewrite IH; destruct (aget x (rflags s)); reflexivity]. Qed.
Lemma release1_nfl : forall x s, nfl (release1 x s) = nfl s.
Proof. intros x s. unfold release1. destruct (memN x (remove_one x (live s))); reflexivity. Qed.
Lemma release_nfl : forall ss s, nfl (release ss s) = nfl s.
Proof. intro ss. induction ss as [|x r IH]; intro s; cbn [release]; [reflexivity | rewrite IH; apply release1_nfl]. Qed.
Lemma write_sinks_nfl : forall ss lg m s, nfl (write_sinks ss lg m s) = nfl s.
Proof. intros ss lg m. induction ss as [|x r IH]; intro s; cbn [write_sinks]; [reflexivity | rewrite IH; destruct (memN x (live s)); reflexivity]. Qed.
Lemma store_flags_nfl : forall ns s, nfl (store_flags ns s) = nfl s.
Proof. intro ns. induction ns as [|x r IH]; intro s; cbn [store_flags]; [reflexivity | rewrite IH; destruct (aget x (rflags s)); reflexivity]. Qed.
Lemma release1_clk : forall x s, clk (release1 x s) = clk s.
Proof. intros x s. unfold release1. destruct (memN x (remove_one x (live s))); reflexivity. Qed.
Lemma release_clk : forall ss s, clk (release ss s) = clk s.
Proof. intro ss. induction ss as [|x r IH]; intro s; cbn [release]; [reflexivity | rewrite IH; apply release1_clk]. Qed.
Lemma write_sinks_clk : forall ss lg m s, clk (write_sinks ss lg m s) = clk s.
Proof. intros ss lg m. induction ss as [|x r IH]; intro s; cbn [write_sinks]; [reflexivity | rewrite IH; destruct (memN x (live s)); reflexivity]. Qed.
Lemma store_flags_clk : forall ns s, clk (store_flags ns s) = clk s.
Proof. intro ns. induction ns as [|x r IH]; intro s; cbn [store_flags]; [reflexivity | rewrite IH; destruct (aget x (rflags s)); reflexivity]. Qed.
Lemma release1_clog : forall x s, clog (release1 x s) = clog s.
Proof. intros x s. unfold release1. destruct (memN x (remove_one x (live s))); reflexivity. Qed.
Lemma release_clog : forall ss s, clog (release ss s) = clog s.
Proof. intro ss. induction ss as [|x r IH]; intro s; cbn [release]; [reflexivity | rewrite IH; apply release1_clog]. Qed.
Lemma write_sinks_clog : forall ss lg m s, clog (write_sinks ss lg m s) = clog s.
Proof. intros ss lg m. induction ss as [|x r IH]; intro s; cbn [write_sinks]; [reflexivity | rewrite IH; destruct (memN x (live s)); reflexivity]. Qed.
Lemma store_flags_clog : forall ns s, clog (store_flags ns s) = clog s.
Proof. intro ns. induction ns as [|x r IH]; intro s; cbn [store_flags]; [reflexivity | rewrite IH; destruct (aget x (rflags s)); reflexivity]. Qed.
Lemma release1_plog : forall x s, plog (release1 x s) = plog s.
Proof. intros x s. unfold release1. destruct (memN x (remove_one x (live s))); reflexivity. Qed.
Lemma release_plog : forall ss s, plog (release ss s) = plog s.
Proof. intro ss. induction ss as [|x r IH]; intro s; cbn [release]; [reflexivity | rewrite IH; apply release1_plog]. Qed.
Lemma write_sinks_plog : forall ss lg m s, plog (write_sinks ss lg m s) = plog s.
Proof. intros ss lg m. induction ss as [|x r IH]; intro s; cbn [write_sinks]; [reflexivity | rewrite IH; destruct (memN x (live s)); reflexivity]. Qed.
Lemma store_flags_plog : forall ns s, plog (store_flags ns s) = plog s.
Proof. intro ns. induction ns as [|x r IH]; intro s; cbn [store_flags]; [reflexivity | rewrite IH; destruct (aget x (rflags s)); reflexivity]. Qed.
Lemma release1_wlog : forall x s, wlog (release1 x s) = wlog s.
Proof. intros x s. unfold release1. destruct (memN x (remove_one x (live s))); reflexivity. Qed.
Lemma release_wlog : forall ss s, wlog (release ss s) = wlog s.
Proof. intro ss. induction ss as [|x r IH]; intro s; cbn [release]; [reflexivity | rewrite IH; apply release1_wlog]. Qed.
Lemma store_flags_wlog : forall ns s, wlog (store_flags ns s) = wlog s.
Proof. intro ns. induction ns as [|x r IH]; intro s; cbn [store_flags]; [reflexivity | rewrite IH; destruct (aget x (rflags s)); reflexivity]. Qed.
Lemma write_sinks_dlog : forall ss lg m s, dlog (write_sinks ss lg m s) = dlog s.
Proof. intros ss lg m. induction ss as [|x r IH]; intro s; cbn [write_sinks]; [reflexivity | rewrite IH; destruct (memN x (live s)); reflexivity]. Qed.
Lemma store_flags_dlog : forall ns s, dlog (store_flags ns s) = dlog s.
Proof. intro ns. induction ns as [|x r IH]; intro s; cbn [store_flags]; [reflexivity | rewrite IH; destruct (aget x (rflags s)); reflexivity]. Qed.
Lemma release1_elog : forall x s, elog (release1 x s) = elog s.
Proof. intros x s. unfold release1. destruct (memN x (remove_one x (live s))); reflexivity. Qed.
Lemma release_elog : forall ss s, elog (release ss s) = elog s.
Proof. intro ss. induction ss as [|x r IH]; intro s; cbn [release]; [reflexivity | rewrite IH; apply release1_elog]. Qed.
Lemma write_sinks_elog : forall ss lg m s, elog (write_sinks ss lg m s) = elog s.
Proof. intros ss lg m. induction ss as [|x r IH]; intro s; cbn [write_sinks]; [reflexivity | rewrite IH; destruct (memN x (live s)); reflexivity]. Qed.
Lemma store_flags_elog : forall ns s, elog (store_flags ns s) = elog s.
Proof. intro ns. induction ns as [|x r IH]; intro s; cbn [store_flags]; [reflexivity | rewrite IH; destruct (aget x (rflags s)); reflexivity]. Qed.
Lemma release1_glog : forall x s, glog (release1 x s) = glog s.
Proof. intros x s. unfold release1. destruct (memN x (remove_one x (live s))); reflexivity. Qed.
Lemma release_glog : forall ss s, glog (release ss s) = glog s.
Proof. intro ss. induction ss as [|x r IH]; intro s; cbn [release]; [reflexivity | rewrite IH; apply release1_glog]. Qed.
Lemma write_sinks_glog : forall ss lg m s, glog (write_sinks ss lg m s) = glog s.
Proof. intros ss lg m. induction ss as [|x r IH]; intro s; cbn [write_sinks]; [reflexivity | rewrite IH; destruct (memN x (live s)); reflexivity]. Qed.
Lemma store_flags_glog : forall ns s, glog (store_flags ns s) = glog s.
Proof. intro ns. induction ns as [|x r IH]; intro s; cbn [store_flags]; [reflexivity | rewrite IH; destruct (aget x (rflags s)); reflexivity]. Qed.
Lemma release1_bad : forall x s, bad (release1 x s) = bad s.
Proof. intros x s. unfold release1. destruct (memN x (remove_one x (live s))); reflexivity. Qed.
Lemma release_bad : forall ss s, bad (release ss s) = bad s.
Proof. intro ss. induction ss as [|x r IH]; intro s; cbn [release]; [reflexivity | rewrite IH; apply release1_bad]. Qed.
Lemma store_flags_bad : forall ns s, bad (store_flags ns s) = bad s.
Proof. intro ns. induction ns as [|x r IH]; intro s; cbn [store_flags]; [reflexivity | rewrite IH; destruct (aget x (rflags s)); reflexivity]. Qed.
Lemma store_flags_obs : forall ns s, obs (store_flags ns s) = obs s.
Proof. intro ns. induction ns as [|x r IH]; intro s; cbn [store_flags]; [reflexivity | rewrite IH; destruct (aget x (rflags s)); reflexivity]. Qed.
#[export] Hint Rewrite release1_lgs release_lgs write_sinks_lgs store_flags_lgs release1_has_inv release_has_inv write_sinks_has_inv store_flags_has_inv release1_pc release_pc write_sinks_pc store_flags_pc release1_stab release_stab write_sinks_stab store_flags_stab write_sinks_live store_flags_live release1_hnd release_hnd write_sinks_hnd store_flags_hnd release1_vars release_vars write_sinks_vars store_flags_vars release1_ths release_ths write_sinks_ths store_flags_ths release1_rflags release_rflags write_sinks_rflags release1_fset release_fset write_sinks_fset release1_nlg release_nlg write_sinks_nlg store_flags_nlg release1_nsk release_nsk write_sinks_nsk store_flags_nsk release1_nfl release_nfl write_sinks_nfl store_flags_nfl release1_clk release_clk write_sinks_clk store_flags_clk release1_clog release_clog write_sinks_clog store_flags_clog release1_plog release_plog write_sinks_plog store_flags_plog release1_wlog release_wlog store_flags_wlog write_sinks_dlog store_flags_dlog release1_elog release_elog write_sinks_elog store_flags_elog release1_glog release_glog write_sinks_glog store_flags_glog release1_bad release_bad store_flags_bad store_flags_obs : frame.
