(* M-REG: list-level lemmas (multiset counts, association lists, lower_bound insertion / search,
   positional update) used by the invariants of RegInv.v. *)
From Coq Require Import List NArith Arith Bool Lia Sorted.
From Quill Require Import Registry.RegModel.
Import ListNotations.
Local Open Scope N_scope.

(* ------------------------------------------------------------------ membership / counts *)
Lemma memN_In : forall x l, memN x l = true <-> In x l.
Proof.
  intros x l. induction l as [|y r IH]; cbn [memN In].
  - split; [discriminate | tauto].
  - rewrite orb_true_iff, N.eqb_eq, IH. tauto.
Qed.

Lemma memN_false : forall x l, memN x l = false <-> ~ In x l.
Proof.
  intros x l. rewrite <- memN_In. destruct (memN x l); split; intro H;
    try reflexivity; try discriminate; try (exfalso; apply H; reflexivity); try (intro; discriminate).
Qed.

Fixpoint cnt (x : N) (l : list N) : nat :=
  match l with [] => O | y :: r => ((if N.eqb y x then 1 else 0) + cnt x r)%nat end.

Lemma cnt_app : forall x a b, cnt x (a ++ b) = (cnt x a + cnt x b)%nat.
Proof. intros x a b. induction a as [|y r IH]; cbn [cnt app]; [reflexivity | rewrite IH; lia]. Qed.

Lemma cnt_pos_In : forall x l, (0 < cnt x l)%nat <-> In x l.
Proof.
  intros x l. induction l as [|y r IH]; cbn [cnt In].
  - split; [lia | tauto].
  - destruct (N.eqb_spec y x) as [E|E].
    + split; [intros _; left; exact E | intros _; lia].
    + rewrite <- IH. split; [intro H; right; lia | intros [H|H]; [contradiction | lia]].
Qed.

Lemma cnt_zero_notin : forall x l, cnt x l = O <-> ~ In x l.
Proof. intros x l. rewrite <- cnt_pos_In. lia. Qed.

Lemma cnt_remove_one : forall u x l,
  cnt u (remove_one x l) = if u =? x then Nat.pred (cnt u l) else cnt u l.
Proof.
  intros u x l. induction l as [|y r IH]; cbn [remove_one cnt].
  - destruct (u =? x); reflexivity.
  - destruct (N.eqb_spec y x) as [E|E].
    + subst y. destruct (N.eqb_spec u x) as [E2|E2].
      * subst u. rewrite N.eqb_refl. cbn. reflexivity.
      * destruct (N.eqb_spec x u) as [E3|E3]; [congruence | reflexivity].
    + cbn [cnt]. rewrite IH. destruct (N.eqb_spec u x) as [E2|E2].
      * subst u. destruct (N.eqb_spec y x) as [E3|E3]; [contradiction | reflexivity].
      * reflexivity.
Qed.

Lemma remove_one_In : forall u x l, In u (remove_one x l) -> In u l.
Proof.
  intros u x l. induction l as [|y r IH]; cbn [remove_one]; [tauto|].
  destruct (y =? x); cbn [In]; tauto.
Qed.

(* ------------------------------------------------------------------ association lists *)
Lemma aget_In : forall k l u, aget k l = Some u -> In (k, u) l.
Proof.
  intros k l u. induction l as [|[a b] r IH]; cbn [aget]; [discriminate|].
  destruct (N.eqb_spec a k) as [E|E]; intro H.
  - inversion H. subst. left. reflexivity.
  - right. exact (IH H).
Qed.

Lemma aget_In_snd : forall k l u, aget k l = Some u -> In u (map snd l).
Proof. intros k l u H. apply aget_In in H. apply (in_map snd) in H. exact H. Qed.

Lemma adel1_cnt : forall k l u, aget k l = Some u ->
  forall x, cnt x (map snd l) = ((if N.eqb u x then 1 else 0) + cnt x (map snd (adel1 k l)))%nat.
Proof.
  intros k l u. induction l as [|[a b] r IH]; cbn [aget]; [discriminate|].
  intros H x. cbn [adel1]. destruct (N.eqb_spec a k) as [E|E].
  - inversion H. subst. cbn [map snd cnt]. reflexivity.
  - cbn [map snd cnt]. rewrite (IH H x). lia.
Qed.

Lemma adel1_In : forall k l p, In p (adel1 k l) -> In p l.
Proof.
  intros k l p. induction l as [|[a b] r IH]; cbn [adel1]; [tauto|].
  destruct (a =? k); cbn [In]; tauto.
Qed.

Lemma aget_adel_other : forall k k' l, k' <> k -> aget k' (adel k l) = aget k' l.
Proof.
  intros k k' l Hn. induction l as [|[a b] r IH]; cbn [adel aget]; [reflexivity|].
  destruct (N.eqb_spec a k) as [E|E].
  - subst a. destruct (N.eqb_spec k k') as [E2|E2]; [congruence | exact IH].
  - cbn [aget]. rewrite IH. reflexivity.
Qed.

Lemma aget_adel_same : forall k l, aget k (adel k l) = None.
Proof.
  intros k l. induction l as [|[a b] r IH]; cbn [adel aget]; [reflexivity|].
  destruct (N.eqb_spec a k) as [E|E]; [exact IH|]. cbn [aget].
  destruct (N.eqb_spec a k); [contradiction | exact IH].
Qed.

Lemma aget_app_none : forall k l k' v, aget k l = None -> aget k (l ++ [(k', v)]) = if k' =? k then Some v else None.
Proof.
  intros k l k' v. induction l as [|[a b] r IH]; cbn [aget app]; [reflexivity|].
  destruct (a =? k); [discriminate | exact IH].
Qed.

Lemma aget_app_some : forall k l l' u, aget k l = Some u -> aget k (l ++ l') = Some u.
Proof.
  intros k l l' u. induction l as [|[a b] r IH]; cbn [aget app]; [discriminate|].
  destruct (a =? k); [intro H; exact H | exact IH].
Qed.

Lemma handles_of_sub : forall hs h u, In u (handles_of hs h) -> In u (map snd h).
Proof.
  intros hs h u. induction hs as [|x r IH]; cbn [handles_of]; [intros []|].
  destruct (aget x h) as [w|] eqn:E; [|exact IH].
  cbn [In]. intros [H|H]; [subst w; exact (aget_In_snd _ _ _ E) | exact (IH H)].
Qed.

(* ------------------------------------------------------------------ positional update / deletion *)
Lemma upd_nth_length : forall A n (x : A) l, length (upd_nth n x l) = length l.
Proof.
  intros A n x l. revert n. induction l as [|y r IH]; intro n; cbn [upd_nth]; [reflexivity|].
  destruct n; cbn [length]; [reflexivity | rewrite IH; reflexivity].
Qed.

Lemma nth_upd_same : forall A n (x d : A) l, (n < length l)%nat -> nth n (upd_nth n x l) d = x.
Proof.
  intros A n x d l. revert n. induction l as [|y r IH]; intros n H; cbn [length] in H; [lia|].
  cbn [upd_nth]. destruct n; cbn [nth]; [reflexivity | apply IH; lia].
Qed.

Lemma nth_upd_other : forall A n n' (x d : A) l, n' <> n -> nth n' (upd_nth n x l) d = nth n' l d.
Proof.
  intros A n n' x d l. revert n n'. induction l as [|y r IH]; intros n n' H; cbn [upd_nth]; [reflexivity|].
  destruct n; destruct n'; cbn [nth]; try reflexivity; try lia. apply IH. lia.
Qed.

Lemma upd_nth_In : forall A n (x y : A) l, In y (upd_nth n x l) -> y = x \/ In y l.
Proof.
  intros A n x y l. revert n. induction l as [|z r IH]; intro n; cbn [upd_nth]; [tauto|].
  destruct n; cbn [In]; [intuition congruence|]. intros [H|H]; [tauto|]. destruct (IH _ H); tauto.
Qed.

Lemma nth_In_or_default : forall A n (l : list A) d, nth n l d = d \/ In (nth n l d) l.
Proof. intros A n l d. destruct (nth_in_or_default n l d); tauto. Qed.

Lemma del_nth_In : forall A i (x : A) l, In x (del_nth i l) -> In x l.
Proof.
  intros A i x l. revert i. induction l as [|y r IH]; intro i; cbn [del_nth]; [tauto|].
  destruct i; cbn [In]; [tauto|]. intros [H|H]; [tauto | right; exact (IH _ H)].
Qed.

Lemma nth_error_In_del : forall A i (x y : A) l, nth_error l i = Some x -> In y l -> y = x \/ In y (del_nth i l).
Proof.
  intros A i x y l. revert i. induction l as [|z r IH]; intros i H Hin; [destruct i; discriminate|].
  destruct i; cbn [nth_error del_nth] in *.
  - inversion H. subst. destruct Hin; [left; congruence | right; assumption].
  - destruct Hin as [E|Hin]; [right; left; exact E|]. destruct (IH _ H Hin); [tauto | right; right; assumption].
Qed.

Lemma cnt_flat_map_del : forall A (f : A -> list N) i x l u, nth_error l i = Some x ->
  cnt u (flat_map f l) = (cnt u (f x) + cnt u (flat_map f (del_nth i l)))%nat.
Proof.
  intros A f i x l u. revert i. induction l as [|z r IH]; intros i H; [destruct i; discriminate|].
  destruct i; cbn [nth_error del_nth flat_map] in *.
  - inversion H. subst. rewrite cnt_app. reflexivity.
  - rewrite !cnt_app, (IH _ H). lia.
Qed.

Lemma StronglySorted_del : forall (R : N -> N -> Prop) A (key : A -> N) i l,
  StronglySorted R (map key l) -> StronglySorted R (map key (del_nth i l)).
Proof.
  intros R A key i l. revert i. induction l as [|z r IH]; intros i H; cbn [del_nth]; [exact H|].
  cbn [map] in H. apply StronglySorted_inv in H. destruct H as [H1 H2].
  destruct i; [exact H1|]. cbn [map]. constructor; [apply IH; exact H1|].
  rewrite Forall_forall in *. intros y Hy. apply H2. rewrite in_map_iff in *.
  destruct Hy as (w & E & Hw). exists w. split; [exact E | exact (del_nth_In _ _ _ _ Hw)].
Qed.

(* ------------------------------------------------------------------ lower_bound insertion and search *)
Section LBL.
Context {A : Type} (key : A -> N).

Lemma lb_insert_In : forall x l y, In y (lb_insert key x l) <-> y = x \/ In y l.
Proof.
  intros x l y. induction l as [|z r IH]; cbn [lb_insert In].
  - intuition congruence.
  - destruct (key z <? key x); cbn [In]; [rewrite IH|]; intuition congruence.
Qed.

Lemma cnt_flat_map_lb_insert : forall (f : A -> list N) x l u,
  cnt u (flat_map f (lb_insert key x l)) = (cnt u (f x) + cnt u (flat_map f l))%nat.
Proof.
  intros f x l u. induction l as [|z r IH]; cbn [lb_insert flat_map].
  - rewrite cnt_app. reflexivity.
  - destruct (key z <? key x); cbn [flat_map]; rewrite ?cnt_app; [rewrite IH; lia | reflexivity].
Qed.

Lemma lb_find_insert : forall x l, lb_find key (key x) (lb_insert key x l) = Some x.
Proof.
  intros x l. induction l as [|z r IH]; cbn [lb_insert lb_find].
  - rewrite N.ltb_irrefl, N.eqb_refl. reflexivity.
  - destruct (key z <? key x) eqn:E; cbn [lb_find]; [rewrite E; exact IH|].
    rewrite N.ltb_irrefl, N.eqb_refl. reflexivity.
Qed.

Lemma lb_find_Some : forall n l y, lb_find key n l = Some y -> In y l /\ key y = n.
Proof.
  intros n l y. induction l as [|z r IH]; cbn [lb_find]; [discriminate|].
  destruct (key z <? n); [intro H; destruct (IH H); split; [right|]; assumption|].
  destruct (N.eqb_spec (key z) n) as [E|E]; [|discriminate].
  intro H. inversion H. subst. split; [left; reflexivity | reflexivity].
Qed.

(* on a sorted vector the search finds the name whenever it is there *)
Lemma lb_find_None_notin : forall n l, StronglySorted N.le (map key l) -> lb_find key n l = None -> ~ In n (map key l).
Proof.
  intros n l. induction l as [|z r IH]; cbn [lb_find map]; [tauto|].
  intros HS. apply StronglySorted_inv in HS. destruct HS as [H1 H2].
  destruct (N.ltb_spec (key z) n) as [E|E].
  - intros H [Hin|Hin]; [lia | exact (IH H1 H Hin)].
  - destruct (N.eqb_spec (key z) n) as [E2|E2]; [discriminate|]. intros _ [Hin|Hin]; [congruence|].
    rewrite Forall_forall in H2. specialize (H2 _ Hin). lia.
Qed.

(* if other entries of the name exist they come after the one found (lower_bound finds the first) *)
Lemma lb_find_first : forall n l y, StronglySorted N.le (map key l) -> lb_find key n l = Some y ->
  exists l1 l2, l = l1 ++ y :: l2 /\ forall z, In z l1 -> key z < n.
Proof.
  intros n l y. induction l as [|z r IH]; cbn [lb_find map]; [discriminate|].
  intros HS. apply StronglySorted_inv in HS. destruct HS as [H1 H2].
  destruct (N.ltb_spec (key z) n) as [E|E].
  - intro H. destruct (IH H1 H) as (l1 & l2 & E1 & E2). exists (z :: l1), l2. split; [rewrite E1; reflexivity|].
    intros w [Hw|Hw]; [subst w; exact E | exact (E2 _ Hw)].
  - destruct (N.eqb_spec (key z) n) as [E2|E2]; [|discriminate]. intro H. inversion H. subst.
    exists [], r. split; [reflexivity | intros w []].
Qed.

Lemma lb_insert_sorted_le : forall x l, StronglySorted N.le (map key l) -> StronglySorted N.le (map key (lb_insert key x l)).
Proof.
  intros x l. induction l as [|z r IH]; cbn [lb_insert map]; intro HS.
  - constructor; [constructor | constructor].
  - apply StronglySorted_inv in HS. destruct HS as [H1 H2].
    destruct (N.ltb_spec (key z) (key x)) as [E|E]; cbn [map].
    + constructor; [exact (IH H1)|]. rewrite Forall_forall in *. intros w Hw. rewrite in_map_iff in Hw.
      destruct Hw as (v & Ev & Hv). apply lb_insert_In in Hv. destruct Hv as [Hv|Hv]; [subst; lia|].
      apply H2. rewrite in_map_iff. exists v. tauto.
    + constructor; [constructor; assumption|]. constructor; [exact E|].
      rewrite Forall_forall in *. intros w Hw. specialize (H2 _ Hw). lia.
Qed.

Lemma lb_insert_sorted_lt : forall x l, StronglySorted N.lt (map key l) -> lb_find key (key x) l = None ->
  StronglySorted N.lt (map key (lb_insert key x l)).
Proof.
  intros x l. induction l as [|z r IH]; cbn [lb_insert lb_find map]; intros HS HF.
  - constructor; [constructor | constructor].
  - apply StronglySorted_inv in HS. destruct HS as [H1 H2].
    destruct (N.ltb_spec (key z) (key x)) as [E|E]; cbn [map].
    + constructor; [exact (IH H1 HF)|]. rewrite Forall_forall in *. intros w Hw. rewrite in_map_iff in Hw.
      destruct Hw as (v & Ev & Hv). apply lb_insert_In in Hv. destruct Hv as [Hv|Hv]; [subst; lia|].
      apply H2. rewrite in_map_iff. exists v. tauto.
    + destruct (N.eqb_spec (key z) (key x)) as [E2|E2]; [discriminate|].
      constructor; [constructor; assumption|]. constructor; [lia|].
      rewrite Forall_forall in *. intros w Hw. specialize (H2 _ Hw). lia.
Qed.

Lemma lb_find_None_notin_lt : forall n l, StronglySorted N.lt (map key l) -> lb_find key n l = None -> ~ In n (map key l).
Proof.
  intros n l HS. apply lb_find_None_notin. clear n.
  induction l as [|z r IH]; cbn [map] in *; [constructor|].
  apply StronglySorted_inv in HS. destruct HS as [H1 H2]. constructor; [exact (IH H1)|].
  rewrite Forall_forall in *. intros w Hw. specialize (H2 _ Hw). lia.
Qed.

Lemma lb_find_notin_None : forall n l, ~ In n (map key l) -> lb_find key n l = None.
Proof.
  intros n l H. destruct (lb_find key n l) as [y|] eqn:E; [|reflexivity].
  destruct (lb_find_Some _ _ _ E) as [H1 H2]. exfalso. apply H. rewrite in_map_iff. exists y. tauto.
Qed.
End LBL.

(* ------------------------------------------------------------------ loggers *)
Lemma find_uid_Some : forall u l L, find_uid u l = Some L -> In L l /\ l_uid L = u.
Proof.
  intros u l L H. unfold find_uid in H. apply find_some in H. destruct H as [H1 H2].
  split; [exact H1 | apply N.eqb_eq; exact H2].
Qed.

Lemma find_uid_None : forall u l, find_uid u l = None -> forall L, In L l -> l_uid L <> u.
Proof.
  intros u l H L HL E. unfold find_uid in H. pose proof (find_none _ _ H L HL) as H1. cbn beta in H1.
  rewrite E, N.eqb_refl in H1. discriminate.
Qed.

Lemma find_uid_present : forall u l L, In L l -> l_uid L = u -> exists L', find_uid u l = Some L'.
Proof.
  intros u l L HL E. destruct (find_uid u l) as [L'|] eqn:F; [exists L'; reflexivity|].
  exfalso. exact (find_uid_None _ _ F _ HL E).
Qed.

Lemma invalidate_names : forall u l, map l_name (invalidate u l) = map l_name l.
Proof.
  intros u l. unfold invalidate. rewrite map_map. apply map_ext. intro L. destruct (l_uid L =? u); reflexivity.
Qed.
Lemma invalidate_uids : forall u l, map l_uid (invalidate u l) = map l_uid l.
Proof.
  intros u l. unfold invalidate. rewrite map_map. apply map_ext. intro L. destruct (l_uid L =? u); reflexivity.
Qed.
Lemma invalidate_sinks : forall u l, flat_map l_sinks (invalidate u l) = flat_map l_sinks l.
Proof.
  intros u l. induction l as [|L r IH]; [reflexivity|]. cbn [invalidate map flat_map]. fold (invalidate u r).
  rewrite IH. destruct (l_uid L =? u); reflexivity.
Qed.
Lemma invalidate_In : forall u l L', In L' (invalidate u l) ->
  exists L, In L l /\ l_name L' = l_name L /\ l_uid L' = l_uid L /\ l_sinks L' = l_sinks L /\
            (l_valid L' = true -> l_valid L = true /\ l_uid L <> u).
Proof.
  intros u l L' H. unfold invalidate in H. rewrite in_map_iff in H. destruct H as (L & E & HL).
  exists L. destruct (N.eqb_spec (l_uid L) u) as [E2|E2]; subst L'; cbn.
  - repeat split; try assumption; try discriminate.
  - repeat split; assumption.
Qed.
Lemma invalidate_In_rev : forall u l L, In L l ->
  exists L', In L' (invalidate u l) /\ l_name L' = l_name L /\ l_uid L' = l_uid L /\ l_sinks L' = l_sinks L.
Proof.
  intros u l L H. unfold invalidate.
  pose (g := fun L : lgr => if l_uid L =? u then {| l_name := l_name L; l_uid := l_uid L; l_valid := false; l_sinks := l_sinks L |} else L).
  exists (g L). split; [exact (in_map g l L H)|].
  unfold g. destruct (l_uid L =? u); cbn; repeat split; reflexivity.
Qed.

Lemma NoDup_app_one : forall A (l : list A) x, NoDup l -> ~ In x l -> NoDup (l ++ [x]).
Proof.
  intros A l x. induction l as [|y r IH]; cbn [app]; intros H1 H2.
  - constructor; [intros [] | constructor].
  - inversion H1 as [|? ? H3 H4]. subst. constructor.
    + rewrite in_app_iff. cbn [In]. intros [C|[C|[]]]; [exact (H3 C)|]. apply H2. left. symmetry. exact C.
    + apply IH; [exact H4|]. intro C. apply H2. right. exact C.
Qed.

Lemma aget_aemplace : forall n k v l f, aget n (aemplace k v l) = Some f ->
  aget n l = Some f \/ (n = k /\ f = v /\ aget k l = None).
Proof.
  intros n k v l f H. unfold aemplace in H. destruct (aget k l) as [w|] eqn:E; [left; exact H|].
  destruct (aget n l) as [x|] eqn:E2.
  - left. rewrite (aget_app_some _ _ _ _ E2) in H. exact H.
  - rewrite (aget_app_none _ _ _ _ E2) in H. destruct (N.eqb_spec k n) as [->|Hne]; [|discriminate].
    inversion H. right. tauto.
Qed.
