(* Spinlock (include/quill/core/Spinlock.h) in a release/acquire view model (style of Queue/BQDefs.v, BQRA).
   One atomic location _flag: its modification order is a list of messages (value, view carried), newest last.
   exchange is a read-modify-write: it reads the newest message, and the message it writes continues the release
   sequence of the one it read (it carries that message's view); with memory_order_acquire the thread joins the view
   it read. unlock is a plain store: it carries the thread's own view iff it is a release store. The inner relaxed
   spin load only decides when the exchange is attempted; the model lets a thread attempt it at any time, which covers
   every value the load may return.
   The data protected by the lock (the registry vectors) is a version counter: a critical section step reads and
   writes it; the access races iff the thread's view does not contain the newest version.
   Definitions only. *)
From Coq Require Import List Arith Bool.
From Quill Require Import Registry.RegModel.
Import ListNotations.

Record sorders := { x_acq : bool (* exchange has acquire semantics *); u_rel : bool (* unlock is a release store *) }.
Definition ssufficient (o : sorders) : bool := x_acq o && u_rel o.

Record sthr := { in_cs : bool; know : nat }.
Definition sthr0 : sthr := {| in_cs := false; know := 0 |}.
Record sp := { hist : list (bool * nat); sthrs : list sthr; dver : nat; race : bool; overlap : bool }.
Definition sp0 (nt : nat) : sp := {| hist := [(false, 0)]; sthrs := repeat sthr0 nt; dver := 0; race := false; overlap := false |}.

Inductive sop :=
| SXchg (t : nat)     (* one iteration of lock(): _flag.exchange(Locked, ...) *)
| SCrit (t : nat)     (* inside the critical section: read + write the protected data *)
| SUnlock (t : nat).  (* _flag.store(Free, ...) *)

Definition sth (s : sp) (t : nat) : sthr := nth t (sthrs s) sthr0.
Definition someone_in (l : list sthr) : bool := existsb in_cs l.

Definition sstep (o : sorders) (s : sp) (op : sop) : sp :=
  match op with
  | SXchg t =>
      if (t <? length (sthrs s)) && negb (in_cs (sth s t)) then
        let (v, k) := last (hist s) (false, 0) in
        let kn := if x_acq o then Nat.max (know (sth s t)) k else know (sth s t) in
        if v then (* it was locked: keep spinning *)
          {| hist := hist s ++ [(true, k)]; sthrs := upd_nth t {| in_cs := false; know := kn |} (sthrs s);
             dver := dver s; race := race s; overlap := overlap s |}
        else
          {| hist := hist s ++ [(true, k)]; sthrs := upd_nth t {| in_cs := true; know := kn |} (sthrs s);
             dver := dver s; race := race s; overlap := overlap s || someone_in (sthrs s) |}
      else s
  | SCrit t =>
      if in_cs (sth s t) then
        {| hist := hist s; sthrs := upd_nth t {| in_cs := true; know := S (dver s) |} (sthrs s);
           dver := S (dver s); race := race s || negb (dver s <=? know (sth s t)); overlap := overlap s |}
      else s
  | SUnlock t =>
      if in_cs (sth s t) then
        {| hist := hist s ++ [(false, if u_rel o then know (sth s t) else 0)];
           sthrs := upd_nth t {| in_cs := false; know := know (sth s t) |} (sthrs s);
           dver := dver s; race := race s; overlap := overlap s |}
      else s
  end.

Definition srun (o : sorders) (s : sp) (ops : list sop) : sp := fold_left (sstep o) ops s.
