(* M-REG: the structural invariants (for every configuration): name-sorted registry, per-thread
   conservation of records, sink use counts = owners, sink identities, logger identities. *)
From Coq Require Import List NArith Arith Bool Lia Sorted.
From Quill Require Import Registry.RegModel Registry.RegLemmas Registry.RegFrame.
Import ListNotations.
Local Open Scope N_scope.

Ltac sst :=
  cbn [lgs has_inv pc stab live hnd vars ths rflags fset nlg nsk nfl clk clog plog wlog dlog elog glog bad obs
       set_lgs set_has_inv set_pc set_stab set_live set_hnd set_vars set_ths set_rflags set_fset set_nlg set_nsk
       set_nfl set_clk set_clog set_plog set_wlog set_dlog set_elog set_glog set_bad set_obs emit commit set_th].
Ltac sst_in H :=
  cbn [lgs has_inv pc stab live hnd vars ths rflags fset nlg nsk nfl clk clog plog wlog dlog elog glog bad obs
       set_lgs set_has_inv set_pc set_stab set_live set_hnd set_vars set_ths set_rflags set_fset set_nlg set_nsk
       set_nfl set_clk set_clog set_plog set_wlog set_dlog set_elog set_glog set_bad set_obs emit commit set_th] in H.
Ltac dm :=
  match goal with
  | |- context [match ?x with _ => _ end] => let E := fresh "E" in destruct x eqn:E
  end.
Ltac fr := autorewrite with frame.

Definition proj (t : nat) (l : list (nat * rcd)) : list rcd := map snd (filter (fun p => Nat.eqb (fst p) t) l).
Definition pend (x : thr) : list rcd := t_tb x ++ t_q x.
Definition names (s : st) : list N := map l_name (lgs s).
Definition named (s : st) (u n : N) : Prop := exists L, In L (lgs s) /\ l_uid L = u /\ l_name L = n.

Lemma proj_app : forall t a b, proj t (a ++ b) = proj t a ++ proj t b.
Proof. intros. unfold proj. rewrite filter_app, map_app. reflexivity. Qed.
Lemma proj_one_same : forall t r, proj t [(t, r)] = [r].
Proof. intros. unfold proj. cbn [filter fst]. rewrite Nat.eqb_refl. reflexivity. Qed.
Lemma proj_one_other : forall t t' r, t' <> t -> proj t [(t', r)] = [].
Proof. intros. unfold proj. cbn [filter fst]. destruct (Nat.eqb_spec t' t); [contradiction | reflexivity]. Qed.
Lemma proj_In : forall t l r, In r (proj t l) -> In (t, r) l.
Proof.
  intros t l r H. unfold proj in H. rewrite in_map_iff in H. destruct H as ([t' r'] & E & H). cbn in E. subst r'.
  apply filter_In in H. destruct H as [H1 H2]. cbn in H2. apply Nat.eqb_eq in H2. subst t'. exact H1.
Qed.
Lemma In_proj : forall t l r, In (t, r) l -> In r (proj t l).
Proof.
  intros t l r H. unfold proj. rewrite in_map_iff. exists (t, r). split; [reflexivity|].
  apply filter_In. split; [exact H | cbn; apply Nat.eqb_refl].
Qed.

(* ------------------------------------------------------------------ threads *)
Lemma th_set_same : forall s t x, (t < length (ths s))%nat -> th (set_th t x s) t = x.
Proof. intros. unfold th, set_th. sst. apply nth_upd_same. assumption. Qed.
Lemma th_set_other : forall s t t' x, t' <> t -> th (set_th t x s) t' = th s t'.
Proof. intros. unfold th, set_th. sst. apply nth_upd_other. assumption. Qed.
Lemma th_default : forall s t, (length (ths s) <= t)%nat -> th s t = thr0.
Proof. intros. unfold th. apply nth_overflow. assumption. Qed.
Lemma th_nonempty_lt : forall s t, th s t <> thr0 -> (t < length (ths s))%nat.
Proof. intros s t H. destruct (Nat.lt_ge_cases t (length (ths s))) as [L|L]; [exact L|]. exfalso. apply H. apply th_default. exact L. Qed.
Lemma tfree_lt : forall s t, tfree s t = true -> (t < length (ths s))%nat /\ t_blk (th s t) = None.
Proof.
  intros s t H. unfold tfree in H. apply andb_true_iff in H. destruct H as [H1 H2]. apply Nat.ltb_lt in H1.
  split; [exact H1|]. destruct (t_blk (th s t)); [discriminate | reflexivity].
Qed.
Lemma q_nonempty_lt : forall s t r q, t_q (th s t) = r :: q -> (t < length (ths s))%nat.
Proof. intros s t r q H. apply th_nonempty_lt. intro E. rewrite E in H. discriminate. Qed.
Lemma tb_nonempty_lt : forall s t r q, t_tb (th s t) = r :: q -> (t < length (ths s))%nat.
Proof. intros s t r q H. apply th_nonempty_lt. intro E. rewrite E in H. discriminate. Qed.
Lemma blk_some_lt : forall s t b, t_blk (th s t) = Some b -> (t < length (ths s))%nat.
Proof. intros s t b H. apply th_nonempty_lt. intro E. rewrite E in H. discriminate. Qed.

Lemma all_q_empty_th : forall s, all_q_empty s = true -> forall t, t_q (th s t) = [].
Proof.
  intros s H t. unfold all_q_empty in H. rewrite forallb_forall in H. unfold th.
  destruct (nth_In_or_default _ t (ths s) thr0) as [E|E]; [rewrite E; reflexivity|].
  specialize (H _ E). destruct (t_q (nth t (ths s) thr0)); [reflexivity | discriminate].
Qed.
Lemma all_tb_empty_th : forall s, all_tb_empty s = true -> forall t, t_tb (th s t) = [].
Proof.
  intros s H t. unfold all_tb_empty in H. rewrite forallb_forall in H. unfold th.
  destruct (nth_In_or_default _ t (ths s) thr0) as [E|E]; [rewrite E; reflexivity|].
  specialize (H _ E). destruct (t_tb (nth t (ths s) thr0)); [reflexivity | discriminate].
Qed.

(* ------------------------------------------------------------------ sink identities through release *)
Record SI (s : st) : Prop := {
  si_live_lt : forall u, In u (live s) -> u < nsk s;
  si_dlog : forall u, In u (dlog s) -> u < nsk s /\ ~ In u (live s);
  si_nodup : NoDup (dlog s);
  si_all : forall u, 1 <= u -> u < nsk s -> In u (live s) \/ In u (dlog s) }.

Lemma release1_live : forall x s u, cnt u (live (release1 x s)) = if u =? x then Nat.pred (cnt u (live s)) else cnt u (live s).
Proof.
  intros x s u. unfold release1. destruct (memN x (remove_one x (live s))); sst; apply cnt_remove_one.
Qed.

Lemma release1_SI : forall x s, SI s -> In x (live s) -> SI (release1 x s).
Proof.
  intros x s [H1 H2 H3 H4] Hx. unfold release1. destruct (memN x (remove_one x (live s))) eqn:M.
  - constructor; sst.
    + intros u Hu. apply H1. exact (remove_one_In _ _ _ Hu).
    + intros u Hu. destruct (H2 _ Hu) as [A B]. split; [exact A|]. intro C. apply B. exact (remove_one_In _ _ _ C).
    + exact H3.
    + intros u A B. destruct (H4 _ A B) as [C|C]; [|right; exact C].
      destruct (N.eq_dec u x) as [E|E]; [subst u; left; apply memN_In; exact M|].
      left. apply cnt_pos_In. rewrite cnt_remove_one. destruct (N.eqb_spec u x); [contradiction|]. apply cnt_pos_In. exact C.
  - apply memN_false in M. constructor; sst.
    + intros u Hu. apply H1. exact (remove_one_In _ _ _ Hu).
    + intros u Hu. apply in_app_or in Hu. destruct Hu as [Hu|[Hu|[]]].
      * destruct (H2 _ Hu) as [A B]. split; [exact A|]. intro C. apply B. exact (remove_one_In _ _ _ C).
      * subst u. split; [exact (H1 _ Hx) | exact M].
    + apply NoDup_app_one; [exact H3|]. intro C. destruct (H2 _ C) as [_ B]. exact (B Hx).
    + intros u A B. destruct (N.eq_dec u x) as [E|E]; [subst u; right; apply in_or_app; right; left; reflexivity|].
      destruct (H4 _ A B) as [C|C]; [|right; apply in_or_app; left; exact C].
      left. apply cnt_pos_In. rewrite cnt_remove_one. destruct (N.eqb_spec u x); [contradiction|]. apply cnt_pos_In. exact C.
Qed.

Lemma release_live : forall ss s u, cnt u (live (release ss s)) = (cnt u (live s) - cnt u ss)%nat.
Proof.
  intro ss. induction ss as [|x r IH]; intros s u; cbn [release cnt]; [lia|].
  rewrite IH, release1_live. destruct (N.eqb_spec u x) as [E|E].
  - subst u. rewrite N.eqb_refl. lia.
  - destruct (N.eqb_spec x u); [congruence | lia].
Qed.

Lemma release_SI : forall ss s, SI s -> (forall u, (cnt u ss <= cnt u (live s))%nat) -> SI (release ss s).
Proof.
  intro ss. induction ss as [|x r IH]; intros s HS HC; cbn [release]; [exact HS|].
  assert (Hx : In x (live s)).
  { apply cnt_pos_In. specialize (HC x). cbn [cnt] in HC. rewrite N.eqb_refl in HC. lia. }
  apply IH; [exact (release1_SI _ _ HS Hx)|].
  intro u. rewrite release1_live. specialize (HC u). cbn [cnt] in HC.
  destruct (N.eqb_spec u x) as [E|E].
  - subst u. rewrite N.eqb_refl in HC. lia.
  - destruct (N.eqb_spec x u); [congruence | lia].
Qed.

(* ------------------------------------------------------------------ the structural invariant *)
Record Inv (s : st) : Prop := {
  i_sorted : StronglySorted N.lt (names s);
  i_cons : forall t, proj t (clog s) = proj t (plog s) ++ pend (th s t);
  i_rc : forall u, cnt u (live s) = (cnt u (map snd (hnd s)) + cnt u (flat_map l_sinks (lgs s)))%nat;
  i_si : SI s;
  i_lg_lt : forall L, In L (lgs s) -> l_uid L < nlg s;
  i_glog_lt : forall L, In L (glog s) -> l_uid L < nlg s;
  i_glog : forall L L0, In L (lgs s) -> In L0 (glog s) -> l_uid L0 = l_uid L -> l_sinks L0 = l_sinks L /\ l_name L0 = l_name L;
  i_clog_lt : forall t r, In (t, r) (clog s) -> r_lg r < nlg s }.

Lemma inv_init : forall nt, Inv (st0 nt).
Proof.
  intro nt. constructor; unfold names; cbn [st0 lgs clog plog live hnd glog map flat_map cnt].
  - constructor.
  - intro t. unfold proj, pend, th. cbn [st0 ths filter map app].
    destruct (nth_In_or_default _ t (repeat thr0 nt) thr0) as [E|E]; [rewrite E; reflexivity|].
    apply repeat_spec in E. rewrite E. reflexivity.
  - intro u. reflexivity.
  - constructor; cbn [st0 live dlog nsk].
    + intros u [].
    + intros u [].
    + constructor.
    + intros u A B. lia.
  - intros L [].
  - intros L [].
  - intros L L0 [].
  - intros t r [].
Qed.

Lemma sorted_step : forall K s o, Inv s -> StronglySorted N.lt (names (mstep K s o)).
Proof.
  intros K s o I. pose proof (i_sorted _ I) as HS. unfold names in *.
  destruct o; unfold mstep; repeat dm; sst; fr; sst; try assumption.
  all: try (rewrite invalidate_names; assumption).
  all: try (apply StronglySorted_del; assumption).
  - apply (lb_insert_sorted_lt l_name {| l_name := name; l_uid := nlg s; l_valid := true; l_sinks := handles_of hs (hnd s) |}); assumption.
Qed.

Ltac nrm := repeat (progress (unfold set_th, th in *; sst; fr)).
Ltac prove_lt :=
  first [ eapply q_nonempty_lt; eassumption | eapply tb_nonempty_lt; eassumption | eapply blk_some_lt; eassumption
        | apply tfree_lt; apply negb_false_iff; assumption ].
(* case split "the thread that was updated / another thread" on the goal's nth t' (upd_nth t x (ths s)) *)
Ltac th_auto :=
  match goal with
  | |- context [upd_nth ?t _ (ths ?s)] =>
      let Hlt := fresh "Hlt" in
      assert (Hlt : (t < length (ths s))%nat) by prove_lt;
      match goal with
      | |- context [nth ?t' (upd_nth t _ _) thr0] =>
          let Hne := fresh "Hne" in
          destruct (Nat.eq_dec t' t) as [->|Hne];
          [ rewrite ?nth_upd_same by (rewrite ?upd_nth_length; exact Hlt) | rewrite ?nth_upd_other by exact Hne ]
      end
  end.

Lemma cons_step : forall K s o, Inv s -> forall t', proj t' (clog (mstep K s o)) = proj t' (plog (mstep K s o)) ++ pend (th (mstep K s o) t').
Proof.
  intros K s o I t'. pose proof (i_cons _ I) as HC.
  destruct o; unfold mstep; repeat dm; nrm; try (exact (HC t')).
  all: th_auto; rewrite ?proj_app, ?proj_one_same, ?proj_one_other by (intro; subst; contradiction);
    rewrite ?HC; unfold pend; cbn [t_q t_tb t_blk]; rewrite ?E, ?E0, ?E1, ?app_nil_r, <- ?app_assoc; cbn [app]; reflexivity.
Qed.

Lemma sink_lookup_live : forall n s u, sink_lookup n s = Some u -> In u (live s).
Proof.
  intros n s u H. unfold sink_lookup in H. destruct (lb_find e_name n (stab s)) as [e|]; [|discriminate].
  destruct (memN (e_uid e) (live s)) eqn:M; [|discriminate]. inversion H. subst. apply memN_In. exact M.
Qed.

Lemma rc_step : forall K s o, Inv s -> forall u,
  cnt u (live (mstep K s o)) = (cnt u (map snd (hnd (mstep K s o))) + cnt u (flat_map l_sinks (lgs (mstep K s o))))%nat.
Proof.
  intros K s o I u. pose proof (i_rc _ I) as HR.
  destruct o; unfold mstep; repeat dm; nrm; try (exact (HR u)).
  - cbn [cnt map snd]. rewrite (HR u). lia.
  - cbn [cnt map snd]. rewrite (HR u). lia.
  - rewrite release1_live. sst. rewrite (HR u), (adel1_cnt _ _ _ E u).
    destruct (N.eqb_spec u n) as [E1|E1].
    + subst u. rewrite N.eqb_refl. lia.
    + destruct (N.eqb_spec n u); [congruence | lia].
  - rewrite cnt_app, cnt_flat_map_lb_insert. cbn [l_sinks]. rewrite (HR u). lia.
  - rewrite invalidate_sinks. exact (HR u).
  - rewrite invalidate_sinks. exact (HR u).
  - rewrite release_live. sst.
    match goal with H : nth_error (lgs s) _ = Some _ |- _ => rewrite (HR u), (cnt_flat_map_del _ l_sinks _ _ _ u H) end. lia.
Qed.

Lemma SI_ext : forall s1 s2, live s2 = live s1 -> dlog s2 = dlog s1 -> nsk s2 = nsk s1 -> SI s1 -> SI s2.
Proof. intros s1 s2 A B C [H1 H2 H3 H4]. constructor; rewrite ?A, ?B, ?C; assumption. Qed.

Lemma rc_handle_live : forall s h u, Inv s -> aget h (hnd s) = Some u -> In u (live s).
Proof.
  intros s h u I H. apply cnt_pos_In. rewrite (i_rc _ I u).
  pose proof (aget_In_snd _ _ _ H) as H1. apply cnt_pos_In in H1. lia.
Qed.

Lemma rc_handles_live : forall s hs u, Inv s -> In u (handles_of hs (hnd s)) -> In u (live s).
Proof.
  intros s hs u I H. apply handles_of_sub in H. apply cnt_pos_In. rewrite (i_rc _ I u). apply cnt_pos_In in H. lia.
Qed.

Lemma si_step : forall K s o, Inv s -> SI (mstep K s o).
Proof.
  intros K s o I. pose proof (i_si _ I) as HS.
  destruct o; unfold mstep; repeat dm; nrm;
    try (apply (SI_ext s); [fr; reflexivity | fr; reflexivity | fr; reflexivity | exact HS]).
  - destruct HS as [H1 H2 H3 H4]. pose proof (sink_lookup_live _ _ _ E0) as Hn. constructor; sst.
    + intros u [Hu|Hu]; [subst u; exact (H1 _ Hn) | exact (H1 _ Hu)].
    + intros u Hu. destruct (H2 _ Hu) as [A B]. split; [exact A|]. intros [C|C]; [subst u; exact (B Hn) | exact (B C)].
    + exact H3.
    + intros u A B. destruct (H4 _ A B) as [C|C]; [left; right; exact C | right; exact C].
  - destruct HS as [H1 H2 H3 H4]. constructor; sst.
    + intros u [Hu|Hu]; [subst u; lia | specialize (H1 _ Hu); lia].
    + intros u Hu. destruct (H2 _ Hu) as [A B]. split; [lia|]. intros [C|C]; [subst u; lia | exact (B C)].
    + exact H3.
    + intros u A B. destruct (N.eq_dec u (nsk s)) as [->|Hne]; [left; left; reflexivity|].
      assert (B' : u < nsk s) by lia. destruct (H4 _ A B') as [C|C]; [left; right; exact C | right; exact C].
  - apply release1_SI; [apply (SI_ext s); [reflexivity | reflexivity | reflexivity | exact HS]|].
    sst. exact (rc_handle_live _ _ _ I E).
  - destruct HS as [H1 H2 H3 H4]. constructor; sst.
    + intros u Hu. apply in_app_or in Hu. destruct Hu as [Hu|Hu]; [exact (H1 _ (rc_handles_live _ _ _ I Hu)) | exact (H1 _ Hu)].
    + intros u Hu. destruct (H2 _ Hu) as [A B]. split; [exact A|]. intro C. apply in_app_or in C.
      destruct C as [C|C]; [exact (B (rc_handles_live _ _ _ I C)) | exact (B C)].
    + exact H3.
    + intros u A B. destruct (H4 _ A B) as [C|C]; [left; apply in_or_app; right; exact C | right; exact C].
  - apply release_SI; [apply (SI_ext s); [reflexivity | reflexivity | reflexivity | exact HS]|].
    intro u. sst. rewrite (i_rc _ I u).
    match goal with H : nth_error (lgs s) _ = Some _ |- _ => rewrite (cnt_flat_map_del _ l_sinks _ _ _ u H) end. lia.
Qed.

Lemma lg_lt_step : forall K s o, Inv s -> forall L, In L (lgs (mstep K s o)) -> l_uid L < nlg (mstep K s o).
Proof.
  intros K s o I. pose proof (i_lg_lt _ I) as H.
  destruct o; unfold mstep; repeat dm; nrm; try exact H.
  - intros L HL. apply lb_insert_In in HL. destruct HL as [->|HL]; [cbn [l_uid]; lia | specialize (H _ HL); lia].
  - intros L HL. apply invalidate_In in HL. destruct HL as (L1 & A & _ & B & _). rewrite B. exact (H _ A).
  - intros L HL. apply invalidate_In in HL. destruct HL as (L1 & A & _ & B & _). rewrite B. exact (H _ A).
  - intros L HL. apply del_nth_In in HL. exact (H _ HL).
Qed.

Lemma glog_lt_step : forall K s o, Inv s -> forall L, In L (glog (mstep K s o)) -> l_uid L < nlg (mstep K s o).
Proof.
  intros K s o I. pose proof (i_glog_lt _ I) as H.
  destruct o; unfold mstep; repeat dm; nrm; try exact H.
  - intros L HL. apply in_app_or in HL. destruct HL as [HL|[<-|[]]]; [specialize (H _ HL); lia | cbn [l_uid]; lia].
Qed.

Lemma glog_step : forall K s o, Inv s -> forall L L0, In L (lgs (mstep K s o)) -> In L0 (glog (mstep K s o)) ->
  l_uid L0 = l_uid L -> l_sinks L0 = l_sinks L /\ l_name L0 = l_name L.
Proof.
  intros K s o I. pose proof (i_glog _ I) as H. pose proof (i_lg_lt _ I) as H1. pose proof (i_glog_lt _ I) as H2.
  destruct o; unfold mstep; repeat dm; nrm; try exact H.
  - intros L L0 HL HL0 HE. apply lb_insert_In in HL. apply in_app_or in HL0.
    destruct HL as [->|HL]; destruct HL0 as [HL0|[<-|[]]].
    + specialize (H2 _ HL0). cbn [l_uid] in HE. lia.
    + split; reflexivity.
    + exact (H _ _ HL HL0 HE).
    + specialize (H1 _ HL). cbn [l_uid] in HE. lia.
  - intros L L0 HL HL0 HE. apply invalidate_In in HL. destruct HL as (L1 & A & B & C & D & _). rewrite B, D. apply (H _ _ A HL0). congruence.
  - intros L L0 HL HL0 HE. apply invalidate_In in HL. destruct HL as (L1 & A & B & C & D & _). rewrite B, D. apply (H _ _ A HL0). congruence.
  - intros L L0 HL HL0 HE. apply del_nth_In in HL. exact (H _ _ HL HL0 HE).
Qed.

Lemma clog_lt_step : forall K s o, Inv s -> forall t r, In (t, r) (clog (mstep K s o)) -> r_lg r < nlg (mstep K s o).
Proof.
  intros K s o I. pose proof (i_clog_lt _ I) as H. pose proof (i_lg_lt _ I) as H1.
  destruct o; unfold mstep; repeat dm; nrm; try exact H.
  - intros t r Hr. specialize (H _ _ Hr). lia.
  - intros t0 r Hr. apply in_app_or in Hr. destruct Hr as [Hr|[Hr|[]]]; [exact (H _ _ Hr)|]. inversion Hr. subst. cbn [r_lg].
    match goal with F : find_uid _ _ = Some _ |- _ => destruct (find_uid_Some _ _ _ F) as [A B] end. rewrite <- B. exact (H1 _ A).
  - intros t0 r Hr. apply in_app_or in Hr. destruct Hr as [Hr|[Hr|[]]]; [exact (H _ _ Hr)|]. inversion Hr. subst. cbn [r_lg].
    match goal with F : find_uid _ _ = Some _ |- _ => destruct (find_uid_Some _ _ _ F) as [A B] end. rewrite <- B. exact (H1 _ A).
Qed.

Lemma inv_step : forall K s o, Inv s -> Inv (mstep K s o).
Proof.
  intros K s o I. constructor.
  - exact (sorted_step K s o I).
  - exact (cons_step K s o I).
  - exact (rc_step K s o I).
  - exact (si_step K s o I).
  - exact (lg_lt_step K s o I).
  - exact (glog_lt_step K s o I).
  - exact (glog_step K s o I).
  - exact (clog_lt_step K s o I).
Qed.

Lemma mrun_app : forall K s a b, mrun K s (a ++ b) = mrun K (mrun K s a) b.
Proof. intros. unfold mrun. apply fold_left_app. Qed.

Lemma mrun_ind : forall K (P : st -> Prop), (forall s o, P s -> P (mstep K s o)) -> forall ops s, P s -> P (mrun K s ops).
Proof.
  intros K P HP ops. induction ops as [|o r IH]; intros s H; [exact H|]. cbn [mrun fold_left]. apply IH. apply HP. exact H.
Qed.

Lemma inv_run : forall K s ops, Inv s -> Inv (mrun K s ops).
Proof. intros K s ops. apply (mrun_ind K Inv). intros. apply inv_step. assumption. Qed.
