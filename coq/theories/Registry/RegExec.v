(* M-REG, the command layer used by the correspondence harness (harness/lg.cpp): a case line is decoded
   into commands; every command is a sequence of micro-steps of RegModel (exec_refines in RegProofs),
   so the theorems about all micro-step schedules cover everything the harness can drive.
   poll = one ManualBackendWorker::poll_one(): read every queue (yield point 3 before each), then either
   process the event with the lowest timestamp (yield 5) or the idle stage (yields 6, 8; emptiness check;
   clean-up of invalidated loggers). Frontend calls can be injected at the yield points, and inside the clean-up loop at the
   destruction of a sink by the backend (key 100 + sink name): the destructor of a user sink is user code that runs on the
   backend thread, under the LoggerManager lock, between two iterations of the loop; what other threads do meanwhile are
   the frontend micro-steps scheduled right after the iteration (BClean1) that destroyed the sink.
   Definitions only. *)
From Coq Require Import List NArith Arith Bool.
From Quill Require Import Registry.RegModel.
Import ListNotations.
Local Open Scope N_scope.

Inductive cmd :=
| CSimple (ops : list mop)
| CIfFree (t : nat) (ops : list mop)      (* program order of thread t: run ops only if t is not blocked in remove_logger_blocking *)
| CPoll (inj : list (N * list mop)).

Fixpoint inj_of (inj : list (N * list mop)) (y : N) : list mop :=
  match inj with
  | [] => []
  | (k, ops) :: r => if k =? y then ops ++ inj_of r y else inj_of r y
  end.

Fixpoint min_front_aux (l : list thr) (i : nat) (best : option (nat * N)) : option (nat * N) :=
  match l with
  | [] => best
  | x :: r =>
      let best' := match t_tb x with
                   | [] => best
                   | e :: _ => match best with
                               | None => Some (i, r_ts e)
                               | Some (_, b) => if r_ts e <? b then Some (i, r_ts e) else best
                               end
                   end in
      min_front_aux r (S i) best'
  end.
Definition min_front (s : st) : option nat :=
  match min_front_aux (ths s) O None with Some (i, _) => Some i | None => None end.

Definition read_all_ops (s : st) (t : nat) : list mop := repeat (BRead t) (length (t_q (th s t))).

(* injections at a sink destructor. The erase of a logger (one BClean1 step) releases its sinks in list order; the point
   "inside the destructor of sink x" is the end of that step exactly when no other sink can be released after x in the
   same erase: x is the last sink of every logger ever created over it. Only then does the injection fire (in the driver
   and here alike). Calls that need the LoggerManager lock are disabled steps there (the backend holds it). *)
Definition last_sink (l : list N) : N := last l 0.
Definition dtor_fires (s : st) (x : N) : bool :=
  forallb (fun L => negb (memN x (l_sinks L)) || (last_sink (l_sinks L) =? x)) (glog s).
Definition sink_name_of (s : st) (x : N) : N :=
  match find (fun e => e_uid e =? x) (stab s) with Some e => e_name e | None => 0 end.
(* s0 -> s1 is one backend step; the sinks it destroyed are the new entries of dlog *)
Definition dtor_inj (inj : list (N * list mop)) (s0 s1 : st) : list mop :=
  flat_map (fun x => if dtor_fires s1 x then inj_of inj (100 + sink_name_of s1 x) else [])
           (skipn (length (dlog s0)) (dlog s1)).
Fixpoint clean_loop (K : cfg) (inj : list (N * list mop)) (n : nat) (s : st) : list mop :=
  match n with
  | O => []
  | S n' =>
      let s1 := mstep K s BClean1 in
      let oi := dtor_inj inj s s1 in
      BClean1 :: oi ++ clean_loop K inj n' (mrun K s1 oi)
  end.
(* injected calls cannot add loggers while the loop runs (create_or_get_logger is disabled), so length (lgs s) iterations
   reach the end of the vector *)
Definition clean_all_ops (K : cfg) (inj : list (N * list mop)) (s : st) : list mop :=
  BClean0 :: clean_loop K inj (length (lgs s)) (mstep K s BClean0) ++ [BClean2].

(* the micro-steps of one poll_one() from state s *)
Definition read_phase (K : cfg) (inj : list (N * list mop)) (nt : nat) (s : st) : st * list mop :=
  fold_left (fun (a : st * list mop) t =>
               let o1 := inj_of inj (30 + N.of_nat t) in
               let s1 := mrun K (fst a) o1 in
               let o2 := read_all_ops s1 t in
               (mrun K s1 o2, snd a ++ o1 ++ o2)) (seq 0 nt) (s, []).

Definition poll_ops (K : cfg) (inj : list (N * list mop)) (s : st) : list mop :=
  let o1 := inj_of inj 1 in
  let s1 := mrun K s o1 in
  let (s2, o2) := read_phase K inj (length (ths s)) s1 in
  let o3 :=
    if all_tb_empty s2 then
      let o68 := inj_of inj 6 ++ inj_of inj 8 in
      let s3 := mrun K s2 o68 in
      o68 ++ (if guard K s3 then clean_all_ops K inj s3 else [])
    else
      let o5 := inj_of inj 5 in
      let s3 := mrun K s2 o5 in
      o5 ++ (match min_front s3 with Some t => [BProc t] | None => [] end) in
  o1 ++ o2 ++ o3 ++ [FCount].

Definition cmd_ops (K : cfg) (s : st) (c : cmd) : list mop :=
  match c with
  | CSimple ops => ops
  | CIfFree t ops => if tfree s t then ops else []
  | CPoll inj => poll_ops K inj s
  end.

Fixpoint exec (K : cfg) (s : st) (cs : list cmd) : st :=
  match cs with
  | [] => s
  | c :: r => exec K (mrun K s (cmd_ops K s c)) r
  end.

(* ------------------------------------------------------------------ decoding
   commands: 11 n (y ntok tok..)*n poll with injections (y = 1, 30+t, 5, 6, 8: yield points; 100+name: destructor of the sink of that name) | 12 poll | 13 t ntok tok.. simple commands if thread t is free
   simple commands: 1 h name | 2 h | 3 v name k h1..hk | 4 v name | 5 t v m | 6 v | 7 t v | 8 t | 9 | 10 *)
Fixpoint take_n (k : nat) (l : list N) : list N * list N :=
  match k with
  | O => ([], l)
  | S k' => match l with [] => ([], []) | x :: r => let (a, b) := take_n k' r in (x :: a, b) end
  end.

Fixpoint dec_simple (fuel : nat) (l : list N) : list mop :=
  match fuel with
  | O => []
  | S f =>
    match l with
    | 1 :: h :: name :: r => FCreateSink h name :: dec_simple f r
    | 2 :: h :: r => FDrop h :: dec_simple f r
    | 3 :: v :: name :: k :: r => let (hs, r') := take_n (N.to_nat k) r in FCreate v name hs :: dec_simple f r'
    | 4 :: v :: name :: r => FGet v name :: dec_simple f r
    | 5 :: t :: v :: m :: r => FLog (N.to_nat t) v m :: dec_simple f r
    | 6 :: v :: r => FRemove v :: dec_simple f r
    | 7 :: t :: v :: r => FRbReq (N.to_nat t) v :: FRbMark (N.to_nat t) :: dec_simple f r
    | 8 :: t :: r => FWait (N.to_nat t) :: dec_simple f r
    | 9 :: r => FCount :: dec_simple f r
    | 10 :: r => FList :: dec_simple f r
    | _ => []
    end
  end.

(* length in tokens of the first simple command of l (0 = none) *)
Definition simple_len (l : list N) : nat :=
  match l with
  | 1 :: _ :: _ :: _ => 3%nat | 2 :: _ :: _ => 2%nat
  | 3 :: _ :: _ :: k :: r => if (N.to_nat k <=? length r)%nat then (4 + N.to_nat k)%nat else 0%nat
  | 4 :: _ :: _ :: _ => 3%nat | 5 :: _ :: _ :: _ :: _ => 4%nat | 6 :: _ :: _ => 2%nat
  | 7 :: _ :: _ :: _ => 3%nat | 8 :: _ :: _ => 2%nat
  | 9 :: _ => 1%nat | 10 :: _ => 1%nat
  | _ => 0%nat
  end.

(* injections of a poll: n times  y ntok tok... *)
Fixpoint dec_inj (n : nat) (l : list N) : list (N * list mop) * list N :=
  match n with
  | O => ([], l)
  | S n' =>
    match l with
    | y :: ntok :: r =>
        let (toks, r') := take_n (N.to_nat ntok) r in
        let (rest, r'') := dec_inj n' r' in
        ((y, dec_simple (length toks) toks) :: rest, r'')
    | _ => ([], [])
    end
  end.

Fixpoint dec_cmds (fuel : nat) (l : list N) : list cmd :=
  match fuel with
  | O => []
  | S f =>
    match l with
    | [] => []
    | 11 :: n :: r => let (inj, r') := dec_inj (N.to_nat n) r in CPoll inj :: dec_cmds f r'
    | 12 :: r => CPoll [] :: dec_cmds f r
    | 13 :: t :: ntok :: r => let (toks, r') := take_n (N.to_nat ntok) r in CIfFree (N.to_nat t) (dec_simple (length toks) toks) :: dec_cmds f r'
    | _ =>
        match simple_len l with
        | O => []
        | k => let (toks, r') := take_n k l in CSimple (dec_simple k toks) :: dec_cmds f r'
        end
    end
  end.

(* case: lg <guard_q> <guard_tb> <recheck> <flag_late> <prune> <get_valid> <nthreads> cmds... *)
Definition lg_run_enc (l : list N) : list N :=
  match l with
  | gq :: gt :: rc :: fl :: pr :: gv :: nt :: r =>
      let b x := negb (x =? 0) in
      let K := {| c_guard_q := b gq; c_guard_tb := b gt; c_recheck := b rc; c_flag_late := b fl; c_prune := b pr; c_get_valid := b gv |} in
      obs (exec K (st0 (N.to_nat nt)) (dec_cmds (length r) r))
  | _ => []
  end.
