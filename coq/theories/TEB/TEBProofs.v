(* Proofs about M-TEB: every history of the calls the backend makes on the slot array of a TransitEventBuffer
   behaves like the list-with-a-doubling-capacity M-BE uses (refinement, by a simulation that holds for every
   initial capacity and every op list), whatever the fill level at which the ring wraps, grows or shrinks. *)
From Coq Require Import List NArith ZArith Arith Bool Lia.
From Quill Require Import TEB.TEBModel.
Import ListNotations.
Local Open Scope N_scope.

(* ------------------------------------------------------------------ lists *)
Lemma set_nth_length {A} (l : list A) i x : length (set_nth A i x l) = length l.
Proof. revert i; induction l as [|h t IH]; intros [|i]; cbn; auto. Qed.

Lemma nth_set_nth_same {A} (l : list A) i x d : (i < length l)%nat -> nth i (set_nth A i x l) d = x.
Proof. revert i; induction l as [|h t IH]; intros [|i] H; cbn in *; try lia; auto. apply IH; lia. Qed.

Lemma nth_set_nth_other {A} (l : list A) i j x d : i <> j -> nth j (set_nth A i x l) d = nth j l d.
Proof. revert i j; induction l as [|h t IH]; intros [|i] [|j] H; cbn; auto; try congruence. Qed.

Lemma nth_map_seq {A} (f : nat -> A) n i d : (i < n)%nat -> nth i (map f (seq 0 n)) d = f i.
Proof.
  intro H. rewrite (nth_indep _ d (f O)) by (rewrite map_length, seq_length; exact H).
  rewrite map_nth. now rewrite seq_nth.
Qed.

Lemma map_seq_S {A} (f : nat -> A) n : map f (seq 0 (S n)) = map f (seq 0 n) ++ [f n].
Proof. rewrite seq_S, map_app. reflexivity. Qed.

Lemma map_seq_shift {A} (f : nat -> A) n : map f (seq 1 n) = map (fun i => f (S i)) (seq 0 n).
Proof. rewrite <- seq_shift, map_map. reflexivity. Qed.

(* ------------------------------------------------------------------ powers of two, masks *)
Definition pow2 (c : N) := exists k, c = 2 ^ k.

Lemma pow2_pos k : 0 < 2 ^ k.
Proof. apply N.neq_0_lt_0. apply N.pow_nonzero. discriminate. Qed.

Lemma pow2_double c : pow2 c -> pow2 (c * 2).
Proof. intros [k ->]. exists (N.succ k). rewrite N.pow_succ_r'. lia. Qed.

Lemma tnext_pow2_pow2 c0 : pow2 (tnext_pow2 c0).
Proof.
  unfold tnext_pow2. destruct (c0 =? 0).
  - exists 0. reflexivity.
  - eexists. reflexivity.
Qed.

Lemma land_mask c p : pow2 c -> N.land p (c - 1) = p mod c.
Proof.
  intros [k ->]. rewrite <- N.land_ones. f_equal. rewrite N.ones_equiv. lia.
Qed.

Lemma mod_add_distinct c r i j : 0 < c -> i < j -> j < c -> (r + i) mod c <> (r + j) mod c.
Proof.
  intros Hc Hij Hj E.
  pose proof (N.div_mod (r + i) c ltac:(lia)) as D1.
  pose proof (N.div_mod (r + j) c ltac:(lia)) as D2.
  pose proof (N.mod_lt (r + i) c ltac:(lia)) as L1.
  rewrite <- E in D2.
  set (q1 := (r + i) / c) in *. set (q2 := (r + j) / c) in *. set (m := (r + i) mod c) in *.
  clearbody q1 q2 m.
  assert (j - i = c * q2 - c * q1) by lia.
  assert (q1 < q2 \/ q2 <= q1) as [Hq|Hq] by lia.
  - assert (c * (q1 + 1) <= c * q2) by (apply N.mul_le_mono_l; lia). lia.
  - assert (c * q2 <= c * q1) by (apply N.mul_le_mono_l; lia). lia.
Qed.

(* ------------------------------------------------------------------ the invariant *)
Section Proofs.
Variable A : Type.
Variable dflt : A.

Notation K := tcfg_good.
Notation teb := (teb A).

Record Inv (s : teb) : Prop := {
  i_pow : pow2 (cap s);
  i_msk : msk s = cap s - 1;
  i_len : length (sto s) = N.to_nat (cap s);
  i_rw : rpos s <= wpos s;
  i_sz : wpos s - rpos s <= cap s;
  i_ipow : pow2 (icap s);
  i_icap : icap s <= cap s
}.

Lemma cap_pos s : Inv s -> 0 < cap s.
Proof. intros I. destruct (i_pow s I) as [k E]. rewrite E. apply pow2_pos. Qed.

Lemma slot_mod s p : Inv s -> slot A s p = N.to_nat (p mod cap s).
Proof. intros I. unfold slot. rewrite (i_msk s I). now rewrite land_mask by apply (i_pow s I). Qed.

Lemma slot_lt s p : Inv s -> (slot A s p < length (sto s))%nat.
Proof.
  intros I. rewrite slot_mod by exact I. rewrite (i_len s I).
  pose proof (cap_pos s I). pose proof (N.mod_lt p (cap s) ltac:(lia)). lia.
Qed.

Lemma slot_distinct s i j : Inv s -> i < j -> j < cap s -> slot A s (rpos s + i) <> slot A s (rpos s + j).
Proof.
  intros I Hij Hj. rewrite !slot_mod by exact I.
  pose proof (mod_add_distinct (cap s) (rpos s) i j ltac:(pose proof (cap_pos s I); lia) Hij Hj). lia.
Qed.

Lemma inv_init c0 : Inv (teb_init A dflt c0).
Proof.
  pose proof (tnext_pow2_pow2 c0) as P.
  constructor; cbn; auto; try lia.
  now rewrite repeat_length.
Qed.

Lemma abs_length s : length (teb_abs A dflt s) = N.to_nat (teb_size A s).
Proof. unfold teb_abs. now rewrite map_length, seq_length. Qed.

(* ------------------------------------------------------------------ front / pop *)
Lemma front_abs s : Inv s -> teb_front A dflt s = hd_error (teb_abs A dflt s).
Proof.
  intros I. unfold teb_front, teb_abs, teb_size. pose proof (i_rw s I).
  destruct (N.eqb_spec (rpos s) (wpos s)) as [E|E].
  - rewrite E, N.sub_diag. reflexivity.
  - destruct (N.to_nat (wpos s - rpos s)) eqn:En; [lia|]. cbn [seq map hd_error].
    now rewrite N.add_0_r.
Qed.

Lemma pop_abs s : Inv s -> rpos s <> wpos s -> teb_abs A dflt (teb_pop A s) = tl (teb_abs A dflt s).
Proof.
  intros I Hne. unfold teb_abs, teb_size, teb_pop; cbn [rpos wpos sto]. pose proof (i_rw s I).
  replace (N.to_nat (wpos s - rpos s)) with (S (N.to_nat (wpos s - (rpos s + 1)))) by lia.
  cbn [seq map tl]. rewrite map_seq_shift. apply map_ext. intro i.
  unfold slot; cbn [msk]. do 3 f_equal. lia.
Qed.

Lemma pop_inv s : Inv s -> rpos s <> wpos s -> Inv (teb_pop A s).
Proof. intros I Hne. destruct I. constructor; cbn; auto; lia. Qed.

(* ------------------------------------------------------------------ fill / push on a buffer that is not full *)
Lemma fill_inv s v : Inv s -> Inv (teb_fill A s v).
Proof. intros I. destruct I. constructor; cbn; auto. now rewrite set_nth_length. Qed.

Lemma fill_abs s v : Inv s -> teb_size A s < cap s -> teb_abs A dflt (teb_fill A s v) = teb_abs A dflt s.
Proof.
  intros I Hlt. unfold teb_abs. unfold teb_size, teb_fill in *; cbn [rpos wpos sto].
  apply map_ext_in. intros i Hi. apply in_seq in Hi.
  change (slot A {| icap := icap s; cap := cap s; sto := set_nth A (slot A s (wpos s)) v (sto s); msk := msk s;
                    rpos := rpos s; wpos := wpos s; shr := shr s |} (rpos s + N.of_nat i))
    with (slot A s (rpos s + N.of_nat i)).
  apply nth_set_nth_other.
  pose proof (i_rw s I).
  replace (wpos s) with (rpos s + (wpos s - rpos s)) at 1 by lia.
  intro E. symmetry in E. revert E. apply slot_distinct; [exact I|lia|lia].
Qed.

Lemma put_abs s v : Inv s -> teb_size A s < cap s ->
  teb_abs A dflt (teb_push A (teb_fill A s v)) = teb_abs A dflt s ++ [v].
Proof.
  intros I Hlt. pose proof (fill_abs s v I Hlt) as Hf.
  unfold teb_abs in *. unfold teb_size, teb_push, teb_fill in *; cbn [rpos wpos sto] in *.
  pose proof (i_rw s I).
  replace (N.to_nat (wpos s + 1 - rpos s)) with (S (N.to_nat (wpos s - rpos s))) by lia.
  rewrite map_seq_S. f_equal.
  - exact Hf.
  - f_equal.
    change (slot A {| icap := icap s; cap := cap s; sto := set_nth A (slot A s (wpos s)) v (sto s); msk := msk s;
                      rpos := rpos s; wpos := wpos s + 1; shr := shr s |}
                 (rpos s + N.of_nat (N.to_nat (wpos s - rpos s))))
      with (slot A s (rpos s + N.of_nat (N.to_nat (wpos s - rpos s)))).
    replace (rpos s + N.of_nat (N.to_nat (wpos s - rpos s))) with (wpos s) by lia.
    apply nth_set_nth_same. apply slot_lt. exact I.
Qed.

Lemma push_inv s : Inv s -> teb_size A s < cap s -> Inv (teb_push A s).
Proof. intros I Hlt. unfold teb_size in Hlt. destruct I. constructor; cbn; auto; lia. Qed.

(* ------------------------------------------------------------------ _expand *)
Lemma expand_inv s : Inv s -> Inv (teb_expand A dflt K s).
Proof.
  intros I. pose proof (cap_pos s I) as Hc. pose proof (i_sz s I). pose proof (i_icap s I).
  unfold teb_expand, teb_size. constructor; cbn [cap msk sto rpos wpos icap t_grow t_mask_upd K tcfg_good].
  - apply pow2_double. apply (i_pow s I).
  - reflexivity.
  - rewrite app_length, map_length, seq_length, repeat_length. lia.
  - lia.
  - lia.
  - apply (i_ipow s I).
  - lia.
Qed.

Lemma expand_abs s : Inv s -> teb_abs A dflt (teb_expand A dflt K s) = teb_abs A dflt s.
Proof.
  intros I. pose proof (expand_inv s I) as I'.
  pose proof (cap_pos s I) as Hc. pose proof (i_sz s I) as Hs. pose proof (i_rw s I).
  unfold teb_abs at 1.
  assert (Esz : teb_size A (teb_expand A dflt K s) = teb_size A s).
  { unfold teb_expand, teb_size; cbn [rpos wpos]. lia. }
  rewrite Esz. unfold teb_abs.
  apply map_ext_in. intros i Hi. apply in_seq in Hi.
  rewrite slot_mod by exact I'.
  assert (Ecap : cap (teb_expand A dflt K s) = cap s * 2) by reflexivity.
  assert (Er : rpos (teb_expand A dflt K s) = 0) by reflexivity.
  rewrite Ecap, Er. unfold teb_size in *.
  rewrite N.mod_small by lia.
  replace (N.to_nat (0 + N.of_nat i)) with i by lia.
  unfold teb_expand; cbn [sto t_move_from_reader K tcfg_good]. unfold teb_size.
  rewrite app_nth1 by (rewrite map_length, seq_length; lia).
  rewrite nth_map_seq by lia. reflexivity.
Qed.

Lemma expand_size s : teb_size A (teb_expand A dflt K s) = teb_size A s.
Proof. unfold teb_expand, teb_size; cbn [rpos wpos]. lia. Qed.

(* back(): afterwards the buffer is not full, the live events are the same, the capacity doubled iff it was full *)
Lemma back_spec s : Inv s ->
  let s' := teb_back A dflt K s in
  Inv s' /\ teb_abs A dflt s' = teb_abs A dflt s /\ teb_size A s' < cap s' /\
  cap s' = (if cap s =? teb_size A s then 2 * cap s else cap s) /\ icap s' = icap s /\ shr s' = shr s.
Proof.
  intros I. unfold teb_back. cbn [t_full_test_exact K tcfg_good].
  pose proof (cap_pos s I). pose proof (i_sz s I) as Hs.
  destruct (N.eqb_spec (cap s) (teb_size A s)) as [E|E].
  - split; [apply expand_inv; exact I|]. split; [apply expand_abs; exact I|].
    split; [rewrite expand_size; unfold teb_expand; cbn [cap t_grow K tcfg_good]; lia|].
    split; [unfold teb_expand; cbn [cap t_grow K tcfg_good]; lia|]. split; reflexivity.
  - split; [exact I|]. split; [reflexivity|]. split; [unfold teb_size in *; lia|].
    split; [reflexivity|]. split; reflexivity.
Qed.

(* ------------------------------------------------------------------ try_shrink *)
Lemma abs_empty s : rpos s = wpos s -> teb_abs A dflt s = [].
Proof. intro E. unfold teb_abs, teb_size. rewrite E, N.sub_diag. reflexivity. Qed.

Lemma abs_nil_empty s : Inv s -> teb_abs A dflt s = [] -> rpos s = wpos s.
Proof.
  intros I E. pose proof (abs_length s) as L. rewrite E in L. cbn in L. unfold teb_size in L.
  pose proof (i_rw s I). lia.
Qed.

Lemma shrink_spec s : Inv s ->
  let s' := teb_try_shrink A dflt K s in
  Inv s' /\ teb_abs A dflt s' = teb_abs A dflt s /\ icap s' = icap s /\
  (if shr s && teb_empty A s then cap s' = icap s /\ shr s' = false else s' = s).
Proof.
  intros I. unfold teb_try_shrink. cbn [t_shrink_needs_empty t_mask_upd K tcfg_good].
  destruct (shr s) eqn:Es; cbn [andb];
    [|split; [exact I|]; split; [reflexivity|]; split; reflexivity].
  unfold teb_empty. destruct (N.eqb_spec (rpos s) (wpos s)) as [E|E];
    [|split; [exact I|]; split; [reflexivity|]; split; reflexivity].
  pose proof (i_icap s I) as Hic.
  destruct (N.ltb_spec (icap s) (cap s)) as [L|L].
  - split; [|split; [|split; [|split]]]; cbn [cap icap shr]; try reflexivity.
    + constructor; cbn [cap msk sto rpos wpos icap]; try lia.
      * apply (i_ipow s I).
      * now rewrite repeat_length.
      * apply (i_ipow s I).
    + rewrite (abs_empty s E). apply abs_empty. reflexivity.
  - split; [|split; [|split; [|split]]]; cbn [cap icap shr]; try reflexivity.
    + destruct I. constructor; cbn [cap msk sto rpos wpos icap]; auto.
    + lia.
Qed.

(* ------------------------------------------------------------------ the simulation *)
Record R (s : teb) (f : fifo A) : Prop := {
  r_inv : Inv s;
  r_abs : teb_abs A dflt s = f_items f;
  r_cap : cap s = f_cap f;
  r_icap : icap s = f_icap f;
  r_shr : shr s = f_shr f
}.

Lemma R_init c0 : R (teb_init A dflt c0) (fifo_init A c0).
Proof. constructor; auto. apply inv_init. Qed.

Lemma R_size s f : R s f -> teb_size A s = N.of_nat (length (f_items f)).
Proof. intros [I E _ _ _]. rewrite <- E, abs_length. lia. Qed.

Lemma R_step s f o : R s f -> R (teb_step A dflt K s o) (fifo_step A f o).
Proof.
  intros Hr. pose proof (R_size s f Hr) as Hsz. destruct Hr as [I Ea Ec Ei Es].
  destruct o as [v|v| | |]; cbn [teb_step fifo_step].
  - destruct (back_spec s I) as (I' & Ea' & Hlt & Ec' & Ei' & Es').
    constructor; cbn [f_items f_cap f_icap f_shr].
    + apply push_inv; [apply fill_inv; exact I'|exact Hlt].
    + rewrite put_abs by assumption. now rewrite Ea', Ea.
    + change (cap (teb_back A dflt K s) = fifo_grow A f). rewrite Ec'. unfold fifo_grow. now rewrite <- Ec, <- Hsz.
    + change (icap (teb_back A dflt K s) = f_icap f). congruence.
    + change (shr (teb_back A dflt K s) = f_shr f). congruence.
  - destruct (back_spec s I) as (I' & Ea' & Hlt & Ec' & Ei' & Es').
    constructor; cbn [f_items f_cap f_icap f_shr].
    + apply fill_inv; exact I'.
    + rewrite fill_abs by assumption. now rewrite Ea', Ea.
    + change (cap (teb_back A dflt K s) = fifo_grow A f). rewrite Ec'. unfold fifo_grow. now rewrite <- Ec, <- Hsz.
    + change (icap (teb_back A dflt K s) = f_icap f). congruence.
    + change (shr (teb_back A dflt K s) = f_shr f). congruence.
  - rewrite front_abs by exact I. rewrite Ea.
    destruct (f_items f) as [|x xs] eqn:Ef; cbn [hd_error].
    + constructor; cbn [f_items f_cap f_icap f_shr tl]; auto.
    + assert (Hne : rpos s <> wpos s).
      { intro E. rewrite (abs_empty s E) in Ea. discriminate. }
      constructor; cbn [f_items f_cap f_icap f_shr tl]; auto.
      * apply pop_inv; assumption.
      * rewrite pop_abs by assumption. now rewrite Ea.
  - constructor; cbn; auto. destruct I; constructor; cbn; auto.
  - destruct (shrink_spec s I) as (I' & Ea' & Ei' & Hc).
    assert (Eem : teb_empty A s = match f_items f with [] => true | _ => false end).
    { unfold teb_empty. destruct (N.eqb_spec (rpos s) (wpos s)) as [E|E].
      - rewrite (abs_empty s E) in Ea. now rewrite <- Ea.
      - destruct (f_items f) eqn:Ef; [|reflexivity].
        exfalso. apply E. apply abs_nil_empty; assumption. }
    rewrite <- Es, <- Eem.
    destruct (shr s && teb_empty A s) eqn:Eb.
    + destruct Hc as [Hc1 Hc2]. constructor; cbn [f_items f_cap f_icap f_shr]; auto; try congruence.
      rewrite Ea'. apply andb_prop in Eb. destruct Eb as [_ Eb]. unfold teb_empty in Eb.
      apply N.eqb_eq in Eb. apply abs_empty. exact Eb.
    + rewrite Hc. constructor; auto.
Qed.

Lemma R_obs s f : R s f -> teb_obs A dflt s = fifo_obs A f.
Proof.
  intros Hr. pose proof (R_size s f Hr) as Hsz. destruct Hr as [I Ea Ec Ei Es].
  unfold teb_obs, fifo_obs. rewrite front_abs by exact I. now rewrite Ea, Hsz, Ec.
Qed.

Lemma run_refines s f ops : R s f -> teb_run A dflt K s ops = fifo_run A f ops.
Proof.
  revert s f. induction ops as [|o ops IH]; intros s f Hr; cbn [teb_run fifo_run]; [reflexivity|].
  pose proof (R_step s f o Hr) as Hr'. f_equal.
  - apply R_obs. exact Hr'.
  - apply IH. exact Hr'.
Qed.

(* every history of backend calls on the slot array, from any initial capacity, shows what the list shows *)
Theorem teb_refines_fifo c0 ops :
  teb_run A dflt K (teb_init A dflt c0) ops = fifo_run A (fifo_init A c0) ops.
Proof. apply run_refines. apply R_init. Qed.

(* reachable states *)
Fixpoint teb_exec (s : teb) (ops : list (top A)) : teb :=
  match ops with [] => s | o :: r => teb_exec (teb_step A dflt K s o) r end.
Fixpoint fifo_exec (f : fifo A) (ops : list (top A)) : fifo A :=
  match ops with [] => f | o :: r => fifo_exec (fifo_step A f o) r end.

Lemma exec_R s f ops : R s f -> R (teb_exec s ops) (fifo_exec f ops).
Proof. revert s f; induction ops as [|o r IH]; intros s f H; cbn; auto. apply IH. apply R_step. exact H. Qed.

(* the live events of every reachable buffer are exactly the events put and not yet popped, oldest first *)
Theorem teb_content_exact c0 ops :
  teb_abs A dflt (teb_exec (teb_init A dflt c0) ops) = f_items (fifo_exec (fifo_init A c0) ops).
Proof. apply (r_abs _ _ (exec_R _ _ ops (R_init c0))). Qed.

(* growth: a put or touch on any reachable buffer keeps every queued event, in order (C03: backend buffer growth) *)
Theorem teb_put_keeps_all c0 ops v :
  let s := teb_exec (teb_init A dflt c0) ops in
  teb_abs A dflt (teb_step A dflt K s (OPut v)) = teb_abs A dflt s ++ [v] /\
  teb_abs A dflt (teb_step A dflt K s (OTouch v)) = teb_abs A dflt s.
Proof.
  intros s. pose proof (exec_R _ _ ops (R_init c0)) as Hr. fold s in Hr.
  pose proof (r_inv _ _ Hr) as I.
  destruct (back_spec s I) as (I' & Ea' & Hlt & _). cbn [teb_step]. split.
  - rewrite put_abs by assumption. now rewrite Ea'.
  - rewrite fill_abs by assumption. exact Ea'.
Qed.

(* shrinking (C20): try_shrink never changes the live events; it acts exactly when a shrink was requested and the
   buffer is empty, and then the capacity is the initial one again *)
Theorem teb_shrink_exact c0 ops :
  let s := teb_exec (teb_init A dflt c0) ops in
  let s' := teb_step A dflt K s OShrink in
  teb_abs A dflt s' = teb_abs A dflt s /\
  (if shr s && teb_empty A s then cap s' = icap s /\ shr s' = false else s' = s) /\
  icap s = tnext_pow2 c0.
Proof.
  intros s s'. pose proof (exec_R _ _ ops (R_init c0)) as Hr. fold s in Hr.
  pose proof (r_inv _ _ Hr) as I.
  destruct (shrink_spec s I) as (_ & Ea & _ & Hc). repeat split; auto.
  rewrite (r_icap _ _ Hr).
  assert (G : forall l (g : fifo A), f_icap (fifo_exec g l) = f_icap g).
  { induction l as [|o r IH]; intro g; cbn [fifo_exec]; auto. rewrite IH.
    destruct o; cbn [fifo_step f_icap]; auto.
    destruct (f_shr g && match f_items g with [] => true | _ => false end); reflexivity. }
  rewrite G. reflexivity.
Qed.

(* capacity stays a power of two between the initial capacity and ... (never below the initial capacity) *)
Theorem teb_cap_bounds c0 ops :
  let s := teb_exec (teb_init A dflt c0) ops in
  pow2 (cap s) /\ icap s <= cap s /\ teb_size A s <= cap s /\ length (sto s) = N.to_nat (cap s).
Proof.
  intros s. pose proof (exec_R _ _ ops (R_init c0)) as Hr. fold s in Hr.
  destruct (r_inv _ _ Hr). unfold teb_size. auto.
Qed.

End Proofs.

(* ------------------------------------------------------------------ each guard of the code is needed *)
Definition K_no_mask := {| t_grow := 2; t_mask_upd := false; t_move_from_reader := true;
                           t_shrink_needs_empty := true; t_full_test_exact := true |}.
Definition K_move0 := {| t_grow := 2; t_mask_upd := true; t_move_from_reader := false;
                         t_shrink_needs_empty := true; t_full_test_exact := true |}.
Definition K_shrink_any := {| t_grow := 2; t_mask_upd := true; t_move_from_reader := true;
                              t_shrink_needs_empty := false; t_full_test_exact := true |}.
Definition K_late_full := {| t_grow := 2; t_mask_upd := true; t_move_from_reader := true;
                             t_shrink_needs_empty := true; t_full_test_exact := false |}.

Fixpoint leqb (a b : list N) : bool :=
  match a, b with
  | [], [] => true
  | x :: a', y :: b' => (x =? y) && leqb a' b'
  | _, _ => false
  end.

Definition differs (K : tcfg) (c0 : N) (ops : list (top N)) : bool :=
  negb (leqb (flat_map teb_enc_obs (teb_run N 0 K (teb_init N 0 c0) ops))
             (flat_map teb_enc_obs (fifo_run N (fifo_init N c0) ops))).

(* a stale mask after _expand: the third event of a grown buffer lands on a live slot *)
Lemma teb_refuted_without_mask_update : exists c0 ops, differs K_no_mask c0 ops = true.
Proof. exists 2, [OPut 1; OPut 2; OPut 3; OPop; OPop]. vm_compute. reflexivity. Qed.

(* _expand copying from slot 0 instead of the reader position: a ring that has wrapped is reordered *)
Lemma teb_refuted_expand_from_slot0 : exists c0 ops, differs K_move0 c0 ops = true.
Proof. exists 2, [OPut 1; OPop; OPut 2; OPut 3; OPut 4]. vm_compute. reflexivity. Qed.

(* try_shrink on a non-empty buffer loses the queued events *)
Lemma teb_refuted_shrink_nonempty : exists c0 ops, differs K_shrink_any c0 ops = true.
Proof. exists 1, [OPut 1; OPut 2; OReq; OShrink]. vm_compute. reflexivity. Qed.

(* expanding only when size() exceeds the capacity: the oldest event is overwritten *)
Lemma teb_refuted_late_expand : exists c0 ops, differs K_late_full c0 ops = true.
Proof. exists 2, [OPut 1; OPut 2; OPut 3]. vm_compute. reflexivity. Qed.

(* non-vacuity: a history in which the ring wraps, grows while wrapped, and shrinks *)
Example teb_history_wraps_grows_shrinks :
  map teb_enc_obs (teb_run N 0 tcfg_good (teb_init N 0 2) [OPut 1; OPop; OPut 2; OPut 3; OPut 4; OReq; OPop; OPop; OPop; OShrink])
  = [[2;1;2]; [0;0;2]; [3;1;2]; [3;2;2]; [3;3;4]; [3;3;4]; [4;2;4]; [5;1;4]; [0;0;4]; [0;0;2]].
Proof. vm_compute. reflexivity. Qed.
