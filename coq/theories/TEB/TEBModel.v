(* M-TEB: the backend's per-thread TransitEventBuffer (include/quill/backend/TransitEventBuffer.h) exactly as the
   code has it: a storage array of `_capacity` slots (a power of two), `_mask = _capacity - 1`, reader and writer
   positions that only grow and are reduced to a slot index with `& _mask`, `_expand()` (called by back() when the
   buffer is full: a new array of twice the capacity, the live events moved to its front in order, positions reset)
   and request_shrink()/try_shrink() (an empty buffer goes back to its initial capacity).
   M-BE (Backend/BEDefs.v) treats this buffer as a list with a doubling capacity; TEBProofs.v shows that every
   history of calls the backend makes on the slot array behaves like that list (C03: backend buffer growth; C20:
   shrinking the backend buffer loses nothing).
   Definitions only (this file is extracted and must compile when a proof breaks).
   Positions are unbounded N: size_t wrap-around of positions that are incremented once per statement is not
   modelled (2^64 statements per thread). *)
From Coq Require Import List NArith Bool.
Import ListNotations.
Local Open Scope N_scope.

(* code variants a source edit can select; the values of the current source come from T-src (TieTEB.v) *)
Record tcfg := {
  t_grow : N;            (* _expand(): new_capacity = _capacity * t_grow            (source: 2) *)
  t_mask_upd : bool;     (* _expand()/try_shrink() set _mask = _capacity - 1         (source: true) *)
  t_move_from_reader : bool; (* _expand() copies slot (_reader_pos + i) & _mask to slot i (source: true) *)
  t_shrink_needs_empty : bool; (* try_shrink() acts only on an empty buffer         (source: true) *)
  t_full_test_exact : bool  (* back() expands when _capacity == size()              (source: true) *)
}.

Definition tcfg_good : tcfg :=
  {| t_grow := 2; t_mask_upd := true; t_move_from_reader := true; t_shrink_needs_empty := true;
     t_full_test_exact := true |}.

(* next_power_of_two (MathUtilities.h), for values below max_power_of_two<size_t> *)
Definition tnext_pow2 (n : N) : N := if n =? 0 then 1 else 2 ^ N.log2_up n.

Section TEB.
Variable A : Type.
Variable dflt : A.          (* a default-constructed TransitEvent *)
Variable K : tcfg.

Record teb := {
  icap : N;                 (* _initial_capacity *)
  cap : N;                  (* _capacity *)
  sto : list A;             (* _storage, `cap` slots *)
  msk : N;                  (* _mask *)
  rpos : N;                 (* _reader_pos *)
  wpos : N;                 (* _writer_pos *)
  shr : bool                (* _shrink_requested *)
}.

Definition teb_init (c0 : N) : teb :=
  let c := tnext_pow2 c0 in
  {| icap := c; cap := c; sto := repeat dflt (N.to_nat c); msk := c - 1; rpos := 0; wpos := 0; shr := false |}.

Definition slot (s : teb) (p : N) : nat := N.to_nat (N.land p (msk s)).

Fixpoint set_nth (i : nat) (x : A) (l : list A) : list A :=
  match l, i with
  | [], _ => []
  | _ :: r, O => x :: r
  | y :: r, S j => y :: set_nth j x r
  end.

Definition teb_size (s : teb) : N := wpos s - rpos s.
Definition teb_empty (s : teb) : bool := rpos s =? wpos s.

(* front(): nullptr when empty, else the slot under the reader position *)
Definition teb_front (s : teb) : option A :=
  if rpos s =? wpos s then None else Some (nth (slot s (rpos s)) (sto s) dflt).

(* pop_front() *)
Definition teb_pop (s : teb) : teb :=
  {| icap := icap s; cap := cap s; sto := sto s; msk := msk s; rpos := rpos s + 1; wpos := wpos s; shr := shr s |}.

(* _expand() *)
Definition teb_expand (s : teb) : teb :=
  let ncap := cap s * t_grow K in
  let n := teb_size s in
  let moved := map (fun i => nth (slot s ((if t_move_from_reader K then rpos s else 0) + N.of_nat i)) (sto s) dflt)
                   (seq 0 (N.to_nat n)) in
  {| icap := icap s; cap := ncap;
     sto := moved ++ repeat dflt (N.to_nat ncap - N.to_nat n);
     msk := if t_mask_upd K then ncap - 1 else msk s;
     rpos := 0; wpos := n; shr := shr s |}.

(* back(): expands a full buffer, then hands out the slot under the writer position *)
Definition teb_back (s : teb) : teb :=
  if (if t_full_test_exact K then cap s =? teb_size s else cap s <? teb_size s) then teb_expand s else s.

(* the caller's assignment of every field of *back() *)
Definition teb_fill (s : teb) (v : A) : teb :=
  {| icap := icap s; cap := cap s; sto := set_nth (slot s (wpos s)) v (sto s); msk := msk s;
     rpos := rpos s; wpos := wpos s; shr := shr s |}.

(* push_back() *)
Definition teb_push (s : teb) : teb :=
  {| icap := icap s; cap := cap s; sto := sto s; msk := msk s; rpos := rpos s; wpos := wpos s + 1; shr := shr s |}.

Definition teb_request_shrink (s : teb) : teb :=
  {| icap := icap s; cap := cap s; sto := sto s; msk := msk s; rpos := rpos s; wpos := wpos s; shr := true |}.

(* try_shrink() *)
Definition teb_try_shrink (s : teb) : teb :=
  if shr s && (if t_shrink_needs_empty K then teb_empty s else true) then
    if icap s <? cap s then
      {| icap := icap s; cap := icap s; sto := repeat dflt (N.to_nat (icap s));
         msk := if t_mask_upd K then icap s - 1 else msk s; rpos := 0; wpos := 0; shr := false |}
    else
      {| icap := icap s; cap := cap s; sto := sto s; msk := msk s; rpos := rpos s; wpos := wpos s; shr := false |}
  else s.

(* the calls the backend makes, at the granularity it makes them:
   OPut v    _populate_transit_event_from_frontend_queue that commits: back(); assign; push_back()
   OTouch v  the same abandoned before push_back() (a statement beyond the timestamp cut-off): back(); assign
   OPop      _process_lowest_timestamp_transit_event: front(), and pop_front() when it is not null
   OReq      request_shrink()       OShrink   try_shrink() *)
Inductive top := OPut (v : A) | OTouch (v : A) | OPop | OReq | OShrink.

(* observation after every op: what front() shows, size(), capacity() *)
Record tobs := { o_front : option A; o_size : N; o_cap : N }.

Definition teb_step (s : teb) (o : top) : teb :=
  match o with
  | OPut v => teb_push (teb_fill (teb_back s) v)
  | OTouch v => teb_fill (teb_back s) v
  | OPop => match teb_front s with Some _ => teb_pop s | None => s end
  | OReq => teb_request_shrink s
  | OShrink => teb_try_shrink s
  end.

Definition teb_obs (s : teb) : tobs := {| o_front := teb_front s; o_size := teb_size s; o_cap := cap s |}.

Fixpoint teb_run (s : teb) (ops : list top) : list tobs :=
  match ops with
  | [] => []
  | o :: r => let s' := teb_step s o in teb_obs s' :: teb_run s' r
  end.

(* ---- the abstract buffer M-BE uses: a list, a capacity that doubles when the list fills it, a shrink request *)
Record fifo := { f_items : list A; f_cap : N; f_icap : N; f_shr : bool }.

Definition fifo_init (c0 : N) : fifo :=
  {| f_items := []; f_cap := tnext_pow2 c0; f_icap := tnext_pow2 c0; f_shr := false |}.

Definition fifo_grow (f : fifo) : N :=
  if f_cap f =? N.of_nat (length (f_items f)) then 2 * f_cap f else f_cap f.

Definition fifo_step (f : fifo) (o : top) : fifo :=
  match o with
  | OPut v => {| f_items := f_items f ++ [v]; f_cap := fifo_grow f; f_icap := f_icap f; f_shr := f_shr f |}
  | OTouch _ => {| f_items := f_items f; f_cap := fifo_grow f; f_icap := f_icap f; f_shr := f_shr f |}
  | OPop => {| f_items := tl (f_items f); f_cap := f_cap f; f_icap := f_icap f; f_shr := f_shr f |}
  | OReq => {| f_items := f_items f; f_cap := f_cap f; f_icap := f_icap f; f_shr := true |}
  | OShrink =>
      if f_shr f && (match f_items f with [] => true | _ => false end)
      then {| f_items := []; f_cap := f_icap f; f_icap := f_icap f; f_shr := false |}
      else f
  end.

Definition fifo_obs (f : fifo) : tobs :=
  {| o_front := hd_error (f_items f); o_size := N.of_nat (length (f_items f)); o_cap := f_cap f |}.

Fixpoint fifo_run (f : fifo) (ops : list top) : list tobs :=
  match ops with
  | [] => []
  | o :: r => let f' := fifo_step f o in fifo_obs f' :: fifo_run f' r
  end.

(* abstraction function: the live events, oldest first *)
Definition teb_abs (s : teb) : list A :=
  map (fun i => nth (slot s (rpos s + N.of_nat i)) (sto s) dflt) (seq 0 (N.to_nat (teb_size s))).

End TEB.

Arguments icap {A}. Arguments cap {A}. Arguments sto {A}. Arguments msk {A}. Arguments rpos {A}. Arguments wpos {A}.
Arguments shr {A}. Arguments OPut {A}. Arguments OTouch {A}. Arguments OPop {A}. Arguments OReq {A}. Arguments OShrink {A}.
Arguments o_front {A}. Arguments o_size {A}. Arguments o_cap {A}.
Arguments f_items {A}. Arguments f_cap {A}. Arguments f_icap {A}. Arguments f_shr {A}.

(* Encoded entry point for the extracted model runner.
   case line: teb g m r e x c0 ops...   (g m r e x = the tcfg; c0 = requested initial capacity)
   ops: 0 v = OPut v ; 1 v = OTouch v ; 2 = OPop ; 3 = OReq ; 4 = OShrink
   output per op: front (value+1, 0 for nullptr), size, capacity *)
Fixpoint teb_decode (fuel : nat) (l : list N) : list (top N) :=
  match fuel with
  | O => []
  | S f =>
    match l with
    | 0 :: v :: r => OPut v :: teb_decode f r
    | 1 :: v :: r => OTouch v :: teb_decode f r
    | 2 :: r => OPop :: teb_decode f r
    | 3 :: r => OReq :: teb_decode f r
    | 4 :: r => OShrink :: teb_decode f r
    | _ => []
    end
  end.

Definition teb_enc_obs (o : tobs N) : list N :=
  [match o_front o with Some x => N.succ x | None => 0 end; o_size o; o_cap o].

Definition teb_run_enc (g : N) (m r e x : bool) (c0 : N) (l : list N) : list N :=
  let K := {| t_grow := g; t_mask_upd := m; t_move_from_reader := r; t_shrink_needs_empty := e;
              t_full_test_exact := x |} in
  flat_map teb_enc_obs (teb_run N 0 K (teb_init N 0 c0) (teb_decode (length l) l)).

(* the same history on the abstract buffer (used by the check to compare M-BE's view with the real class too) *)
Definition fifo_run_enc (c0 : N) (l : list N) : list N :=
  flat_map teb_enc_obs (fifo_run N (fifo_init N c0) (teb_decode (length l) l)).
