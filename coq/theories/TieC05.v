(* T-src tie for C05: the fact read from /repo's BackendWorker.h on every run (tools/srcfacts.py) *)
From QuillGen Require SrcFacts.
Lemma src_be_refresh_after_clock : SrcFacts.be_refresh_after_clock = true.
Proof. vm_compute. reflexivity. Qed.
Lemma src_be_unbounded_read_follows_chain : SrcFacts.be_unbounded_read_follows_chain = true.
Proof. vm_compute. reflexivity. Qed.
