(* T-src tie for C11: the facts regenerated from /repo (QuillGen.SrcFacts, tools/srcfacts.py block C11)
   equal the constants and code shapes M-ALLOC (Alloc/AllocModel.v, Codec/InlVec.v) was written against.
   A source edit that changes the inline capacity or growth of the size cache, makes clear() release
   storage, moves the cache out of the thread context, changes the cache-clearing rule, adds a step to
   log_statement, makes another codec call libfmt / build a temporary on the caller, or makes a map
   codec hand an element to Codec<std::pair<Key, T>> again (any edit of compute_encoded_size / encode
   of std/Map.h and std/UnorderedMap.h) makes this file stop compiling; the check then searches for a failing input with the runtime harness. *)
From Coq Require Import String List NArith Bool.
From QuillGen Require SrcFacts.
From Quill Require Import Codec.InlVec Alloc.AllocModel Alloc.AllocProofs.
Import ListNotations.
Local Open Scope string_scope.

(* using SizeCacheVector = InlinedVector<uint32_t, 12>, held by value in ThreadContext *)
Lemma src_iv_inline_capacity : SrcFacts.iv_inline_capacity = INLINE_CAP /\ SrcFacts.tc_size_cache_by_value = true.
Proof. vm_compute. split; reflexivity. Qed.

(* size_t const new_capacity = _capacity * 2 *)
Lemma src_iv_growth_factor : SrcFacts.iv_growth_factor = GROWTH.
Proof. vm_compute. reflexivity. Qed.

(* push_back allocates only under `_size == _capacity`; clear() only resets the size *)
Definition expected_iv_push_back : list string := [
    "IF _size == _capacity";
    "  DECL size_t const new_capacity = _capacity * 2;";
    "  DECL auto* new_data = new value_type[new_capacity];";
    "  IF QUILL_UNLIKELY";
    "    EXPR QUILL_THROW";
    "  IF _capacity == N";
    "    FOR for (size_t i = 0; i < _size; ++i)";
    "      EXPR new_data[i] = _storage.inline_buffer[i]";
    "  ELSE";
    "    FOR for (size_t i = 0; i < _size; ++i)";
    "      EXPR new_data[i] = _storage.heap_buffer[i]";
    "    EXPR delete[] _storage.heap_buffer";
    "  EXPR _storage.heap_buffer = new_data";
    "  EXPR _capacity = new_capacity";
    "IF _capacity == N";
    "  EXPR _storage.inline_buffer[_size] = value";
    "ELSE";
    "  EXPR _storage.heap_buffer[_size] = value";
    "EXPR ++_size";
    "RET return value"].
Definition expected_iv_clear : list string := [
    "EXPR _size = 0"].
Lemma src_iv_skeletons : SrcFacts.sk_iv_push_back = expected_iv_push_back /\ SrcFacts.sk_iv_clear = expected_iv_clear.
Proof. vm_compute. split; reflexivity. Qed.

(* compute_encoded_size_and_cache_string_lengths: the cache is cleared iff some argument type is outside
   {arithmetic, enum, void const*, std::string, std::string_view} (CodecDefs.needs_clear) *)
Definition expected_size_pass : list string := [
    "IF !std::conjunction_v<std::disjunction<std::is_arithmetic<remove_cvref_t<Args>>, std::is_enum<remove_cvref_t<Args>>, std::is_same<remove_cvref_t<Args>, void const*>, is_std_string<remove_cvref_t<Args>>, std::is_same<remove_cvref_t<Args>, std::string_view>>...>";
    "  EXPR conditional_arg_size_cache.clear()";
    "DECL size_t total_sum{0};";
    "EXPR ((total_sum += Codec<remove_cvref_t<Args>>::compute_encoded_size(conditional_arg_size_cache, args)), ...)";
    "RET return total_sum"].
Lemma src_size_pass_skeleton : SrcFacts.sk_codec_size_pass = expected_size_pass.
Proof. vm_compute. reflexivity. Qed.

(* among the codecs' compute_encoded_size / encode bodies only DirectFormatCodec calls libfmt
   (formats_on_caller) and only Codec<fs::path> builds a temporary (APathString) *)
Lemma src_caller_side_codecs :
  SrcFacts.sk_c11_caller_fmt_headers = ["quill/DirectFormatCodec.h"] /\
  SrcFacts.sk_c11_caller_temp_headers = ["quill/std/FilesystemPath.h"].
Proof. vm_compute. split; reflexivity. Qed.

(* LoggerImpl::log_statement: timestamp, thread context, size pass, reservation (drop / retry), header,
   encode pass, dynamic level, finish_and_commit_write - and nothing else (log_step) *)
Definition expected_log_statement : list string := [
    "IF has_dynamic_log_level";
    "  EXPR assert";
    "IF dynamic_log_level != LogLevel::None";
    "  EXPR assert";
    "  EXPR assert";
    "IF macro_metadata->log_level() != LogLevel::Dynamic";
    "  EXPR assert";
    "EXPR assert";
    "DECL uint64_t current_timestamp;";
    "IF clock_source == ClockSourceType::Tsc";
    "  EXPR current_timestamp = detail::rdtsc()";
    "ELSE";
    "  IF clock_source == ClockSourceType::System";
    "    EXPR current_timestamp = detail::get_timestamp_ns<std::chrono::system_clock>()";
    "  ELSE";
    "    IF user_clock";
    "      EXPR current_timestamp = user_clock->now()";
    "    ELSE";
    "      EXPR current_timestamp = 0";
    "IF QUILL_UNLIKELY";
    "  EXPR thread_context = detail::get_local_thread_context<frontend_options_t>()";
    "DECL size_t total_size = sizeof(current_timestamp) + (sizeof(uintptr_t) * 3) + detail::compute_encoded_size_and_cache_string_lengths( thread_context->get_conditional_arg_size_cache(), fmt_args...);";
    "IF has_dynamic_log_level";
    "  EXPR total_size += sizeof(dynamic_log_level)";
    "DECL std::byte* write_buffer = _prepare_write_buffer(total_size);";
    "IF (frontend_options_t::queue_type == QueueType::BoundedDropping) || (frontend_options_t::queue_type == QueueType::UnboundedDropping)";
    "  IF QUILL_UNLIKELY";
    "    IF macro_metadata->event() == MacroMetadata::Event::Log";
    "      EXPR thread_context->increment_failure_counter()";
    "    RET return false";
    "ELSE";
    "  IF (frontend_options_t::queue_type == QueueType::BoundedBlocking) || (frontend_options_t::queue_type == QueueType::UnboundedBlocking)";
    "    IF QUILL_UNLIKELY";
    "      IF macro_metadata->event() == MacroMetadata::Event::Log";
    "        EXPR thread_context->increment_failure_counter()";
    "      DO";
    "        IF frontend_options_t::blocking_queue_retry_interval_ns > 0";
    "          EXPR std::this_thread::sleep_for(std::chrono::nanoseconds{frontend_options_t::blocking_queue_retry_interval_ns})";
    "        EXPR write_buffer = _prepare_write_buffer(total_size)";
    "      DOWHILE write_buffer == nullptr";
    "DECL std::byte const* const write_begin = write_buffer;";
    "EXPR assert";
    "EXPR write_buffer = _encode_header(write_buffer, current_timestamp, macro_metadata, this, detail::decode_and_store_args<detail::remove_cvref_t<Args>...>)";
    "EXPR detail::encode(write_buffer, thread_context->get_conditional_arg_size_cache(), fmt_args...)";
    "IF has_dynamic_log_level";
    "  EXPR std::memcpy(write_buffer, &dynamic_log_level, sizeof(dynamic_log_level))";
    "  EXPR write_buffer += sizeof(dynamic_log_level)";
    "EXPR assert";
    "EXPR assert";
    "EXPR thread_context->get_spsc_queue<frontend_options_t::queue_type>().finish_and_commit_write(total_size)";
    "IF immediate_flush";
    "  EXPR this->flush_log()";
    "RET return true"].
Lemma src_log_statement_skeleton : SrcFacts.sk_logger_log_statement = expected_log_statement.
Proof. vm_compute. reflexivity. Qed.

(* ------------------------------------------------------------------ the variant of the map codecs *)
(* The model flag map_copies (Alloc/AllocModel.v: true = every map element is converted to a temporary
   std::pair<Key, T>, the pinned behaviour of finding C11-F1; false = the members are encoded in place)
   that stands for the source tree: tools/srcfacts.py (c11f_facts) sets c11_map_elems_in_place when
   compute_encoded_size and encode of BOTH map codecs loop `for (auto const& elem : arg)`, call
   Codec<Key> on elem.first and then Codec<T> on elem.second, and mention no pair. *)
Definition src_map_copies : bool := negb SrcFacts.c11_map_elems_in_place.

Lemma src_map_elems_in_place : SrcFacts.c11_map_elems_in_place = true.
Proof. vm_compute. reflexivity. Qed.

Lemma src_map_copies_false : src_map_copies = false.
Proof. vm_compute. reflexivity. Qed.

(* the four bodies (std/Map.h compute_encoded_size, encode; std/UnorderedMap.h compute_encoded_size, encode),
   comments stripped and white space normalised, are the ones the repaired variant was written against *)
Definition expected_map_size_body : string :=
  "{ size_t total_size{sizeof(size_t)}; if constexpr (std::conjunction_v<std::disjunction<std::is_arithmetic<Key>, std::is_enum<Key>>, std::disjunction<std::is_arithmetic<T>, std::is_enum<T>>>) { total_size += (sizeof(Key) + sizeof(T)) * arg.size(); } else { for (auto const& elem : arg) { total_size += Codec<Key>::compute_encoded_size(conditional_arg_size_cache, elem.first); total_size += Codec<T>::compute_encoded_size(conditional_arg_size_cache, elem.second); } } return total_size; }".
Definition expected_map_encode_body : string :=
  "{ Codec<size_t>::encode(buffer, conditional_arg_size_cache, conditional_arg_size_cache_index, arg.size()); for (auto const& elem : arg) { Codec<Key>::encode(buffer, conditional_arg_size_cache, conditional_arg_size_cache_index, elem.first); Codec<T>::encode(buffer, conditional_arg_size_cache, conditional_arg_size_cache_index, elem.second); } }".
Lemma src_map_codec_bodies :
  SrcFacts.sk_c11_map_codec_bodies =
  [expected_map_size_body; expected_map_encode_body; expected_map_size_body; expected_map_encode_body].
Proof. vm_compute. reflexivity. Qed.

(* the property, modelled part, for the variant the source selects (Properties_C11.C11_steady_no_alloc,
   C11_steady_no_alloc_capacity): no hypothesis about the maps inside the arguments *)
Local Open Scope N_scope.
Lemma steady_no_alloc_code_variant : forall cf s ts vs dyn,
  reachable src_map_copies cf s -> t_reg s = true ->
  N.of_nat (stmt_cached ts vs) <= INLINE_CAP ->
  fits (t_node s) (stmt_total ts vs dyn) = true ->
  forallb no_excluded ts = true ->
  allocs (snd (log_step src_map_copies cf s ts vs dyn)) = [] /\
  res (snd (log_step src_map_copies cf s ts vs dyn)) = LEnqueued.
Proof. rewrite src_map_copies_false. exact steady_no_alloc_reachable. Qed.

Lemma steady_no_alloc_cap_code_variant : forall cf s ts vs dyn,
  reachable src_map_copies cf s -> t_reg s = true ->
  N.of_nat (stmt_cached ts vs) <= iv_cap (t_cache s) ->
  fits (t_node s) (stmt_total ts vs dyn) = true ->
  forallb no_excluded ts = true ->
  allocs (snd (log_step src_map_copies cf s ts vs dyn)) = [] /\
  res (snd (log_step src_map_copies cf s ts vs dyn)) = LEnqueued /\
  iv_cap (t_cache (fst (log_step src_map_copies cf s ts vs dyn))) = iv_cap (t_cache s).
Proof.
  rewrite src_map_copies_false.
  exact (fun cf s ts vs dyn Hre Hr => steady_no_alloc_cap cf s ts vs dyn Hr (reachable_wf false cf s Hre)).
Qed.
