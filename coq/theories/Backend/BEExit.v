(* C07 (stop / exit drain): BackendWorker::_exit on M-BE. The drain loop is built from the same pieces as
   _poll (emptiness check, populate, pending scan, process the lowest timestamp); when it leaves through the
   "all empty" branch nothing is pending in any registered thread context, hence (conservation) everything
   committed was processed, and the sinks are flushed after the last write. *)
From Coq Require Import List NArith Arith Bool Lia.
From Quill Require Import Queue.BQDefs BT.BTModel Backend.BEDefs Backend.BEInv Backend.OrdSim.
Import ListNotations.
Local Open Scope N_scope.

Section Exit.
Variable K : cfg.

Definition set_tsnow (s : st) (tn : N) : st :=
  {| clock := clock s; th := th s; registered := registered s; newflag := newflag s;
     invalid_cnt := invalid_cnt s; cache := cache s; pc := pc s; tsnow := tn; lg := lg s; sk := sk s;
     nsinks := nsinks s; nloggers := nloggers s; lastfl := lastfl s; flags := flags s; obs := obs s;
     issued := issued s; delivered := delivered s; plog := plog s; gh := gh s |}.

(* the for loop of _populate_transit_events_from_frontend_queues *)
Fixpoint read_all (s : st) (l : list nat) : st :=
  match l with
  | [] => s
  | u :: r =>
      let '(x1, notes, esc) := read_queue K (tsnow s) (th s u) in
      let s1 := add_obs (set_th s (upd (th s) u x1)) notes in
      if esc then add_obs s1 [O_NOTE; 4; 0] else read_all s1 r
  end.

Definition exit_populate (s : st) : st :=
  let tn := if c_grace K =? 0 then MAXTS else clock s - c_grace K in
  let s1 := set_tsnow s tn in
  let s2 := if c_refresh2 K then refresh K s1 else s1 in
  read_all s2 (cache s2).

(* while (!has_pending_events_for_caching_when_transit_event_buffer_empty() && _process_lowest_timestamp_transit_event()) *)
Fixpoint exit_process (fuel : nat) (s : st) : st :=
  match fuel with
  | O => s
  | S f =>
      let s0 := refresh K s in
      let (s1, pending) := pending_scan s0 (cache s0) in
      if pending then s1
      else let (s2, did) := process_min K s1 in if did then exit_process f s2 else s2
  end.

Definition exit_iter (s : st) : st :=
  let s1 := exit_populate s in
  if buffered s1 =? 0 then s1 else exit_process (S (N.to_nat (buffered s1))) s1.

(* the while(true) loop of _exit with wait_for_queues_to_empty_before_exit; the clock moves by [d] between two
   iterations (real time passes while the loop spins); returns whether the loop left through the "empty" branch *)
Fixpoint exit_drain (ticks : list N) (s : st) : st * bool :=
  match ticks with
  | [] => (s, false)
  | d :: r =>
      let s0 := refresh K s in
      let (s1, e) := all_empty_scan s0 (cache s0) true in
      if e then (flush_sinks (report_failures K s1 (cache s1)), true)
      else exit_drain r (exit_iter (fstep K s1 (FTick d)))
  end.

(* ---------- invariants are kept *)
Lemma set_tsnow_good s tn : Good K s -> Good K (set_tsnow s tn).
Proof. intro G. eapply same_core_good; [| | |exact G]; reflexivity. Qed.
Lemma set_tsnow_flag s tn : FlagInv s -> FlagInv (set_tsnow s tn).
Proof. intro H. eapply flag_same; [|exact H]. repeat split. Qed.

Lemma read_all_good l : forall s, Good K s -> Good K (read_all s l).
Proof.
  induction l as [|u r IH]; intros s G; cbn [read_all]; [exact G|].
  pose proof (read_queue_inv K (tsnow s) (th s u) _ _ (proj1 G u)) as [T1 P1].
  destruct (read_queue K (tsnow s) (th s u)) as [[x1 notes] esc]. cbn [fst] in *.
  pose proof (good_thr K s u x1 G T1 P1) as G1.
  assert (G2 : Good K (add_obs (set_th s (upd (th s) u x1)) notes)) by (eapply same_core_good; [| | |exact G1]; reflexivity).
  destruct esc; [eapply same_core_good; [| | |exact G2]; reflexivity|apply IH; exact G2].
Qed.

Lemma read_all_flag l : forall s, FlagInv s -> FlagInv (read_all s l).
Proof.
  induction l as [|u r IH]; intros s H; cbn [read_all]; [exact H|].
  destruct (read_queue K (tsnow s) (th s u)) as [[x1 notes] esc].
  assert (H2 : FlagInv (add_obs (set_th s (upd (th s) u x1)) notes)) by (eapply flag_same; [|exact H]; repeat split).
  destruct esc; [eapply flag_same; [|exact H2]; repeat split|apply IH; exact H2].
Qed.

Lemma exit_populate_good s : Good K s -> Good K (exit_populate s).
Proof.
  intro G. unfold exit_populate. apply read_all_good.
  destruct (c_refresh2 K); [apply refresh_good|]; apply set_tsnow_good; exact G.
Qed.
Lemma exit_populate_flag s : FlagInv s -> FlagInv (exit_populate s).
Proof.
  intro H. unfold exit_populate. apply read_all_flag.
  destruct (c_refresh2 K); [apply refresh_flag|]; apply set_tsnow_flag; exact H.
Qed.

Lemma exit_process_good fuel : forall s, Good K s -> Good K (exit_process fuel s).
Proof.
  induction fuel as [|f IH]; intros s G; cbn [exit_process]; [exact G|].
  pose proof (refresh_good K s G) as G0.
  pose proof (pending_scan_good K (refresh K s) (cache (refresh K s)) G0) as G1.
  destruct (pending_scan (refresh K s) (cache (refresh K s))) as [s1 pending]. cbn [fst] in G1.
  destruct pending; [exact G1|].
  pose proof (process_min_good K s1 G1) as G2. destruct (process_min K s1) as [s2 did]. cbn [fst] in G2.
  destruct did; [apply IH|]; exact G2.
Qed.
Lemma exit_process_flag fuel : forall s, FlagInv s -> FlagInv (exit_process fuel s).
Proof.
  induction fuel as [|f IH]; intros s H; cbn [exit_process]; [exact H|].
  destruct (refresh_flag K s H) as (H0 & _).
  pose proof (pending_scan_fl (cache (refresh K s)) (refresh K s)) as F1.
  destruct (pending_scan (refresh K s) (cache (refresh K s))) as [s1 pending]. cbn [fst] in F1.
  pose proof (flag_same _ _ F1 H0) as H1.
  destruct pending; [exact H1|].
  pose proof (process_min_flag K s1 H1) as H2. destruct (process_min K s1) as [s2 did]. cbn [fst] in H2.
  destruct did; [apply IH|]; exact H2.
Qed.

Lemma exit_iter_good s : Good K s -> Good K (exit_iter s).
Proof.
  intro G. unfold exit_iter. pose proof (exit_populate_good s G) as G1.
  destruct (buffered (exit_populate s) =? 0); [exact G1|now apply exit_process_good].
Qed.
Lemma exit_iter_flag s : FlagInv s -> FlagInv (exit_iter s).
Proof.
  intro H. unfold exit_iter. pose proof (exit_populate_flag s H) as H1.
  destruct (buffered (exit_populate s) =? 0); [exact H1|now apply exit_process_flag].
Qed.

(* ---------- what the emptiness check establishes *)
Lemma all_empty_scan_true l : forall s acc s', Good K s -> all_empty_scan s l acc = (s', true) ->
  acc = true /\
  (forall u, In u l -> qev (th s' u) = [] /\ tbuf (th s' u) = []) /\
  (forall u, qev (th s u) = [] /\ tbuf (th s u) = [] -> qev (th s' u) = [] /\ tbuf (th s' u) = []).
Proof.
  induction l as [|v r IH]; intros s acc s' G H; cbn [all_empty_scan] in H.
  - inversion H; subst. split; [reflexivity|]. split; [intros u []|auto].
  - pose proof (good_qempty K s v G) as G1.
    pose proof (q_empty_true_nil K (th s v) _ _ (proj1 G v)) as Hn.
    destruct (q_empty_fields (th s v)) as (Hq & Ht & _).
    destruct (q_empty (th s v)) as [x1 e] eqn:E. cbn [fst snd] in *.
    destruct (IH _ _ _ G1 H) as (Ha & Hin & Hkeep).
    apply andb_prop in Ha as [Ha Htb]. apply andb_prop in Ha as [-> ->].
    split; [reflexivity|]. split.
    + intros u [<-|Hu]; [|now apply Hin].
      apply Hkeep. cbn. rewrite upd_same. split; [now apply Hn|]. destruct (tbuf x1); [reflexivity|discriminate].
    + intros u Hu. apply Hkeep. cbn. unfold upd. destruct (Nat.eqb u v) eqn:Euv; [|exact Hu].
      apply Nat.eqb_eq in Euv. subst u. rewrite Hq, Ht. exact Hu.
Qed.


(* ---------- the drain commits nothing: what the threads committed before the stop is what is drained *)
Lemma refresh_iss s : issued (refresh K s) = issued s.
Proof. unfold refresh. destruct (newflag s); reflexivity. Qed.
Lemma all_empty_scan_iss l : forall s acc, issued (fst (all_empty_scan s l acc)) = issued s.
Proof.
  induction l as [|u r IH]; intros s acc; cbn [all_empty_scan]; [reflexivity|].
  destruct (q_empty (th s u)) as [x1 e]. now rewrite IH.
Qed.
Lemma pending_scan_iss l : forall s, issued (fst (pending_scan s l)) = issued s.
Proof.
  induction l as [|u r IH]; intro s; cbn [pending_scan]; [reflexivity|].
  destruct (tbuf (th s u)); [|apply IH]. destruct (q_empty (th s u)) as [x1 e]. destruct e; [now rewrite IH|reflexivity].
Qed.
Lemma report_failures_iss l : forall s, issued (report_failures K s l) = issued s.
Proof.
  induction l as [|u r IH]; intro s; cbn [report_failures]; [reflexivity|].
  destruct (failc (th s u) =? 0); [apply IH|]. now rewrite IH.
Qed.
Lemma find_dead_iss l : forall s, issued (fst (find_dead s l)) = issued s.
Proof.
  induction l as [|u r IH]; intro s; cbn [find_dead]; [reflexivity|].
  destruct (tvalid (th s u)); [apply IH|]. destruct (q_empty (th s u)) as [x1 e].
  destruct (e && match tbuf x1 with [] => true | _ => false end); [reflexivity|now rewrite IH].
Qed.
Lemma cleanup_loop_iss fuel : forall s, issued (cleanup_loop K fuel s) = issued s.
Proof.
  induction fuel as [|f IH]; intro s; cbn [cleanup_loop]; [reflexivity|].
  pose proof (find_dead_iss (cache s) s) as H0. destruct (find_dead s (cache s)) as [s0 [u|]]; cbn [fst] in H0; [|exact H0].
  rewrite IH. cbn. destruct (c_report_first K); [now rewrite report_failures_iss|exact H0].
Qed.
Lemma cleanup_ctx_iss s : issued (cleanup_ctx K s) = issued s.
Proof. unfold cleanup_ctx. destruct (invalid_cnt s =? 0); [reflexivity|apply cleanup_loop_iss]. Qed.
Lemma process_min_iss s : issued (fst (process_min K s)) = issued s.
Proof.
  unfold process_min. destruct (min_front s (cache s) None) as [[u e]|]; [|reflexivity].
  destruct (process_event_core K s e) as (_ & Hi & _).
  destruct (ekind e); cbn [fst]; try (cbn; exact Hi).
  cbn. rewrite cleanup_ctx_iss. cbn. exact Hi.
Qed.
Lemma exit_process_iss fuel : forall s, issued (exit_process fuel s) = issued s.
Proof.
  induction fuel as [|f IH]; intro s; cbn [exit_process]; [reflexivity|].
  pose proof (pending_scan_iss (cache (refresh K s)) (refresh K s)) as H1. rewrite refresh_iss in H1.
  destruct (pending_scan (refresh K s) (cache (refresh K s))) as [s1 pending]. cbn [fst] in H1.
  destruct pending; [exact H1|].
  pose proof (process_min_iss s1) as H2. destruct (process_min K s1) as [s2 did]. cbn [fst] in H2.
  destruct did; [rewrite IH|]; congruence.
Qed.
Lemma read_all_iss l : forall s, issued (read_all s l) = issued s.
Proof.
  induction l as [|u r IH]; intro s; cbn [read_all]; [reflexivity|].
  destruct (read_queue K (tsnow s) (th s u)) as [[x1 notes] esc]. destruct esc; [reflexivity|now rewrite IH].
Qed.
Lemma exit_iter_iss s : issued (exit_iter s) = issued s.
Proof.
  assert (Hp : issued (exit_populate s) = issued s).
  { unfold exit_populate. rewrite read_all_iss. destruct (c_refresh2 K); [rewrite refresh_iss|]; reflexivity. }
  unfold exit_iter. destruct (buffered (exit_populate s) =? 0); [exact Hp|]. now rewrite exit_process_iss.
Qed.
Lemma exit_drain_iss ticks : forall s, issued (fst (exit_drain ticks s)) = issued s.
Proof.
  induction ticks as [|d r IH]; intro s; cbn [exit_drain]; [reflexivity|].
  pose proof (all_empty_scan_iss (cache (refresh K s)) (refresh K s) true) as H1. rewrite refresh_iss in H1.
  destruct (all_empty_scan (refresh K s) (cache (refresh K s)) true) as [s1 e]. cbn [fst] in H1.
  destruct e; cbn [fst].
  - cbn. now rewrite report_failures_iss.
  - rewrite IH, exit_iter_iss. cbn. exact H1.
Qed.

(* bstep keeps the cache/registry relation (same proof as OrdSim.bstep_flag, without that section's premises) *)
Lemma bstep_flag0 s : FlagInv s -> FlagInv (bstep K s).
Proof.
  intro H. unfold bstep.
  assert (FS : forall s', fl_same s s' -> FlagInv s') by (intros s' F; eapply flag_same; [exact F|exact H]).
  destruct (pc s) as [| | |[|u todo]| | | | |].
  - eapply flag_same; [|apply (refresh_flag K s H)]. repeat split.
  - apply FS. repeat split.
  - destruct (c_refresh2 K); [eapply flag_same; [|apply (refresh_flag K s H)]; repeat split|apply FS; repeat split].
  - apply FS. destruct (buffered s =? 0); [repeat split|]. destruct (buffered s <? c_soft K); repeat split.
  - destruct (read_queue K (tsnow s) (th s u)) as [[x1 notes] esc]. apply FS. destruct esc; repeat split.
  - eapply flag_same; [|apply (process_min_flag K s H)]. repeat split.
  - destruct (refresh_flag K s H) as (H0 & _).
    pose proof (pending_scan_fl (cache (refresh K s)) (refresh K s)) as F1.
    destruct (pending_scan (refresh K s) (cache (refresh K s))) as [s1 pending]. cbn [fst] in F1.
    pose proof (flag_same _ _ F1 H0) as H1.
    destruct pending; [eapply flag_same; [|exact H1]; repeat split|].
    pose proof (process_min_flag K s1 H1) as H2. destruct (process_min K s1) as [s2 did]. cbn [fst] in H2.
    destruct did; (eapply flag_same; [|exact H2]; repeat split).
  - apply FS. idle_cases; repeat split.
  - eapply flag_same; [|apply (flag_same _ _ (report_failures_fl K (cache s) s) H)]. repeat split.
  - destruct (refresh_flag K s H) as (H0 & _).
    pose proof (all_empty_scan_fl (cache (refresh K s)) (refresh K s) true) as F1.
    destruct (all_empty_scan (refresh K s) (cache (refresh K s)) true) as [s1 e]. cbn [fst] in F1.
    pose proof (flag_same _ _ F1 H0) as H1.
    destruct e; [|eapply flag_same; [|exact H1]; repeat split].
    eapply flag_same; [|apply (cleanup_ctx_flag K _ H1)]. repeat split.
Qed.

Lemma run_flag ops : forall s, FlagInv s -> FlagInv (run K s ops).
Proof.
  unfold run. induction ops as [|o ops IH]; intros s H; cbn [fold_left]; [exact H|].
  apply IH. destruct o as [f|]; [exact (fstep_flag K s f H)|exact (bstep_flag0 s H)].
Qed.

(* ---------- the theorem *)
Theorem exit_drain_spec ticks : forall s s', Good K s -> FlagInv s -> exit_drain ticks s = (s', true) ->
  Good K s' /\
  (forall t, In t (registered s') -> qev (th s' t) = [] /\ tbuf (th s' t) = [] /\ issued s' t = delivered s' t) /\
  exists sa, s' = flush_sinks sa /\ plog sa = plog s'.
Proof.
  induction ticks as [|d r IH]; intros s s' G Fl H; cbn [exit_drain] in H; [discriminate|].
  destruct (refresh_flag K s Fl) as (Fl0 & Hc0 & Hr0).
  pose proof (refresh_good K s G) as G0.
  pose proof (all_empty_scan_good K (refresh K s) (cache (refresh K s)) true G0) as G1.
  pose proof (all_empty_scan_fl (cache (refresh K s)) (refresh K s) true) as F1.
  destruct (all_empty_scan (refresh K s) (cache (refresh K s)) true) as [s1 e] eqn:E. cbn [fst] in *.
  destruct e.
  - inversion H; subst s'. clear H.
    destruct (all_empty_scan_true _ _ _ _ G0 E) as (_ & Hin & _).
    pose proof (report_failures_good K s1 (cache s1) G1) as G2.
    assert (G3 : Good K (flush_sinks (report_failures K s1 (cache s1)))) by (eapply same_core_good; [| | |exact G2]; reflexivity).
    split; [exact G3|]. split; [|eexists; split; reflexivity].
    intros t Ht. cbn in Ht.
    destruct (report_failures_fl K (cache s1) s1) as (_ & _ & Rr). rewrite Rr in Ht.
    destruct F1 as (_ & Fc & Fr). rewrite Fr, <- Hc0 in Ht.
    pose proof (report_failures_keeps K s1 (cache s1) t (Hin t Ht)) as [Hq Hb].
    split; [exact Hq|]. split; [exact Hb|].
    pose proof (t_cons _ _ _ _ (proj1 G3 t)) as Hcons. cbn in Hcons. rewrite Hq, Hb in Hcons. cbn in Hcons.
    rewrite app_nil_r in Hcons. exact Hcons.
  - apply (IH _ _) in H; [exact H| |].
    + apply exit_iter_good. apply fstep_inv; [exact I|exact G1].
    + apply exit_iter_flag. apply fstep_flag. eapply flag_same; [exact F1|exact Fl0].
Qed.
End Exit.
