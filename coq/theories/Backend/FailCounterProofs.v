(* C08 (count clause): the failure-counter protocol M-FC (Backend/FailCounter.v) is exact for every
   interleaving of its micro-steps when the increment is one atomic read-modify-write and the reset one
   atomic exchange (guarded by a load or not); it over-reports with a split increment and loses counts
   with a split reset (witness schedules).  The micro-step machine then refines the atomic machine
   that M-BE uses (one step per increment_failure_counter / get_and_reset_failure_counter call), which
   is what justifies the atomic counter steps of Backend/BEDefs.v (fstep: failc + 1; report_failures). *)
From Coq Require Import List NArith Arith Bool Lia.
From Quill Require Import Backend.FailCounter.
Import ListNotations.
Local Open Scope N_scope.

Definition fl_good (g : bool) : fc_flags := {| inc_atomic := true; reset_guarded := g; reset_atomic := true |}.

Lemma nsum_app l x : nsum (l ++ [x]) = nsum l + x.
Proof. induction l as [|a l IH]; cbn [nsum app]; [lia|]. rewrite IH. lia. Qed.

Record FcInv (g : bool) (s : fc) : Prop := {
  i_reg : freg s = None;                                  (* the frontend is never between a load and a store *)
  i_bst : match bst s with
          | BIdle => True
          | BPassed => g = true /\ ctr s <> 0             (* only increments happen between the guard and the exchange *)
          | BLoaded _ => False
          end;
  i_sum : rep s + ctr s = disc s;
  i_rets : nsum (rets s) = rep s
}.

Lemma fc0_inv g : FcInv g fc0.
Proof. constructor; cbn; auto. Qed.

Lemma fc_step_inv g s o : FcInv g s -> FcInv g (fc_step (fl_good g) s o).
Proof.
  intros [R B S T]. destruct o; cbn [fc_step fl_good inc_atomic reset_guarded reset_atomic andb negb].
  - (* FInc *) rewrite R. cbn [is_none]. constructor; cbn [ctr freg bst disc rep rets]; auto.
    + destruct (bst s); auto. destruct B as [B1 B2]. split; [exact B1|lia].
    + lia.
  - (* FLoad: not enabled *) constructor; auto.
  - (* FStore: not enabled *) rewrite R. constructor; auto.
  - (* BGuard *)
    destruct (bst s) eqn:EB; [|constructor; auto; rewrite EB; exact B|contradiction].
    destruct g eqn:EG; [|constructor; auto; rewrite EB; exact I].
    destruct (ctr s =? 0) eqn:EC.
    + constructor; cbn [ctr freg bst disc rep rets]; auto. rewrite nsum_app. lia.
    + constructor; cbn [ctr freg bst disc rep rets]; auto. split; [reflexivity|]. now apply N.eqb_neq.
  - (* BExchange *)
    destruct (at_reset (fl_good g) s) eqn:EA; [|constructor; auto].
    constructor; cbn [ctr freg bst disc rep rets]; auto; [lia|]. rewrite nsum_app. lia.
  - (* BLoad: not enabled *) constructor; auto.
  - (* BStore: not enabled *)
    destruct (bst s) eqn:EB; [constructor; auto; rewrite EB; exact B..|contradiction].
Qed.

Lemma fc_run_inv g ops : forall s, FcInv g s -> FcInv g (fc_run (fl_good g) s ops).
Proof. induction ops as [|o r IH]; intros s I; cbn [fc_run]; [exact I|]. apply IH. now apply fc_step_inv. Qed.

(* one whole get_and_reset call, from any reachable state (the backend may even be past the guard
   already), with nothing in between: the counter is empty afterwards and the values returned so far
   add up to the discarded statements *)
Lemma fc_drain g s : FcInv g s ->
  let fl := fl_good g in
  let d := fc_run fl s (get_and_reset_call fl) in
  ctr d = 0 /\ disc d = disc s /\ nsum (rets d) = disc s.
Proof.
  intros I fl. pose proof (fc_run_inv g (get_and_reset_call fl) s I) as [R' B' S' T']. fold fl in R', B', S', T'.
  set (d := fc_run fl s (get_and_reset_call fl)) in *. cbv zeta.
  assert (H : ctr d = 0 /\ disc d = disc s).
  { clear R' B' S' T'. destruct I as [R B S T]. unfold d, fl. clear d fl.
    destruct s as [c f b dd r l]. cbn [ctr freg bst disc rep rets] in *. subst f.
    unfold get_and_reset_call, fl_good. cbn [reset_guarded reset_atomic].
    destruct g; destruct b as [| |v]; try contradiction; try (destruct B; discriminate);
      cbn [app fc_run fc_step inc_atomic reset_guarded reset_atomic andb negb at_reset bst ctr disc].
    - destruct (N.eqb_spec c 0) as [->|Hc]; cbn [app fc_run fc_step inc_atomic reset_guarded reset_atomic andb negb at_reset bst ctr disc]; auto.
    - auto.
    - auto. }
  destruct H as [H1 H2]. repeat split; [exact H1|exact H2|]. rewrite T', <- H2, <- S', H1. lia.
Qed.

(* refinement: whatever the micro-step machine does is a run of the atomic machine *)
Lemma fc_step_refines g s o : FcInv g s -> exists aops, a_run (abs s) aops = abs (fc_step (fl_good g) s o).
Proof.
  intros [R B S T]. destruct o; cbn [fc_step fl_good inc_atomic reset_guarded reset_atomic andb negb].
  - rewrite R. cbn [is_none]. exists [AInc]. reflexivity.
  - exists []. reflexivity.
  - rewrite R. exists []. reflexivity.
  - destruct (bst s) eqn:EB; [|exists []; reflexivity..].
    destruct g; [|exists []; reflexivity].
    destruct (ctr s =? 0) eqn:EC.
    + apply N.eqb_eq in EC. exists [AGetReset]. unfold abs. cbn. rewrite EC, N.add_0_r. reflexivity.
    + exists []. reflexivity.
  - destruct (at_reset (fl_good g) s); [exists [AGetReset]|exists []]; reflexivity.
  - exists []. reflexivity.
  - destruct (bst s) eqn:EB; [exists []; reflexivity..|contradiction].
Qed.

Lemma a_run_app s l1 l2 : a_run s (l1 ++ l2) = a_run (a_run s l1) l2.
Proof. revert s. induction l1 as [|o r IH]; intro s; cbn; [reflexivity|apply IH]. Qed.

Lemma fc_run_refines g ops : forall s, FcInv g s -> exists aops, a_run (abs s) aops = abs (fc_run (fl_good g) s ops).
Proof.
  induction ops as [|o r IH]; intros s I; cbn [fc_run].
  - exists []. reflexivity.
  - destruct (fc_step_refines g s o I) as [a1 E1].
    destruct (IH _ (fc_step_inv g s o I)) as [a2 E2].
    exists (a1 ++ a2). now rewrite a_run_app, E1.
Qed.

(* the atomic machine is exact (trivially: this is the shape of the M-BE invariant of BECount.v) *)
Lemma a_run_exact ops : forall s, a_rep s + a_ctr s = a_disc s -> nsum (a_rets s) = a_rep s ->
  let s' := a_run s ops in a_rep s' + a_ctr s' = a_disc s' /\ nsum (a_rets s') = a_rep s'.
Proof.
  induction ops as [|o r IH]; intros s H1 H2; cbn [a_run]; [auto|].
  apply IH; destruct o; cbn; try rewrite nsum_app; lia.
Qed.

(* ---------- the theorems *)

(* every schedule, atomic increment + atomic exchange, guarded or not *)
Theorem fc_exact : forall g ops,
  let fl := fl_good g in
  let s := fc_run fl fc0 ops in
  rep s + ctr s = disc s /\ nsum (rets s) = rep s /\
  (let d := fc_run fl s (get_and_reset_call fl) in ctr d = 0 /\ disc d = disc s /\ nsum (rets d) = disc s).
Proof.
  intros g ops fl s. pose proof (fc_run_inv g ops fc0 (fc0_inv g)) as I. fold fl in I. fold s in I.
  split; [apply (i_sum g s I)|]. split; [apply (i_rets g s I)|]. apply (fc_drain g s I).
Qed.

Theorem fc_refines_atomic : forall g ops, exists aops, a_run afc0 aops = abs (fc_run (fl_good g) fc0 ops).
Proof. intros g ops. exact (fc_run_refines g ops fc0 (fc0_inv g)). Qed.

(* selected by flags that are booleans read from the source *)
Theorem fc_exact_flags : forall fl ops, inc_atomic fl = true -> reset_atomic fl = true ->
  let s := fc_run fl fc0 ops in
  rep s + ctr s = disc s /\ nsum (rets s) = rep s /\
  (let d := fc_run fl s (get_and_reset_call fl) in ctr d = 0 /\ disc d = disc s /\ nsum (rets d) = disc s).
Proof.
  intros [i g r] ops Hi Hr. cbn in Hi, Hr. subst i r. exact (fc_exact g ops).
Qed.

(* split increment (load ; store +1): the exchange falls between the two, its reset is overwritten
   and the same statement is reported again *)
Definition fl_split_inc : fc_flags := {| inc_atomic := false; reset_guarded := true; reset_atomic := true |}.
Definition split_inc_schedule : list fop := [FLoad; FStore; FLoad; BGuard; BExchange; FStore].
Theorem fc_split_inc_refuted :
  let s := fc_run fl_split_inc fc0 split_inc_schedule in
  let d := fc_run fl_split_inc s (get_and_reset_call fl_split_inc) in
  disc s = 2 /\ rep s = 1 /\ ctr s = 2 /\ disc s < rep s + ctr s /\
  ctr d = 0 /\ disc d = 2 /\ rets d = [1; 2] /\ disc d < nsum (rets d).
Proof. vm_compute. repeat split; reflexivity. Qed.

(* split reset (load ; store 0): an increment between the two is overwritten and never reported *)
Definition fl_split_reset : fc_flags := {| inc_atomic := true; reset_guarded := true; reset_atomic := false |}.
Definition split_reset_schedule : list fop := [FInc; BGuard; BLoad; FInc; BStore].
Theorem fc_split_reset_refuted :
  let s := fc_run fl_split_reset fc0 split_reset_schedule in
  let d := fc_run fl_split_reset s (get_and_reset_call fl_split_reset) in
  disc s = 2 /\ rep s = 1 /\ ctr s = 0 /\ rep s + ctr s < disc s /\
  ctr d = 0 /\ disc d = 2 /\ rets d = [1; 0] /\ nsum (rets d) < disc d.
Proof. vm_compute. repeat split; reflexivity. Qed.

(* ---------- any number of contexts: a schedule over many contexts acts on each one as its own
   sub-schedule (independence), so every theorem above holds per context and for every sum *)
Lemma fupd_same f t x : fupd f t x t = x.
Proof. unfold fupd. now rewrite Nat.eqb_refl. Qed.
Lemma fupd_other f t x u : u <> t -> fupd f t x u = f u.
Proof. intro H. unfold fupd. destruct (Nat.eqb_spec u t); [contradiction|reflexivity]. Qed.

Lemma mfc_proj fl ops : forall M t, mfc_run fl M ops t = fc_run fl (M t) (ops_of t ops).
Proof.
  induction ops as [|[u o] r IH]; intros M t; [reflexivity|].
  cbn [mfc_run]. rewrite IH. unfold ops_of. cbn [filter fst].
  destruct (Nat.eqb_spec u t) as [->|Hne].
  - cbn [map snd fc_run]. unfold mfc_step. cbn [fst snd]. now rewrite fupd_same.
  - unfold mfc_step. cbn [fst snd]. rewrite fupd_other by congruence. reflexivity.
Qed.

Theorem mfc_exact : forall g ops l,
  let M := mfc_run (fl_good g) (fun _ => fc0) ops in
  (forall t, rep (M t) + ctr (M t) = disc (M t) /\ nsum (rets (M t)) = rep (M t)) /\
  tsum rep M l + tsum ctr M l = tsum disc M l.
Proof.
  intros g ops l M.
  assert (P : forall t, rep (M t) + ctr (M t) = disc (M t) /\ nsum (rets (M t)) = rep (M t)).
  { intro t. unfold M. rewrite mfc_proj. destruct (fc_exact g (ops_of t ops)) as (A & B & _). split; assumption. }
  split; [exact P|]. induction l as [|t r IH]; cbn [tsum]; [reflexivity|]. destruct (P t) as [A _]. lia.
Qed.

(* non-vacuity: a schedule of the source's protocol in which drops happen while the backend is inside
   get_and_reset (between its guard and its exchange) and everything is reported exactly once *)
Definition nonvacuous_schedule : list fop := [FInc; BGuard; FInc; BExchange; FInc; BGuard; BGuard; BExchange; BGuard].
Example fc_nonvacuous :
  let s := fc_run fl_src fc0 nonvacuous_schedule in
  disc s = 3 /\ rets s = [2; 1; 0] /\ ctr s = 0 /\ rep s = 3.
Proof. vm_compute. repeat split; reflexivity. Qed.
