(* C03 (registration clause: "threads logging for the first time"): the registration / cache-refresh
   protocol M-REG (Backend/RegProto.v) never loses a context, for every interleaving of its micro-steps,
   when register_thread_context appends under the lock before it raises the flag and the backend
   consumes the flag before it rebuilds its cache - whether the flag is consumed by one exchange or by a
   load followed by a separate store(false) (what the source has: the split is sound because the
   rebuild comes after the store, so whatever raised the flag before the store is already in the
   registry).  Witness schedules refute flag-before-append and rebuild-before-consume.  The micro-step
   machine refines the atomic machine of M-BE (FReg = append + flag in one step, refresh = consume +
   rebuild in one step), call by call: this is what justifies those atomic steps of Backend/BEDefs.v. *)
From Coq Require Import List Arith Bool Lia.
From Quill Require Import Backend.RegProto.
Import ListNotations.

Definition rfl_good (ca : bool) : rp_flags := {| append_first := true; consume_atomic := ca; consume_first := true |}.

(* ---------- lists *)
Lemma rmemb_true t l : rmemb t l = true <-> In t l.
Proof.
  unfold rmemb. rewrite existsb_exists. split.
  - intros (x & Hx & E). apply Nat.eqb_eq in E. now subst x.
  - intro H. exists t. split; [exact H|apply Nat.eqb_refl].
Qed.
Lemma rmemb_false t l : rmemb t l = false <-> ~ In t l.
Proof.
  rewrite <- rmemb_true. destruct (rmemb t l); split; intro H.
  - discriminate.
  - exfalso. now apply H.
  - intro; discriminate.
  - reflexivity.
Qed.

Lemma upto_split t l : In t l -> exists post, l = upto t l ++ post /\ In t (upto t l).
Proof.
  induction l as [|x r IH]; intro H; [destruct H|]. cbn [upto].
  destruct (Nat.eqb_spec x t) as [->|Hne].
  - exists r. split; [reflexivity|now left].
  - destruct H as [H|H]; [contradiction|]. destruct (IH H) as (post & E & I).
    exists post. split; [cbn [app]; now rewrite <- E|now right].
Qed.

Lemma skipn_app_exact {A} (l1 l2 : list A) : skipn (length l1) (l1 ++ l2) = l2.
Proof. induction l1 as [|x r IH]; [reflexivity|exact IH]. Qed.

(* a prefix of a duplicate-free list that contains all its elements is the whole list *)
Lemma prefix_all_eq (c suf : list nat) : NoDup (c ++ suf) -> (forall t, In t (c ++ suf) -> In t c) -> suf = [].
Proof.
  intros ND H. destruct suf as [|x r]; [reflexivity|exfalso].
  assert (I : In x c) by (apply H, in_or_app; right; now left).
  apply NoDup_remove_2 in ND. apply ND, in_or_app. now left.
Qed.

(* ---------- the invariant of the good protocol *)
Record RpInv (ca : bool) (s : rp) : Prop := {
  i_nodup : NoDup (reg s);
  i_areg : exists suf, reg s = areg s ++ suf;                 (* effective registrations: a prefix of the registry *)
  i_cache : exists suf, areg s = cache s ++ suf;              (* the cache: a prefix of those (an earlier snapshot) *)
  i_flagged : forall t, In t (flagged s) -> In t (areg s);    (* append precedes flag; a flagged registration is in effect *)
  i_cover : forall t, In t (flagged s) ->
            In t (cache s) \/ flag s = true \/ rbst s = RSaw \/ rbst s = RCleared;   (* cached, or a rebuild is due *)
  i_bst : match rbst s with RIdle | RCleared => True | RSaw => ca = false | RRebuilt => False end;
  i_aflag1 : aflag s = true -> flag s = true \/ rbst s = RSaw \/ rbst s = RCleared;
  i_aflag0 : aflag s = false -> cache s = areg s
}.

Lemma rp0_inv ca : RpInv ca rp0.
Proof.
  constructor; cbn; auto; try (now exists []); try constructor; try contradiction; discriminate.
Qed.

Ltac rsimpl := cbn [rp_step rfl_good append_first consume_atomic consume_first consume_at after_consume rebuild_at
                    after_rebuild andb orb negb rbpc_eqb reg flag cache flagged rbst areg aflag].

Lemma NoDup_snoc (l : list nat) t : NoDup l -> ~ In t l -> NoDup (l ++ [t]).
Proof.
  induction l as [|y l IH]; intros ND Em; cbn [app].
  - constructor; [intros []|constructor].
  - inversion ND as [|? ? N1 N2]; subst. constructor.
    + rewrite in_app_iff. intros [H|[H|[]]]; [contradiction|]. apply Em. now left.
    + apply IH; [exact N2|]. intro H. apply Em. now right.
Qed.

Lemma rp_step_inv ca s o : RpInv ca s -> RpInv ca (rp_step (rfl_good ca) s o).
Proof.
  intros [ND [sa Ea] [sc Ec] Fl Cv Bs A1 A0]. destruct o as [t|t| | | |]; rsimpl.
  - (* FAppend t *)
    destruct (rmemb t (reg s)) eqn:Em; rsimpl; [constructor; eauto|].
    apply rmemb_false in Em.
    constructor; rsimpl; eauto.
    + now apply NoDup_snoc.
    + exists (sa ++ [t]). now rewrite Ea, app_assoc.
  - (* FFlag t *)
    destruct (rmemb t (flagged s)) eqn:Ef; rsimpl; [constructor; eauto|].
    destruct (rmemb t (reg s)) eqn:Er; rsimpl; [|constructor; eauto].
    rewrite orb_false_r.
    destruct (rmemb t (areg s)) eqn:Eg.
    + apply rmemb_true in Eg.
      constructor; rsimpl; eauto.
      * intros u [<-|H]; auto.
    + apply rmemb_true in Er. apply rmemb_false in Eg.
      assert (It : In t sa).
      { rewrite Ea in Er. apply in_app_or in Er. destruct Er; [contradiction|assumption]. }
      rewrite Ea in ND |- *. rewrite skipn_app_exact.
      destruct (upto_split t sa It) as (post & Es & Iu).
      constructor; rsimpl; eauto.
      * exists post. now rewrite <- app_assoc, <- Es.
      * exists (sc ++ upto t sa). now rewrite Ec, app_assoc.
      * intros u [<-|H]; apply in_or_app; [now right|left; auto].
      * discriminate.
  - (* BLoad *)
    destruct ca; rsimpl; [constructor; eauto|].
    destruct (rbst s) eqn:Eb; rsimpl; try solve [constructor; rewrite ?Eb; eauto].
    destruct (flag s) eqn:Efl; rsimpl; [|constructor; rewrite ?Eb, ?Efl; eauto].
    constructor; rsimpl; eauto.
  - (* BStore *)
    destruct ca; rsimpl; [constructor; eauto|].
    destruct (rbst s) eqn:Eb; rsimpl; try solve [constructor; rewrite ?Eb; eauto].
    constructor; rsimpl; eauto.
  - (* BExchange *)
    destruct ca; rsimpl; [|constructor; eauto].
    destruct (rbst s) eqn:Eb; rsimpl; try solve [constructor; rewrite ?Eb; eauto].
    destruct (flag s) eqn:Efl; rsimpl; [|constructor; rewrite ?Eb, ?Efl; eauto].
    constructor; rsimpl; eauto.
  - (* BRebuild *)
    destruct (rbst s) eqn:Eb; rsimpl; try solve [constructor; rewrite ?Eb; eauto].
    constructor; rsimpl; eauto.
    + exists []. now rewrite app_nil_r.
    + exists []. now rewrite app_nil_r.
    + intros u H. rewrite Ea. apply in_or_app. left. auto.
    + intros u H. left. rewrite Ea. apply in_or_app. left. auto.
    + discriminate.
Qed.

Lemma NoDup_app_remove_r (l1 l2 : list nat) : NoDup (l1 ++ l2) -> NoDup l1.
Proof.
  induction l1 as [|x r IH]; cbn [app]; intro ND; [constructor|].
  inversion ND as [|? ? N1 N2]; subst. constructor; [|auto].
  intro H. apply N1, in_or_app. now left.
Qed.

Lemma rp_run_inv ca ops : forall s, RpInv ca s -> RpInv ca (rp_run (rfl_good ca) s ops).
Proof. induction ops as [|o r IH]; intros s I; cbn [rp_run]; [exact I|]. apply IH. now apply rp_step_inv. Qed.

Lemma rp_run_app fl l1 l2 : forall s, rp_run fl s (l1 ++ l2) = rp_run fl (rp_run fl s l1) l2.
Proof. induction l1 as [|o r IH]; intro s; cbn [app rp_run]; [reflexivity|apply IH]. Qed.

(* in every reachable state: the cache is a duplicate-free prefix of the registry *)
Lemma inv_cache_prefix ca s : RpInv ca s -> NoDup (cache s) /\ exists suf, reg s = cache s ++ suf.
Proof.
  intros [ND [sa Ea] [sc Ec] _ _ _ _ _]. split.
  - rewrite Ea, Ec, <- app_assoc in ND. now apply NoDup_app_remove_r in ND.
  - exists (sc ++ sa). now rewrite Ea, Ec, app_assoc.
Qed.

(* one whole refresh call, from any reachable state (the backend may be inside a call already), with
   nothing in between: every registration whose flag store is done is cached afterwards, and if no
   registration is half-way the cache is the whole registry *)
Lemma rp_drain ca s : RpInv ca s ->
  let fl := rfl_good ca in
  let d := rp_run fl s (refresh_call fl) in
  reg d = reg s /\ flagged d = flagged s /\
  (forall t, In t (flagged s) -> In t (cache d)) /\
  ((forall t, In t (reg s) -> In t (flagged s)) -> cache d = reg s /\ rbst d = RIdle).
Proof.
  intros I fl d.
  pose proof I as [ND [sa Ea] [sc Ec] Fl Cv Bs A1 A0].
  assert (Freg : forall t, In t (flagged s) -> In t (reg s)).
  { intros t H. rewrite Ea. apply in_or_app. left. auto. }
  (* either the call ends with a rebuild, or it finds the flag false at the idle stage and changes nothing *)
  assert (H : (reg d = reg s /\ flagged d = flagged s /\ cache d = reg s /\ rbst d = RIdle) \/
              (d = s /\ flag s = false /\ rbst s = RIdle)).
  { unfold d, fl, refresh_call. clear d fl I ND Ea Ec Fl Cv A1 A0 Freg.
    destruct s as [r f c fg b ar af]. cbn [rbst] in Bs.
    destruct ca; destruct b; try contradiction; try discriminate; destruct f;
      cbn [rfl_good consume_first consume_atomic rp_run];
      rsimpl; auto. }
  destruct H as [(H1 & H2 & H3 & H4)|(H1 & H2 & H3)].
  - repeat split; auto. intros t Ht. rewrite H3. auto.
  - rewrite H1. split; [reflexivity|]. split; [reflexivity|]. split.
    + intros t Ht. destruct (Cv t Ht) as [C|[C|[C|C]]]; [exact C|congruence..].
    + intro H. split; [|exact H3].
      destruct (inv_cache_prefix ca s I) as [_ [suf Es]].
      assert (suf = []) as ->.
      { apply (prefix_all_eq (cache s) suf); [now rewrite <- Es|].
        intros t Ht. rewrite <- Es in Ht. destruct (Cv t (H t Ht)) as [C|[C|[C|C]]]; [exact C|congruence..]. }
      now rewrite app_nil_r in Es.
Qed.

(* once cached, always cached (this model has no removal) *)
Lemma rp_step_cache_mono ca s o t : RpInv ca s -> In t (cache s) -> In t (cache (rp_step (rfl_good ca) s o)).
Proof.
  intros I H. destruct (inv_cache_prefix ca s I) as [_ [suf Es]].
  destruct o as [u|u| | | |]; rsimpl;
    repeat match goal with |- context [if ?c then _ else _] => destruct c end; rsimpl; auto.
  rewrite Es. apply in_or_app. now left.
Qed.

Lemma rp_run_cache_mono ca ops : forall s t, RpInv ca s -> In t (cache s) -> In t (cache (rp_run (rfl_good ca) s ops)).
Proof.
  induction ops as [|o r IH]; intros s t I H; cbn [rp_run]; [exact H|].
  apply IH; [now apply rp_step_inv|now apply rp_step_cache_mono].
Qed.

(* ---------- refinement: every micro-step is the atomic steps of its linearisation *)
Lemma ra_run_app s l1 l2 : ra_run s (l1 ++ l2) = ra_run (ra_run s l1) l2.
Proof. revert s. induction l1 as [|o r IH]; intro s; cbn [app ra_run]; [reflexivity|apply IH]. Qed.

(* registering fresh contexts one by one *)
Lemma ra_run_regs new : forall r f c, NoDup (r ++ new) ->
  ra_run {| a_reg := r; a_flag := f; a_cache := c |} (map AReg new) =
  {| a_reg := r ++ new; a_flag := (match new with [] => f | _ => true end); a_cache := c |}.
Proof.
  induction new as [|x n IH]; intros r f c ND; cbn [map ra_run].
  - now rewrite app_nil_r.
  - cbn [ra_step a_reg a_flag a_cache].
    assert (Hx : rmemb x r = false).
    { apply rmemb_false. intro H. apply NoDup_remove_2 in ND. apply ND, in_or_app. now left. }
    rewrite Hx. rewrite IH.
    + rewrite <- app_assoc. cbn [app]. now destruct n.
    + now rewrite <- app_assoc.
Qed.

Lemma rp_step_refines ca s o : RpInv ca s ->
  ra_run (rabs s) (rp_lin (rfl_good ca) s o) = rabs (rp_step (rfl_good ca) s o).
Proof.
  intros [ND [sa Ea] [sc Ec] Fl Cv Bs A1 A0].
  destruct o as [t|t| | | |]; cbn [rp_lin]; rsimpl.
  - (* FAppend *) destruct (rmemb t (reg s)); reflexivity.
  - (* FFlag *)
    destruct (rmemb t (flagged s)) eqn:Ef; rsimpl; [reflexivity|].
    destruct (rmemb t (reg s)) eqn:Er; rsimpl; [|reflexivity].
    rewrite orb_false_r. destruct (rmemb t (areg s)) eqn:Eg; [reflexivity|].
    apply rmemb_true in Er. apply rmemb_false in Eg.
    assert (It : In t sa).
    { rewrite Ea in Er. apply in_app_or in Er. destruct Er; [contradiction|assumption]. }
    rewrite Ea in ND |- *. rewrite skipn_app_exact.
    destruct (upto_split t sa It) as (post & Es & Iu).
    unfold rabs. cbn [reg flag cache flagged rbst areg aflag]. rewrite ra_run_regs.
    + destruct (upto t sa); [destruct Iu|reflexivity].
    + rewrite Es, app_assoc in ND. now apply NoDup_app_remove_r in ND.
  - (* BLoad *)
    destruct ca; rsimpl; [reflexivity|].
    destruct (rbst s) eqn:Eb; rsimpl; try reflexivity.
    destruct (flag s) eqn:Efl; rsimpl; [reflexivity|].
    cbn [ra_run ra_step rabs a_flag].
    destruct (aflag s) eqn:Eaf; [|reflexivity].
    destruct (A1 eq_refl) as [C|[C|C]]; discriminate.
  - (* BStore *)
    destruct ca; rsimpl; [reflexivity|]. destruct (rbst s); reflexivity.
  - (* BExchange *)
    destruct ca; rsimpl; [|reflexivity].
    destruct (rbst s) eqn:Eb; rsimpl; try reflexivity.
    destruct (flag s) eqn:Efl; rsimpl; [reflexivity|].
    cbn [ra_run ra_step rabs a_flag].
    destruct (aflag s) eqn:Eaf; [|reflexivity].
    destruct (A1 eq_refl) as [C|[C|C]]; discriminate.
  - (* BRebuild *)
    destruct (rbst s) eqn:Eb; rsimpl; try reflexivity.
    rewrite Ea in ND |- *. rewrite skipn_app_exact, ra_run_app.
    unfold rabs. cbn [reg flag cache flagged rbst areg aflag]. rewrite ra_run_regs by exact ND.
    cbn [ra_run ra_step a_flag a_reg a_cache].
    destruct sa as [|x sa'].
    + rewrite app_nil_r. destruct (aflag s) eqn:Eaf; [reflexivity|].
      rewrite (A0 eq_refl). reflexivity.
    + reflexivity.
Qed.

Lemma rp_run_refines ca ops : forall s, RpInv ca s ->
  ra_run (rabs s) (rp_trace (rfl_good ca) s ops) = rabs (rp_run (rfl_good ca) s ops).
Proof.
  induction ops as [|o r IH]; intros s I; cbn [rp_trace rp_run ra_run]; [reflexivity|].
  rewrite ra_run_app, (rp_step_refines ca s o I). apply IH. now apply rp_step_inv.
Qed.

(* the trace registers exactly the effective registrations, in registry order, and has one ARefresh per
   completed refresh call *)
Lemma regs_of_app l1 l2 : regs_of (l1 ++ l2) = regs_of l1 ++ regs_of l2.
Proof. induction l1 as [|[t|] r IH]; cbn [app regs_of]; [reflexivity|now rewrite IH|exact IH]. Qed.
Lemma regs_of_map l : regs_of (map AReg l) = l.
Proof. induction l as [|x r IH]; cbn [map regs_of]; [reflexivity|now rewrite IH]. Qed.
Lemma refreshes_of_app l1 l2 : refreshes_of (l1 ++ l2) = refreshes_of l1 + refreshes_of l2.
Proof. induction l1 as [|[t|] r IH]; cbn [app refreshes_of]; [reflexivity|exact IH|now rewrite IH]. Qed.
Lemma refreshes_of_map l : refreshes_of (map AReg l) = 0.
Proof. induction l as [|x r IH]; cbn [map refreshes_of]; [reflexivity|exact IH]. Qed.

Lemma rp_step_regs ca s o : RpInv ca s ->
  areg (rp_step (rfl_good ca) s o) = areg s ++ regs_of (rp_lin (rfl_good ca) s o).
Proof.
  intros [ND [sa Ea] [sc Ec] Fl Cv Bs A1 A0].
  destruct o as [t|t| | | |]; cbn [rp_lin]; rsimpl;
    repeat match goal with |- context [if ?c then _ else _] => destruct c eqn:? end; rsimpl;
    cbn [regs_of]; rewrite ?app_nil_r; try reflexivity.
  - now rewrite regs_of_map.
  - rewrite regs_of_app, regs_of_map. cbn [regs_of]. rewrite app_nil_r.
    rewrite Ea at 2. now rewrite skipn_app_exact.
Qed.

Lemma rp_run_regs ca ops : forall s, RpInv ca s ->
  areg (rp_run (rfl_good ca) s ops) = areg s ++ regs_of (rp_trace (rfl_good ca) s ops).
Proof.
  induction ops as [|o r IH]; intros s I; cbn [rp_trace rp_run regs_of]; [now rewrite app_nil_r|].
  rewrite regs_of_app, app_assoc, <- (rp_step_regs ca s o I). apply IH. now apply rp_step_inv.
Qed.

Lemma rp_trace_refreshes fl ops : forall s, refreshes_of (rp_trace fl s ops) = calls_done fl s ops.
Proof.
  induction ops as [|o r IH]; intro s; cbn [rp_trace calls_done refreshes_of]; [reflexivity|].
  rewrite refreshes_of_app, IH. f_equal.
  destruct o as [t|t| | | |]; cbn [rp_lin];
    repeat match goal with |- context [if ?c then _ else _] => destruct c end;
    rewrite ?refreshes_of_app, ?refreshes_of_map; reflexivity.
Qed.

(* ---------- the theorems *)

(* every schedule; append before flag, consumed before the rebuild, by one exchange or by load ; store *)
Theorem rp_no_lost : forall ca ops,
  let fl := rfl_good ca in
  let s := rp_run fl rp0 ops in
  (* the cache is a duplicate-free prefix of the duplicate-free registry *)
  NoDup (reg s) /\ NoDup (cache s) /\ (exists suf, reg s = cache s ++ suf) /\
  (* a registration whose flag store is done is in the registry, and cached or a rebuild is due *)
  (forall t, In t (flagged s) ->
     In t (reg s) /\ (In t (cache s) \/ flag s = true \/ rbst s = RSaw \/ rbst s = RCleared)) /\
  (* so one more refresh call caches it, for good *)
  (let d := rp_run fl s (refresh_call fl) in
   reg d = reg s /\
   (forall t, In t (flagged s) -> forall more, In t (cache (rp_run fl d more))) /\
   ((forall t, In t (reg s) -> In t (flagged s)) -> cache d = reg s)).
Proof.
  intros ca ops fl s.
  pose proof (rp_run_inv ca ops rp0 (rp0_inv ca)) as I. fold fl in I. fold s in I.
  destruct (inv_cache_prefix ca s I) as [NC PC].
  split; [apply (i_nodup ca s I)|]. split; [exact NC|]. split; [exact PC|]. split.
  - intros t Ht. split; [|apply (i_cover ca s I t Ht)].
    destruct (i_areg ca s I) as [sa Ea]. rewrite Ea. apply in_or_app. left. apply (i_flagged ca s I t Ht).
  - destruct (rp_drain ca s I) as (D1 & D2 & D3 & D4). fold fl in D1, D2, D3, D4.
    split; [exact D1|]. split.
    + intros t Ht more. apply rp_run_cache_mono; [apply rp_run_inv; exact I|auto].
    + intro H. apply D4, H.
Qed.

(* selected by flags that are booleans read from the source *)
Theorem rp_no_lost_flags : forall fl ops, append_first fl = true -> consume_first fl = true ->
  let s := rp_run fl rp0 ops in
  NoDup (reg s) /\ NoDup (cache s) /\ (exists suf, reg s = cache s ++ suf) /\
  (forall t, In t (flagged s) ->
     In t (reg s) /\ (In t (cache s) \/ flag s = true \/ rbst s = RSaw \/ rbst s = RCleared)) /\
  (let d := rp_run fl s (refresh_call fl) in
   reg d = reg s /\
   (forall t, In t (flagged s) -> forall more, In t (cache (rp_run fl d more))) /\
   ((forall t, In t (reg s) -> In t (flagged s)) -> cache d = reg s)).
Proof. intros [a c f] ops Ha Hf. cbn in Ha, Hf. subst a f. exact (rp_no_lost c ops). Qed.

(* all registrations of a schedule completed + one refresh call: cache = registry = the contexts in
   append order *)
Corollary rp_complete : forall ca ops,
  let fl := rfl_good ca in
  let s := rp_run fl rp0 ops in
  (forall t, In t (reg s) -> In t (flagged s)) ->
  cache (rp_run fl s (refresh_call fl)) = reg s.
Proof. intros ca ops fl s H. destruct (rp_no_lost ca ops) as (_ & _ & _ & _ & _ & _ & D). exact (D H). Qed.

(* the micro-step machine is the atomic machine of M-BE, call by call: the atomic trace reaches the
   abstraction of the micro state, registers exactly the effective registrations in registry order
   (all of the registry once no registration is half-way: a flagged registration is effective), and
   has one ARefresh per completed refresh call *)
Theorem rp_refines_atomic : forall ca ops,
  let fl := rfl_good ca in
  let s := rp_run fl rp0 ops in
  let tr := rp_trace fl rp0 ops in
  ra_run arp0 tr = rabs s /\
  regs_of tr = areg s /\ NoDup (regs_of tr) /\
  refreshes_of tr = calls_done fl rp0 ops /\
  (exists suf, reg s = areg s ++ suf /\ forall t, In t suf -> ~ In t (flagged s)) /\
  (exists suf, areg s = cache s ++ suf).
Proof.
  intros ca ops fl s tr.
  pose proof (rp_run_inv ca ops rp0 (rp0_inv ca)) as I. fold fl in I. fold s in I.
  split; [exact (rp_run_refines ca ops rp0 (rp0_inv ca))|].
  assert (E : regs_of tr = areg s) by (unfold s, tr, fl; now rewrite (rp_run_regs ca ops rp0 (rp0_inv ca))).
  split; [exact E|]. split.
  - rewrite E. destruct (i_areg ca s I) as [sa Ea]. pose proof (i_nodup ca s I) as ND.
    rewrite Ea in ND. now apply NoDup_app_remove_r in ND.
  - split; [apply rp_trace_refreshes|]. split; [|apply (i_cache ca s I)].
    destruct (i_areg ca s I) as [sa Ea]. exists sa. split; [exact Ea|].
    intros t Hs Hf. pose proof (i_nodup ca s I) as ND. rewrite Ea in ND.
    apply (i_flagged ca s I) in Hf. clear - ND Hs Hf.
    induction (areg s) as [|x r IH]; [destruct Hf|]. cbn [app] in ND. inversion ND as [|? ? N1 N2]; subst.
    destruct Hf as [->|Hf]; [apply N1, in_or_app; now right|auto].
Qed.

(* the atomic machine never loses a registration (the shape of what M-BE's proofs use): flag false ->
   cache = registry *)
Lemma ra_run_exact ops : forall s, (a_flag s = false -> a_cache s = a_reg s) ->
  let s' := ra_run s ops in a_flag s' = false -> a_cache s' = a_reg s'.
Proof.
  induction ops as [|o r IH]; intros s H; cbn [ra_run]; [exact H|]. apply IH.
  destruct o as [t|]; cbn [ra_step].
  - destruct (rmemb t (a_reg s)); [exact H|cbn; discriminate].
  - destruct (a_flag s) eqn:E; [reflexivity|intros _; now apply H].
Qed.

(* ---------- refutations *)
Lemma refresh_fixpoint fl s : rp_run fl s (refresh_call fl) = s -> forall n, rp_run fl s (refresh_calls fl n) = s.
Proof. intros H n. induction n as [|k IH]; cbn [refresh_calls]; [reflexivity|]. now rewrite rp_run_app, H. Qed.

(* flag before append (the "LockGuard clean-up" of register_thread_context): the backend consumes the
   flag and rebuilds its cache between the two steps; the context is registered, its registration is
   complete, the flag is down, and no later refresh call ever caches it *)
Definition rfl_flag_first (ca : bool) : rp_flags := {| append_first := false; consume_atomic := ca; consume_first := true |}.
Definition flag_first_schedule (ca : bool) : list rop := [FFlag 0] ++ refresh_call (rfl_flag_first ca) ++ [FAppend 0].
Theorem rp_flag_first_refuted : forall ca,
  let fl := rfl_flag_first ca in
  let s := rp_run fl rp0 (flag_first_schedule ca) in
  reg s = [0] /\ flagged s = [0] /\ cache s = [] /\ flag s = false /\ rbst s = RIdle /\
  forall n, let d := rp_run fl s (refresh_calls fl n) in reg d = [0] /\ cache d = [].
Proof.
  intros ca fl s.
  assert (F : rp_run fl s (refresh_call fl) = s) by (destruct ca; vm_compute; reflexivity).
  repeat split; try (destruct ca; vm_compute; reflexivity);
    rewrite (refresh_fixpoint fl s F n); destruct ca; vm_compute; reflexivity.
Qed.

(* rebuild before the flag is cleared: a registration that completes between the rebuild and the clear
   is wiped out with the flag *)
Definition rfl_rebuild_first (ca : bool) : rp_flags := {| append_first := true; consume_atomic := ca; consume_first := false |}.
Definition rebuild_first_schedule (ca : bool) : list rop :=
  [FAppend 0; FFlag 0; BLoad; BRebuild; FAppend 1; FFlag 1; if ca then BExchange else BStore].
Theorem rp_rebuild_first_refuted : forall ca,
  let fl := rfl_rebuild_first ca in
  let s := rp_run fl rp0 (rebuild_first_schedule ca) in
  reg s = [0; 1] /\ flagged s = [1; 0] /\ cache s = [0] /\ flag s = false /\ rbst s = RIdle /\
  forall n, let d := rp_run fl s (refresh_calls fl n) in reg d = [0; 1] /\ cache d = [0].
Proof.
  intros ca fl s.
  assert (F : rp_run fl s (refresh_call fl) = s) by (destruct ca; vm_compute; reflexivity).
  repeat split; try (destruct ca; vm_compute; reflexivity);
    rewrite (refresh_fixpoint fl s F n); destruct ca; vm_compute; reflexivity.
Qed.

(* non-vacuity: a schedule of the source's protocol (load ; store) in which a second registration
   completes between the backend's load and its store (its flag write is overwritten) and a third one
   is appended between the store and the rebuild and flagged afterwards; nothing is lost, the third
   context is picked up early, the late flag costs one redundant rebuild *)
Definition rp_nonvacuous_schedule : list rop :=
  [FAppend 0; FFlag 0; BLoad; FAppend 1; FFlag 1; BStore; FAppend 2; BRebuild; BLoad; FFlag 2; BLoad; BStore; BRebuild; BLoad].
Example rp_nonvacuous :
  let s := rp_run rfl_src rp0 rp_nonvacuous_schedule in
  reg s = [0; 1; 2] /\ cache s = [0; 1; 2] /\ flag s = false /\ rbst s = RIdle /\
  cache (rp_run rfl_src rp0 (firstn 8 rp_nonvacuous_schedule)) = [0; 1; 2] /\
  rp_trace rfl_src rp0 rp_nonvacuous_schedule = [AReg 0; AReg 1; AReg 2; ARefresh; ARefresh; ARefresh; ARefresh] /\
  calls_done rfl_src rp0 rp_nonvacuous_schedule = 4.
Proof. vm_compute. repeat split; reflexivity. Qed.

(* ---------- the atomic machine IS the registration / refresh part of M-BE: on the projection
   (registered, newflag, cache) of an M-BE state, fstep (FReg t) of a live thread is AReg t and refresh is
   ARefresh (the other fields refresh touches - the transit buffers it creates - are not part of this
   protocol) *)
From Quill Require Backend.BEDefs.
Definition be_proj (s : BEDefs.st) : arp :=
  {| a_reg := BEDefs.registered s; a_flag := BEDefs.newflag s; a_cache := BEDefs.cache s |}.
Lemma be_freg_is_areg K s t : BEDefs.tvalid (BEDefs.th s t) = true ->
  be_proj (BEDefs.fstep K s (BEDefs.FReg t)) = ra_step (be_proj s) (AReg t).
Proof.
  intro V. cbn [BEDefs.fstep ra_step be_proj a_reg a_flag a_cache]. rewrite V. cbn [negb]. rewrite orb_false_r.
  change (BEDefs.memb t (BEDefs.registered s)) with (rmemb t (BEDefs.registered s)).
  destruct (rmemb t (BEDefs.registered s)); reflexivity.
Qed.
Lemma be_refresh_is_arefresh K s : be_proj (BEDefs.refresh K s) = ra_step (be_proj s) ARefresh.
Proof.
  unfold BEDefs.refresh. cbn [ra_step be_proj a_reg a_flag a_cache].
  destruct (BEDefs.newflag s); reflexivity.
Qed.
