(* M-FC: the per-thread failure counter protocol of quill::detail::ThreadContext
   (include/quill/core/ThreadContextManager.h) at micro-step granularity.  Definitions only.

     void increment_failure_counter()        { _failure_counter.fetch_add(1, relaxed); }        (frontend)
     size_t get_and_reset_failure_counter()  { if (_failure_counter.load(relaxed) == 0) return 0;
                                               return _failure_counter.exchange(0, relaxed); }    (backend)

   One frontend thread (the owner of the context) and the backend thread act on ONE atomic object.
   All operations on a single atomic object are totally ordered (its modification order), a
   read-modify-write reads the value immediately before its own write in that order whatever memory
   order it is given, and a plain load by the backend returns a value not older than the backend's own
   last write; so for this single location a sequentially consistent interleaving of the micro-steps
   below is faithful for every memory_order argument (relaxed is what the code uses).  A stale value
   returned by the guard's load is the same as scheduling the guard earlier.

   The flags say what the source looks like (selected by tools/srcfacts.py, see TieC08.v):
     inc_atomic     the increment is one atomic read-modify-write (FInc); otherwise it is the pair
                    load (FLoad) ; store of the loaded value + 1 (FStore)
     reset_guarded  get_and_reset starts with "if (load == 0) return 0" (BGuard)
     reset_atomic   the reset is one atomic exchange(0) (BExchange); otherwise load (BLoad) ; store 0 (BStore)

   Ghosts: disc = statements discarded so far (a statement counts from the moment its increment call
   starts: FInc or FLoad), rep = sum of the values returned by get_and_reset (what
   BackendWorker::_check_failure_counter passes to the error notifier), rets = those values in order.

   The counter is an unbounded N: the wrap of size_t after 2^64 discarded statements between two
   reports is outside the model. *)
From Coq Require Import List NArith Bool.
Import ListNotations.
Local Open Scope N_scope.

Record fc_flags := { inc_atomic : bool; reset_guarded : bool; reset_atomic : bool }.

(* where the backend is inside get_and_reset_failure_counter *)
Inductive bpc := BIdle | BPassed | BLoaded (v : N).

Record fc := {
  ctr : N;              (* _failure_counter *)
  freg : option N;      (* frontend register: Some v between the load and the store of a split increment *)
  bst : bpc;
  disc : N;             (* ghost *)
  rep : N;              (* ghost *)
  rets : list N         (* ghost *)
}.

Definition fc0 : fc := {| ctr := 0; freg := None; bst := BIdle; disc := 0; rep := 0; rets := [] |}.

(* micro-steps; a step that is not enabled (wrong flag, or out of program order) leaves the state
   unchanged, so that every list of steps is a schedule and program order is respected by construction *)
Inductive fop := FInc | FLoad | FStore | BGuard | BExchange | BLoad | BStore.

(* the backend is at the reset stage of get_and_reset *)
Definition at_reset (fl : fc_flags) (s : fc) : bool :=
  match bst s with
  | BIdle => negb (reset_guarded fl)
  | BPassed => true
  | BLoaded _ => false
  end.

Definition is_none {A} (o : option A) : bool := match o with None => true | Some _ => false end.

Definition fc_step (fl : fc_flags) (s : fc) (o : fop) : fc :=
  match o with
  | FInc =>
      if inc_atomic fl && is_none (freg s)
      then {| ctr := ctr s + 1; freg := None; bst := bst s; disc := disc s + 1; rep := rep s; rets := rets s |}
      else s
  | FLoad =>
      if negb (inc_atomic fl) && is_none (freg s)
      then {| ctr := ctr s; freg := Some (ctr s); bst := bst s; disc := disc s + 1; rep := rep s; rets := rets s |}
      else s
  | FStore =>
      match freg s with
      | Some v => {| ctr := v + 1; freg := None; bst := bst s; disc := disc s; rep := rep s; rets := rets s |}
      | None => s
      end
  | BGuard =>
      match bst s with
      | BIdle =>
          if reset_guarded fl then
            if ctr s =? 0
            then {| ctr := ctr s; freg := freg s; bst := BIdle; disc := disc s; rep := rep s; rets := rets s ++ [0] |}   (* return 0 *)
            else {| ctr := ctr s; freg := freg s; bst := BPassed; disc := disc s; rep := rep s; rets := rets s |}
          else s
      | _ => s
      end
  | BExchange =>
      if reset_atomic fl && at_reset fl s
      then {| ctr := 0; freg := freg s; bst := BIdle; disc := disc s; rep := rep s + ctr s; rets := rets s ++ [ctr s] |}
      else s
  | BLoad =>
      if negb (reset_atomic fl) && at_reset fl s
      then {| ctr := ctr s; freg := freg s; bst := BLoaded (ctr s); disc := disc s; rep := rep s; rets := rets s |}
      else s
  | BStore =>
      match bst s with
      | BLoaded v => {| ctr := 0; freg := freg s; bst := BIdle; disc := disc s; rep := rep s + v; rets := rets s ++ [v] |}
      | _ => s
      end
  end.

Fixpoint fc_run (fl : fc_flags) (s : fc) (ops : list fop) : fc :=
  match ops with
  | [] => s
  | o :: r => fc_run fl (fc_step fl s o) r
  end.

Fixpoint nsum (l : list N) : N := match l with [] => 0 | x :: r => x + nsum r end.

(* the source as it is: atomic increment, guard, atomic exchange *)
Definition fl_src : fc_flags := {| inc_atomic := true; reset_guarded := true; reset_atomic := true |}.
(* one whole call of get_and_reset_failure_counter with nothing in between *)
Definition get_and_reset_call (fl : fc_flags) : list fop :=
  (if reset_guarded fl then [BGuard] else []) ++ (if reset_atomic fl then [BExchange] else [BLoad; BStore]).

(* ---------- the atomic machine: what M-BE (Backend/BEDefs.v) uses. One step per call:
   AInc = failc + 1 (fstep, refused reservation), AGetReset = "if failc = 0 then nothing else report
   failc and set it to 0" (report_failures). *)
Inductive aop := AInc | AGetReset.
Record afc := { a_ctr : N; a_disc : N; a_rep : N; a_rets : list N }.
Definition afc0 : afc := {| a_ctr := 0; a_disc := 0; a_rep := 0; a_rets := [] |}.
Definition a_step (s : afc) (o : aop) : afc :=
  match o with
  | AInc => {| a_ctr := a_ctr s + 1; a_disc := a_disc s + 1; a_rep := a_rep s; a_rets := a_rets s |}
  | AGetReset => {| a_ctr := 0; a_disc := a_disc s; a_rep := a_rep s + a_ctr s; a_rets := a_rets s ++ [a_ctr s] |}
  end.
Fixpoint a_run (s : afc) (ops : list aop) : afc :=
  match ops with [] => s | o :: r => a_run (a_step s o) r end.
Definition abs (s : fc) : afc := {| a_ctr := ctr s; a_disc := disc s; a_rep := rep s; a_rets := rets s |}.

(* ---------- any number of thread contexts: each micro-step names the context it acts on (the
   frontend steps of context t are taken by thread t, the backend steps by the one backend thread,
   which is inside at most one get_and_reset call at a time in the code; the model does not even
   need that restriction) *)
Definition fupd (f : nat -> fc) (t : nat) (x : fc) : nat -> fc := fun u => if Nat.eqb u t then x else f u.
Definition mfc_step (fl : fc_flags) (M : nat -> fc) (o : nat * fop) : nat -> fc :=
  fupd M (fst o) (fc_step fl (M (fst o)) (snd o)).
Fixpoint mfc_run (fl : fc_flags) (M : nat -> fc) (ops : list (nat * fop)) : nat -> fc :=
  match ops with [] => M | o :: r => mfc_run fl (mfc_step fl M o) r end.
Fixpoint tsum (g : fc -> N) (M : nat -> fc) (l : list nat) : N :=
  match l with [] => 0 | t :: r => g (M t) + tsum g M r end.
(* the steps of a schedule that act on context t, in order *)
Definition ops_of (t : nat) (ops : list (nat * fop)) : list fop :=
  map snd (filter (fun o => Nat.eqb (fst o) t) ops).
