(* C20: thread contexts of exited threads - the dead-context counter tracks the number of registered
   contexts whose thread has exited (mod 2^bits), contexts are removed only when dead and drained, and
   removal is triggered exactly when the counter is non-zero. *)
From Coq Require Import List NArith Arith Bool Lia.
From Quill Require Import Queue.BQDefs Backend.BEDefs Backend.BEInv Backend.BECount.
Import ListNotations.
Local Open Scope N_scope.

Section Ctx.
Variable K : cfg.
Notation M := (2 ^ c_bits K).

Fixpoint ndead (f : nat -> thr) (l : list nat) : N :=
  match l with [] => 0 | u :: r => (if tvalid (f u) then 0 else 1) + ndead f r end.

(* steps that touch neither validity flags, nor the registry, nor the counter *)
Definition vsame (s s' : st) : Prop :=
  (forall u, tvalid (th s' u) = tvalid (th s u)) /\ registered s' = registered s /\ invalid_cnt s' = invalid_cnt s /\
  cache s' = cache s.

Lemma vsame_refl s : vsame s s. Proof. repeat split. Qed.
Lemma vsame_trans a b c : vsame a b -> vsame b c -> vsame a c.
Proof. intros (A1 & A2 & A3 & A4) (B1 & B2 & B3 & B4). split; [intro u; now rewrite B1, A1|repeat split; congruence]. Qed.

Lemma ndead_ext f g l : (forall u, tvalid (g u) = tvalid (f u)) -> ndead g l = ndead f l.
Proof. intro H. induction l as [|u r IH]; cbn; [reflexivity|]. now rewrite H, IH. Qed.

Record CInv (s : st) : Prop := {
  cx_nodup : NoDup (registered s);
  cx_cnt : invalid_cnt s = ndead (th s) (registered s) mod M;
  cx_cache : incl (cache s) (registered s)
}.

Lemma cinv_vsame s s' : vsame s s' -> CInv s -> CInv s'.
Proof.
  intros (A1 & A2 & A3 & A4) [N0 Cn Ci]. constructor; [now rewrite A2| |now rewrite A4, A2].
  rewrite A3, A2, (ndead_ext (th s) (th s')); auto.
Qed.

Lemma ndead_app f l1 l2 : ndead f (l1 ++ l2) = ndead f l1 + ndead f l2.
Proof. induction l1; cbn; lia. Qed.

Lemma ndead_upd_notin f t x l : ~ In t l -> ndead (upd f t x) l = ndead f l.
Proof.
  induction l as [|u r IH]; intro H; cbn; [reflexivity|].
  unfold upd at 1. destruct (Nat.eqb_spec u t) as [->|]; [exfalso; apply H; now left|].
  rewrite IH; auto. intro; apply H; now right.
Qed.

Lemma ndead_kill f t x l : NoDup l -> In t l -> tvalid (f t) = true -> tvalid x = false ->
  ndead (upd f t x) l = ndead f l + 1.
Proof.
  induction l as [|u r IH]; intros ND Hin Hv Hx; [destruct Hin|]. inversion ND as [|? ? Hn ND']; subst. cbn.
  destruct Hin as [->|Hin].
  - rewrite upd_same, ndead_upd_notin, Hv, Hx by assumption. lia.
  - assert (u <> t) by (intro; subst; contradiction). rewrite upd_other by assumption.
    rewrite (IH ND' Hin Hv Hx). lia.
Qed.

Lemma ndead_remove f t l : NoDup l -> In t l -> tvalid (f t) = false -> ndead f (remove_nat t l) + 1 = ndead f l.
Proof.
  induction l as [|u r IH]; intros ND Hin Hv; [destruct Hin|]. inversion ND as [|? ? Hn ND']; subst.
  cbn [remove_nat filter]. destruct (Nat.eqb_spec u t) as [->|Hne]; cbn [negb ndead].
  - fold (remove_nat t r). rewrite (remove_notin t r Hn), Hv. lia.
  - destruct Hin as [->|Hin]; [contradiction|]. fold (remove_nat t r). specialize (IH ND' Hin Hv). lia.
Qed.

Lemma M_pos : 0 < M. Proof. apply N.neq_0_lt_0, N.pow_nonzero. lia. Qed.

Lemma mod_succ a : ((a mod M) + 1) mod M = (a + 1) mod M.
Proof. pose proof M_pos. rewrite N.add_mod_idemp_l by lia. reflexivity. Qed.

Lemma mod_pred a : (((a + 1) mod M) + M - 1) mod M = a mod M.
Proof.
  pose proof M_pos. rewrite <- N.add_sub_assoc by lia. rewrite N.add_mod_idemp_l by lia.
  replace (a + 1 + (M - 1)) with (a + 1 * M) by lia. now rewrite N.mod_add by lia.
Qed.

(* ---------- frontend *)
Lemma fstep_cinv s o : CInv s -> CInv (fstep K s o).
Proof.
  intros I. destruct o as [t e|t|t|t|t|l v|k v|k m|d|t c]; cbn [fstep].
  - destruct (pend (th s t)); [exact I|]. destruct (tvalid (th s t) && passes_logger s e); [|exact I].
    eapply cinv_vsame; [|exact I]. repeat split. intro u. cbn. unfold upd. destruct (Nat.eqb_spec u t) as [->|]; reflexivity.
  - destruct (memb t (registered s)) eqn:Mb; [exact I|]. cbn [orb]. destruct (tvalid (th s t)) eqn:V; [|exact I]. cbn [negb].
    assert (Hn : ~ In t (registered s)) by (intro H; apply memb_in in H; congruence).
    destruct I as [N0 Cn Ci]. constructor; cbn.
    + rewrite <- (rev_involutive (registered s ++ [t])). apply NoDup_rev. rewrite rev_app_distr. cbn.
      constructor; [rewrite <- in_rev; exact Hn|apply NoDup_rev; exact N0].
    + rewrite ndead_app. cbn. rewrite V. rewrite Cn. f_equal. lia.
    + intros u Hu. apply in_or_app. left. now apply Ci.
  - destruct (pend (th s t)) as [e0|]; [|exact I]. destruct (negb (memb t (registered s))); [exact I|].
    cbv zeta. set (e := retime K s e0).
    assert (Hv : forall s' x', (forall u, tvalid (th s' u) = tvalid (th s u)) -> registered s' = registered s -> invalid_cnt s' = invalid_cnt s ->
                 cache s' = cache s -> tvalid x' = tvalid (th s t) -> CInv (set_th s' (upd (th s') t x'))).
    { intros s' x' A1 A2 A3 A5 A4. eapply cinv_vsame; [|exact I]. split; [|repeat split; assumption].
      intro u. cbn. unfold upd. destruct (Nat.eqb_spec u t) as [->|]; [exact A4|apply A1]. }
    destruct (prepare_write ideal (c_cap K) (q (th s t)) (esz e)) as [q1 [off|]].
    + eapply cinv_vsame; [|exact I].
      destruct (ekind e); (repeat split; intro u; cbn [th set_th set_lg]; unfold upd;
        destruct (Nat.eqb_spec u t) as [->|]; reflexivity).
    + destruct (match ekind e with KLog => negb (counted (th s t)) | _ => false end);
        destruct (c_dropping K); try destruct (ekind e); apply Hv; auto.
  - destruct (wflush (th s t)); [|exact I]. destruct (existsb (N.eqb n) (flags s)); [|exact I].
    eapply cinv_vsame; [|exact I]. repeat split. intro u. cbn. unfold upd. destruct (Nat.eqb_spec u t) as [->|]; reflexivity.
  - destruct (tvalid (th s t)) eqn:V; cbn [andb].
    + destruct (memb t (registered s)) eqn:Mb.
      * (* registered live thread exits: counter + 1 *)
        apply memb_in in Mb. destruct I as [N0 Cn Ci]. constructor; cbn [registered set_th th invalid_cnt cache]; [exact N0| |exact Ci].
        rewrite (ndead_kill (th s) t (set_thr_valid (th s t) false) _ N0 Mb V eq_refl). rewrite Cn. apply mod_succ.
      * (* never registered: nothing to count *)
        assert (Hn : ~ In t (registered s)) by (intro H; apply memb_in in H; congruence).
        destruct I as [N0 Cn Ci]. constructor; cbn [registered set_th th invalid_cnt cache]; [exact N0| |exact Ci].
        now rewrite ndead_upd_notin.
    + exact I.
  - eapply cinv_vsame; [|exact I]. repeat split.
  - eapply cinv_vsame; [|exact I]. repeat split.
  - destruct (existsb (N.eqb m) (sfilt (sk s k)) || (m =? 0)); [exact I|]. eapply cinv_vsame; [|exact I]. repeat split.
  - eapply cinv_vsame; [|exact I]. repeat split.
  - eapply cinv_vsame; [|exact I]. repeat split. intro u. cbn. unfold upd. destruct (Nat.eqb_spec u t) as [->|]; reflexivity.
Qed.

(* ---------- backend *)
Lemma refresh_cinv s : CInv s -> CInv (refresh K s).
Proof.
  intros [N0 Cn Ci]. unfold refresh. destruct (newflag s); [|constructor; assumption].
  constructor; cbn [registered set_cache set_th th invalid_cnt cache]; [exact N0| |apply incl_refl].
  rewrite Cn. f_equal. apply ndead_ext. intro u. destruct (memb u (registered s) && negb (texists (th s u))); reflexivity.
Qed.

Lemma qempty_vsame s u : vsame s (set_th s (upd (th s) u (fst (q_empty (th s u))))).
Proof.
  repeat split. intro v. cbn. unfold upd. destruct (Nat.eqb_spec v u) as [->|]; [|reflexivity].
  now destruct (q_empty_fields (th s u)) as (_ & _ & H & _).
Qed.

Lemma pending_scan_vsame l : forall s, vsame s (fst (pending_scan s l)).
Proof.
  induction l as [|u r IH]; intro s; cbn [pending_scan]; [apply vsame_refl|].
  destruct (tbuf (th s u)); [|apply IH].
  pose proof (qempty_vsame s u) as Q. destruct (q_empty (th s u)) as [x1 e]. cbn [fst] in *.
  destruct e; [eapply vsame_trans; [exact Q|apply IH]|exact Q].
Qed.

Lemma all_empty_scan_vsame l : forall s acc, vsame s (fst (all_empty_scan s l acc)).
Proof.
  induction l as [|u r IH]; intros s acc; cbn [all_empty_scan]; [apply vsame_refl|].
  pose proof (qempty_vsame s u) as Q. destruct (q_empty (th s u)) as [x1 e]. cbn [fst] in *.
  eapply vsame_trans; [exact Q|apply IH].
Qed.

Lemma find_dead_vsame l : forall s, vsame s (fst (find_dead s l)) /\
  (forall u, snd (find_dead s l) = Some u -> tvalid (th (fst (find_dead s l)) u) = false /\ In u l).
Proof.
  induction l as [|u r IH]; intro s; cbn [find_dead].
  - split; [apply vsame_refl|intros; discriminate].
  - destruct (tvalid (th s u)) eqn:V.
    + destruct (IH s) as [A B]. split; [exact A|]. intros v Hv. destruct (B v Hv). split; [assumption|now right].
    + pose proof (qempty_vsame s u) as Q. pose proof (q_empty_fields (th s u)) as (_ & _ & Hv & _).
      destruct (q_empty (th s u)) as [x1 e]. cbn [fst] in *.
      destruct (e && match tbuf x1 with [] => true | _ => false end).
      * cbn [fst snd]. split; [exact Q|]. intros v Hv'. inversion Hv'; subst v. cbn. rewrite upd_same.
        split; [congruence|now left].
      * destruct (IH (set_th s (upd (th s) u x1))) as [A B]. split; [eapply vsame_trans; [exact Q|exact A]|].
        intros v Hv'. destruct (B v Hv'). split; [assumption|now right].
Qed.

Lemma incl_remove t a b : incl a b -> incl (remove_nat t a) (remove_nat t b).
Proof. intros H u Hu. apply remove_in in Hu as [Hu Hne]. apply remove_in. split; [now apply H|assumption]. Qed.

Lemma report_failures_vsame l : forall s, vsame s (report_failures K s l).
Proof.
  induction l as [|u r IH]; intro s; cbn [report_failures]; [apply vsame_refl|].
  destruct (failc (th s u) =? 0); [apply IH|]. eapply vsame_trans; [|apply IH].
  repeat split. intro v. cbn. unfold upd. destruct (Nat.eqb_spec v u) as [->|]; reflexivity.
Qed.

Lemma core_vsame s s' : th s' = th s -> registered s' = registered s -> invalid_cnt s' = invalid_cnt s -> cache s' = cache s -> vsame s s'.
Proof. intros A B Cc D. split; [intro u; now rewrite A|repeat split; assumption]. Qed.

Lemma process_event_vsame s e : vsame s (process_event K s e).
Proof. destruct (process_event_core K s e) as (A & _ & _ & D & _ & G & _ & H & _). now apply core_vsame. Qed.

Lemma read_loop_valid fuel lim tn : forall x total notes,
  tvalid (fst (fst (fst (read_loop K fuel lim tn x total notes)))) = tvalid x.
Proof.
  induction fuel as [|f IH]; intros x total notes; cbn [read_loop]; [reflexivity|].
  destruct (prepare_read ideal (c_cap K) (q x)) as [q1 r0]. destruct (u_blocked K x); [reflexivity|].
  destruct r0 as [off|]; [|reflexivity].
  destruct (qev x) as [|e rest]; [reflexivity|].
  destruct (negb (c_grace K =? 0) && (tn <? ets e)); [reflexivity|].
  assert (Hgo : forall c g,
    let x1 := sh g (set_thr_tbuf (set_thr_q x (finish_read ideal q1 (esz e)) rest) (tbuf x ++ [e]) c) in
    let r := if (total + esz e <? lim) && (N.of_nat (length (tbuf x1)) <? c_hard K)
             then read_loop K f lim tn x1 (total + esz e) (notes ++ fmt_notes e)
             else (x1, total + esz e, notes ++ fmt_notes e, false) in
    tvalid (fst (fst (fst r))) = tvalid x).
  { intros c g x1 r. unfold r. destruct ((total + esz e <? lim) && (N.of_nat (length (tbuf x1)) <? c_hard K)).
    - rewrite IH. reflexivity.
    - reflexivity. }
  destruct (efmt e); destruct (ekind e); destruct (c_catch_all K); try reflexivity; apply Hgo.
Qed.

Lemma read_queue_valid tn x : tvalid (fst (fst (read_queue K tn x))) = tvalid x.
Proof.
  unfold read_queue. pose proof (read_loop_valid (S (length (qev x))) (read_limit K x) tn x 0 []) as H.
  destruct (read_loop K (S (length (qev x))) (read_limit K x) tn x 0 []) as [[[x1 total] notes] esc]. cbn [fst] in *.
  destruct (total =? 0); cbn [fst]; exact H.
Qed.

Lemma cleanup_loop_cinv fuel : forall s, CInv s -> CInv (cleanup_loop K fuel s).
Proof.
  induction fuel as [|f IH]; intros s I; cbn [cleanup_loop]; [exact I|].
  destruct (find_dead_vsame (cache s) s) as [Fs Fd].
  destruct (find_dead s (cache s)) as [s0 [u|]]; cbn [fst snd] in *; [|eapply cinv_vsame; eauto].
  pose proof (cinv_vsame _ _ Fs I) as I0. destruct (Fd u eq_refl) as [Fv Fin].
  set (s1 := if c_report_first K then report_failures K s0 (cache s0) else s0).
  assert (V1 : vsame s0 s1) by (unfold s1; destruct (c_report_first K); [apply report_failures_vsame|apply vsame_refl]).
  pose proof (cinv_vsame _ _ V1 I0) as I1.
  assert (Fd1 : tvalid (th s1 u) = false) by (destruct V1 as (A & _); now rewrite A).
  assert (Hc : In u (cache s1)).
  { destruct V1 as (_ & _ & _ & E1). destruct Fs as (_ & _ & _ & E0). now rewrite E1, E0. }
  clearbody s1. apply IH. destruct I1 as [N0 Cn Ci]. pose proof (Ci u Hc) as Hin.
  constructor; cbn [registered th invalid_cnt cache].
  - now apply remove_nodup.
  - rewrite ndead_upd_notin by (intro H; apply remove_in in H; destruct H; congruence).
    pose proof (ndead_remove (th s1) u _ N0 Hin Fd1) as E. rewrite Cn, <- E. apply mod_pred.
  - now apply incl_remove.
Qed.

Lemma cleanup_ctx_cinv s : CInv s -> CInv (cleanup_ctx K s).
Proof. intro I. unfold cleanup_ctx. destruct (invalid_cnt s =? 0); [exact I|]. now apply cleanup_loop_cinv. Qed.

Lemma process_min_cinv s : CInv s -> CInv (fst (process_min K s)).
Proof.
  intros I. unfold process_min.
  destruct (min_front s (cache s) None) as [[u e]|]; [|exact I].
  set (s1 := process_event K s e).
  assert (F1 : vsame s s1) by apply process_event_vsame.
  assert (F3 : vsame s (pop_event s1 u e)).
  { eapply vsame_trans; [exact F1|]. repeat split. intro v. cbn. unfold upd. destruct (Nat.eqb_spec v u) as [->|]; reflexivity. }
  pose proof (cinv_vsame _ _ F3 I) as I3.
  destruct (ekind e); cbn [fst]; try exact I3.
  eapply cinv_vsame; [|apply (cleanup_ctx_cinv _ I3)]. repeat split.
Qed.

Lemma bstep_cinv s : CInv s -> CInv (bstep K s).
Proof.
  intros I. unfold bstep.
  assert (FS : forall s', vsame s s' -> CInv s') by (intros s' F; eapply cinv_vsame; eauto).
  destruct (pc s) as [| | |[|u todo]| | | | |].
  - eapply cinv_vsame; [|apply (refresh_cinv _ I)]. repeat split.
  - apply FS. repeat split.
  - destruct (c_refresh2 K); [eapply cinv_vsame; [|apply (refresh_cinv _ I)]; repeat split|apply FS; repeat split].
  - apply FS. destruct (buffered s =? 0); [repeat split|]. destruct (buffered s <? c_soft K); repeat split.
  - pose proof (read_queue_valid (tsnow s) (th s u)) as Hf.
    destruct (read_queue K (tsnow s) (th s u)) as [[x1 notes] esc]. cbn [fst] in Hf.
    apply FS. destruct esc; (repeat split; intro v; cbn; unfold upd; destruct (Nat.eqb_spec v u) as [->|]; [exact Hf|reflexivity]).
  - eapply cinv_vsame; [|apply (process_min_cinv _ I)]. repeat split.
  - pose proof (refresh_cinv _ I) as I0. pose proof (pending_scan_vsame (cache (refresh K s)) (refresh K s)) as F1.
    destruct (pending_scan (refresh K s) (cache (refresh K s))) as [s1 pending]. cbn [fst] in F1.
    pose proof (cinv_vsame _ _ F1 I0) as I1.
    destruct pending; [eapply cinv_vsame; [|exact I1]; repeat split|].
    pose proof (process_min_cinv s1 I1) as A. destruct (process_min K s1) as [s2 did]. cbn [fst] in *.
    destruct did; (eapply cinv_vsame; [|exact A]; repeat split).
  - apply FS. idle_cases; repeat split.
  - eapply cinv_vsame; [|apply (cinv_vsame _ _ (report_failures_vsame (cache s) s) I)]. repeat split.
  - pose proof (refresh_cinv _ I) as I0. pose proof (all_empty_scan_vsame (cache (refresh K s)) (refresh K s) true) as F1.
    destruct (all_empty_scan (refresh K s) (cache (refresh K s)) true) as [s1 e]. cbn [fst] in F1.
    pose proof (cinv_vsame _ _ F1 I0) as I1.
    destruct e; [|eapply cinv_vsame; [|exact I1]; repeat split].
    eapply cinv_vsame; [|apply (cleanup_ctx_cinv _ I1)]. repeat split.
Qed.

Theorem run_cinv ops : forall s, CInv s -> CInv (run K s ops).
Proof.
  unfold run. induction ops as [|o ops IH]; intros s I; cbn [fold_left]; [exact I|].
  destruct o as [f|]; cbn [step]; apply IH; [now apply fstep_cinv|now apply bstep_cinv].
Qed.

(* the counter is zero exactly when no registered context is dead, as long as fewer than 2^bits
   exited threads are waiting for reclamation *)
Lemma counter_zero_iff s : CInv s -> ndead (th s) (registered s) < M ->
  (invalid_cnt s = 0 <-> ndead (th s) (registered s) = 0).
Proof. intros [_ Cn _] Hlt. rewrite Cn, N.mod_small by exact Hlt. reflexivity. Qed.
End Ctx.

Theorem be_counter K s0 ops : registered s0 = [] -> cache s0 = [] -> invalid_cnt s0 = 0 ->
  let s := run K s0 ops in
  NoDup (registered s) /\ invalid_cnt s = ndead (th s) (registered s) mod 2 ^ c_bits K /\ incl (cache s) (registered s).
Proof.
  intros R0 C0 I0 s.
  assert (Ii : CInv K s0).
  { constructor; rewrite ?R0, ?C0, ?I0; cbn; [constructor| |intros ? []].
    reflexivity. }
  destruct (run_cinv K ops s0 Ii) as [A B Cc]. auto.
Qed.
