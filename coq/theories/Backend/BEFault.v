(* C10 / C16 lemmas on M-BE: progress of the decode loop and of event processing whatever the
   statement's formatter or the sinks do; what the log macro's level guard does; sink independence. *)
From Coq Require Import List NArith Arith Bool Lia.
From Quill Require Import Queue.BQDefs BT.BTModel Backend.BEDefs Backend.BEInv Backend.BEDispatch.
Import ListNotations.
Local Open Scope N_scope.

Section Fault.
Variable K : cfg.

(* ---------- C10: the decode loop never lets an exception escape when the catch-all is there *)
Lemma read_loop_no_escape fuel lim tn : c_catch_all K = true -> forall x total notes,
  snd (read_loop K fuel lim tn x total notes) = false.
Proof.
  intro Hc. induction fuel as [|f IH]; intros x total notes; cbn [read_loop]; [reflexivity|].
  destruct (prepare_read ideal (c_cap K) (q x)) as [q1 r0]. destruct (u_blocked K x); [reflexivity|].
  destruct r0 as [off|]; [|reflexivity].
  destruct (qev x) as [|e rest]; [reflexivity|].
  destruct (negb (c_grace K =? 0) && (tn <? ets e)); [reflexivity|].
  rewrite Hc.
  assert (Hgo : forall c g,
    let x1 := sh g (set_thr_tbuf (set_thr_q x (finish_read ideal q1 (esz e)) rest) (tbuf x ++ [e]) c) in
    snd (if (total + esz e <? lim) && (N.of_nat (length (tbuf x1)) <? c_hard K)
         then read_loop K f lim tn x1 (total + esz e) (notes ++ fmt_notes e)
         else (x1, total + esz e, notes ++ fmt_notes e, false)) = false).
  { intros c g x1. destruct ((total + esz e <? lim) && (N.of_nat (length (tbuf x1)) <? c_hard K)); [apply IH|reflexivity]. }
  destruct (efmt e); destruct (ekind e); apply Hgo.
Qed.

(* the head record is consumed whatever its formatter does: one iteration of the loop on a readable
   record within the timestamp limit moves it to the transit buffer *)
Lemma read_one_consumes lim tn x e rest q1 off : c_catch_all K = true -> u_blocked K x = false ->
  prepare_read ideal (c_cap K) (q x) = (q1, Some off) -> qev x = e :: rest ->
  (negb (c_grace K =? 0) && (tn <? ets e)) = false ->
  exists x1 total notes, read_loop K 1 lim tn x 0 [] = (x1, total, notes, false) /\
    qev x1 = rest /\ tbuf x1 = tbuf x ++ [e] /\ total = esz e /\ notes = fmt_notes e.
Proof.
  intros Hc Hb Hp Hq Ht. cbn [read_loop]. rewrite Hp, Hb, Hq, Ht, Hc.
  set (cap1 := if tcap x =? N.of_nat (length (tbuf x)) then 2 * tcap x else tcap x).
  exists (sh (fun u => u_finish_read (esz e) (u_prepare_read K u)) (set_thr_tbuf (set_thr_q x (finish_read ideal q1 (esz e)) rest) (tbuf x ++ [e]) cap1)), (esz e), (fmt_notes e).
  destruct (efmt e); destruct (ekind e);
    (destruct ((0 + esz e <? lim) && _); cbn; repeat split; reflexivity).
Qed.

(* a failing formatter produces exactly one notification, none otherwise *)
Lemma fmt_notes_spec e : fmt_notes e =
  match ekind e, efmt e with
  | KFlush, _ => []
  | _, FOk => []
  | _, _ => [O_NOTE; 3; 0]
  end.
Proof. unfold fmt_notes. destruct (ekind e), (efmt e); reflexivity. Qed.

(* processing pops exactly the chosen event, whatever the sinks do *)
Lemma process_min_pops s u e : min_front s (cache s) None = Some (u, e) ->
  match ekind e with KFlush => True | _ =>
    let s' := fst (process_min K s) in
    tbuf (th s' u) = tl (tbuf (th s u)) /\ (forall v, v <> u -> th s' v = th s v) /\
    delivered s' u = delivered s u ++ [eid e] /\ plog s' = plog s ++ [e]
  end.
Proof.
  intro MF. unfold process_min. rewrite MF.
  destruct (process_event_core K s e) as (A & B & Cc & D & F & _).
  destruct (ekind e); cbn [fst]; auto; unfold pop_event; cbn [th delivered plog]; rewrite A, Cc, F;
    (split; [now rewrite upd_same|split; [intros v Hv; now rewrite upd_other|split; [now rewrite upd_same|reflexivity]]]).
Qed.

(* ---------- F6: the backtrace storage is always cleared by a replay when sink failures are contained *)
Lemma replay_events_contained ks l : c_bt_catch K = true -> forall s, snd (replay_events K s ks l) = false.
Proof.
  intro Hc. induction l as [|[e|] r IH]; intro s; cbn [replay_events]; [reflexivity| |apply IH].
  destruct (dispatch s e ks) as [s1 threw]. destruct threw; [rewrite Hc|]; apply IH.
Qed.

Lemma replay_bt_clears s l b : c_bt_catch K = true -> lbt (lg s l) = Some b ->
  snd (replay_bt K s l) = false /\
  lbt (lg (fst (replay_bt K s l)) l) = Some (fst (process (c_bt K) b)).
Proof.
  intros Hc Hb. unfold replay_bt. rewrite Hb.
  destruct (process (c_bt K) b) as [b' outs] eqn:Ep.
  pose proof (replay_events_contained (lsinks (lg s l)) outs Hc s) as H.
  destruct (replay_events K s (lsinks (lg s l)) outs) as [s1 threw]. cbn [snd] in H. subst threw.
  cbn. rewrite upd_same. cbn. auto.
Qed.

(* ---------- C16: the level guard of the log macros *)
Lemma fclock_iff s t e : pend (th s t) = None ->
  let s' := fstep K s (FClock t e) in
  (pend (th s' t) <> None <-> tvalid (th s t) = true /\ passes_logger s e = true) /\
  (pend (th s' t) = None -> s' = s).
Proof.
  intro Hp. cbn [fstep]. rewrite Hp.
  destruct (tvalid (th s t)) eqn:V; cbn [andb]; [destruct (passes_logger s e) eqn:Pl|].
  - cbn. rewrite upd_same. cbn. split; [split; [auto|intros _; discriminate]|intro H; discriminate].
  - split; [split; [intro H; congruence|intros [_ H]; discriminate]|reflexivity].
  - split; [split; [intro H; congruence|intros [H _]; discriminate]|reflexivity].
Qed.

(* with no throwing sink, a sink of the logger gets the line iff it passes its OWN level filter and its
   OWN user filters: the other sinks' configuration is irrelevant *)
Lemma written_no_throw s e ks k : NoDup ks -> In k ks -> (forall j, In j ks -> throws_now s j = false) ->
  (In k (written s e ks) <-> sink_accepts (sk s k) e = true).
Proof.
  intros ND Hin Hnt. rewrite (written_iff s e ks k ND Hin). unfold passes_sink. split.
  - intros (A & _ & _). exact A.
  - intro A. split; [exact A|]. split; [now apply Hnt|].
    intros pre post E. clear - Hnt E. subst ks.
    assert (Hp : forall j, In j pre -> throws_now s j = false) by (intros j Hj; apply Hnt; apply in_or_app; now left).
    clear Hnt. induction pre as [|a r IH]; cbn; [reflexivity|].
    rewrite (Hp a (or_introl eq_refl)). destruct (passes_sink s e a); apply IH; intros j Hj; apply Hp; now right.
Qed.
End Fault.

(* ---------- C16: a reused transit-event slot reports exactly the level the statement was given *)
(* TransitEvent::log_level(): the macro's level unless that is LogLevel::Dynamic, in which case the slot's
   dynamic_log_level. The slot keeps its previous content across reuse; decoding a dynamic statement
   overwrites dynamic_log_level with the level read from the record; for a static statement the field is
   reset or left stale ([reset]) - which cannot matter, as the theorem shows. *)
Definition LV_DYNAMIC : N := 11.
Record slot := { s_dyn : N }.
Definition decode_level (reset : bool) (old : slot) (meta_lvl : N) (given : N) : slot :=
  if meta_lvl =? LV_DYNAMIC then {| s_dyn := given |}
  else if reset then {| s_dyn := 10 |} else old.
Definition eff_level (x : slot) (meta_lvl : N) : N := if meta_lvl =? LV_DYNAMIC then s_dyn x else meta_lvl.

Lemma slot_level_exact reset old meta_lvl given :
  eff_level (decode_level reset old meta_lvl given) meta_lvl = if meta_lvl =? LV_DYNAMIC then given else meta_lvl.
Proof. unfold eff_level, decode_level. destruct (meta_lvl =? LV_DYNAMIC); reflexivity. Qed.
