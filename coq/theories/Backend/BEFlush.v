(* C06: flush requests on M-BE. A flush flag is set only by processing that flush event, i.e. after it
   was popped from its thread's buffer (so after every earlier statement of that thread, by conservation)
   and after all sinks were flushed; with timestamp ordering nothing older is still pending anywhere. *)
From Coq Require Import List NArith Arith Bool Lia Sorting.Sorted.
From Quill Require Import Queue.BQDefs BT.BTModel Backend.BEDefs Backend.BEInv Backend.BECount Backend.BECtx Backend.BEDispatch Backend.BEFault Backend.OrdSim.
From Quill Require Backend.Ord.
Import ListNotations.
Local Open Scope N_scope.

Section Flush.
Variable K : cfg.

(* every set flag belongs to a flush event that has been processed (popped after its predecessors) *)
Definition FInv (s : st) : Prop := forall f, In f (flags s) -> exists t, In f (delivered s t).

Definition dkeep (s s' : st) : Prop :=
  (forall t f, In f (delivered s t) -> In f (delivered s' t)) /\ (forall f, In f (flags s') -> In f (flags s)).

Lemma finv_keep s s' : dkeep s s' -> FInv s -> FInv s'.
Proof. intros [A B] H f Hf. destruct (H f (B f Hf)) as [t Ht]. exists t. now apply A. Qed.

Lemma dkeep_same s s' : delivered s' = delivered s -> flags s' = flags s -> dkeep s s'.
Proof. intros A B. split; [intros t f; now rewrite A|intro f; now rewrite B]. Qed.

Lemma fstep_finv s o : FInv s -> FInv (fstep K s o).
Proof.
  intro H. apply (finv_keep s); [|exact H]. apply dkeep_same;
    destruct o as [t e|t|t|t|t|l v|k v|k m|d|t c]; cbn [fstep]; try reflexivity.
  all: try (destruct (pend (th s t)); [reflexivity|]; destruct (tvalid (th s t) && passes_logger s e); reflexivity).
  all: try (destruct (memb t (registered s) || negb (tvalid (th s t))); reflexivity).
  all: try (destruct (wflush (th s t)); [|reflexivity]; destruct (existsb (N.eqb n) (flags s)); reflexivity).
  all: try (destruct (tvalid (th s t) && memb t (registered s)); [reflexivity|]; destruct (tvalid (th s t)); reflexivity).
  all: try (destruct (existsb (N.eqb m) (sfilt (sk s k)) || (m =? 0)); reflexivity).
  all: destruct (pend (th s t)) as [e0|]; [|reflexivity]; destruct (negb (memb t (registered s))); [reflexivity|]; cbv zeta;
       destruct (prepare_write ideal (c_cap K) (q (th s t)) (esz (retime K s e0))) as [q1 [off|]];
       [destruct (ekind (retime K s e0)); reflexivity|];
       destruct (match ekind (retime K s e0) with KLog => negb (counted (th s t)) | _ => false end);
       destruct (c_dropping K); try destruct (ekind (retime K s e0)); reflexivity.
Qed.

Lemma find_dead_df l : forall s, delivered (fst (find_dead s l)) = delivered s /\ flags (fst (find_dead s l)) = flags s.
Proof.
  induction l as [|u r IH]; intro s; cbn [find_dead]; [auto|].
  destruct (tvalid (th s u)); [apply IH|]. destruct (q_empty (th s u)) as [x1 e].
  destruct (e && match tbuf x1 with [] => true | _ => false end); [auto|]. apply (IH (set_th s (upd (th s) u x1))).
Qed.
Lemma report_failures_df l : forall s, delivered (report_failures K s l) = delivered s /\ flags (report_failures K s l) = flags s.
Proof.
  induction l as [|u r IH]; intro s; cbn [report_failures]; [auto|]. destruct (failc (th s u) =? 0); [apply IH|].
  match goal with |- context [report_failures K ?s1 r] => destruct (IH s1) as [A B] end. cbn in *. auto.
Qed.
Lemma cleanup_loop_df fuel : forall s, delivered (cleanup_loop K fuel s) = delivered s /\ flags (cleanup_loop K fuel s) = flags s.
Proof.
  induction fuel as [|f IH]; intro s; cbn [cleanup_loop]; [auto|].
  destruct (find_dead_df (cache s) s) as [A0 B0]. destruct (find_dead s (cache s)) as [s0 [u|]]; cbn [fst] in *; [|auto].
  set (s1 := if c_report_first K then report_failures K s0 (cache s0) else s0).
  assert (H1 : delivered s1 = delivered s0 /\ flags s1 = flags s0) by (unfold s1; destruct (c_report_first K); [apply report_failures_df|auto]).
  clearbody s1. destruct H1 as [A1 B1].
  match goal with |- context [cleanup_loop K f ?s2] => destruct (IH s2) as [A2 B2] end. cbn in *. split; congruence.
Qed.
Lemma cleanup_ctx_df s : delivered (cleanup_ctx K s) = delivered s /\ flags (cleanup_ctx K s) = flags s.
Proof. unfold cleanup_ctx. destruct (invalid_cnt s =? 0); [auto|apply cleanup_loop_df]. Qed.

Lemma pending_scan_df l : forall s, delivered (fst (pending_scan s l)) = delivered s /\ flags (fst (pending_scan s l)) = flags s.
Proof.
  induction l as [|u r IH]; intro s; cbn [pending_scan]; [auto|].
  destruct (tbuf (th s u)); [|apply IH]. destruct (q_empty (th s u)) as [x1 e]. destruct e; [|auto]. apply (IH (set_th s (upd (th s) u x1))).
Qed.
Lemma all_empty_scan_df l : forall s acc, delivered (fst (all_empty_scan s l acc)) = delivered s /\ flags (fst (all_empty_scan s l acc)) = flags s.
Proof.
  induction l as [|u r IH]; intros s acc; cbn [all_empty_scan]; [auto|].
  destruct (q_empty (th s u)) as [x1 e]. apply (IH (set_th s (upd (th s) u x1))).
Qed.
Lemma refresh_df s : delivered (refresh K s) = delivered s /\ flags (refresh K s) = flags s.
Proof. unfold refresh. destruct (newflag s); auto. Qed.

(* the only place a flag is set: processing the flush event, after its pop *)
Lemma process_min_finv s : FInv s -> FInv (fst (process_min K s)).
Proof.
  intro H. unfold process_min. destruct (min_front s (cache s) None) as [[u e]|]; [|exact H].
  destruct (process_event_core K s e) as (_ & _ & Cd & _ & _ & _ & _ & _ & Fg & _).
  assert (H3 : FInv (pop_event (process_event K s e) u e)).
  { intros f Hf. cbn in Hf. rewrite Fg in Hf. destruct (H f Hf) as [t Ht]. exists t. cbn. rewrite Cd.
    unfold upd. destruct (Nat.eqb_spec t u) as [->|]; [apply in_or_app; now left|exact Ht]. }
  destruct (ekind e); cbn [fst]; try exact H3.
  destruct (cleanup_ctx_df (pop_event (process_event K s e) u e)) as [A B].
  intros f Hf. cbn in Hf. rewrite B in Hf. apply in_app_or in Hf as [Hf|[<-|[]]].
  - destruct (H3 f Hf) as [t Ht]. exists t. cbn. now rewrite A.
  - exists u. cbn. rewrite A. cbn. rewrite upd_same. apply in_or_app. right. now left.
Qed.

Lemma bstep_finv s : FInv s -> FInv (bstep K s).
Proof.
  intro H. unfold bstep.
  assert (KS : forall s', delivered s' = delivered s -> flags s' = flags s -> FInv s') by (intros; eapply finv_keep; [apply dkeep_same; eassumption|exact H]).
  destruct (pc s) as [| | |[|u todo]| | | | |].
  - destruct (refresh_df s). apply KS; assumption.
  - apply KS; reflexivity.
  - destruct (c_refresh2 K); [destruct (refresh_df s); apply KS; assumption|apply KS; reflexivity].
  - destruct (buffered s =? 0); [apply KS; reflexivity|]. destruct (buffered s <? c_soft K); apply KS; reflexivity.
  - destruct (read_queue K (tsnow s) (th s u)) as [[x1 notes] esc]. destruct esc; apply KS; reflexivity.
  - apply (finv_keep (fst (process_min K s))); [apply dkeep_same; reflexivity|now apply process_min_finv].
  - destruct (refresh_df s) as [A0 B0]. destruct (pending_scan_df (cache (refresh K s)) (refresh K s)) as [A1 B1].
    destruct (pending_scan (refresh K s) (cache (refresh K s))) as [s1 pending]. cbn [fst] in *.
    assert (H1 : FInv s1) by (apply KS; congruence).
    destruct pending; [apply KS; cbn; congruence|].
    pose proof (process_min_finv s1 H1) as H2. destruct (process_min K s1) as [s2 did]. cbn [fst] in H2.
    destruct did; (eapply finv_keep; [apply dkeep_same; reflexivity|exact H2]).
  - idle_cases; apply KS; reflexivity.
  - destruct (report_failures_df (cache s) s). apply KS; assumption.
  - destruct (refresh_df s) as [A0 B0]. destruct (all_empty_scan_df (cache (refresh K s)) (refresh K s) true) as [A1 B1].
    destruct (all_empty_scan (refresh K s) (cache (refresh K s)) true) as [s1 e]. cbn [fst] in *.
    destruct e; [|apply KS; cbn; congruence].
    destruct (cleanup_ctx_df s1) as [A2 B2]. apply KS; cbn; congruence.
Qed.

Theorem run_finv ops : forall s, FInv s -> FInv (run K s ops).
Proof.
  unfold run. induction ops as [|o ops IH]; intros s H; cbn [fold_left]; [exact H|].
  destruct o as [f|]; cbn [step]; apply IH; [now apply fstep_finv|now apply bstep_finv].
Qed.

(* processing a flush event flushes the sinks and writes nothing *)
Lemma flush_event_flushes s e : ekind e = KFlush ->
  obs (process_event K s e) = obs s ++ flat_map (flush_tokens s) (active_sinks s (nloggers s) 0 []).
Proof. intro Hk. unfold process_event. rewrite Hk. reflexivity. Qed.
End Flush.

(* with timestamp ordering: nothing older than a processed event is still pending anywhere *)
Theorem processed_before_pending K : c_grace K <> 0 -> c_refresh2 K = true -> c_catch_all K = true ->
  forall s0 ops, init_ok K s0 -> pos_ops ops -> WG K s0 ops ->
  let s := run K s0 ops in
  forall e t e', In e (plog s) -> In e' (tbuf (th s t) ++ qev (th s t)) -> ets e <= ets e'.
Proof.
  intros Hg Hr Hc s0 ops (H0 & Hrr & Hcc & Hn & Hi & Hpl & Hpc & Ht & Hgc) Hp Hw s e t e' He He'.
  set (a0 := {| Ord.clock := clock s0; Ord.T := 0; Ord.th := fun _ => {| Ord.pend := None; Ord.queue := []; Ord.tbuf := [] |};
               Ord.registered := []; Ord.cache := []; Ord.pc := Ord.Idle; Ord.out := [] |}).
  assert (HR0 : R s0 a0).
  { constructor; cbn; auto; try congruence.
    - intro u. destruct (H0 u) as ((v & ->) & _). reflexivity.
    - now rewrite Hpc.
    - now rewrite Hpl. }
  assert (B0 : Big K s0).
  { split; [|split].
    - split; [intro u; destruct (H0 u) as ((v & ->) & -> & ->); apply TInv_fresh|intros u x; destruct (H0 u) as ((v & ->) & _); discriminate].
    - constructor; rewrite ?Hrr, ?Hcc, ?Hi; cbn; [constructor|reflexivity|intros ? []].
    - intros _. congruence. }
  destruct (sim_run K Hg Hr Hc ops s0 a0 B0 HR0 (Ord.inv_init_at (c_grace K) (clock s0) Hgc) Hp Hw) as (a' & HR' & I' & _).
  apply (Ord.I5 _ _ I' (ets e) t (ets e')).
  - rewrite (r_out _ _ HR'). now apply in_map.
  - rewrite (r_th _ _ HR' t). unfold athr. cbn. rewrite <- map_app. now apply in_map.
Qed.
