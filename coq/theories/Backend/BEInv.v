(* Conservation invariant of M-BE (C03 core, also used by C08 / C10 / C20):
   for every thread, the statements it committed are exactly those already processed by the backend,
   followed by those in its transit buffer, followed by those in its queue - for every op list.
   A thread context is destroyed only when its queue and buffer are empty. *)
From Coq Require Import List NArith Arith Bool Lia.
From Quill Require Import Queue.BQDefs Queue.BQProofs Queue.BQSeqProofs BT.BTModel Backend.BEDefs.
Import ListNotations.
Local Open Scope N_scope.

Section Inv.
Variable K : cfg.
Notation C := (c_cap K).

(* per-thread part *)
Record TInv (x : thr) (iss del : list N) : Prop := {
  t_cons : iss = del ++ map eid (tbuf x) ++ map eid (qev x);
  t_seq : SInv C (q x);
  t_recs : recs (q x) = map esz (qev x);
  t_comm : aw (q x) = wpos (q x);
  t_pos : Forall (fun e => 0 < esz e) (qev x);
  t_ex : texists x = false -> tbuf x = []
}.

Definition Inv (s : st) : Prop := forall t, TInv (th s t) (issued s t) (delivered s t).

Lemma TInv_fresh v : TInv (set_thr_uqs thr0 v) [] [].
Proof. constructor; cbn; auto. apply SInv_init. Qed.
Lemma TInv_thr0 : TInv thr0 [] [].
Proof. constructor; cbn; auto. apply SInv_init. Qed.

(* ---------- queue facts under TInv *)
Lemma sum_map_pos (l : list ev) : Forall (fun e => 0 < esz e) l -> sum (map esz l) = 0 -> l = [].
Proof. destruct l as [|e l]; [reflexivity|]. intros H. inversion H; subst. cbn. lia. Qed.

(* empty() true means nothing is queued *)
Lemma empty_true_nil x iss del : TInv x iss del -> snd (empty (q x)) = true -> qev x = [].
Proof.
  intros [Hc [h1 h2 h3 h4 h5 h6 h7 h8 h9] Hr Ha Hp Hx]. unfold empty.
  destruct (N.eqb_spec (wcache (q x)) (rpos (q x))) as [E|NE]; cbn [snd wcache rpos]; [|discriminate].
  intro H. apply N.eqb_eq in H. apply sum_map_pos; auto. rewrite <- Hr. lia.
Qed.

Lemma empty_keeps x iss del : TInv x iss del -> TInv (fst (q_empty x)) iss del.
Proof.
  intros I. unfold q_empty. pose proof (empty_inv C (q x) (t_seq _ _ _ I)) as (I1 & _ & Hrp & Hrc & _ & _ & Hwp & _).
  destruct I as [Hc Hs Hr Ha Hp Hx]. destruct (empty (q x)) as [q1 e] eqn:E. cbn [fst snd] in *.
  constructor; cbn [sh set_thr_uqs set_thr_q q qev tbuf texists]; auto.
  - congruence.
  - unfold empty in E. destruct (wcache (q x) =? rpos (q x)); inversion E; subst; cbn; auto.
Qed.

Lemma q_empty_true_nil x iss del : TInv x iss del -> snd (q_empty x) = true -> qev (fst (q_empty x)) = [].
Proof.
  intros I. unfold q_empty. pose proof (empty_true_nil x iss del I) as H.
  destruct (empty (q x)) as [q1 e]. cbn [fst snd sh set_thr_uqs set_thr_q qev] in *.
  intro He. apply andb_prop in He as [He _]. auto.
Qed.

Lemma q_empty_fields x : let x1 := fst (q_empty x) in
  qev x1 = qev x /\ tbuf x1 = tbuf x /\ tvalid x1 = tvalid x /\ failc x1 = failc x /\ pend x1 = pend x /\
  wflush x1 = wflush x /\ tcap x1 = tcap x /\ texists x1 = texists x /\ counted x1 = counted x.
Proof. unfold q_empty. destruct (empty (q x)). cbn. repeat split. Qed.

(* the next-pointer hint of an unbounded queue is not touched by empty() *)
Lemma nnext_upd_same (l : list Queue.UQDefs.node) : forall i q2,
  Queue.UQDefs.nnext (nth i (Queue.UQDefs.upd l i
     {| Queue.UQDefs.nq := q2; Queue.UQDefs.ncap := Queue.UQDefs.ncap (nth i l Queue.UQDefs.dnode);
        Queue.UQDefs.nnext := Queue.UQDefs.nnext (nth i l Queue.UQDefs.dnode);
        Queue.UQDefs.nfreed := Queue.UQDefs.nfreed (nth i l Queue.UQDefs.dnode) |}) Queue.UQDefs.dnode)
  = Queue.UQDefs.nnext (nth i l Queue.UQDefs.dnode).
Proof.
  induction l as [|h t IH]; intros i q2; destruct i; cbn [Queue.UQDefs.upd nth]; try reflexivity. apply IH.
Qed.
Lemma u_hint_qempty x : u_hint (fst (q_empty x)) = u_hint x.
Proof.
  unfold q_empty. destruct (empty (q x)) as [q1 e]. cbn [fst]. unfold u_hint, sh. cbn [uqs set_thr_uqs set_thr_q].
  destruct (uqs x) as [u|]; cbn [option_map]; [|reflexivity].
  unfold u_empty, Queue.UQDefs.uq_empty. destruct (empty (Queue.UQDefs.nq (Queue.UQDefs.getn u (Queue.UQDefs.cons u)))) as [q2 e2]. cbn [fst].
  unfold Queue.UQDefs.setq, Queue.UQDefs.set_nodes, Queue.UQDefs.getn. cbn [Queue.UQDefs.cons Queue.UQDefs.nodes].
  now rewrite nnext_upd_same.
Qed.

(* ---------- frontend steps *)
Lemma upd_same {A} (f : nat -> A) t x : upd f t x t = x.
Proof. unfold upd. now rewrite Nat.eqb_refl. Qed.
Lemma upd_other {A} (f : nat -> A) t x u : u <> t -> upd f t x u = f u.
Proof. unfold upd. intro H. apply Nat.eqb_neq in H. now rewrite H. Qed.

Ltac upd_cases u t := unfold upd; destruct (Nat.eqb_spec u t) as [->|?].

Lemma pw_grant_inv x iss del e q1 off :
  TInv x iss del -> 0 < esz e ->
  prepare_write ideal C (q x) (esz e) = (q1, Some off) ->
  TInv (set_thr_pend (set_thr_q x (commit_write (finish_write ideal q1 (esz e))) (qev x ++ [e])) None false)
       (iss ++ [eid e]) del.
Proof.
  intros [Hc Hs Hr Ha Hp Hx] Hpos E.
  pose proof (step_inv C 0 {| on_batch := false; on_drain := false |} (q x) (W (esz e) true) Hs) as HS.
  cbn [sstep] in HS. rewrite E in HS. cbn [fst] in HS.
  pose proof (pw_inv C (q x) (esz e) Hs) as (_ & _ & Hw & Hrc). rewrite E in Hw, Hrc. cbn [fst] in Hw, Hrc.
  constructor; cbn [set_thr_pend sh set_thr_uqs set_thr_q q qev tbuf texists].
  - rewrite Hc, !map_app. cbn. now rewrite <- !app_assoc.
  - exact HS.
  - cbn [commit_write finish_write recs]. rewrite Hrc, Hr, map_app. reflexivity.
  - reflexivity.
  - apply Forall_app. split; auto.
  - exact Hx.
Qed.

Lemma pw_aw_wpos (s : bq) n : let s1 := fst (prepare_write ideal C s n) in aw s1 = aw s /\ wpos s1 = wpos s.
Proof.
  unfold prepare_write. destruct (nofit ideal C (wpos s) (rcache s) n);
    [cbn [wpos rcache]; destruct (nofit ideal C (wpos s) (ar s) n)|]; cbn; auto.
Qed.

Lemma pw_deny_inv x iss del n q1 r :
  TInv x iss del -> prepare_write ideal C (q x) n = (q1, r) -> TInv (set_thr_q x q1 (qev x)) iss del.
Proof.
  intros [Hc Hs Hr Ha Hp Hx] E.
  pose proof (pw_inv C (q x) n Hs) as (I1 & _ & Hw & Hrc). rewrite E in I1, Hw, Hrc. cbn [fst] in *.
  pose proof (pw_aw_wpos (q x) n) as [A1 A2]. rewrite E in A1, A2. cbn [fst] in A1, A2.
  constructor; cbn [sh set_thr_uqs set_thr_q q qev tbuf texists]; auto; try congruence.
Qed.

Definition pos_op (o : fop) : Prop := match o with FClock _ e => 0 < esz e | _ => True end.

Lemma TInv_pend x iss del p c : TInv x iss del -> TInv (set_thr_pend x p c) iss del.
Proof. intros [? ? ? ? ? ?]. constructor; auto. Qed.
Lemma TInv_sh x iss del f : TInv x iss del -> TInv (sh f x) iss del.
Proof. intros [? ? ? ? ? ?]. constructor; auto. Qed.
Lemma TInv_failc x iss del n : TInv x iss del -> TInv (set_thr_failc x n) iss del.
Proof. intros [? ? ? ? ? ?]. constructor; auto. Qed.
Lemma TInv_valid x iss del v : TInv x iss del -> TInv (set_thr_valid x v) iss del.
Proof. intros [? ? ? ? ? ?]. constructor; auto. Qed.
Lemma TInv_wflush x iss del w : TInv x iss del -> TInv (set_thr_wflush x w) iss del.
Proof. intros [? ? ? ? ? ?]. constructor; auto. Qed.

(* pending statements have positive size *)
Definition PInv (s : st) : Prop := forall t e, pend (th s t) = Some e -> 0 < esz e.

Lemma fstep_inv s o : pos_op o -> Inv s /\ PInv s -> Inv (fstep K s o) /\ PInv (fstep K s o).
Proof.
  intros Hpo [I P]. destruct o as [t e|t|t|t|t|l v|k v|k m|d|t c]; cbn [fstep].
  - (* FClock *)
    destruct (pend (th s t)) eqn:Ep; [split; assumption|].
    destruct (tvalid (th s t) && passes_logger s e); [|split; assumption].
    split.
    + intro u. cbn. upd_cases u t; [apply TInv_pend|]; apply I.
    + intros u e'. cbn. upd_cases u t; cbn; [intro H; inversion H; subst; exact Hpo|apply P].
  - (* FReg *)
    destruct (memb t (registered s) || negb (tvalid (th s t))); split; assumption.
  - (* FTry *)
    destruct (pend (th s t)) as [e0|] eqn:Ep; [|split; assumption].
    destruct (negb (memb t (registered s))); [split; assumption|].
    cbv zeta. set (e := retime K s e0).
    assert (Hsz : esz e = esz e0) by (unfold e, retime; destruct (ekind e0), (c_dropping K); reflexivity).
    pose proof (P _ _ Ep) as Hpos. rewrite <- Hsz in Hpos.
    destruct (prepare_write ideal C (q (th s t)) (esz e)) as [q1 [off|]] eqn:E.
    + (* granted *)
      pose proof (pw_grant_inv _ _ _ e q1 off (I t) Hpos E) as G.
      destruct (ekind e) eqn:Ek; cbn [set_lg th issued delivered set_th]; (split;
        [intro u; cbn [issued delivered th set_th set_lg]; upd_cases u t; [apply TInv_sh; try (apply TInv_wflush); exact G|apply I]
        |intros u e'; cbn [th set_th set_lg]; upd_cases u t; [cbn; discriminate|apply P]]).
    + (* denied *)
      pose proof (pw_deny_inv _ _ _ _ _ _ (I t) E) as D.
      assert (Fin : forall (s' : st) x2, th s' = th s -> issued s' = issued s -> delivered s' = delivered s ->
                TInv x2 (issued s t) (delivered s t) -> pend x2 = pend (th s t) ->
                forall p c, (forall e', p = Some e' -> 0 < esz e') ->
                Inv (set_th s' (upd (th s') t (set_thr_pend x2 p c))) /\ PInv (set_th s' (upd (th s') t (set_thr_pend x2 p c)))).
      { intros s' x2 E1 E2 E3 T2 Hp2 p c Hpc. split.
        - intro u. cbn [issued delivered th set_th]. rewrite E1, E2, E3. upd_cases u t; [apply TInv_pend; exact T2|apply I].
        - intros u e'. cbn [th set_th]. rewrite E1. upd_cases u t; [cbn; apply Hpc|apply P]. }
      assert (Hpe : forall e', Some e = Some e' -> 0 < esz e') by (intros e' H; inversion H; subst; exact Hpos).
      assert (Hpn : forall e', @None ev = Some e' -> 0 < esz e') by (intros; discriminate).
      destruct (match ekind e with KLog => negb (counted (th s t)) | _ => false end);
        destruct (c_dropping K); try destruct (ekind e);
        (apply Fin; try reflexivity; auto; try (apply TInv_failc); exact D).
  - (* FWaitFlush *)
    destruct (wflush (th s t)); [|split; assumption].
    destruct (existsb (N.eqb n) (flags s)); [|split; assumption].
    split.
    + intro u. cbn. upd_cases u t; [apply TInv_wflush|]; apply I.
    + intros u e'. cbn. upd_cases u t; [cbn; apply P|apply P].
  - (* FExit *)
    destruct (tvalid (th s t) && memb t (registered s)).
    + split.
      * intro u. cbn. upd_cases u t; [apply TInv_valid|]; apply I.
      * intros u e'. cbn. upd_cases u t; [cbn; apply P|apply P].
    + destruct (tvalid (th s t)); [|split; assumption]. split.
      * intro u. cbn. upd_cases u t; [apply TInv_valid|]; apply I.
      * intros u e'. cbn. upd_cases u t; [cbn; apply P|apply P].
  - split; assumption.
  - split; assumption.
  - destruct (existsb (N.eqb m) (sfilt (sk s k)) || (m =? 0)); split; assumption.
  - split; assumption.
  - (* FShrink: only the node structure changes *)
    split.
    + intro u. cbn. upd_cases u t; [apply TInv_sh|]; apply I.
    + intros u e'. cbn. upd_cases u t; [cbn; apply P|apply P].
Qed.

(* ---------- backend helpers *)
Definition Good (s : st) : Prop := Inv s /\ PInv s.

Lemma good_qempty s u : Good s -> Good (set_th s (upd (th s) u (fst (q_empty (th s u))))).
Proof.
  intros [I P]. split.
  - intro t. cbn. upd_cases t u; [apply empty_keeps|]; apply I.
  - intros t e. cbn. upd_cases t u; [|apply P].
    destruct (q_empty_fields (th s u)) as (_ & _ & _ & _ & Hp & _). rewrite Hp. apply P.
Qed.

Lemma good_thr s u x' : Good s -> TInv x' (issued s u) (delivered s u) -> pend x' = pend (th s u) ->
  Good (set_th s (upd (th s) u x')).
Proof.
  intros [I P] T Hp. split.
  - intro t. cbn. upd_cases t u; [exact T|apply I].
  - intros t e. cbn. upd_cases t u; [rewrite Hp; apply P|apply P].
Qed.

Lemma refresh_good s : Good s -> Good (refresh K s).
Proof.
  intros [I P]. unfold refresh. destruct (newflag s); [|split; assumption]. split.
  - intro t. cbn. destruct (memb t (registered s) && negb (texists (th s t))) eqn:E; [|apply I].
    apply andb_prop in E as [_ E]. apply negb_true_iff in E.
    destruct (I t) as [Hc Hs Hr Ha Hp Hx]. constructor; cbn; auto. now rewrite (Hx E) in Hc.
  - intros t e. cbn. destruct (memb t (registered s) && negb (texists (th s t))); cbn; apply P.
Qed.

(* prepare_read on a queue satisfying the sequential invariant *)
Lemma pr_cases (qq : bq) : SInv C qq ->
  let q1 := fst (prepare_read ideal C qq) in
  SInv C q1 /\ recs q1 = recs qq /\ aw q1 = aw qq /\ wpos q1 = wpos qq /\
  (snd (prepare_read ideal C qq) <> None -> forall n rest, recs qq = n :: rest -> SInv C (finish_read ideal q1 n)).
Proof.
  intro Hs.
  pose proof (empty_inv C qq Hs) as (I1 & _ & _ & Hrc & _ & _ & Hwp & _).
  pose proof (step_inv C 0 {| on_batch := false; on_drain := false |} qq R Hs) as HR.
  cbn [sstep] in HR. unfold prepare_read in *.
  assert (Haw : aw (fst (empty qq)) = aw qq).
  { unfold empty. destruct (wcache qq =? rpos qq); cbn; auto. }
  destruct (empty qq) as [q1 em]. cbn [fst snd] in *.
  destruct em; cbn [fst snd] in *.
  - split; [exact I1|]. split; [exact Hrc|]. split; [exact Haw|]. split; [exact Hwp|].
    intro H; exfalso; apply H; reflexivity.
  - split; [exact I1|]. split; [exact Hrc|]. split; [exact Haw|]. split; [exact Hwp|].
    intros _ n rest Hn. rewrite Hrc, Hn in HR. exact HR.
Qed.

(* one step of the decode loop: the oldest queued statement moves to the back of the buffer *)
Lemma read_loop_inv fuel lim tn : forall x total notes iss del,
  TInv x iss del ->
  TInv (fst (fst (fst (read_loop K fuel lim tn x total notes)))) iss del /\
  pend (fst (fst (fst (read_loop K fuel lim tn x total notes)))) = pend x.
Proof.
  induction fuel as [|f IH]; intros x total notes iss del T; cbn [read_loop]; [split; [exact T|reflexivity]|].
  destruct T as [Hc Hs Hr Ha Hp Hx].
  pose proof (pr_cases (q x) Hs) as (S1 & R1 & A1 & W1 & F1).
  destruct (prepare_read ideal C (q x)) as [q1 r]. cbn [fst snd] in *.
  assert (Tq1 : forall c g, TInv (sh g (set_thr_tbuf (set_thr_q x q1 (qev x)) (tbuf x) c)) iss del).
  { intros c g. apply TInv_sh. constructor; cbn; auto; try congruence; try (intros; discriminate). }
  assert (Tq1' : forall g, TInv (sh g (set_thr_q x q1 (qev x))) iss del).
  { intro g. apply TInv_sh. constructor; cbn; auto; congruence. }
  destruct (u_blocked K x); [cbn [fst]; split; [apply Tq1'|reflexivity]|].
  destruct r as [off|]; [|cbn [fst]; split; [apply Tq1'|reflexivity]].
  destruct (qev x) as [|e rest] eqn:Eq; [cbn [fst]; split; [apply Tq1'|reflexivity]|].
  destruct (negb (c_grace K =? 0) && (tn <? ets e)); [cbn [fst]; split; [apply Tq1|reflexivity]|].
  assert (Hrec : recs (q x) = esz e :: map esz rest) by (rewrite Hr; reflexivity).
  specialize (F1 ltac:(discriminate) _ _ Hrec).
  assert (Tmove : forall c g, TInv (sh g (set_thr_tbuf (set_thr_q x (finish_read ideal q1 (esz e)) rest) (tbuf x ++ [e]) c)) iss del).
  { intros c g. apply TInv_sh. constructor; cbn [set_thr_tbuf set_thr_q q qev tbuf texists]; auto.
    - rewrite Hc, map_app. cbn. now rewrite <- app_assoc.
    - cbn [finish_read recs]. rewrite R1, Hrec. reflexivity.
    - cbn [finish_read aw wpos]. congruence.
    - now inversion Hp.
    - intros; discriminate. }
  assert (Hgo : forall c g,
    let x1 := sh g (set_thr_tbuf (set_thr_q x (finish_read ideal q1 (esz e)) rest) (tbuf x ++ [e]) c) in
    let r := if (total + esz e <? lim) && (N.of_nat (length (tbuf x1)) <? c_hard K)
             then read_loop K f lim tn x1 (total + esz e) (notes ++ fmt_notes e)
             else (x1, total + esz e, notes ++ fmt_notes e, false) in
    TInv (fst (fst (fst r))) iss del /\ pend (fst (fst (fst r))) = pend x).
  { intros c g x1 r. unfold r.
    destruct ((total + esz e <? lim) && (N.of_nat (length (tbuf x1)) <? c_hard K)).
    - destruct (IH x1 (total + esz e) (notes ++ fmt_notes e) iss del (Tmove c g)) as [A B]. split; [exact A|exact B].
    - cbn [fst]. split; [apply Tmove|reflexivity]. }
  destruct (efmt e); destruct (ekind e); destruct (c_catch_all K);
    try (cbn [fst]; split; [apply Tq1|reflexivity]); apply Hgo.
Qed.

Lemma read_queue_inv tn x iss del : TInv x iss del ->
  TInv (fst (fst (read_queue K tn x))) iss del /\ pend (fst (fst (read_queue K tn x))) = pend x.
Proof.
  intro T. unfold read_queue.
  pose proof (read_loop_inv (S (length (qev x))) (read_limit K x) tn x 0 [] iss del T) as H.
  destruct (read_loop K (S (length (qev x))) (read_limit K x) tn x 0 []) as [[[x1 total] notes] esc]. cbn [fst] in H. destruct H as [T1 P1].
  destruct (total =? 0); cbn [fst]; [split; assumption|]. split; [|exact P1].
  destruct T1 as [Hc Hs Hr Ha Hp Hx].
  pose proof (step_inv C (c_batch K) (c_pub K) (q x1) CR Hs) as HS. cbn [sstep fst] in HS.
  apply TInv_sh. constructor; cbn [set_thr_q q qev tbuf texists]; auto.
  - unfold commit_read. destruct (should_publish ideal (c_batch K) (c_pub K) (q x1)); cbn; auto.
  - unfold commit_read. destruct (should_publish ideal (c_batch K) (c_pub K) (q x1)); cbn; auto.
Qed.

Lemma same_core_good s s' : th s' = th s -> issued s' = issued s -> delivered s' = delivered s -> Good s -> Good s'.
Proof. intros E1 E2 E3 [I P]. split; [intro t; rewrite E1, E2, E3; apply I|intros t e; rewrite E1; apply P]. Qed.

(* what event processing (dispatch to sinks, backtrace replays) never touches *)
Definition bcore (s s' : st) : Prop :=
  th s' = th s /\ issued s' = issued s /\ delivered s' = delivered s /\ cache s' = cache s /\ plog s' = plog s /\
  registered s' = registered s /\ gh s' = gh s /\ invalid_cnt s' = invalid_cnt s /\ flags s' = flags s /\
  newflag s' = newflag s /\ clock s' = clock s /\ tsnow s' = tsnow s /\ pc s' = pc s.

Lemma bcore_refl s : bcore s s. Proof. repeat split. Qed.
Lemma bcore_trans a b c : bcore a b -> bcore b c -> bcore a c.
Proof.
  intros (A1 & A2 & A3 & A4 & A5 & A6 & A7 & A8 & A9 & A10 & A11 & A12 & A13)
         (B1 & B2 & B3 & B4 & B5 & B6 & B7 & B8 & B9 & B10 & B11 & B12 & B13).
  repeat split; congruence.
Qed.

Lemma dispatch_core s e ks : bcore s (fst (dispatch s e ks)).
Proof.
  revert s. induction ks as [|k r IH]; intro s; cbn [dispatch]; [apply bcore_refl|].
  destruct (sink_accepts (sk s k) e); [|apply IH].
  destruct (memb (swrites (sk s k)) (sthrow (sk s k))); cbn [fst]; [repeat split|].
  eapply bcore_trans; [|apply IH]. repeat split.
Qed.


Lemma report_failures_good s l : Good s -> Good (report_failures K s l).
Proof.
  revert s. induction l as [|u r IH]; intros s G; cbn [report_failures]; [exact G|].
  destruct (failc (th s u) =? 0); [apply IH; exact G|]. apply IH.
  eapply same_core_good with (s := set_th s (upd (th s) u (set_thr_failc (th s u) 0))); try reflexivity.
  apply good_thr; [exact G|apply TInv_failc, (proj1 G)|reflexivity].
Qed.

Lemma report_failures_keeps s l u : qev (th s u) = [] /\ tbuf (th s u) = [] ->
  qev (th (report_failures K s l) u) = [] /\ tbuf (th (report_failures K s l) u) = [].
Proof.
  revert s. induction l as [|v r IH]; intros s H; cbn [report_failures]; [exact H|].
  destruct (failc (th s v) =? 0); [apply IH; exact H|]. apply IH. cbn. upd_cases u v; [cbn|]; exact H.
Qed.

Lemma find_dead_good s l : Good s -> Good (fst (find_dead s l)) /\
  (forall u, snd (find_dead s l) = Some u ->
     qev (th (fst (find_dead s l)) u) = [] /\ tbuf (th (fst (find_dead s l)) u) = []) /\
  issued (fst (find_dead s l)) = issued s /\ delivered (fst (find_dead s l)) = delivered s.
Proof.
  revert s. induction l as [|u r IH]; intros s G; cbn [find_dead].
  - split; [exact G|]. split; [intros; discriminate|]. split; reflexivity.
  - destruct (tvalid (th s u)); [apply IH; exact G|].
    pose proof (good_qempty s u G) as G1.
    pose proof (q_empty_true_nil (th s u) _ _ (proj1 G u)) as Hn.
    destruct (q_empty (th s u)) as [x1 e] eqn:E. cbn [fst snd] in *.
    destruct (e && match tbuf x1 with [] => true | _ => false end) eqn:Ee.
    + cbn [fst snd]. split; [exact G1|]. split; [|split; reflexivity].
      intros v Hv. inversion Hv; subst v. cbn. rewrite upd_same.
      apply andb_prop in Ee as [-> Et]. split; [auto|]. destruct (tbuf x1); [reflexivity|discriminate].
    + destruct (IH _ G1) as (A & B & Cc & D). split; [exact A|]. split; [exact B|]. split; [exact Cc|exact D].
Qed.

Lemma cleanup_loop_good fuel : forall s, Good s -> Good (cleanup_loop K fuel s).
Proof.
  induction fuel as [|f IH]; intros s G; cbn [cleanup_loop]; [exact G|].
  destruct (find_dead_good s (cache s) G) as (G1 & Hd & Hi & Hdl).
  destruct (find_dead s (cache s)) as [s0 [u|]]; cbn [fst snd] in *; [|exact G1].
  apply IH. destruct (Hd u eq_refl) as [Hq Ht].
  set (s1 := if c_report_first K then report_failures K s0 (cache s0) else s0).
  assert (G1' : Good s1) by (unfold s1; destruct (c_report_first K); [apply report_failures_good|]; exact G1).
  assert (Hq1 : qev (th s1 u) = [] /\ tbuf (th s1 u) = []).
  { unfold s1. destruct (c_report_first K); [|split; assumption]. apply report_failures_keeps; split; assumption. }
  clear Hq Ht. destruct Hq1 as [Hq Ht]. destruct G1' as [I1 P1]. split.
  - intro t. cbn. upd_cases t u; [|apply I1].
    destruct (I1 u) as [Hc Hs Hr Ha Hp Hx]. rewrite Hq, Ht in Hc. cbn in Hc. rewrite app_nil_r in Hc.
    constructor; cbn; auto. now rewrite app_nil_r. apply SInv_init.
  - intros t e. cbn. upd_cases t u; [cbn; apply P1|apply P1].
Qed.

Lemma cleanup_ctx_good s : Good s -> Good (cleanup_ctx K s).
Proof. intro G. unfold cleanup_ctx. destruct (invalid_cnt s =? 0); [exact G|]. now apply cleanup_loop_good. Qed.

Lemma replay_events_core ks l : forall s, bcore s (fst (replay_events K s ks l)).
Proof.
  induction l as [|[e|] r IH]; intro s; cbn [replay_events]; [apply bcore_refl| |apply IH].
  pose proof (dispatch_core s e ks) as H.
  destruct (dispatch s e ks) as [s1 threw]. cbn [fst] in H.
  destruct threw; [destruct (c_bt_catch K)|].
  - eapply bcore_trans; [exact H|]. eapply bcore_trans; [|apply IH]. repeat split.
  - cbn. exact H.
  - eapply bcore_trans; [exact H|apply IH].
Qed.

Lemma replay_bt_core s l : bcore s (fst (replay_bt K s l)).
Proof.
  unfold replay_bt. destruct (lbt (lg s l)) as [b|]; [|apply bcore_refl].
  destruct (process (c_bt K) b) as [b' outs].
  pose proof (replay_events_core (lsinks (lg s l)) outs s) as H.
  destruct (replay_events K s (lsinks (lg s l)) outs) as [s1 threw]. cbn [fst] in *.
  destruct threw; cbn [fst]; [exact H|]. eapply bcore_trans; [exact H|repeat split].
Qed.

Lemma process_event_core s e : bcore s (process_event K s e).
Proof.
  unfold process_event. destruct (ekind e).
  - destruct (elvl e =? LV_BACKTRACE).
    + destruct (lbt (lg s (elg e))); repeat split.
    + pose proof (dispatch_core s e (lsinks (lg s (elg e)))) as H.
      destruct (dispatch s e (lsinks (lg s (elg e)))) as [s' threw]. cbn [fst] in H.
      destruct threw; [eapply bcore_trans; [exact H|repeat split]|].
      destruct (lbtlvl (lg s' (elg e)) <=? elvl e); [|exact H].
      pose proof (replay_bt_core s' (elg e)) as H2. destruct (replay_bt K s' (elg e)) as [s2 t2]. cbn [fst] in H2.
      destruct t2; [eapply bcore_trans; [exact H|]; eapply bcore_trans; [exact H2|repeat split]|eapply bcore_trans; eauto].
  - repeat split.
  - repeat split.
  - pose proof (replay_bt_core s (elg e)) as H2. destruct (replay_bt K s (elg e)) as [s2 t2]. cbn [fst] in H2.
    destruct t2; [eapply bcore_trans; [exact H2|repeat split]|exact H2].
Qed.

Lemma min_front_some s l : forall best u e, min_front s l best = Some (u, e) ->
  (forall v b, best = Some (v, b) -> exists r, tbuf (th s v) = b :: r) ->
  exists r, tbuf (th s u) = e :: r.
Proof.
  induction l as [|v l IH]; intros best u e H Hb; cbn [min_front] in H.
  - eauto.
  - destruct (tbuf (th s v)) as [|f r] eqn:Ev; [eauto|].
    destruct best as [[bu b]|].
    + destruct (ets f <? ets b); eapply IH; eauto; intros v' b' Eq; inversion Eq; subst; eauto.
    + eapply IH; eauto. intros v' b' Eq; inversion Eq; subst; eauto.
Qed.

Lemma process_min_good s : Good s -> Good (fst (process_min K s)).
Proof.
  intros G. unfold process_min.
  destruct (min_front s (cache s) None) as [[u e]|] eqn:MF; [|exact G].
  destruct (min_front_some s _ _ _ _ MF ltac:(intros; discriminate)) as [r Hr].
  set (s1 := process_event K s e).
  assert (C1 : th s1 = th s /\ issued s1 = issued s /\ delivered s1 = delivered s).
  { pose proof (process_event_core s e) as (A & B & Cc & _). unfold s1. auto. }
  destruct C1 as (A & B & Cc).
  assert (G3 : Good (pop_event s1 u e)).
  { destruct G as [I P]. unfold pop_event. rewrite A. split.
    - intro t. cbn [th issued delivered]. rewrite B, Cc. upd_cases t u; [|apply I].
      destruct (I u) as [Hc Hs Hrr Ha Hp Hx]. rewrite Hr in *. constructor; cbn; auto.
      + rewrite Hc. cbn. now rewrite <- app_assoc.
      + intros; discriminate.
    - intros t e'. cbn [th]. upd_cases t u; [cbn; apply P|apply P]. }
  destruct (ekind e); cbn [fst]; try exact G3.
  eapply same_core_good; [| | |apply (cleanup_ctx_good _ G3)]; reflexivity.
Qed.

Lemma pending_scan_good s l : Good s -> Good (fst (pending_scan s l)).
Proof.
  revert s. induction l as [|u r IH]; intros s G; cbn [pending_scan]; [exact G|].
  destruct (tbuf (th s u)); [|apply IH; exact G].
  pose proof (good_qempty s u G) as G1. destruct (q_empty (th s u)) as [x1 e]. cbn [fst] in *.
  destruct e; [apply IH; exact G1|exact G1].
Qed.

Lemma all_empty_scan_good s l acc : Good s -> Good (fst (all_empty_scan s l acc)).
Proof.
  revert s acc. induction l as [|u r IH]; intros s acc G; cbn [all_empty_scan]; [exact G|].
  pose proof (good_qempty s u G) as G1. destruct (q_empty (th s u)) as [x1 e]. cbn [fst] in *. apply IH. exact G1.
Qed.

Lemma bstep_good s : Good s -> Good (bstep K s).
Proof.
  intros G. unfold bstep. destruct (pc s) as [| | |[|u todo]| | | | |].
  - eapply same_core_good; [| | |apply (refresh_good _ G)]; reflexivity.
  - exact G.
  - destruct (c_refresh2 K); [eapply same_core_good; [| | |apply (refresh_good _ G)]; reflexivity|exact G].
  - destruct (buffered s =? 0); [exact G|]. destruct (buffered s <? c_soft K); exact G.
  - pose proof (read_queue_inv (tsnow s) (th s u) _ _ (proj1 G u)) as [T1 P1].
    destruct (read_queue K (tsnow s) (th s u)) as [[x1 notes] esc]. cbn [fst] in *.
    pose proof (good_thr s u x1 G T1 P1) as G1.
    destruct esc; (eapply same_core_good; [| | |exact G1]; reflexivity).
  - eapply same_core_good; [| | |apply (process_min_good _ G)]; reflexivity.
  - pose proof (refresh_good _ G) as G0.
    pose proof (pending_scan_good (refresh K s) (cache (refresh K s)) G0) as G1.
    destruct (pending_scan (refresh K s) (cache (refresh K s))) as [s1 pending]. cbn [fst] in *.
    destruct pending; [exact G1|].
    pose proof (process_min_good s1 G1) as G2. destruct (process_min K s1) as [s2 did]. cbn [fst] in *.
    destruct did; exact G2.
  - idle_cases; exact G.
  - eapply same_core_good; [| | |apply (report_failures_good s (cache s) G)]; reflexivity.
  - pose proof (refresh_good _ G) as G0.
    pose proof (all_empty_scan_good (refresh K s) (cache (refresh K s)) true G0) as G1.
    destruct (all_empty_scan (refresh K s) (cache (refresh K s)) true) as [s1 e]. cbn [fst] in *.
    destruct e; [|exact G1].
    eapply same_core_good; [| | |apply (cleanup_ctx_good _ G1)]; reflexivity.
Qed.

Definition pos_ops (ops : list op) : Prop := Forall (fun o => match o with F f => pos_op f | B => True end) ops.

Lemma step_good s o : match o with F f => pos_op f | B => True end -> Good s -> Good (step K s o).
Proof. destruct o; cbn [step]; intros H G; [apply fstep_inv; assumption|apply bstep_good; assumption]. Qed.

Theorem run_good ops : pos_ops ops -> forall s, Good s -> Good (run K s ops).
Proof.
  unfold run. induction 1 as [|o ops Ho Hops IH]; intros s G; cbn [fold_left]; [exact G|].
  apply IH. now apply step_good.
Qed.

(* the conservation statement itself, for every op list from the initial state *)
Theorem be_conservation (s0 : st) ops :
  (forall t, fresh_thr (th s0 t) /\ issued s0 t = [] /\ delivered s0 t = []) -> pos_ops ops ->
  let s := run K s0 ops in
  forall t, issued s t = delivered s t ++ map eid (tbuf (th s t)) ++ map eid (qev (th s t)).
Proof.
  intros H0 Hp s t.
  assert (G0 : Good s0).
  { split; [intro u; destruct (H0 u) as ((v & ->) & -> & ->); apply TInv_fresh|intros u e; destruct (H0 u) as ((v & ->) & _); discriminate]. }
  apply (t_cons _ _ _ (proj1 (run_good ops Hp s0 G0) t)).
Qed.
End Inv.
