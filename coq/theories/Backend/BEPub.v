(* C09 at the level of the backend: in M-BE the published reader position of every thread's queue is exact
   whenever the consumer has nothing left to read, at every micro-step boundary and for every schedule - the
   discipline "commit_read after every pass that read something" (read_queue), the publish-on-drain rule of
   commit_read (T-src) and the emptiness checks keep it. Consequence: a producer whose queue is empty (the
   backend consumed what was ahead of it) is granted any record that fits the capacity at its next retry - it is
   never left waiting, and a dropping queue does not refuse it. *)
From Coq Require Import List NArith Arith Bool Lia.
From Quill Require Import Queue.BQDefs Queue.BQSeqProofs BT.BTModel Backend.BEDefs Backend.BEInv.
Import ListNotations.
Local Open Scope N_scope.

Section Pub.
Variable K : cfg.
Notation C := (c_cap K).
Hypothesis Hdrain : on_drain (c_pub K) = true.

(* PubInv of BQSeqProofs, and its form at a step boundary (no read pass is open) *)
Definition POK (b : bq) : Prop := dirty b = false -> ar b = rpos b \/ rpos b <> wcache b.
Definition QOK (b : bq) : Prop := dirty b = false /\ (ar b = rpos b \/ rpos b <> wcache b).
Definition PubI (s : st) : Prop := forall t, QOK (q (th s t)).

Lemma QOK_POK b : QOK b -> POK b. Proof. intros [_ H] _. exact H. Qed.
Lemma QOK_init : QOK bq_init. Proof. split; [reflexivity|left; reflexivity]. Qed.

Lemma pw_consumer b n : let b1 := fst (prepare_write ideal C b n) in
  dirty b1 = dirty b /\ ar b1 = ar b /\ rpos b1 = rpos b /\ wcache b1 = wcache b.
Proof.
  unfold prepare_write. destruct (nofit ideal C (wpos b) (rcache b) n);
    [cbn [wpos rcache]; destruct (nofit ideal C (wpos b) (ar b) n)|]; cbn; auto.
Qed.
Lemma QOK_pw b n : QOK b -> QOK (fst (prepare_write ideal C b n)).
Proof. destruct (pw_consumer b n) as (E1 & E2 & E3 & E4). unfold QOK. rewrite E1, E2, E3, E4. auto. Qed.
Lemma QOK_write b n : QOK b -> QOK (commit_write (finish_write ideal b n)).
Proof. unfold QOK; cbn. auto. Qed.

Lemma POK_empty b : SInv C b -> POK b -> POK (fst (empty b)).
Proof.
  intros I P. destruct (empty_inv C b I) as (_ & _ & Hrp & _ & Hd & Har & _ & Hwc).
  intro D. rewrite Hd in D. specialize (P D). rewrite Har, Hrp.
  destruct Hwc as [->|[Eq ->]]; [exact P|]. destruct P as [P|P]; [now left|congruence].
Qed.
Lemma QOK_empty b : SInv C b -> QOK b -> QOK (fst (empty b)).
Proof.
  intros I [D P]. destruct (empty_inv C b I) as (_ & _ & _ & _ & Hd & _).
  split; [congruence|]. apply POK_empty; [exact I|intros _; exact P|congruence].
Qed.

Lemma QOK_commit_read b : QOK (commit_read ideal (c_batch K) (c_pub K) b).
Proof.
  unfold commit_read, should_publish. rewrite Hdrain. cbn [andb].
  destruct (N.eqb_spec (rpos b) (wcache b)) as [Eq|Ne].
  - rewrite orb_true_r. split; [reflexivity|now left].
  - rewrite orb_false_r. destruct (on_batch (c_pub K) && (c_batch K <=? a_sub ideal (rpos b) (ar b))); split; cbn; auto.
Qed.

Lemma q_empty_q x : q (fst (q_empty x)) = fst (empty (q x)).
Proof. unfold q_empty. destruct (empty (q x)). reflexivity. Qed.

Lemma QOK_q_empty x iss del : TInv K x iss del -> QOK (q x) -> QOK (q (fst (q_empty x))).
Proof. intros T H. rewrite q_empty_q. apply QOK_empty; [exact (t_seq K _ _ _ T)|exact H]. Qed.

(* the decode loop: the publication invariant is kept, and as long as nothing was consumed no pass is open *)
Lemma read_loop_pub fuel lim tn : forall x total notes iss del,
  TInv K x iss del -> POK (q x) ->
  let r := read_loop K fuel lim tn x total notes in
  POK (q (fst (fst (fst r)))) /\ total <= snd (fst (fst r)) /\
  (snd (fst (fst r)) = total -> dirty (q (fst (fst (fst r)))) = dirty (q x)).
Proof.
  induction fuel as [|f IH]; intros x total notes iss del T P; cbn [read_loop]; [cbn; split; [exact P|split; [lia|auto]]|].
  destruct T as [Hc Hs Hr Ha Hp Hx].
  pose proof (pr_cases K (q x) Hs) as (S1 & R1 & A1 & W1 & F1).
  assert (Pq1 : POK (fst (prepare_read ideal C (q x))) /\ dirty (fst (prepare_read ideal C (q x))) = dirty (q x)).
  { unfold prepare_read. pose proof (POK_empty (q x) Hs P) as Pe.
    destruct (empty_inv C (q x) Hs) as (_ & _ & _ & _ & Hd & _).
    destruct (empty (q x)) as [q1 em]. cbn [fst] in *. destruct em; cbn [fst]; auto. }
  destruct Pq1 as [Pq1 Dq1].
  destruct (prepare_read ideal C (q x)) as [q1 r]. cbn [fst snd] in *.
  assert (Stop : forall y, q y = q1 -> POK (q y) /\ total <= total /\ (total = total -> dirty (q y) = dirty (q x))).
  { intros y ->. split; [exact Pq1|split; [lia|auto]]. }
  destruct (u_blocked K x); [cbn [fst snd]; apply Stop; reflexivity|].
  destruct r as [off|]; [|cbn [fst snd]; apply Stop; reflexivity].
  destruct (qev x) as [|e rest] eqn:Eq; [cbn [fst snd]; apply Stop; reflexivity|].
  destruct (negb (c_grace K =? 0) && (tn <? ets e)); [cbn [fst snd]; apply Stop; reflexivity|].
  assert (Hrec : recs (q x) = esz e :: map esz rest) by (rewrite Hr; reflexivity).
  specialize (F1 ltac:(discriminate) _ _ Hrec).
  assert (Hpos : 0 < esz e) by (inversion Hp; assumption).
  assert (Tmove : forall c g, TInv K (sh g (set_thr_tbuf (set_thr_q x (finish_read ideal q1 (esz e)) rest) (tbuf x ++ [e]) c)) iss del).
  { intros c g. apply TInv_sh. constructor; cbn [set_thr_tbuf set_thr_q q qev tbuf texists]; auto.
    - rewrite Hc, map_app. cbn. now rewrite <- app_assoc.
    - cbn [finish_read recs]. rewrite R1, Hrec. reflexivity.
    - cbn [finish_read aw wpos]. congruence.
    - now inversion Hp.
    - intros; discriminate. }
  assert (Pmove : POK (finish_read ideal q1 (esz e))) by (intro D; cbn in D; discriminate).
  assert (Hgo : forall c g,
    let x1 := sh g (set_thr_tbuf (set_thr_q x (finish_read ideal q1 (esz e)) rest) (tbuf x ++ [e]) c) in
    let r := if (total + esz e <? lim) && (N.of_nat (length (tbuf x1)) <? c_hard K)
             then read_loop K f lim tn x1 (total + esz e) (notes ++ fmt_notes e)
             else (x1, total + esz e, notes ++ fmt_notes e, false) in
    POK (q (fst (fst (fst r)))) /\ total <= snd (fst (fst r)) /\
    (snd (fst (fst r)) = total -> dirty (q (fst (fst (fst r)))) = dirty (q x))).
  { intros c g x1 r. unfold r.
    destruct ((total + esz e <? lim) && (N.of_nat (length (tbuf x1)) <? c_hard K)).
    - destruct (IH x1 (total + esz e) (notes ++ fmt_notes e) iss del (Tmove c g) Pmove) as (A & B & _).
      split; [exact A|]. split; [lia|]. intro Eq'. lia.
    - cbn [fst snd]. split; [exact Pmove|]. split; [lia|]. intro Eq'. lia. }
  destruct (efmt e); destruct (ekind e); destruct (c_catch_all K);
    try (cbn [fst snd]; apply Stop; reflexivity); apply Hgo.
Qed.

Lemma read_queue_pub tn x iss del : TInv K x iss del -> QOK (q x) -> QOK (q (fst (fst (read_queue K tn x)))).
Proof.
  intros T [D P]. unfold read_queue.
  pose proof (read_loop_pub (S (length (qev x))) (read_limit K x) tn x 0 [] iss del T (fun _ => P)) as H.
  destruct (read_loop K (S (length (qev x))) (read_limit K x) tn x 0 []) as [[[x1 total] notes] esc]. cbn [fst snd] in H.
  destruct H as (P1 & _ & H0).
  destruct (N.eqb_spec total 0) as [->|Ne]; cbn [fst].
  - specialize (H0 eq_refl). split; [congruence|]. apply P1. congruence.
  - cbn. apply QOK_commit_read.
Qed.

(* ---------- every step keeps it *)
Ltac thr_cases u t := unfold upd; destruct (Nat.eqb_spec u t) as [->|?].

Lemma pubi_same s s' : th s' = th s -> PubI s -> PubI s'.
Proof. intros E H t. rewrite E. apply H. Qed.

Lemma fstep_pubi s o : Good K s -> PubI s -> PubI (fstep K s o).
Proof.
  intros [I _] P. destruct o as [t e|t|t|t|t|l v|k v|k m|d|t c]; cbn [fstep].
  - destruct (pend (th s t)); [exact P|]. destruct (tvalid (th s t) && passes_logger s e); [|exact P].
    intro u. cbn. thr_cases u t; [cbn|]; apply P.
  - destruct (memb t (registered s) || negb (tvalid (th s t))); exact P.
  - destruct (pend (th s t)) as [e0|]; [|exact P].
    destruct (negb (memb t (registered s))); [exact P|].
    cbv zeta. set (e := retime K s e0).
    pose proof (QOK_pw (q (th s t)) (esz e) (P t)) as H1.
    destruct (prepare_write ideal C (q (th s t)) (esz e)) as [q1 [off|]]; cbn [fst] in H1.
    + destruct (ekind e); intro u; cbn [th set_th set_lg]; thr_cases u t; cbn; try (apply P); apply QOK_write; exact H1.
    + destruct (match ekind e with KLog => negb (counted (th s t)) | _ => false end);
        destruct (c_dropping K); try destruct (ekind e);
        intro u; cbn [th set_th set_gh]; thr_cases u t; cbn; try (apply P); exact H1.
  - destruct (wflush (th s t)); [|exact P]. destruct (existsb (N.eqb n) (flags s)); [|exact P].
    intro u. cbn. thr_cases u t; [cbn|]; apply P.
  - destruct (tvalid (th s t) && memb t (registered s)).
    + intro u. cbn. thr_cases u t; [cbn|]; apply P.
    + destruct (tvalid (th s t)); [|exact P]. intro u. cbn. thr_cases u t; [cbn|]; apply P.
  - exact P.
  - exact P.
  - destruct (existsb (N.eqb m) (sfilt (sk s k)) || (m =? 0)); exact P.
  - exact P.
  - intro u. cbn. thr_cases u t; [cbn|]; apply P.
Qed.

Lemma refresh_pubi s : PubI s -> PubI (refresh K s).
Proof.
  intros P. unfold refresh. destruct (newflag s); [|exact P].
  intro t. cbn. destruct (memb t (registered s) && negb (texists (th s t))); cbn; apply P.
Qed.

Lemma qempty_pubi s u : Good K s -> PubI s -> PubI (set_th s (upd (th s) u (fst (q_empty (th s u))))).
Proof.
  intros [I _] P t. cbn. thr_cases t u; [|apply P]. eapply QOK_q_empty; [apply I|apply P].
Qed.

Lemma pending_scan_pubi s l : Good K s -> PubI s -> PubI (fst (pending_scan s l)).
Proof.
  revert s. induction l as [|u r IH]; intros s G P; cbn [pending_scan]; [exact P|].
  destruct (tbuf (th s u)); [|apply IH; assumption].
  pose proof (good_qempty K s u G) as G1. pose proof (qempty_pubi s u G P) as P1.
  destruct (q_empty (th s u)) as [x1 e]. cbn [fst] in *.
  destruct e; [apply IH; assumption|exact P1].
Qed.

Lemma all_empty_scan_pubi s l acc : Good K s -> PubI s -> PubI (fst (all_empty_scan s l acc)).
Proof.
  revert s acc. induction l as [|u r IH]; intros s acc G P; cbn [all_empty_scan]; [exact P|].
  pose proof (good_qempty K s u G) as G1. pose proof (qempty_pubi s u G P) as P1.
  destruct (q_empty (th s u)) as [x1 e]. cbn [fst] in *. apply IH; assumption.
Qed.

Lemma report_failures_pubi s l : PubI s -> PubI (report_failures K s l).
Proof.
  revert s. induction l as [|u r IH]; intros s P; cbn [report_failures]; [exact P|].
  destruct (failc (th s u) =? 0); [apply IH; exact P|]. apply IH.
  intro t. cbn. thr_cases t u; [cbn|]; apply P.
Qed.

Lemma find_dead_pubi s l : Good K s -> PubI s -> PubI (fst (find_dead s l)).
Proof.
  revert s. induction l as [|u r IH]; intros s G P; cbn [find_dead]; [exact P|].
  destruct (tvalid (th s u)); [apply IH; assumption|].
  pose proof (good_qempty K s u G) as G1. pose proof (qempty_pubi s u G P) as P1.
  destruct (q_empty (th s u)) as [x1 e]. cbn [fst] in *.
  destruct (e && match tbuf x1 with [] => true | _ => false end); [exact P1|apply IH; assumption].
Qed.

Lemma cleanup_loop_pubi fuel : forall s, Good K s -> PubI s -> PubI (cleanup_loop K fuel s).
Proof.
  induction fuel as [|f IH]; intros s G P; cbn [cleanup_loop]; [exact P|].
  pose proof (find_dead_pubi s (cache s) G P) as P0.
  destruct (find_dead_good K s (cache s) G) as (G1 & Hd & Hi & Hdl).
  destruct (find_dead s (cache s)) as [s0 [u|]]; cbn [fst snd] in *; [|exact P0].
  destruct (Hd u eq_refl) as [Hq Ht].
  set (s1 := if c_report_first K then report_failures K s0 (cache s0) else s0).
  assert (G1' : Good K s1) by (unfold s1; destruct (c_report_first K); [apply report_failures_good|]; exact G1).
  assert (P1 : PubI s1) by (unfold s1; destruct (c_report_first K); [apply report_failures_pubi|]; exact P0).
  assert (Hq1 : qev (th s1 u) = [] /\ tbuf (th s1 u) = []).
  { unfold s1. destruct (c_report_first K); [|split; assumption]. apply report_failures_keeps; split; assumption. }
  clear Hq Ht. destruct Hq1 as [Hq Ht]. destruct G1' as [I1 Pp1].
  apply IH.
  - split.
    + intro t. cbn. thr_cases t u; [|apply I1].
      destruct (I1 u) as [Hc Hs Hr Ha Hp Hx]. rewrite Hq, Ht in Hc. cbn in Hc. rewrite app_nil_r in Hc.
      constructor; cbn; auto. now rewrite app_nil_r. apply SInv_init.
    + intros t e. cbn. thr_cases t u; [cbn; apply Pp1|apply Pp1].
  - intro t. cbn. thr_cases t u; [cbn; apply QOK_init|apply P1].
Qed.

Lemma cleanup_ctx_pubi s : Good K s -> PubI s -> PubI (cleanup_ctx K s).
Proof. intros G P. unfold cleanup_ctx. destruct (invalid_cnt s =? 0); [exact P|]. now apply cleanup_loop_pubi. Qed.

Lemma process_min_pubi s : Good K s -> PubI s -> PubI (fst (process_min K s)).
Proof.
  intros G P. unfold process_min.
  destruct (min_front s (cache s) None) as [[u e]|] eqn:MF; [|exact P].
  destruct (min_front_some s _ _ _ _ MF ltac:(intros; discriminate)) as [r Hr].
  set (s1 := process_event K s e).
  assert (C1 : th s1 = th s /\ issued s1 = issued s /\ delivered s1 = delivered s).
  { pose proof (process_event_core K s e) as (A & B & Cc & _). unfold s1. auto. }
  destruct C1 as (A & B & Cc).
  assert (P3 : PubI (pop_event s1 u e)).
  { intro t. unfold pop_event. cbn [th]. rewrite A. thr_cases t u; [cbn|]; apply P. }
  assert (G3 : Good K (pop_event s1 u e)).
  { pose proof (process_min_good K s G) as H. unfold process_min in H. rewrite MF in H. fold s1 in H.
    destruct (ekind e) eqn:Ek; cbn [fst] in H; try exact H.
    (* KFlush: re-derive as in process_min_good *)
    destruct G as [I Pp]. unfold pop_event. rewrite A. split.
    - intro t. cbn [th issued delivered]. rewrite B, Cc. thr_cases t u; [|apply I].
      destruct (I u) as [Hc Hs Hrr Ha Hp Hx]. rewrite Hr in *. constructor; cbn; auto.
      + rewrite Hc. cbn. now rewrite <- app_assoc.
      + intros; discriminate.
    - intros t e'. cbn [th]. thr_cases t u; [cbn; apply Pp|apply Pp]. }
  destruct (ekind e); cbn [fst]; try exact P3.
  eapply pubi_same; [|apply (cleanup_ctx_pubi _ G3 P3)]. reflexivity.
Qed.

Lemma bstep_pubi s : Good K s -> PubI s -> PubI (bstep K s).
Proof.
  intros G P. unfold bstep. destruct (pc s) as [| | |[|u todo]| | | | |].
  - eapply pubi_same; [|apply (refresh_pubi _ P)]. reflexivity.
  - exact P.
  - destruct (c_refresh2 K); [eapply pubi_same; [|apply (refresh_pubi _ P)]; reflexivity|exact P].
  - destruct (buffered s =? 0); [exact P|]. destruct (buffered s <? c_soft K); exact P.
  - pose proof (read_queue_pub (tsnow s) (th s u) _ _ (proj1 G u) (P u)) as Q1.
    destruct (read_queue K (tsnow s) (th s u)) as [[x1 notes] esc]. cbn [fst] in *.
    assert (P1 : PubI (set_th s (upd (th s) u x1))) by (intro t; cbn; thr_cases t u; [exact Q1|apply P]).
    destruct esc; (eapply pubi_same; [|exact P1]; reflexivity).
  - eapply pubi_same; [|apply (process_min_pubi _ G P)]. reflexivity.
  - pose proof (refresh_good K _ G) as G0. pose proof (refresh_pubi _ P) as P0.
    pose proof (pending_scan_good K (refresh K s) (cache (refresh K s)) G0) as G1.
    pose proof (pending_scan_pubi (refresh K s) (cache (refresh K s)) G0 P0) as P1.
    destruct (pending_scan (refresh K s) (cache (refresh K s))) as [s1 pending]. cbn [fst] in *.
    destruct pending; [exact P1|].
    pose proof (process_min_pubi s1 G1 P1) as P2. destruct (process_min K s1) as [s2 did]. cbn [fst] in *.
    destruct did; exact P2.
  - idle_cases; exact P.
  - eapply pubi_same; [|apply (report_failures_pubi s (cache s) P)]. reflexivity.
  - pose proof (refresh_good K _ G) as G0. pose proof (refresh_pubi _ P) as P0.
    pose proof (all_empty_scan_good K (refresh K s) (cache (refresh K s)) true G0) as G1.
    pose proof (all_empty_scan_pubi (refresh K s) (cache (refresh K s)) true G0 P0) as P1.
    destruct (all_empty_scan (refresh K s) (cache (refresh K s)) true) as [s1 e]. cbn [fst] in *.
    destruct e; [|exact P1].
    eapply pubi_same; [|apply (cleanup_ctx_pubi _ G1 P1)]. reflexivity.
Qed.

Theorem run_pubi ops : pos_ops ops -> forall s, Good K s -> PubI s -> PubI (run K s ops).
Proof.
  unfold run. induction 1 as [|o ops Ho Hops IH]; intros s G P; cbn [fold_left]; [exact P|].
  apply IH; [now apply step_good|].
  destruct o as [f|]; cbn [step]; [now apply fstep_pubi|now apply bstep_pubi].
Qed.

(* ---------- C09 at the backend level *)
(* every configuration with the publish-on-drain rule, every history of frontend and backend micro-steps, every
   thread: when the thread's queue holds nothing (the backend consumed whatever was ahead), its pending statement -
   parked in the retry loop of a blocking queue, or about to be offered to a dropping one - is granted at the next
   try, provided it fits the capacity: it is enqueued and the call returns. *)
Theorem be_empty_queue_grants (s0 : st) ops t e0 :
  (forall u, fresh_thr (th s0 u) /\ issued s0 u = [] /\ delivered s0 u = []) -> pos_ops ops ->
  let s := run K s0 ops in
  pend (th s t) = Some e0 -> memb t (registered s) = true -> qev (th s t) = [] -> esz e0 <= C ->
  let s' := fstep K s (FTry t) in
  pend (th s' t) = None /\ issued s' t = issued s t ++ [eid e0] /\ map eid (qev (th s' t)) = [eid e0].
Proof.
  intros H0 Hp s Hpe Hreg Hq Hsz.
  assert (G0 : Good K s0).
  { split; [intro u; destruct (H0 u) as ((v & ->) & -> & ->); apply TInv_fresh|intros u e; destruct (H0 u) as ((v & ->) & _); discriminate]. }
  assert (P0 : PubI s0) by (intro u; destruct (H0 u) as ((v & ->) & _); apply QOK_init).
  pose proof (run_good K ops Hp s0 G0) as G. pose proof (run_pubi ops Hp s0 G0 P0) as P. fold s in G, P.
  destruct (proj1 G t) as [Hc [h1 h2 h3 h4 h5 h6 h7 h8 h9] Hr Ha Hpos Hx]. destruct (P t) as [D Pub].
  rewrite Hq in Hr. cbn in Hr. rewrite Hr in h7. cbn in h7.
  assert (Har : ar (q (th s t)) = rpos (q (th s t))) by (destruct Pub as [E|NE]; [exact E|exfalso; apply NE; lia]).
  cbn [fstep]. rewrite Hpe, Hreg. cbn [negb]. cbv zeta.
  set (e := retime K s e0).
  assert (He : esz e = esz e0 /\ eid e = eid e0) by (unfold e, retime; destruct (ekind e0), (c_dropping K); split; reflexivity).
  destruct He as [Hes Hei].
  assert (Hgr : exists q1 off, prepare_write ideal C (q (th s t)) (esz e) = (q1, Some off)).
  { unfold prepare_write. destruct (nofit ideal C (wpos (q (th s t))) (rcache (q (th s t))) (esz e)); [|eauto].
    cbn [wpos rcache].
    assert (F : nofit ideal C (wpos (q (th s t))) (ar (q (th s t))) (esz e) = false).
    { unfold nofit; cbn [a_sub ideal]. apply N.ltb_ge. lia. }
    rewrite F. eauto. }
  destruct Hgr as (q1 & off & ->).
  destruct (ekind e); cbn; unfold upd; rewrite Nat.eqb_refl; cbn; rewrite Hq; cbn; rewrite Hei; repeat split; reflexivity.
Qed.
End Pub.
