(* Threads without a registered context hold nothing: a thread that never registered, or whose context was
   removed after it exited, has an empty queue and an empty transit buffer (so, with conservation, everything
   it ever committed was processed). Used to state C07 for every thread, removed contexts included. *)
From Coq Require Import List NArith Arith Bool Lia.
From Quill Require Import Queue.BQDefs BT.BTModel Backend.BEDefs Backend.BEInv Backend.OrdSim Backend.BEExit.
Import ListNotations.
Local Open Scope N_scope.

Section Unreg.
Variable K : cfg.

Definition PU (s : st) : Prop := forall t, In t (registered s) \/ (qev (th s t) = [] /\ tbuf (th s t) = []).

(* nothing the invariant looks at changes *)
Definition lsame (s s' : st) : Prop :=
  registered s' = registered s /\ forall t, qev (th s' t) = qev (th s t) /\ tbuf (th s' t) = tbuf (th s t).
Lemma lsame_refl s : lsame s s. Proof. split; auto. Qed.
Lemma lsame_trans a b c : lsame a b -> lsame b c -> lsame a c.
Proof. intros [A1 A2] [B1 B2]. split; [congruence|]. intro t. destruct (A2 t), (B2 t). split; congruence. Qed.
Lemma pu_lsame s s' : lsame s s' -> PU s -> PU s'.
Proof. intros [A B] H t. destruct (B t) as [-> ->]. rewrite A. apply H. Qed.
Lemma lsame_th s s' : th s' = th s -> registered s' = registered s -> lsame s s'.
Proof. intros A B. split; [exact B|]. intro t. now rewrite A. Qed.

Lemma qempty_ls s u : lsame s (set_th s (upd (th s) u (fst (q_empty (th s u))))).
Proof.
  split; [reflexivity|]. intro t. cbn. unfold upd. destruct (Nat.eqb_spec t u) as [->|]; [|auto].
  destruct (q_empty_fields (th s u)) as (A & B & _). auto.
Qed.
Lemma pending_scan_ls l : forall s, lsame s (fst (pending_scan s l)).
Proof.
  induction l as [|u r IH]; intro s; cbn [pending_scan]; [apply lsame_refl|].
  destruct (tbuf (th s u)); [|apply IH]. pose proof (qempty_ls s u) as H. destruct (q_empty (th s u)) as [x1 e]. cbn [fst] in H.
  destruct e; [eapply lsame_trans; [exact H|apply IH]|exact H].
Qed.
Lemma all_empty_scan_ls l : forall s acc, lsame s (fst (all_empty_scan s l acc)).
Proof.
  induction l as [|u r IH]; intros s acc; cbn [all_empty_scan]; [apply lsame_refl|].
  pose proof (qempty_ls s u) as H. destruct (q_empty (th s u)) as [x1 e]. cbn [fst] in H. eapply lsame_trans; [exact H|apply IH].
Qed.
Lemma find_dead_ls l : forall s, lsame s (fst (find_dead s l)).
Proof.
  induction l as [|u r IH]; intro s; cbn [find_dead]; [apply lsame_refl|].
  destruct (tvalid (th s u)); [apply IH|]. pose proof (qempty_ls s u) as H. destruct (q_empty (th s u)) as [x1 e]. cbn [fst] in H.
  destruct (e && match tbuf x1 with [] => true | _ => false end); [exact H|eapply lsame_trans; [exact H|apply IH]].
Qed.
Lemma report_failures_ls l : forall s, lsame s (report_failures K s l).
Proof.
  induction l as [|u r IH]; intro s; cbn [report_failures]; [apply lsame_refl|].
  destruct (failc (th s u) =? 0); [apply IH|]. eapply lsame_trans; [|apply IH].
  split; [reflexivity|]. intro t. cbn. unfold upd. destruct (Nat.eqb_spec t u) as [->|]; auto.
Qed.

Lemma refresh_pu s : PU s -> PU (refresh K s).
Proof.
  intros H t. unfold refresh. destruct (newflag s); [|apply H]. cbn.
  destruct (memb t (registered s) && negb (texists (th s t))) eqn:E; [|apply H].
  apply andb_prop in E as [E _]. left. unfold memb in E. apply existsb_exists in E as (x & Hx & Ex). apply Nat.eqb_eq in Ex. now subst.
Qed.

(* a thread with an empty queue: a read changes nothing *)
Lemma read_queue_nil tn x : qev x = [] -> let x1 := fst (fst (read_queue K tn x)) in qev x1 = [] /\ tbuf x1 = tbuf x.
Proof.
  intro Hq. unfold read_queue. rewrite Hq. cbn [length read_loop].
  destruct (prepare_read ideal (c_cap K) (q x)) as [q1 r]. destruct (u_blocked K x).
  - rewrite Hq. cbn. rewrite ?Hq. auto.
  - destruct r; rewrite Hq; cbn; rewrite ?Hq; auto.
Qed.
Lemma read_step_pu s u : PU s ->
  let '(x1, notes, esc) := read_queue K (tsnow s) (th s u) in
  forall s', th s' = upd (th s) u x1 -> registered s' = registered s -> PU s'.
Proof.
  intro H. pose proof (read_queue_nil (tsnow s) (th s u)) as Hn.
  destruct (read_queue K (tsnow s) (th s u)) as [[x1 notes] esc]. cbn [fst] in Hn.
  intros s' Ht Hr t. rewrite Hr, Ht. unfold upd. destruct (Nat.eqb_spec t u) as [->|]; [|apply H].
  destruct (H u) as [Hin|[Hq Hb]]; [now left|]. right. destruct (Hn Hq) as [A B]. split; [exact A|]. now rewrite B.
Qed.

Lemma cleanup_loop_pu fuel : forall s, PU s -> PU (cleanup_loop K fuel s).
Proof.
  induction fuel as [|f IH]; intros s H; cbn [cleanup_loop]; [exact H|].
  pose proof (pu_lsame _ _ (find_dead_ls (cache s) s) H) as H0.
  destruct (find_dead s (cache s)) as [s0 [u|]]; cbn [fst] in H0; [|exact H0].
  set (s1 := if c_report_first K then report_failures K s0 (cache s0) else s0).
  assert (H1 : PU s1) by (unfold s1; destruct (c_report_first K); [eapply pu_lsame; [apply report_failures_ls|exact H0]|exact H0]).
  clearbody s1. apply IH. intro t. cbn. unfold upd. destruct (Nat.eqb_spec t u) as [->|Hne].
  - right. cbn. auto.
  - destruct (H1 t) as [Hin|He]; [|now right]. left. unfold remove_nat. apply filter_In. split; [exact Hin|].
    apply negb_true_iff, Nat.eqb_neq. exact Hne.
Qed.
Lemma cleanup_ctx_pu s : PU s -> PU (cleanup_ctx K s).
Proof. intro H. unfold cleanup_ctx. destruct (invalid_cnt s =? 0); [exact H|now apply cleanup_loop_pu]. Qed.

Lemma min_front_nonempty s l : forall best u e, min_front s l best = Some (u, e) ->
  (forall v b, best = Some (v, b) -> tbuf (th s v) <> []) -> tbuf (th s u) <> [].
Proof.
  induction l as [|w r IH]; intros best u e H Hb; cbn [min_front] in H.
  - subst best. now apply (Hb u e).
  - destruct (tbuf (th s w)) as [|a rest] eqn:Ew; [now apply (IH _ _ _ H)|].
    destruct best as [[v b]|].
    + destruct (ets a <? ets b); apply (IH _ _ _ H); intros v' b' E; inversion E; subst; try (rewrite Ew; discriminate). now apply (Hb v' b').
    + apply (IH _ _ _ H). intros v' b' E; inversion E; subst. rewrite Ew. discriminate.
Qed.

Lemma process_min_pu s : PU s -> PU (fst (process_min K s)).
Proof.
  intro H. unfold process_min. destruct (min_front s (cache s) None) as [[u e]|] eqn:MF; [|exact H].
  pose proof (min_front_nonempty s _ _ _ _ MF ltac:(intros; discriminate)) as Hne.
  destruct (process_event_core K s e) as (Ht & _ & _ & _ & _ & Hr & _).
  assert (H3 : PU (pop_event (process_event K s e) u e)).
  { intro t. cbn. rewrite Hr, Ht. unfold upd. destruct (Nat.eqb_spec t u) as [->|]; [|apply H].
    destruct (H u) as [Hin|[_ Hb]]; [now left|contradiction]. }
  destruct (ekind e); cbn [fst]; try exact H3.
  eapply pu_lsame; [|apply (cleanup_ctx_pu _ H3)]. apply lsame_th; reflexivity.
Qed.

Lemma fstep_pu s o : PU s -> PU (fstep K s o).
Proof.
  intro H. destruct o as [t e|t|t|t|t|l v|k v|k m|d|t c]; cbn [fstep]; try exact H.
  - destruct (pend (th s t)); [exact H|]. destruct (tvalid (th s t) && passes_logger s e); [|exact H].
    intro u. cbn. unfold upd. destruct (Nat.eqb_spec u t) as [->|]; apply H.
  - destruct (memb t (registered s) || negb (tvalid (th s t))); [exact H|]. intro u. cbn.
    destruct (H u) as [Hin|He]; [left; apply in_or_app; now left|now right].
  - destruct (pend (th s t)) as [e0|]; [|exact H]. destruct (negb (memb t (registered s))) eqn:Em; [exact H|].
    apply negb_false_iff in Em. assert (Hin : In t (registered s)).
    { unfold memb in Em. apply existsb_exists in Em as (x & Hx & Ex). apply Nat.eqb_eq in Ex. now subst. }
    assert (Gen : forall s' : st, registered s' = registered s -> (forall u, u <> t -> th s' u = th s u) -> PU s').
    { intros s' Hr Ho u. rewrite Hr. destruct (Nat.eq_dec u t) as [->|Hne]; [now left|]. rewrite (Ho u Hne). apply H. }
    cbv zeta. destruct (prepare_write ideal (c_cap K) (q (th s t)) (esz (retime K s e0))) as [q1 [off|]].
    + apply Gen; [destruct (ekind (retime K s e0)); reflexivity|].
      intros u Hne. destruct (ekind (retime K s e0)); cbn; unfold upd; destruct (Nat.eqb_spec u t); try contradiction; reflexivity.
    + destruct (match ekind (retime K s e0) with KLog => negb (counted (th s t)) | _ => false end);
        destruct (c_dropping K); try destruct (ekind (retime K s e0));
        (apply Gen; [reflexivity|intros u Hne; cbn; unfold upd; destruct (Nat.eqb_spec u t); try contradiction; reflexivity]).
  - destruct (wflush (th s t)); [|exact H]. destruct (existsb (N.eqb n) (flags s)); [|exact H].
    intro u. cbn. unfold upd. destruct (Nat.eqb_spec u t) as [->|]; apply H.
  - destruct (tvalid (th s t) && memb t (registered s)).
    + intro u. cbn. unfold upd. destruct (Nat.eqb_spec u t) as [->|]; apply H.
    + destruct (tvalid (th s t)); [|exact H]. intro u. cbn. unfold upd. destruct (Nat.eqb_spec u t) as [->|]; apply H.
  - destruct (existsb (N.eqb m) (sfilt (sk s k)) || (m =? 0)); exact H.
  - intro u. cbn. unfold upd. destruct (Nat.eqb_spec u t) as [->|]; apply H.
Qed.

Lemma bstep_pu s : PU s -> PU (bstep K s).
Proof.
  intro H. unfold bstep.
  assert (KS : forall s', th s' = th s -> registered s' = registered s -> PU s') by (intros s' A B; eapply pu_lsame; [apply lsame_th; eassumption|exact H]).
  destruct (pc s) as [| | |[|u todo]| | | | |].
  - eapply pu_lsame; [|apply (refresh_pu s H)]. apply lsame_th; reflexivity.
  - apply KS; reflexivity.
  - destruct (c_refresh2 K); [eapply pu_lsame; [|apply (refresh_pu s H)]; apply lsame_th; reflexivity|apply KS; reflexivity].
  - destruct (buffered s =? 0); [apply KS; reflexivity|]. destruct (buffered s <? c_soft K); apply KS; reflexivity.
  - pose proof (read_step_pu s u H) as R. destruct (read_queue K (tsnow s) (th s u)) as [[x1 notes] esc].
    destruct esc; apply R; reflexivity.
  - eapply pu_lsame; [|apply (process_min_pu s H)]. apply lsame_th; reflexivity.
  - pose proof (refresh_pu s H) as H0.
    pose proof (pu_lsame _ _ (pending_scan_ls (cache (refresh K s)) (refresh K s)) H0) as H1.
    destruct (pending_scan (refresh K s) (cache (refresh K s))) as [s1 pending]. cbn [fst] in H1.
    destruct pending; [eapply pu_lsame; [|exact H1]; apply lsame_th; reflexivity|].
    pose proof (process_min_pu s1 H1) as H2. destruct (process_min K s1) as [s2 did]. cbn [fst] in H2.
    destruct did; (eapply pu_lsame; [|exact H2]; apply lsame_th; reflexivity).
  - idle_cases; apply KS; reflexivity.
  - eapply pu_lsame; [|apply (pu_lsame _ _ (report_failures_ls (cache s) s) H)]. apply lsame_th; reflexivity.
  - pose proof (refresh_pu s H) as H0.
    pose proof (pu_lsame _ _ (all_empty_scan_ls (cache (refresh K s)) (refresh K s) true) H0) as H1.
    destruct (all_empty_scan (refresh K s) (cache (refresh K s)) true) as [s1 e]. cbn [fst] in H1.
    destruct e; [|eapply pu_lsame; [|exact H1]; apply lsame_th; reflexivity].
    eapply pu_lsame; [|apply (cleanup_ctx_pu _ H1)]. apply lsame_th; reflexivity.
Qed.

Theorem run_pu ops : forall s, PU s -> PU (run K s ops).
Proof.
  unfold run. induction ops as [|o ops IH]; intros s H; cbn [fold_left]; [exact H|].
  apply IH. destruct o as [f|]; [exact (fstep_pu s f H)|exact (bstep_pu s H)].
Qed.

(* ---------- the exit drain keeps it *)
Lemma read_all_pu l : forall s, PU s -> PU (read_all K s l).
Proof.
  induction l as [|u r IH]; intros s H; cbn [read_all]; [exact H|].
  pose proof (read_step_pu s u H) as R. destruct (read_queue K (tsnow s) (th s u)) as [[x1 notes] esc].
  destruct esc; [apply R; reflexivity|apply IH, R; reflexivity].
Qed.
Lemma exit_process_pu fuel : forall s, PU s -> PU (exit_process K fuel s).
Proof.
  induction fuel as [|f IH]; intros s H; cbn [exit_process]; [exact H|].
  pose proof (refresh_pu s H) as H0.
  pose proof (pu_lsame _ _ (pending_scan_ls (cache (refresh K s)) (refresh K s)) H0) as H1.
  destruct (pending_scan (refresh K s) (cache (refresh K s))) as [s1 pending]. cbn [fst] in H1.
  destruct pending; [exact H1|].
  pose proof (process_min_pu s1 H1) as H2. destruct (process_min K s1) as [s2 did]. cbn [fst] in H2.
  destruct did; [apply IH|]; exact H2.
Qed.
Lemma exit_iter_pu s : PU s -> PU (exit_iter K s).
Proof.
  intro H. assert (Hp : PU (exit_populate K s)).
  { unfold exit_populate. apply read_all_pu.
    assert (Ht : PU (set_tsnow s (if c_grace K =? 0 then MAXTS else clock s - c_grace K))) by (eapply pu_lsame; [|exact H]; apply lsame_th; reflexivity).
    destruct (c_refresh2 K); [now apply refresh_pu|exact Ht]. }
  unfold exit_iter. destruct (buffered (exit_populate K s) =? 0); [exact Hp|now apply exit_process_pu].
Qed.
Lemma exit_drain_pu ticks : forall s, PU s -> PU (fst (exit_drain K ticks s)).
Proof.
  induction ticks as [|d r IH]; intros s H; cbn [exit_drain]; [exact H|].
  pose proof (refresh_pu s H) as H0.
  pose proof (pu_lsame _ _ (all_empty_scan_ls (cache (refresh K s)) (refresh K s) true) H0) as H1.
  destruct (all_empty_scan (refresh K s) (cache (refresh K s)) true) as [s1 e]. cbn [fst] in H1.
  destruct e; cbn [fst].
  - eapply pu_lsame; [|apply (pu_lsame _ _ (report_failures_ls (cache s1) s1) H1)]. apply lsame_th; reflexivity.
  - apply IH, exit_iter_pu. exact (fstep_pu s1 (FTick d) H1).
Qed.
End Unreg.
