(* C18 at backend level: how _process_transit_event uses the backtrace storage. Every access is one
   BacktraceStorage operation (store / process / set_capacity), so the refinement theorem of M-BT
   (for every sequence of operations) applies to the storage of every logger. *)
From Coq Require Import List NArith Arith Bool Lia.
From Quill Require Import Queue.BQDefs BT.BTModel Backend.BEDefs Backend.BEInv Backend.BEDispatch Backend.BEFault.
Import ListNotations.
Local Open Scope N_scope.

Section Bt.
Variable K : cfg.

(* a LOG_BACKTRACE statement is held back: nothing is written, the event goes into the logger's storage
   (or, without init_backtrace, one error is reported) *)
Lemma bt_held_back s e : ekind e = KLog -> elvl e = LV_BACKTRACE ->
  let s' := process_event K s e in
  sk s' = sk s /\
  match lbt (lg s (elg e)) with
  | Some b => obs s' = obs s /\ lbt (lg s' (elg e)) = Some (fst (store (c_bt K) e b))
  | None => obs s' = obs s ++ [O_NOTE; 6; 0] /\ lg s' = lg s
  end.
Proof.
  intros Hk Hl. unfold process_event. rewrite Hk, Hl. cbn [N.eqb LV_BACKTRACE Pos.eqb].
  destruct (lbt (lg s (elg e))) as [b|]; cbn; [rewrite upd_same|]; auto.
Qed.

(* flush_backtrace(): exactly the events BacktraceStorage::process emits are dispatched, in that order,
   and the storage becomes what process leaves (empty) - when sink failures are contained *)
Lemma bt_flush_event s e b : ekind e = KFlushBt -> lbt (lg s (elg e)) = Some b -> c_bt_catch K = true ->
  process_event K s e = set_lg (fst (replay_events K s (lsinks (lg s (elg e))) (snd (process (c_bt K) b))))
                               (upd (lg (fst (replay_events K s (lsinks (lg s (elg e))) (snd (process (c_bt K) b))))) (elg e)
                                    (set_lbt (lg (fst (replay_events K s (lsinks (lg s (elg e))) (snd (process (c_bt K) b)))) (elg e))
                                             (Some (fst (process (c_bt K) b))))).
Proof.
  intros Hk Hb Hc. unfold process_event, replay_bt. rewrite Hk, Hb.
  destruct (process (c_bt K) b) as [b' outs]. cbn [fst snd].
  pose proof (replay_events_contained K (lsinks (lg s (elg e))) outs Hc s) as H.
  destruct (replay_events K s (lsinks (lg s (elg e))) outs) as [s1 threw]. cbn [snd fst] in *. subst threw. reflexivity.
Qed.

(* an ordinary statement is dispatched first; the replay follows it iff its level reaches the logger's flush
   level and no sink threw on the statement itself *)
Lemma bt_trigger_after_statement s e : ekind e = KLog -> elvl e <> LV_BACKTRACE ->
  let d := dispatch s e (lsinks (lg s (elg e))) in
  process_event K s e =
    if snd d then add_obs (fst d) [O_NOTE; 5; 0]
    else if lbtlvl (lg (fst d) (elg e)) <=? elvl e
         then (let r := replay_bt K (fst d) (elg e) in if snd r then add_obs (fst r) [O_NOTE; 5; 0] else fst r)
         else fst d.
Proof.
  intros Hk Hl. unfold process_event. rewrite Hk.
  apply N.eqb_neq in Hl. rewrite Hl.
  destruct (dispatch s e (lsinks (lg s (elg e)))) as [s' threw]. cbn [fst snd].
  destruct threw; [reflexivity|]. destruct (lbtlvl (lg s' (elg e)) <=? elvl e); [|reflexivity].
  destruct (replay_bt K s' (elg e)) as [s2 t2]. reflexivity.
Qed.

(* init_backtrace(): one set_capacity on the (lazily created) storage *)
Lemma bt_init_event s e cap fl : ekind e = KInitBt cap fl ->
  lbt (lg (process_event K s e) (elg e)) =
    Some (fst (set_capacity cap (match lbt (lg s (elg e)) with Some b => b | None => bt_init end))) /\
  obs (process_event K s e) = obs s.
Proof. intro Hk. unfold process_event. rewrite Hk. cbn. rewrite upd_same. auto. Qed.
End Bt.
