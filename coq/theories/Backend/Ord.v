(* S-ord: the timestamp skeleton of the backend (C05 / C06): threads with a pending stamp, a queue and a
   transit buffer of timestamps; split frontend steps; backend micro-steps of _poll. The ordering
   invariant and the theorem that the processed sequence is sorted, for every op list. M-BE refines
   this model (Backend/OrdSim.v). *)
From Coq Require Import List NArith Arith PeanoNat Lia Bool Sorting.Sorted.
Import ListNotations.
Local Open Scope N_scope.

(* abstract backend ordering model: timestamps only *)
Record thr := { pend : option N; queue : list N; tbuf : list N }.
Inductive pc_t := Idle | Refreshed | Timed | Reading (todo : list nat) | Done (batch : bool).
Record st := { clock : N; T : N; th : nat -> thr; registered : list nat; cache : list nat; pc : pc_t; out : list N }.

Section M.
Variable grace : N.
Variable f5 : bool.   (* refresh cache again after reading the clock *)

Definition upd (f : nat -> thr) (t : nat) (x : thr) : nat -> thr := fun u => if Nat.eqb u t then x else f u.

Inductive op := Tick (d:N) | FRead (t:nat) | FReg (t:nat) | FEnq (t:nat) | FDrop (t:nat)
 | BRefresh | BReadNow | BRefresh2 | BReadQ (extra:nat) | BDecide (batch:bool) | BCheck | BProcess | BStop | BRemove (u:nat) | BSync.

Fixpoint take_le (lim : N) (n : nat) (q : list N) : list N * list N :=
  match n, q with
  | S n', x :: q' => if x <=? lim then let (a,b) := take_le lim n' q' in (x::a, b) else ([], q)
  | _, _ => ([], q)
  end.

Definition front_of (s:st) (u:nat) : option N := hd_error (tbuf (th s u)).

Fixpoint min_front (s:st) (l:list nat) (best : option (nat*N)) : option (nat*N) :=
  match l with
  | [] => best
  | u :: l' => match front_of s u, best with
               | Some x, Some (_,b) => if x <? b then min_front s l' (Some (u,x)) else min_front s l' best
               | Some x, None => min_front s l' (Some (u,x))
               | None, _ => min_front s l' best
               end
  end.

Definition pending_somewhere (s:st) : bool :=
  existsb (fun u => match tbuf (th s u), queue (th s u) with [], _ :: _ => true | _, _ => false end) (registered s).

Definition set_th s f := {| clock:=clock s; T:=T s; th:=f; registered:=registered s; cache:=cache s; pc:=pc s; out:=out s |}.

Definition step (s:st) (o:op) : st :=
  match o with
  | Tick d => {| clock:=clock s + d; T:=T s; th:=th s; registered:=registered s; cache:=cache s; pc:=pc s; out:=out s |}
  | FRead t => match pend (th s t) with Some _ => s | None =>
       set_th s (upd (th s) t {| pend:=Some (clock s); queue:=queue (th s t); tbuf:=tbuf (th s t) |}) end
  | FReg t => if existsb (Nat.eqb t) (registered s) then s else
       {| clock:=clock s; T:=T s; th:=th s; registered:=registered s ++ [t]; cache:=cache s; pc:=pc s; out:=out s |}
  | FEnq t => match pend (th s t) with None => s | Some ts =>
       if existsb (Nat.eqb t) (registered s) && (clock s <=? ts + grace) then
         set_th s (upd (th s) t {| pend:=None; queue:=queue (th s t) ++ [ts]; tbuf:=tbuf (th s t) |})
       else s end
  | BRefresh => match pc s with Idle | Done _ =>
       {| clock:=clock s; T:=T s; th:=th s; registered:=registered s; cache:=registered s; pc:=Refreshed; out:=out s |} | _ => s end
  | BReadNow => match pc s with Refreshed =>
       {| clock:=clock s; T:=clock s - grace; th:=th s; registered:=registered s; cache:=cache s; pc:=Timed; out:=out s |} | _ => s end
  | BRefresh2 => match pc s with Timed =>
       let c := if f5 then registered s else cache s in
       {| clock:=clock s; T:=T s; th:=th s; registered:=registered s; cache:=c; pc:=Reading c; out:=out s |} | _ => s end
  | BReadQ extra => match pc s with
       | Reading (u :: todo) =>
           let (a,b) := take_le (T s) (S extra) (queue (th s u)) in
           {| clock:=clock s; T:=T s; th:=upd (th s) u {| pend:=pend (th s u); queue:=b; tbuf:=tbuf (th s u) ++ a |};
              registered:=registered s; cache:=cache s; pc:=Reading todo; out:=out s |}
       | _ => s end
  | BDecide b => match pc s with Reading [] =>
       {| clock:=clock s; T:=T s; th:=th s; registered:=registered s; cache:=cache s; pc:=Done b; out:=out s |} | _ => s end
  | BCheck => match pc s with Done true =>
       if pending_somewhere s then {| clock:=clock s; T:=T s; th:=th s; registered:=registered s; cache:=cache s; pc:=Idle; out:=out s |}
       else {| clock:=clock s; T:=T s; th:=th s; registered:=registered s; cache:=registered s; pc:=Done false; out:=out s |}
       | _ => s end
  | BProcess => match pc s with
       | Done false =>   (* one event; in batch mode BCheck re-arms Done false, single mode goes Idle *)
           match min_front s (cache s) None with
           | None => {| clock:=clock s; T:=T s; th:=th s; registered:=registered s; cache:=cache s; pc:=Idle; out:=out s |}
           | Some (u,x) =>
             {| clock:=clock s; T:=T s; th:=upd (th s) u {| pend:=pend (th s u); queue:=queue (th s u); tbuf:=tl (tbuf (th s u)) |};
                registered:=registered s; cache:=cache s; pc:=Done true; out:=out s ++ [x] |}
           end
       | _ => s end
  | FDrop t => match pend (th s t) with None => s | Some _ =>
       set_th s (upd (th s) t {| pend:=None; queue:=queue (th s t); tbuf:=tbuf (th s t) |}) end
  | BSync => {| clock:=clock s; T:=T s; th:=th s; registered:=registered s; cache:=registered s; pc:=pc s; out:=out s |}
  | BStop => match pc s with Done _ =>
       {| clock:=clock s; T:=T s; th:=th s; registered:=registered s; cache:=cache s; pc:=Idle; out:=out s |} | _ => s end
  | BRemove u => match pc s with
       | Idle | Done _ =>
           match queue (th s u), tbuf (th s u) with
           | [], [] => {| clock:=clock s; T:=T s; th:=th s; registered:=filter (fun v => negb (Nat.eqb v u)) (registered s);
                          cache:=filter (fun v => negb (Nat.eqb v u)) (cache s); pc:=pc s; out:=out s |}
           | _, _ => s
           end
       | _ => s end
  end.

Definition init := {| clock:=grace; T:=0; th:=fun _ => {| pend:=None; queue:=[]; tbuf:=[] |}; registered:=[]; cache:=[]; pc:=Idle; out:=[] |}.
Definition run ops := fold_left step ops init.

Definition chain (x:thr) := tbuf x ++ queue x ++ (match pend x with Some p => [p] | None => [] end).
Definition ssorted := StronglySorted N.le.

Record Inv (s:st) : Prop := {
  I2 : T s + grace <= clock s;
  I1 : forall u x, In x (tbuf (th s u)) -> x <= T s;
  I6 : forall o, In o (out s) -> o <= T s;
  I3 : forall u, ssorted (chain (th s u));
  I8 : forall u x, In x (chain (th s u)) -> x <= clock s;
  I5 : forall o u x, In o (out s) -> In x (tbuf (th s u) ++ queue (th s u)) -> o <= x;
  I7 : ssorted (out s);
  I9a : forall u, tbuf (th s u) <> [] -> In u (cache s);
  I9b : forall u, queue (th s u) <> [] -> In u (registered s);
  I9c : incl (cache s) (registered s);
  I4 : match pc s with
       | Reading todo => (forall u x, In x (queue (th s u)) -> tbuf (th s u) <> [] \/ T s <= x \/ In u todo) /\ incl todo (cache s)
       | Done false => forall u x, In x (queue (th s u)) -> tbuf (th s u) <> [] \/ T s <= x
       | _ => True end
}.
End M.

(* D5: with the old order (f5 = false) a two-thread trace produces unsorted output *)
Example old_order_unsorted :
  out (run 1 false [FReg 0; BRefresh; (* window *) FRead 1; FReg 1; FEnq 1; Tick 1; FRead 0; FEnq 0; Tick 1; Tick 1;
                    BReadNow; BRefresh2; BReadQ 0; BDecide false; BProcess; BCheck;
                    BRefresh; BReadNow; BRefresh2; BReadQ 0; BReadQ 0; BDecide false; BProcess]) = [2; 1].
Proof. vm_compute. reflexivity. Qed.
Example new_order_sorted :
  out (run 1 true [FReg 0; BRefresh; FRead 1; FReg 1; FEnq 1; Tick 1; FRead 0; FEnq 0; Tick 1; Tick 1;
                    BReadNow; BRefresh2; BReadQ 0; BReadQ 0; BDecide false; BProcess; BCheck; BProcess]) = [1; 2].
Proof. vm_compute. reflexivity. Qed.

Section P.
Variable grace : N.
Local Hint Resolve N.le_refl : core.
Notation step := (step grace true).
Notation Inv := (Inv grace).

Lemma ss_app_iff a b : ssorted (a ++ b) <-> ssorted a /\ ssorted b /\ (forall x y, In x a -> In y b -> x <= y).
Proof. unfold ssorted. induction a as [|h a IH]; cbn.
  - split. intros H; repeat split; auto. constructor. intros ? ? []. intros (_&H&_); auto.
  - split.
    + intros H. inversion H as [|? ? Hs Hf]; subst. apply IH in Hs as (Ha&Hb&Hab). rewrite Forall_app in Hf. destruct Hf as [Hf1 Hf2].
      repeat split; auto. constructor; auto. intros x y [->|Hx] Hy. rewrite Forall_forall in Hf2; auto. auto.
    + intros (Ha&Hb&Hab). inversion Ha as [|? ? Hs Hf]; subst. constructor. apply IH; repeat split; auto.
      apply Forall_app; split; auto. apply Forall_forall. intros y Hy. apply Hab; auto.
Qed.

Lemma ss_single x : ssorted [x]. Proof. repeat constructor. Qed.
Lemma ss_nil : ssorted []. Proof. constructor. Qed.

Lemma take_le_spec lim n q a b : take_le lim n q = (a,b) ->
  q = a ++ b /\ (forall x, In x a -> x <= lim) /\ (n <> 0%nat -> a = [] -> b = [] \/ exists y b', b = y :: b' /\ lim < y).
Proof. revert q a b. induction n as [|n IH]; intros q a b H; cbn in H.
  - inversion H; subst. repeat split; auto. intros ? []. intros; congruence.
  - destruct q as [|x q]. inversion H; subst; repeat split; auto. intros ? [].
    destruct (N.leb_spec x lim).
    + destruct (take_le lim n q) as [a' b'] eqn:E. inversion H; subst. destruct (IH _ _ _ E) as (->&Hle&_).
      repeat split; auto. intros y [->|Hy]; auto. intros _ Habs; discriminate.
    + inversion H; subst. repeat split; auto. intros ? []. intros _ _. right. eauto.
Qed.

Lemma min_front_spec s l : forall best ru rx, min_front s l best = Some (ru,rx) ->
  (forall u x, best = Some (u,x) -> front_of s u = Some x) ->
  front_of s ru = Some rx /\ (In ru l \/ best = Some (ru,rx)) /\
   (forall v y, In v l -> front_of s v = Some y -> rx <= y) /\ (forall v y, best = Some (v,y) -> rx <= y).
Proof. induction l as [|u l IH]; cbn [min_front]; intros best ru rx H Hb.
  - subst best. repeat split; eauto. intros ? ? []. intros ? ? E; inversion E; lia.
  - destruct (front_of s u) as [x|] eqn:F.
    + destruct best as [[bu b]|].
      * destruct (N.ltb_spec x b).
        -- apply IH in H. 2:{ intros ? ? E; inversion E; subst; auto. } destruct H as (H1&H2&H3&H4).
           repeat split; auto. destruct H2 as [|E]; [left; right; auto|]. inversion E; subst; left; left; auto.
           intros v y [->|Hv] Fv; eauto. rewrite F in Fv; inversion Fv; subst. eapply H4; eauto.
           intros v y E; inversion E; subst. specialize (H4 _ _ eq_refl). lia.
        -- apply IH in H; auto. destruct H as (H1&H2&H3&H4). repeat split; auto. destruct H2; [left; right; auto|auto].
           intros v y [->|Hv] Fv; eauto. rewrite F in Fv; inversion Fv; subst. specialize (H4 _ _ eq_refl). lia.
      * apply IH in H. 2:{ intros ? ? E; inversion E; subst; auto. } destruct H as (H1&H2&H3&H4).
        repeat split; auto. destruct H2 as [|E]; [left; right; auto|]. inversion E; subst; left; left; auto.
        intros v y [->|Hv] Fv; eauto. rewrite F in Fv; inversion Fv; subst. eapply H4; eauto. intros; discriminate.
    + apply IH in H; auto. destruct H as (H1&H2&H3&H4). repeat split; auto. destruct H2; [left; right; auto|auto].
      intros v y [->|Hv] Fv; eauto. congruence.
Qed.

Lemma existsb_eqb_In t l : existsb (Nat.eqb t) l = true -> In t l.
Proof. intro H. apply existsb_exists in H as (x&Hx&E). apply Nat.eqb_eq in E. now subst. Qed.

Ltac updc u t := unfold upd in *; cbn in *; destruct (Nat.eqb_spec u t); [subst u|]; cbn in *.

Lemma chain_enq tb q p : chain {| pend:=None; queue:=q ++ [p]; tbuf:=tb |} = chain {| pend:=Some p; queue:=q; tbuf:=tb |}.
Proof. unfold chain; cbn. now rewrite app_nil_r. Qed.

Lemma inv_enq s t : Inv s -> Inv (step s (FEnq t)).
Proof.
  intros I. cbn. destruct (pend (th s t)) as [ts|] eqn:P; [|exact I].
  destruct (existsb (Nat.eqb t) (registered s)) eqn:R; cbn; [|exact I].
  destruct (N.leb_spec (clock s) (ts + grace)) as [Hg|]; [|exact I].
  apply existsb_eqb_In in R. destruct I as [J2 J1 J6 J3 J8 J5 J7 J9a J9b J9c J4].
  assert (HT : T s <= ts) by lia.
  assert (Hch : forall u, chain (upd (th s) t {| pend := None; queue := queue (th s t) ++ [ts]; tbuf := tbuf (th s t) |} u) = chain (th s u)).
  { intro u. unfold upd. destruct (Nat.eqb_spec u t); auto. subst. rewrite chain_enq. unfold chain. now rewrite P. }
  constructor; cbn.
  - exact J2.
  - intros u x. updc u t; eauto.
  - exact J6.
  - intro u. rewrite Hch. auto.
  - intros u x. rewrite Hch. eauto.
  - intros o u x Ho. updc u t; eauto. rewrite app_assoc. intro Hx. apply in_app_or in Hx as [Hx|[<-|[]]]; eauto. specialize (J6 _ Ho). lia.
  - exact J7.
  - intros u. updc u t; eauto.
  - intros u. updc u t; eauto.
  - exact J9c.
  - destruct (pc s) as [| | |todo|[|]]; auto.
    + destruct J4 as [J4 J4i]. split; auto. intros u x. updc u t; eauto. intro Hx. apply in_app_or in Hx as [Hx|[<-|[]]]; eauto.
    + intros u x. updc u t; eauto. intro Hx. apply in_app_or in Hx as [Hx|[<-|[]]]; eauto.
Qed.

Lemma inv_tick s d : Inv s -> Inv (step s (Tick d)).
Proof. intros [J2 J1 J6 J3 J8 J5 J7 J9a J9b J9c J4]. constructor; cbn; auto; try lia. intros u x H. specialize (J8 _ _ H). lia. Qed.

Lemma inv_reg s t : Inv s -> Inv (step s (FReg t)).
Proof. intros I. cbn. destruct (existsb (Nat.eqb t) (registered s)); [exact I|].
  destruct I as [J2 J1 J6 J3 J8 J5 J7 J9a J9b J9c J4]. constructor; cbn; auto.
  - intros u H. apply in_or_app; auto.
  - intros u H. apply in_or_app; left; auto.
Qed.

Lemma inv_fread s t : Inv s -> Inv (step s (FRead t)).
Proof. intros I. cbn. destruct (pend (th s t)) eqn:P; [exact I|].
  destruct I as [J2 J1 J6 J3 J8 J5 J7 J9a J9b J9c J4].
  assert (Hc : chain {| pend := Some (clock s); queue := queue (th s t); tbuf := tbuf (th s t) |} = chain (th s t) ++ [clock s]).
  { unfold chain; cbn. rewrite P, app_nil_r. now rewrite <- app_assoc. }
  constructor; cbn; auto.
  - intros u x. updc u t; eauto.
  - intros u. unfold upd. destruct (Nat.eqb_spec u t); auto. subst. rewrite Hc. apply ss_app_iff. repeat split; auto using ss_single.
    intros x y Hx [<-|[]]. eauto.
  - intros u x. unfold upd. destruct (Nat.eqb_spec u t); eauto. subst. rewrite Hc. intro H. apply in_app_or in H as [H|[<-|[]]]; eauto.
  - intros o u x. updc u t; eauto.
  - intros u. updc u t; eauto.
  - intros u. updc u t; eauto.
  - destruct (pc s) as [| | |todo|[|]]; auto.
    + destruct J4 as [J4 J4i]. split; auto. intros u x. updc u t; eauto.
    + intros u x. updc u t; eauto.
Qed.

Lemma inv_refresh s : Inv s -> Inv (step s BRefresh).
Proof. intros I. cbn. destruct (pc s) eqn:PC; try exact I;
  destruct I as [J2 J1 J6 J3 J8 J5 J7 J9a J9b J9c J4]; constructor; cbn; auto; try apply incl_refl; intros u H; apply J9c; auto. Qed.

Lemma inv_readnow s : Inv s -> Inv (step s BReadNow).
Proof. intros I. cbn. destruct (pc s) eqn:PC; try exact I.
  destruct I as [J2 J1 J6 J3 J8 J5 J7 J9a J9b J9c J4]. constructor; cbn; auto; try lia.
  - intros u x H. specialize (J1 _ _ H). lia.
  - intros o H. specialize (J6 _ H). lia.
Qed.

Lemma inv_refresh2 s : Inv s -> Inv (step s BRefresh2).
Proof. intros I. cbn. destruct (pc s) eqn:PC; try exact I.
  destruct I as [J2 J1 J6 J3 J8 J5 J7 J9a J9b J9c J4]. constructor; cbn; auto.
  - apply incl_refl.
  - split; [|apply incl_refl]. intros u x H. right; right. apply J9b. intro E; rewrite E in H; destruct H.
Qed.

Lemma inv_decide s b : Inv s -> Inv (step s (BDecide b)).
Proof. intros I. cbn. destruct (pc s) as [| | |[|]|] eqn:PC; try exact I.
  destruct I as [J2 J1 J6 J3 J8 J5 J7 J9a J9b J9c J4]. rewrite PC in J4. destruct J4 as [J4 _].
  constructor; cbn; auto. destruct b; auto. intros u x H. destruct (J4 _ _ H) as [|[|[]]]; auto. Qed.

Lemma inv_check s : Inv s -> Inv (step s BCheck).
Proof. intros I. cbn. destruct (pc s) as [| | | |[|]] eqn:PC; try exact I.
  destruct I as [J2 J1 J6 J3 J8 J5 J7 J9a J9b J9c J4].
  destruct (pending_somewhere s) eqn:PS; constructor; cbn; auto; try apply incl_refl.
  intros u x H. left. assert (Hq : queue (th s u) <> []) by (intro E; rewrite E in H; destruct H).
  pose proof (J9b _ Hq) as Hr. unfold pending_somewhere in PS.
  intro E. assert (existsb (fun u0 => match tbuf (th s u0) with [] => match queue (th s u0) with [] => false | _ :: _ => true end | _ :: _ => false end) (registered s) = true).
  { apply existsb_exists. exists u. split; auto. rewrite E. destruct (queue (th s u)); congruence. }
  congruence.
Qed.

Lemma ss_In_hd x l y : ssorted (x :: l) -> In y (x :: l) -> x <= y.
Proof. intros H [->|Hy]; auto. inversion H as [|? ? _ Hf]; subst. rewrite Forall_forall in Hf; auto. Qed.

Lemma inv_readq s e : Inv s -> Inv (step s (BReadQ e)).
Proof. intros I. cbn [step]. destruct (pc s) as [| | |[|u todo]|] eqn:PC; try exact I.
  destruct (take_le (T s) (S e) (queue (th s u))) as [a b] eqn:TK.
  destruct (take_le_spec _ _ _ _ _ TK) as (Hq & Hle & Hne).
  destruct I as [J2 J1 J6 J3 J8 J5 J7 J9a J9b J9c J4]. rewrite PC in J4. destruct J4 as [J4 J4i].
  assert (Hc : forall v, chain (upd (th s) u {| pend := pend (th s u); queue := b; tbuf := tbuf (th s u) ++ a |} v) = chain (th s v)).
  { intro v. unfold upd. destruct (Nat.eqb_spec v u); auto. subst. unfold chain; cbn. rewrite Hq. now rewrite <- !app_assoc. }
  constructor; cbn; auto.
  - intros v x. updc v u; eauto. intro H. apply in_app_or in H as [H|H]; eauto.
  - intro v. rewrite Hc. auto.
  - intros v x. rewrite Hc. eauto.
  - intros o v x Ho. updc v u; eauto. rewrite <- app_assoc, <- Hq. eauto.
  - intros v. updc v u; eauto. intros _. apply J4i. now left.
  - intros v. updc v u; eauto. intro Hb. apply J9b. rewrite Hq. destruct a; cbn; congruence.
  - split. 2:{ intros w Hw. apply J4i. now right. }
    intros v x. updc v u.
    + intro Hx. destruct (tbuf (th s u) ++ a) eqn:E; [|left; congruence].
      apply app_eq_nil in E as [Et Ea]. destruct (Hne ltac:(lia) Ea) as [->|(y&b'&->&Hy)]; [destruct Hx|].
      right; left. specialize (J3 u). unfold chain in J3. rewrite Et, Hq, Ea in J3. cbn in J3.
      assert (y <= x). { eapply ss_In_hd; eauto. destruct Hx as [->|Hx]; [now left|right; apply in_or_app; now left]. } lia.
    + intro Hx. destruct (J4 _ _ Hx) as [|[|[|]]]; auto; congruence.
Qed.

Lemma front_some s u x : front_of s u = Some x -> exists tl0, tbuf (th s u) = x :: tl0.
Proof. unfold front_of. destruct (tbuf (th s u)); cbn; intro H; inversion H; eauto. Qed.

Lemma inv_process s : Inv s -> Inv (step s BProcess).
Proof. intros I. cbn [step]. destruct (pc s) as [| | | |[|]] eqn:PC; try exact I.
  destruct (min_front s (cache s) None) as [[u x]|] eqn:MF.
  2:{ destruct I as [J2 J1 J6 J3 J8 J5 J7 J9a J9b J9c J4]. constructor; cbn; auto. }
  destruct (min_front_spec _ _ _ _ _ MF ltac:(intros; discriminate)) as (Hf & _ & Hmin & _).
  destruct (front_some _ _ _ Hf) as [tl0 Htb].
  destruct I as [J2 J1 J6 J3 J8 J5 J7 J9a J9b J9c J4]. rewrite PC in J4.
  assert (Hxu : forall y, In y (tl0 ++ queue (th s u)) -> x <= y).
  { intros y Hy. specialize (J3 u). unfold chain in J3. rewrite Htb in J3. cbn in J3.
    eapply ss_In_hd; eauto. right. rewrite app_assoc. apply in_or_app; left; auto. }
  assert (Hall : forall v y, In y (tbuf (th s v) ++ queue (th s v)) -> x <= y).
  { intros v y Hy. destruct (Nat.eq_dec v u) as [->|Hvu].
    - rewrite Htb in Hy. destruct Hy as [->|Hy]; auto.
    - apply in_app_or in Hy as [Hy|Hy].
      + destruct (tbuf (th s v)) as [|f tlv] eqn:Ev; [destruct Hy|].
        assert (In v (cache s)) by (apply J9a; congruence).
        assert (x <= f) by (eapply Hmin; eauto; unfold front_of; now rewrite Ev).
        specialize (J3 v). unfold chain in J3. rewrite Ev in J3. cbn in J3.
        assert (f <= y). { eapply ss_In_hd; eauto. destruct Hy as [->|Hy]; [now left|right; apply in_or_app; now left]. } lia.
      + destruct (J4 _ _ Hy) as [Hn|HT].
        * destruct (tbuf (th s v)) as [|f tlv] eqn:Ev; [congruence|].
          assert (In v (cache s)) by (apply J9a; congruence).
          assert (x <= f) by (eapply Hmin; eauto; unfold front_of; now rewrite Ev).
          specialize (J3 v). unfold chain in J3. rewrite Ev in J3. cbn in J3.
          assert (f <= y). { eapply ss_In_hd; eauto. right. apply in_or_app; right. apply in_or_app; left; auto. } lia.
        * assert (x <= T s) by (apply (J1 u); rewrite Htb; now left). lia. }
  constructor; cbn; auto.
  - intros v y. updc v u; eauto. rewrite Htb. cbn. intro; apply (J1 u). rewrite Htb. now right.
  - intros o Ho. apply in_app_or in Ho as [Ho|[<-|[]]]; auto. apply (J1 u). rewrite Htb; now left.
  - intros v. unfold upd. destruct (Nat.eqb_spec v u); auto. subst. specialize (J3 u). unfold chain in *; cbn. rewrite Htb in *. cbn in *. now inversion J3.
  - intros v y. unfold upd. destruct (Nat.eqb_spec v u); eauto. subst. unfold chain; cbn. intro H. apply (J8 u). unfold chain. rewrite Htb in *. cbn. now right.
  - intros o v y Ho Hy. assert (Hy' : In y (tbuf (th s v) ++ queue (th s v))).
    { revert Hy. updc v u; auto. rewrite Htb. cbn. auto. }
    apply in_app_or in Ho as [Ho|[<-|[]]]; eauto.
  - apply ss_app_iff. repeat split; auto using ss_single. intros o y Ho [<-|[]]. apply (J5 o u); auto. rewrite Htb. now left.
  - intros v. updc v u; eauto. intros _. apply J9a. congruence.
  - intros v. updc v u; eauto.
Qed.

Lemma ss_app_l a b : ssorted (a ++ b) -> ssorted a.
Proof. intro H. apply ss_app_iff in H. tauto. Qed.

Lemma inv_fdrop s t : Inv s -> Inv (step s (FDrop t)).
Proof. intros I. cbn. destruct (pend (th s t)) as [p|] eqn:P; [|exact I].
  destruct I as [J2 J1 J6 J3 J8 J5 J7 J9a J9b J9c J4].
  assert (Hc : chain (th s t) = chain {| pend := None; queue := queue (th s t); tbuf := tbuf (th s t) |} ++ [p]).
  { unfold chain; cbn. rewrite P, app_nil_r. now rewrite <- app_assoc. }
  constructor; cbn; auto.
  - intros u x. updc u t; eauto.
  - intros u. unfold upd. destruct (Nat.eqb_spec u t); auto. subst. specialize (J3 t). rewrite Hc in J3. now apply ss_app_l in J3.
  - intros u x. unfold upd. destruct (Nat.eqb_spec u t); eauto. subst. intro H. apply (J8 t). rewrite Hc. apply in_or_app; now left.
  - intros o u x. updc u t; eauto.
  - intros u. updc u t; eauto.
  - intros u. updc u t; eauto.
  - destruct (pc s) as [| | |todo|[|]]; auto.
    + destruct J4 as [J4 J4i]. split; auto. intros u x. updc u t; eauto.
    + intros u x. updc u t; eauto.
Qed.

Lemma inv_stop s : Inv s -> Inv (step s BStop).
Proof. intros I. cbn. destruct (pc s) eqn:PC; try exact I.
  destruct I as [J2 J1 J6 J3 J8 J5 J7 J9a J9b J9c J4]. constructor; cbn; auto. Qed.

Lemma in_filter_ne u v l : In v l -> v <> u -> In v (filter (fun w => negb (Nat.eqb w u)) l).
Proof. intros H Hne. apply filter_In. split; auto. apply negb_true_iff, Nat.eqb_neq. exact Hne. Qed.

Lemma inv_remove s u : Inv s -> Inv (step s (BRemove u)).
Proof. intros I. cbn.
  assert (Hgo : (pc s = Idle \/ exists b, pc s = Done b) -> queue (th s u) = [] -> tbuf (th s u) = [] ->
    Inv {| clock:=clock s; T:=T s; th:=th s; registered:=filter (fun v => negb (Nat.eqb v u)) (registered s);
           cache:=filter (fun v => negb (Nat.eqb v u)) (cache s); pc:=pc s; out:=out s |}).
  { intros Hpc Hq Ht. destruct I as [J2 J1 J6 J3 J8 J5 J7 J9a J9b J9c J4]. constructor; cbn; auto.
    - intros v Hv. apply in_filter_ne; auto. intro; subst. congruence.
    - intros v Hv. apply in_filter_ne; auto. intro; subst. congruence.
    - intros v Hv. apply filter_In in Hv as [Hv Hn]. apply filter_In. split; auto.
    - clear - J4 Hpc. destruct (pc s) as [| | |todo|[|]]; auto; exfalso; destruct Hpc as [E|[b E]]; discriminate. }
  destruct (pc s) eqn:PC; try exact I;
    (destruct (queue (th s u)) eqn:Q; [|exact I]; destruct (tbuf (th s u)) eqn:Tb; [|exact I]);
    apply Hgo; auto; right; eauto.
Qed.

Lemma inv_sync s : Inv s -> Inv (step s BSync).
Proof. intros [J2 J1 J6 J3 J8 J5 J7 J9a J9b J9c J4]. constructor; cbn; auto.
  - apply incl_refl.
  - destruct (pc s) as [| | |todo|[|]]; auto. destruct J4 as [A B]. split; auto. intros v Hv. apply J9c, B, Hv.
Qed.

Lemma inv_step s o : Inv s -> Inv (step s o).
Proof. destruct o; auto using inv_tick, inv_fread, inv_reg, inv_enq, inv_fdrop, inv_refresh, inv_readnow, inv_refresh2, inv_readq, inv_decide, inv_check, inv_process, inv_stop, inv_remove, inv_sync. Qed.

Lemma inv_init : Inv (init grace).
Proof. constructor; cbn.
  - lia. - intros ? ? []. - intros ? []. - intro; constructor. - intros ? ? []. - intros ? ? ? []. - constructor.
  - intros ? H; congruence. - intros ? H; congruence. - apply incl_refl. - exact Logic.I.
Qed.

Lemma inv_init_at c : grace <= c -> Inv {| clock:=c; T:=0; th:=fun _ => {| pend:=None; queue:=[]; tbuf:=[] |}; registered:=[]; cache:=[]; pc:=Idle; out:=[] |}.
Proof. intro H. constructor; cbn.
  - lia. - intros ? ? []. - intros ? []. - intro; constructor. - intros ? ? []. - intros ? ? ? []. - constructor.
  - intros ? E; congruence. - intros ? E; congruence. - apply incl_refl. - exact Logic.I.
Qed.

Lemma inv_run ops : forall s, Inv s -> Inv (fold_left step ops s).
Proof. induction ops as [|o ops IH]; cbn [fold_left]; intros s I; auto. apply IH, inv_step, I. Qed.

Theorem ord_sorted ops : StronglySorted N.le (out (run grace true ops)).
Proof. unfold run. generalize inv_init. generalize (init grace). induction ops as [|o ops IH]; cbn [fold_left]; intros s I.
  - apply I. - apply IH, inv_step, I. Qed.
End P.
Print Assumptions ord_sorted.
