(* Link between M-BE and the list machine of M-TEB: what a read pass of M-BE does to a thread's transit buffer
   (`tbuf`, `tcap`) is a sequence of the calls M-TEB is about - a commit (back(); assign; push_back()) per record taken in,
   an abandoned fill (back(); assign) for a record beyond the timestamp cut-off or one whose formatter's exception
   escapes - and popping the processed event is OPop. So the trajectory of (tbuf, tcap) in every M-BE history is a
   trajectory of `fifo_step`, which the slot array of TransitEventBuffer refines (TEBProofs.teb_refines_fifo). *)
From Coq Require Import List NArith Bool Lia Arith.
From Quill Require Import Queue.BQDefs Backend.BEDefs TEB.TEBModel.
Import ListNotations.
Local Open Scope N_scope.

Section Link.
Variable K : cfg.

(* M-BE's view of a thread's buffer as a state of the list machine (initial capacity and shrink request are not part of
   M-BE: carried along unchanged) *)
Definition fifo_of (ic : N) (sr : bool) (x : thr) : fifo ev :=
  {| f_items := tbuf x; f_cap := tcap x; f_icap := ic; f_shr := sr |}.

Fixpoint fifo_exec (f : fifo ev) (ops : list (top ev)) : fifo ev :=
  match ops with [] => f | o :: r => fifo_exec (fifo_step ev f o) r end.

Definition put_or_touch (o : top ev) : Prop := match o with OPut _ | OTouch _ => True | _ => False end.

Lemma fifo_exec_app f a b : fifo_exec f (a ++ b) = fifo_exec (fifo_exec f a) b.
Proof. revert f; induction a as [|o a IH]; intro f; cbn; auto. Qed.

Lemma tbuf_sh f x : tbuf (sh f x) = tbuf x.  Proof. reflexivity. Qed.
Lemma tcap_sh f x : tcap (sh f x) = tcap x.  Proof. reflexivity. Qed.

Theorem read_loop_is_fifo_ops ic sr : forall fuel lim tn x total notes,
  exists ops, Forall put_or_touch ops /\
    fifo_of ic sr (fst (fst (fst (read_loop K fuel lim tn x total notes)))) = fifo_exec (fifo_of ic sr x) ops.
Proof.
  induction fuel as [|f IH]; intros lim tn x total notes; cbn [read_loop].
  - exists []. split; [constructor|reflexivity].
  - destruct (prepare_read ideal (c_cap K) (q x)) as [q1 r0].
    destruct (if u_blocked K x then None else r0) as [p|]; [|exists []; split; [constructor|reflexivity]].
    destruct (qev x) as [|e rest]; [exists []; split; [constructor|reflexivity]|].
    set (cap1 := if tcap x =? N.of_nat (length (tbuf x)) then 2 * tcap x else tcap x).
    assert (Touch : fifo_of ic sr (sh (u_prepare_read K) (set_thr_tbuf (set_thr_q x q1 (e :: rest)) (tbuf x) cap1))
                    = fifo_exec (fifo_of ic sr x) [OTouch e]) by reflexivity.
    destruct (negb (c_grace K =? 0) && (tn <? ets e)).
    + exists [OTouch e]. split; [repeat constructor|exact Touch].
    + set (x1 := sh (fun u => u_finish_read (esz e) (u_prepare_read K u))
                    (set_thr_tbuf (set_thr_q x (finish_read ideal q1 (esz e)) rest) (tbuf x ++ [e]) cap1)).
      assert (Put : fifo_of ic sr x1 = fifo_exec (fifo_of ic sr x) [OPut e]) by reflexivity.
      assert (Main : exists ops, Forall put_or_touch ops /\
                fifo_of ic sr (fst (fst (fst (
                  if (total + esz e <? lim) && (N.of_nat (length (tbuf x1)) <? c_hard K)
                  then read_loop K f lim tn x1 (total + esz e) (notes ++ fmt_notes e)
                  else (x1, total + esz e, notes ++ fmt_notes e, false))))) = fifo_exec (fifo_of ic sr x) ops).
      { destruct ((total + esz e <? lim) && (N.of_nat (length (tbuf x1)) <? c_hard K)).
        - destruct (IH lim tn x1 (total + esz e) (notes ++ fmt_notes e)) as (ops & Fo & E).
          exists (OPut e :: ops). split; [constructor; [exact I|exact Fo]|].
          rewrite E, Put. reflexivity.
        - exists [OPut e]. split; [repeat constructor|exact Put]. }
      destruct (efmt e); try exact Main.
      destruct (ekind e); try exact Main;
        (destruct (c_catch_all K); [exact Main|exists [OTouch e]; split; [repeat constructor|exact Touch]]).
Qed.

(* popping the processed event *)
Lemma pop_event_is_OPop ic sr s u e :
  fifo_of ic sr (th (pop_event s u e) u) = fifo_step ev (fifo_of ic sr (th s u)) OPop.
Proof.
  unfold pop_event; cbn [th]. unfold upd. rewrite Nat.eqb_refl; reflexivity.
Qed.

End Link.
