(* Harness-level commands of the deterministic backend driver (harness/be.cpp) interpreted as
   sequences of M-BE micro-ops. [exec] returns the micro-op list it ran (so every theorem about
   [run s ops] for all op lists applies) together with the final state; observations are the
   state's [obs] log, into which command results are interleaved in time order. *)
From Coq Require Import List NArith Arith Bool FMapPositive.
From Quill Require Import Queue.BQDefs BT.BTModel Backend.BEDefs.
From Quill Require Backend.BEExit.
From Quill Require Queue.UQDefs.
Import ListNotations.
Local Open Scope N_scope.

Definition O_RES : N := 5.    (* 5 code : a command finished (0 false/filtered, 1 done/true, 2 parked) *)
Definition O_POLLEND : N := 6.
Definition O_CTX : N := 7.    (* 7 n : number of registered thread contexts *)
Definition O_INJ : N := 8.    (* 8 yield visit : commands injected at this yield point start now *)

Inductive cmd :=
| CLog (t : nat) (e : ev) (stall : bool)
| CResume (t : nat)
| CFlush (t : nat) (e : ev)
| CExit (t : nat)
| CSetLevel (l : nat) (v : N)
| CSetSinkLevel (k : nat) (v : N)
| CAddFilter (k : nat) (m : N)
| CShrink (t : nat) (c : N)     (* shrink_thread_local_queue(c) + get_thread_local_queue_capacity() *)
| CTick (d : N)
| CCtx
| CStop (d : N) (n : nat)    (* Backend::stop() as the backend thread runs it: BackendWorker::_exit, the clock moving d per loop iteration, at most n iterations *)
| CPoll (inj : list (N * N * list cmd)).   (* (yield point, visit, commands) *)

Section X.
Variable K : cfg.
Notation step := (step K).

Definition app_ops (sx : st * list op) (ops : list op) : st * list op :=
  (fold_left step ops (fst sx), snd sx ++ ops).
Definition note (sx : st * list op) (o : list N) : st * list op := (add_obs (fst sx) o, snd sx).

(* what a parked or fresh thread does next: try to enqueue the pending statement, then (flush) wait *)
Definition continue_thread (sx : st * list op) (t : nat) : st * list op :=
  let sx1 := match pend (th (fst sx) t) with
             | Some _ => app_ops sx [F (FReg t); F (FTry t)]
             | None => sx end in
  let x := th (fst sx1) t in
  match pend x with
  | Some _ => note sx1 [O_RES; 2]                 (* still blocked in the retry loop *)
  | None =>
      match wflush x with
      | Some _ =>
          let sx2 := app_ops sx1 [F (FWaitFlush t)] in
          match wflush (th (fst sx2) t) with
          | Some _ => note sx2 [O_RES; 2]         (* sleeping in flush_log *)
          | None => note sx2 [O_RES; 1]
          end
      | None => sx1
      end
  end.

Definition busy (s : st) (t : nat) : bool :=
  match pend (th s t), wflush (th s t) with None, None => negb (tvalid (th s t)) | _, _ => true end.

Definition exec_simple (sx : st * list op) (c : cmd) : st * list op :=
  match c with
  | CLog t e stall =>
      if busy (fst sx) t then note sx [O_RES; 0] else
      let sx1 := app_ops sx [F (FClock t e)] in
      match pend (th (fst sx1) t) with
      | None => note sx1 [O_RES; 0]               (* below the logger's level: not enqueued *)
      | Some _ =>
          if stall then note sx1 [O_RES; 2]
          else
            let n0 := length (issued (fst sx1) t) in
            let sx2 := app_ops sx1 [F (FReg t); F (FTry t)] in
            match pend (th (fst sx2) t) with
            | Some _ => note sx2 [O_RES; 2]
            | None => note sx2 [O_RES; if Nat.ltb n0 (length (issued (fst sx2) t)) then 1 else 0]
            end
      end
  | CResume t =>
      let x := th (fst sx) t in
      match pend x, wflush x with
      | None, None => note sx [O_RES; 0]
      | Some e, _ =>
          let n0 := length (issued (fst sx) t) in
          let sx1 := continue_thread sx t in
          (* a plain log statement that got through (or was dropped) reports its return value *)
          match ekind e, pend (th (fst sx1) t) with
          | KLog, None => note sx1 [O_RES; if Nat.ltb n0 (length (issued (fst sx1) t)) then 1 else 0]
          | (KInitBt _ _ | KFlushBt), None => note sx1 [O_RES; 1]     (* init_backtrace / flush_backtrace returned *)
          | _, _ => sx1
          end
      | None, Some _ => continue_thread sx t
      end
  | CFlush t e =>
      if busy (fst sx) t then note sx [O_RES; 0] else
      let sx1 := app_ops sx [F (FClock t e)] in
      match pend (th (fst sx1) t) with
      | None => note sx1 [O_RES; 0]
      | Some _ =>
          let sx2 := continue_thread sx1 t in
          match ekind e, pend (th (fst sx2) t) with
          | (KInitBt _ _ | KFlushBt), None => note sx2 [O_RES; 1]
          | _, _ => sx2
          end
      end
  | CExit t => if busy (fst sx) t then note sx [O_RES; 0] else note (app_ops sx [F (FExit t)]) [O_RES; 1]
  | CSetLevel l v => app_ops sx [F (FSetLevel l v)]
  | CSetSinkLevel k v => app_ops sx [F (FSetSinkLevel k v)]
  | CAddFilter k m => app_ops sx [F (FAddFilter k m)]
  | CShrink t c =>
      if busy (fst sx) t then note sx [O_RES; 0] else
      let sx1 := app_ops sx [F (FReg t); F (FShrink t c)] in
      note sx1 [9; match uqs (th (fst sx1) t) with Some u => Queue.UQDefs.producer_capacity u | None => c_cap K end]
  | CTick d => app_ops sx [F (FTick d)]
  | CCtx => note sx [O_CTX; N.of_nat (length (registered (fst sx)))]
  | CStop d n =>
      (* not a sequence of micro-ops of the _poll state machine: the drain loop of BEExit (exit_drain, theorem
         exit_drain_spec), then the two clean-ups that follow the loop; result 3 = the loop did not finish in n rounds *)
      let (s1, ok) := Backend.BEExit.exit_drain K (repeat d n) (fst sx) in
      if ok then note (cleanup_ctx K s1, snd sx) [O_RES; 1] else note (s1, snd sx) [O_RES; 3]
  | CPoll _ => sx
  end.

(* Speed only (used by the extracted runner on cases with hundreds of threads): the per-thread maps are
   functions updated by wrapping closures; [compact] rebuilds them as lookups in a balanced map for
   thread ids below [n]. The new functions are pointwise equal to the old ones (compact_ext below), so
   every later step computes the same observations. *)
Definition tabulate {A} (n : nat) (f : nat -> A) : nat -> A :=
  let m := fold_left (fun m u => PositiveMap.add (Pos.of_succ_nat u) (f u) m) (seq 0 n) (PositiveMap.empty A) in
  fun u => match PositiveMap.find (Pos.of_succ_nat u) m with Some x => x | None => f u end.

Definition compact (n : nat) (s : st) : st :=
  {| clock := clock s; th := tabulate n (th s); registered := registered s; newflag := newflag s;
     invalid_cnt := invalid_cnt s; cache := cache s; pc := pc s; tsnow := tsnow s; lg := lg s; sk := sk s;
     nsinks := nsinks s; nloggers := nloggers s; lastfl := lastfl s; flags := flags s; obs := obs s;
     issued := tabulate n (issued s); delivered := tabulate n (delivered s); plog := plog s; gh := gh s |}.

Definition yield_of (p : pc_t) : N :=
  match p with
  | PRefreshed => 1 | PTimed => 2 | PReading (_ :: _) => 3 | PBatch => 4 | PSingle => 5
  | PIdle1 => 6 | PIdle2 => 7 | PIdle3 => 8 | _ => 0
  end.

Fixpoint find_inj (y v : N) (inj : list (N * N * list cmd)) : list cmd :=
  match inj with
  | [] => []
  | (y', v', cs) :: r => if (y =? y') && (v =? v') then cs ++ find_inj y v r else find_inj y v r
  end.

(* visit counters per yield point: association list *)
Fixpoint bump (y : N) (cnt : list (N * N)) : list (N * N) * N :=
  match cnt with
  | [] => ([(y, 1)], 0)
  | (y', n) :: r => if y =? y' then ((y', n + 1) :: r, n) else let (r', v) := bump y r in ((y', n) :: r', v)
  end.

(* scans over the cache wrap one closure per context: compact after them (cn = 0: never) *)
Definition scans (p : pc_t) : bool := match p with PBatch | PIdle2 | PIdle3 | PSingle => true | _ => false end.

Fixpoint poll_loop (cn : nat) (fuel : nat) (sx : st * list op) (inj : list (N * N * list cmd)) (cnt : list (N * N)) : st * list op :=
  match fuel with
  | O => sx
  | S f =>
      let p0 := pc (fst sx) in
      let sx1 := app_ops sx [B] in
      let sx1 := if Nat.eqb cn 0 then sx1 else if scans p0 then (compact cn (fst sx1), snd sx1) else sx1 in
      match pc (fst sx1) with
      | PIdle => note sx1 [O_POLLEND]
      | p =>
          let y := yield_of p in
          let (cnt', v) := bump y cnt in
          let cs := find_inj y v inj in
          let sx1' := match cs with [] => sx1 | _ => note sx1 [O_INJ; y; v] end in
          let sx2 := fold_left exec_simple cs sx1' in
          poll_loop cn f sx2 inj cnt'
      end
  end.

Definition exec_gen (cn : nat) (sx : st * list op) (c : cmd) : st * list op :=
  match c with
  | CPoll inj =>
      (* enough fuel for every micro-step of one _poll(): bounded by contexts and buffered events *)
      poll_loop cn 4000 sx inj []
  | _ => exec_simple sx c
  end.
Definition exec := exec_gen 0.

Definition exec_all (s : st) (cs : list cmd) : st * list op := fold_left exec cs (s, []).

Definition exec_all_fast (n : nat) (s : st) (cs : list cmd) : st :=
  fold_left (fun s c => fst (exec_gen n (s, []) c)) cs s.
End X.

(* ------------------------------------------------------------------ decoding a case *)
(* formatter behaviour = f mod 10; f / 10 = 1: static-level call site (C++ harness only), 2: named-argument format *)
Definition fmt_of (f : N) : fmtres := match f mod 10 with 0 => FOk | 1 => FStdThrow | _ => FOtherThrow end.
Definition mk_ev id lgi lvl sz f : ev :=
  {| eid := id; ets := 0; ekind := KLog; elg := N.to_nat lgi; elvl := lvl; esz := sz; efmt := fmt_of f;
     enamed := if 20 <=? f then 2 else 0 |}.
Definition mk_flush id lgi sz : ev :=
  {| eid := id; ets := 0; ekind := KFlush; elg := N.to_nat lgi; elvl := 8; esz := sz; efmt := FOk; enamed := 0 |}.
Definition mk_ctl (k : kind) id lgi sz : ev :=
  {| eid := id; ets := 0; ekind := k; elg := N.to_nat lgi; elvl := 8; esz := sz; efmt := FOk; enamed := 0 |}.

(* simple commands: 1 t id lg lvl sz fmt | 2 (stall) same | 3 t | 4 t id lg sz | 5 t | 6 l v | 7 k v | 8 d | 10
   | 11 t id lg cap flvl sz (init_backtrace) | 12 t id lg sz (flush_backtrace) | 13 k m (add filter) *)
Fixpoint dec_simple (fuel : nat) (l : list N) : list cmd :=
  match fuel with
  | O => []
  | S f =>
    match l with
    | 1 :: t :: id :: lgi :: lvl :: sz :: fm :: r => CLog (N.to_nat t) (mk_ev id lgi lvl sz fm) false :: dec_simple f r
    | 2 :: t :: id :: lgi :: lvl :: sz :: fm :: r => CLog (N.to_nat t) (mk_ev id lgi lvl sz fm) true :: dec_simple f r
    | 3 :: t :: r => CResume (N.to_nat t) :: dec_simple f r
    | 4 :: t :: id :: lgi :: sz :: r => CFlush (N.to_nat t) (mk_flush id lgi sz) :: dec_simple f r
    | 5 :: t :: r => CExit (N.to_nat t) :: dec_simple f r
    | 6 :: a :: v :: r => CSetLevel (N.to_nat a) v :: dec_simple f r
    | 7 :: a :: v :: r => CSetSinkLevel (N.to_nat a) v :: dec_simple f r
    | 8 :: d :: r => CTick d :: dec_simple f r
    | 11 :: t :: id :: lgi :: capv :: fl :: sz :: r => CFlush (N.to_nat t) (mk_ctl (KInitBt (N.to_nat capv) fl) id lgi sz) :: dec_simple f r
    | 12 :: t :: id :: lgi :: sz :: r => CFlush (N.to_nat t) (mk_ctl KFlushBt id lgi sz) :: dec_simple f r
    | 13 :: k :: m :: r => CAddFilter (N.to_nat k) m :: dec_simple f r
    | 14 :: t :: c :: r => CShrink (N.to_nat t) c :: dec_simple f r
    | 10 :: r => CCtx :: dec_simple f r
    | _ => []
    end
  end.

(* injections of a poll: n, then n times: yield visit ntokens tokens... *)
Fixpoint dec_inj (n : nat) (l : list N) : list (N * N * list cmd) * list N :=
  match n with
  | O => ([], l)
  | S n' =>
    match l with
    | y :: v :: k :: r =>
        let toks := firstn (N.to_nat k) r in
        let (rest, l') := dec_inj n' (skipn (N.to_nat k) r) in
        ((y, v, dec_simple (length toks) toks) :: rest, l')
    | _ => ([], l)
    end
  end.

Fixpoint dec_cmds (fuel : nat) (l : list N) : list cmd :=
  match fuel with
  | O => []
  | S f =>
    match l with
    | [] => []
    | 9 :: n :: r => let (inj, r') := dec_inj (N.to_nat n) r in CPoll inj :: dec_cmds f r'
    | 1 :: t :: id :: lgi :: lvl :: sz :: fm :: r => CLog (N.to_nat t) (mk_ev id lgi lvl sz fm) false :: dec_cmds f r
    | 2 :: t :: id :: lgi :: lvl :: sz :: fm :: r => CLog (N.to_nat t) (mk_ev id lgi lvl sz fm) true :: dec_cmds f r
    | 3 :: t :: r => CResume (N.to_nat t) :: dec_cmds f r
    | 4 :: t :: id :: lgi :: sz :: r => CFlush (N.to_nat t) (mk_flush id lgi sz) :: dec_cmds f r
    | 5 :: t :: r => CExit (N.to_nat t) :: dec_cmds f r
    | 6 :: a :: v :: r => CSetLevel (N.to_nat a) v :: dec_cmds f r
    | 7 :: a :: v :: r => CSetSinkLevel (N.to_nat a) v :: dec_cmds f r
    | 8 :: d :: r => CTick d :: dec_cmds f r
    | 11 :: t :: id :: lgi :: capv :: fl :: sz :: r => CFlush (N.to_nat t) (mk_ctl (KInitBt (N.to_nat capv) fl) id lgi sz) :: dec_cmds f r
    | 12 :: t :: id :: lgi :: sz :: r => CFlush (N.to_nat t) (mk_ctl KFlushBt id lgi sz) :: dec_cmds f r
    | 13 :: k :: m :: r => CAddFilter (N.to_nat k) m :: dec_cmds f r
    | 14 :: t :: c :: r => CShrink (N.to_nat t) c :: dec_cmds f r
    | 15 :: d :: n :: r => CStop d (N.to_nat n) :: dec_cmds f r
    | 10 :: r => CCtx :: dec_cmds f r
    | _ => []
    end
  end.

(* 1 + the largest thread id used by a case, 0 (= no compaction) for small cases *)
Definition cmd_thread (c : cmd) : nat :=
  match c with CLog t _ _ | CResume t | CFlush t _ | CExit t | CShrink t _ => S t | _ => 0%nat end.
Fixpoint cmds_max (cs : list cmd) : nat :=
  match cs with
  | [] => 0%nat
  | CPoll inj :: r => Nat.max (fold_right (fun '(_, _, l) a => Nat.max (fold_right (fun c b => Nat.max (cmd_thread c) b) 0%nat l) a) 0%nat inj) (cmds_max r)
  | c :: r => Nat.max (cmd_thread c) (cmds_max r)
  end.
Definition cmds_threads (cs : list cmd) : nat := let n := cmds_max cs in if Nat.leb n 24 then 0%nat else n.

(* loggers: nloggers, then per logger: level nsinks sink... ; sinks: nsinks, then per sink: level nthrow idx... *)
Fixpoint dec_loggers (n : nat) (i : nat) (l : list N) (f : nat -> lgr) : (nat -> lgr) * list N :=
  match n with
  | O => (f, l)
  | S n' =>
    match l with
    | lvl :: ns :: r =>
        let ks := map N.to_nat (firstn (N.to_nat ns) r) in
        dec_loggers n' (S i) (skipn (N.to_nat ns) r) (upd f i (mk_lgr lvl ks))
    | _ => (f, l)
    end
  end.
Fixpoint dec_sinks (n : nat) (i : nat) (l : list N) (f : nat -> snk) : (nat -> snk) * list N :=
  match n with
  | O => (f, l)
  | S n' =>
    match l with
    | lvl :: nt :: r =>
        let ts := map N.to_nat (firstn (N.to_nat nt) r) in
        dec_sinks n' (S i) (skipn (N.to_nat nt) r) (upd f i (mk_snk lvl ts))
    | _ => (f, l)
    end
  end.

Definition st0 (clock0 : N) (nl ns : nat) (lgf : nat -> lgr) (skf : nat -> snk) : st :=
  {| clock := clock0; th := fun _ => thr0; registered := []; newflag := false; invalid_cnt := 0; cache := [];
     pc := PIdle; tsnow := 0; lg := lgf; sk := skf; nsinks := ns; nloggers := nl; lastfl := 0; flags := []; obs := [];
     issued := fun _ => []; delivered := fun _ => []; plog := [];
     gh := {| g_denied := 0; g_reported := 0; g_lost := 0 |} |}.

(* case: be <dropping> <capk> <batch> <on_batch> <on_drain> <tinit> <soft> <hard> <grace> <bits> <refresh2>
        <catchall> <report_first> <bt_reset> <bt_guard> <bt_catch> <flush_iv> <follow_chain> <clock0> <nloggers> {level nsinks sinks..} <nsinks> {level nthrow idx..} commands... *)
Definition be_run_enc (l : list N) : list N :=
  match l with
  | dr :: capk :: batch :: ob :: od :: tinit :: soft :: hard :: grace :: bits :: rf2 :: ca :: rfirst :: btr :: btg :: btc :: fiv :: follow :: clock0 :: nl :: r =>
      (* dr = 2: UnboundedBlocking frontend queue (initial capacity 2^capk, grows on demand, never at its maximum in
         these runs): byte accounting by a bounded queue too large to fill (a FIFO that never refuses), node
         structure by the M-UQ state carried in the thread record (it decides the per-call read limit) *)
      let K := {| c_cap := if dr =? 2 then 2 ^ 40 else 2 ^ capk; c_batch := batch;
                  c_pub := {| on_batch := negb (ob =? 0); on_drain := negb (od =? 0) |};
                  c_dropping := (dr =? 1); c_tinit := tinit; c_soft := soft; c_hard := hard;
                  c_grace := grace; c_bits := bits; c_refresh2 := negb (rf2 =? 0); c_catch_all := negb (ca =? 0);
                  c_report_first := negb (rfirst =? 0);
                  c_bt := {| reset_index_in_process := negb (btr =? 0); cap0_guard := negb (btg =? 0) |};
                  c_bt_catch := negb (btc =? 0); c_flush_iv := fiv; c_follow := negb (follow =? 0) |} in
      let (lgf, r1) := dec_loggers (N.to_nat nl) 0 r (fun _ => mk_lgr 0 []) in
      match r1 with
      | ns :: r2 =>
          let (skf, r3) := dec_sinks (N.to_nat ns) 0 r2 (fun _ => mk_snk 0 []) in
          let cs := dec_cmds (length r3) r3 in
          let s0 := st0 clock0 (N.to_nat nl) (N.to_nat ns) lgf skf in
          (* unbounded frontends: every thread context starts with one node of the initial capacity *)
          let s0 := if dr =? 2 then set_th s0 (fun _ => set_thr_uqs thr0 (Some (Queue.UQDefs.uq_init (2 ^ capk)))) else s0 in
          obs (exec_all_fast K (cmds_threads cs) s0 cs)
      | [] => []
      end
  | _ => []
  end.

(* C16 at the macro level (LOG_*, LOGV_*, LOGJ_*, *_LIMIT, *_DYNAMIC): on a logger of level [lg] a statement of
   level [v] evaluates its arguments and is enqueued iff lg <= v - the same test as passes_logger.
   case: lvl <logger level> {<macro family> <level>}*  ->  per statement: <evaluated> <written> *)
Definition level_passes (lg v : N) : bool := lg <=? v.
Fixpoint lvl_pairs (fuel : nat) (l : list N) : list (N * N) :=
  match fuel with O => [] | S f => match l with fam :: v :: r => (fam, v) :: lvl_pairs f r | _ => [] end end.
Definition lvl_run_enc (l : list N) : list N :=
  match l with
  | lg :: r => flat_map (fun fv => let b := if level_passes lg (snd fv) then 1 else 0 in [b; b]) (lvl_pairs (length r) r)
  | [] => []
  end.
