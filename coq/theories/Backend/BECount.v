(* C08: accounting of refused reservations in M-BE, for every op list.
   denied = reported through the notifier + lost with destroyed contexts + still pending in the
   per-thread failure counters; and nothing is lost when the counters are reported right before a
   context is removed (F9).
   M-BE increments failc in ONE frontend step (fstep, refused reservation) and reads-and-resets it in ONE
   backend step (report_failures). That granularity is justified by Backend/FailCounterProofs.v: with
   increment_failure_counter one atomic read-modify-write and get_and_reset_failure_counter one atomic
   exchange (facts tcm_failc_inc_atomic / tcm_failc_reset_atomic read from the source, TieC08.v), every
   interleaving of the micro-steps of the real protocol is a run of the atomic machine used here
   (fc_refines_atomic) and is exact (fc_exact); with a split increment or a split reset it is not
   (fc_split_inc_refuted, fc_split_reset_refuted). *)
From Coq Require Import List NArith Arith Bool Lia.
From Quill Require Import Queue.BQDefs Backend.BEDefs Backend.BEInv.
Import ListNotations.
Local Open Scope N_scope.

Section Cnt.
Variable K : cfg.

Fixpoint sumf (f : nat -> thr) (l : list nat) : N :=
  match l with [] => 0 | u :: r => failc (f u) + sumf f r end.

Record CntInv (s : st) : Prop := {
  c_nodup : NoDup (registered s);
  c_zero : forall u, ~ In u (registered s) -> failc (th s u) = 0;
  c_sum : g_denied (gh s) = g_reported (gh s) + g_lost (gh s) + sumf (th s) (registered s)
}.

(* steps that touch neither the counters, nor the registry, nor the ghosts *)
Definition fsame (s s' : st) : Prop :=
  (forall u, failc (th s' u) = failc (th s u)) /\ registered s' = registered s /\ gh s' = gh s.

Lemma fsame_refl s : fsame s s. Proof. repeat split. Qed.
Lemma fsame_trans a b c : fsame a b -> fsame b c -> fsame a c.
Proof. intros (A1 & A2 & A3) (B1 & B2 & B3). split; [intro u; now rewrite B1, A1|split; congruence]. Qed.

Lemma sumf_ext f g l : (forall u, failc (g u) = failc (f u)) -> sumf g l = sumf f l.
Proof. intro H. induction l as [|u r IH]; cbn; [reflexivity|]. now rewrite H, IH. Qed.

Lemma cnt_fsame s s' : fsame s s' -> CntInv s -> CntInv s'.
Proof.
  intros (A1 & A2 & A3) [N0 Z S]. constructor.
  - now rewrite A2.
  - intros u Hu. rewrite A1. apply Z. now rewrite <- A2.
  - rewrite A3, A2, (sumf_ext (th s) (th s')); auto.
Qed.

Lemma sumf_upd_notin f t x l : ~ In t l -> sumf (upd f t x) l = sumf f l.
Proof.
  induction l as [|u r IH]; intro H; cbn; [reflexivity|].
  unfold upd at 1. destruct (Nat.eqb_spec u t) as [->|]; [exfalso; apply H; now left|].
  rewrite IH; auto. intro; apply H; now right.
Qed.

Lemma sumf_upd_in f t x l : NoDup l -> In t l -> sumf (upd f t x) l + failc (f t) = sumf f l + failc x.
Proof.
  induction l as [|u r IH]; intros ND Hin; [destruct Hin|]. inversion ND as [|? ? Hn ND']; subst. cbn.
  destruct Hin as [->|Hin].
  - rewrite upd_same, sumf_upd_notin by assumption. lia.
  - assert (u <> t) by (intro; subst; contradiction). rewrite upd_other by assumption.
    specialize (IH ND' Hin). lia.
Qed.

Lemma sumf_remove f t l : NoDup l -> In t l -> sumf f (remove_nat t l) + failc (f t) = sumf f l.
Proof.
  induction l as [|u r IH]; intros ND Hin; [destruct Hin|]. inversion ND as [|? ? Hn ND']; subst.
  cbn [remove_nat filter]. destruct (Nat.eqb_spec u t) as [->|Hne]; cbn [negb sumf].
  - assert (E : filter (fun v => negb (Nat.eqb v t)) r = r).
    { clear - Hn. induction r as [|a r IHr]; cbn; [reflexivity|].
      destruct (Nat.eqb_spec a t) as [->|]; [exfalso; apply Hn; now left|]. cbn. f_equal. apply IHr. intro; apply Hn; now right. }
    fold (remove_nat t r). unfold remove_nat. rewrite E. lia.
  - destruct Hin as [->|Hin]; [contradiction|]. fold (remove_nat t r). specialize (IH ND' Hin). lia.
Qed.

Lemma remove_nodup t l : NoDup l -> NoDup (remove_nat t l).
Proof. intro H. unfold remove_nat. now apply NoDup_filter. Qed.
Lemma remove_in t u l : In u (remove_nat t l) <-> In u l /\ u <> t.
Proof.
  unfold remove_nat. rewrite filter_In. split; intros [A B]; split; auto.
  - intro; subst. rewrite Nat.eqb_refl in B. discriminate.
  - now apply negb_true_iff, Nat.eqb_neq.
Qed.

Lemma memb_in t l : memb t l = true <-> In t l.
Proof.
  unfold memb. rewrite existsb_exists. split.
  - intros (x & Hx & E). apply Nat.eqb_eq in E. now subst.
  - intro H. exists t. split; [exact H|apply Nat.eqb_refl].
Qed.

(* ---------- frontend *)
Lemma fstep_cnt s o : CntInv s -> CntInv (fstep K s o).
Proof.
  intros I. destruct o as [t e|t|t|t|t|l v|k v|k m|d|t c]; cbn [fstep].
  - destruct (pend (th s t)); [exact I|]. destruct (tvalid (th s t) && passes_logger s e); [|exact I].
    eapply cnt_fsame; [|exact I]. repeat split. intro u. cbn. unfold upd. destruct (Nat.eqb_spec u t) as [->|]; reflexivity.
  - destruct (memb t (registered s)) eqn:M; [exact I|]. cbn [orb]. destruct (negb (tvalid (th s t))); [exact I|].
    assert (Hn : ~ In t (registered s)) by (intro H; apply memb_in in H; congruence).
    destruct I as [N0 Z S]. constructor; cbn.
    + apply NoDup_app_remove_l with (l := []) || idtac.
      rewrite <- (rev_involutive (registered s ++ [t])). apply NoDup_rev. rewrite rev_app_distr. cbn.
      constructor; [rewrite <- in_rev; exact Hn|apply NoDup_rev; exact N0].
    + intros u Hu. apply Z. intro; apply Hu. apply in_or_app; now left.
    + assert (E : sumf (th s) (registered s ++ [t]) = sumf (th s) (registered s) + failc (th s t)).
      { clear. induction (registered s) as [|a r IH]; cbn; [lia|]. rewrite IH. lia. }
      rewrite E, (Z t Hn). lia.
  - destruct (pend (th s t)) as [e0|]; [|exact I].
    destruct (negb (memb t (registered s))) eqn:M; [exact I|].
    assert (Hin : In t (registered s)) by (apply memb_in; now apply negb_false_iff).
    cbv zeta. set (e := retime K s e0).
    destruct (prepare_write ideal (c_cap K) (q (th s t)) (esz e)) as [q1 [off|]].
    + eapply cnt_fsame; [|exact I].
      destruct (ekind e); (repeat split; intro u; cbn [th set_th set_lg]; unfold upd;
        destruct (Nat.eqb_spec u t) as [->|]; reflexivity).
    + destruct (match ekind e with KLog => negb (counted (th s t)) | _ => false end) eqn:Inc.
      * (* counted: failc + 1, denied + 1 *)
        assert (Hcount : forall p c,
          CntInv (set_th (set_gh s (gh_denied (gh s))) (upd (th s) t
                   (set_thr_pend (set_thr_failc (set_thr_q (th s t) q1 (qev (th s t))) (failc (th s t) + 1)) p c)))).
        { intros p c. destruct I as [N0 Z S]. constructor; cbn [registered set_th set_gh th gh gh_denied g_denied g_reported g_lost].
          - exact N0.
          - intros u Hu. rewrite upd_other by (intro; subst; contradiction). now apply Z.
          - pose proof (sumf_upd_in (th s) t (set_thr_pend (set_thr_failc (set_thr_q (th s t) q1 (qev (th s t))) (failc (th s t) + 1)) p c) _ N0 Hin) as E.
            cbn [failc set_thr_pend set_thr_failc] in E. lia. }
        destruct (c_dropping K); [destruct (ekind e)|]; apply Hcount.
      * assert (Hsame : forall p c,
          CntInv (set_th s (upd (th s) t (set_thr_pend (set_thr_q (th s t) q1 (qev (th s t))) p c)))).
        { intros p c. eapply cnt_fsame; [|exact I]. repeat split. intro u. cbn. unfold upd. destruct (Nat.eqb_spec u t) as [->|]; reflexivity. }
        destruct (c_dropping K); [destruct (ekind e)|]; apply Hsame.
  - destruct (wflush (th s t)); [|exact I]. destruct (existsb (N.eqb n) (flags s)); [|exact I].
    eapply cnt_fsame; [|exact I]. repeat split. intro u. cbn. unfold upd. destruct (Nat.eqb_spec u t) as [->|]; reflexivity.
  - destruct (tvalid (th s t) && memb t (registered s)).
    + eapply cnt_fsame; [|exact I]. repeat split. intro u. cbn. unfold upd. destruct (Nat.eqb_spec u t) as [->|]; reflexivity.
    + destruct (tvalid (th s t)); [|exact I].
      eapply cnt_fsame; [|exact I]. repeat split. intro u. cbn. unfold upd. destruct (Nat.eqb_spec u t) as [->|]; reflexivity.
  - eapply cnt_fsame; [|exact I]. repeat split.
  - eapply cnt_fsame; [|exact I]. repeat split.
  - destruct (existsb (N.eqb m) (sfilt (sk s k)) || (m =? 0)); [exact I|]. eapply cnt_fsame; [|exact I]. repeat split.
  - eapply cnt_fsame; [|exact I]. repeat split.
  - eapply cnt_fsame; [|exact I]. repeat split. intro u. cbn. unfold upd. destruct (Nat.eqb_spec u t) as [->|]; reflexivity.
Qed.

(* ---------- backend helpers that leave the counters alone *)
Lemma refresh_fsame s : fsame s (refresh K s).
Proof.
  unfold refresh. destruct (newflag s); [|apply fsame_refl]. repeat split. intro u. cbn.
  destruct (memb u (registered s) && negb (texists (th s u))); reflexivity.
Qed.

Lemma qempty_fsame s u : fsame s (set_th s (upd (th s) u (fst (q_empty (th s u))))).
Proof.
  repeat split. intro v. cbn. unfold upd. destruct (Nat.eqb v u) eqn:E; [|reflexivity].
  apply Nat.eqb_eq in E; subst. now destruct (q_empty_fields (th s u)) as (_ & _ & _ & H & _).
Qed.

Lemma pending_scan_fsame l : forall s, fsame s (fst (pending_scan s l)).
Proof.
  induction l as [|u r IH]; intro s; cbn [pending_scan]; [apply fsame_refl|].
  destruct (tbuf (th s u)); [|apply IH].
  pose proof (qempty_fsame s u) as Q. destruct (q_empty (th s u)) as [x1 e]. cbn [fst] in *.
  destruct e; [eapply fsame_trans; [exact Q|apply IH]|exact Q].
Qed.

Lemma all_empty_scan_fsame l : forall s acc, fsame s (fst (all_empty_scan s l acc)).
Proof.
  induction l as [|u r IH]; intros s acc; cbn [all_empty_scan]; [apply fsame_refl|].
  pose proof (qempty_fsame s u) as Q. destruct (q_empty (th s u)) as [x1 e]. cbn [fst] in *.
  eapply fsame_trans; [exact Q|apply IH].
Qed.

Lemma find_dead_fsame l : forall s, fsame s (fst (find_dead s l)) /\
  (forall u, snd (find_dead s l) = Some u -> In u l) /\ cache (fst (find_dead s l)) = cache s.
Proof.
  induction l as [|u r IH]; intro s; cbn [find_dead].
  - split; [apply fsame_refl|]. split; [intros; discriminate|reflexivity].
  - destruct (tvalid (th s u)).
    + destruct (IH s) as (A & B & Cc). split; [exact A|]. split; [intros v Hv; right; now apply B|exact Cc].
    + pose proof (qempty_fsame s u) as Q. destruct (q_empty (th s u)) as [x1 e]. cbn [fst] in *.
      destruct (e && match tbuf x1 with [] => true | _ => false end).
      * cbn [fst snd]. split; [exact Q|]. split; [intros v Hv; inversion Hv; now left|reflexivity].
      * destruct (IH (set_th s (upd (th s) u x1))) as (A & B & Cc).
        split; [eapply fsame_trans; [exact Q|exact A]|]. split; [intros v Hv; right; now apply B|exact Cc].
Qed.

Lemma remove_notin t l : ~ In t l -> remove_nat t l = l.
Proof.
  induction l as [|a r IH]; intro H; cbn; [reflexivity|].
  destruct (Nat.eqb_spec a t) as [->|]; [exfalso; apply H; now left|]. cbn. f_equal. apply IH. intro; apply H; now right.
Qed.

Lemma core_fsame s s' : th s' = th s -> registered s' = registered s -> gh s' = gh s -> fsame s s'.
Proof. intros A B Cc. split; [intro u; now rewrite A|split; assumption]. Qed.

Lemma dispatch_fsame e ks : forall s, fsame s (fst (dispatch s e ks)).
Proof. intro s. destruct (dispatch_core s e ks) as (A & _ & _ & _ & _ & G & H & _). now apply core_fsame. Qed.

Lemma process_event_fsame s e : fsame s (process_event K s e).
Proof. destruct (process_event_core K s e) as (A & _ & _ & _ & _ & G & H & _). now apply core_fsame. Qed.

Lemma read_loop_failc fuel lim tn : forall x total notes,
  failc (fst (fst (fst (read_loop K fuel lim tn x total notes)))) = failc x.
Proof.
  induction fuel as [|f IH]; intros x total notes; cbn [read_loop]; [reflexivity|].
  destruct (prepare_read ideal (c_cap K) (q x)) as [q1 r0]. destruct (u_blocked K x); [reflexivity|].
  destruct r0 as [off|]; [|reflexivity].
  destruct (qev x) as [|e rest]; [reflexivity|].
  destruct (negb (c_grace K =? 0) && (tn <? ets e)); [reflexivity|].
  assert (Hgo : forall c g,
    let x1 := sh g (set_thr_tbuf (set_thr_q x (finish_read ideal q1 (esz e)) rest) (tbuf x ++ [e]) c) in
    let r := if (total + esz e <? lim) && (N.of_nat (length (tbuf x1)) <? c_hard K)
             then read_loop K f lim tn x1 (total + esz e) (notes ++ fmt_notes e)
             else (x1, total + esz e, notes ++ fmt_notes e, false) in
    failc (fst (fst (fst r))) = failc x).
  { intros c g x1 r. unfold r. destruct ((total + esz e <? lim) && (N.of_nat (length (tbuf x1)) <? c_hard K)).
    - rewrite IH. reflexivity.
    - reflexivity. }
  destruct (efmt e); destruct (ekind e); destruct (c_catch_all K); try reflexivity; apply Hgo.
Qed.

Lemma read_queue_failc tn x : failc (fst (fst (read_queue K tn x))) = failc x.
Proof.
  unfold read_queue. pose proof (read_loop_failc (S (length (qev x))) (read_limit K x) tn x 0 []) as H.
  destruct (read_loop K (S (length (qev x))) (read_limit K x) tn x 0 []) as [[[x1 total] notes] esc]. cbn [fst] in *.
  destruct (total =? 0); cbn [fst]; exact H.
Qed.

(* ---------- reporting and removal *)
Lemma report_failures_cnt l : forall s, CntInv s -> CntInv (report_failures K s l) /\
  registered (report_failures K s l) = registered s /\ g_lost (gh (report_failures K s l)) = g_lost (gh s) /\
  cache (report_failures K s l) = cache s /\
  (forall u, In u l -> failc (th (report_failures K s l) u) = 0) /\
  (forall u, failc (th s u) = 0 -> failc (th (report_failures K s l) u) = 0).
Proof.
  induction l as [|u r IH]; intros s I; cbn [report_failures].
  - split; [exact I|]. split; [reflexivity|]. split; [reflexivity|]. split; [reflexivity|]. split; [intros u []|auto].
  - destruct (N.eqb_spec (failc (th s u)) 0) as [E|NE].
    + destruct (IH s I) as (A & B & Cc & D & F & G).
      split; [exact A|]. split; [exact B|]. split; [exact Cc|]. split; [exact D|]. split; [|exact G].
      intros v [->|Hv]; [apply G; exact E|now apply F].
    + set (s1 := set_gh _ _).
      assert (I1 : CntInv s1).
      { destruct I as [N0 Z S]. unfold s1. constructor; cbn [registered set_gh add_obs set_th th gh gh_reported g_denied g_reported g_lost].
        - exact N0.
        - intros v Hv. unfold upd. destruct (Nat.eqb v u); [reflexivity|now apply Z].
        - destruct (in_dec Nat.eq_dec u (registered s)) as [Hin|Hnin].
          + pose proof (sumf_upd_in (th s) u (set_thr_failc (th s u) 0) _ N0 Hin) as E. cbn [failc set_thr_failc] in E. lia.
          + rewrite sumf_upd_notin by assumption. rewrite (Z u Hnin). lia. }
      destruct (IH s1 I1) as (A & B & Cc & D & F & G).
      split; [exact A|]. split; [exact B|]. split; [exact Cc|]. split; [exact D|]. split.
      * intros v [->|Hv]; [apply G; unfold s1; cbn; now rewrite upd_same|now apply F].
      * intros v Hv. apply G. unfold s1. cbn. unfold upd. destruct (Nat.eqb v u); [reflexivity|exact Hv].
Qed.

Definition NoLoss (s : st) : Prop := c_report_first K = true -> g_lost (gh s) = 0.

Lemma cleanup_loop_cnt fuel : forall s, CntInv s -> NoLoss s ->
  CntInv (cleanup_loop K fuel s) /\ NoLoss (cleanup_loop K fuel s).
Proof.
  induction fuel as [|f IH]; intros s I L; cbn [cleanup_loop]; [split; assumption|].
  destruct (find_dead_fsame (cache s) s) as (Fs & Fin & Fc).
  destruct (find_dead s (cache s)) as [s0 [u|]]; cbn [fst snd] in *.
  2:{ split; [eapply cnt_fsame; eauto|]. intro H. destruct Fs as (_ & _ & E). rewrite E. now apply L. }
  pose proof (cnt_fsame _ _ Fs I) as I0.
  assert (L0 : NoLoss s0) by (intro H; destruct Fs as (_ & _ & E); rewrite E; now apply L).
  assert (Hu : In u (cache s0)) by (rewrite Fc; now apply Fin).
  set (s1 := if c_report_first K then report_failures K s0 (cache s0) else s0).
  assert (H1 : CntInv s1 /\ NoLoss s1 /\ (c_report_first K = true -> failc (th s1 u) = 0)).
  { unfold s1. destruct (c_report_first K) eqn:RF.
    - destruct (report_failures_cnt (cache s0) s0 I0) as (A & B & Cc & D & F & G).
      split; [exact A|]. split; [intro; rewrite Cc; now apply L0|intro; now apply F].
    - split; [exact I0|]. split; [exact L0|intro; discriminate]. }
  destruct H1 as (I1 & L1 & Z1). clearbody s1.
  apply IH.
  - destruct I1 as [N0 Z S]. constructor; cbn [registered th gh gh_lost g_denied g_reported g_lost].
    + now apply remove_nodup.
    + intros v Hv. unfold upd. destruct (Nat.eqb_spec v u) as [->|Hne]; [reflexivity|].
      apply Z. intro Hin. apply Hv. apply remove_in. now split.
    + rewrite sumf_upd_notin by (intro H; apply remove_in in H; destruct H; congruence).
      destruct (in_dec Nat.eq_dec u (registered s1)) as [Hin|Hnin].
      * pose proof (sumf_remove (th s1) u _ N0 Hin). lia.
      * rewrite (remove_notin _ _ Hnin), (Z u Hnin). lia.
  - intro RF. cbn [gh gh_lost g_lost]. rewrite (Z1 RF), (L1 RF). reflexivity.
Qed.

Lemma cleanup_ctx_cnt s : CntInv s -> NoLoss s -> CntInv (cleanup_ctx K s) /\ NoLoss (cleanup_ctx K s).
Proof. intros I L. unfold cleanup_ctx. destruct (invalid_cnt s =? 0); [split; assumption|]. now apply cleanup_loop_cnt. Qed.

Lemma noloss_fsame s s' : fsame s s' -> NoLoss s -> NoLoss s'.
Proof. intros (_ & _ & E) L H. rewrite E. now apply L. Qed.

Lemma process_min_cnt s : CntInv s -> NoLoss s -> CntInv (fst (process_min K s)) /\ NoLoss (fst (process_min K s)).
Proof.
  intros I L. unfold process_min.
  destruct (min_front s (cache s) None) as [[u e]|]; [|split; assumption].
  set (s1 := process_event K s e).
  assert (F1 : fsame s s1) by apply process_event_fsame.
  assert (F3 : fsame s (pop_event s1 u e)).
  { eapply fsame_trans; [exact F1|]. repeat split. intro v. cbn. unfold upd. destruct (Nat.eqb_spec v u) as [->|]; reflexivity. }
  pose proof (cnt_fsame _ _ F3 I) as I3. pose proof (noloss_fsame _ _ F3 L) as L3.
  destruct (ekind e); cbn [fst]; try (split; assumption).
  destruct (cleanup_ctx_cnt _ I3 L3) as [A B]. split.
  - eapply cnt_fsame; [|exact A]. repeat split.
  - eapply noloss_fsame; [|exact B]. repeat split.
Qed.

Lemma bstep_cnt s : CntInv s -> NoLoss s -> CntInv (bstep K s) /\ NoLoss (bstep K s).
Proof.
  intros I L. unfold bstep.
  assert (FS : forall s', fsame s s' -> CntInv s' /\ NoLoss s') by (intros s' F; split; [eapply cnt_fsame|eapply noloss_fsame]; eauto).
  destruct (pc s) as [| | |[|u todo]| | | | |].
  - apply FS. eapply fsame_trans; [apply refresh_fsame|repeat split].
  - apply FS. repeat split.
  - apply FS. destruct (c_refresh2 K); [eapply fsame_trans; [apply refresh_fsame|repeat split]|repeat split].
  - apply FS. destruct (buffered s =? 0); [repeat split|]. destruct (buffered s <? c_soft K); repeat split.
  - pose proof (read_queue_failc (tsnow s) (th s u)) as Hf.
    destruct (read_queue K (tsnow s) (th s u)) as [[x1 notes] esc]. cbn [fst] in Hf.
    apply FS. destruct esc; (repeat split; intro v; cbn; unfold upd; destruct (Nat.eqb_spec v u) as [->|]; [exact Hf|reflexivity]).
  - destruct (process_min_cnt s I L) as [A B]. split; [eapply cnt_fsame; [|exact A]|eapply noloss_fsame; [|exact B]]; repeat split.
  - pose proof (refresh_fsame s) as F0. pose proof (pending_scan_fsame (cache (refresh K s)) (refresh K s)) as F1.
    destruct (pending_scan (refresh K s) (cache (refresh K s))) as [s1 pending]. cbn [fst] in F1.
    pose proof (fsame_trans _ _ _ F0 F1) as F01.
    destruct pending; [apply FS; eapply fsame_trans; [exact F01|repeat split]|].
    destruct (FS _ F01) as [I1 L1]. destruct (process_min_cnt s1 I1 L1) as [A B].
    destruct (process_min K s1) as [s2 did]. cbn [fst] in *.
    destruct did; (split; [eapply cnt_fsame; [|exact A]|eapply noloss_fsame; [|exact B]]; repeat split).
  - apply FS. idle_cases; repeat split.
  - destruct (report_failures_cnt (cache s) s I) as (A & B & Cc & _).
    split; [eapply cnt_fsame; [|exact A]; repeat split|]. intro H. cbn. rewrite Cc. now apply L.
  - pose proof (refresh_fsame s) as F0. pose proof (all_empty_scan_fsame (cache (refresh K s)) (refresh K s) true) as F1.
    destruct (all_empty_scan (refresh K s) (cache (refresh K s)) true) as [s1 e]. cbn [fst] in F1.
    pose proof (fsame_trans _ _ _ F0 F1) as F01. destruct (FS _ F01) as [I1 L1].
    destruct e; [|split; [eapply cnt_fsame; [|exact I1]|eapply noloss_fsame; [|exact L1]]; repeat split].
    destruct (cleanup_ctx_cnt _ I1 L1) as [A B].
    split; [eapply cnt_fsame; [|exact A]|eapply noloss_fsame; [|exact B]]; repeat split.
Qed.

Lemma fstep_noloss s o : NoLoss s -> NoLoss (fstep K s o).
Proof.
  intros L H. specialize (L H).
  destruct o as [t e|t|t|t|t|l v|k v|k m|d|t c]; cbn [fstep]; auto.
  - destruct (pend (th s t)); [exact L|]. destruct (tvalid (th s t) && passes_logger s e); exact L.
  - destruct (memb t (registered s) || negb (tvalid (th s t))); exact L.
  - destruct (pend (th s t)) as [e0|]; [|exact L]. destruct (negb (memb t (registered s))); [exact L|].
    cbv zeta. destruct (prepare_write ideal (c_cap K) (q (th s t)) (esz (retime K s e0))) as [q1 [off|]]; [destruct (ekind (retime K s e0)); exact L|].
    destruct (match ekind (retime K s e0) with KLog => negb (counted (th s t)) | _ => false end);
      destruct (c_dropping K); try destruct (ekind (retime K s e0)); exact L.
  - destruct (wflush (th s t)); [|exact L]. destruct (existsb (N.eqb n) (flags s)); exact L.
  - destruct (tvalid (th s t) && memb t (registered s)); [exact L|]. destruct (tvalid (th s t)); exact L.
  - destruct (existsb (N.eqb m) (sfilt (sk s k)) || (m =? 0)); exact L.
Qed.

Theorem run_cnt ops : forall s, CntInv s -> NoLoss s -> CntInv (run K s ops) /\ NoLoss (run K s ops).
Proof.
  unfold run. induction ops as [|o ops IH]; intros s I L; cbn [fold_left]; [split; assumption|].
  destruct o as [f|]; cbn [step].
  - apply IH; [apply fstep_cnt; exact I|apply fstep_noloss; exact L].
  - destruct (bstep_cnt s I L) as [A B]. now apply IH.
Qed.
End Cnt.

(* ---------- from the initial state *)
Definition init_like (s0 : st) : Prop :=
  registered s0 = [] /\ (forall t, fresh_thr (th s0 t)) /\ gh s0 = {| g_denied := 0; g_reported := 0; g_lost := 0 |}.

Theorem be_count K s0 ops : init_like s0 ->
  let s := run K s0 ops in
  g_denied (gh s) = g_reported (gh s) + g_lost (gh s) + sumf (th s) (registered s) /\
  (c_report_first K = true -> g_lost (gh s) = 0).
Proof.
  intros (R0 & T0 & G0) s.
  assert (I0 : CntInv s0).
  { constructor; rewrite ?R0, ?G0; cbn; [constructor|intros u _; destruct (T0 u) as (v & ->); reflexivity|reflexivity]. }
  assert (L0 : NoLoss K s0) by (intros _; now rewrite G0).
  destruct (run_cnt K ops s0 I0 L0) as [[_ _ S] L]. split; [exact S|exact L].
Qed.

(* what one reservation attempt of an ordinary statement does on a dropping queue *)
Lemma ftry_dropping K s t e : c_dropping K = true -> pend (th s t) = Some e -> ekind e = KLog ->
  memb t (registered s) = true ->
  let s' := fstep K s (FTry t) in
  pend (th s' t) = None /\
  ((issued s' t = issued s t ++ [eid e] /\ gh s' = gh s /\ failc (th s' t) = failc (th s t)) \/
   (issued s' t = issued s t /\ qev (th s' t) = qev (th s t) /\
    g_denied (gh s') = g_denied (gh s) + (if counted (th s t) then 0 else 1) /\
    failc (th s' t) = failc (th s t) + (if counted (th s t) then 0 else 1))).
Proof.
  intros Hd Hp Hk Hm. cbn [fstep]. rewrite Hp, Hm. cbn [negb]. cbv zeta.
  assert (Er : retime K s e = e) by (unfold retime; now rewrite Hk). rewrite Er.
  destruct (prepare_write ideal (c_cap K) (q (th s t)) (esz e)) as [q1 [off|]].
  - rewrite Hk. cbn. rewrite !upd_same. cbn. split; [reflexivity|]. left. auto.
  - rewrite Hk, Hd. destruct (counted (th s t)); cbn; rewrite ?upd_same; cbn; (split; [reflexivity|]); right; repeat split; lia.
Qed.

(* control requests are never discarded and never counted *)
Lemma ftry_control K s t e : pend (th s t) = Some e -> ekind e <> KLog -> memb t (registered s) = true ->
  let s' := fstep K s (FTry t) in
  gh s' = gh s /\ failc (th s' t) = failc (th s t) /\
  (pend (th s' t) = None -> issued s' t = issued s t ++ [eid e]) /\
  (pend (th s' t) <> None -> issued s' t = issued s t).
Proof.
  intros Hp Hk Hm. cbn [fstep]. rewrite Hp, Hm. cbn [negb]. cbv zeta.
  unfold retime. destruct (ekind e) eqn:E; [congruence| | |]; destruct (c_dropping K) eqn:D; cbn [eid esz ekind];
    (match goal with |- context [prepare_write ideal ?c ?q ?n] => destruct (prepare_write ideal c q n) as [q1 [off|]] end);
    rewrite ?E, ?D; cbn; rewrite ?upd_same; cbn;
    (repeat split; auto; intro H; try discriminate; try (exfalso; now apply H)).
Qed.
