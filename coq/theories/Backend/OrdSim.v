(* M-BE refines S-ord (Backend/Ord.v): every micro-step of the backend model is matched by a short
   sequence of steps of the timestamp skeleton, under the premises of C05 (a non-zero grace period, the
   cache refreshed again after the clock read, no escaping exception, and every statement committed
   within the grace period of its timestamp). Hence the sequence of processed events of M-BE is sorted
   by timestamp, for every op list. *)
From Coq Require Import List NArith Arith Bool Lia Sorting.Sorted.
From Quill Require Import Queue.BQDefs Queue.BQSeqProofs BT.BTModel Backend.BEDefs Backend.BEInv Backend.BECount Backend.BECtx Backend.BEDispatch Backend.BEFault.
From Quill Require Backend.Ord.
Import ListNotations.
Local Open Scope N_scope.

Section Sim.
Variable K : cfg.
Hypothesis Hgrace : c_grace K <> 0.
Hypothesis Hrf2 : c_refresh2 K = true.
Hypothesis Hcatch : c_catch_all K = true.
Notation g := (c_grace K).
Notation ostep := (Ord.step g true).
Definition orun (a : Ord.st) (ops : list Ord.op) : Ord.st := fold_left ostep ops a.
Lemma Hgrace_b : negb (g =? 0) = true.
Proof. apply negb_true_iff, N.eqb_neq, Hgrace. Qed.

Definition athr (x : thr) : Ord.thr :=
  {| Ord.pend := option_map ets (pend x); Ord.queue := map ets (qev x); Ord.tbuf := map ets (tbuf x) |}.

Definition apc (p : pc_t) : Ord.pc_t :=
  match p with
  | PIdle | PIdle1 | PIdle2 | PIdle3 => Ord.Idle
  | PRefreshed => Ord.Refreshed
  | PTimed => Ord.Timed
  | PReading l => Ord.Reading l
  | PSingle => Ord.Done false
  | PBatch => Ord.Done true
  end.

Record R (s : st) (a : Ord.st) : Prop := {
  r_clock : Ord.clock a = clock s;
  r_T : Ord.T a = tsnow s;
  r_th : forall u, Ord.th a u = athr (th s u);
  r_reg : Ord.registered a = registered s;
  r_cache : Ord.cache a = cache s;
  r_pc : Ord.pc a = apc (pc s);
  r_out : Ord.out a = map ets (plog s)
}.

(* the cache is the registry whenever no registration is pending *)
Definition FlagInv (s : st) : Prop := newflag s = false -> cache s = registered s.

Lemma orun_app a l1 l2 : orun a (l1 ++ l2) = orun (orun a l1) l2.
Proof. apply fold_left_app. Qed.

(* ---------- generic: steps that change nothing the skeleton sees *)
Definition asame (s s' : st) : Prop :=
  clock s' = clock s /\ tsnow s' = tsnow s /\ (forall u, athr (th s' u) = athr (th s u)) /\
  registered s' = registered s /\ cache s' = cache s /\ apc (pc s') = apc (pc s) /\ plog s' = plog s.

Lemma R_asame s s' a : asame s s' -> R s a -> R s' a.
Proof.
  intros (A1 & A2 & A3 & A4 & A5 & A6 & A7) [B1 B2 B3 B4 B5 B6 B7].
  constructor; try congruence; intro u; now rewrite B3, A3.
Qed.

(* R without the program counter *)
Record Rnp (s : st) (a : Ord.st) : Prop := {
  n_clock : Ord.clock a = clock s;
  n_T : Ord.T a = tsnow s;
  n_th : forall u, Ord.th a u = athr (th s u);
  n_reg : Ord.registered a = registered s;
  n_cache : Ord.cache a = cache s;
  n_out : Ord.out a = map ets (plog s)
}.
Lemma R_Rnp s a : R s a -> Rnp s a.
Proof. intros [B1 B2 B3 B4 B5 B6 B7]. constructor; auto. Qed.
Lemma Rnp_R s a : Rnp s a -> Ord.pc a = apc (pc s) -> R s a.
Proof. intros [B1 B2 B3 B4 B5 B7] E. constructor; auto. Qed.
Lemma Rnp_asame s s' a : asame s s' -> Rnp s a -> Rnp s' a.
Proof.
  intros (A1 & A2 & A3 & A4 & A5 & A6 & A7) [B1 B2 B3 B4 B5 B7].
  constructor; try congruence; intro u; now rewrite B3, A3.
Qed.

Lemma memb_existsb t l : memb t l = existsb (Nat.eqb t) l.
Proof. reflexivity. Qed.

(* ---------- facts about single skeleton steps *)
Definition osame (a a' : Ord.st) : Prop :=
  Ord.clock a' = Ord.clock a /\ Ord.T a' = Ord.T a /\ Ord.registered a' = Ord.registered a /\
  Ord.cache a' = Ord.cache a /\ Ord.pc a' = Ord.pc a /\ Ord.out a' = Ord.out a.

Definition osame_nopc (a a' : Ord.st) : Prop :=
  Ord.clock a' = Ord.clock a /\ Ord.T a' = Ord.T a /\ Ord.registered a' = Ord.registered a /\
  Ord.cache a' = Ord.cache a /\ Ord.out a' = Ord.out a.

Lemma ord_fdrop a t : let a' := ostep a (Ord.FDrop t) in
  osame a a' /\ (forall u, u <> t -> Ord.th a' u = Ord.th a u) /\
  Ord.th a' t = {| Ord.pend := None; Ord.queue := Ord.queue (Ord.th a t); Ord.tbuf := Ord.tbuf (Ord.th a t) |}.
Proof.
  cbn [Ord.step]. destruct (Ord.pend (Ord.th a t)) eqn:E.
  - cbn. split; [repeat split|]. split.
    + intros u Hu. unfold Ord.upd. apply Nat.eqb_neq in Hu. now rewrite Hu.
    + unfold Ord.upd. now rewrite Nat.eqb_refl.
  - split; [repeat split|]. split; [auto|]. destruct (Ord.th a t); cbn in *. now rewrite E.
Qed.

Lemma ord_fread a t : Ord.pend (Ord.th a t) = None -> let a' := ostep a (Ord.FRead t) in
  osame a a' /\ (forall u, u <> t -> Ord.th a' u = Ord.th a u) /\
  Ord.th a' t = {| Ord.pend := Some (Ord.clock a); Ord.queue := Ord.queue (Ord.th a t); Ord.tbuf := Ord.tbuf (Ord.th a t) |}.
Proof.
  intro E. cbn [Ord.step]. rewrite E. cbn. split; [repeat split|]. split.
  - intros u Hu. unfold Ord.upd. apply Nat.eqb_neq in Hu. now rewrite Hu.
  - unfold Ord.upd. now rewrite Nat.eqb_refl.
Qed.

Lemma ord_fenq a t ts : Ord.pend (Ord.th a t) = Some ts -> existsb (Nat.eqb t) (Ord.registered a) = true ->
  Ord.clock a <= ts + g -> let a' := ostep a (Ord.FEnq t) in
  osame a a' /\ (forall u, u <> t -> Ord.th a' u = Ord.th a u) /\
  Ord.th a' t = {| Ord.pend := None; Ord.queue := Ord.queue (Ord.th a t) ++ [ts]; Ord.tbuf := Ord.tbuf (Ord.th a t) |}.
Proof.
  intros E Hr Hc. cbn [Ord.step]. rewrite E, Hr. cbn [andb].
  destruct (N.leb_spec (Ord.clock a) (ts + g)) as [_|Hbad]; [|lia].
  cbn. split; [repeat split|]. split.
  - intros u Hu. unfold Ord.upd. apply Nat.eqb_neq in Hu. now rewrite Hu.
  - unfold Ord.upd. now rewrite Nat.eqb_refl.
Qed.

(* ---------- frontend steps *)
(* the unbounded queue's empty() does not answer "not empty" for a queue that holds nothing *)
Definition nospur (x : thr) : Prop := qev x = [] -> u_hint x = true.

Definition wg (s : st) (o : op) : Prop :=
  match o with
  | F (FTry t) =>
      match pend (th s t) with
      | Some e0 =>
          let e := retime K s e0 in
          memb t (registered s) = true ->
          snd (prepare_write ideal (c_cap K) (q (th s t)) (esz e)) <> None -> clock s <= ets e + g
      | None => True
      end
  | B =>
      (* a read pass does not start on a thread whose unbounded queue has a drained node followed by an empty one
         (prepare_read follows one link per call and would return nothing although later nodes hold records): that
         state arises only after shrink_thread_local_queue followed by a record larger than the shrunken node *)
      match pc s with
      | PReading (u :: _) => u_blocked K (th s u) = false
      | PBatch => forall v, nospur (th s v)     (* empty() of an unbounded queue answers "empty" when nothing is queued *)
      | _ => True
      end
  | _ => True
  end.

Lemma athr_pend x p c : athr (set_thr_pend x p c) = {| Ord.pend := option_map ets p; Ord.queue := Ord.queue (athr x); Ord.tbuf := Ord.tbuf (athr x) |}.
Proof. reflexivity. Qed.

Lemma sim_fstep s a o : R s a -> wg s (F o) -> exists ops, R (fstep K s o) (orun a ops).
Proof.
  intros HR Hwg. pose proof HR as [B1 B2 B3 B4 B5 B6 B7].
  destruct o as [t e|t|t|t|t|l v|k v|k m|d|t c]; cbn [fstep].
  - (* FClock *)
    destruct (pend (th s t)) as [p|] eqn:Ep; [exists []; exact HR|].
    destruct (tvalid (th s t) && passes_logger s e); [|exists []; exact HR].
    exists [Ord.FRead t]. cbn [orun fold_left Ord.step]. rewrite B3. cbn [athr Ord.pend]. rewrite Ep. cbn [option_map].
    constructor; cbn; auto.
    intro u. unfold Ord.upd, upd. destruct (Nat.eqb u t) eqn:E; [|apply B3].
    apply Nat.eqb_eq in E; subst u. rewrite ?B3, B1. reflexivity.
  - (* FReg *)
    rewrite memb_existsb. destruct (existsb (Nat.eqb t) (registered s)) eqn:Em; cbn [orb].
    + exists []. exact HR.
    + destruct (tvalid (th s t)); cbn [negb]; [|exists []; exact HR].
      exists [Ord.FReg t]. cbn [orun fold_left Ord.step]. rewrite B4, Em.
      constructor; cbn; auto; now rewrite B4.
  - (* FTry *)
    destruct (pend (th s t)) as [e0|] eqn:Ep; [|exists []; exact HR].
    destruct (memb t (registered s)) eqn:Em; cbn [negb]; [|exists []; exact HR].
    cbv zeta. cbn [wg] in Hwg. rewrite Ep in Hwg. specialize (Hwg Em).
    set (e := retime K s e0) in *.
    remember (match ekind e0 with KLog => false | _ => c_dropping K end) as rs eqn:Hrs.
    assert (Hets : if rs then ets e = clock s else ets e = ets e0).
    { subst rs. unfold e, retime. destruct (ekind e0); destruct (c_dropping K); auto. }
    set (restamp := if rs then [Ord.FDrop t; Ord.FRead t] else @nil Ord.op).
    assert (Ha1 : let a1 := orun a restamp in
                  Ord.clock a1 = clock s /\ Ord.T a1 = tsnow s /\ Ord.registered a1 = registered s /\ Ord.cache a1 = cache s /\
                  Ord.pc a1 = apc (pc s) /\ Ord.out a1 = map ets (plog s) /\
                  (forall u, u <> t -> Ord.th a1 u = athr (th s u)) /\
                  Ord.th a1 t = {| Ord.pend := Some (ets e); Ord.queue := map ets (qev (th s t)); Ord.tbuf := map ets (tbuf (th s t)) |}).
    { unfold restamp. clear Hrs. destruct rs; rename Hets into He; cbn [orun fold_left]; [|].
      2:{ split; [exact B1|]. split; [exact B2|]. split; [exact B4|]. split; [exact B5|]. split; [exact B6|]. split; [exact B7|].
          split; [intros u _; apply B3|]. rewrite B3. unfold athr. rewrite Ep. cbn. now rewrite He. }
      destruct (ord_fdrop a t) as ((D1 & D2 & D4 & D5 & D6 & D7) & Do & Dt).
      assert (Dp : Ord.pend (Ord.th (ostep a (Ord.FDrop t)) t) = None) by now rewrite Dt.
      destruct (ord_fread (ostep a (Ord.FDrop t)) t Dp) as ((E1 & E2 & E4 & E5 & E6 & E7) & Eo & Et).
      split; [congruence|]. split; [congruence|]. split; [congruence|]. split; [congruence|]. split; [congruence|]. split; [congruence|].
      split.
      - intros u Hu. rewrite (Eo u Hu), (Do u Hu). apply B3.
      - rewrite Et, Dt, D1, B1. cbn [Ord.queue Ord.tbuf]. rewrite B3, He. reflexivity. }
    cbv zeta in Ha1. destruct Ha1 as (C1 & C2 & C4 & C5 & C6 & C7 & C3o & C3t).
    destruct (prepare_write ideal (c_cap K) (q (th s t)) (esz e)) as [q1 [off|]] eqn:Epw; cbn [snd] in Hwg.
    + (* granted: the skeleton enqueues *)
      specialize (Hwg ltac:(discriminate)).
      assert (P1 : Ord.pend (Ord.th (orun a restamp) t) = Some (ets e)) by now rewrite C3t.
      assert (P2 : existsb (Nat.eqb t) (Ord.registered (orun a restamp)) = true) by (rewrite C4, <- memb_existsb; exact Em).
      assert (P3 : Ord.clock (orun a restamp) <= ets e + g) by now rewrite C1.
      destruct (ord_fenq _ t _ P1 P2 P3) as ((E1 & E2 & E4 & E5 & E6 & E7) & Eo & Et).
      exists (restamp ++ [Ord.FEnq t]). rewrite orun_app.
      change (orun (orun a restamp) [Ord.FEnq t]) with (ostep (orun a restamp) (Ord.FEnq t)).
      destruct (ekind e); (constructor; cbn [clock tsnow th registered cache pc plog set_th set_lg]; try congruence;
        intro u; unfold upd; destruct (Nat.eqb_spec u t) as [->|Hne];
        [rewrite Et, C3t; unfold athr; cbn; rewrite ?map_app; reflexivity|rewrite (Eo u Hne); now apply C3o]).
    + (* denied *)
      assert (Hden : forall (s' : st) x2 (p : option ev) c, p = None \/ p = Some e ->
                 clock s' = clock s -> tsnow s' = tsnow s -> th s' = th s -> registered s' = registered s -> cache s' = cache s ->
                 pc s' = pc s -> plog s' = plog s -> qev x2 = qev (th s t) -> tbuf x2 = tbuf (th s t) ->
                 exists ops, R (set_th s' (upd (th s') t (set_thr_pend x2 p c))) (orun a ops)).
      { intros s' x2 p c Hp E1 E2 E3 E4 E5 E6 E7 Q1 Q2. destruct Hp as [->| ->].
        - destruct (ord_fdrop (orun a restamp) t) as ((D1 & D2 & D4 & D5 & D6 & D7) & Do & Dt).
          exists (restamp ++ [Ord.FDrop t]). rewrite orun_app.
          change (orun (orun a restamp) [Ord.FDrop t]) with (ostep (orun a restamp) (Ord.FDrop t)).
          constructor; cbn [clock tsnow th registered cache pc plog set_th]; try congruence.
          intro u. rewrite E3. unfold upd. destruct (Nat.eqb_spec u t) as [->|Hne].
          + rewrite Dt, C3t. unfold athr. cbn. now rewrite Q1, Q2.
          + rewrite (Do u Hne). now apply C3o.
        - exists restamp.
          constructor; cbn [clock tsnow th registered cache pc plog set_th]; try congruence.
          intro u. rewrite E3. unfold upd. destruct (Nat.eqb_spec u t) as [->|Hne].
          + rewrite C3t. unfold athr. cbn. now rewrite Q1, Q2.
          + now apply C3o. }
      destruct (match ekind e with KLog => negb (counted (th s t)) | _ => false end);
        destruct (c_dropping K); try destruct (ekind e);
        (apply Hden; try reflexivity; auto).
  - (* FWaitFlush *)
    destruct (wflush (th s t)); [|exists []; exact HR]. destruct (existsb (N.eqb n) (flags s)); [|exists []; exact HR].
    exists []. eapply R_asame; [|exact HR]. repeat split. intro u. cbn. unfold upd. destruct (Nat.eqb_spec u t) as [->|]; reflexivity.
  - (* FExit *)
    exists []. destruct (tvalid (th s t) && memb t (registered s)); [|destruct (tvalid (th s t)); [|exact HR]];
      (eapply R_asame; [|exact HR]; repeat split; intro u; cbn; unfold upd; destruct (Nat.eqb_spec u t) as [->|]; reflexivity).
  - exists []. eapply R_asame; [|exact HR]. repeat split.
  - exists []. eapply R_asame; [|exact HR]. repeat split.
  - exists []. destruct (existsb (N.eqb m) (sfilt (sk s k)) || (m =? 0)); [exact HR|]. eapply R_asame; [|exact HR]. repeat split.
  - exists [Ord.Tick d]. cbn [orun fold_left Ord.step]. constructor; cbn; auto. now rewrite B1.
  - (* FShrink: invisible to the timestamp skeleton *)
    exists []. eapply R_asame; [|exact HR]. repeat split. intro u. cbn. unfold upd. destruct (Nat.eqb_spec u t) as [->|]; reflexivity.
Qed.

(* ---------- FlagInv is an invariant *)
Definition fl_same (s s' : st) : Prop := newflag s' = newflag s /\ cache s' = cache s /\ registered s' = registered s.

Lemma flag_same s s' : fl_same s s' -> FlagInv s -> FlagInv s'.
Proof. intros (A & B & Cc) H E. rewrite B, Cc. apply H. now rewrite <- A. Qed.

Lemma fstep_flag s o : FlagInv s -> FlagInv (fstep K s o).
Proof.
  intro H. destruct o as [t e|t|t|t|t|l v|k v|k m|d|t c]; cbn [fstep].
  - destruct (pend (th s t)); [exact H|]. destruct (tvalid (th s t) && passes_logger s e); exact H.
  - destruct (memb t (registered s) || negb (tvalid (th s t))); [exact H|]. intro E. discriminate.
  - destruct (pend (th s t)) as [e0|]; [|exact H]. destruct (negb (memb t (registered s))); [exact H|]. cbv zeta.
    destruct (prepare_write ideal (c_cap K) (q (th s t)) (esz (retime K s e0))) as [q1 [off|]].
    + destruct (ekind (retime K s e0)); exact H.
    + destruct (match ekind (retime K s e0) with KLog => negb (counted (th s t)) | _ => false end);
        destruct (c_dropping K); try destruct (ekind (retime K s e0)); exact H.
  - destruct (wflush (th s t)); [|exact H]. destruct (existsb (N.eqb n) (flags s)); exact H.
  - destruct (tvalid (th s t) && memb t (registered s)); [exact H|]. destruct (tvalid (th s t)); exact H.
  - exact H.
  - exact H.
  - destruct (existsb (N.eqb m) (sfilt (sk s k)) || (m =? 0)); exact H.
  - exact H.
  - exact H.
Qed.

Lemma refresh_flag s : FlagInv s -> FlagInv (refresh K s) /\ cache (refresh K s) = registered (refresh K s) /\
  registered (refresh K s) = registered s.
Proof.
  intro H. unfold refresh. destruct (newflag s) eqn:E; cbn.
  - split; [intros _; reflexivity|]. split; reflexivity.
  - split; [exact H|]. split; [now apply H|reflexivity].
Qed.

Lemma qempty_fl s u : fl_same s (set_th s (upd (th s) u (fst (q_empty (th s u))))).
Proof. repeat split. Qed.

Lemma pending_scan_fl l : forall s, fl_same s (fst (pending_scan s l)).
Proof.
  induction l as [|u r IH]; intro s; cbn [pending_scan]; [repeat split|].
  destruct (tbuf (th s u)); [|apply IH]. destruct (q_empty (th s u)) as [x1 e]. destruct e; [|repeat split].
  destruct (IH (set_th s (upd (th s) u x1))) as (A & B & Cc). repeat split; assumption.
Qed.

Lemma all_empty_scan_fl l : forall s acc, fl_same s (fst (all_empty_scan s l acc)).
Proof.
  induction l as [|u r IH]; intros s acc; cbn [all_empty_scan]; [repeat split|].
  destruct (q_empty (th s u)) as [x1 e].
  destruct (IH (set_th s (upd (th s) u x1)) (acc && e && match tbuf x1 with [] => true | _ => false end)) as (A & B & Cc).
  repeat split; assumption.
Qed.

Lemma find_dead_fl l : forall s, fl_same s (fst (find_dead s l)).
Proof.
  induction l as [|u r IH]; intro s; cbn [find_dead]; [repeat split|].
  destruct (tvalid (th s u)); [apply IH|]. destruct (q_empty (th s u)) as [x1 e].
  destruct (e && match tbuf x1 with [] => true | _ => false end); [repeat split|].
  destruct (IH (set_th s (upd (th s) u x1))) as (A & B & Cc). repeat split; assumption.
Qed.

Lemma report_failures_fl l : forall s, fl_same s (report_failures K s l).
Proof.
  induction l as [|u r IH]; intro s; cbn [report_failures]; [repeat split|].
  destruct (failc (th s u) =? 0); [apply IH|].
  match goal with |- fl_same s (report_failures K ?s1 r) => destruct (IH s1) as (A & B & Cc) end.
  repeat split; assumption.
Qed.

Lemma cleanup_loop_flag fuel : forall s, FlagInv s -> FlagInv (cleanup_loop K fuel s).
Proof.
  induction fuel as [|f IH]; intros s H; cbn [cleanup_loop]; [exact H|].
  pose proof (find_dead_fl (cache s) s) as F0.
  destruct (find_dead s (cache s)) as [s0 [u|]]; cbn [fst] in F0; [|eapply flag_same; eauto].
  pose proof (flag_same _ _ F0 H) as H0.
  set (s1 := if c_report_first K then report_failures K s0 (cache s0) else s0).
  assert (H1 : FlagInv s1).
  { unfold s1. destruct (c_report_first K); [eapply flag_same; [apply report_failures_fl|exact H0]|exact H0]. }
  clearbody s1. apply IH. intro E. cbn in *. rewrite (H1 E). reflexivity.
Qed.

Lemma cleanup_ctx_flag s : FlagInv s -> FlagInv (cleanup_ctx K s).
Proof. intro H. unfold cleanup_ctx. destruct (invalid_cnt s =? 0); [exact H|]. now apply cleanup_loop_flag. Qed.

Lemma process_min_flag s : FlagInv s -> FlagInv (fst (process_min K s)).
Proof.
  intro H. unfold process_min. destruct (min_front s (cache s) None) as [[u e]|]; [|exact H].
  destruct (process_event_core K s e) as (_ & _ & _ & D & _ & G & _ & _ & _ & Nf & _).
  assert (H3 : FlagInv (pop_event (process_event K s e) u e)).
  { intro E. cbn in *. rewrite D, G. apply H. congruence. }
  destruct (ekind e); cbn [fst]; try exact H3.
  intro E. cbn in E. cbn. apply (cleanup_ctx_flag _ H3). exact E.
Qed.

Lemma bstep_flag s : FlagInv s -> FlagInv (bstep K s).
Proof.
  intro H. unfold bstep.
  assert (FS : forall s', fl_same s s' -> FlagInv s') by (intros s' F; eapply flag_same; eauto).
  destruct (pc s) as [| | |[|u todo]| | | | |].
  - eapply flag_same; [|apply (refresh_flag s H)]. repeat split.
  - apply FS. repeat split.
  - destruct (c_refresh2 K); [eapply flag_same; [|apply (refresh_flag s H)]; repeat split|apply FS; repeat split].
  - apply FS. destruct (buffered s =? 0); [repeat split|]. destruct (buffered s <? c_soft K); repeat split.
  - destruct (read_queue K (tsnow s) (th s u)) as [[x1 notes] esc]. apply FS. destruct esc; repeat split.
  - eapply flag_same; [|apply (process_min_flag s H)]. repeat split.
  - destruct (refresh_flag s H) as (H0 & _).
    pose proof (pending_scan_fl (cache (refresh K s)) (refresh K s)) as F1.
    destruct (pending_scan (refresh K s) (cache (refresh K s))) as [s1 pending]. cbn [fst] in F1.
    pose proof (flag_same _ _ F1 H0) as H1.
    destruct pending; [eapply flag_same; [|exact H1]; repeat split|].
    pose proof (process_min_flag s1 H1) as H2. destruct (process_min K s1) as [s2 did]. cbn [fst] in H2.
    destruct did; (eapply flag_same; [|exact H2]; repeat split).
  - apply FS. idle_cases; repeat split.
  - eapply flag_same; [|apply (flag_same _ _ (report_failures_fl (cache s) s) H)]. repeat split.
  - destruct (refresh_flag s H) as (H0 & _).
    pose proof (all_empty_scan_fl (cache (refresh K s)) (refresh K s) true) as F1.
    destruct (all_empty_scan (refresh K s) (cache (refresh K s)) true) as [s1 e]. cbn [fst] in F1.
    pose proof (flag_same _ _ F1 H0) as H1.
    destruct e; [|eapply flag_same; [|exact H1]; repeat split].
    eapply flag_same; [|apply (cleanup_ctx_flag _ H1)]. repeat split.
Qed.

(* ---------- the decode loop takes a prefix of stamps not above ts_now (the skeleton's take_le) *)
Lemma athr_qempty x : athr (fst (q_empty x)) = athr x.
Proof. destruct (q_empty_fields x) as (A & B & _ & _ & P & _). unfold athr. now rewrite A, B, P. Qed.

Lemma take_le_cons lim n x q : x <= lim ->
  Ord.take_le lim (S n) (x :: q) = (x :: fst (Ord.take_le lim n q), snd (Ord.take_le lim n q)).
Proof. intro H. cbn [Ord.take_le]. destruct (N.leb_spec x lim); [|lia]. destruct (Ord.take_le lim n q); reflexivity. Qed.

Lemma take_le_all lim (a b : list N) : Forall (fun x => x <= lim) a -> Ord.take_le lim (length a) (a ++ b) = (a, b).
Proof.
  induction 1 as [|x a Hx Ha IH]; [destruct b; reflexivity|].
  cbn [length app]. rewrite take_le_cons by assumption. now rewrite IH.
Qed.

Lemma take_le_char lim (a b : list N) : Forall (fun x => x <= lim) a ->
  (a = [] -> b = [] \/ exists y b', b = y :: b' /\ lim < y) ->
  Ord.take_le lim (S (length a - 1)) (a ++ b) = (a, b).
Proof.
  intros Ha Hb. destruct a as [|x a].
  - cbn. destruct (Hb eq_refl) as [->|(y & b' & -> & Hy)]; [reflexivity|].
    destruct (N.leb_spec y lim); [lia|reflexivity].
  - replace (S (length (x :: a) - 1)) with (length (x :: a)) by (cbn; lia). now apply take_le_all.
Qed.

Lemma read_loop_take fuel lim tn : forall x total notes iss del, TInv K x iss del ->
  let x1 := fst (fst (fst (read_loop K fuel lim tn x total notes))) in
  exists moved, qev x = moved ++ qev x1 /\ tbuf x1 = tbuf x ++ moved /\ pend x1 = pend x /\
    Forall (fun e => ets e <= tn) moved /\
    (fuel <> 0%nat -> u_blocked K x = false -> moved = [] -> qev x1 = [] \/ exists e r, qev x1 = e :: r /\ tn < ets e).
Proof.
  induction fuel as [|f IH]; intros x total notes iss del T; cbn [read_loop].
  - exists []. cbn. rewrite app_nil_r. repeat split; auto. intro H; congruence.
  - pose proof T as [Hc Hs Hr Ha Hp Hx].
    pose proof (pr_cases K (q x) Hs) as (S1 & R1 & A1 & W1 & F1).
    assert (Hnone : snd (prepare_read ideal (c_cap K) (q x)) = None -> qev x = []).
    { unfold prepare_read. intro H. apply (empty_true_nil K x iss del T).
      destruct (empty (q x)) as [q1 em]. cbn [fst snd] in *. destruct em; [reflexivity|discriminate]. }
    destruct (prepare_read ideal (c_cap K) (q x)) as [q1 r]. cbn [fst snd] in *.
    destruct (u_blocked K x) eqn:Eb.
    { exists []. cbn. rewrite app_nil_r. repeat split; auto. intros _ Hb. discriminate. }
    destruct r as [off|].
    2:{ exists []. cbn. rewrite app_nil_r. repeat split; auto; try (intros _ _ _; left; now apply Hnone). }
    destruct (qev x) as [|e rest] eqn:Eq.
    { exists []. cbn. rewrite app_nil_r. repeat split; auto. }
    rewrite Hgrace_b.
    destruct (tn <? ets e) eqn:Ets; cbn [andb].
    { exists []. cbn. rewrite app_nil_r. repeat split; auto. intros _ _ _. right. exists e, rest. split; [reflexivity|]. now apply N.ltb_lt. }
    apply N.ltb_ge in Ets.
    assert (Hrec : recs (q x) = esz e :: map esz rest) by (rewrite Hr; reflexivity).
    specialize (F1 ltac:(discriminate) _ _ Hrec).
    assert (Tmove : forall c g, TInv K (sh g (set_thr_tbuf (set_thr_q x (finish_read ideal q1 (esz e)) rest) (tbuf x ++ [e]) c)) iss del).
    { intros c g. apply TInv_sh. constructor; cbn [set_thr_tbuf set_thr_q q qev tbuf texists]; auto.
      - rewrite Hc, map_app. cbn. now rewrite <- app_assoc.
      - cbn [finish_read recs]. rewrite R1, Hrec. reflexivity.
      - cbn [finish_read aw wpos]. congruence.
      - now inversion Hp.
      - intros; discriminate. }
    assert (Hgo : forall c g,
      let x1 := sh g (set_thr_tbuf (set_thr_q x (finish_read ideal q1 (esz e)) rest) (tbuf x ++ [e]) c) in
      let r := if (total + esz e <? lim) && (N.of_nat (length (tbuf x1)) <? c_hard K)
               then read_loop K f lim tn x1 (total + esz e) (notes ++ fmt_notes e)
               else (x1, total + esz e, notes ++ fmt_notes e, false) in
      exists moved, e :: rest = moved ++ qev (fst (fst (fst r))) /\ tbuf (fst (fst (fst r))) = tbuf x ++ moved /\
        pend (fst (fst (fst r))) = pend x /\ Forall (fun e => ets e <= tn) moved /\
        (S f <> 0%nat -> false = false -> moved = [] -> qev (fst (fst (fst r))) = [] \/ exists e' r', qev (fst (fst (fst r))) = e' :: r' /\ tn < ets e')).
    { intros c g x1 r. unfold r. destruct ((total + esz e <? lim) && (N.of_nat (length (tbuf x1)) <? c_hard K)).
      - destruct (IH x1 (total + esz e) (notes ++ fmt_notes e) iss del (Tmove c g)) as (mv & M1 & M2 & M3 & M4 & _).
        exists (e :: mv). cbn [qev tbuf pend set_thr_tbuf sh set_thr_uqs set_thr_q x1] in *. repeat split.
        + cbn. now rewrite <- M1.
        + rewrite M2. now rewrite <- app_assoc.
        + exact M3.
        + constructor; assumption.
        + intros _ _ H. discriminate.
      - exists [e]. cbn. repeat split; auto. intros _ _ H; discriminate. }
    rewrite Hcatch.
    destruct (efmt e); destruct (ekind e); apply Hgo.
Qed.

(* ---------- backend steps *)
Definition Big (s : st) : Prop := Good K s /\ CInv K s /\ FlagInv s.

Lemma ostep1 a o : orun a [o] = ostep a o. Proof. reflexivity. Qed.

Lemma sim_readq s a u todo : Big s -> R s a -> pc s = PReading (u :: todo) -> u_blocked K (th s u) = false ->
  exists ops, R (bstep K s) (orun a ops).
Proof.
  intros (G & Cv & Fl) HR Hpc Hnb. pose proof HR as [B1 B2 B3 B4 B5 B6 B7].
  unfold bstep. rewrite Hpc.
  pose proof (proj1 G u) as T.
  unfold read_queue.
  pose proof (read_loop_take (S (length (qev (th s u)))) (read_limit K (th s u)) (tsnow s) (th s u) 0 [] _ _ T) as Hm.
  pose proof (read_loop_no_escape K (S (length (qev (th s u)))) (read_limit K (th s u)) (tsnow s) Hcatch (th s u) 0 []) as Hesc.
  destruct (read_loop K (S (length (qev (th s u)))) (read_limit K (th s u)) (tsnow s) (th s u) 0 []) as [[[x1 total] notes] esc].
  cbn [fst snd] in Hm, Hesc. subst esc.
  destruct Hm as (moved & M1 & M2 & M3 & M4 & M5). specialize (M5 ltac:(discriminate) Hnb).
  set (x2 := if total =? 0 then x1 else sh (u_commit_read K) (set_thr_q x1 (commit_read ideal (c_batch K) (c_pub K) (q x1)) (qev x1))).
  assert (X2 : qev x2 = qev x1 /\ tbuf x2 = tbuf x1 /\ pend x2 = pend x1) by (unfold x2; destruct (total =? 0); auto).
  destruct X2 as (X2q & X2t & X2p).
  exists [Ord.BReadQ (length moved - 1)]. rewrite ostep1. cbn [Ord.step]. rewrite B6, Hpc. cbn [apc].
  rewrite B3, B2. cbn [athr Ord.queue]. rewrite M1, map_app.
  rewrite <- (map_length ets moved).
  rewrite (take_le_char (tsnow s) (map ets moved) (map ets (qev x1))).
  - constructor; cbn [Ord.clock Ord.T Ord.th Ord.registered Ord.cache Ord.pc Ord.out clock tsnow th registered cache pc plog set_pc add_obs set_th]; auto.
    intro v. unfold Ord.upd, upd. destruct (Nat.eqb_spec v u) as [->|Hne]; [|apply B3].
    unfold athr. rewrite X2q, X2t, X2p, M2, M3, map_app. reflexivity.
  - clear - M4. induction M4; cbn; constructor; auto.
  - intro E. apply map_eq_nil in E. destruct (M5 E) as [->|(e & r & -> & He)]; [now left|right].
    exists (ets e), (map ets r). split; [reflexivity|exact He].
Qed.

(* emptiness of the queue as the consumer sees it = no queued statement *)
Lemma empty_nil_true x iss del : TInv K x iss del -> u_hint x = true -> qev x = [] -> snd (q_empty x) = true.
Proof.
  intros [Hc [h1 h2 h3 h4 h5 h6 h7 h8 h9] Hr Ha Hp Hx] Hh Hq. unfold q_empty, empty.
  rewrite Hq in Hr. cbn in Hr. rewrite Hr in h7. cbn in h7.
  destruct (N.eqb_spec (wcache (q x)) (rpos (q x))) as [E|NE]; cbn [snd]; rewrite Hh, andb_true_r; cbn.
  - apply N.eqb_eq. lia.
  - exfalso. lia.
Qed.

Lemma qempty_iff x iss del : TInv K x iss del -> nospur x -> (snd (q_empty x) = true <-> qev x = []).
Proof.
  intros T Hs. split; [|intro Hq; now apply (empty_nil_true x iss del T (Hs Hq))].
  intro H. pose proof (q_empty_true_nil K x iss del T H) as Hn.
  now destruct (q_empty_fields x) as (A & _); rewrite A in Hn.
Qed.

Lemma asame_refl s : asame s s. Proof. repeat split. Qed.
Lemma asame_trans a b c : asame a b -> asame b c -> asame a c.
Proof.
  intros (A1 & A2 & A3 & A4 & A5 & A6 & A7) (B1 & B2 & B3 & B4 & B5 & B6 & B7).
  split; [congruence|]. split; [congruence|]. split; [intro u; now rewrite B3, A3|]. repeat split; congruence.
Qed.

Lemma asame_qempty s u : asame s (set_th s (upd (th s) u (fst (q_empty (th s u))))).
Proof.
  repeat split. intro v. cbn. unfold upd. destruct (Nat.eqb_spec v u) as [->|]; [apply athr_qempty|reflexivity].
Qed.

Lemma nospur_qempty x : nospur x -> nospur (fst (q_empty x)).
Proof.
  unfold nospur. intros H Hq. rewrite u_hint_qempty. apply H. destruct (q_empty_fields x) as (A & _). now rewrite <- A.
Qed.

(* has_pending...: the scan answers the skeleton's question *)
Definition apending (s : st) (u : nat) : bool :=
  match tbuf (th s u), qev (th s u) with [], _ :: _ => true | _, _ => false end.

Lemma existsb_ext' {A} (f g : A -> bool) l : (forall x, f x = g x) -> existsb f l = existsb g l.
Proof. intro H. induction l as [|x r IH]; cbn; [reflexivity|]. now rewrite H, IH. Qed.

Lemma apending_qempty s u v : apending (set_th s (upd (th s) u (fst (q_empty (th s u))))) v = apending s v.
Proof.
  unfold apending. cbn. unfold upd. destruct (Nat.eqb_spec v u) as [->|]; [|reflexivity].
  destruct (q_empty_fields (th s u)) as (A & B & _). now rewrite A, B.
Qed.

Lemma pending_scan_sim l : forall s, Good K s -> (forall v, nospur (th s v)) ->
  asame s (fst (pending_scan s l)) /\ Good K (fst (pending_scan s l)) /\
  snd (pending_scan s l) = existsb (apending s) l.
Proof.
  induction l as [|u r IH]; intros s G NS; cbn [pending_scan existsb]; [split; [apply asame_refl|split; [exact G|reflexivity]]|].
  unfold apending at 1. destruct (tbuf (th s u)) eqn:Tb.
  - pose proof (qempty_iff (th s u) _ _ (proj1 G u) (NS u)) as Hq.
    pose proof (good_qempty K s u G) as G1. pose proof (asame_qempty s u) as A1.
    pose proof (nospur_qempty (th s u) (NS u)) as NS1.
    destruct (q_empty (th s u)) as [x1 e] eqn:E. cbn [fst snd] in *.
    assert (NS' : forall v, nospur (th (set_th s (upd (th s) u x1)) v)).
    { intro v. cbn. unfold upd. destruct (Nat.eqb_spec v u) as [->|]; [exact NS1|apply NS]. }
    destruct e.
    + assert (Hn : qev (th s u) = []) by now apply Hq. rewrite Hn. cbn [orb].
      destruct (IH _ G1 NS') as (A2 & G2 & P2). split; [eapply asame_trans; eauto|]. split; [exact G2|].
      rewrite P2. apply existsb_ext'. intro v. pose proof (apending_qempty s u v) as Hv. rewrite E in Hv. exact Hv.
    + destruct (qev (th s u)) eqn:Q; [exfalso; assert (false = true) by (apply Hq; reflexivity); discriminate|].
      cbn [orb]. split; [exact A1|]. split; [exact G1|reflexivity].
  - destruct (IH s G NS) as (A2 & G2 & P2). split; [exact A2|]. split; [exact G2|]. rewrite P2. reflexivity.
Qed.

Lemma all_empty_scan_sim l : forall s acc, Good K s ->
  asame s (fst (all_empty_scan s l acc)) /\ Good K (fst (all_empty_scan s l acc)).
Proof.
  induction l as [|u r IH]; intros s acc G; cbn [all_empty_scan]; [split; [apply asame_refl|exact G]|].
  pose proof (good_qempty K s u G) as G1. pose proof (asame_qempty s u) as A1.
  destruct (q_empty (th s u)) as [x1 e]. cbn [fst] in *.
  destruct (IH _ (acc && e && match tbuf x1 with [] => true | _ => false end) G1) as (A2 & G2).
  split; [eapply asame_trans; eauto|exact G2].
Qed.

Lemma find_dead_sim l : forall s, Good K s -> asame s (fst (find_dead s l)).
Proof.
  induction l as [|u r IH]; intros s G; cbn [find_dead]; [apply asame_refl|].
  destruct (tvalid (th s u)); [now apply IH|].
  pose proof (good_qempty K s u G) as G1. pose proof (asame_qempty s u) as A1.
  destruct (q_empty (th s u)) as [x1 e]. cbn [fst] in *.
  destruct (e && match tbuf x1 with [] => true | _ => false end); [exact A1|].
  eapply asame_trans; [exact A1|now apply IH].
Qed.

Lemma report_failures_sim l : forall s, asame s (report_failures K s l).
Proof.
  induction l as [|u r IH]; intro s; cbn [report_failures]; [apply asame_refl|].
  destruct (failc (th s u) =? 0); [apply IH|]. eapply asame_trans; [|apply IH].
  repeat split. intro v. cbn. unfold upd. destruct (Nat.eqb_spec v u) as [->|]; reflexivity.
Qed.

(* removal of dead, drained contexts = BRemove steps of the skeleton *)
Lemma sim_cleanup_loop fuel : forall s a, Good K s -> Rnp s a ->
  (Ord.pc a = Ord.Idle \/ exists b, Ord.pc a = Ord.Done b) ->
  exists ops, Rnp (cleanup_loop K fuel s) (orun a ops) /\ Ord.pc (orun a ops) = Ord.pc a.
Proof.
  induction fuel as [|f IH]; intros s a G HR Hpc; cbn [cleanup_loop]; [exists []; split; [exact HR|reflexivity]|].
  destruct (find_dead_good K s (cache s) G) as (G0 & Hd & _).
  pose proof (find_dead_sim (cache s) s G) as A0.
  destruct (find_dead s (cache s)) as [s0 [u|]]; cbn [fst snd] in *.
  2:{ exists []. split; [eapply Rnp_asame; eauto|reflexivity]. }
  destruct (Hd u eq_refl) as [Hq Ht].
  set (s1 := if c_report_first K then report_failures K s0 (cache s0) else s0).
  assert (A1 : asame s0 s1) by (unfold s1; destruct (c_report_first K); [apply report_failures_sim|apply asame_refl]).
  assert (G1 : Good K s1) by (unfold s1; destruct (c_report_first K); [apply report_failures_good|]; exact G0).
  assert (Hq1 : qev (th s1 u) = [] /\ tbuf (th s1 u) = []).
  { unfold s1. destruct (c_report_first K); [|split; assumption]. apply report_failures_keeps; split; assumption. }
  clearbody s1. destruct Hq1 as [Hq1 Ht1].
  pose proof (Rnp_asame _ _ _ (asame_trans _ _ _ A0 A1) HR) as HR1. pose proof HR1 as [B1 B2 B3 B4 B5 B7].
  (* the skeleton removes u *)
  assert (Hrm : let a' := ostep a (Ord.BRemove u) in
            Ord.clock a' = Ord.clock a /\ Ord.T a' = Ord.T a /\ Ord.th a' = Ord.th a /\ Ord.pc a' = Ord.pc a /\ Ord.out a' = Ord.out a /\
            Ord.registered a' = remove_nat u (Ord.registered a) /\ Ord.cache a' = remove_nat u (Ord.cache a)).
  { cbn [Ord.step]. assert (Eq : Ord.queue (Ord.th a u) = [] /\ Ord.tbuf (Ord.th a u) = []) by (rewrite B3; unfold athr; cbn; now rewrite Hq1, Ht1).
    destruct Eq as [Eq1 Eq2]. rewrite Eq1, Eq2.
    destruct Hpc as [->|[b ->]]; cbn; repeat split; reflexivity. }
  cbv zeta in Hrm. destruct Hrm as (D1 & D2 & D3 & D6 & D7 & D4 & D5).
  match goal with |- exists ops, Rnp (cleanup_loop K f ?s2) _ /\ _ =>
    assert (G2 : Good K s2); [|assert (HR2 : Rnp s2 (ostep a (Ord.BRemove u)))] end.
  - destruct G1 as [I1 P1]. split.
    + intro t. cbn. unfold upd. destruct (Nat.eqb_spec t u) as [->|]; [|apply I1].
      destruct (I1 u) as [Hc Hs Hr Ha Hp Hx]. rewrite Hq1, Ht1 in Hc. cbn in Hc. rewrite app_nil_r in Hc.
      constructor; cbn; auto. now rewrite app_nil_r. apply SInv_init.
    + intros t e. cbn. unfold upd. destruct (Nat.eqb_spec t u) as [->|]; [cbn; apply P1|apply P1].
  - constructor; cbn [clock tsnow th registered cache pc plog]; try congruence.
    intro v. rewrite D3, B3. unfold upd. destruct (Nat.eqb_spec v u) as [->|]; [|reflexivity].
    unfold athr, destroy. cbn. now rewrite Hq1, Ht1.
  - destruct (IH _ _ G2 HR2) as (ops & HR3 & Hp3).
    { rewrite D6. exact Hpc. }
    exists (Ord.BRemove u :: ops). change (orun a (Ord.BRemove u :: ops)) with (orun (ostep a (Ord.BRemove u)) ops).
    split; [exact HR3|]. rewrite Hp3. exact D6.
Qed.

Lemma sim_cleanup_ctx s a : Good K s -> Rnp s a -> (Ord.pc a = Ord.Idle \/ exists b, Ord.pc a = Ord.Done b) ->
  exists ops, Rnp (cleanup_ctx K s) (orun a ops) /\ Ord.pc (orun a ops) = Ord.pc a.
Proof.
  intros G HR Hpc. unfold cleanup_ctx. destruct (invalid_cnt s =? 0); [exists []; split; [exact HR|reflexivity]|].
  now apply sim_cleanup_loop.
Qed.

(* the minimum search *)
Definition amin (r : option (nat * ev)) : option (nat * N) := option_map (fun p => (fst p, ets (snd p))) r.

Lemma min_front_sim s a : Rnp s a -> forall l best,
  Ord.min_front a l (amin best) = amin (min_front s l best).
Proof.
  intros HR. induction l as [|u r IH]; intro best; cbn [min_front Ord.min_front]; [reflexivity|].
  unfold Ord.front_of. rewrite (n_th _ _ HR u). cbn [athr Ord.tbuf].
  destruct (tbuf (th s u)) as [|e tl]; cbn [map hd_error].
  - destruct best as [[bu b]|]; [apply (IH (Some (bu, b)))|apply (IH None)].
  - destruct best as [[bu b]|]; cbn [amin option_map fst snd].
    + destruct (ets e <? ets b); [apply (IH (Some (u, e)))|apply (IH (Some (bu, b)))].
    + apply (IH (Some (u, e))).
Qed.


Lemma set_flag_asame s f : asame s (set_flag s f). Proof. repeat split. Qed.

Lemma sim_process s a : Good K s -> Rnp s a -> Ord.pc a = Ord.Done false ->
  exists ops, Rnp (fst (process_min K s)) (orun a ops) /\
    Ord.pc (orun a ops) = (if snd (process_min K s) then Ord.Done true else Ord.Idle).
Proof.
  intros G HR Hpc. pose proof HR as [B1 B2 B3 B4 B5 B7].
  pose proof (min_front_sim _ _ HR (cache s) None) as Hmf. cbn [amin option_map] in Hmf.
  unfold process_min. destruct (min_front s (cache s) None) as [[u e]|] eqn:MF; cbn [amin option_map fst snd] in Hmf.
  2:{ exists [Ord.BProcess]. rewrite ostep1. cbn [Ord.step]. rewrite Hpc, B5, Hmf. cbn [fst snd].
      split; [|reflexivity]. constructor; cbn; auto. }
  destruct (min_front_some s _ _ _ _ MF ltac:(intros; discriminate)) as [tl0 Htb].
  destruct (process_event_core K s e) as (A & Bi & Cd & D & F & Gg & _ & _ & _ & _ & Ck & Ts & _).
  set (s3 := pop_event (process_event K s e) u e).
  assert (HR3 : Rnp s3 (ostep a Ord.BProcess) /\ Ord.pc (ostep a Ord.BProcess) = Ord.Done true).
  { cbn [Ord.step]. rewrite Hpc, B5, Hmf. split; [|reflexivity].
    constructor; cbn [Ord.clock Ord.T Ord.th Ord.registered Ord.cache Ord.pc Ord.out clock tsnow th registered cache plog pop_event s3]; try congruence.
    - intro v. rewrite A. unfold Ord.upd, upd. destruct (Nat.eqb_spec v u) as [->|]; [|apply B3].
      rewrite B3. unfold athr. cbn. rewrite Htb. reflexivity.
    - rewrite F, map_app, B7. reflexivity. }
  destruct HR3 as [HR3 Hpc3].
  destruct (ekind e) eqn:Ek; cbn [fst snd];
    try (exists [Ord.BProcess]; rewrite ostep1; split; [exact HR3|exact Hpc3]).
  (* flush event: contexts may be removed afterwards *)
  assert (G3 : Good K s3).
  { destruct G as [I P]. split.
    - intro t. unfold s3, pop_event. cbn [th issued delivered]. rewrite A, Bi, Cd.
      unfold upd. destruct (Nat.eqb_spec t u) as [->|]; [|apply I].
      destruct (I u) as [Hc Hs Hrr Ha Hp Hx]. rewrite Htb in *. constructor; cbn; auto.
      + rewrite Hc. cbn. now rewrite <- app_assoc.
      + intros; discriminate.
    - intros t e'. unfold s3, pop_event. cbn [th]. rewrite A. unfold upd. destruct (Nat.eqb_spec t u) as [->|]; [cbn; apply P|apply P]. }
  destruct (sim_cleanup_ctx s3 _ G3 HR3) as (ops & HR4 & Hp4).
  { right. eauto. }
  exists (Ord.BProcess :: ops). change (orun a (Ord.BProcess :: ops)) with (orun (ostep a Ord.BProcess) ops).
  split; [|rewrite Hp4; exact Hpc3].
  eapply Rnp_asame; [apply set_flag_asame|exact HR4].
Qed.

Lemma refresh_th s : Good K s -> forall u, athr (th (refresh K s) u) = athr (th s u).
Proof.
  intros G u. unfold refresh. destruct (newflag s); [|reflexivity]. cbn.
  destruct (memb u (registered s) && negb (texists (th s u))) eqn:E; [|reflexivity].
  apply andb_prop in E as [_ E]. apply negb_true_iff in E.
  unfold athr. cbn. now rewrite (t_ex _ _ _ _ (proj1 G u) E).
Qed.

Lemma refresh_fields s : clock (refresh K s) = clock s /\ tsnow (refresh K s) = tsnow s /\ plog (refresh K s) = plog s /\
  pc (refresh K s) = pc s.
Proof. unfold refresh. destruct (newflag s); repeat split. Qed.

Lemma refresh_Rnp s a : Good K s -> FlagInv s -> Rnp s a -> Rnp (refresh K s) (ostep a Ord.BSync).
Proof.
  intros G Fl [B1 B2 B3 B4 B5 B7]. destruct (refresh_flag s Fl) as (_ & Hc & Hr).
  destruct (refresh_fields s) as (F1 & F2 & F3 & F4).
  constructor; cbn [Ord.step Ord.clock Ord.T Ord.th Ord.registered Ord.cache Ord.out]; try congruence.
  intro u. rewrite B3. symmetry. now apply refresh_th.
Qed.

Lemma apending_abs s a u : Rnp s a ->
  match Ord.tbuf (Ord.th a u), Ord.queue (Ord.th a u) with [], _ :: _ => true | _, _ => false end = apending s u.
Proof.
  intros HR. rewrite (n_th _ _ HR u). unfold apending, athr. cbn.
  destruct (tbuf (th s u)), (qev (th s u)); reflexivity.
Qed.

Lemma ord_bstop x : osame_nopc x (ostep x Ord.BStop) /\ Ord.th (ostep x Ord.BStop) = Ord.th x.
Proof. cbn [Ord.step]. destruct (Ord.pc x); (split; [repeat split|reflexivity]). Qed.

Lemma ord_bcheck x : Ord.pc x = Ord.Done true -> let x' := ostep x Ord.BCheck in
  Ord.clock x' = Ord.clock x /\ Ord.T x' = Ord.T x /\ Ord.th x' = Ord.th x /\ Ord.registered x' = Ord.registered x /\
  Ord.out x' = Ord.out x /\
  (if Ord.pending_somewhere x then Ord.pc x' = Ord.Idle /\ Ord.cache x' = Ord.cache x
   else Ord.pc x' = Ord.Done false /\ Ord.cache x' = Ord.registered x).
Proof. intro E. cbn [Ord.step]. rewrite E. destruct (Ord.pending_somewhere x); cbn; repeat split. Qed.

Lemma sim_bstep s a : Big s -> R s a -> wg s B -> exists ops, R (bstep K s) (orun a ops).
Proof.
  intros (G & Cv & Fl) HR Hwb. pose proof HR as [B1 B2 B3 B4 B5 B6 B7]. pose proof (R_Rnp _ _ HR) as HN.
  unfold bstep. destruct (pc s) as [| | |[|u todo]| | | | |] eqn:Hpc; cbn [apc] in B6.
  - (* PIdle: first cache refresh *)
    exists [Ord.BRefresh]. rewrite ostep1. cbn [Ord.step]. rewrite B6.
    destruct (refresh_flag s Fl) as (_ & Hc & Hr).
    destruct (refresh_fields s) as (F1 & F2 & F3 & F4).
    constructor; cbn [Ord.clock Ord.T Ord.th Ord.registered Ord.cache Ord.pc Ord.out clock tsnow th registered cache pc plog set_pc apc]; try congruence.
    intro v. rewrite B3. symmetry. now apply refresh_th.
  - (* PRefreshed: read the clock *)
    exists [Ord.BReadNow]. rewrite ostep1. cbn [Ord.step]. rewrite B6.
    constructor; cbn; auto. apply N.eqb_neq in Hgrace. rewrite Hgrace, B1. reflexivity.
  - (* PTimed: second refresh *)
    rewrite Hrf2. exists [Ord.BRefresh2]. rewrite ostep1. cbn [Ord.step]. rewrite B6.
    destruct (refresh_flag s Fl) as (_ & Hc & Hr).
    destruct (refresh_fields s) as (F1 & F2 & F3 & F4).
    constructor; cbn [Ord.clock Ord.T Ord.th Ord.registered Ord.cache Ord.pc Ord.out clock tsnow th registered cache pc plog set_pc apc]; try congruence.
    all: try (intro v; rewrite B3; symmetry; now apply refresh_th).
    all: try (f_equal; congruence).
  - (* PReading []: decide *)
    destruct (buffered s =? 0).
    + exists [Ord.BDecide false; Ord.BStop]. cbn [orun fold_left Ord.step]. rewrite B6. cbn [Ord.pc].
      constructor; cbn; auto.
    + destruct (buffered s <? c_soft K).
      * exists [Ord.BDecide false]. rewrite ostep1. cbn [Ord.step]. rewrite B6. constructor; cbn; auto.
      * exists [Ord.BDecide true]. rewrite ostep1. cbn [Ord.step]. rewrite B6. constructor; cbn; auto.
  - (* PReading (u :: todo) *)
    assert (Hnb : u_blocked K (th s u) = false) by (cbn [wg] in Hwb; rewrite Hpc in Hwb; exact Hwb).
    pose proof (sim_readq s a u todo (conj G (conj Cv Fl)) HR Hpc Hnb) as H. unfold bstep in H. rewrite Hpc in H. exact H.
  - (* PSingle *)
    destruct (sim_process s a G HN B6) as (ops & HR1 & Hp1).
    exists (ops ++ [Ord.BStop]). rewrite orun_app, ostep1.
    apply Rnp_R.
    + destruct HR1 as [C1 C2 C3 C4 C5 C7].
      destruct (ord_bstop (orun a ops)) as ((D1 & D2 & D4 & D5 & D7) & D3).
      constructor; cbn [clock tsnow th registered cache plog set_pc]; try congruence; intro v; rewrite D3; apply C3.
    + cbn [pc set_pc apc Ord.step]. destruct (snd (process_min K s)); rewrite Hp1; [reflexivity|exact Hp1].
  - (* PBatch *)
    pose proof (refresh_Rnp s a G Fl HN) as HN0. pose proof (refresh_good K s G) as G0.
    destruct (refresh_flag s Fl) as (Fl0 & Hc0 & Hr0).
    assert (NS0 : forall v, nospur (th (refresh K s) v)).
    { cbn [wg] in Hwb. rewrite Hpc in Hwb. intro v. specialize (Hwb v). unfold refresh. destruct (newflag s); [|exact Hwb].
      cbn [th set_cache set_th]. destruct (memb v (registered s) && negb (texists (th s v))); exact Hwb. }
    destruct (pending_scan_sim (cache (refresh K s)) (refresh K s) G0 NS0) as (A1 & G1 & P1).
    destruct (pending_scan (refresh K s) (cache (refresh K s))) as [s1 pending]. cbn [fst snd] in *.
    pose proof (Rnp_asame _ _ _ A1 HN0) as HN1.
    assert (Hps : Ord.pending_somewhere (ostep a Ord.BSync) = pending).
    { unfold Ord.pending_somewhere. rewrite P1, (n_reg _ _ HN0), <- Hc0. apply existsb_ext'. intro v. now apply apending_abs. }
    assert (Hpc0 : Ord.pc (ostep a Ord.BSync) = Ord.Done true) by (cbn; exact B6).
    destruct (ord_bcheck _ Hpc0) as (K1 & K2 & K3 & K4 & K7 & K56). rewrite Hps in K56.
    set (a2 := ostep (ostep a Ord.BSync) Ord.BCheck) in *.
    destruct HN1 as [C1 C2 C3 C4 C5 C7].
    destruct pending; destruct K56 as [K6 K5].
    + exists [Ord.BSync; Ord.BCheck]. change (orun a [Ord.BSync; Ord.BCheck]) with a2.
      apply Rnp_R; [|cbn [pc set_pc apc]; exact K6]. constructor; cbn [clock tsnow th registered cache plog set_pc]; try congruence;
        intro v; rewrite K3; apply C3.
    + assert (HN2 : Rnp s1 a2).
      { constructor; try congruence; try (intro v; rewrite K3; apply C3).
        destruct A1 as (_ & _ & _ & E4 & E5 & _). rewrite K5, E5, Hc0. congruence. }
      destruct (sim_process s1 a2 G1 HN2 K6) as (ops & HR3 & Hp3).
      exists ([Ord.BSync; Ord.BCheck] ++ ops). rewrite orun_app. change (orun a [Ord.BSync; Ord.BCheck]) with a2.
      destruct (process_min K s1) as [s2 did]. cbn [fst snd] in *.
      destruct did; (apply Rnp_R; [|cbn [pc set_pc apc]; exact Hp3]);
        (destruct HR3 as [D1 D2 D3 D4 D5 D7]; constructor; cbn; auto).
  - (* PIdle1 *)
    exists []. eapply R_asame; [|exact HR]. idle_cases; (repeat split; cbn; now rewrite Hpc).
  - (* PIdle2 *)
    exists []. eapply R_asame; [|exact HR].
    eapply asame_trans; [apply (report_failures_sim (cache s) s)|]. repeat split. cbn.
    destruct (report_failures_sim (cache s) s) as (_ & _ & _ & _ & _ & E6 & _). rewrite E6, Hpc. reflexivity.
  - (* PIdle3 *)
    pose proof (refresh_Rnp s a G Fl HN) as HN0. pose proof (refresh_good K s G) as G0.
    destruct (all_empty_scan_sim (cache (refresh K s)) (refresh K s) true G0) as (A1 & G1).
    destruct (all_empty_scan (refresh K s) (cache (refresh K s)) true) as [s1 e]. cbn [fst] in *.
    pose proof (Rnp_asame _ _ _ A1 HN0) as HN1.
    assert (Hpc0 : Ord.pc (ostep a Ord.BSync) = Ord.Idle) by (cbn; exact B6).
    destruct e.
    + destruct (sim_cleanup_ctx s1 _ G1 HN1 (or_introl Hpc0)) as (ops & HR2 & Hp2).
      exists (Ord.BSync :: ops). change (orun a (Ord.BSync :: ops)) with (orun (ostep a Ord.BSync) ops).
      apply Rnp_R; [|cbn [pc set_pc apc]; rewrite Hp2; exact Hpc0].
      destruct HR2 as [C1 C2 C3 C4 C5 C7]. constructor; cbn; auto.
    + exists [Ord.BSync]. rewrite ostep1. apply Rnp_R; [|cbn [pc set_pc apc]; exact Hpc0].
      destruct HN1 as [C1 C2 C3 C4 C5 C7]. constructor; cbn; auto.
Qed.

(* ---------- the theorem *)
Fixpoint WG (s : st) (ops : list op) : Prop :=
  match ops with [] => True | o :: r => wg s o /\ WG (step K s o) r end.

Definition init_ok (s0 : st) : Prop :=
  (forall t, fresh_thr (th s0 t) /\ issued s0 t = [] /\ delivered s0 t = []) /\ registered s0 = [] /\ cache s0 = [] /\
  newflag s0 = false /\ invalid_cnt s0 = 0 /\ plog s0 = [] /\ pc s0 = PIdle /\ tsnow s0 = 0 /\ g <= clock s0.

Lemma sim_run ops : forall s a, Big s -> R s a -> Ord.Inv g a -> pos_ops ops -> WG s ops ->
  exists a', R (run K s ops) a' /\ Ord.Inv g a' /\ Big (run K s ops).
Proof.
  induction ops as [|o ops IH]; intros s a B HR I Hp Hw; [exists a; auto|].
  inversion Hp as [|? ? Ho Hops]; subst. destruct Hw as [Hw1 Hw2]. cbn [run fold_left].
  assert (B' : Big (step K s o)).
  { destruct B as (G & Cv & Fl). destruct o as [f|]; cbn [step].
    - split; [apply fstep_inv; assumption|]. split; [now apply fstep_cinv|now apply fstep_flag].
    - split; [now apply bstep_good|]. split; [now apply bstep_cinv|now apply bstep_flag]. }
  assert (Hs : exists ops', R (step K s o) (orun a ops')).
  { destruct o as [f|]; cbn [step]; [now apply sim_fstep|now apply sim_bstep]. }
  destruct Hs as (ops' & HR').
  apply (IH _ (orun a ops') B' HR'); auto. now apply Ord.inv_run.
Qed.

Theorem be_sorted s0 ops : init_ok s0 -> pos_ops ops -> WG s0 ops ->
  StronglySorted N.le (map ets (plog (run K s0 ops))).
Proof.
  intros (H0 & Hr & Hc & Hn & Hi & Hpl & Hpc & Ht & Hg) Hp Hw.
  set (a0 := {| Ord.clock := clock s0; Ord.T := 0; Ord.th := fun _ => {| Ord.pend := None; Ord.queue := []; Ord.tbuf := [] |};
               Ord.registered := []; Ord.cache := []; Ord.pc := Ord.Idle; Ord.out := [] |}).
  assert (HR0 : R s0 a0).
  { constructor; cbn; auto; try congruence.
    - intro u. destruct (H0 u) as ((v & ->) & _). reflexivity.
    - now rewrite Hpc.
    - now rewrite Hpl. }
  assert (B0 : Big s0).
  { split; [|split].
    - split; [intro u; destruct (H0 u) as ((v & ->) & -> & ->); apply TInv_fresh|intros u e; destruct (H0 u) as ((v & ->) & _); discriminate].
    - constructor; rewrite ?Hr, ?Hc, ?Hi; cbn; [constructor|reflexivity|intros ? []].
    - intros _. congruence. }
  destruct (sim_run ops s0 a0 B0 HR0 (Ord.inv_init_at g (clock s0) Hg) Hp Hw) as (a' & HR' & I' & _).
  rewrite <- (r_out _ _ HR'). apply (Ord.I7 _ _ I').
Qed.
End Sim.
