(* M-BE: the backend worker as a micro-step machine (sequentially consistent interleaving of
   frontend and backend steps). Mirrors BackendWorker::_poll and friends
   (include/quill/backend/BackendWorker.h), Logger::log_statement / flush_log (include/quill/Logger.h),
   ThreadContextManager (include/quill/core/ThreadContextManager.h).
   Per-thread bounded queues use the sequential layer of M-BQ (ideal arithmetic) for byte accounting.
   Definitions only. *)
From Coq Require Import List NArith Arith Bool.
From Quill Require Import Queue.BQDefs Queue.UQDefs BT.BTModel.
Import ListNotations.
Local Open Scope N_scope.

(* ------------------------------------------------------------------ events *)
Inductive kind := KLog | KFlush | KInitBt (cap : nat) (flvl : N) | KFlushBt.
Inductive fmtres := FOk | FStdThrow | FOtherThrow.   (* what the statement's user formatter does *)

Record ev := { eid : N; ets : N; ekind : kind; elg : nat; elvl : N; esz : N; efmt : fmtres;
               enamed : N  (* number of named arguments of the statement (0: positional format) *) }.

Definition LV_BACKTRACE : N := 9.
Definition LV_NONE : N := 10.

(* ------------------------------------------------------------------ configuration *)
Record cfg := {
  c_cap : N;            (* queue capacity (power of two) *)
  c_batch : N;          (* bytes_per_batch of the queues *)
  c_pub : pub_rule;     (* commit_read guard (from the source) *)
  c_dropping : bool;    (* BoundedDropping instead of BoundedBlocking *)
  c_tinit : N;          (* transit_event_buffer_initial_capacity *)
  c_soft : N; c_hard : N;
  c_grace : N;          (* log_timestamp_ordering_grace_period in clock ticks; 0 disables the check *)
  c_bits : N;           (* width of the invalid-thread-context counter *)
  c_refresh2 : bool;    (* cache refreshed again after ts_now is read (F5) *)
  c_catch_all : bool;   (* non-std exceptions of user formatters are contained (F4) *)
  c_report_first : bool;(* failure counters are reported right before an exited thread's context is removed (F9) *)
  c_bt : bt_cfg;        (* BacktraceStorage facts (index reset, capacity-0 guard) *)
  c_bt_catch : bool;    (* a throwing sink during a backtrace replay is contained per event (F6) *)
  c_flush_iv : N;       (* BackendOptions::sink_min_flush_interval in clock ticks (0 = flush in every idle stage) *)
  c_follow : bool       (* _read_unbounded_frontend_queue keeps following the node chain while the node it switched to is empty (F11) *)
}.

(* ------------------------------------------------------------------ state *)
Record thr := {
  q : bq;                   (* positions of the thread's queue *)
  qev : list ev;            (* events in the queue, oldest first (parallel to recs q) *)
  tbuf : list ev;           (* transit event buffer content, oldest first *)
  tcap : N;                 (* its capacity (doubles when full) *)
  texists : bool;           (* buffer allocated by the backend *)
  tvalid : bool;            (* thread alive *)
  failc : N;                (* failure counter *)
  pend : option ev;         (* statement whose timestamp was taken and that is not enqueued yet *)
  counted : bool;           (* the pending statement already incremented the failure counter *)
  wflush : option N;        (* flush request id the thread is waiting for *)
  uqs : option uq           (* UnboundedSPSCQueue frontends: the node structure of the thread's queue (M-UQ, sequential layer),
                               kept in step with every queue call; it decides the backend's per-call read limit
                               (capacity of the consumer's current node). None = bounded queue. *)
}.
Definition thr0 : thr :=
  {| q := bq_init; qev := []; tbuf := []; tcap := 0; texists := false; tvalid := true; failc := 0;
     pend := None; counted := false; wflush := None; uqs := None |}.

Record lgr := { llevel : N; lsinks : list nat;
                lbt : option (bt ev);   (* backtrace storage, created by the first InitBacktrace event *)
                lbtlvl : N              (* backtrace_flush_level (None = never) *) }.
Record snk := { slevel : N; swrites : nat; sthrow : list nat (* write_log calls (0-based) that throw *);
                sfilt : list N          (* user filters: a statement is rejected when its id is divisible by one of these *) }.
Definition mk_lgr (lvl : N) (ks : list nat) : lgr := {| llevel := lvl; lsinks := ks; lbt := None; lbtlvl := 10 |}.
Definition mk_snk (lvl : N) (th : list nat) : snk := {| slevel := lvl; swrites := 0; sthrow := th; sfilt := [] |}.
Definition set_llevel (x : lgr) v := {| llevel := v; lsinks := lsinks x; lbt := lbt x; lbtlvl := lbtlvl x |}.
Definition set_lbt (x : lgr) b := {| llevel := llevel x; lsinks := lsinks x; lbt := b; lbtlvl := lbtlvl x |}.
Definition set_lbtlvl (x : lgr) v := {| llevel := llevel x; lsinks := lsinks x; lbt := lbt x; lbtlvl := v |}.
Definition set_slevel (z : snk) v := {| slevel := v; swrites := swrites z; sthrow := sthrow z; sfilt := sfilt z |}.
Definition bump_swrites (z : snk) := {| slevel := slevel z; swrites := S (swrites z); sthrow := sthrow z; sfilt := sfilt z |}.
Definition add_sfilt (z : snk) m := {| slevel := slevel z; swrites := swrites z; sthrow := sthrow z; sfilt := sfilt z ++ [m] |}.

Inductive pc_t :=
| PIdle
| PRefreshed                  (* cache refreshed, ts_now not read yet          (Y1) *)
| PTimed                      (* ts_now read, second refresh pending           (Y2) *)
| PReading (todo : list nat)  (* reading the queues of these contexts in turn  (Y3) *)
| PSingle                     (* below the soft limit: process one event *)
| PBatch                      (* batch loop head                               (Y4) *)
| PIdle1 | PIdle2 | PIdle3.   (* idle work: flush sinks / failure counters / emptiness check + clean-up *)

(* ghost counters (C08): statements denied by a full queue, counts reported through the notifier,
   counts that vanished with a destroyed context *)
Record ghost := { g_denied : N; g_reported : N; g_lost : N }.

Record st := {
  clock : N;
  th : nat -> thr;
  registered : list nat;      (* ThreadContextManager::_thread_contexts, registration order *)
  newflag : bool;             (* _new_thread_context_flag *)
  invalid_cnt : N;            (* _invalid_thread_context_count (mod 2^bits) *)
  cache : list nat;           (* _active_thread_contexts_cache *)
  pc : pc_t;
  tsnow : N;
  lg : nat -> lgr;
  sk : nat -> snk;
  nsinks : nat; nloggers : nat;
  lastfl : N;                 (* _last_sink_flush_time (steady clock; the driver's two clocks advance together) *)
  flags : list N;             (* flush flags already set (request ids) *)
  obs : list N;               (* observation log (appended) *)
  (* ghosts *)
  issued : nat -> list N;     (* ids committed to the queue by each thread, in order *)
  delivered : nat -> list N;  (* ids of each thread's events processed by the backend, in order *)
  plog : list ev;             (* all processed events in processing order *)
  gh : ghost
}.

Definition upd {A} (f : nat -> A) (t : nat) (x : A) : nat -> A := fun u => if Nat.eqb u t then x else f u.

(* observation tokens *)
Definition O_WRITE : N := 1.   (* 1 sink id level *)
Definition O_FLUSH : N := 2.   (* 2 sink *)
Definition O_NOTE : N := 3.    (* 3 kind count : 1 dropped n / 2 blocked n / 3 format error / 4 unhandled / 5 sink threw *)
Definition O_FLAG : N := 4.    (* (unused: the flag is observed only through the waiting thread) *)

(* record setters *)
Definition set_th s f := {| clock := clock s; th := f; registered := registered s; newflag := newflag s;
  invalid_cnt := invalid_cnt s; cache := cache s; pc := pc s; tsnow := tsnow s; lg := lg s; sk := sk s;
  nsinks := nsinks s; nloggers := nloggers s; lastfl := lastfl s; flags := flags s; obs := obs s;
  issued := issued s; delivered := delivered s; plog := plog s; gh := gh s |}.
Definition set_pc s p := {| clock := clock s; th := th s; registered := registered s; newflag := newflag s;
  invalid_cnt := invalid_cnt s; cache := cache s; pc := p; tsnow := tsnow s; lg := lg s; sk := sk s;
  nsinks := nsinks s; nloggers := nloggers s; lastfl := lastfl s; flags := flags s; obs := obs s;
  issued := issued s; delivered := delivered s; plog := plog s; gh := gh s |}.
Definition add_obs s o := {| clock := clock s; th := th s; registered := registered s; newflag := newflag s;
  invalid_cnt := invalid_cnt s; cache := cache s; pc := pc s; tsnow := tsnow s; lg := lg s; sk := sk s;
  nsinks := nsinks s; nloggers := nloggers s; lastfl := lastfl s; flags := flags s; obs := obs s ++ o;
  issued := issued s; delivered := delivered s; plog := plog s; gh := gh s |}.
Definition set_sk s f := {| clock := clock s; th := th s; registered := registered s; newflag := newflag s;
  invalid_cnt := invalid_cnt s; cache := cache s; pc := pc s; tsnow := tsnow s; lg := lg s; sk := f;
  nsinks := nsinks s; nloggers := nloggers s; lastfl := lastfl s; flags := flags s; obs := obs s;
  issued := issued s; delivered := delivered s; plog := plog s; gh := gh s |}.
Definition set_lg s f := {| clock := clock s; th := th s; registered := registered s; newflag := newflag s;
  invalid_cnt := invalid_cnt s; cache := cache s; pc := pc s; tsnow := tsnow s; lg := f; sk := sk s;
  nsinks := nsinks s; nloggers := nloggers s; lastfl := lastfl s; flags := flags s; obs := obs s;
  issued := issued s; delivered := delivered s; plog := plog s; gh := gh s |}.
Definition set_cache s c nf := {| clock := clock s; th := th s; registered := registered s; newflag := nf;
  invalid_cnt := invalid_cnt s; cache := c; pc := pc s; tsnow := tsnow s; lg := lg s; sk := sk s;
  nsinks := nsinks s; nloggers := nloggers s; lastfl := lastfl s; flags := flags s; obs := obs s;
  issued := issued s; delivered := delivered s; plog := plog s; gh := gh s |}.

Definition set_gh s g := {| clock := clock s; th := th s; registered := registered s; newflag := newflag s;
  invalid_cnt := invalid_cnt s; cache := cache s; pc := pc s; tsnow := tsnow s; lg := lg s; sk := sk s;
  nsinks := nsinks s; nloggers := nloggers s; lastfl := lastfl s; flags := flags s; obs := obs s;
  issued := issued s; delivered := delivered s; plog := plog s; gh := g |}.
Definition gh_denied g := {| g_denied := g_denied g + 1; g_reported := g_reported g; g_lost := g_lost g |}.
Definition gh_reported g n := {| g_denied := g_denied g; g_reported := g_reported g + n; g_lost := g_lost g |}.
Definition gh_lost g n := {| g_denied := g_denied g; g_reported := g_reported g; g_lost := g_lost g + n |}.

Definition set_thr_q (x : thr) q' qev' := {| q := q'; qev := qev'; tbuf := tbuf x; tcap := tcap x; texists := texists x;
  tvalid := tvalid x; failc := failc x; pend := pend x; counted := counted x; wflush := wflush x; uqs := uqs x |}.
Definition set_thr_pend (x : thr) p c := {| q := q x; qev := qev x; tbuf := tbuf x; tcap := tcap x; texists := texists x;
  tvalid := tvalid x; failc := failc x; pend := p; counted := c; wflush := wflush x; uqs := uqs x |}.
Definition set_thr_failc (x : thr) n := {| q := q x; qev := qev x; tbuf := tbuf x; tcap := tcap x; texists := texists x;
  tvalid := tvalid x; failc := n; pend := pend x; counted := counted x; wflush := wflush x; uqs := uqs x |}.
Definition set_thr_tbuf (x : thr) b c := {| q := q x; qev := qev x; tbuf := b; tcap := c; texists := true;
  tvalid := tvalid x; failc := failc x; pend := pend x; counted := counted x; wflush := wflush x; uqs := uqs x |}.
Definition set_thr_valid (x : thr) v := {| q := q x; qev := qev x; tbuf := tbuf x; tcap := tcap x; texists := texists x;
  tvalid := v; failc := failc x; pend := pend x; counted := counted x; wflush := wflush x; uqs := uqs x |}.
Definition set_thr_wflush (x : thr) w := {| q := q x; qev := qev x; tbuf := tbuf x; tcap := tcap x; texists := texists x;
  tvalid := tvalid x; failc := failc x; pend := pend x; counted := counted x; wflush := w; uqs := uqs x |}.

Definition set_thr_uqs (x : thr) (v : option uq) := {| q := q x; qev := qev x; tbuf := tbuf x; tcap := tcap x; texists := texists x;
  tvalid := tvalid x; failc := failc x; pend := pend x; counted := counted x; wflush := wflush x; uqs := v |}.

(* a fresh thread context: bounded queue (v = None) or unbounded queue with any node structure *)
Definition fresh_thr (x : thr) : Prop := exists v, x = set_thr_uqs thr0 v.

Section BE.
Variable K : cfg.

(* the unbounded queue's node structure follows every call made on the thread's queue (maximum capacity 2^31,
   5 % publish batches, re-check and commit-before-delete as in the source: those are C02's facts) *)
Definition UMAX : N := 2 ^ 31.
Definition u_write (n : N) (u : uq) : uq :=
  let (u1, r) := uq_prepare_write UMAX u n in
  match r with WSome _ => uq_commit_write (uq_finish_write u1 n) | _ => u1 end.
(* one prepare_read() of the unbounded queue follows at most one `next` link; the backend's
   _read_unbounded_frontend_queue calls it again while the call switched nodes and still returned nothing *)
Fixpoint u_read_chain (fuel : nat) (u : uq) : uq * rres :=
  let (u1, r) := uq_prepare_read 5 (c_pub K) true true u in
  match fuel with
  | O => (u1, r)
  | S f => if c_follow K && rr_alloc r && (match rr_off r with None => true | Some _ => false end) then u_read_chain f u1 else (u1, r)
  end.
Definition u_prepare_read (u : uq) : uq := fst (u_read_chain (length (nodes u)) u).
Definition u_finish_read (n : N) (u : uq) : uq := uq_finish_read u n.
Definition u_commit_read (u : uq) : uq := uq_commit_read 5 (c_pub K) u.
Definition u_empty (u : uq) : uq := fst (uq_empty u).
Definition sh (f : uq -> uq) (x : thr) : thr := set_thr_uqs x (option_map f (uqs x)).
(* _read_and_decode_frontend_queue reads at most frontend_queue.capacity() bytes per call: the capacity of the
   bounded queue, or of the node the consumer is on *)
Definition read_limit (x : thr) : N := match uqs x with Some u => capacity u | None => c_cap K end.
(* the read of an unbounded queue returns nothing although a later node holds records: without chain following
   (c_follow = false) when the consumer's node is drained and the node behind it is empty too (a node published by
   shrink() that the next record did not fit into) *)
Definition u_blocked (x : thr) : bool :=
  match uqs x with
  | Some u => match rr_off (snd (u_read_chain (length (nodes u)) u)) with None => true | Some _ => false end
  | None => false
  end.

Definition memb (t : nat) (l : list nat) : bool := existsb (Nat.eqb t) l.

(* ------------------------------------------------------------------ frontend *)
(* Logger::log_statement splits into: clock read (+ level check before it, in the macro), thread
   context registration on the first call, reservation attempts, write + commit. *)
Inductive fop :=
| FClock (t : nat) (e : ev)    (* level check, then the timestamp is taken: e with ets := clock *)
| FReg (t : nat)               (* get_local_thread_context(): register on first use *)
| FTry (t : nat)               (* one reservation attempt for the pending statement *)
| FWaitFlush (t : nat)         (* flush_log(): one check of the flag *)
| FExit (t : nat)              (* thread ends: context invalidated *)
| FSetLevel (l : nat) (v : N)  (* logger->set_log_level *)
| FSetSinkLevel (k : nat) (v : N)
| FAddFilter (k : nat) (m : N)
| FTick (d : N)
| FShrink (t : nat) (c : N).   (* Frontend::shrink_thread_local_queue(c): the producer publishes a smaller node (unbounded queues only) *)

(* would the macro enqueue at all? (level >= logger level; control events always) *)
Definition passes_logger (s : st) (e : ev) : bool :=
  match ekind e with KLog => llevel (lg s (elg e)) <=? elvl e | _ => true end.

(* a control request refused by a dropping queue is retried by its caller (flush_log, init_backtrace,
   ...) through a fresh log_statement call: it gets a new timestamp *)
Definition retime (s : st) (e0 : ev) : ev :=
  match ekind e0 with
  | KLog => e0
  | _ => if c_dropping K
         then {| eid := eid e0; ets := clock s; ekind := ekind e0; elg := elg e0; elvl := elvl e0; esz := esz e0; efmt := efmt e0; enamed := enamed e0 |}
         else e0
  end.

Definition fstep (s : st) (o : fop) : st :=
  match o with
  | FShrink t c => set_th s (upd (th s) t (sh (fun u => uq_shrink u c) (th s t)))
  | FTick d => {| clock := clock s + d; th := th s; registered := registered s; newflag := newflag s;
      invalid_cnt := invalid_cnt s; cache := cache s; pc := pc s; tsnow := tsnow s; lg := lg s; sk := sk s;
      nsinks := nsinks s; nloggers := nloggers s; lastfl := lastfl s; flags := flags s; obs := obs s;
      issued := issued s; delivered := delivered s; plog := plog s; gh := gh s |}
  | FClock t e =>
      let x := th s t in
      match pend x with
      | Some _ => s
      | None =>
        if tvalid x && passes_logger s e then
          let e' := {| eid := eid e; ets := clock s; ekind := ekind e; elg := elg e; elvl := elvl e; esz := esz e; efmt := efmt e; enamed := enamed e |} in
          set_th s (upd (th s) t (set_thr_pend x (Some e') false))
        else s
      end
  | FReg t =>
      (* registration happens inside the first log call of a live thread *)
      if memb t (registered s) || negb (tvalid (th s t)) then s else
      {| clock := clock s; th := th s; registered := registered s ++ [t]; newflag := true;
         invalid_cnt := invalid_cnt s; cache := cache s; pc := pc s; tsnow := tsnow s; lg := lg s; sk := sk s;
         nsinks := nsinks s; nloggers := nloggers s; lastfl := lastfl s; flags := flags s; obs := obs s;
         issued := issued s; delivered := delivered s; plog := plog s; gh := gh s |}
  | FTry t =>
      let x := th s t in
      match pend x with
      | None => s
      | Some e0 =>
        if negb (memb t (registered s)) then s else
        (* a control request refused by a dropping queue is retried by its caller (flush_log,
           init_backtrace, ...) through a fresh log_statement call: new timestamp *)
        let e := retime s e0 in
        let (q1, r) := prepare_write ideal (c_cap K) (q x) (esz e) in
        match r with
        | Some _ =>
            let q2 := commit_write (finish_write ideal q1 (esz e)) in
            let x' := set_thr_pend (set_thr_q x q2 (qev x ++ [e])) None false in
            let x'' := match ekind e with KFlush => set_thr_wflush x' (Some (eid e)) | _ => x' end in
            (* init_backtrace(): backtrace_flush_level is stored right after the request is enqueued *)
            let s := match ekind e with
                     | KInitBt _ fl => set_lg s (upd (lg s) (elg e) (set_lbtlvl (lg s (elg e)) fl))
                     | _ => s end in
            let s' := set_th s (upd (th s) t (sh (u_write (esz e)) x'')) in
            {| clock := clock s'; th := th s'; registered := registered s'; newflag := newflag s';
               invalid_cnt := invalid_cnt s'; cache := cache s'; pc := pc s'; tsnow := tsnow s'; lg := lg s'; sk := sk s';
               nsinks := nsinks s'; nloggers := nloggers s'; lastfl := lastfl s'; flags := flags s'; obs := obs s';
               issued := upd (issued s') t (issued s' t ++ [eid e]); delivered := delivered s'; plog := plog s'; gh := gh s' |}
        | None =>
            (* denied: count once per statement, and only ordinary log statements *)
            let inc := match ekind e with KLog => negb (counted x) | _ => false end in
            let x1 := set_thr_q x q1 (qev x) in
            let x2 := if inc then set_thr_failc x1 (failc x1 + 1) else x1 in
            let s := if inc then set_gh s (gh_denied (gh s)) else s in
            if c_dropping K then
              (* dropped: the call returns false; a control request stays pending (its caller sleeps and retries) *)
              match ekind e with
              | KLog => set_th s (upd (th s) t (set_thr_pend x2 None false))
              | _ => set_th s (upd (th s) t (set_thr_pend x2 (Some e) false))
              end
            else
              set_th s (upd (th s) t (set_thr_pend x2 (Some e) true))
        end
      end
  | FWaitFlush t =>
      let x := th s t in
      match wflush x with
      | Some f => if existsb (N.eqb f) (flags s) then set_th s (upd (th s) t (set_thr_wflush x None)) else s
      | None => s
      end
  | FExit t =>
      let x := th s t in
      if tvalid x && memb t (registered s) then
        let s' := set_th s (upd (th s) t (set_thr_valid x false)) in
        {| clock := clock s'; th := th s'; registered := registered s'; newflag := newflag s';
           invalid_cnt := (invalid_cnt s' + 1) mod 2 ^ c_bits K; cache := cache s'; pc := pc s'; tsnow := tsnow s'; lg := lg s'; sk := sk s';
           nsinks := nsinks s'; nloggers := nloggers s'; lastfl := lastfl s'; flags := flags s'; obs := obs s';
           issued := issued s'; delivered := delivered s'; plog := plog s'; gh := gh s' |}
      else if tvalid x then set_th s (upd (th s) t (set_thr_valid x false)) else s
  | FSetLevel l v => set_lg s (upd (lg s) l (set_llevel (lg s l) v))
  | FSetSinkLevel k v => set_sk s (upd (sk s) k (set_slevel (sk s k) v))
  | FAddFilter k m => if existsb (N.eqb m) (sfilt (sk s k)) || (m =? 0) then s else set_sk s (upd (sk s) k (add_sfilt (sk s k) m))
  end.

(* ------------------------------------------------------------------ backend *)
(* _update_active_thread_contexts_cache *)
Definition refresh (s : st) : st :=
  if newflag s then
    let f := fun u => if memb u (registered s) && negb (texists (th s u))
                      then set_thr_tbuf (th s u) [] (c_tinit K) else th s u in
    set_cache (set_th s f) (registered s) false
  else s.

(* _populate_formatted_log_message for one decoded statement: notifier traffic *)
Definition fmt_notes (e : ev) : list N :=
  match ekind e with
  | KFlush => []
  | _ => match efmt e with
         | FOk => []
         | FStdThrow => [O_NOTE; 3; 0]
         | FOtherThrow => [O_NOTE; 3; 0]
         end
  end.

(* UnboundedSPSCQueue::empty() = the consumer's node is empty AND it has no successor: a drained node whose
   successor has not been switched to yet answers "not empty" even when the successor holds nothing (a node left
   unused after shrink()); the backend then believes something is pending until its next read hops over *)
Definition u_hint (x : thr) : bool :=
  match uqs x with
  | Some u => match nnext (getn u (cons u)) with None => true | Some _ => false end
  | None => true
  end.
(* consumer-side empty() on a thread's queue (reloads the cached writer position) *)
Definition q_empty (x : thr) : thr * bool :=
  let (q1, e) := empty (q x) in (sh u_empty (set_thr_q x q1 (qev x)), e && u_hint x).

(* _read_and_decode_frontend_queue for one thread context (the do..while loop).
   Returns the new thread record, bytes read, notifier observations, and whether a non-std exception
   escaped (only possible when the source lacks the catch-all: the record is then not consumed). *)
Fixpoint read_loop (fuel : nat) (lim : N) (tn : N) (x : thr) (total : N) (notes : list N) : thr * N * list N * bool :=
  match fuel with
  | O => (x, total, notes, false)
  | S f =>
    let (q1, r0) := prepare_read ideal (c_cap K) (q x) in
    let r := if u_blocked x then None else r0 in
    match r, qev x with
    | Some _, e :: rest =>
        (* back(): the buffer expands when full, before anything else *)
        let cap1 := if tcap x =? N.of_nat (length (tbuf x)) then 2 * tcap x else tcap x in
        if negb (c_grace K =? 0) && (tn <? ets e)
        then (sh u_prepare_read (set_thr_tbuf (set_thr_q x q1 (qev x)) (tbuf x) cap1), total, notes, false)
        else
          match efmt e, ekind e, c_catch_all K with
          | FOtherThrow, (KLog | KInitBt _ _ | KFlushBt), false =>
              (sh u_prepare_read (set_thr_tbuf (set_thr_q x q1 (qev x)) (tbuf x) cap1), total, notes, true)
          | _, _, _ =>
              let x1 := sh (fun u => u_finish_read (esz e) (u_prepare_read u))
                           (set_thr_tbuf (set_thr_q x (finish_read ideal q1 (esz e)) rest) (tbuf x ++ [e]) cap1) in
              let total' := total + esz e in
              let notes' := notes ++ fmt_notes e in
              if (total' <? lim) && (N.of_nat (length (tbuf x1)) <? c_hard K)
              then read_loop f lim tn x1 total' notes'
              else (x1, total', notes', false)
          end
    | _, _ => (sh u_prepare_read (set_thr_q x q1 (qev x)), total, notes, false)
    end
  end.

Definition read_queue (tn : N) (x : thr) : thr * list N * bool :=
  let '(x1, total, notes, esc) := read_loop (S (length (qev x))) (read_limit x) tn x 0 [] in
  let x2 := if total =? 0 then x1 else sh u_commit_read (set_thr_q x1 (commit_read ideal (c_batch K) (c_pub K) (q x1)) (qev x1)) in
  (x2, notes, esc).

(* the sinks flushed by _flush_and_run_active_sinks: sinks of (valid) loggers, unique, logger order *)
Fixpoint uniq_app (acc l : list nat) : list nat :=
  match l with [] => acc | k :: r => if memb k acc then uniq_app acc r else uniq_app (acc ++ [k]) r end.
Fixpoint active_sinks (s : st) (n : nat) (i : nat) (acc : list nat) : list nat :=
  match n with O => acc | S n' => active_sinks s n' (S i) (uniq_app acc (lsinks (lg s i))) end.
(* a sink whose flush_sink() throws (driver: marker 4095 in its throw plan): the exception is caught per sink and
   reported, the other sinks are flushed all the same *)
Definition FLUSH_THROWS : nat := 4095.
Definition flush_throws (s : st) (k : nat) : bool := memb FLUSH_THROWS (sthrow (sk s k)).
Definition flush_tokens (s : st) (k : nat) : list N := if flush_throws s k then [O_NOTE; 5; 0] else [O_FLUSH; N.of_nat k].
Definition flush_sinks (s : st) : st :=
  add_obs s (flat_map (flush_tokens s) (active_sinks s (nloggers s) 0 [])).
Definition set_lastfl s v := {| clock := clock s; th := th s; registered := registered s; newflag := newflag s;
  invalid_cnt := invalid_cnt s; cache := cache s; pc := pc s; tsnow := tsnow s; lg := lg s; sk := sk s;
  nsinks := nsinks s; nloggers := nloggers s; lastfl := v; flags := flags s; obs := obs s;
  issued := issued s; delivered := delivered s; plog := plog s; gh := gh s |}.
(* _flush_and_run_active_sinks(true, sink_min_flush_interval) of the idle stage: interval 0 = always;
   otherwise only when more than the interval has passed since the last idle flush *)
Definition idle_flush (iv : N) (s : st) : st :=
  if iv =? 0 then flush_sinks s
  else if iv <? clock s - lastfl s then set_lastfl (flush_sinks s) (clock s) else s.

(* what reaches the sink: the statement's id, or 0 when its message was replaced by an error text *)
Definition wid (e : ev) : N := match efmt e with FOk => eid e | _ => 0 end.
(* the named arguments the sink sees: the statement's own (a reused transit event never carries another
   statement's: they are cleared after every processed event, also when processing throws) *)
Definition snamed (e : ev) : N := enamed e.   (* also when formatting failed: the keys are there, the values empty *)
(* Sink::apply_all_filters: the sink's own level filter, then every user filter *)
Definition sink_accepts (z : snk) (e : ev) : bool :=
  (slevel z <=? elvl e) && forallb (fun m => negb (wid e mod m =? 0)) (sfilt z).

(* _write_log_statement: the sink loop; a throwing write_log ends it *)
Fixpoint dispatch (s : st) (e : ev) (ks : list nat) : st * bool :=
  match ks with
  | [] => (s, false)
  | k :: r =>
      let z := sk s k in
      if sink_accepts z e then
        let s1 := set_sk s (upd (sk s) k (bump_swrites z)) in
        if memb (swrites z) (sthrow z) then (s1, true)
        else dispatch (add_obs s1 [O_WRITE; N.of_nat k; wid e; elvl e; snamed e]) e r
      else dispatch s e r
  end.

(* _check_failure_counter *)
Fixpoint report_failures (s : st) (l : list nat) : st :=
  match l with
  | [] => s
  | u :: r =>
      let x := th s u in
      if failc x =? 0 then report_failures s r
      else report_failures
             (set_gh (add_obs (set_th s (upd (th s) u (set_thr_failc x 0)))
                              [O_NOTE; (if c_dropping K then 1 else 2); failc x])
                     (gh_reported (gh s) (failc x))) r
  end.

(* _cleanup_invalidated_thread_contexts *)
Fixpoint find_dead (s : st) (l : list nat) : st * option nat :=
  match l with
  | [] => (s, None)
  | u :: r =>
      if tvalid (th s u) then find_dead s r
      else let (x1, e) := q_empty (th s u) in
           let s1 := set_th s (upd (th s) u x1) in
           if e && (match tbuf x1 with [] => true | _ => false end) then (s1, Some u) else find_dead s1 r
  end.
Definition destroy (x : thr) : thr :=
  {| q := bq_init; qev := []; tbuf := []; tcap := 0; texists := false; tvalid := false; failc := 0;
     pend := pend x; counted := counted x; wflush := wflush x; uqs := uqs x |}.
Definition remove_nat (u : nat) (l : list nat) := filter (fun v => negb (Nat.eqb v u)) l.
Fixpoint cleanup_loop (fuel : nat) (s : st) : st :=
  match fuel with
  | O => s
  | S f =>
    let (s0, r) := find_dead s (cache s) in
    match r with
    | None => s0
    | Some u =>
        (* F9: pending failure counters are reported before the context (and its counter) goes away *)
        let s1 := if c_report_first K then report_failures s0 (cache s0) else s0 in
        cleanup_loop f
          (* the context is destroyed: whatever its queue or buffer still held is gone *)
          {| clock := clock s1; th := upd (th s1) u (destroy (th s1 u)); registered := remove_nat u (registered s1); newflag := newflag s1;
             invalid_cnt := (invalid_cnt s1 + 2 ^ c_bits K - 1) mod 2 ^ c_bits K; cache := remove_nat u (cache s1);
             pc := pc s1; tsnow := tsnow s1; lg := lg s1; sk := sk s1; nsinks := nsinks s1; nloggers := nloggers s1;
             lastfl := lastfl s1; flags := flags s1; obs := obs s1; issued := issued s1; delivered := delivered s1; plog := plog s1;
             gh := gh_lost (gh s1) (failc (th s1 u)) |}
    end
  end.
Definition cleanup_ctx (s : st) : st :=
  if invalid_cnt s =? 0 then s else cleanup_loop (S (length (cache s))) s.

(* minimum timestamp over the fronts of the cached contexts, first one wins ties (strict <) *)
Fixpoint min_front (s : st) (l : list nat) (best : option (nat * ev)) : option (nat * ev) :=
  match l with
  | [] => best
  | u :: r =>
      match tbuf (th s u), best with
      | e :: _, Some (_, b) => if ets e <? ets b then min_front s r (Some (u, e)) else min_front s r best
      | e :: _, None => min_front s r (Some (u, e))
      | [], _ => min_front s r best
      end
  end.

(* BacktraceStorage::process with the dispatching callback. With the per-event try/catch (F6) a throwing
   sink is reported and the replay goes on; without it the exception leaves process() before clear():
   the storage keeps everything and the rest is not replayed now. *)
Fixpoint replay_events (s : st) (ks : list nat) (l : list (option ev)) : st * bool :=
  match l with
  | [] => (s, false)
  | None :: r => replay_events s ks r              (* out-of-bounds slot: nothing to dispatch in the model *)
  | Some e :: r =>
      let (s1, threw) := dispatch s e ks in
      if threw then
        if c_bt_catch K then replay_events (add_obs s1 [O_NOTE; 5; 0]) ks r
        else (s1, true)
      else replay_events s1 ks r
  end.
Definition replay_bt (s : st) (l : nat) : st * bool :=
  match lbt (lg s l) with
  | None => (s, false)
  | Some b =>
      let (b', outs) := process (c_bt K) b in
      let (s1, threw) := replay_events s (lsinks (lg s l)) outs in
      if threw then (s1, true)     (* storage untouched: process() never reached clear() *)
      else (set_lg s1 (upd (lg s1) l (set_lbt (lg s1 l) (Some b'))), false)
  end.

(* _process_transit_event for one event (before it is popped) *)
Definition process_event (s : st) (e : ev) : st :=
  let L := elg e in
  match ekind e with
  | KLog =>
      if elvl e =? LV_BACKTRACE then
        match lbt (lg s L) with
        | Some b => set_lg s (upd (lg s) L (set_lbt (lg s L) (Some (fst (store (c_bt K) e b)))))
        | None => add_obs s [O_NOTE; 6; 0]      (* QuillError: init_backtrace needs to be called first *)
        end
      else
        let (s', threw) := dispatch s e (lsinks (lg s L)) in
        if threw then add_obs s' [O_NOTE; 5; 0]
        else if lbtlvl (lg s' L) <=? elvl e then
          let (s2, t2) := replay_bt s' L in if t2 then add_obs s2 [O_NOTE; 5; 0] else s2
        else s'
  | KFlush => flush_sinks s
  | KInitBt cap _ =>
      let b := match lbt (lg s L) with Some b => b | None => bt_init end in
      set_lg s (upd (lg s) L (set_lbt (lg s L) (Some (fst (set_capacity cap b)))))
  | KFlushBt => let (s2, t2) := replay_bt s L in if t2 then add_obs s2 [O_NOTE; 5; 0] else s2
  end.

(* pop_front of the processed event's buffer (+ ghosts) *)
Definition pop_event (s : st) (u : nat) (e : ev) : st :=
  let x := th s u in
  {| clock := clock s; th := upd (th s) u (set_thr_tbuf x (tl (tbuf x)) (tcap x)); registered := registered s;
     newflag := newflag s; invalid_cnt := invalid_cnt s; cache := cache s; pc := pc s; tsnow := tsnow s; lg := lg s;
     sk := sk s; nsinks := nsinks s; nloggers := nloggers s; lastfl := lastfl s; flags := flags s; obs := obs s; issued := issued s;
     delivered := upd (delivered s) u (delivered s u ++ [eid e]); plog := plog s ++ [e]; gh := gh s |}.
Definition set_flag (s : st) (f : N) : st :=
  {| clock := clock s; th := th s; registered := registered s; newflag := newflag s; invalid_cnt := invalid_cnt s;
     cache := cache s; pc := pc s; tsnow := tsnow s; lg := lg s; sk := sk s; nsinks := nsinks s; nloggers := nloggers s;
     lastfl := lastfl s; flags := flags s ++ [f]; obs := obs s; issued := issued s; delivered := delivered s; plog := plog s; gh := gh s |}.

(* _process_lowest_timestamp_transit_event; returns false when every buffer is empty *)
Definition process_min (s : st) : st * bool :=
  match min_front s (cache s) None with
  | None => (s, false)
  | Some (u, e) =>
      let s1 := process_event s e in
      let s3 := pop_event s1 u e in
      match ekind e with
      | KFlush => (set_flag (cleanup_ctx s3) (eid e), true)
      | _ => (s3, true)
      end
  end.

(* has_pending_events_for_caching_when_transit_event_buffer_empty (after its cache refresh) *)
Fixpoint pending_scan (s : st) (l : list nat) : st * bool :=
  match l with
  | [] => (s, false)
  | u :: r =>
      match tbuf (th s u) with
      | [] => let (x1, e) := q_empty (th s u) in
              let s1 := set_th s (upd (th s) u x1) in
              if e then pending_scan s1 r else (s1, true)
      | _ => pending_scan s r
      end
  end.

(* _check_frontend_queues_and_cached_transit_events_empty (after its cache refresh) *)
Fixpoint all_empty_scan (s : st) (l : list nat) (acc : bool) : st * bool :=
  match l with
  | [] => (s, acc)
  | u :: r =>
      let (x1, e) := q_empty (th s u) in
      let s1 := set_th s (upd (th s) u x1) in
      all_empty_scan s1 r (acc && e && (match tbuf x1 with [] => true | _ => false end))
  end.

Definition buffered (s : st) : N := fold_right (fun u a => N.of_nat (length (tbuf (th s u))) + a) 0 (cache s).

Definition MAXTS : N := 2 ^ 64 - 1.


Definition bstep (s : st) : st :=
  match pc s with
  | PIdle => set_pc (refresh s) PRefreshed
  | PRefreshed =>
      let tn := if c_grace K =? 0 then MAXTS else clock s - c_grace K in
      {| clock := clock s; th := th s; registered := registered s; newflag := newflag s;
         invalid_cnt := invalid_cnt s; cache := cache s; pc := PTimed; tsnow := tn; lg := lg s; sk := sk s;
         nsinks := nsinks s; nloggers := nloggers s; lastfl := lastfl s; flags := flags s; obs := obs s;
         issued := issued s; delivered := delivered s; plog := plog s; gh := gh s |}
  | PTimed =>
      let s1 := if c_refresh2 K then refresh s else s in set_pc s1 (PReading (cache s1))
  | PReading [] =>
      let n := buffered s in
      if n =? 0 then set_pc s PIdle1 else if n <? c_soft K then set_pc s PSingle else set_pc s PBatch
  | PReading (u :: todo) =>
      let '(x1, notes, esc) := read_queue (tsnow s) (th s u) in
      let s1 := add_obs (set_th s (upd (th s) u x1)) notes in
      if esc then set_pc (add_obs s1 [O_NOTE; 4; 0]) PIdle else set_pc s1 (PReading todo)
  | PSingle => set_pc (fst (process_min s)) PIdle
  | PBatch =>
      let s0 := refresh s in
      let (s1, pending) := pending_scan s0 (cache s0) in
      if pending then set_pc s1 PIdle
      else let (s2, did) := process_min s1 in if did then set_pc s2 PBatch else set_pc s2 PIdle
  | PIdle1 => set_pc (idle_flush (c_flush_iv K) s) PIdle2
  | PIdle2 => set_pc (report_failures s (cache s)) PIdle3
  | PIdle3 =>
      let s0 := refresh s in
      let (s1, e) := all_empty_scan s0 (cache s0) true in
      if e then set_pc (cleanup_ctx s1) PIdle else set_pc s1 PIdle
  end.

Inductive op := F (o : fop) | B.
Definition step (s : st) (o : op) : st := match o with F f => fstep s f | B => bstep s end.
Definition run (s : st) (ops : list op) : st := fold_left step ops s.
End BE.

Ltac idle_cases := unfold idle_flush; match goal with |- context [if ?iv =? 0 then flush_sinks ?s else _] =>
  destruct (iv =? 0); [|destruct (iv <? clock s - lastfl s)] end.
