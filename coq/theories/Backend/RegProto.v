(* M-REG: the thread-context registration / cache-refresh protocol between the frontends and the
   backend (include/quill/core/ThreadContextManager.h, include/quill/backend/BackendWorker.h) at
   micro-step granularity.  Definitions only.

     void register_thread_context(ctx)     { _spinlock.lock(); _thread_contexts.push_back(ctx); _spinlock.unlock();   (frontend t)
                                             _new_thread_context_flag.store(true, release); }
     bool new_thread_context_flag()        { if (_new_thread_context_flag.load(relaxed)) {                            (backend)
                                               _new_thread_context_flag.store(false, relaxed); return true; }
                                             return false; }
     void _update_active_thread_contexts_cache()
                                           { if (tcm.new_thread_context_flag()) { _active_thread_contexts_cache.clear();
                                               tcm.for_each_thread_context(push_back); } }   // for_each: LockGuard on _spinlock

   Any number of registering threads (each registration has an id t : nat) and the one backend thread.
   M-BE (Backend/BEDefs.v) makes a registration ONE step (FReg: append + flag := true) and a cache
   refresh ONE step (refresh: if flag then flag := false; cache := registry).  This file has what the
   code does in between:

     FAppend t   lock; push_back; unlock      (one step: critical section of _spinlock)
     FFlag t     flag := true
     BLoad       v := flag; v = false: the call returns false (no rebuild)
     BStore      flag := false                (split consumption, what the source has)
     BExchange   v := flag.exchange(false)    (consumption as one read-modify-write)
     BRebuild    lock; cache := registry; unlock

   Flags (selected by tools/srcfacts.py, see TieC03.v):
     append_first    register_thread_context appends under the lock BEFORE it raises the flag
     consume_atomic  the flag is consumed by one exchange(false) / compare_exchange (BExchange);
                     otherwise by a load followed by a separate store(false) (BLoad ; BStore)
     consume_first   the backend consumes the flag BEFORE it rebuilds the cache; otherwise it peeks
                     (BLoad), rebuilds, and only then clears the flag

   Why a sequentially consistent interleaving of these steps is faithful for every memory_order
   argument of the flag accesses (hand argument, listed as trusted in props/c03.py): the registry is
   only touched inside critical sections of one lock (Spinlock: exchange(acquire) / store(release)),
   so the critical sections are totally ordered and that order is part of happens-before; the flag is
   ONE atomic object, so its accesses are totally ordered by its modification order (coherence), a
   read-modify-write reads the value immediately before its own write, and coherence forbids a flag
   access to read from / be ordered before a flag write it happens-after.  Program order between a
   thread's flag access and its critical section is therefore respected by every execution: if the
   backend's critical section came before thread t's although the backend read (or overwrote) t's
   flag write first, the lock would make the backend's flag access happen before t's flag write, which
   the backend's access read from (or follows in modification order): a coherence violation.  No
   release/acquire pairing on the flag itself is used (the backend's load is relaxed in the source, so
   the release of the frontend's store has no partner anyway).  A stale value returned by the backend's
   load is the same as scheduling the load earlier.

   Ghosts (linearisation bookkeeping for the refinement; no step's enabledness and no real field
   depends on them): areg = the prefix of the registry whose registrations have taken effect in the
   atomic machine (a registration takes effect at its FFlag, or earlier when a rebuild picks the
   context up first; contexts appended before it take effect with it, the registry order is the append
   order), aflag = the atomic machine's flag.

   Not in this model: removal of contexts (_cleanup_invalidated_thread_contexts: backend only, at a
   quiescent point of an exited thread; M-BE's cleanup_ctx). *)
From Coq Require Import List Arith Bool.
Import ListNotations.

Record rp_flags := { append_first : bool; consume_atomic : bool; consume_first : bool }.

(* where the backend is inside _update_active_thread_contexts_cache *)
Inductive rbpc := RIdle | RSaw | RCleared | RRebuilt.

Record rp := {
  reg : list nat;        (* _thread_contexts *)
  flag : bool;           (* _new_thread_context_flag *)
  cache : list nat;      (* _active_thread_contexts_cache *)
  flagged : list nat;    (* registrations whose flag store is done *)
  rbst : rbpc;
  areg : list nat;       (* ghost *)
  aflag : bool           (* ghost *)
}.

Definition rp0 : rp := {| reg := []; flag := false; cache := []; flagged := []; rbst := RIdle; areg := []; aflag := false |}.

Inductive rop := FAppend (t : nat) | FFlag (t : nat) | BLoad | BStore | BExchange | BRebuild.

Definition rmemb (t : nat) (l : list nat) : bool := existsb (Nat.eqb t) l.

(* l up to and including the first t *)
Fixpoint upto (t : nat) (l : list nat) : list nat :=
  match l with
  | [] => []
  | x :: r => if Nat.eqb x t then [x] else x :: upto t r
  end.

Definition rbpc_eqb (a b : rbpc) : bool :=
  match a, b with
  | RIdle, RIdle | RSaw, RSaw | RCleared, RCleared | RRebuilt, RRebuilt => true
  | _, _ => false
  end.

(* the stage at which the flag is cleared / the cache is rebuilt *)
Definition consume_at (fl : rp_flags) : rbpc := if consume_first fl then (if consume_atomic fl then RIdle else RSaw) else RRebuilt.
Definition after_consume (fl : rp_flags) : rbpc := if consume_first fl then RCleared else RIdle.
Definition rebuild_at (fl : rp_flags) : rbpc := if consume_first fl then RCleared else RSaw.
Definition after_rebuild (fl : rp_flags) : rbpc := if consume_first fl then RIdle else RRebuilt.

(* a step that is not enabled (wrong flag, out of program order, already done) leaves the state
   unchanged: every list of steps is a schedule and program order is respected by construction *)
Definition rp_step (fl : rp_flags) (s : rp) (o : rop) : rp :=
  match o with
  | FAppend t =>
      if negb (rmemb t (reg s)) && (append_first fl || rmemb t (flagged s))
      then {| reg := reg s ++ [t]; flag := flag s; cache := cache s; flagged := flagged s; rbst := rbst s; areg := areg s; aflag := aflag s |}
      else s
  | FFlag t =>
      if negb (rmemb t (flagged s)) && (negb (append_first fl) || rmemb t (reg s))
      then
        let eff := rmemb t (areg s) || negb (rmemb t (reg s)) in     (* already in effect (or, flag-first variants, nothing to take effect yet) *)
        {| reg := reg s; flag := true; cache := cache s; flagged := t :: flagged s; rbst := rbst s;
           areg := if eff then areg s else areg s ++ upto t (skipn (length (areg s)) (reg s));
           aflag := if eff then aflag s else true |}
      else s
  | BLoad =>
      (* the load of a split consumption, or the peek of a rebuild-first refresh *)
      if (negb (consume_atomic fl) || negb (consume_first fl)) && rbpc_eqb (rbst s) RIdle && flag s
      then {| reg := reg s; flag := flag s; cache := cache s; flagged := flagged s; rbst := RSaw; areg := areg s; aflag := aflag s |}
      else s
  | BStore =>
      if negb (consume_atomic fl) && rbpc_eqb (rbst s) (consume_at fl)
      then {| reg := reg s; flag := false; cache := cache s; flagged := flagged s; rbst := after_consume fl; areg := areg s; aflag := aflag s |}
      else s
  | BExchange =>
      if consume_atomic fl && rbpc_eqb (rbst s) (consume_at fl) && (flag s || negb (consume_first fl))
      then {| reg := reg s; flag := false; cache := cache s; flagged := flagged s; rbst := after_consume fl; areg := areg s; aflag := aflag s |}
      else s
  | BRebuild =>
      if rbpc_eqb (rbst s) (rebuild_at fl)
      then {| reg := reg s; flag := flag s; cache := reg s; flagged := flagged s; rbst := after_rebuild fl; areg := reg s; aflag := false |}
      else s
  end.

Fixpoint rp_run (fl : rp_flags) (s : rp) (ops : list rop) : rp :=
  match ops with
  | [] => s
  | o :: r => rp_run fl (rp_step fl s o) r
  end.

(* one whole call of _update_active_thread_contexts_cache with nothing in between *)
Definition refresh_call (fl : rp_flags) : list rop :=
  if consume_first fl
  then (if consume_atomic fl then [BExchange; BRebuild] else [BLoad; BStore; BRebuild])
  else [BLoad; BRebuild; if consume_atomic fl then BExchange else BStore].

Fixpoint refresh_calls (fl : rp_flags) (n : nat) : list rop :=
  match n with O => [] | S k => refresh_call fl ++ refresh_calls fl k end.

(* the two micro-steps of one registration with nothing in between *)
Definition register_call (fl : rp_flags) (t : nat) : list rop :=
  if append_first fl then [FAppend t; FFlag t] else [FFlag t; FAppend t].

(* the source as it is: append before flag, load ; store(false), consumed before the rebuild *)
Definition rfl_src : rp_flags := {| append_first := true; consume_atomic := false; consume_first := true |}.

(* ---------- the atomic machine: what M-BE (Backend/BEDefs.v) uses.  One step per call:
   AReg t = fstep (FReg t): "if t is registered then nothing else registered ++ [t], newflag := true";
   ARefresh = refresh: "if newflag then cache := registered, newflag := false". *)
Inductive raop := AReg (t : nat) | ARefresh.
Record arp := { a_reg : list nat; a_flag : bool; a_cache : list nat }.
Definition arp0 : arp := {| a_reg := []; a_flag := false; a_cache := [] |}.
Definition ra_step (s : arp) (o : raop) : arp :=
  match o with
  | AReg t => if rmemb t (a_reg s) then s else {| a_reg := a_reg s ++ [t]; a_flag := true; a_cache := a_cache s |}
  | ARefresh => if a_flag s then {| a_reg := a_reg s; a_flag := false; a_cache := a_reg s |} else s
  end.
Fixpoint ra_run (s : arp) (ops : list raop) : arp :=
  match ops with [] => s | o :: r => ra_run (ra_step s o) r end.
Definition rabs (s : rp) : arp := {| a_reg := areg s; a_flag := aflag s; a_cache := cache s |}.

(* the atomic steps a micro-step stands for (its linearisation): a registration takes effect at its
   FFlag unless it already has, together with the not yet effective registrations appended before it;
   a refresh call takes effect at its last micro-step: the load/exchange that finds the flag false (a
   call that returns false), or the rebuild, just after the registrations it picks up early *)
Definition rp_lin (fl : rp_flags) (s : rp) (o : rop) : list raop :=
  match o with
  | FAppend _ => []
  | FFlag t =>
      if negb (rmemb t (flagged s)) && (negb (append_first fl) || rmemb t (reg s))
      then (if rmemb t (areg s) || negb (rmemb t (reg s)) then [] else map AReg (upto t (skipn (length (areg s)) (reg s))))
      else []
  | BLoad =>
      if (negb (consume_atomic fl) || negb (consume_first fl)) && rbpc_eqb (rbst s) RIdle && negb (flag s) then [ARefresh] else []
  | BStore => []
  | BExchange =>
      if consume_atomic fl && consume_first fl && rbpc_eqb (rbst s) RIdle && negb (flag s) then [ARefresh] else []
  | BRebuild =>
      if rbpc_eqb (rbst s) (rebuild_at fl) then map AReg (skipn (length (areg s)) (reg s)) ++ [ARefresh] else []
  end.

Fixpoint rp_trace (fl : rp_flags) (s : rp) (ops : list rop) : list raop :=
  match ops with
  | [] => []
  | o :: r => rp_lin fl s o ++ rp_trace fl (rp_step fl s o) r
  end.

(* the registrations / the number of refresh calls in an atomic trace *)
Fixpoint regs_of (l : list raop) : list nat :=
  match l with [] => [] | AReg t :: r => t :: regs_of r | ARefresh :: r => regs_of r end.
Fixpoint refreshes_of (l : list raop) : nat :=
  match l with [] => O | AReg _ :: r => refreshes_of r | ARefresh :: r => S (refreshes_of r) end.
(* the number of completed refresh calls of a micro-step schedule (a call ends with the load/exchange
   that returns false or with the rebuild) *)
Fixpoint calls_done (fl : rp_flags) (s : rp) (ops : list rop) : nat :=
  match ops with
  | [] => O
  | o :: r =>
      (match o with
       | BLoad => if (negb (consume_atomic fl) || negb (consume_first fl)) && rbpc_eqb (rbst s) RIdle && negb (flag s) then 1 else 0
       | BExchange => if consume_atomic fl && consume_first fl && rbpc_eqb (rbst s) RIdle && negb (flag s) then 1 else 0
       | BRebuild => if rbpc_eqb (rbst s) (rebuild_at fl) then 1 else 0
       | _ => 0
       end) + calls_done fl (rp_step fl s o) r
  end.
