(* The sink loop of _write_log_statement (C03 / C10 / C16): which sinks of the logger receive a
   statement, for every sink list, level configuration and throw plan. *)
From Coq Require Import List NArith Arith Bool Lia.
From Quill Require Import Queue.BQDefs Backend.BEDefs.
Import ListNotations.
Local Open Scope N_scope.

Definition passes_sink (s : st) (e : ev) (k : nat) : bool := sink_accepts (sk s k) e.
Definition throws_now (s : st) (k : nat) : bool := memb (swrites (sk s k)) (sthrow (sk s k)).

(* the sinks that get the line: those passing their own level filter, up to (excluding) the first
   passing sink whose write_log throws *)
Fixpoint written (s : st) (e : ev) (ks : list nat) : list nat :=
  match ks with
  | [] => []
  | k :: r => if passes_sink s e k
              then (if throws_now s k then [] else k :: written s e r)
              else written s e r
  end.
Fixpoint some_throws (s : st) (e : ev) (ks : list nat) : bool :=
  match ks with
  | [] => false
  | k :: r => if passes_sink s e k then (if throws_now s k then true else some_throws s e r) else some_throws s e r
  end.

Lemma written_ext s s' e ks : (forall k, In k ks -> sk s' k = sk s k) -> written s' e ks = written s e ks.
Proof.
  induction ks as [|k r IH]; intro H; cbn [written]; [reflexivity|].
  unfold passes_sink, throws_now. rewrite (H k (or_introl eq_refl)).
  rewrite IH by (intros; apply H; now right). reflexivity.
Qed.
Lemma some_throws_ext s s' e ks : (forall k, In k ks -> sk s' k = sk s k) -> some_throws s' e ks = some_throws s e ks.
Proof.
  induction ks as [|k r IH]; intro H; cbn [some_throws]; [reflexivity|].
  unfold passes_sink, throws_now. rewrite (H k (or_introl eq_refl)).
  rewrite IH by (intros; apply H; now right). reflexivity.
Qed.

Lemma dispatch_spec e : forall ks s, NoDup ks ->
  obs (fst (dispatch s e ks)) = obs s ++ flat_map (fun k => [O_WRITE; N.of_nat k; wid e; elvl e; snamed e]) (written s e ks) /\
  snd (dispatch s e ks) = some_throws s e ks.
Proof.
  induction ks as [|k r IH]; intros s ND; cbn [dispatch written some_throws flat_map].
  - now rewrite app_nil_r.
  - inversion ND as [|? ? Hnin ND']; subst.
    unfold passes_sink, throws_now. destruct (sink_accepts (sk s k) e); [|apply IH; assumption].
    destruct (memb (swrites (sk s k)) (sthrow (sk s k))); cbn [fst snd flat_map].
    + now rewrite app_nil_r.
    + match goal with |- context [dispatch ?s1 e r] => destruct (IH s1 ND') as [A B]; rewrite A, B end.
      assert (Hext : forall k', In k' r -> sk (add_obs (set_sk s (upd (sk s) k (bump_swrites (sk s k))))
                                               [O_WRITE; N.of_nat k; wid e; elvl e; snamed e]) k' = sk s k').
      { intros k' Hin. cbn. unfold upd. destruct (Nat.eqb_spec k' k) as [->|]; [contradiction|reflexivity]. }
      rewrite (written_ext _ _ _ _ Hext), (some_throws_ext _ _ _ _ Hext).
      cbn [obs add_obs set_sk]. rewrite <- app_assoc. split; reflexivity.
Qed.

(* a sink gets the line iff it passes its own filter and no earlier passing sink threw: independent of
   every other sink's level *)
Lemma written_iff s e : forall ks k, NoDup ks -> In k ks ->
  (In k (written s e ks) <->
   passes_sink s e k = true /\ throws_now s k = false /\
   forall pre post, ks = pre ++ k :: post -> some_throws s e pre = false).
Proof.
  induction ks as [|k0 r IH]; intros k ND Hin; [destruct Hin|].
  inversion ND as [|? ? Hnin ND']; subst. cbn [written].
  destruct Hin as [->|Hin].
  - (* k is the head *)
    destruct (passes_sink s e k) eqn:Pk.
    + destruct (throws_now s k) eqn:Tk.
      * split; [intros []|intros (_ & H & _); discriminate].
      * split; [intros _; repeat split; auto|intros _; now left].
        intros pre post E. destruct pre as [|p pre']; [reflexivity|].
        inversion E; subst. exfalso. apply Hnin. apply in_or_app. right. now left.
    + split; [|intros (H & _); discriminate].
      intro H. exfalso. clear - H Hnin. induction r as [|a r IHr]; cbn in H; [destruct H|].
      destruct (passes_sink s e a); [destruct (throws_now s a); [destruct H|destruct H as [->|H]]|].
      * apply Hnin; now left.
      * apply IHr; auto. intro; apply Hnin; now right.
      * apply IHr; auto. intro; apply Hnin; now right.
  - assert (Hne : k <> k0) by (intro; subst; contradiction).
    destruct (passes_sink s e k0) eqn:P0.
    + destruct (throws_now s k0) eqn:T0.
      * split; [intros []|]. intros (_ & _ & H). exfalso.
        destruct (in_split _ _ Hin) as (l1 & l2 & El).
        specialize (H (k0 :: l1) l2). rewrite El in H. specialize (H eq_refl).
        cbn in H. rewrite P0, T0 in H. discriminate.
      * split.
        -- intros [E|Hw]; [congruence|]. apply IH in Hw; auto. destruct Hw as (A & B & Cc). repeat split; auto.
           intros pre post E. destruct pre as [|p pre']; [reflexivity|]. inversion E; subst.
           cbn. rewrite P0, T0. eapply Cc; eauto.
        -- intros (A & B & Cc). right. apply IH; auto. repeat split; auto.
           intros pre post E. specialize (Cc (k0 :: pre) post). cbn in Cc. rewrite P0, T0 in Cc. apply Cc. now rewrite E.
    + split.
      * intro Hw. apply IH in Hw; auto. destruct Hw as (A & B & Cc). repeat split; auto.
        intros pre post E. destruct pre as [|p pre']; [reflexivity|]. inversion E; subst.
        cbn. rewrite P0. eapply Cc; eauto.
      * intros (A & B & Cc). apply IH; auto. repeat split; auto.
        intros pre post E. specialize (Cc (k0 :: pre) post). cbn in Cc. rewrite P0 in Cc. apply Cc. now rewrite E.
Qed.
