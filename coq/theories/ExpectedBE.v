(* Pinned skeletons of the BackendWorker methods that the micro-step machine M-BE (Backend/BEDefs.v) re-states in Gallina:
   generated once from coq/gen/SrcFacts.v at the commit where model and implementation were last compared (T-corr), kept by hand
   afterwards. TieBE.v proves that the skeletons regenerated from /repo on every run are still these. *)
From Coq Require Import List String.
Import ListNotations.
Local Open Scope string_scope.

Definition sk_be_poll : list string := [
    "EXPR _update_active_thread_contexts_cache()";
    "DECL size_t const cached_transit_events_count = _populate_transit_events_from_frontend_queues();";
    "IF cached_transit_events_count != 0";
    "  IF cached_transit_events_count < _options.transit_events_soft_limit";
    "    EXPR _process_lowest_timestamp_transit_event()";
    "  ELSE";
    "    WHILE !has_pending_events_for_caching_when_transit_event_buffer_empty() && _process_lowest_timestamp_transit_event()";
    "ELSE";
    "  EXPR _flush_and_run_active_sinks(true, _options.sink_min_flush_interval)";
    "  EXPR _check_failure_counter(_options.error_notifier)";
    "  EXPR _resync_rdtsc_clock()";
    "  DECL bool const queues_and_events_empty = _check_frontend_queues_and_cached_transit_events_empty();";
    "  IF queues_and_events_empty";
    "    EXPR _cleanup_invalidated_thread_contexts()";
    "    EXPR _cleanup_invalidated_loggers()";
    "    EXPR _try_shrink_empty_transit_event_buffers()";
    "    IF _options.sleep_duration.count() != 0";
    "      DECL std::unique_lock<std::mutex> lock{_wake_up_mutex};";
    "      EXPR _wake_up_cv.wait_for(lock, _options.sleep_duration, [this] { return _wake_up_flag; })";
    "      EXPR _wake_up_flag = false";
    "      EXPR _resync_rdtsc_clock()";
    "    ELSE";
    "      IF _options.enable_yield_when_idle";
    "        EXPR std::this_thread::yield()"].

Definition sk_be_populate_transit_events_from_frontend_queues : list string := [
    "DECL uint64_t const ts_now = _options.log_timestamp_ordering_grace_period.count() ? static_cast<uint64_t>((detail::get_timestamp<std::chrono::system_clock>() - _options.log_timestamp_ordering_grace_period) .count()) : std::numeric_limits<uint64_t>::max();";
    "EXPR _update_active_thread_contexts_cache()";
    "DECL size_t cached_transit_events_count{0};";
    "FOR for (ThreadContext* thread_context : _active_thread_contexts_cache)";
    "  EXPR assert";
    "  IF thread_context->has_unbounded_queue_type()";
    "    EXPR cached_transit_events_count += _read_and_decode_frontend_queue( thread_context->get_spsc_queue_union().unbounded_spsc_queue, thread_context, ts_now)";
    "  ELSE";
    "    IF thread_context->has_bounded_queue_type()";
    "      EXPR cached_transit_events_count += _read_and_decode_frontend_queue( thread_context->get_spsc_queue_union().bounded_spsc_queue, thread_context, ts_now)";
    "RET return cached_transit_events_count"].

Definition sk_be_read_unbounded_frontend_queue : list string := [
    "DECL auto const read_result = frontend_queue.prepare_read();";
    "IF read_result.allocation";
    "  IF (read_result.new_capacity < read_result.previous_capacity) && thread_context->_transit_event_buffer";
    "    EXPR thread_context->_transit_event_buffer->request_shrink()";
    "  IF _options.error_notifier";
    "    DECL char ts[24];";
    "    DECL time_t t = time(nullptr);";
    "    DECL tm p;";
    "    EXPR localtime_rs(std::addressof(t), std::addressof(p))";
    "    EXPR strftime(ts, 24, ""%X"", std::addressof(p))";
    "    EXPR _options.error_notifier( fmtquill::format(""{} Quill INFO: Allocated a new SPSC queue with a capacity of {} KiB "" ""(previously {} KiB) from thread {}"", ts, (read_result.new_capacity / 1024), (read_result.previous_capacity / 1024), thread_context->thread_id()))";
    "  IF !read_result.read_pos";
    "    RET return _read_unbounded_frontend_queue(frontend_queue, thread_context)";
    "RET return read_result.read_pos"].

Definition sk_be_populate_transit_event_from_frontend_queue : list string := [
    "EXPR assert";
    "DECL TransitEvent* transit_event = thread_context->_transit_event_buffer->back();";
    "EXPR assert";
    "EXPR std::memcpy(&transit_event->timestamp, read_pos, sizeof(transit_event->timestamp))";
    "EXPR read_pos += sizeof(transit_event->timestamp)";
    "EXPR std::memcpy(&transit_event->macro_metadata, read_pos, sizeof(transit_event->macro_metadata))";
    "EXPR read_pos += sizeof(transit_event->macro_metadata)";
    "EXPR std::memcpy(&transit_event->logger_base, read_pos, sizeof(transit_event->logger_base))";
    "EXPR read_pos += sizeof(transit_event->logger_base)";
    "IF transit_event->logger_base->clock_source == ClockSourceType::Tsc";
    "  IF QUILL_UNLIKELY";
    "    ATOMIC QUILL_UNLIKELY load [memory_order_relaxed]";
    "    EXPR _rdtsc_clock.store(new RdtscClock{_options.rdtsc_resync_interval}, std::memory_order_release)";
    "      ATOMIC _rdtsc_clock store [memory_order_release]";
    "    EXPR _last_rdtsc_resync_time = std::chrono::steady_clock::now()";
    "  EXPR transit_event->timestamp = _rdtsc_clock.load(std::memory_order_relaxed)->time_since_epoch(transit_event->timestamp)";
    "    ATOMIC _rdtsc_clock load [memory_order_relaxed]";
    "IF (transit_event->logger_base->clock_source != ClockSourceType::User) && (ts_now != std::numeric_limits<uint64_t>::max())";
    "  DECL auto count_digits = [](uint64_t number) { uint32_t digits = 0; do { digits++; number /= 10; } while (number != 0); return digits; };";
    "  EXPR assert";
    "  IF QUILL_UNLIKELY";
    "    RET return false";
    "DECL FormatArgsDecoder format_args_decoder;";
    "EXPR std::memcpy(&format_args_decoder, read_pos, sizeof(format_args_decoder))";
    "EXPR read_pos += sizeof(format_args_decoder)";
    "IF (transit_event->macro_metadata->event() != MacroMetadata::Event::Flush) && (transit_event->macro_metadata->event() != MacroMetadata::Event::LoggerRemovalRequest)";
    "  EXPR format_args_decoder(read_pos, _format_args_store)";
    "  IF !transit_event->macro_metadata->has_named_args()";
    "    EXPR _populate_formatted_log_message(transit_event, transit_event->macro_metadata->message_format())";
    "    IF transit_event->macro_metadata->event() == MacroMetadata::Event::LogWithRuntimeMetadata";
    "      EXPR _apply_runtime_metadata(transit_event)";
    "  ELSE";
    "    EXPR _named_args_format_template.assign(transit_event->macro_metadata->message_format())";
    "    IF auto const search = _named_args_templates.find(_named_args_format_template);";
    "      EXPR search != std::cend(_named_args_templates)";
    "    ELSE";
    "      DECL auto const& [message_format, arg_names] = search->second;";
    "      EXPR _populate_formatted_log_message(transit_event, message_format.data())";
    "      EXPR _populate_formatted_named_args(transit_event, arg_names)";
    "ELSE";
    "  IF transit_event->macro_metadata->event() == MacroMetadata::Event::Flush";
    "    DECL uintptr_t flush_flag_tmp;";
    "    EXPR std::memcpy(&flush_flag_tmp, read_pos, sizeof(uintptr_t))";
    "    EXPR transit_event->flush_flag = reinterpret_cast<std::atomic<bool>*>(flush_flag_tmp)";
    "    EXPR read_pos += sizeof(uintptr_t)";
    "  ELSE";
    "    EXPR assert";
    "    DECL uintptr_t logger_removal_flag_tmp;";
    "    EXPR std::memcpy(&logger_removal_flag_tmp, read_pos, sizeof(uintptr_t))";
    "    EXPR read_pos += sizeof(uintptr_t)";
    "    DECL std::string_view const logger_name = Codec<std::string>::decode_arg(read_pos);";
    "    EXPR _logger_removal_flags.emplace(std::string{logger_name}, reinterpret_cast<std::atomic<bool>*>(logger_removal_flag_tmp))";
    "IF transit_event->macro_metadata->log_level() == LogLevel::Dynamic";
    "  EXPR std::memcpy(&transit_event->dynamic_log_level, read_pos, sizeof(transit_event->dynamic_log_level))";
    "  EXPR read_pos += sizeof(transit_event->dynamic_log_level)";
    "ELSE";
    "  EXPR transit_event->dynamic_log_level = LogLevel::None";
    "EXPR thread_context->_transit_event_buffer->push_back()";
    "RET return true"].

Definition sk_be_populate_formatted_log_message : list string := [
    "EXPR transit_event->formatted_msg->clear()";
    "TRY";
    "  EXPR fmtquill::vformat_to(std::back_inserter(*transit_event->formatted_msg), message_format, fmtquill::basic_format_args<fmtquill::format_context>{ _format_args_store.data(), _format_args_store.size()})";
    "  IF _options.check_printable_char && _format_args_store.has_string_related_type() && (transit_event->macro_metadata->event() != MacroMetadata::Event::LogWithRuntimeMetadata)";
    "    EXPR sanitize_non_printable_chars(*transit_event->formatted_msg, _options)";
    "CATCH catch (const std::exception &)";
    "  EXPR transit_event->formatted_msg->clear()";
    "  DECL std::string const error = fmtquill::format(R""([Could not format log statement. message: ""{}"", location: ""{}"", error: ""{}""])"", transit_event->macro_metadata->message_format(), transit_event->macro_metadata->short_source_location(), e.what());";
    "  EXPR transit_event->formatted_msg->append(error)";
    "  EXPR _options.error_notifier(error)";
    "CATCH catch (...)";
    "  EXPR transit_event->formatted_msg->clear()";
    "  DECL std::string const error = fmtquill::format( R""([Could not format log statement. message: ""{}"", location: ""{}"", error: ""unknown exception""])"", transit_event->macro_metadata->message_format(), transit_event->macro_metadata->short_source_location());";
    "  EXPR transit_event->formatted_msg->append(error)";
    "  EXPR _options.error_notifier(error)"].

Definition sk_be_process_lowest_timestamp_transit_event : list string := [
    "DECL uint64_t min_ts{std::numeric_limits<uint64_t>::max()};";
    "DECL ThreadContext* thread_context{nullptr};";
    "FOR for (ThreadContext* tc : _active_thread_contexts_cache)";
    "  EXPR assert";
    "  DECL TransitEvent const* te = tc->_transit_event_buffer->front();";
    "  IF te && (min_ts > te->timestamp)";
    "    EXPR min_ts = te->timestamp";
    "    EXPR thread_context = tc";
    "IF !thread_context";
    "  RET return false";
    "DECL TransitEvent* transit_event = thread_context->_transit_event_buffer->front();";
    "EXPR assert";
    "DECL std::atomic<bool>* flush_flag{nullptr};";
    "TRY";
    "  EXPR _process_transit_event(*thread_context, *transit_event, flush_flag)";
    "CATCH catch (const std::exception &)";
    "  EXPR _options.error_notifier(e.what())";
    "CATCH catch (...)";
    "  EXPR _options.error_notifier(std::string{""Caught unhandled exception.""})";
    "IF transit_event->named_args";
    "  EXPR transit_event->named_args->clear()";
    "EXPR thread_context->_transit_event_buffer->pop_front()";
    "IF flush_flag";
    "  EXPR _cleanup_invalidated_thread_contexts()";
    "  EXPR flush_flag->store(true)";
    "    ATOMIC flush_flag store []";
    "RET return true"].

Definition sk_be_process_transit_event : list string := [
    "IF transit_event.macro_metadata->event() == MacroMetadata::Event::Log";
    "  IF transit_event.log_level() != LogLevel::Backtrace";
    "    EXPR _dispatch_transit_event_to_sinks(transit_event, thread_context.thread_id(), thread_context.thread_name())";
    "    IF QUILL_UNLIKELY";
    "      ATOMIC QUILL_UNLIKELY load [memory_order_relaxed]";
    "      IF transit_event.logger_base->backtrace_storage";
    "        EXPR transit_event.logger_base->backtrace_storage->process( [this](TransitEvent const& te, std::string_view thread_id, std::string_view thread_name) { QUILL_TRY { _dispatch_transit_event_to_sinks(te, thread_id, thread_name); } #if !defined(QUILL_NO_EXCEPTIONS) QUILL_CATCH(std::exception const& e) { _options.error_notifier(e.what()); } QUILL_CATCH_ALL() { _options.error_notifier(std::string{""Caught unhandled exception.""}); } #endif })";
    "  ELSE";
    "    IF transit_event.logger_base->backtrace_storage";
    "      DECL TransitEvent transit_event_copy;";
    "      EXPR transit_event.copy_to(transit_event_copy)";
    "      EXPR transit_event.logger_base->backtrace_storage->store( std::move(transit_event_copy), thread_context.thread_id(), thread_context.thread_name())";
    "        ATOMIC transit_event.logger_base->backtrace_storage-> store []";
    "    ELSE";
    "      EXPR QUILL_THROW";
    "ELSE";
    "  IF transit_event.macro_metadata->event() == MacroMetadata::Event::InitBacktrace";
    "    IF !transit_event.logger_base->backtrace_storage";
    "      EXPR transit_event.logger_base->backtrace_storage = std::make_shared<BacktraceStorage>()";
    "    EXPR transit_event.logger_base->backtrace_storage->set_capacity(static_cast<uint32_t>(std::stoul( std::string{transit_event.formatted_msg->begin(), transit_event.formatted_msg->end()})))";
    "  ELSE";
    "    IF transit_event.macro_metadata->event() == MacroMetadata::Event::FlushBacktrace";
    "      IF transit_event.logger_base->backtrace_storage";
    "        EXPR transit_event.logger_base->backtrace_storage->process( [this](TransitEvent const& te, std::string_view thread_id, std::string_view thread_name) { QUILL_TRY { _dispatch_transit_event_to_sinks(te, thread_id, thread_name); } #if !defined(QUILL_NO_EXCEPTIONS) QUILL_CATCH(std::exception const& e) { _options.error_notifier(e.what()); } QUILL_CATCH_ALL() { _options.error_notifier(std::string{""Caught unhandled exception.""}); } #endif })";
    "    ELSE";
    "      IF transit_event.macro_metadata->event() == MacroMetadata::Event::Flush";
    "        EXPR _flush_and_run_active_sinks(false, std::chrono::milliseconds{0})";
    "        EXPR flush_flag = transit_event.flush_flag";
    "        EXPR transit_event.flush_flag = nullptr"].

Definition sk_behas_pending_events_for_caching_when_transit_event_buffer_empty : list string := [
    "EXPR _update_active_thread_contexts_cache()";
    "FOR for (ThreadContext* thread_context : _active_thread_contexts_cache)";
    "  EXPR assert";
    "  IF thread_context->_transit_event_buffer->empty()";
    "    IF thread_context->has_unbounded_queue_type() && !thread_context->get_spsc_queue_union().unbounded_spsc_queue.empty()";
    "      RET return true";
    "    IF thread_context->has_bounded_queue_type() && !thread_context->get_spsc_queue_union().bounded_spsc_queue.empty()";
    "      RET return true";
    "RET return false"].

Definition sk_be_check_frontend_queues_and_cached_transit_events_empty : list string := [
    "EXPR _update_active_thread_contexts_cache()";
    "DECL bool all_empty{true};";
    "FOR for (ThreadContext* thread_context : _active_thread_contexts_cache)";
    "  EXPR assert";
    "  IF thread_context->has_unbounded_queue_type()";
    "    EXPR all_empty &= thread_context->get_spsc_queue_union().unbounded_spsc_queue.empty()";
    "  ELSE";
    "    IF thread_context->has_bounded_queue_type()";
    "      EXPR all_empty &= thread_context->get_spsc_queue_union().bounded_spsc_queue.empty()";
    "  EXPR assert";
    "  EXPR all_empty &= thread_context->_transit_event_buffer->empty()";
    "RET return all_empty"].

Definition sk_be_update_active_thread_contexts_cache : list string := [
    "IF QUILL_UNLIKELY";
    "  EXPR _active_thread_contexts_cache.clear()";
    "  EXPR _thread_context_manager.for_each_thread_context( [this](ThreadContext* thread_context) { if (!thread_context->_transit_event_buffer) { thread_context->_transit_event_buffer = std::make_shared<TransitEventBuffer>(_options.transit_event_buffer_initial_capacity); } _active_thread_contexts_cache.push_back(thread_context); })"].

Definition sk_be_cleanup_invalidated_thread_contexts : list string := [
    "IF !_thread_context_manager.has_invalid_thread_context()";
    "  RET return";
    "DECL auto find_invalid_and_empty_thread_context_callback = [](ThreadContext* thread_context) { if (!thread_context->is_valid()) { assert(thread_context->has_unbounded_queue_type() || thread_context->has_bounded_queue_type()); assert(thread_context->_transit_event_buffer && ""transit_event_buffer should always be valid here as we always populate it with the "" ""_active_thread_contexts_cache""); if (thread_context->has_unbounded_queue_type()) { return thread_context->get_spsc_queue_union().unbounded_spsc_queue.empty() && thread_context->_transit_event_buffer->empty(); } if (thread_context->has_bounded_queue_type()) { return thread_context->get_spsc_queue_union().bounded_spsc_queue.empty() && thread_context->_transit_event_buffer->empty(); } } return false; };";
    "DECL auto found_invalid_and_empty_thread_context = std::find_if(_active_thread_contexts_cache.begin(), _active_thread_contexts_cache.end(), find_invalid_and_empty_thread_context_callback);";
    "WHILE QUILL_UNLIKELY";
    "  EXPR _check_failure_counter(_options.error_notifier)";
    "  EXPR _thread_context_manager.remove_shared_invalidated_thread_context(*found_invalid_and_empty_thread_context)";
    "  EXPR _active_thread_contexts_cache.erase(found_invalid_and_empty_thread_context)";
    "  EXPR found_invalid_and_empty_thread_context = std::find_if(_active_thread_contexts_cache.begin(), _active_thread_contexts_cache.end(), find_invalid_and_empty_thread_context_callback)"].

Definition sk_be_flush_and_run_active_sinks : list string := [
    "EXPR _logger_manager.for_each_logger( [this](LoggerBase* logger) { if (logger->is_valid_logger()) { for (std::shared_ptr<Sink> const& sink : logger->sinks) { Sink* logger_sink_ptr = sink.get(); auto search_it = std::find_if(_active_sinks_cache.begin(), _active_sinks_cache.end(), [logger_sink_ptr](Sink* elem) { return elem == logger_sink_ptr; }); if (search_it == std::end(_active_sinks_cache)) { _active_sinks_cache.push_back(logger_sink_ptr); } } } return false; })";
    "DECL bool should_flush_sinks{false};";
    "IF sink_min_flush_interval.count()";
    "  IF auto const now = std::chrono::steady_clock::now();";
    "    EXPR (now - _last_sink_flush_time) > sink_min_flush_interval";
    "ELSE";
    "  EXPR should_flush_sinks = true";
    "FOR for (auto const& sink : _active_sinks_cache)";
    "  TRY";
    "    IF should_flush_sinks";
    "      EXPR sink->flush_sink()";
    "  CATCH catch (const std::exception &)";
    "    EXPR _options.error_notifier(e.what())";
    "  CATCH catch (...)";
    "    EXPR _options.error_notifier(std::string{""Caught unhandled exception.""})";
    "  IF run_periodic_tasks";
    "    EXPR sink->run_periodic_tasks()";
    "EXPR _active_sinks_cache.clear()"].
