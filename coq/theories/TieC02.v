(* T-src tie for C02 (and the unbounded clause of C09): the skeletons of the UnboundedSPSCQueue methods
   regenerated from /repo are the ones Queue/UQDefs.v mirrors, and the facts the theorems take as
   parameters (memory orders of the `next` store and load, presence of the re-check after the acquiring
   load, commit_read before delete, publish before switching the producer) are sufficient. A source edit
   that changes one of them makes this file stop compiling. *)
From Coq Require Import String List NArith Bool.
From QuillGen Require SrcFacts.
From Quill Require ExpectedUQ.
From Quill Require Import Queue.BQDefs Queue.UQDefs Tie TieC09.
Import ListNotations.

Lemma uq_skeletons_ok :
  SrcFacts.sk_uq_prepare_write = ExpectedUQ.sk_uq_prepare_write /\
  SrcFacts.sk_uq__handle_full_queue = ExpectedUQ.sk_uq__handle_full_queue /\
  SrcFacts.sk_uq_shrink = ExpectedUQ.sk_uq_shrink /\
  SrcFacts.sk_uq_prepare_read = ExpectedUQ.sk_uq_prepare_read /\
  SrcFacts.sk_uq__read_next_queue = ExpectedUQ.sk_uq__read_next_queue /\
  SrcFacts.sk_uq_empty = ExpectedUQ.sk_uq_empty /\
  SrcFacts.sk_uq_finish_write = ExpectedUQ.sk_uq_finish_write /\
  SrcFacts.sk_uq_commit_write = ExpectedUQ.sk_uq_commit_write /\
  SrcFacts.sk_uq_finish_and_commit_write = ExpectedUQ.sk_uq_finish_and_commit_write /\
  SrcFacts.sk_uq_finish_read = ExpectedUQ.sk_uq_finish_read /\
  SrcFacts.sk_uq_commit_read = ExpectedUQ.sk_uq_commit_read /\
  SrcFacts.sk_uq_producer_capacity = ExpectedUQ.sk_uq_producer_capacity /\
  SrcFacts.sk_uq_capacity = ExpectedUQ.sk_uq_capacity.
Proof. vm_compute. repeat split; reflexivity. Qed.

(* the re-check counts only if the pointer handed to _read_next_queue was loaded after the bounded queue
   reported empty (otherwise the load itself would be the stale observation) *)
Definition src_recheck : bool := SrcFacts.uq_recheck_present && SrcFacts.uq_next_load_after_empty.
Definition src_cbd : bool := SrcFacts.uq_commit_before_delete.

Definition src_ucfg : ucfg :=
  {| u_ord := src_orders;
     u_nord := {| o_next_grow := store_mo SrcFacts.uq_next_store_grow;
                  o_next_shrink := store_mo SrcFacts.uq_next_store_shrink;
                  o_next_load := load_mo SrcFacts.uq_next_load |};
     u_recheck := src_recheck; u_cbd := src_cbd |}.

Lemma src_ucfg_sufficient : usufficient src_ucfg = true.
Proof. vm_compute. reflexivity. Qed.

Lemma src_cbd_true : src_cbd = true.
Proof. vm_compute. reflexivity. Qed.

(* statement orders the model fixes: next is published before the producer switches, the old node is
   committed before it is published, the consumer deletes the old node before it switches *)
Lemma uq_order_facts_ok :
  SrcFacts.uq_publish_before_switch = true /\ SrcFacts.uq_commit_write_before_publish = true /\
  SrcFacts.uq_delete_before_switch = true /\ SrcFacts.uq_recheck_present = true /\
  SrcFacts.uq_commit_before_delete = true /\ SrcFacts.uq_next_load_after_empty = true.
Proof. vm_compute. repeat split; reflexivity. Qed.
