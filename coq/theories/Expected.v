(* Expected skeletons: the shape of the source the hand-written models mirror, frozen by hand.
   Tie.v proves QuillGen.SrcFacts.sk_* = these; a mismatch means the source changed under the model. *)
From Coq Require Import String List.
Import ListNotations.
Local Open Scope string_scope.
Definition sk_bq_commit_read : list string := [
    "IF (static_cast<integer_type>(_reader_pos - _atomic_reader_pos.load(std::memory_order_relaxed)) >= _bytes_per_batch) || (_reader_pos == _writer_pos_cache)";
    "  ATOMIC _atomic_reader_pos load [memory_order_relaxed]";
    "  EXPR _atomic_reader_pos.store(_reader_pos, std::memory_order_release)";
    "    ATOMIC _atomic_reader_pos store [memory_order_release]"].
Definition sk_bq_commit_read_atomics : list string := [
    "ATOMIC _atomic_reader_pos load [memory_order_relaxed]";
    "ATOMIC _atomic_reader_pos store [memory_order_release]"].
Definition sk_bq_commit_write : list string := [
    "EXPR _atomic_writer_pos.store(_writer_pos, std::memory_order_release)";
    "  ATOMIC _atomic_writer_pos store [memory_order_release]"].
Definition sk_bq_empty : list string := [
    "IF _writer_pos_cache == _reader_pos";
    "  EXPR _writer_pos_cache = _atomic_writer_pos.load(std::memory_order_acquire)";
    "    ATOMIC _atomic_writer_pos load [memory_order_acquire]";
    "  IF _writer_pos_cache == _reader_pos";
    "    RET return true";
    "RET return false"].
Definition sk_bq_finish_and_commit_write : list string := [
    "EXPR finish_write(n)";
    "EXPR commit_write()"].
Definition sk_bq_finish_read : list string := [
    "EXPR _reader_pos += n"].
Definition sk_bq_finish_write : list string := [
    "EXPR _writer_pos += n"].
Definition sk_bq_prepare_read : list string := [
    "IF empty()";
    "  RET return nullptr";
    "RET return _storage + (_reader_pos & _mask)"].
Definition sk_bq_prepare_write : list string := [
    "IF (_capacity - static_cast<integer_type>(_writer_pos - _reader_pos_cache)) < n";
    "  EXPR _reader_pos_cache = _atomic_reader_pos.load(std::memory_order_acquire)";
    "    ATOMIC _atomic_reader_pos load [memory_order_acquire]";
    "  IF (_capacity - static_cast<integer_type>(_writer_pos - _reader_pos_cache)) < n";
    "    RET return nullptr";
    "RET return _storage + (_writer_pos & _mask)"].
Definition sk_bt_process : list string := [
    "DECL uint32_t index = _index;";
    "FOR for (uint32_t i = 0; i < _stored_events.size()";
    "  EXPR callback(_stored_events[index].transit_event, _stored_events[index].thread_id, _stored_events[index].thread_name)";
    "  IF index < _stored_events.size() - 1";
    "    EXPR index += 1";
    "  ELSE";
    "    EXPR index = 0";
    "EXPR _stored_events.clear()";
    "EXPR _index = 0"].
Definition sk_bt_set_capacity : list string := [
    "IF _capacity != capacity";
    "  EXPR _capacity = capacity";
    "  EXPR _index = 0";
    "  EXPR _stored_events.clear()";
    "  EXPR _stored_events.reserve(_capacity)"].
Definition sk_bt_store : list string := [
    "IF _capacity == 0";
    "  RET return";
    "IF _stored_events.size() < _capacity";
    "  EXPR _stored_events.emplace_back(std::string{thread_id}, std::string{thread_name}, std::move(transit_event))";
    "ELSE";
    "  DECL StoredTransitEvent& ste = _stored_events[_index];";
    "  EXPR ste = StoredTransitEvent{std::string{thread_id}, std::string{thread_name}, std::move(transit_event)}";
    "  IF _index < _capacity - 1";
    "    EXPR _index += 1";
    "  ELSE";
    "    EXPR _index = 0"].
