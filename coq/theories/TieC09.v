(* T-src tie for C09: the guard of commit_read (when the reader position is published). Kept apart
   from Tie.v so that a change of the publish rule does not touch the safety theorems of C01. *)
From Coq Require Import String List NArith Bool.
From QuillGen Require SrcFacts.
From Quill Require Expected.
From Quill Require Import Queue.BQDefs.
Import ListNotations.

(* commit_read's guard *)
Definition src_pub_rule : pub_rule :=
  {| on_batch := SrcFacts.bq_publish_on_batch; on_drain := SrcFacts.bq_publish_on_drain |}.

Lemma src_publishes_on_drain : on_drain src_pub_rule = true.
Proof. vm_compute. reflexivity. Qed.

(* C09 depends on the guard of commit_read (when the reader position is published) *)
Lemma bq_commit_read_guard_ok : SrcFacts.sk_bq_commit_read = Expected.sk_bq_commit_read.
Proof. vm_compute. reflexivity. Qed.
