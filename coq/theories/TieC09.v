(* T-src tie for C09: the guard of commit_read (when the reader position is published). Kept apart
   from Tie.v so that a change of the publish rule does not touch the safety theorems of C01. *)
From Coq Require Import String List NArith Bool.
From QuillGen Require SrcFacts.
From Quill Require Expected.
From Quill Require Import Queue.BQDefs.
Import ListNotations.

(* commit_read's guard *)
Definition src_pub_rule : pub_rule :=
  {| on_batch := SrcFacts.bq_publish_on_batch; on_drain := SrcFacts.bq_publish_on_drain |}.

Lemma src_publishes_on_drain : on_drain src_pub_rule = true.
Proof. vm_compute. reflexivity. Qed.

(* C09 depends on the guard of commit_read (when the reader position is published) *)
Lemma bq_commit_read_guard_ok : SrcFacts.sk_bq_commit_read = Expected.sk_bq_commit_read.
Proof. vm_compute. reflexivity. Qed.

(* the backend's read pass over one frontend queue (BackendWorker::_read_and_decode_frontend_queue), as modelled by
   read_loop / read_queue of Backend/BEDefs.v: prepare_read, decode (may refuse: timestamp beyond the grace cut-off),
   finish_read, until the byte or the hard limit is reached; then commit_read whenever anything was read. The
   backend-level clause of C09 (Backend/BEPub.v) rests on that last line: no pass that consumed bytes ends without
   handing the reader position to commit_read. *)
Local Open Scope string_scope.
Lemma src_be_read_pass_commits : SrcFacts.sk_be_read_and_decode_frontend_queue = [
    "DECL size_t const queue_capacity = frontend_queue.capacity();";
    "DECL size_t total_bytes_read{0};";
    "DO";
    "  DECL std::byte* read_pos;";
    "  IF std::is_same_v<TFrontendQueue, UnboundedSPSCQueue>";
    "    EXPR read_pos = _read_unbounded_frontend_queue(frontend_queue, thread_context)";
    "  ELSE";
    "    EXPR read_pos = frontend_queue.prepare_read()";
    "  IF !read_pos";
    "    BREAK";
    "  DECL std::byte const* const read_begin = read_pos;";
    "  IF !_populate_transit_event_from_frontend_queue(read_pos, thread_context, ts_now)";
    "    BREAK";
    "  EXPR assert";
    "  DECL auto const bytes_read = static_cast<size_t>(read_pos - read_begin);";
    "  EXPR frontend_queue.finish_read(bytes_read)";
    "  EXPR total_bytes_read += bytes_read";
    "DOWHILE (total_bytes_read < queue_capacity) && (thread_context->_transit_event_buffer->size() < _options.transit_events_hard_limit)";
    "IF total_bytes_read != 0";
    "  EXPR frontend_queue.commit_read()";
    "RET return thread_context->_transit_event_buffer->size()"].
Proof. vm_compute. reflexivity. Qed.
