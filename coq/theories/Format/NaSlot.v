(* M-NASLOT: the named-argument vector of a (reused) transit event slot, as BackendWorker::_populate_formatted_named_args
   fills it. A transit event is reused; the vector it holds may be whatever an earlier statement left there (the backend
   clears it after processing an event, but this function does not rely on that): the vector is resized to the number
   of placeholder names, keys are assigned by index, values are assigned by index.
   Theorem: whatever the slot held, after the call it holds exactly this statement's pairs, in order (C19: "one
   key/value pair per argument, in order, keyed by the placeholder name").
   The variant without the resize (names appended to what is there) is refuted. Definitions and proofs are small
   enough to share a file; nothing here is extracted (the tie is T-src: fact c19_named_args_resized + pinned skeleton,
   and the backend-driver slot phase of props/c19.py). Extra positional arguments beyond the names ("_i" keys) are not
   modelled: premise length vals = length names. *)
From Coq Require Import List Arith Lia Bool.
Import ListNotations.

Section Slot.
Variable S : Type.          (* std::string *)
Variable empty : S.

Definition pairs := list (S * S).

(* std::vector::resize(n): truncate, or pad with value-initialised pairs *)
Definition resize (n : nat) (l : pairs) : pairs := firstn n l ++ repeat (empty, empty) (n - length l).

(* named_args[i].first = arg_names[i].first for i < arg_names.size() *)
Fixpoint set_keys (names : list S) (l : pairs) : pairs :=
  match names, l with
  | k :: ns, (_, v) :: r => (k, v) :: set_keys ns r
  | _, _ => l
  end.

(* named_args[i].second = formatted value i *)
Fixpoint set_vals (vals : list S) (l : pairs) : pairs :=
  match vals, l with
  | v :: vs, (k, _) :: r => (k, v) :: set_vals vs r
  | _, _ => l
  end.

(* resized = true: the source as it is (resize + assignment by index); false: names appended to the vector as found *)
Definition populate (resized : bool) (stale : pairs) (names vals : list S) : pairs :=
  if resized then set_vals vals (set_keys names (resize (length names) stale))
  else set_vals vals (stale ++ map (fun k => (k, empty)) names).

Lemma resize_length n l : length (resize n l) = n.
Proof. unfold resize. rewrite app_length, firstn_length, repeat_length. lia. Qed.

Lemma set_keys_exact names : forall l, length l = length names -> map fst (set_keys names l) = names /\ map snd (set_keys names l) = map snd l.
Proof.
  induction names as [|k ns IH]; intros [|[a b] r] H; cbn in *; try discriminate; auto.
  destruct (IH r ltac:(lia)) as [E1 E2]. now rewrite E1, E2.
Qed.

Lemma set_vals_exact vals : forall l, length l = length vals -> set_vals vals l = combine (map fst l) vals.
Proof.
  induction vals as [|v vs IH]; intros [|[a b] r] H; cbn in *; try discriminate; auto.
  now rewrite IH by lia.
Qed.

Lemma set_keys_length names : forall l, length (set_keys names l) = length l.
Proof. induction names as [|k ns IH]; intros [|[a b] r]; cbn; auto. Qed.

(* whatever the slot held before, it now holds exactly this statement's (name, value) pairs, in order *)
Theorem populate_exact stale names vals : length vals = length names ->
  populate true stale names vals = combine names vals.
Proof.
  intro H. unfold populate.
  pose proof (resize_length (length names) stale) as L.
  destruct (set_keys_exact names _ L) as [E1 _].
  rewrite set_vals_exact by (rewrite set_keys_length; lia).
  now rewrite E1.
Qed.

(* so the previous content of the slot is irrelevant *)
Corollary populate_independent_of_slot s1 s2 names vals : length vals = length names ->
  populate true s1 names vals = populate true s2 names vals.
Proof. intro H. now rewrite !populate_exact. Qed.

End Slot.

(* without the resize a slot that was not cleared leaks the earlier statement's pairs into this one *)
Lemma populate_refuted_without_resize :
  exists stale names vals, length vals = length names /\ populate nat 0 false stale names vals <> combine names vals.
Proof. exists [(7, 8)], [1], [2]. split; [reflexivity|]. cbn. discriminate. Qed.

Example populate_example : populate nat 0 true [(7, 8); (9, 9); (5, 5)] [1; 2] [3; 4] = [(1, 3); (2, 4)].
Proof. reflexivity. Qed.
