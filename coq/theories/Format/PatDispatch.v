(* M-PATD: which formatted line each sink of a logger receives.  Executable model of
   BackendWorker::_dispatch_transit_event_to_sinks (formatter look-up, single / multi-line choice),
   _process_multi_line_message and _write_log_statement (include/quill/backend/BackendWorker.h):
   per message line the logger's formatter produces log_statement; per sink, in the order of
   logger_base->sinks: apply_all_filters(level, log_message, log_statement); then
   `std::string_view log_to_write = log_statement;`, replaced by the line of the sink's own
   formatter when the sink has _override_pattern_formatter_options; then write_log(log_to_write).
   An exception (formatter creation or format()) leaves the whole event: later sinks and later
   message lines get nothing, the error notifier is called once.
   The formatters themselves are M-PAT (Format/PatModel.v: generate + format).
   Definitions only (no proofs) so that the extracted model still runs when a proof breaks. *)
From Coq Require Import List NArith Arith Bool.
From Quill Require Import Format.PatFmt Format.PatModel.
Import ListNotations.

(* PatternFormatterOptions as far as this code reads them (timestamp pattern / timezone only
   matter for the text of %(time): C13) *)
Record popts := { po_pattern : bytes; po_add_meta : bool }.

(* PatternFormatterOptions::operator== *)
Definition popts_eqb (a b : popts) : bool :=
  bytes_eqb (po_pattern a) (po_pattern b) && Bool.eqb (po_add_meta a) (po_add_meta b).

(* std::make_shared<PatternFormatter>(options)->format(statement): the line, or an exception
   (10 + constructor error kind | format error kind) *)
Inductive fout := Line (s : bytes) | Throws (code : N).

Definition format_with (v : pvar) (apply_spec : bytes -> bytes -> bytes) (o : popts) (st : stmt) : fout :=
  match generate v (po_pattern o) with
  | GErr e => Throws (10 + gerr_code e)
  | GOk g => match format v apply_spec g st with
             | FOk s => Line s
             | FErr e => Throws (ferr_code e)
             end
  end.

(* "Search for an existing pattern_formatter in each logger" with equal options, else create one:
   [existing] = the options of the formatters the other loggers hold *)
Definition logger_formatter (existing : list popts) (o : popts) : popts :=
  match find (popts_eqb o) existing with
  | Some o' => o'
  | None => o
  end.

(* a sink, as the dispatch sees it.  sk_pass = apply_all_filters (the sink's log-level filter and
   the user's Filter objects): it is given the level, the message line and the LOGGER's statement *)
Record sink := {
  sk_id : N;
  sk_override : option popts;                 (* _override_pattern_formatter_options *)
  sk_pass : N -> bytes -> bytes -> bool }.

(* a write: (sink, log_statement argument of Sink::write_log) *)
Definition wr := (N * bytes)%type.

(* the for loop of _write_log_statement.  [stmt_line] = log_statement.
   [hoist] selects the DEFECTIVE variant in which the declaration of log_to_write is outside the
   loop: then [cur] (the value the previous iterations left in it) is what a sink without an
   override is handed.  With hoist = false, [cur] is never read. *)
Fixpoint write_sinks (hoist : bool) (fmt : popts -> fout) (lv : N) (m stmt_line cur : bytes)
                     (sinks : list sink) : list wr * option N :=
  match sinks with
  | [] => ([], None)
  | sk :: r =>
    if sk_pass sk lv m stmt_line then
      let init := if hoist then cur else stmt_line in      (* log_to_write = log_statement *)
      match sk_override sk with
      | None =>
        let '(w, t) := write_sinks hoist fmt lv m stmt_line init r in
        ((sk_id sk, init) :: w, t)
      | Some o =>
        match fmt o with                                   (* (create and) use the sink's formatter *)
        | Line s =>
          let '(w, t) := write_sinks hoist fmt lv m stmt_line s r in
          ((sk_id sk, s) :: w, t)
        | Throws c => ([], Some c)
        end
      end
    else write_sinks hoist fmt lv m stmt_line cur r
  end.

(* _write_log_statement for one message line *)
Definition write_log_statement (hoist : bool) (v : pvar) (apply_spec : bytes -> bytes -> bytes)
                               (lo : popts) (sinks : list sink) (st : stmt) (lv : N) (m : bytes)
  : list wr * option N :=
  let st' := with_msg st m in
  match format_with v apply_spec lo st' with
  | Throws c => ([], Some c)
  | Line s => write_sinks hoist (fun o => format_with v apply_spec o st') lv m s s sinks
  end.

(* the loop over the message lines: an exception ends it *)
Fixpoint write_msgs (f : bytes -> list wr * option N) (ms : list bytes) : list wr * option N :=
  match ms with
  | [] => ([], None)
  | m :: r =>
    match f m with
    | (w, Some c) => (w, Some c)
    | (w, None) => let '(w', t) := write_msgs f r in (w ++ w', t)
    end
  end.

(* _dispatch_transit_event_to_sinks: the multi-line choice reads the options of the LOGGER's
   formatter (the add_metadata_to_multi_line_logs of a sink's override options is never read) *)
Definition dispatch_event (hoist : bool) (v : pvar) (apply_spec : bytes -> bytes -> bytes)
                          (lo : popts) (sinks : list sink) (st : stmt) (lv : N)
  : list wr * option N :=
  match dispatch_msgs (po_add_meta lo) (s_nargs st) (s_msg st) with
  | None => ([], Some 99%N)                              (* out of fuel: never (PatProofs) *)
  | Some ms => write_msgs (write_log_statement hoist v apply_spec lo sinks st lv) ms
  end.

(* what one sink was handed *)
Definition lines_for (id : N) (w : list wr) : list bytes :=
  map snd (filter (fun p => N.eqb (fst p) id) w).

(* ---------------------------------------------------------------------------------------------
   encoded entry point for the extracted runner

   patd <h> <nsinks> sink* <nloggers> logger* <nstmts> statement* <table>
     h         := hoist + 2 * pv_esc + 4 * pv_bits   (see patd_variant)
     sink      := (0 | 1 <pattern> <add_meta>) <min_level> (0 | 1 <byte> | 2 <byte>)
                  filter 1: reject when the message line contains <byte>
                  filter 2: reject when the logger's statement contains <byte>
     logger    := <name> <pattern> <add_meta> <n> <sink index>*n     (the name is only used by the
                  harness: the model's statements carry it in <stmt>)
     statement := <logger index> <level 0..8> <site> <stmt> <rt_file> <rt_line>   (as pat mode 1)
   obs: 0 <nstmts> <threw 0|1>*nstmts <nsinks> (<n> (<len> <byte>*len)*n)*nsinks *)
Fixpoint take_list {A} (take1 : list N -> option (A * list N)) (n : nat) (l : list N)
  : option (list A * list N) :=
  match n with
  | O => Some ([], l)
  | S n' => bind (take1 l) (fun '(x, l1) =>
            bind (take_list take1 n' l1) (fun '(xs, l2) => Some (x :: xs, l2)))
  end.

Definition take_counted {A} (take1 : list N -> option (A * list N)) (l : list N)
  : option (list A * list N) :=
  match l with
  | n :: r => take_list take1 (N.to_nat n) r
  | [] => None
  end.

Definition take_num (l : list N) : option (N * list N) :=
  match l with x :: r => Some (x, r) | [] => None end.

Definition contains (b : N) (s : bytes) : bool := existsb (N.eqb b) s.

Definition pass_of (min_level : N) (flt : N) (b : N) : N -> bytes -> bytes -> bool :=
  fun lv m stmt_line =>
    N.leb min_level lv &&
    (if N.eqb flt 1 then negb (contains b m)
     else if N.eqb flt 2 then negb (contains b stmt_line)
     else true).

Definition take_popts (l : list N) : option (popts * list N) :=
  bind (take_bytes l) (fun '(p, l1) =>
  bind (take_num l1) (fun '(am, l2) =>
  Some ({| po_pattern := p; po_add_meta := negb (N.eqb am 0) |}, l2))).

(* the sink's id is its position: filled in by number_sinks *)
Definition take_sink (l : list N) : option (sink * list N) :=
  bind (match l with
        | 0%N :: r => Some (None, r)
        | _ :: r => bind (take_popts r) (fun '(o, r') => Some (Some o, r'))
        | [] => None
        end) (fun '(ov, l1) =>
  bind (take_num l1) (fun '(minlv, l2) =>
  bind (match l2 with
        | 0%N :: r => Some ((0%N, 0%N), r)
        | k :: b :: r => Some ((k, b), r)
        | _ => None
        end) (fun '((k, b), l3) =>
  Some ({| sk_id := 0%N; sk_override := ov; sk_pass := pass_of minlv k b |}, l3)))).

Fixpoint number_sinks (i : N) (l : list sink) : list sink :=
  match l with
  | [] => []
  | s :: r => {| sk_id := i; sk_override := sk_override s; sk_pass := sk_pass s |}
              :: number_sinks (N.succ i) r
  end.

Record dlogger := { dl_opts : popts; dl_sinks : list N }.

Definition take_logger (l : list N) : option (dlogger * list N) :=
  bind (take_bytes l) (fun '(_name, l0) =>
  bind (take_popts l0) (fun '(o, l1) =>
  bind (take_counted take_num l1) (fun '(ix, l2) =>
  Some ({| dl_opts := o; dl_sinks := ix |}, l2)))).

Record dstmt := { ds_logger : N; ds_level : N; ds_stmt : option stmt }.

Definition take_dstmt (l : list N) : option (dstmt * list N) :=
  bind (take_num l) (fun '(lg, l1) =>
  bind (take_num l1) (fun '(lv, l2) =>
  bind (take_num l2) (fun '(site, l3) =>
  bind (take_stmt l3) (fun '(st0, l4) =>
  bind (take_bytes l4) (fun '(rf, l5) =>
  bind (take_bytes l5) (fun '(rl, l6) =>
  Some ({| ds_logger := lg; ds_level := lv;
           ds_stmt := if N.eqb site 0 then rt_stmt st0 rf rl else Some st0 |}, l6))))))).

(* the sinks of a logger, in its order; an index past the end is dropped *)
Fixpoint pick_sinks (all : list sink) (ix : list N) : list sink :=
  match ix with
  | [] => []
  | i :: r => match nth_error all (N.to_nat i) with
              | Some s => s :: pick_sinks all r
              | None => pick_sinks all r
              end
  end.

(* the statements in order: the writes, one threw-flag per statement, and the options of the
   formatters created so far (one per logger that has dispatched an event) *)
Fixpoint run_stmts (hoist : bool) (v : pvar) (apply_spec : bytes -> bytes -> bytes) (all : list sink)
                   (loggers : list dlogger) (existing : list popts) (sts : list dstmt)
  : list wr * list N :=
  match sts with
  | [] => ([], [])
  | d :: r =>
    match nth_error loggers (N.to_nat (ds_logger d)), ds_stmt d with
    | Some lg, Some st =>
      let lo := logger_formatter existing (dl_opts lg) in
      let '(w, t) := dispatch_event hoist v apply_spec lo (pick_sinks all (dl_sinks lg)) st (ds_level d) in
      let '(w', e') := run_stmts hoist v apply_spec all loggers (lo :: existing) r in
      (w ++ w', (match t with Some _ => 1%N | None => 0%N end) :: e')
    | _, _ =>
      let '(w', e') := run_stmts hoist v apply_spec all loggers existing r in (w', 8%N :: e')
    end
  end.

Definition enc_lines (ls : list bytes) : list N :=
  N.of_nat (length ls) :: flat_map enc_bytes ls.

(* the leading number h of a patd line: bit 0 = hoist, bit 1 = pv_esc, h / 4 = pv_bits (0 stands
   for 16, so that h = 0 / 1 is the pinned code without / with the hoisted declaration) *)
Definition patd_variant (h : N) : pvar :=
  {| pv_bits := (if N.eqb (h / 4) 0 then 16 else h / 4)%N; pv_esc := N.odd (h / 2) |}.

Definition patd_run_enc (l : list N) : list N :=
  match l with
  | h :: r0 =>
    match take_counted take_sink r0 with
    | Some (sinks0, r1) =>
      match take_counted take_logger r1 with
      | Some (loggers, r2) =>
        match take_counted take_dstmt r2 with
        | Some (sts, r3) =>
          let sinks := number_sinks 0 sinks0 in
          let '(w, errs) := run_stmts (N.odd h) (patd_variant h) (table_lookup (take_tbl r3)) sinks loggers [] sts in
          0%N :: N.of_nat (length errs) :: errs ++
          N.of_nat (length sinks) :: flat_map (fun s => enc_lines (lines_for (sk_id s) w)) sinks
        | None => bad_case
        end
      | None => bad_case
      end
    | None => bad_case
    end
  | [] => bad_case
  end.
