(* Entry points of the extracted model runner for M-NA (case protocol of harness/na.cpp).
   str := len byte*.
     nascan  <tpl:str>                 -> contains fmt:str nkeys (name:str spec:str)*
     naneeds nstmts (tpl:str nargs)*   -> per stmt: n (spec:str idx)*     the (spec, argument) pairs
                                          the model will ask the oracle for
     na <file:str> <logger:str> nstmts stmt*
        stmt := ts level lineno lvl:str tpl:str nargs (tag len payload..)* ntab (spec:str idx ok out:str)*
                                       -> per stmt: 1 err text:str nonempty npairs (k:str v:str)* json:str 1
   Every entry point takes the variant flags first (esc: NaJson.json_sink_line, skip: NaModel.scan_hole);
   the runner's "na" / "nascan" / "naneeds" are the pinned variants (esc = false, skip = true) and
   "nav e k ..." / "nascanv k ..." / "naneedsv k ..." take the flags as leading 0/1 arguments.
   The oracle apply_spec is the table carried by the statement (filled by the harness from the
   real fmtquill); an argument is (index, tag) and is string related when its tag is 2 (string)
   or 3 (char), as DynamicFormatArgStore::push_back decides. *)
From Coq Require Import List NArith Arith Bool.
From Quill Require Import Format.NaFmt Format.NaModel Format.NaJson.
Import ListNotations.
Local Open Scope N_scope.

Definition enc_str (s : str) : list N := N.of_nat (length s) :: s.

Definition take_str (l : list N) : str * list N :=
  match l with
  | n :: r => (firstn (N.to_nat n) r, skipn (N.to_nat n) r)
  | [] => ([], [])
  end.
Definition take_n (l : list N) : N * list N :=
  match l with n :: r => (n, r) | [] => (0, []) end.

Fixpoint take_many {A} (k : nat) (f : list N -> A * list N) (l : list N) : list A * list N :=
  match k with
  | O => ([], l)
  | S k' => let '(a, l1) := f l in let '(r, l2) := take_many k' f l1 in (a :: r, l2)
  end.

(* ---- nascan ---- *)
Definition enc_keys (ks : list (str * str)) : list N :=
  N.of_nat (length ks) :: flat_map (fun kv => enc_str (fst kv) ++ enc_str (snd kv)) ks.

Definition na_scan_enc (skip : bool) (l : list N) : list N :=
  let '(t, _) := take_str l in
  let '(f, ks) := scan skip t in
  (if contains_named t then 1 else 0) :: enc_str f ++ enc_keys ks.

(* ---- naneeds ---- *)
Definition parsed_specs (f : str) : list str :=
  match mf_parse f SLit with Some ps => field_specs ps | None => [] end.

Fixpoint index_from (i : nat) (l : list str) (nargs : nat) : list (str * nat) :=
  match l with
  | [] => []
  | x :: r => if Nat.ltb i nargs then (x, i) :: index_from (S i) r nargs else []
  end.

Definition needs (skip : bool) (t : str) (nargs : nat) : list (str * nat) :=
  if contains_named t then
    let '(f, names) := scan skip t in
    index_from 0 (parsed_specs f) nargs ++
    index_from 0 (parsed_specs (build_fmt (named_specs names nargs))) nargs
  else index_from 0 (parsed_specs t) nargs.

Definition na_needs_enc (skip : bool) (l : list N) : list N :=
  let '(n, l1) := take_n l in
  let '(stmts, _) := take_many (N.to_nat n)
     (fun l => let '(t, l') := take_str l in let '(k, l'') := take_n l' in ((t, N.to_nat k), l'')) l1 in
  flat_map (fun s => let nd := needs skip (fst s) (snd s) in
                     N.of_nat (length nd) :: flat_map (fun p => enc_str (fst p) ++ [N.of_nat (snd p)]) nd)
           stmts.

(* ---- na ---- *)
Definition targ := (nat * N)%type.                                   (* (index, tag) *)
Definition table := list ((str * nat) * option str).

Fixpoint tbl_lookup (tb : table) (sp : str) (i : nat) : option str :=
  match tb with
  | [] => None
  | ((sp', i'), r) :: rest =>
    if Nat.eqb i i' then (if str_eq_dec sp sp' then r else tbl_lookup rest sp i) else tbl_lookup rest sp i
  end.
Definition tbl_apply (tb : table) (sp : str) (a : targ) : option str := tbl_lookup tb sp (fst a).
Definition targ_is_string (a : targ) : bool := N.eqb (snd a) 2 || N.eqb (snd a) 3.

Record stmt := { s_ts : N; s_line : N; s_lvl : str; s_tpl : str; s_args : list targ; s_tbl : table }.

Definition take_arg (l : list N) : N * list N :=                     (* the payload is skipped *)
  let '(tag, l1) := take_n l in
  let '(_, l2) := take_str l1 in (tag, l2).

Definition take_tab (l : list N) : ((str * nat) * option str) * list N :=
  let '(sp, l1) := take_str l in
  let '(i, l2) := take_n l1 in
  let '(ok, l3) := take_n l2 in
  let '(out, l4) := take_str l3 in
  (((sp, N.to_nat i), if N.eqb ok 0 then None else Some out), l4).

Fixpoint number {A} (i : nat) (l : list A) : list (nat * A) :=
  match l with [] => [] | x :: r => (i, x) :: number (S i) r end.

Definition take_stmt (l : list N) : stmt * list N :=
  let '(ts, l1) := take_n l in
  let '(_, l2) := take_n l1 in                                       (* level id: harness only *)
  let '(ln, l3) := take_n l2 in
  let '(lvl, l4) := take_str l3 in
  let '(t, l5) := take_str l4 in
  let '(na, l6) := take_n l5 in
  let '(tags, l7) := take_many (N.to_nat na) take_arg l6 in
  let '(nt, l8) := take_n l7 in
  let '(tb, l9) := take_many (N.to_nat nt) take_tab l8 in
  ({| s_ts := ts; s_line := ln; s_lvl := lvl; s_tpl := t; s_args := number 0 tags; s_tbl := tb |}, l9).

Definition enc_result (esc : bool) (file logger : str) (s : stmt) (r : result) : list N :=
  let h := {| h_ts := decN (s_ts s); h_file := file; h_line := decN (s_line s);
              h_tid := [48]; h_logger := logger; h_level := s_lvl s |} in
  1 :: (match r_text r with Some x => 0 :: enc_str x | None => [1; 0] end) ++
  (match r_named r with Some (p :: ps) => 1 :: enc_keys (p :: ps) | _ => [0; 0] end) ++
  enc_str (json_sink_line esc h (s_tpl s) (r_named r)) ++ [1].

(* the cache is threaded through the statements of a case; each statement has its own oracle *)
Fixpoint run_stmts (esc skip : bool) (file logger : str) (c : cache) (l : list stmt) : list N :=
  match l with
  | [] => []
  | s :: r =>
    let '(c', x) := process targ (tbl_apply (s_tbl s)) targ_is_string skip c (s_tpl s) (s_args s) in
    enc_result esc file logger s x ++ run_stmts esc skip file logger c' r
  end.

Definition na_run_enc (esc skip : bool) (l : list N) : list N :=
  let '(file, l1) := take_str l in
  let '(logger, l2) := take_str l1 in
  let '(n, l3) := take_n l2 in
  let '(stmts, _) := take_many (N.to_nat n) take_stmt l3 in
  run_stmts esc skip file logger [] stmts.
