(* Proofs about the JSON sink line: shape, one line, recognition as a JSON object. *)
From Coq Require Import String Ascii.
From Coq Require Import List NArith Arith Bool Lia.
From Quill Require Import Format.NaFmt Format.NaJson.
Import ListNotations.

(* bytes of a Coq string literal: the member names of NaJson.v are spelled as intended *)
Fixpoint bytes_of (s : string) : str :=
  match s with
  | EmptyString => []
  | String a r => N_of_ascii a :: bytes_of r
  end.

Lemma member_names_spelled :
  k_timestamp = bytes_of "timestamp" /\ k_file_name = bytes_of "file_name" /\ k_line = bytes_of "line" /\
  k_thread_id = bytes_of "thread_id" /\ k_logger = bytes_of "logger" /\ k_log_level = bytes_of "log_level" /\
  k_message = bytes_of "message".
Proof. repeat split; reflexivity. Qed.

Definition no_nl (s : str) : bool := forallb (fun c => negb (N.eqb c NL)) s.
Definition pairs_ok (P : str -> bool) (l : list (str * str)) : bool :=
  forallb (fun kv => P (fst kv) && P (snd kv)) l.
Definition hdr_ok (P : str -> bool) (h : hdr) : bool :=
  P (h_ts h) && P (h_file h) && P (h_line h) && P (h_tid h) && P (h_logger h) && P (h_level h).
Definition opt_pairs (named : option (list (str * str))) : list (str * str) :=
  match named with Some l => l | None => [] end.

(* ---- shape ---------------------------------------------------------------------------------- *)
Definition members_of (h : hdr) (t : str) (named : option (list (str * str))) : list (str * str) :=
  fixed_members h t ++ opt_pairs named.

Definition mtext (kv : str * str) : str := member (fst kv) (snd kv).

Lemma join_pairs : forall (l : list (str * str)) (x : str * str),
  join [COMMA] (map mtext (x :: l)) = mtext x ++ json_pairs l.
Proof.
  induction l as [|[k v] l IH]; intros x.
  - simpl. now rewrite app_nil_r.
  - change (join [COMMA] (map mtext (x :: (k, v) :: l)))
      with (mtext x ++ [COMMA] ++ join [COMMA] (map mtext ((k, v) :: l))).
    rewrite IH. reflexivity.
Qed.

Lemma json_pairs_app : forall l1 l2, json_pairs (l1 ++ l2) = json_pairs l1 ++ json_pairs l2.
Proof.
  induction l1 as [|[k v] l1 IH]; intros l2; [reflexivity|].
  simpl. rewrite IH. now rewrite app_assoc.
Qed.

Lemma join_app_comma (l1 l2 : list (str * str)) (x : str * str) :
  join [COMMA] (map mtext ((x :: l1) ++ l2)) = join [COMMA] (map mtext (x :: l1)) ++ json_pairs l2.
Proof.
  change ((x :: l1) ++ l2) with (x :: (l1 ++ l2)).
  now rewrite !join_pairs, json_pairs_app, <- app_assoc.
Qed.

(* the line is '{' + the members separated by ',' + "}\n": the seven fixed members in their order,
   the message being the template with every newline replaced by a space, then the pairs *)
Theorem json_line_shape h t named :
  json_line h t named = LB :: join [COMMA] (map mtext (members_of h t named)) ++ [RB; NL].
Proof.
  unfold json_line, json_fixed, members_of. cbn [app]. f_equal.
  unfold fixed_members. rewrite (join_app_comma _ (opt_pairs named)). now rewrite <- app_assoc.
Qed.

Lemma no_newlines_spec t :
  length (no_newlines t) = length t /\ no_nl (no_newlines t) = true /\
  forall i, nth i (no_newlines t) 0%N = if N.eqb (nth i t 0%N) NL then SP else nth i t 0%N.
Proof.
  unfold no_newlines. split; [apply map_length|]. split.
  - induction t as [|c t IH]; simpl; auto. rewrite IH, andb_true_r.
    destruct (N.eqb c NL) eqn:E; [reflexivity|now rewrite E].
  - induction t as [|c t IH]; intros [|i]; simpl; auto.
Qed.

(* ---- one line ------------------------------------------------------------------------------- *)
Lemma no_nl_app a b : no_nl (a ++ b) = no_nl a && no_nl b.
Proof. apply forallb_app. Qed.

Lemma no_nl_member k v : no_nl k = true -> no_nl v = true -> no_nl (member k v) = true.
Proof.
  intros Hk Hv. unfold member. change (QUOTE :: k ++ [QUOTE; COLON; QUOTE] ++ v ++ [QUOTE])
    with ([QUOTE] ++ k ++ [QUOTE; COLON; QUOTE] ++ v ++ [QUOTE]).
  rewrite !no_nl_app, Hk, Hv. reflexivity.
Qed.

Lemma no_nl_join : forall l : list (str * str),
  pairs_ok no_nl l = true -> no_nl (join [COMMA] (map mtext l)) = true.
Proof.
  induction l as [|[k v] l IH]; intros H; [reflexivity|].
  simpl in H. apply andb_true_iff in H as [Hkv Hl]. apply andb_true_iff in Hkv as [Hk Hv].
  specialize (IH Hl). destruct l as [|y l].
  - simpl. now apply no_nl_member.
  - change (join [COMMA] (map mtext ((k, v) :: y :: l)))
      with (mtext (k, v) ++ [COMMA] ++ join [COMMA] (map mtext (y :: l))).
    rewrite !no_nl_app, IH. unfold mtext. simpl fst. simpl snd. rewrite (no_nl_member k v Hk Hv). reflexivity.
Qed.

Lemma fixed_no_nl h t : hdr_ok no_nl h = true -> pairs_ok no_nl (fixed_members h t) = true.
Proof.
  unfold hdr_ok. intros H. repeat (apply andb_true_iff in H as [H ?]).
  unfold fixed_members, pairs_ok. cbn [forallb fst snd].
  destruct (no_newlines_spec t) as [_ [Hn _]].
  repeat (apply andb_true_iff; split); auto.
Qed.

Lemma pairs_ok_app P a b : pairs_ok P (a ++ b) = pairs_ok P a && pairs_ok P b.
Proof. apply forallb_app. Qed.

(* exactly one '\n', the last byte *)
Theorem json_one_line h t named :
  hdr_ok no_nl h = true -> pairs_ok no_nl (opt_pairs named) = true ->
  exists body, json_line h t named = body ++ [NL] /\ no_nl body = true.
Proof.
  intros Hh Hp. exists (LB :: join [COMMA] (map mtext (members_of h t named)) ++ [RB]). split.
  - rewrite json_line_shape. change ((LB :: ?a) ++ ?b) with (LB :: (a ++ b)). now rewrite <- app_assoc.
  - change (LB :: join [COMMA] (map mtext (members_of h t named)) ++ [RB])
      with ([LB] ++ join [COMMA] (map mtext (members_of h t named)) ++ [RB]).
    rewrite !no_nl_app. rewrite no_nl_join; [reflexivity|].
    unfold members_of. now rewrite pairs_ok_app, (fixed_no_nl h t Hh), Hp.
Qed.

(* ---- recognised as JSON --------------------------------------------------------------------- *)
Lemma plain_facts c : plain c = true ->
  N.eqb c QUOTE = false /\ N.eqb c BSL = false /\ (N.ltb c 32 || N.leb 128 c) = false.
Proof.
  unfold plain. intros H. repeat (apply andb_true_iff in H as [H ?]).
  apply negb_true_iff in H0, H1. repeat split; auto.
  apply orb_false_iff. split.
  - apply N.ltb_ge. now apply N.leb_le.
  - apply N.leb_gt. now apply N.ltb_lt.
Qed.

Lemma jstring_plain : forall v rest,
  plain_str v = true -> jstring (v ++ QUOTE :: rest) = Some (v, rest).
Proof.
  induction v as [|c v IH]; intros rest H.
  - reflexivity.
  - simpl in H. apply andb_true_iff in H as [Hc Hv].
    destruct (plain_facts c Hc) as [H1 [H2 H3]].
    cbn [app jstring]. rewrite H1, H2, H3, (IH rest Hv). reflexivity.
Qed.

Lemma jmember_plain k v rest :
  plain_str k = true -> plain_str v = true -> jmember (member k v ++ rest) = Some ((k, v), rest).
Proof.
  intros Hk Hv. unfold member.
  replace ((QUOTE :: k ++ [QUOTE; COLON; QUOTE] ++ v ++ [QUOTE]) ++ rest)
    with (QUOTE :: k ++ QUOTE :: COLON :: QUOTE :: (v ++ QUOTE :: rest))
    by (simpl; rewrite <- !app_assoc; simpl; now rewrite <- app_assoc).
  unfold jmember. rewrite N.eqb_refl, (jstring_plain k _ Hk). simpl.
  now rewrite (jstring_plain v rest Hv).
Qed.

Lemma jmembers_plain : forall (l : list (str * str)) (x : str * str) (fuel : nat) (rest : str),
  pairs_ok plain_str (x :: l) = true -> length (x :: l) <= fuel ->
  jmembers fuel (join [COMMA] (map mtext (x :: l)) ++ RB :: rest) = Some (x :: l, rest).
Proof.
  induction l as [|y l IH]; intros [k v] fuel rest H Hf.
  - simpl in H. rewrite andb_true_r in H. apply andb_true_iff in H as [Hk Hv].
    destruct fuel as [|f]; [simpl in Hf; lia|].
    simpl join. unfold mtext. simpl fst. simpl snd. cbn [jmembers].
    rewrite (jmember_plain k v _ Hk Hv). now rewrite N.eqb_refl.
  - change (pairs_ok plain_str ((k, v) :: y :: l)) with
      ((plain_str k && plain_str v) && pairs_ok plain_str (y :: l)) in H.
    apply andb_true_iff in H as [Hkv Hl]. apply andb_true_iff in Hkv as [Hk Hv].
    destruct fuel as [|f]; [simpl in Hf; lia|].
    change (join [COMMA] (map mtext ((k, v) :: y :: l)))
      with (member k v ++ [COMMA] ++ join [COMMA] (map mtext (y :: l))).
    rewrite <- !app_assoc. cbn [jmembers]. rewrite (jmember_plain k v _ Hk Hv).
    cbn [app]. replace (N.eqb COMMA RB) with false by reflexivity. rewrite N.eqb_refl.
    rewrite (IH y f rest Hl) by (simpl in *; lia). reflexivity.
Qed.

Lemma member_len k v : 1 <= length (member k v).
Proof. unfold member. simpl. lia. Qed.

Lemma join_len : forall l : list (str * str), length l <= length (join [COMMA] (map mtext l)).
Proof.
  induction l as [|x l IH]; [simpl; lia|].
  destruct l as [|y l].
  - simpl. rewrite app_nil_r || idtac. pose proof (member_len (fst x) (snd x)). unfold mtext. simpl. lia.
  - change (join [COMMA] (map mtext (x :: y :: l)))
      with (mtext x ++ [COMMA] ++ join [COMMA] (map mtext (y :: l))).
    rewrite !app_length. simpl in *. lia.
Qed.

Lemma fixed_plain h t :
  hdr_ok plain_str h = true -> plain_str (no_newlines t) = true ->
  pairs_ok plain_str (fixed_members h t) = true.
Proof.
  unfold hdr_ok. intros H Ht. repeat (apply andb_true_iff in H as [H ?]).
  unfold fixed_members, pairs_ok. cbn [forallb fst snd].
  repeat (apply andb_true_iff; split); auto.
Qed.

(* when no byte of any field needs escaping the line is the JSON object with exactly these
   members, in this order *)
Theorem json_parses h t named :
  hdr_ok plain_str h = true -> plain_str (no_newlines t) = true ->
  pairs_ok plain_str (opt_pairs named) = true ->
  json_parse_line (json_line h t named) = Some (members_of h t named).
Proof.
  intros Hh Ht Hp. rewrite json_line_shape. unfold json_parse_line. rewrite N.eqb_refl.
  assert (Hm : pairs_ok plain_str (members_of h t named) = true).
  { unfold members_of. now rewrite pairs_ok_app, (fixed_plain h t Hh Ht), Hp. }
  remember (members_of h t named) as ms eqn:E.
  destruct ms as [|x ms]; [unfold members_of, fixed_members in E; discriminate|].
  change (join [COMMA] (map mtext (x :: ms)) ++ [RB; NL])
    with (join [COMMA] (map mtext (x :: ms)) ++ RB :: [NL]).
  rewrite (jmembers_plain ms x _ [NL] Hm).
  - now rewrite N.eqb_refl.
  - rewrite app_length. pose proof (join_len (x :: ms)). simpl in *. lia.
Qed.

(* ---- what the sink writes for the pairs it is handed (json_sink_line) --------------------------- *)
Lemma opt_pairs_esc esc named : opt_pairs (option_map (esc_pairs esc) named) = esc_pairs esc (opt_pairs named).
Proof. destruct named; reflexivity. Qed.

(* the members of the sink line: the fixed ones, then the handed pairs after _append_escaping_newlines *)
Definition sink_members_of (esc : bool) (h : hdr) (t : str) (named : option (list (str * str))) : list (str * str) :=
  fixed_members h t ++ esc_pairs esc (opt_pairs named).

Theorem json_sink_line_shape esc h t named :
  json_sink_line esc h t named = LB :: join [COMMA] (map mtext (sink_members_of esc h t named)) ++ [RB; NL].
Proof.
  unfold json_sink_line, sink_members_of. rewrite json_line_shape. unfold members_of. now rewrite opt_pairs_esc.
Qed.

Lemma esc_nl_no_nl s : no_nl (esc_nl s) = true.
Proof.
  induction s as [|c s IH]; [reflexivity|].
  change (esc_nl (c :: s)) with ((if N.eqb c NL then [BSL; 110%N] else [c]) ++ esc_nl s).
  rewrite no_nl_app, IH, andb_true_r. destruct (N.eqb c NL) eqn:E; [reflexivity|].
  simpl. now rewrite E.
Qed.

Lemma esc_pairs_no_nl l : pairs_ok no_nl (esc_pairs true l) = true.
Proof.
  induction l as [|[k v] l IH]; [reflexivity|].
  simpl. now rewrite !esc_nl_no_nl, IH.
Qed.

(* esc_nl is the identity on a text without a newline, and otherwise exactly: every newline becomes
   the two bytes '\' 'n', every other byte is kept *)
Lemma esc_nl_id s : no_nl s = true -> esc_nl s = s.
Proof.
  induction s as [|c s IH]; intros H; [reflexivity|].
  simpl in H. apply andb_true_iff in H as [Hc Hs]. apply negb_true_iff in Hc.
  change (esc_nl (c :: s)) with ((if N.eqb c NL then [BSL; 110%N] else [c]) ++ esc_nl s).
  now rewrite Hc, (IH Hs).
Qed.

Lemma esc_nl_app a b : esc_nl (a ++ b) = esc_nl a ++ esc_nl b.
Proof. unfold esc_nl. now rewrite flat_map_app. Qed.

Lemma esc_nl_cons_nl s : esc_nl (NL :: s) = BSL :: 110%N :: esc_nl s.
Proof. reflexivity. Qed.

(* the repaired sink (esc = true): exactly one '\n', the last byte, for EVERY list of pairs *)
Theorem json_sink_one_line h t named :
  hdr_ok no_nl h = true ->
  exists body, json_sink_line true h t named = body ++ [NL] /\ no_nl body = true.
Proof.
  intros Hh. unfold json_sink_line. apply json_one_line; [exact Hh|].
  rewrite opt_pairs_esc. apply esc_pairs_no_nl.
Qed.

Lemma plain_no_nl s : plain_str s = true -> no_nl s = true.
Proof.
  induction s as [|c s IH]; intros H; [reflexivity|].
  simpl in H. apply andb_true_iff in H as [Hc Hs]. simpl. rewrite (IH Hs), andb_true_r.
  apply negb_true_iff, N.eqb_neq. intros ->. discriminate.
Qed.

Lemma esc_pairs_plain esc l : pairs_ok plain_str l = true -> esc_pairs esc l = l.
Proof.
  destruct esc.
  - induction l as [|[k v] l IH]; intros H; [reflexivity|].
    simpl in H. apply andb_true_iff in H as [Hkv Hl]. apply andb_true_iff in Hkv as [Hk Hv].
    simpl. now rewrite (esc_nl_id k (plain_no_nl k Hk)), (esc_nl_id v (plain_no_nl v Hv)), (IH Hl).
  - intros _. induction l as [|[k v] l IH]; [reflexivity|]. simpl. now rewrite IH.
Qed.

(* both variants: when no byte of any field needs escaping the sink line is the JSON object with
   the fixed members and the handed pairs *)
Theorem json_sink_parses esc h t named :
  hdr_ok plain_str h = true -> plain_str (no_newlines t) = true ->
  pairs_ok plain_str (opt_pairs named) = true ->
  json_parse_line (json_sink_line esc h t named) = Some (members_of h t named).
Proof.
  intros Hh Ht Hp. unfold json_sink_line.
  assert (E : option_map (esc_pairs esc) named = named).
  { destruct named as [l|]; [|reflexivity]. simpl in *. now rewrite (esc_pairs_plain esc l Hp). }
  rewrite E. now apply json_parses.
Qed.

(* the pinned sink (esc = false): one line when no key or value holds a newline *)
Theorem json_one_line_pinned h t named :
  hdr_ok no_nl h = true -> pairs_ok no_nl (opt_pairs named) = true ->
  exists body, json_sink_line false h t named = body ++ [NL] /\ no_nl body = true.
Proof.
  intros Hh Hp. unfold json_sink_line. apply json_one_line; [exact Hh|].
  rewrite opt_pairs_esc. destruct named as [l|]; [|reflexivity]. simpl in *.
  replace (esc_pairs false l) with l; [exact Hp|].
  clear Hp. induction l as [|[k v] l IH]; [reflexivity|]. simpl. now rewrite <- IH.
Qed.

(* ---- the repaired sink line as JSON when keys / values hold newlines ---------------------------- *)
(* [raw], written between quotes, is a JSON string denoting [dec] *)
Definition denotes (raw dec : str) : Prop := forall rest, jstring (raw ++ QUOTE :: rest) = Some (dec, rest).

Lemma denotes_plain v : plain_str v = true -> denotes v v.
Proof. intros H rest. now apply jstring_plain. Qed.

(* a byte that needs no escaping, or a newline *)
Definition plain_or_nl (c : N) : bool := plain c || N.eqb c NL.
Definition plain_nl_str (s : str) : bool := forallb plain_or_nl s.

Lemma denotes_esc_nl : forall v, plain_nl_str v = true -> denotes (esc_nl v) v.
Proof.
  induction v as [|c v IH]; intros H rest; [reflexivity|].
  simpl in H. apply andb_true_iff in H as [Hc Hv]. specialize (IH Hv rest).
  destruct (N.eqb c NL) eqn:E.
  - apply N.eqb_eq in E. subst c. rewrite esc_nl_cons_nl. cbn [app jstring].
    replace (N.eqb BSL QUOTE) with false by reflexivity. rewrite N.eqb_refl.
    replace (unesc 110) with (Some NL) by reflexivity. now rewrite IH.
  - unfold plain_or_nl in Hc. rewrite E, orb_false_r in Hc.
    destruct (plain_facts c Hc) as [H1 [H2 H3]].
    change (esc_nl (c :: v)) with ((if N.eqb c NL then [BSL; 110%N] else [c]) ++ esc_nl v).
    rewrite E. cbn [app jstring]. now rewrite H1, H2, H3, IH.
Qed.

Lemma jmember_denotes rk dk rv dv rest :
  denotes rk dk -> denotes rv dv -> jmember (member rk rv ++ rest) = Some ((dk, dv), rest).
Proof.
  intros Hk Hv. unfold member.
  replace ((QUOTE :: rk ++ [QUOTE; COLON; QUOTE] ++ rv ++ [QUOTE]) ++ rest)
    with (QUOTE :: rk ++ QUOTE :: COLON :: QUOTE :: (rv ++ QUOTE :: rest))
    by (simpl; rewrite <- !app_assoc; simpl; now rewrite <- app_assoc).
  unfold jmember. rewrite N.eqb_refl, Hk. simpl. now rewrite Hv.
Qed.

Definition pair_denotes (raw dec : str * str) : Prop :=
  denotes (fst raw) (fst dec) /\ denotes (snd raw) (snd dec).

Lemma jmembers_denotes : forall (raws decs : list (str * str)) (x y : str * str) (fuel : nat) (rest : str),
  Forall2 pair_denotes (x :: raws) (y :: decs) -> length (x :: raws) <= fuel ->
  jmembers fuel (join [COMMA] (map mtext (x :: raws)) ++ RB :: rest) = Some (y :: decs, rest).
Proof.
  induction raws as [|x2 raws IH]; intros decs [rk rv] [dk dv] fuel rest H Hf;
    inversion H as [|? ? ? ? [Hk Hv] Hr]; subst; simpl in Hk, Hv.
  - inversion Hr; subst. destruct fuel as [|f]; [simpl in Hf; lia|].
    simpl join. unfold mtext. simpl fst. simpl snd. cbn [jmembers].
    rewrite (jmember_denotes rk dk rv dv _ Hk Hv). now rewrite N.eqb_refl.
  - destruct decs as [|y2 decs]; [inversion Hr|].
    destruct fuel as [|f]; [simpl in Hf; lia|].
    change (join [COMMA] (map mtext ((rk, rv) :: x2 :: raws)))
      with (member rk rv ++ [COMMA] ++ join [COMMA] (map mtext (x2 :: raws))).
    rewrite <- !app_assoc. cbn [jmembers]. rewrite (jmember_denotes rk dk rv dv _ Hk Hv).
    cbn [app]. replace (N.eqb COMMA RB) with false by reflexivity. rewrite N.eqb_refl.
    rewrite (IH decs x2 y2 f rest Hr) by (simpl in *; lia). reflexivity.
Qed.

Lemma Forall2_plain_self : forall l : list (str * str),
  pairs_ok plain_str l = true -> Forall2 pair_denotes l l.
Proof.
  induction l as [|[k v] l IH]; intros H; [constructor|].
  simpl in H. apply andb_true_iff in H as [Hkv Hl]. apply andb_true_iff in Hkv as [Hk Hv].
  constructor; [split; simpl; now apply denotes_plain|now apply IH].
Qed.

Lemma Forall2_esc_pairs : forall l : list (str * str),
  pairs_ok plain_nl_str l = true -> Forall2 pair_denotes (esc_pairs true l) l.
Proof.
  induction l as [|[k v] l IH]; intros H; [constructor|].
  simpl in H. apply andb_true_iff in H as [Hkv Hl]. apply andb_true_iff in Hkv as [Hk Hv].
  constructor; [split; simpl; now apply denotes_esc_nl|now apply IH].
Qed.

(* the repaired sink (esc = true): when the fixed fields need no escaping and the keys and values
   hold only bytes that need none or newlines, the line is the JSON object whose members are the
   fixed ones and the ORIGINAL keys and values (the newlines are back after decoding) *)
Theorem json_sink_parses_nl h t named :
  hdr_ok plain_str h = true -> plain_str (no_newlines t) = true ->
  pairs_ok plain_nl_str (opt_pairs named) = true ->
  json_parse_line (json_sink_line true h t named) = Some (members_of h t named).
Proof.
  intros Hh Ht Hp. rewrite json_sink_line_shape. unfold json_parse_line. rewrite N.eqb_refl.
  assert (HF : Forall2 pair_denotes (sink_members_of true h t named) (members_of h t named)).
  { unfold sink_members_of, members_of. apply Forall2_app.
    - apply Forall2_plain_self, fixed_plain; assumption.
    - now apply Forall2_esc_pairs. }
  remember (sink_members_of true h t named) as raws eqn:Er.
  remember (members_of h t named) as decs eqn:Ed.
  destruct raws as [|x raws]; [unfold sink_members_of, fixed_members in Er; discriminate|].
  destruct decs as [|y decs]; [inversion HF|].
  change (join [COMMA] (map mtext (x :: raws)) ++ [RB; NL])
    with (join [COMMA] (map mtext (x :: raws)) ++ RB :: [NL]).
  rewrite (jmembers_denotes raws decs x y _ [NL] HF).
  - now rewrite N.eqb_refl.
  - rewrite app_length. pose proof (join_len (x :: raws)). simpl in *. lia.
Qed.
