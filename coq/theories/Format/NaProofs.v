(* Proofs about M-NA: scan of a printed template, _contains_named_args, mini-fmt on the positional
   string, the structured pairs, the template cache. *)
From Coq Require Import List NArith Arith Bool Lia.
From Quill Require Import Format.NaFmt Format.NaModel.
Import ListNotations.

(* ================================================================================================ *)
(* lists and searching                                                                              *)
(* ================================================================================================ *)
Lemma skipn_app_len {A} (pre s : list A) : skipn (length pre) (pre ++ s) = s.
Proof. induction pre; simpl; auto. Qed.

Lemma firstn_app_len {A} (pre s : list A) : firstn (length pre) (pre ++ s) = pre.
Proof. induction pre; simpl; auto. now rewrite IHpre. Qed.

Lemma skipn_app_le {A} (k : nat) (pre s : list A) :
  k <= length pre -> skipn k (pre ++ s) = skipn k pre ++ s.
Proof.
  revert k; induction pre; intros k Hk; simpl in *.
  - assert (k = 0) by lia; subst; reflexivity.
  - destruct k; simpl; auto. apply IHpre; lia.
Qed.

Definition notc (c : N) (t : str) : bool := forallb (fun x => negb (N.eqb x c)) t.

Lemma find_hd c s : find c (c :: s) = Some 0.
Proof. simpl. now rewrite N.eqb_refl. Qed.

Lemma find_notin c t s :
  notc c t = true -> find c (t ++ s) = option_map (Nat.add (length t)) (find c s).
Proof.
  induction t as [|x t IH]; simpl; intros H.
  - destruct (find c s); reflexivity.
  - apply andb_true_iff in H as [Hx Ht]. apply negb_true_iff in Hx. rewrite Hx.
    rewrite (IH Ht). destruct (find c s); reflexivity.
Qed.

Lemma find_notin_nil c t : notc c t = true -> find c t = None.
Proof. intros H. rewrite <- (app_nil_r t). rewrite (find_notin c t [] H). reflexivity. Qed.

Lemma find_from_at c s pre rest p :
  s = pre ++ rest -> p = length pre ->
  find_from c s p = option_map (Nat.add p) (find c rest).
Proof. intros -> ->. unfold find_from. now rewrite skipn_app_len. Qed.

Lemma nobrace_split t : nobrace t = true -> notc LB t = true /\ notc RB t = true.
Proof.
  unfold nobrace, notc. induction t as [|x t IH]; simpl; auto.
  intros H. apply andb_true_iff in H as [Hx Ht]. apply andb_true_iff in Hx as [H1 H2].
  destruct (IH Ht) as [A B]. rewrite H1, H2, A, B. auto.
Qed.

Lemma nobrace_app a b : nobrace (a ++ b) = nobrace a && nobrace b.
Proof. unfold nobrace. apply forallb_app. Qed.

(* ================================================================================================ *)
(* scan (print tpl)                                                                                 *)
(* ================================================================================================ *)
Definition finish (s : str) (st : scan_st) : str * list (str * str) :=
  (fmt_str st ++ skipn (cur_pos st) s, keys st).

Lemma scan_unfold skip s :
  scan skip s = finish s (scan_loop skip (S (length s)) s (find_from LB s 0)
                               {| cur_pos := 0; fmt_str := []; keys := [] |}).
Proof. reflexivity. Qed.

(* the first byte a token list prints is not '}' unless it starts with an escaped "}}" *)
Definition starts_escr (t : tpl) : bool := match t with EscR :: _ => true | _ => false end.

Lemma print_not_rb r :
  wf_tpl r = true -> starts_escr r = false -> find RB (print r) <> Some 0.
Proof.
  destruct r as [|a r]; simpl; intros Hwf Hs; [discriminate|].
  apply andb_true_iff in Hwf as [Ha _].
  destruct a as [t| | |n sp]; simpl in *; try discriminate.
  - apply andb_true_iff in Ha as [Hnb Hlen].
    destruct t as [|x t]; simpl in *; [discriminate|].
    apply andb_true_iff in Hnb as [Hx _]. apply andb_true_iff in Hx as [_ Hx].
    apply negb_true_iff in Hx. rewrite Hx. destruct (find RB _); discriminate.
  - destruct (find RB _); discriminate.
  - destruct (find RB _); discriminate.
Qed.

Lemma find_not0_shift c rest p o :
  find c rest <> Some 0 -> option_map (Nat.add (p + 1)) (find c rest) = Some o -> Nat.eqb (o - 1) p = false.
Proof.
  intros H E. destruct (find c rest) as [k|]; simpl in E; [|discriminate].
  injection E as <-. destruct k; [congruence|]. apply Nat.eqb_neq. lia.
Qed.

(* pieces of the Hole case *)
Lemma colon_split n sp :
  nocolon n = true -> split_colon (n ++ spec_text sp) = (n, spec_text sp).
Proof.
  intros Hn. assert (Hc : notc COLON n = true) by exact Hn. unfold split_colon.
  rewrite (find_notin COLON n _ Hc). destruct sp as [x|]; simpl.
  - rewrite Nat.add_0_r. now rewrite firstn_app_len, skipn_app_len.
  - now rewrite app_nil_r.
Qed.

(* for the repaired scanner (skip = false) on every well-formed template; for the pinned one
   (skip = true) when no escaped "}}" directly follows a placeholder *)
Lemma scan_loop_print (skip : bool) : forall (r : tpl) (pre : str) (st : scan_st) (fuel : nat),
  wf_tpl r = true -> (skip = true -> ok_adj r = true) ->
  cur_pos st <= length pre -> length r < fuel ->
  finish (pre ++ print r) (scan_loop skip fuel (pre ++ print r) (find_from LB (pre ++ print r) (length pre)) st)
  = (fmt_str st ++ skipn (cur_pos st) pre ++ positional r, keys st ++ holes r).
Proof.
  induction r as [|a r IH]; intros pre st fuel Hwf Hadj0 Hcur Hfuel.
  - change (print []) with (@nil N). rewrite app_nil_r.
    rewrite (find_from_at LB pre pre [] (length pre)) by (now rewrite ?app_nil_r).
    simpl. destruct fuel; simpl; unfold finish; now rewrite !app_nil_r.
  - simpl in Hwf. apply andb_true_iff in Hwf as [Ha Hwf].
    assert (Hadj1 : skip = true -> match a, r with Hole _ _, EscR :: _ => false | _, _ => true end = true).
    { intros E. specialize (Hadj0 E). simpl in Hadj0. now apply andb_true_iff in Hadj0 as [H1 _]. }
    assert (Hadj : skip = true -> ok_adj r = true).
    { intros E. specialize (Hadj0 E). simpl in Hadj0. now apply andb_true_iff in Hadj0 as [_ H2]. }
    clear Hadj0.
    destruct a as [t| | |n sp].
    + (* Text *)
      simpl in Ha. apply andb_true_iff in Ha as [Hnb _].
      destruct (nobrace_split t Hnb) as [HL _].
      change (print (Text t :: r)) with (t ++ print r).
      assert (E : find_from LB (pre ++ t ++ print r) (length pre)
                  = find_from LB ((pre ++ t) ++ print r) (length (pre ++ t))).
      { rewrite (find_from_at LB _ pre (t ++ print r) (length pre)) by auto.
        rewrite (find_from_at LB _ (pre ++ t) (print r) (length (pre ++ t))) by auto.
        rewrite (find_notin LB t _ HL), app_length.
        destruct (find LB (print r)); simpl; f_equal; lia. }
      rewrite E. rewrite (app_assoc pre t (print r)).
      rewrite (IH (pre ++ t) st fuel Hwf Hadj) by (rewrite ?app_length; simpl in *; lia).
      rewrite (skipn_app_le _ pre t Hcur). simpl. now rewrite <- !app_assoc.
    + (* EscL *)
      change (print (EscL :: r)) with ([LB; LB] ++ print r).
      rewrite (find_from_at LB _ pre ([LB; LB] ++ print r) (length pre)) by auto.
      change ([LB; LB] ++ print r) with (LB :: LB :: print r).
      rewrite find_hd. simpl option_map. rewrite Nat.add_0_r.
      destruct fuel as [|f]; [simpl in Hfuel; lia|].
      cbn [scan_loop].
      rewrite (find_from_at LB (pre ++ LB :: LB :: print r) (pre ++ [LB]) (LB :: print r) (length pre + 1))
        by (rewrite <- ?app_assoc, ?app_length; simpl; auto).
      rewrite find_hd. simpl option_map. rewrite Nat.add_0_r.
      replace (Nat.eqb (length pre + 1 - 1) (length pre)) with true by (symmetry; apply Nat.eqb_eq; lia).
      replace (pre ++ LB :: LB :: print r) with ((pre ++ [LB; LB]) ++ print r) by (now rewrite <- app_assoc).
      replace (length pre + 1 + 1) with (length (pre ++ [LB; LB])) by (rewrite app_length; simpl; lia).
      rewrite (IH (pre ++ [LB; LB]) st f Hwf Hadj) by (rewrite ?app_length; simpl in *; lia).
      rewrite (skipn_app_le _ pre [LB; LB] Hcur). simpl. now rewrite <- !app_assoc.
    + (* EscR *)
      change (print (EscR :: r)) with ([RB; RB] ++ print r).
      assert (E : find_from LB (pre ++ [RB; RB] ++ print r) (length pre)
                  = find_from LB ((pre ++ [RB; RB]) ++ print r) (length (pre ++ [RB; RB]))).
      { rewrite (find_from_at LB _ pre ([RB; RB] ++ print r) (length pre)) by auto.
        rewrite (find_from_at LB _ (pre ++ [RB; RB]) (print r) (length (pre ++ [RB; RB]))) by auto.
        rewrite (find_notin LB [RB; RB] _ eq_refl), app_length.
        destruct (find LB (print r)); simpl; f_equal; lia. }
      rewrite E. rewrite (app_assoc pre [RB; RB] (print r)).
      rewrite (IH (pre ++ [RB; RB]) st fuel Hwf Hadj) by (rewrite ?app_length; simpl in *; lia).
      rewrite (skipn_app_le _ pre [RB; RB] Hcur). simpl. now rewrite <- !app_assoc.
    + (* Hole *)
      simpl in Ha. apply andb_true_iff in Ha as [Ha Hsp]. apply andb_true_iff in Ha as [Hn Hnc].
      set (body := n ++ spec_text sp).
      assert (Hbody : nobrace body = true) by (unfold body; rewrite nobrace_app, Hn, Hsp; reflexivity).
      destruct (nobrace_split body Hbody) as [HbL HbR].
      assert (Hstart : skip = true -> starts_escr r = false).
      { intros E. specialize (Hadj1 E). destruct r as [|b r']; [reflexivity|]. destruct b; try reflexivity. discriminate. }
      replace (print (Hole n sp :: r)) with ((LB :: body ++ [RB]) ++ print r)
        by (unfold body; simpl; now rewrite <- !app_assoc).
      set (s := pre ++ (LB :: body ++ [RB]) ++ print r).
      assert (Es1 : s = pre ++ LB :: (body ++ RB :: print r)).
      { unfold s. simpl. now rewrite <- app_assoc. }
      assert (Es2 : s = (pre ++ [LB]) ++ (body ++ RB :: print r)).
      { rewrite Es1. now rewrite <- app_assoc. }
      assert (Es3 : s = (pre ++ LB :: body) ++ RB :: print r).
      { rewrite Es1. rewrite <- app_assoc. reflexivity. }
      assert (Es4 : s = (pre ++ LB :: body ++ [RB]) ++ print r).
      { unfold s. now rewrite <- app_assoc. }
      rewrite (find_from_at LB s pre (LB :: body ++ RB :: print r) (length pre) Es1 eq_refl).
      rewrite find_hd. simpl option_map. rewrite Nat.add_0_r.
      destruct fuel as [|f]; [simpl in Hfuel; lia|].
      cbn [scan_loop].
      (* not an escaped "{{" *)
      assert (Hesc : match find_from LB s (length pre + 1) with
                     | Some o2 => if Nat.eqb (o2 - 1) (length pre) then Some o2 else None
                     | None => None end = None).
      { rewrite (find_from_at LB s (pre ++ [LB]) (body ++ RB :: print r) (length pre + 1) Es2)
          by (rewrite app_length; simpl; lia).
        destruct (option_map _ _) as [o2|] eqn:E; [|reflexivity].
        erewrite find_not0_shift; [reflexivity| |exact E].
        rewrite (find_notin LB body _ HbL). destruct body as [|x b]; simpl.
        - destruct (find LB (print r)); simpl; discriminate.
        - destruct (find LB (print r)); simpl; discriminate. }
      rewrite Hesc.
      (* the close bracket *)
      set (c0 := length pre + 1 + length body).
      assert (Hc0 : find_from RB s (length pre + 1) = Some c0).
      { rewrite (find_from_at RB s (pre ++ [LB]) (body ++ RB :: print r) (length pre + 1) Es2)
          by (rewrite app_length; simpl; lia).
        rewrite (find_notin RB body _ HbR), find_hd. simpl. unfold c0. f_equal. lia. }
      assert (Hclose : close_of skip s (length pre) = Some c0).
      { unfold close_of. rewrite Hc0. destruct skip; [|reflexivity]. specialize (Hstart eq_refl).
        cbn [scan_close].
        rewrite (find_from_at RB s (pre ++ LB :: body ++ [RB]) (print r) (c0 + 1) Es4)
          by (unfold c0; rewrite !app_length; simpl; rewrite app_length; simpl; lia).
        destruct (option_map _ _) as [c2|] eqn:E; [|reflexivity].
        erewrite find_not0_shift; [reflexivity| |exact E].
        now apply print_not_rb. }
      unfold scan_hole. rewrite Hclose.
      assert (Hinside : substr s (length pre + 1) (c0 - (length pre + 1)) = body).
      { unfold substr. rewrite Es2.
        replace (length pre + 1) with (length (pre ++ [LB])) by (rewrite app_length; simpl; lia).
        rewrite skipn_app_len. unfold c0.
        replace (length pre + 1 + length body - length (pre ++ [LB])) with (length body)
          by (rewrite app_length; simpl; lia).
        apply firstn_app_len. }
      rewrite Hinside. pose proof (colon_split n sp Hnc) as Hcs. fold body in Hcs. rewrite Hcs.
      assert (Hpend : substr s (cur_pos st) (length pre - cur_pos st) = skipn (cur_pos st) pre).
      { unfold substr. rewrite Es1. rewrite (skipn_app_le _ pre _ Hcur).
        replace (length pre - cur_pos st) with (length (skipn (cur_pos st) pre))
          by (rewrite skipn_length; lia).
        apply firstn_app_len. }
      rewrite Hpend.
      (* next open bracket: from the close bracket = from the end of the token *)
      assert (Hnext : find_from LB s c0 = find_from LB s (c0 + 1)).
      { rewrite (find_from_at LB s (pre ++ LB :: body) (RB :: print r) c0 Es3)
          by (unfold c0; rewrite app_length; simpl; lia).
        rewrite (find_from_at LB s (pre ++ LB :: body ++ [RB]) (print r) (c0 + 1) Es4)
          by (unfold c0; rewrite !app_length; simpl; rewrite app_length; simpl; lia).
        simpl. destruct (find LB (print r)); simpl; f_equal; lia. }
      rewrite Hnext.
      assert (Hlen : c0 + 1 = length (pre ++ LB :: body ++ [RB])).
      { unfold c0. rewrite !app_length. simpl. rewrite app_length. simpl. lia. }
      rewrite Hlen. rewrite Es4.
      rewrite (IH (pre ++ LB :: body ++ [RB]) _ f Hwf Hadj) by (simpl in *; lia).
      cbn [cur_pos fmt_str keys]. rewrite skipn_all. simpl.
      rewrite <- !app_assoc. simpl. f_equal. now rewrite <- !app_assoc.
Qed.

Lemma wf_tok_len a : wf_tok a = true -> 1 <= length (print_tok a).
Proof.
  destruct a as [t| | |n sp]; simpl; intros H; try lia.
  apply andb_true_iff in H as [_ H]. destruct t; simpl in *; [discriminate|lia].
Qed.

Lemma wf_tpl_len r : wf_tpl r = true -> length r <= length (print r).
Proof.
  induction r as [|a r IH]; simpl; intros H; auto.
  apply andb_true_iff in H as [Ha Hr]. rewrite app_length.
  pose proof (wf_tok_len a Ha). specialize (IH Hr). lia.
Qed.

Theorem scan_print_gen (skip : bool) (r : tpl) :
  wf_tpl r = true -> (skip = true -> ok_adj r = true) -> scan skip (print r) = (positional r, holes r).
Proof.
  intros Hwf Hadj. rewrite scan_unfold.
  pose proof (scan_loop_print skip r [] {| cur_pos := 0; fmt_str := []; keys := [] |}
                              (S (length (print r))) Hwf Hadj) as H.
  simpl in H. apply H; auto. pose proof (wf_tpl_len r Hwf). lia.
Qed.

(* the repaired scanner: every well-formed template *)
Theorem scan_print (r : tpl) : wf_tpl r = true -> scan false (print r) = (positional r, holes r).
Proof. intros Hwf. apply scan_print_gen; [exact Hwf|discriminate]. Qed.

(* the pinned scanner: templates without an escaped "}}" directly after a placeholder *)
Theorem scan_print_pinned (r : tpl) :
  wf_tpl r = true -> ok_adj r = true -> scan true (print r) = (positional r, holes r).
Proof. intros Hwf Hadj. apply scan_print_gen; auto. Qed.

(* ================================================================================================ *)
(* the fuel of the re-scanning loops is never exhausted (on ANY byte string)                        *)
(* ================================================================================================ *)
Lemma find_bound c : forall s q, find c s = Some q -> q < length s.
Proof.
  induction s as [|x s IH]; intros q H; simpl in *; [discriminate|].
  destruct (N.eqb x c); [injection H as <-; lia|].
  destruct (find c s) as [k|]; simpl in H; [|discriminate]. injection H as <-. specialize (IH k eq_refl). lia.
Qed.

Lemma find_from_bound c s p q : find_from c s p = Some q -> p <= q /\ q < length s.
Proof.
  unfold find_from. intros H. destruct (find c (skipn p s)) as [k|] eqn:E; simpl in H; [|discriminate].
  injection H as <-. apply find_bound in E. rewrite skipn_length in E. lia.
Qed.

Lemma scan_close_none f s : scan_close f s None = None.
Proof. destruct f; reflexivity. Qed.

Lemma scan_close_fuel : forall f1 f2 s c,
  length s - c < f1 -> length s - c < f2 -> scan_close f1 s (Some c) = scan_close f2 s (Some c).
Proof.
  induction f1 as [|f1 IH]; intros f2 s c H1 H2; [lia|]. destruct f2 as [|f2]; [lia|].
  cbn [scan_close]. destruct (find_from RB s (c + 1)) as [c2|] eqn:E; [|reflexivity].
  destruct (Nat.eqb (c2 - 1) c); [|reflexivity].
  destruct (find_from RB s (c2 + 1)) as [c'|] eqn:E'; [|now rewrite !scan_close_none].
  apply find_from_bound in E, E'. apply IH; lia.
Qed.

Lemma scan_close_ge : forall f s c0 c, scan_close f s (Some c0) = Some c -> c0 <= c.
Proof.
  induction f as [|f IH]; intros s c0 c H; [discriminate|]. cbn [scan_close] in H.
  destruct (find_from RB s (c0 + 1)) as [c2|] eqn:E; [|injection H as <-; lia].
  destruct (Nat.eqb (c2 - 1) c0); [|injection H as <-; lia].
  destruct (find_from RB s (c2 + 1)) as [c'|] eqn:E'; [|rewrite scan_close_none in H; discriminate].
  apply find_from_bound in E, E'. apply IH in H. lia.
Qed.

Lemma scan_loop_none skip f s st : scan_loop skip f s None st = st.
Proof. destruct f; reflexivity. Qed.

Lemma close_of_next skip s o c : close_of skip s o = Some c -> o < c.
Proof.
  unfold close_of. destruct (find_from RB s (o + 1)) as [c0|] eqn:E.
  - apply find_from_bound in E. destruct skip.
    + intros E1. apply scan_close_ge in E1. lia.
    + intros H. injection H as <-. lia.
  - destruct skip; [rewrite scan_close_none|]; discriminate.
Qed.

Lemma scan_hole_next skip s o st c st' :
  scan_hole skip s o st = (Some c, st') -> o < c.
Proof.
  unfold scan_hole. destruct (close_of skip s o) as [c1|] eqn:E1; [|intros H; discriminate].
  destruct (split_colon _) as [name syntax]. intros H. injection H as <- _.
  now apply close_of_next in E1.
Qed.

Lemma scan_loop_fuel skip : forall f1 f2 s o st,
  length s - o < f1 -> length s - o < f2 -> scan_loop skip f1 s (Some o) st = scan_loop skip f2 s (Some o) st.
Proof.
  induction f1 as [|f1 IH]; intros f2 s o st H1 H2; [lia|]. destruct f2 as [|f2]; [lia|].
  cbn [scan_loop].
  destruct (match find_from LB s (o + 1) with
            | Some o2 => if Nat.eqb (o2 - 1) o then Some o2 else None
            | None => None end) as [o2|] eqn:Eesc.
  - destruct (find_from LB s (o + 1)) as [o2'|] eqn:E; [|discriminate].
    destruct (Nat.eqb (o2' - 1) o); [|discriminate]. injection Eesc as <-.
    destruct (find_from LB s (o2' + 1)) as [o'|] eqn:E'; [|now rewrite !scan_loop_none].
    apply find_from_bound in E, E'. apply IH; lia.
  - destruct (scan_hole skip s o st) as [[c|] st'] eqn:Eh; [|now rewrite !scan_loop_none].
    apply scan_hole_next in Eh.
    destruct (find_from LB s c) as [o'|] eqn:E'; [|now rewrite !scan_loop_none].
    apply find_from_bound in E'. apply IH; lia.
Qed.

(* [scan] gives the same result with any larger fuel: the bound length+1 is never reached *)
Theorem scan_fuel_irrelevant skip s f st :
  length s < f ->
  scan_loop skip f s (find_from LB s 0) st = scan_loop skip (S (length s)) s (find_from LB s 0) st.
Proof.
  intros Hf. destruct (find_from LB s 0) as [o|]; [|now rewrite !scan_loop_none].
  apply scan_loop_fuel; lia.
Qed.

Lemma cn_inner_len : forall s cnt, length (fst (cn_inner s cnt)) <= length s.
Proof.
  fix IH 1. intros s cnt. destruct s as [|c t]; simpl; auto.
  destruct (N.eqb c RB).
  - destruct t as [|d t']; simpl; auto.
    destruct (N.eqb d RB); simpl; [|lia]. specialize (IH t' (S cnt)). lia.
  - specialize (IH t (S cnt)). lia.
Qed.

Theorem contains_fuel_irrelevant : forall f1 f2 s found,
  length s <= f1 -> length s <= f2 -> cn_outer f1 s found = cn_outer f2 s found.
Proof.
  induction f1 as [|f1 IH]; intros f2 s found H1 H2.
  - destruct s; [|simpl in H1; lia]. destruct f2; reflexivity.
  - destruct s as [|c t]; [destruct f2; reflexivity|]. destruct f2 as [|f2]; [simpl in H2; lia|].
    simpl in H1, H2. cbn [cn_outer]. destruct (N.eqb c LB).
    + destruct t as [|fc t']; [reflexivity|]. destruct (N.eqb fc LB).
      * apply IH; simpl in *; lia.
      * pose proof (cn_inner_len (fc :: t') 0) as L.
        destruct (cn_inner (fc :: t') 0) as [rest cnt]. simpl in L.
        apply IH; destruct rest; simpl in *; lia.
    + apply IH; lia.
Qed.

(* ================================================================================================ *)
(* _contains_named_args                                                                             *)
(* ================================================================================================ *)
Fixpoint has_hole (t : tpl) : bool :=
  match t with [] => false | Hole _ _ :: _ => true | _ :: r => has_hole r end.

(* the first placeholder (if there is one) has a name starting with a letter *)
Fixpoint first_hole_named (t : tpl) : bool :=
  match t with
  | [] => true
  | Hole n _ :: _ => match n with c :: _ => is_letter c | [] => false end
  | _ :: r => first_hole_named r
  end.

Lemma cn_outer_true : forall fuel s, cn_outer fuel s true = true.
Proof.
  induction fuel as [|f IH]; intros s; simpl; auto.
  destruct s as [|c t]; auto.
  destruct (N.eqb c LB); auto.
  destruct t as [|fc t']; auto.
  destruct (N.eqb fc LB); auto.
  destruct (cn_inner (fc :: t') 0) as [rest cnt]. simpl. apply IH.
Qed.

Lemma cn_outer_skip : forall t s fuel found,
  notc LB t = true -> length t + length s <= fuel ->
  cn_outer fuel (t ++ s) found = cn_outer (fuel - length t) s found.
Proof.
  induction t as [|x t IH]; intros s fuel found Ht Hf; simpl in *.
  - now rewrite Nat.sub_0_r.
  - apply andb_true_iff in Ht as [Hx Ht]. apply negb_true_iff in Hx.
    destruct fuel as [|f]; [lia|]. simpl. rewrite Hx. apply IH; auto. lia.
Qed.

Lemma cn_inner_mono : forall s cnt, cnt <= snd (cn_inner s cnt).
Proof.
  fix IH 1. intros s cnt. destruct s as [|c t]; simpl; auto.
  destruct (N.eqb c RB).
  - destruct t as [|d t']; simpl; auto.
    destruct (N.eqb d RB); simpl; auto.
    specialize (IH t' (S cnt)). lia.
  - specialize (IH t (S cnt)). lia.
Qed.

Lemma is_letter_not_brace c : is_letter c = true -> N.eqb c LB = false /\ N.eqb c RB = false.
Proof.
  unfold is_letter, LB, RB. intros H. split; apply N.eqb_neq; intros ->; vm_compute in H; discriminate.
Qed.

Lemma cn_outer_print : forall (r : tpl) (fuel : nat) (found : bool),
  wf_tpl r = true -> first_hole_named r = true -> length (print r) <= fuel ->
  cn_outer fuel (print r) found = found || has_hole r.
Proof.
  induction r as [|a r IH]; intros fuel found Hwf Hfh Hf.
  - simpl. destruct fuel; simpl; now rewrite orb_false_r.
  - simpl in Hwf. apply andb_true_iff in Hwf as [Ha Hwf].
    destruct a as [t| | |n sp].
    + simpl in Ha. apply andb_true_iff in Ha as [Hnb _].
      destruct (nobrace_split t Hnb) as [HL _].
      change (print (Text t :: r)) with (t ++ print r) in *. rewrite app_length in Hf.
      rewrite (cn_outer_skip t (print r) fuel found HL Hf).
      apply IH; auto. lia.
    + change (print (EscL :: r)) with (LB :: LB :: print r) in *. simpl in Hf.
      destruct fuel as [|f]; [lia|]. simpl. apply IH; auto. lia.
    + change (print (EscR :: r)) with ([RB; RB] ++ print r) in *. rewrite app_length in Hf.
      rewrite (cn_outer_skip [RB; RB] (print r) fuel found eq_refl Hf).
      apply IH; auto. simpl in *. lia.
    + simpl in Hfh. destruct n as [|c n']; [discriminate|].
      destruct (is_letter_not_brace c Hfh) as [HcL HcR].
      simpl. destruct fuel as [|f]; [simpl in Hf; lia|].
      cbn [cn_outer]. rewrite N.eqb_refl. cbn [app]. rewrite HcL.
      destruct (cn_inner _ 0) as [rest cnt] eqn:E.
      assert (Hcnt : 1 <= cnt).
      { pose proof (cn_inner_mono ((n' ++ spec_text sp ++ [RB]) ++ print r) 1) as M.
        simpl in E. rewrite HcR in E. rewrite E in M. exact M. }
      destruct cnt; [lia|]. simpl. rewrite Hfh. rewrite ?orb_true_r.
      rewrite cn_outer_true. now rewrite ?orb_true_r.
Qed.

Theorem contains_agrees (r : tpl) :
  wf_tpl r = true -> first_hole_named r = true -> contains_named (print r) = has_hole r.
Proof. intros Hwf Hfh. unfold contains_named. now rewrite cn_outer_print. Qed.

(* ================================================================================================ *)
(* mini-fmt on the positional string                                                                *)
(* ================================================================================================ *)
Definition pieces_tok (t : tok) : list piece :=
  match t with
  | Text s => map PLit s
  | EscL => [PLit LB]
  | EscR => [PLit RB]
  | Hole _ sp => [PField (spec_text sp)]
  end.
Definition pieces (t : tpl) : list piece := flat_map pieces_tok t.

Lemma mf_lit : forall t rest,
  nobrace t = true ->
  mf_parse (t ++ rest) SLit = option_map (app (map PLit t)) (mf_parse rest SLit).
Proof.
  induction t as [|x t IH]; intros rest H; simpl.
  - destruct (mf_parse rest SLit); reflexivity.
  - unfold nobrace in H. simpl in H. apply andb_true_iff in H as [Hx Ht].
    apply andb_true_iff in Hx as [H1 H2]. apply negb_true_iff in H1, H2. rewrite H1, H2.
    rewrite (IH rest Ht). destruct (mf_parse rest SLit); reflexivity.
Qed.

Lemma mf_field : forall x acc rest,
  nobrace x = true ->
  mf_parse (x ++ RB :: rest) (SField acc)
  = if spec_ok (acc ++ x) then option_map (cons (PField (acc ++ x))) (mf_parse rest SLit) else None.
Proof.
  induction x as [|c x IH]; intros acc rest H.
  - simpl. now rewrite app_nil_r.
  - unfold nobrace in H. simpl in H. apply andb_true_iff in H as [Hc Hx].
    apply andb_true_iff in Hc as [_ H2]. apply negb_true_iff in H2.
    cbn [app mf_parse]. rewrite H2. rewrite (IH (acc ++ [c]) rest Hx). now rewrite <- app_assoc.
Qed.

(* one replacement field "{spec}" with a brace-free spec that is empty or starts with ':' *)
Lemma mf_one_field sp rest :
  nobrace sp = true -> spec_ok sp = true ->
  mf_parse (LB :: sp ++ RB :: rest) SLit = option_map (cons (PField sp)) (mf_parse rest SLit).
Proof.
  intros Hnb Hok. destruct sp as [|c x].
  - reflexivity.
  - unfold nobrace in Hnb. simpl in Hnb. apply andb_true_iff in Hnb as [Hc Hx].
    apply andb_true_iff in Hc as [H1 H2]. apply negb_true_iff in H1, H2.
    cbn [app mf_parse]. rewrite N.eqb_refl. rewrite H1, H2.
    rewrite (mf_field x [c] rest Hx). cbn [app]. now rewrite Hok.
Qed.

Lemma spec_text_ok sp : spec_ok (spec_text sp) = true.
Proof. destruct sp; reflexivity. Qed.

Lemma mf_parse_positional : forall (r : tpl) (rest : str),
  wf_tpl r = true ->
  mf_parse (positional r ++ rest) SLit = option_map (app (pieces r)) (mf_parse rest SLit).
Proof.
  induction r as [|a r IH]; intros rest Hwf.
  - simpl. destruct (mf_parse rest SLit); reflexivity.
  - simpl in Hwf. apply andb_true_iff in Hwf as [Ha Hwf].
    change (positional (a :: r)) with (pos_tok a ++ positional r).
    change (pieces (a :: r)) with (pieces_tok a ++ pieces r).
    rewrite <- app_assoc.
    assert (Hcomp : forall (p : list piece) (o : option (list piece)),
               option_map (app p) (option_map (app (pieces r)) o) = option_map (app (p ++ pieces r)) o).
    { intros p [l|]; simpl; [now rewrite app_assoc|reflexivity]. }
    destruct a as [t| | |n sp]; simpl in Ha.
    + apply andb_true_iff in Ha as [Hnb _]. simpl pos_tok.
      rewrite (mf_lit t _ Hnb), (IH rest Hwf). apply Hcomp.
    + simpl. rewrite (IH rest Hwf). apply (Hcomp [PLit LB]).
    + simpl. rewrite (IH rest Hwf). apply (Hcomp [PLit RB]).
    + apply andb_true_iff in Ha as [_ Hsp]. simpl pos_tok. simpl app. rewrite <- app_assoc. simpl app.
      rewrite (mf_one_field (spec_text sp) _ Hsp (spec_text_ok sp)), (IH rest Hwf).
      apply (Hcomp [PField (spec_text sp)]).
Qed.

Section Oracle.
Variable arg : Type.
Variable apply_spec : str -> arg -> option str.
Variable is_string : arg -> bool.

(* positional formatting, read off the template: literal text, one brace per escape, and the
   i-th placeholder replaced by what libfmt renders for (its spec, the i-th argument) *)
Fixpoint render (t : tpl) (args : list arg) : option str :=
  match t with
  | [] => Some []
  | Text s :: r => option_map (app s) (render r args)
  | EscL :: r => option_map (cons LB) (render r args)
  | EscR :: r => option_map (cons RB) (render r args)
  | Hole _ sp :: r =>
    match args with
    | [] => None
    | a :: args' =>
      match apply_spec (spec_text sp) a, render r args' with
      | Some x, Some y => Some (x ++ y)
      | _, _ => None
      end
    end
  end.

Lemma mf_render_lits t ps args :
  mf_render arg apply_spec (map PLit t ++ ps) args = option_map (app t) (mf_render arg apply_spec ps args).
Proof.
  induction t as [|c t IH]; simpl.
  - destruct (mf_render _ _ ps args); reflexivity.
  - rewrite IH. destruct (mf_render _ _ ps args); reflexivity.
Qed.

Lemma mf_render_pieces : forall (r : tpl) (args : list arg),
  mf_render arg apply_spec (pieces r) args = render r args.
Proof.
  induction r as [|a r IH]; intros args; [reflexivity|].
  change (pieces (a :: r)) with (pieces_tok a ++ pieces r).
  destruct a as [t| | |n sp]; simpl pieces_tok.
  - rewrite mf_render_lits, IH. reflexivity.
  - simpl. now rewrite IH.
  - simpl. now rewrite IH.
  - simpl. destruct args as [|a args']; auto. now rewrite IH.
Qed.

Theorem mini_fmt_positional (r : tpl) (args : list arg) :
  wf_tpl r = true -> mini_fmt arg apply_spec (positional r) args = render r args.
Proof.
  intros Hwf. unfold mini_fmt.
  pose proof (mf_parse_positional r [] Hwf) as H. rewrite app_nil_r in H. rewrite H. simpl.
  rewrite app_nil_r. apply mf_render_pieces.
Qed.
End Oracle.

(* ================================================================================================ *)
(* join / split on the separator                                                                    *)
(* ================================================================================================ *)
(* the value contains the three separator bytes in a row *)
Fixpoint has_sep (s : str) : bool :=
  match s with
  | [] => false
  | a :: t =>
    match t with
    | b :: c :: _ => N.eqb a 1 && N.eqb b 2 && N.eqb c 3
    | _ => false
    end || has_sep t
  end.

Lemma join_flat (sepr x : str) (r : list str) : join sepr (x :: r) = x ++ flat_map (app sepr) r.
Proof.
  revert x; induction r as [|y r IH]; intros x.
  - simpl. now rewrite app_nil_r.
  - change (join sepr (x :: y :: r)) with (x ++ sepr ++ join sepr (y :: r)).
    rewrite IH. simpl. now rewrite <- app_assoc.
Qed.

Lemma split_sep_cons3 a b c t3 :
  split_sep (a :: b :: c :: t3)
  = if N.eqb a 1 && N.eqb b 2 && N.eqb c 3 then [] :: split_sep t3 else push a (split_sep (b :: c :: t3)).
Proof. reflexivity. Qed.

Lemma split_sep_nosep : forall r, has_sep r = false -> split_sep r = [r].
Proof.
  induction r as [|a r IH]; intros H; [reflexivity|].
  simpl in H. apply orb_false_iff in H as [H1 H2]. specialize (IH H2).
  destruct r as [|b [|c r]].
  - reflexivity.
  - reflexivity.
  - rewrite split_sep_cons3, H1, IH. reflexivity.
Qed.

Lemma split_sep_app : forall r rest,
  has_sep r = false -> split_sep (r ++ sep ++ rest) = r :: split_sep rest.
Proof.
  induction r as [|a r IH]; intros rest H; [reflexivity|].
  simpl in H. apply orb_false_iff in H as [H1 H2]. specialize (IH rest H2).
  destruct r as [|b [|c r]].
  - change ([a] ++ sep ++ rest) with (a :: 1%N :: 2%N :: (3%N :: rest)).
    rewrite split_sep_cons3.
    replace (N.eqb a 1 && N.eqb 1 2 && N.eqb 2 3) with false
      by (destruct (N.eqb a 1); reflexivity).
    change (1%N :: 2%N :: 3%N :: rest) with ([] ++ sep ++ rest). rewrite IH. reflexivity.
  - change ([a; b] ++ sep ++ rest) with (a :: b :: 1%N :: (2%N :: 3%N :: rest)).
    rewrite split_sep_cons3.
    replace (N.eqb a 1 && N.eqb b 2 && N.eqb 1 3) with false
      by (destruct (N.eqb a 1); destruct (N.eqb b 2); reflexivity).
    change (b :: 1%N :: 2%N :: 3%N :: rest) with ([b] ++ sep ++ rest). rewrite IH. reflexivity.
  - change ((a :: b :: c :: r) ++ sep ++ rest) with (a :: b :: c :: (r ++ sep ++ rest)).
    rewrite split_sep_cons3, H1.
    change (b :: c :: r ++ sep ++ rest) with ((b :: c :: r) ++ sep ++ rest). rewrite IH. reflexivity.
Qed.

Lemma split_join : forall (rs : list str) (r0 : str),
  Forall (fun r => has_sep r = false) (r0 :: rs) -> split_sep (join sep (r0 :: rs)) = r0 :: rs.
Proof.
  induction rs as [|r1 rs IH]; intros r0 H; inversion H as [|? ? H0 Hr]; subst.
  - simpl. now apply split_sep_nosep.
  - change (join sep (r0 :: r1 :: rs)) with (r0 ++ sep ++ join sep (r1 :: rs)).
    rewrite (split_sep_app r0 _ H0). now rewrite (IH r1 Hr).
Qed.

Lemma assign_all (rs : list str) : assign (length rs) rs = rs.
Proof. unfold assign. now rewrite firstn_all, Nat.sub_diag, app_nil_r. Qed.

(* ================================================================================================ *)
(* _format_and_split_arguments                                                                      *)
(* ================================================================================================ *)
Definition spec_fine (sp : str) : Prop := nobrace sp = true /\ spec_ok sp = true.

Lemma mf_parse_tail : forall specs,
  Forall spec_fine specs ->
  mf_parse (flat_map (fun sp => sep ++ LB :: sp ++ [RB]) specs) SLit
  = Some (flat_map (fun sp => map PLit sep ++ [PField sp]) specs).
Proof.
  induction specs as [|sp specs IH]; intros H; [reflexivity|].
  inversion H as [|? ? [Hnb Hok] Hr]; subst.
  cbn [flat_map]. rewrite <- app_assoc. rewrite (mf_lit sep _ eq_refl).
  replace ((LB :: sp ++ [RB]) ++ flat_map (fun sp0 => sep ++ LB :: sp0 ++ [RB]) specs)
    with (LB :: sp ++ RB :: flat_map (fun sp0 => sep ++ LB :: sp0 ++ [RB]) specs)
    by (simpl; now rewrite <- app_assoc).
  rewrite (mf_one_field sp _ Hnb Hok), (IH Hr). reflexivity.
Qed.

Lemma build_fmt_flat sp specs :
  build_fmt (sp :: specs) = LB :: sp ++ RB :: flat_map (fun sp0 => sep ++ LB :: sp0 ++ [RB]) specs.
Proof.
  unfold build_fmt. cbn [map]. rewrite join_flat. simpl. rewrite <- app_assoc. simpl. do 2 f_equal.
  f_equal. induction specs as [|x specs IH]; [reflexivity|]. cbn [map flat_map]. now rewrite IH.
Qed.

Section Oracle2.
Variable arg : Type.
Variable apply_spec : str -> arg -> option str.
Variable is_string : arg -> bool.
Variable skip : bool.                             (* the scanner variant *)

(* all fields render: the per-spec renderings of the arguments are rs *)
Definition renders (specs : list str) (args : list arg) (rs : list str) : Prop :=
  length specs = length args /\
  map (fun p => apply_spec (fst p) (snd p)) (combine specs args) = map Some rs.

Lemma renders_len specs args rs : renders specs args rs -> length rs = length args.
Proof.
  intros [Hl H]. apply (f_equal (@length _)) in H. rewrite !map_length, combine_length in H. lia.
Qed.

Lemma mf_render_tail : forall specs args rs,
  renders specs args rs ->
  mf_render arg apply_spec (flat_map (fun sp => map PLit sep ++ [PField sp]) specs) args
  = Some (flat_map (app sep) rs).
Proof.
  induction specs as [|sp specs IH]; intros args rs [Hl H]; destruct args as [|a args]; simpl in Hl; try lia.
  - destruct rs; [reflexivity|discriminate].
  - destruct rs as [|r0 rs]; [discriminate|]. simpl in H. injection H as H0 H.
    cbn [flat_map]. rewrite <- app_assoc. rewrite mf_render_lits. cbn [app mf_render].
    rewrite H0. rewrite (IH args rs) by (split; [lia|exact H]). simpl. now rewrite <- ?app_assoc.
Qed.

Lemma mini_fmt_build specs args rs :
  Forall spec_fine specs -> renders specs args rs ->
  mini_fmt arg apply_spec (build_fmt specs) args = Some (join sep rs).
Proof.
  intros Hf Hr. destruct specs as [|sp specs].
  - destruct Hr as [Hl H]. destruct args; [|discriminate]. destruct rs; [reflexivity|discriminate].
  - inversion Hf as [|? ? [Hnb Hok] Hf']; subst.
    destruct Hr as [Hl H]. destruct args as [|a args]; [discriminate|].
    destruct rs as [|r0 rs]; [discriminate|]. simpl in H. injection H as H0 H.
    unfold mini_fmt. rewrite build_fmt_flat, (mf_one_field sp _ Hnb Hok), (mf_parse_tail specs Hf').
    cbn [option_map mf_render]. rewrite H0.
    rewrite (mf_render_tail specs args rs) by (split; [simpl in Hl; lia|exact H]).
    now rewrite join_flat.
Qed.

Lemma format_and_split_ok names args rs :
  Forall spec_fine (map snd names) -> length names <= length args ->
  renders (named_specs names (length args)) args rs ->
  Forall (fun r => has_sep r = false) rs ->
  format_and_split arg apply_spec is_string names args
  = map (sanitize_if (has_string arg is_string args)) rs.
Proof.
  intros Hf Hlen Hr Hs. unfold format_and_split.
  assert (Hf' : Forall spec_fine (named_specs names (length args))).
  { unfold named_specs. apply Forall_app. split; auto.
    apply Forall_forall. intros x Hx. apply repeat_spec in Hx. subst. split; reflexivity. }
  rewrite (mini_fmt_build _ args rs Hf' Hr).
  pose proof (renders_len _ _ _ Hr) as Hl. destruct Hr as [Hl2 _]. rewrite Hl2, <- Hl.
  destruct rs as [|r0 rs]; [reflexivity|].
  rewrite (split_join rs r0 Hs). now rewrite assign_all.
Qed.

Lemma map_fst_combine {A B} : forall (a : list A) (b : list B),
  length a = length b -> map fst (combine a b) = a.
Proof.
  induction a as [|x a IH]; intros [|y b] H; simpl in *; try discriminate; auto.
  f_equal. apply IH. lia.
Qed.

Lemma named_keys_len names n : length names <= n -> length (named_keys names n) = n.
Proof. intros H. unfold named_keys. rewrite app_length, !map_length, seq_length. lia. Qed.

Theorem pairs_general names args rs :
  Forall spec_fine (map snd names) -> length names <= length args ->
  renders (named_specs names (length args)) args rs ->
  Forall (fun r => has_sep r = false) rs ->
  populate_named arg apply_spec is_string names args
  = combine (named_keys names (length args)) (map (sanitize_if (has_string arg is_string args)) rs)
  /\ length (populate_named arg apply_spec is_string names args) = length args
  /\ map fst (populate_named arg apply_spec is_string names args) = named_keys names (length args).
Proof.
  intros Hf Hlen Hr Hs. unfold populate_named. rewrite (format_and_split_ok names args rs Hf Hlen Hr Hs).
  pose proof (renders_len _ _ _ Hr) as Hl. pose proof (named_keys_len names (length args) Hlen) as Hk.
  split; [reflexivity|]. split.
  - rewrite combine_length, map_length, Hk, Hl. lia.
  - apply map_fst_combine. rewrite map_length. lia.
Qed.

(* ================================================================================================ *)
(* the template cache                                                                               *)
(* ================================================================================================ *)
Definition cache_ok (c : cache) : Prop := forall k e, lookup k c = Some e -> e = scan skip k.

Lemma cache_ok_nil : cache_ok [].
Proof. intros k e H. discriminate. Qed.

Lemma process_cache_ok c t args :
  cache_ok c -> cache_ok (fst (process arg apply_spec is_string skip c t args)).
Proof.
  intros Hc. unfold process. destruct (contains_named t); [|exact Hc].
  destruct (lookup t c) as [e|] eqn:E; [exact Hc|]. simpl.
  intros k e H. simpl in H. destruct (str_eq_dec k t) as [->|]; [now injection H as <-|now apply Hc].
Qed.

Lemma process_indep c t args :
  cache_ok c ->
  snd (process arg apply_spec is_string skip c t args) = snd (process arg apply_spec is_string skip [] t args).
Proof.
  intros Hc. unfold process. destruct (contains_named t); [|reflexivity].
  simpl. destruct (lookup t c) as [e|] eqn:E; [|reflexivity].
  simpl. now rewrite (Hc t e E).
Qed.

Fixpoint cache_after (c : cache) (l : list (str * list arg)) : cache :=
  match l with
  | [] => c
  | (t, a) :: r => cache_after (fst (process arg apply_spec is_string skip c t a)) r
  end.

Lemma cache_after_ok : forall l c, cache_ok c -> cache_ok (cache_after c l).
Proof.
  induction l as [|[t a] l IH]; intros c Hc; simpl; auto. apply IH. now apply process_cache_ok.
Qed.

Theorem cache_transparent h1 h2 t args :
  snd (process arg apply_spec is_string skip (cache_after [] h1) t args)
  = snd (process arg apply_spec is_string skip (cache_after [] h2) t args).
Proof.
  rewrite (process_indep (cache_after [] h1)) by (apply cache_after_ok, cache_ok_nil).
  rewrite (process_indep (cache_after [] h2)) by (apply cache_after_ok, cache_ok_nil).
  reflexivity.
Qed.

Lemma process_all_indep : forall l c,
  cache_ok c ->
  process_all arg apply_spec is_string skip c l
  = map (fun ta => snd (process arg apply_spec is_string skip [] (fst ta) (snd ta))) l.
Proof.
  induction l as [|[t a] l IH]; intros c Hc; [reflexivity|].
  simpl. pose proof (process_cache_ok c t a Hc) as Hc'. pose proof (process_indep c t a Hc) as Hi.
  destruct (process arg apply_spec is_string skip c t a) as [c' x]. simpl in *. rewrite Hi. f_equal. now apply IH.
Qed.

(* one statement whose template is a printed, well-formed template with a placeholder *)
Lemma process_print c (r : tpl) args :
  wf_tpl r = true -> (skip = true -> ok_adj r = true) -> first_hole_named r = true -> has_hole r = true -> cache_ok c ->
  snd (process arg apply_spec is_string skip c (print r) args)
  = use_entry arg apply_spec is_string (positional r, holes r) args.
Proof.
  intros Hwf Hadj Hfh Hh Hc. rewrite (process_indep c _ _ Hc). unfold process.
  rewrite (contains_agrees r Hwf Hfh), Hh. simpl. now rewrite (scan_print_gen skip r Hwf Hadj).
Qed.

Lemma process_print_nohole c (r : tpl) args :
  wf_tpl r = true -> has_hole r = false ->
  snd (process arg apply_spec is_string skip c (print r) args)
  = {| r_text := sink_text arg apply_spec is_string (print r) args; r_named := None |}.
Proof.
  intros Hwf Hh. unfold process.
  assert (Hfh : first_hole_named r = true).
  { clear Hwf. induction r as [|a r IH]; auto. destruct a; simpl in *; auto. discriminate. }
  now rewrite (contains_agrees r Hwf Hfh), Hh.
Qed.
End Oracle2.

Lemma holes_specs_fine (r : tpl) : wf_tpl r = true -> Forall spec_fine (map snd (holes r)).
Proof.
  induction r as [|a r IH]; intros H; simpl; [constructor|].
  simpl in H. apply andb_true_iff in H as [Ha Hr]. specialize (IH Hr).
  destruct a as [t| | |n sp]; simpl; auto. constructor; auto.
  simpl in Ha. apply andb_true_iff in Ha as [_ Hsp]. split; [exact Hsp|apply spec_text_ok].
Qed.

(* ================================================================================================ *)
(* the property clauses for one statement                                                           *)
(* ================================================================================================ *)
Section Clauses.
Variable arg : Type.
Variable apply_spec : str -> arg -> option str.
Variable is_string : arg -> bool.
Variable skip : bool.
Let process := process arg apply_spec is_string skip.

(* text = what positional formatting of the same arguments with the name-free template gives *)
Theorem text_clause_gen c (r : tpl) args :
  wf_tpl r = true -> (skip = true -> ok_adj r = true) -> first_hole_named r = true -> has_hole r = true -> cache_ok skip c ->
  r_text (snd (process c (print r) args)) = sink_text arg apply_spec is_string (positional r) args
  /\ sink_text arg apply_spec is_string (positional r) args
     = option_map (fun x => strip_nl (sanitize_if (has_string arg is_string args) x)) (render arg apply_spec r args).
Proof.
  intros Hwf Hadj Hfh Hh Hc. unfold process. rewrite (process_print arg apply_spec is_string skip c r args Hwf Hadj Hfh Hh Hc).
  split; [reflexivity|].
  unfold sink_text, populate_text. rewrite (mini_fmt_positional arg apply_spec r args Hwf).
  destruct (render arg apply_spec r args); reflexivity.
Qed.

(* pairs = zip (names ++ _i) (per-spec renderings), one per argument, in argument order *)
Theorem pairs_clause_gen c (r : tpl) args rs :
  wf_tpl r = true -> (skip = true -> ok_adj r = true) -> first_hole_named r = true -> has_hole r = true -> cache_ok skip c ->
  length (holes r) <= length args ->
  renders arg apply_spec (named_specs (holes r) (length args)) args rs ->
  Forall (fun x => has_sep x = false) rs ->
  r_named (snd (process c (print r) args))
  = Some (combine (named_keys (holes r) (length args)) (map (sanitize_if (has_string arg is_string args)) rs))
  /\ length rs = length args
  /\ length (named_keys (holes r) (length args)) = length args.
Proof.
  intros Hwf Hadj Hfh Hh Hc Hlen Hr Hs. unfold process.
  rewrite (process_print arg apply_spec is_string skip c r args Hwf Hadj Hfh Hh Hc). simpl.
  destruct (pairs_general arg apply_spec is_string (holes r) args rs (holes_specs_fine r Hwf) Hlen Hr Hs) as [E _].
  rewrite E. split; [reflexivity|]. split; [exact (renders_len _ _ _ _ _ Hr)|now apply named_keys_len].
Qed.
End Clauses.

(* the clauses for the repaired scanner (skip = false): every well-formed template *)
Section ClausesRepaired.
Variable arg : Type.
Variable apply_spec : str -> arg -> option str.
Variable is_string : arg -> bool.
Let process := process arg apply_spec is_string false.

Theorem text_clause c (r : tpl) args :
  wf_tpl r = true -> first_hole_named r = true -> has_hole r = true -> cache_ok false c ->
  r_text (snd (process c (print r) args)) = sink_text arg apply_spec is_string (positional r) args
  /\ sink_text arg apply_spec is_string (positional r) args
     = option_map (fun x => strip_nl (sanitize_if (has_string arg is_string args) x)) (render arg apply_spec r args).
Proof. intros Hwf. apply text_clause_gen; [exact Hwf|discriminate]. Qed.

Theorem pairs_clause c (r : tpl) args rs :
  wf_tpl r = true -> first_hole_named r = true -> has_hole r = true -> cache_ok false c ->
  length (holes r) <= length args ->
  renders arg apply_spec (named_specs (holes r) (length args)) args rs ->
  Forall (fun x => has_sep x = false) rs ->
  r_named (snd (process c (print r) args))
  = Some (combine (named_keys (holes r) (length args)) (map (sanitize_if (has_string arg is_string args)) rs))
  /\ length rs = length args
  /\ length (named_keys (holes r) (length args)) = length args.
Proof. intros Hwf. apply pairs_clause_gen; [exact Hwf|discriminate]. Qed.
End ClausesRepaired.
