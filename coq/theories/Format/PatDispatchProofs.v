(* Proofs about M-PATD (C12, sink selection): with the declaration of log_to_write inside the
   per-sink loop every sink that passes its filters is handed exactly the line of its own effective
   pattern (override if it has one, else the logger's), whatever the other sinks are and in
   whatever order they come; the hoisted variant is refuted. *)
From Coq Require Import List NArith Arith Bool Lia Permutation.
From Quill Require Import Format.PatFmt Format.PatModel Format.PatProofs Format.PatDispatch.
Import ListNotations.

Section Variant.
Variable v : pvar.   (* the variant of the formatter code (Format/PatModel.v): every statement holds for each *)

(* ---------- formatters ---------- *)
Lemma format_with_wf apply_spec p am st : wfv v p -> print p <> [] ->
  format_with v apply_spec {| po_pattern := print p; po_add_meta := am |} st
  = Line (line_spec apply_spec p (env_of v st)).
Proof.
  unfold wfv. intros Hwf Hne. unfold format_with. cbn [po_pattern]. destruct (pv_esc v) eqn:He.
  - rewrite (gen_print_esc v p He Hwf). unfold format. now rewrite format_env_line_esc.
  - rewrite (gen_print v p Hwf). unfold format. now rewrite format_env_line.
Qed.

Lemma popts_eqb_eq a b : popts_eqb a b = true -> a = b.
Proof.
  destruct a as [pa ma], b as [pb mb]. unfold popts_eqb. cbn [po_pattern po_add_meta].
  intros H. apply andb_true_iff in H as [Hp Hm].
  apply bytes_eqb_eq in Hp. apply eqb_prop in Hm. now subst.
Qed.

(* the formatter found in another logger is a formatter for this logger's own options *)
Lemma logger_formatter_eq existing o : logger_formatter existing o = o.
Proof.
  unfold logger_formatter. destruct (find (popts_eqb o) existing) as [o'|] eqn:E; [|reflexivity].
  apply find_some in E as [_ E]. symmetry. now apply popts_eqb_eq.
Qed.

(* ---------- sinks given by pattern items ---------- *)
Record ssink := {
  ss_id : N;
  ss_pat : option (pat * bool);               (* override pattern, its add_metadata option *)
  ss_pass : N -> bytes -> bytes -> bool }.

Definition to_sink (s : ssink) : sink :=
  {| sk_id := ss_id s;
     sk_override := match ss_pat s with
                    | Some (p, am) => Some {| po_pattern := print p; po_add_meta := am |}
                    | None => None
                    end;
     sk_pass := ss_pass s |}.

Definition ssink_wf (s : ssink) : Prop :=
  match ss_pat s with Some (p, _) => wfv v p /\ print p <> [] | None => True end.

(* the sink's effective pattern *)
Definition eff_pat (lp : pat) (s : ssink) : pat :=
  match ss_pat s with Some (p, _) => p | None => lp end.

(* the property's right-hand side *)
Definition spec_line (apply_spec : bytes -> bytes -> bytes) (p : pat) (st : stmt) (m : bytes) : bytes :=
  line_spec apply_spec p (env_of v (with_msg st m)).

Definition spec_msgs (am : bool) (st : stmt) : list bytes :=
  if am && nargs_empty (s_nargs st)
  then match s_msg st with [] => [[]] | _ => drop_last_empty (split_on c_nl (s_msg st)) end
  else [strip_one_nl (s_msg st)].

(* one sink, alone: for each message line, the line of its effective pattern when its filters
   pass (they are shown the level, the message line and the logger's statement) *)
Definition spec_sink (apply_spec : bytes -> bytes -> bytes) (lp : pat) (am : bool) (s : ssink)
                     (st : stmt) (lv : N) : list bytes :=
  flat_map (fun m => if ss_pass s lv m (spec_line apply_spec lp st m)
                     then [spec_line apply_spec (eff_pat lp s) st m] else [])
           (spec_msgs am st).

Definition spec_writes (apply_spec : bytes -> bytes -> bytes) (lp : pat) (am : bool) (ss : list ssink)
                       (st : stmt) (lv : N) : list wr :=
  flat_map (fun m =>
    flat_map (fun s => if ss_pass s lv m (spec_line apply_spec lp st m)
                       then [(ss_id s, spec_line apply_spec (eff_pat lp s) st m)] else []) ss)
    (spec_msgs am st).

Lemma dispatch_msgs_spec am st : dispatch_msgs am (s_nargs st) (s_msg st) = Some (spec_msgs am st).
Proof.
  unfold spec_msgs. destruct (am && nargs_empty (s_nargs st)) eqn:E.
  - apply andb_true_iff in E as [Ea En]. subst am. now apply multiline_on.
  - now apply multiline_off.
Qed.

(* ---------- the loop over the sinks, declaration inside the loop ---------- *)
Lemma write_sinks_spec fmt lv m L (E : pat -> bytes) : forall ss cur,
  (forall s p am, In s ss -> ss_pat s = Some (p, am) ->
                  fmt {| po_pattern := print p; po_add_meta := am |} = Line (E p)) ->
  write_sinks false fmt lv m L cur (map to_sink ss) =
  (flat_map (fun s => if ss_pass s lv m L
                      then [(ss_id s, match ss_pat s with Some (p, _) => E p | None => L end)]
                      else []) ss, None).
Proof.
  induction ss as [|s r IH]; intros cur Hf; [reflexivity|].
  cbn [map write_sinks flat_map].
  change (sk_pass (to_sink s)) with (ss_pass s). change (sk_id (to_sink s)) with (ss_id s).
  change (sk_override (to_sink s))
    with (match ss_pat s with
          | Some (p, am) => Some {| po_pattern := print p; po_add_meta := am |}
          | None => None
          end).
  assert (Hr : forall s' p am, In s' r -> ss_pat s' = Some (p, am) ->
                               fmt {| po_pattern := print p; po_add_meta := am |} = Line (E p))
    by (intros s' p am Hin; apply Hf; now right).
  destruct (ss_pass s lv m L) eqn:Ep.
  - destruct (ss_pat s) as [[p am]|] eqn:Eo.
    + rewrite (Hf s p am (or_introl eq_refl) Eo). rewrite (IH _ Hr). reflexivity.
    + rewrite (IH _ Hr). reflexivity.
  - rewrite (IH _ Hr). reflexivity.
Qed.

Lemma write_msgs_all f g : forall ms, (forall m, In m ms -> f m = (g m, None)) ->
  write_msgs f ms = (flat_map g ms, None).
Proof.
  induction ms as [|m r IH]; intros H; [reflexivity|].
  cbn [write_msgs flat_map]. rewrite (H m (or_introl eq_refl)).
  rewrite IH by (intros m' Hm'; apply H; now right). reflexivity.
Qed.

Lemma write_log_statement_spec apply_spec lp am ss st lv m :
  wfv v lp -> print lp <> [] -> Forall ssink_wf ss ->
  write_log_statement false v apply_spec {| po_pattern := print lp; po_add_meta := am |}
                      (map to_sink ss) st lv m =
  (flat_map (fun s => if ss_pass s lv m (spec_line apply_spec lp st m)
                      then [(ss_id s, spec_line apply_spec (eff_pat lp s) st m)] else []) ss, None).
Proof.
  intros Hwf Hne Hss. unfold write_log_statement.
  rewrite (format_with_wf apply_spec lp am _ Hwf Hne).
  rewrite (write_sinks_spec _ lv m _ (fun p => spec_line apply_spec p st m)).
  - f_equal. apply flat_map_ext. intros s. unfold eff_pat, spec_line.
    destruct (ss_pat s) as [[p a]|]; reflexivity.
  - intros s p a Hin Ho. rewrite Forall_forall in Hss. specialize (Hss s Hin).
    unfold ssink_wf in Hss. rewrite Ho in Hss. destruct Hss as [Hp Hn].
    now apply format_with_wf.
Qed.

(* the whole event: every write, in order, no exception *)
Lemma dispatch_spec apply_spec lp am ss st lv :
  wfv v lp -> print lp <> [] -> Forall ssink_wf ss ->
  dispatch_event false v apply_spec {| po_pattern := print lp; po_add_meta := am |}
                 (map to_sink ss) st lv
  = (spec_writes apply_spec lp am ss st lv, None).
Proof.
  intros Hwf Hne Hss. unfold dispatch_event. cbn [po_add_meta].
  rewrite dispatch_msgs_spec. unfold spec_writes.
  apply write_msgs_all. intros m _. now apply write_log_statement_spec.
Qed.

(* ---------- what one sink receives ---------- *)
Lemma lines_for_app id a b : lines_for id (a ++ b) = lines_for id a ++ lines_for id b.
Proof. unfold lines_for. now rewrite filter_app, map_app. Qed.

Lemma lines_for_flat_map {A} id (f : A -> list wr) l :
  lines_for id (flat_map f l) = flat_map (fun x => lines_for id (f x)) l.
Proof.
  induction l as [|x r IH]; [reflexivity|]. cbn [flat_map]. now rewrite lines_for_app, IH.
Qed.

Lemma lines_for_absent id (c : ssink -> bool) (ln : ssink -> bytes) ss :
  ~ In id (map ss_id ss) ->
  lines_for id (flat_map (fun s => if c s then [(ss_id s, ln s)] else []) ss) = [].
Proof.
  induction ss as [|s r IH]; intros Hn; [reflexivity|].
  cbn [flat_map]. rewrite lines_for_app, IH by (intros H; apply Hn; now right).
  rewrite app_nil_r. destruct (c s); [|reflexivity].
  unfold lines_for. cbn [filter fst]. destruct (N.eqb_spec (ss_id s) id) as [E|E]; [|reflexivity].
  exfalso. apply Hn. left. exact E.
Qed.

Lemma lines_for_one (c : ssink -> bool) (ln : ssink -> bytes) ss s :
  NoDup (map ss_id ss) -> In s ss ->
  lines_for (ss_id s) (flat_map (fun s => if c s then [(ss_id s, ln s)] else []) ss)
  = if c s then [ln s] else [].
Proof.
  induction ss as [|x r IH]; intros Hnd Hin; [destruct Hin|].
  cbn [map] in Hnd. inversion Hnd as [|? ? Hx Hr]; subst.
  cbn [flat_map]. rewrite lines_for_app. destruct Hin as [->|Hin].
  - rewrite lines_for_absent by exact Hx. rewrite app_nil_r.
    destruct (c s); [|reflexivity]. unfold lines_for. cbn [filter fst]. now rewrite N.eqb_refl.
  - rewrite (IH Hr Hin).
    assert (Hne : ss_id x <> ss_id s) by (intros E; apply Hx; rewrite E; now apply in_map).
    destruct (c x); [|reflexivity]. unfold lines_for at 1. cbn [filter fst].
    destruct (N.eqb_spec (ss_id x) (ss_id s)) as [E|E]; [contradiction|reflexivity].
Qed.

(* every sink of the logger: exactly the lines of its own effective pattern for the message lines
   its filters pass - nothing about the other sinks appears on the right-hand side *)
Lemma sink_receives apply_spec lp am ss st lv s :
  wfv v lp -> print lp <> [] -> Forall ssink_wf ss -> NoDup (map ss_id ss) -> In s ss ->
  lines_for (ss_id s)
    (fst (dispatch_event false v apply_spec {| po_pattern := print lp; po_add_meta := am |}
                         (map to_sink ss) st lv))
  = spec_sink apply_spec lp am s st lv.
Proof.
  intros Hwf Hne Hss Hnd Hin. rewrite dispatch_spec by assumption. cbn [fst].
  unfold spec_writes, spec_sink. rewrite lines_for_flat_map. apply flat_map_ext. intros m.
  exact (lines_for_one (fun s => ss_pass s lv m (spec_line apply_spec lp st m))
                       (fun s => spec_line apply_spec (eff_pat lp s) st m) ss s Hnd Hin).
Qed.

(* a sink that is not one of the logger's sinks receives nothing *)
Lemma sink_absent apply_spec lp am ss st lv id :
  wfv v lp -> print lp <> [] -> Forall ssink_wf ss -> ~ In id (map ss_id ss) ->
  lines_for id
    (fst (dispatch_event false v apply_spec {| po_pattern := print lp; po_add_meta := am |}
                         (map to_sink ss) st lv)) = [].
Proof.
  intros Hwf Hne Hss Hn. rewrite dispatch_spec by assumption. cbn [fst].
  unfold spec_writes. rewrite lines_for_flat_map.
  induction (spec_msgs am st) as [|m r IH]; [reflexivity|]. cbn [flat_map]. rewrite IH.
  rewrite (lines_for_absent id (fun s => ss_pass s lv m (spec_line apply_spec lp st m))
                            (fun s => spec_line apply_spec (eff_pat lp s) st m) ss Hn).
  reflexivity.
Qed.

(* filters that reject every message line: nothing is received *)
Lemma sink_filtered_out apply_spec lp am ss st lv s :
  wfv v lp -> print lp <> [] -> Forall ssink_wf ss -> NoDup (map ss_id ss) -> In s ss ->
  (forall m l, ss_pass s lv m l = false) ->
  lines_for (ss_id s)
    (fst (dispatch_event false v apply_spec {| po_pattern := print lp; po_add_meta := am |}
                         (map to_sink ss) st lv)) = [].
Proof.
  intros Hwf Hne Hss Hnd Hin Hp. rewrite sink_receives by assumption. unfold spec_sink.
  induction (spec_msgs am st) as [|m r IH]; [reflexivity|]. cbn [flat_map]. now rewrite Hp, IH.
Qed.

(* independence: the same sink in two different sets of sinks of loggers with the same pattern
   options receives the same lines *)
Lemma sink_independent apply_spec lp am ss ss' st lv s :
  wfv v lp -> print lp <> [] ->
  Forall ssink_wf ss -> NoDup (map ss_id ss) -> In s ss ->
  Forall ssink_wf ss' -> NoDup (map ss_id ss') -> In s ss' ->
  lines_for (ss_id s)
    (fst (dispatch_event false v apply_spec {| po_pattern := print lp; po_add_meta := am |}
                         (map to_sink ss) st lv))
  = lines_for (ss_id s)
    (fst (dispatch_event false v apply_spec {| po_pattern := print lp; po_add_meta := am |}
                         (map to_sink ss') st lv)).
Proof. intros. rewrite !sink_receives by assumption. reflexivity. Qed.

(* order: any permutation of the logger's sinks gives every sink (any id) the same lines *)
Lemma sink_order_irrelevant apply_spec lp am ss ss' st lv id :
  wfv v lp -> print lp <> [] -> Forall ssink_wf ss -> NoDup (map ss_id ss) -> Permutation ss ss' ->
  lines_for id
    (fst (dispatch_event false v apply_spec {| po_pattern := print lp; po_add_meta := am |}
                         (map to_sink ss) st lv))
  = lines_for id
    (fst (dispatch_event false v apply_spec {| po_pattern := print lp; po_add_meta := am |}
                         (map to_sink ss') st lv)).
Proof.
  intros Hwf Hne Hss Hnd Hperm.
  assert (Hss' : Forall ssink_wf ss').
  { rewrite Forall_forall in *. intros x Hx. apply Hss. eapply Permutation_in; [|exact Hx].
    now apply Permutation_sym. }
  assert (Hnd' : NoDup (map ss_id ss')).
  { eapply Permutation_NoDup; [|exact Hnd]. now apply Permutation_map. }
  destruct (in_dec N.eq_dec id (map ss_id ss)) as [Hin|Hout].
  - apply in_map_iff in Hin as [s [<- Hs]].
    apply sink_independent; try assumption. eapply Permutation_in; eassumption.
  - rewrite sink_absent by assumption. rewrite sink_absent; try assumption; [reflexivity|].
    intros H. apply Hout. eapply Permutation_in; [|exact H].
    apply Permutation_map. now apply Permutation_sym.
Qed.

(* ---------- the add_metadata_to_multi_line_logs of a sink's override options is never read ---------- *)
Definition clear_am (sk : sink) : sink :=
  {| sk_id := sk_id sk;
     sk_override := match sk_override sk with
                    | Some o => Some {| po_pattern := po_pattern o; po_add_meta := false |}
                    | None => None
                    end;
     sk_pass := sk_pass sk |}.

Lemma format_with_am apply_spec o st :
  format_with v apply_spec {| po_pattern := po_pattern o; po_add_meta := false |} st
  = format_with v apply_spec o st.
Proof. reflexivity. Qed.

Lemma write_sinks_clear_am hoist apply_spec st' lv m L : forall sinks cur,
  write_sinks hoist (fun o => format_with v apply_spec o st') lv m L cur (map clear_am sinks)
  = write_sinks hoist (fun o => format_with v apply_spec o st') lv m L cur sinks.
Proof.
  induction sinks as [|sk r IH]; intros cur; [reflexivity|].
  cbn [map write_sinks].
  change (sk_pass (clear_am sk)) with (sk_pass sk). change (sk_id (clear_am sk)) with (sk_id sk).
  change (sk_override (clear_am sk))
    with (match sk_override sk with
          | Some o => Some {| po_pattern := po_pattern o; po_add_meta := false |}
          | None => None
          end).
  destruct (sk_pass sk lv m L); [|apply IH].
  destruct (sk_override sk) as [o|].
  - rewrite format_with_am. destruct (format_with v apply_spec o st'); [|reflexivity].
    now rewrite IH.
  - now rewrite IH.
Qed.

Lemma write_msgs_ext f g ms : (forall m, f m = g m) -> write_msgs f ms = write_msgs g ms.
Proof.
  intros H. induction ms as [|m r IH]; [reflexivity|]. cbn [write_msgs]. now rewrite H, IH.
Qed.

Lemma override_add_meta_ignored hoist apply_spec lo sinks st lv :
  dispatch_event hoist v apply_spec lo (map clear_am sinks) st lv
  = dispatch_event hoist v apply_spec lo sinks st lv.
Proof.
  unfold dispatch_event. destruct (dispatch_msgs _ _ _) as [ms|]; [|reflexivity].
  apply write_msgs_ext. intros m. unfold write_log_statement.
  destruct (format_with v apply_spec lo (with_msg st m)); [|reflexivity].
  apply write_sinks_clear_am.
Qed.
End Variant.

(* ---------- witnesses ---------- *)
Definition pat_L : pat := [Lit [76; 32]%N; Attr Message None].     (* "L %(message)" *)
Definition pat_O : pat := [Lit [79; 32]%N; Attr Message None].     (* "O %(message)" *)
Definition pass_all : N -> bytes -> bytes -> bool := fun _ _ _ => true.
Definition ex_over : ssink := {| ss_id := 0%N; ss_pat := Some (pat_O, true); ss_pass := pass_all |}.
Definition ex_plain : ssink := {| ss_id := 1%N; ss_pat := None; ss_pass := pass_all |}.
Definition ex_stmt (msg : bytes) : stmt :=
  {| s_time := []; s_thread_id := []; s_thread_name := []; s_process_id := []; s_logger := [108%N];
     s_level := [73%N]; s_short := [73%N]; s_srcloc := [102; 58; 49]%N; s_func := [102%N];
     s_tags := None; s_nargs := None; s_msg := msg |}.
Definition ex_lo (am : bool) : popts := {| po_pattern := print pat_L; po_add_meta := am |}.

Lemma pat_L_wf : wf pat_L /\ print pat_L <> [].
Proof.
  split; [|vm_compute; discriminate].
  split; [|split].
  - cbn. constructor; [intros []|constructor].
  - repeat (constructor; [apply wf_itemb_sound; reflexivity|]). constructor.
  - cbn. exact I.
Qed.

Lemma pat_O_wf : wf pat_O /\ print pat_O <> [].
Proof.
  split; [|vm_compute; discriminate].
  split; [|split].
  - cbn. constructor; [intros []|constructor].
  - repeat (constructor; [apply wf_itemb_sound; reflexivity|]). constructor.
  - cbn. exact I.
Qed.

Lemma ex_sinks_wf v : Forall (ssink_wf v) [ex_over; ex_plain] /\ NoDup (map ss_id [ex_over; ex_plain]).
Proof.
  split.
  - constructor; [exact (conj (wf_wfv v _ (proj1 pat_O_wf)) (proj2 pat_O_wf))|]. constructor; [exact I|constructor].
  - cbn. constructor; [intros [H|[]]; discriminate|]. constructor; [intros []|constructor].
Qed.

(* non-vacuity with the computed outcome: override sink first, plain sink second, "hi" *)
Lemma ex_dispatch_good : forall v,
  dispatch_event false v id_spec (ex_lo true) (map to_sink [ex_over; ex_plain]) (ex_stmt [104; 105]%N) 4
  = ([(0%N, [79; 32; 104; 105; 10]%N); (1%N, [76; 32; 104; 105; 10]%N)], None).
Proof. intros [b [|]]; vm_compute; reflexivity. Qed.

(* the hoisted declaration: the plain sink behind an override sink is handed the override line *)
Lemma hoisted_refuted : forall v,
  let r := dispatch_event true v id_spec (ex_lo true) (map to_sink [ex_over; ex_plain])
                          (ex_stmt [104; 105]%N) 4 in
  lines_for 1 (fst r) = [[79; 32; 104; 105; 10]%N] /\
  spec_sink v id_spec pat_L true ex_plain (ex_stmt [104; 105]%N) 4 = [[76; 32; 104; 105; 10]%N] /\
  lines_for 1 (fst r) <> spec_sink v id_spec pat_L true ex_plain (ex_stmt [104; 105]%N) 4 /\
  (* and the order of the sinks matters in that variant *)
  lines_for 1 (fst (dispatch_event true v id_spec (ex_lo true) (map to_sink [ex_plain; ex_over])
                                   (ex_stmt [104; 105]%N) 4)) = [[76; 32; 104; 105; 10]%N].
Proof. intros [b [|]]; repeat split; try (vm_compute; reflexivity); vm_compute; discriminate. Qed.

(* a sink whose override options say add_metadata_to_multi_line_logs = false, on a logger whose
   options say true: "a\nb" still arrives as two statements (and the other way round as one) *)
Definition ex_over_noml : ssink :=
  {| ss_id := 0%N; ss_pat := Some (pat_O, false); ss_pass := pass_all |}.
Lemma override_multiline_option_refuted : forall v,
  lines_for 0 (fst (dispatch_event false v id_spec (ex_lo true) (map to_sink [ex_over_noml])
                                   (ex_stmt [97; 10; 98]%N) 4))
    = [[79; 32; 97; 10]%N; [79; 32; 98; 10]%N] /\
  lines_for 0 (fst (dispatch_event false v id_spec (ex_lo false) (map to_sink [ex_over])
                                   (ex_stmt [97; 10; 98]%N) 4))
    = [[79; 32; 97; 10; 98; 10]%N].
Proof. intros [b [|]]; split; vm_compute; reflexivity. Qed.

(* outside the property's quantifier (invalid override pattern): the exception thrown when the
   sink's formatter is created leaves the event, so the sinks behind it are starved *)
Definition ex_bad : sink :=
  {| sk_id := 0%N; sk_override := Some {| po_pattern := [c_pct; c_lp; 120%N; c_rp]; po_add_meta := true |};
     sk_pass := pass_all |}.
Lemma invalid_override_starves_later_sinks : forall v,
  dispatch_event false v id_spec (ex_lo true) [ex_bad; to_sink ex_plain] (ex_stmt [104; 105]%N) 4
  = ([], Some 12%N) /\
  dispatch_event false v id_spec (ex_lo true) [to_sink ex_plain; ex_bad] (ex_stmt [104; 105]%N) 4
  = ([(1%N, [76; 32; 104; 105; 10]%N)], Some 12%N).
Proof. intros [b [|]]; split; vm_compute; reflexivity. Qed.
