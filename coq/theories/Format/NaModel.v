(* M-NA: executable model of the named-argument path of quill's backend
     BackendWorker::_process_named_args_format_message      -> scan
     MacroMetadata::_contains_named_args                    -> contains_named
     BackendWorker::_populate_formatted_log_message         -> populate_text
     BackendWorker::_populate_formatted_named_args
       + _format_and_split_arguments                        -> populate_named / format_and_split
     the _named_args_templates cache in
       _populate_transit_event_from_frontend_queue          -> process
   and the template grammar the property is stated over.  Definitions only.
   The scanner has two variants selected by [skip] (scan_hole): skip = true is the scanner as pinned
   (the inner loop steps over a "}}" that directly follows the close bracket: D11), skip = false is the
   repaired scanner (the first '}' after the '{' of a placeholder closes it).  Which one stands for
   the code is read from the source on every run (TieC19.src_scan_skip). *)
From Coq Require Import List NArith Arith Bool.
From Quill Require Import Format.NaFmt.
Import ListNotations.

(* ---- the template grammar -------------------------------------------------------------------- *)
(* Hole name None = "{name}", Hole name (Some s) = "{name:s}" *)
Inductive tok := Text (s : str) | EscL | EscR | Hole (name : str) (spec : option str).
Definition tpl := list tok.

(* the spec as the backend stores it: empty, or ':' followed by the spec *)
Definition spec_text (sp : option str) : str :=
  match sp with None => [] | Some s => COLON :: s end.

Definition print_tok (t : tok) : str :=
  match t with
  | Text s => s
  | EscL => [LB; LB]
  | EscR => [RB; RB]
  | Hole n sp => LB :: n ++ spec_text sp ++ [RB]
  end.
Definition print (t : tpl) : str := flat_map print_tok t.

(* the same template with the names removed: what positional formatting would be given *)
Definition pos_tok (t : tok) : str :=
  match t with
  | Hole _ sp => LB :: spec_text sp ++ [RB]
  | _ => print_tok t
  end.
Definition positional (t : tpl) : str := flat_map pos_tok t.

Fixpoint holes (t : tpl) : list (str * str) :=
  match t with
  | [] => []
  | Hole n sp :: r => (n, spec_text sp) :: holes r
  | _ :: r => holes r
  end.

(* well-formed tokens: literal text is non-empty and brace-free; names have no brace and no ':';
   specs have no brace (nested replacement fields are outside the grammar) *)
Definition nobrace (s : str) : bool := forallb (fun c => negb (N.eqb c LB) && negb (N.eqb c RB)) s.
Definition nocolon (s : str) : bool := forallb (fun c => negb (N.eqb c COLON)) s.
Definition wf_tok (t : tok) : bool :=
  match t with
  | Text s => nobrace s && negb (Nat.eqb (length s) 0)
  | Hole n sp => nobrace n && nocolon n && nobrace (spec_text sp)
  | _ => true
  end.
Definition wf_tpl (t : tpl) : bool := forallb wf_tok t.

(* no escaped "}}" immediately after a placeholder (D11 otherwise) *)
Fixpoint ok_adj (t : tpl) : bool :=
  match t with
  | [] => true
  | a :: r => match a, r with Hole _ _, EscR :: _ => false | _, _ => true end && ok_adj r
  end.

(* ---- _process_named_args_format_message ------------------------------------------------------ *)
Record scan_st := { cur_pos : nat; fmt_str : str; keys : list (str * str) }.

(* the inner while loop: [close] is close_bracket_pos (None = npos); result = the close bracket of
   the placeholder, or None when the loop ends without one.  Each iteration moves [close] to the
   right, so fuel = length of the template + 1 is never exhausted. *)
Fixpoint scan_close (fuel : nat) (s : str) (close : option nat) : option nat :=
  match close with
  | None => None
  | Some c =>
    match fuel with
    | O => None
    | S f =>
      match find_from RB s (c + 1) with
      | Some c2 =>
        if Nat.eqb (c2 - 1) c                                (* "}}": skip both *)
        then scan_close f s (find_from RB s (c2 + 1))
        else Some c
      | None => Some c
      end
    end
  end.

(* arg_name / arg_syntax: the text inside the braces is cut at the first ':' (the ':' stays with
   the syntax) *)
Definition split_colon (inside : str) : str * str :=
  match find COLON inside with
  | Some k => (firstn k inside, skipn k inside)
  | None => (inside, [])
  end.

(* close_bracket_pos of the placeholder starting at [o]: the first '}' after it; the pinned variant
   then runs the inner while loop above on it *)
Definition close_of (skip : bool) (s : str) (o : nat) : option nat :=
  if skip then scan_close (S (length s)) s (find_from RB s (o + 1)) else find_from RB s (o + 1).

(* the body executed for a placeholder starting at [o] *)
Definition scan_hole (skip : bool) (s : str) (o : nat) (st : scan_st) : option nat * scan_st :=
  match close_of skip s o with
  | None => (None, st)
  | Some c =>
    let inside := substr s (o + 1) (c - (o + 1)) in
    let '(name, syntax) := split_colon inside in
    (Some c,
     {| cur_pos := c + 1;
        (* fmtquill::format("{}{{{}}}", fmt_template.substr(cur_pos, open - cur_pos), arg_syntax) *)
        fmt_str := fmt_str st ++ substr s (cur_pos st) (o - cur_pos st) ++ LB :: syntax ++ [RB];
        keys := keys st ++ [(name, syntax)] |})
  end.

(* the outer while loop: [open] is open_bracket_pos *)
Fixpoint scan_loop (skip : bool) (fuel : nat) (s : str) (open : option nat) (st : scan_st) : scan_st :=
  match open with
  | None => st
  | Some o =>
    match fuel with
    | O => st
    | S f =>
      let escaped :=
        match find_from LB s (o + 1) with
        | Some o2 => if Nat.eqb (o2 - 1) o then Some o2 else None
        | None => None
        end in
      match escaped with
      | Some o2 => scan_loop skip f s (find_from LB s (o2 + 1)) st         (* "{{": continue *)
      | None =>
        let '(close, st') := scan_hole skip s o st in
        (* open_bracket_pos = fmt_template.find_first_of('{', close_bracket_pos) *)
        scan_loop skip f s (match close with Some c => find_from LB s c | None => None end) st'
      end
    end
  end.

Definition scan (skip : bool) (s : str) : str * list (str * str) :=
  let st := scan_loop skip (S (length s)) s (find_from LB s 0)
                      {| cur_pos := 0; fmt_str := []; keys := [] |} in
  (fmt_str st ++ skipn (cur_pos st) s, keys st).

(* ---- MacroMetadata::_contains_named_args ----------------------------------------------------- *)
Definition is_letter (c : N) : bool :=
  (N.leb 97 c && N.leb c 122) || (N.leb 65 c && N.leb c 90).

(* inner loop: returns the text from [pos] on and char_cnt *)
Fixpoint cn_inner (s : str) (cnt : nat) : str * nat :=
  match s with
  | [] => ([], cnt)
  | c :: t =>
    if N.eqb c RB then
      match t with
      | [] => ([], cnt)                                             (* pos >= length: break *)
      | d :: t' => if N.eqb d RB then cn_inner t' (S cnt)           (* "}}": ++pos, ++cnt, continue *)
                   else (t, cnt)                                    (* the match: break *)
      end
    else cn_inner t (S cnt)
  end.

Fixpoint cn_outer (fuel : nat) (s : str) (found : bool) : bool :=
  match fuel with
  | O => found
  | S f =>
    match s with
    | [] => found
    | c :: t =>
      if N.eqb c LB then
        match t with
        | [] => found                                               (* break *)
        | fc :: t' =>
          if N.eqb fc LB then cn_outer f t' found                   (* "{{": ++pos; continue *)
          else
            let '(rest, cnt) := cn_inner t 0 in
            let found' := found || (negb (Nat.eqb cnt 0) && is_letter fc) in
            cn_outer f (tl rest) found'                             (* the ++pos closing the iteration *)
        end
      else cn_outer f t found
    end
  end.

Definition contains_named (s : str) : bool := cn_outer (length s) s false.

(* ---- formatting ----------------------------------------------------------------------------- *)
Definition sep : str := [1; 2; 3]%N.                                 (* QUILL_MAGIC_SEPARATOR *)

(* formatted_values_str split at every occurrence of the separator, left to right *)
Definition push (a : N) (l : list str) : list str :=
  match l with [] => [[a]] | h :: r => (a :: h) :: r end.
Fixpoint split_sep (s : str) : list str :=
  match s with
  | [] => [[]]
  | a :: t1 =>
    match t1 with
    | b :: (c :: t3) =>
      if N.eqb a 1 && N.eqb b 2 && N.eqb c 3 then [] :: split_sep t3 else push a (split_sep t1)
    | _ => push a (split_sep t1)
    end
  end.

(* the first n pieces land in the n slots; missing ones stay empty, later ones are dropped *)
Definition assign (n : nat) (pieces : list str) : list str :=
  firstn n pieces ++ repeat [] (n - length pieces).

Section Oracle.
Variable arg : Type.
Variable apply_spec : str -> arg -> option str.
Variable is_string : arg -> bool.                 (* DynamicFormatArgStore::has_string_related_type *)
Variable skip : bool.                             (* the scanner variant, see scan_hole *)

Definition has_string (args : list arg) : bool := existsb is_string args.
Definition sanitize_if (b : bool) (s : str) : str := if b then sanitize s else s.

(* _populate_formatted_log_message: None = the catch branch (text replaced by the
   "[Could not format log statement ...]" message, error notifier called) *)
Definition populate_text (f : str) (args : list arg) : option str :=
  option_map (sanitize_if (has_string args)) (mini_fmt arg apply_spec f args).

(* _process_transit_event: "if the log_message ends with \n we should exclude it" *)
Fixpoint strip_nl (s : str) : str :=
  match s with
  | [] => []
  | [c] => if N.eqb c NL then [] else [c]
  | c :: t => c :: strip_nl t
  end.
(* the log_message handed to the sinks *)
Definition sink_text (f : str) (args : list arg) : option str :=
  option_map strip_nl (populate_text f args).

(* keys: the placeholder names, then "_i" for every argument without a placeholder *)
Definition named_keys (names : list (str * str)) (nargs : nat) : list str :=
  map fst names ++ map (fun i => USCORE :: dec i) (seq (length names) (nargs - length names)).
Definition named_specs (names : list (str * str)) (nargs : nat) : list str :=
  map snd names ++ repeat [] (nargs - length names).

(* "{spec}\x01\x02\x03{spec}..." *)
Definition build_fmt (specs : list str) : str :=
  join sep (map (fun sp => LB :: sp ++ [RB]) specs).

Definition format_and_split (names : list (str * str)) (args : list arg) : list str :=
  let specs := named_specs names (length args) in
  let n := length specs in
  match mini_fmt arg apply_spec (build_fmt specs) args with
  | Some out => map (sanitize_if (has_string args)) (assign n (split_sep out))
  | None => repeat [] n                          (* the exception is swallowed, values stay empty *)
  end.

Definition populate_named (names : list (str * str)) (args : list arg) : list (str * str) :=
  combine (named_keys names (length args)) (format_and_split names args).

(* ---- the template cache and one statement ---------------------------------------------------- *)
Definition entry := (str * list (str * str))%type.
Definition cache := list (str * entry).
Fixpoint lookup (k : str) (c : cache) : option entry :=
  match c with
  | [] => None
  | (k', e) :: r => if str_eq_dec k k' then Some e else lookup k r
  end.

Record result := { r_text : option str; r_named : option (list (str * str)) }.

Definition use_entry (e : entry) (args : list arg) : result :=
  {| r_text := sink_text (fst e) args; r_named := Some (populate_named (snd e) args) |}.

Definition process (c : cache) (t : str) (args : list arg) : cache * result :=
  if contains_named t then
    match lookup t c with
    | Some e => (c, use_entry e args)
    | None => let e := scan skip t in ((t, e) :: c, use_entry e args)
    end
  else (c, {| r_text := sink_text t args; r_named := None |}).

Fixpoint process_all (c : cache) (l : list (str * list arg)) : list result :=
  match l with
  | [] => []
  | (t, args) :: r => let '(c', x) := process c t args in x :: process_all c' r
  end.
End Oracle.
