(* M-NA / Fmt: byte strings, std::string_view style searching, the mini-fmt field parser standing for
   fmtquill::vformat_to, BackendWorker::sanitize_non_printable_chars and decimal rendering.
   Definitions only (no proofs): this file is extracted. *)
From Coq Require Import List NArith Arith Bool.
Import ListNotations.
Local Open Scope N_scope.

Definition str := list N.                       (* a byte string; every element is meant to be < 256 *)

Definition LB : N := 123.      (* '{' *)
Definition RB : N := 125.      (* '}' *)
Definition COLON : N := 58.
Definition COMMA : N := 44.
Definition NL : N := 10.
Definition SP : N := 32.
Definition QUOTE : N := 34.
Definition BSL : N := 92.
Definition USCORE : N := 95.

Definition str_eq_dec : forall a b : str, {a = b} + {a <> b} := list_eq_dec N.eq_dec.

(* ---- std::string_view::find_first_of(c, pos) / substr --------------------------------------- *)
(* index of the first c in s; None = npos *)
Fixpoint find (c : N) (s : str) : option nat :=
  match s with
  | [] => None
  | x :: t => if N.eqb x c then Some 0%nat else option_map S (find c t)
  end.

(* s.find_first_of(c, pos): a pos beyond the end gives npos *)
Definition find_from (c : N) (s : str) (pos : nat) : option nat :=
  option_map (Nat.add pos) (find c (skipn pos s)).

(* s.substr(pos, len) *)
Definition substr (s : str) (pos len : nat) : str := firstn len (skipn pos s).

Fixpoint join (sepr : str) (l : list str) : str :=
  match l with
  | [] => []
  | [x] => x
  | x :: r => x ++ sepr ++ join sepr r
  end.

(* ---- mini-fmt ------------------------------------------------------------------------------- *)
(* What fmtquill::vformat_to does with a format string, as far as the grammar
       literal | "{{" | "}}" | "{}" | "{:spec}"        (automatic argument indexing)
   is concerned.  Parsing is a four-state machine over the bytes; everything else (manual
   indexes, named fields, a lone brace, an unterminated field) is a format error = None.
   What ONE field renders to is not modelled: it is the oracle [apply_spec]. *)
Inductive piece := PLit (c : N) | PField (spec : str).
Inductive pstate := SLit | SOpen | SClose | SField (acc : str).

(* a field's text between the braces must be empty or start with ':' *)
Definition spec_ok (sp : str) : bool :=
  match sp with [] => true | c :: _ => N.eqb c COLON end.

Fixpoint mf_parse (s : str) (st : pstate) : option (list piece) :=
  match s with
  | [] => match st with SLit => Some [] | _ => None end
  | c :: t =>
    let field := fun (sp : str) =>
      if spec_ok sp then option_map (cons (PField sp)) (mf_parse t SLit) else None in
    match st with
    | SLit => if N.eqb c LB then mf_parse t SOpen
              else if N.eqb c RB then mf_parse t SClose
              else option_map (cons (PLit c)) (mf_parse t SLit)
    | SOpen => if N.eqb c LB then option_map (cons (PLit LB)) (mf_parse t SLit)
               else if N.eqb c RB then field []
               else mf_parse t (SField [c])
    | SClose => if N.eqb c RB then option_map (cons (PLit RB)) (mf_parse t SLit) else None
    | SField acc => if N.eqb c RB then field acc else mf_parse t (SField (acc ++ [c]))
    end
  end.

Definition field_specs (ps : list piece) : list str :=
  flat_map (fun p => match p with PField sp => [sp] | PLit _ => [] end) ps.

Section Oracle.
(* an argument as the backend holds it after decoding, and libfmt's rendering of one replacement
   field "{spec}" applied to it (None: fmt throws format_error) *)
Variable arg : Type.
Variable apply_spec : str -> arg -> option str.

(* too few arguments: "argument not found" (error); surplus arguments are ignored *)
Fixpoint mf_render (ps : list piece) (args : list arg) : option str :=
  match ps with
  | [] => Some []
  | PLit c :: r => option_map (cons c) (mf_render r args)
  | PField sp :: r =>
    match args with
    | [] => None
    | a :: args' =>
      match apply_spec sp a, mf_render r args' with
      | Some x, Some y => Some (x ++ y)
      | _, _ => None
      end
    end
  end.

Definition mini_fmt (f : str) (args : list arg) : option str :=
  match mf_parse f SLit with
  | Some ps => mf_render ps args
  | None => None
  end.
End Oracle.

(* ---- sanitize_non_printable_chars with the default BackendOptions::check_printable_char ------ *)
Definition printable (c : N) : bool := (N.leb 32 c && N.leb c 126) || N.eqb c NL.
Definition hexdigit (d : N) : N := if N.ltb d 10 then 48 + d else 55 + d.     (* "0123456789ABCDEF" *)
Definition sanitize (s : str) : str :=
  if forallb printable s then s
  else flat_map (fun c => if printable c then [c]
                          else [BSL; 120; hexdigit ((c / 16) mod 16); hexdigit (c mod 16)]) s.

(* ---- decimal rendering (std::to_string / fmt "{}" of an unsigned integer) ------------------- *)
Fixpoint dec_aux (fuel : nat) (n : N) (acc : str) : str :=
  match fuel with
  | O => acc
  | S f => let (q, r) := N.div_eucl n 10 in
           let acc' := (48 + r) :: acc in
           if N.eqb q 0 then acc' else dec_aux f q acc'
  end.
Definition decN (n : N) : str := dec_aux (S (N.to_nat (N.size n))) n [].
Definition dec (n : nat) : str := decN (N.of_nat n).
