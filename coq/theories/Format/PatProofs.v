(* Proofs about M-PAT / mini-fmt (C12): the rewriting of a printed pattern, the line produced by
   format, slot allocation, rejection of malformed patterns, multi-line splitting, MacroMetadata
   derived fields, runtime-metadata split. *)
From Coq Require Import String.
From Coq Require Import List NArith Arith Bool Ascii Lia.
From Quill Require Import Format.PatFmt Format.PatModel.
Import ListNotations.

(* ---------- the attribute names as text ---------- *)
Definition s2b (s : string) : bytes := map N_of_ascii (list_ascii_of_string s).

Lemma attr_name_text : forall a,
  attr_name a = s2b match a with
      | Time => "time" | FileName => "file_name" | CallerFunction => "caller_function"
      | LogLevel => "log_level" | LogLevelShortCode => "log_level_short_code"
      | LineNumber => "line_number" | Logger => "logger" | FullPath => "full_path"
      | ThreadId => "thread_id" | ThreadName => "thread_name" | ProcessId => "process_id"
      | SourceLocation => "source_location" | ShortSourceLocation => "short_source_location"
      | Message => "message" | Tags => "tags" | NamedArgs => "named_args"
      end%string.
Proof. destruct a; reflexivity. Qed.

(* ---------- bytes ---------- *)
Lemma bytes_eqb_refl a : bytes_eqb a a = true.
Proof. induction a as [|x a IH]; cbn; [reflexivity|]. now rewrite N.eqb_refl, IH. Qed.

Lemma bytes_eqb_eq a : forall b, bytes_eqb a b = true -> a = b.
Proof.
  induction a as [|x a IH]; intros [|y b] H; cbn in H; try discriminate; [reflexivity|].
  apply andb_true_iff in H as [H1 H2]. apply N.eqb_eq in H1. subst. f_equal. now apply IH.
Qed.

(* ---------- split_at ---------- *)
Lemma split_at_app c a b : ~ In c a -> split_at c (a ++ c :: b) = Some (a, b).
Proof.
  induction a as [|x a IH]; intros Hn; cbn [app split_at].
  - now rewrite N.eqb_refl.
  - destruct (N.eqb_spec x c) as [E|E]; [exfalso; apply Hn; now left|].
    rewrite IH; [reflexivity|]. intros Hi. apply Hn. now right.
Qed.

Lemma split_at_none c s : ~ In c s -> split_at c s = None.
Proof.
  induction s as [|x s IH]; intros Hn; cbn [split_at]; [reflexivity|].
  destruct (N.eqb_spec x c) as [E|E]; [exfalso; apply Hn; now left|].
  rewrite IH; [reflexivity|]. intros Hi. apply Hn. now right.
Qed.

Lemma split_at_some c s : forall a b, split_at c s = Some (a, b) -> s = a ++ c :: b /\ ~ In c a.
Proof.
  induction s as [|x s IH]; intros a b H; cbn [split_at] in H; [discriminate|].
  destruct (N.eqb_spec x c) as [E|E].
  - inversion H; subst. split; [reflexivity|]. intros [].
  - destruct (split_at c s) as [[a' b']|] eqn:Es; [|discriminate].
    inversion H; subst. destruct (IH a' b eq_refl) as [-> Hn]. split; [reflexivity|].
    intros [Hi|Hi]; [now apply E|now apply Hn].
Qed.

Lemma split_at_none_inv c s : split_at c s = None -> ~ In c s.
Proof.
  induction s as [|x s IH]; intros H; [intros []|]. cbn [split_at] in H.
  destruct (N.eqb_spec x c) as [E|E]; [discriminate|].
  destruct (split_at c s) as [[a' b']|] eqn:Es; [discriminate|].
  intros [Hi|Hi]; [now apply E|now apply IH].
Qed.

(* ---------- set_nth ---------- *)
Lemma set_nth_length {A} i (x : A) l : length (set_nth i x l) = length l.
Proof. revert i; induction l as [|h l IH]; intros [|i]; cbn; auto. Qed.

Lemma nth_set_nth_eq {A} i (x d : A) l : i < length l -> nth i (set_nth i x l) d = x.
Proof. revert i; induction l as [|h l IH]; intros [|i] H; cbn in *; try lia; auto. apply IH. lia. Qed.

Lemma nth_set_nth_neq {A} i j (x d : A) l : i <> j -> nth j (set_nth i x l) d = nth j l d.
Proof.
  revert i j; induction l as [|h l IH]; intros [|i] [|j] H; cbn; try reflexivity; try lia.
  apply IH. lia.
Qed.

Lemma nth_error_set_nth_eq {A} i (x : A) l : i < length l -> nth_error (set_nth i x l) i = Some x.
Proof. revert i; induction l as [|h l IH]; intros [|i] H; cbn in *; try lia; auto. apply IH. lia. Qed.

Lemma nth_error_set_nth_neq {A} i j (x : A) l : i <> j -> nth_error (set_nth i x l) j = nth_error l j.
Proof.
  revert i j; induction l as [|h l IH]; intros [|i] [|j] H; cbn; try reflexivity; try lia.
  apply IH. lia.
Qed.

(* ---------- find_attr ---------- *)
Lemma find_attr_cons c t :
  find_attr (c :: t) =
  let next := match find_attr t with Some (a, b) => Some (c :: a, b) | None => None end in
  if N.eqb c c_pct then
    match t with
    | d :: r => if N.eqb d c_lp then Some ([], r) else next
    | [] => None
    end
  else next.
Proof. reflexivity. Qed.

Lemma find_attr_some s : forall a b, find_attr s = Some (a, b) -> s = a ++ c_pct :: c_lp :: b.
Proof.
  induction s as [|c t IH]; intros a b H; [discriminate|].
  rewrite find_attr_cons in H. cbv zeta in H.
  assert (Hnext : match find_attr t with Some (a0, b0) => Some (c :: a0, b0) | None => None end
                  = Some (a, b) -> c :: t = a ++ c_pct :: c_lp :: b).
  { destruct (find_attr t) as [[a0 b0]|]; [|discriminate]. intros E; inversion E; subst.
    cbn [app]. f_equal. now apply IH. }
  destruct (N.eqb_spec c c_pct) as [Ec|Ec]; [|now apply Hnext].
  destruct t as [|d r]; [discriminate|].
  destruct (N.eqb_spec d c_lp) as [Ed|Ed]; [|now apply Hnext].
  inversion H; subst. reflexivity.
Qed.

(* the hard lemma of gen_print: an already-rewritten prefix (no "%(" inside; it may end in '%')
   is skipped unchanged by the re-scan from position 0 *)
Lemma find_attr_here pre rest :
  find_attr pre = None -> find_attr (pre ++ c_pct :: c_lp :: rest) = Some (pre, rest).
Proof.
  induction pre as [|c t IH]; intros H.
  - reflexivity.
  - rewrite find_attr_cons in H. cbv zeta in H.
    cbn [app]. rewrite find_attr_cons. cbv zeta.
    destruct (N.eqb_spec c c_pct) as [Ec|Ec].
    + destruct t as [|d r].
      * cbn [app]. change (N.eqb c_pct c_lp) with false. cbv iota. reflexivity.
      * cbn [app]. destruct (N.eqb_spec d c_lp) as [Ed|Ed]; [discriminate|].
        destruct (find_attr (d :: r)) as [[a0 b0]|] eqn:Et; [discriminate|].
        change (d :: r ++ c_pct :: c_lp :: rest) with ((d :: r) ++ c_pct :: c_lp :: rest).
        now rewrite IH.
    + destruct (find_attr t) as [[a0 b0]|] eqn:Et; [discriminate|]. now rewrite IH.
Qed.

Fixpoint ends_pct (s : bytes) : bool :=
  match s with
  | [] => false
  | c :: t => match t with [] => N.eqb c c_pct | _ => ends_pct t end
  end.
Definition starts_lp (s : bytes) : bool :=
  match s with c :: _ => N.eqb c c_lp | [] => false end.

Lemma find_attr_app_none a b :
  find_attr a = None -> find_attr b = None -> ends_pct a && starts_lp b = false ->
  find_attr (a ++ b) = None.
Proof.
  induction a as [|c t IH]; intros Ha Hb He; [exact Hb|].
  rewrite find_attr_cons in Ha. cbv zeta in Ha.
  cbn [app]. rewrite find_attr_cons. cbv zeta.
  assert (Ht : find_attr t = None -> ends_pct t && starts_lp b = false ->
               match find_attr (t ++ b) with Some (a0, b0) => Some (c :: a0, b0) | None => None end = None).
  { intros H1 H2. now rewrite IH. }
  destruct (N.eqb_spec c c_pct) as [Ec|Ec].
  - destruct t as [|d r].
    + cbn [app]. destruct b as [|d b']; [reflexivity|].
      cbn [ends_pct starts_lp] in He. subst c. change (N.eqb c_pct c_pct) with true in He.
      cbn [andb] in He. rewrite He. now rewrite Hb.
    + cbn [app]. destruct (N.eqb_spec d c_lp) as [Ed|Ed]; [discriminate|].
      change (d :: r ++ b) with ((d :: r) ++ b). apply Ht.
      * destruct (find_attr (d :: r)) as [[a0 b0]|]; [discriminate|reflexivity].
      * exact He.
  - apply Ht.
    + destruct (find_attr t) as [[a0 b0]|]; [discriminate|reflexivity].
    + destruct t as [|d r]; [reflexivity|exact He].
Qed.

Lemma ends_pct_snoc a c : ends_pct (a ++ [c]) = N.eqb c c_pct.
Proof.
  induction a as [|x a IH]; [reflexivity|]. cbn [app ends_pct].
  destruct (a ++ [c]) eqn:E; [destruct a; discriminate|]. exact IH.
Qed.

Lemma find_attr_no_pct s : ~ In c_pct s -> find_attr s = None.
Proof.
  induction s as [|c t IH]; intros H; [reflexivity|]. rewrite find_attr_cons. cbv zeta.
  destruct (N.eqb_spec c c_pct) as [Ec|Ec]; [exfalso; apply H; now left|].
  rewrite IH; [reflexivity|]. intros Hi; apply H; now right.
Qed.

Lemma notin_b c s : existsb (N.eqb c) s = false -> ~ In c s.
Proof.
  intros H Hi. assert (existsb (N.eqb c) s = true); [|congruence].
  apply existsb_exists. exists c. split; [exact Hi|apply N.eqb_refl].
Qed.

Lemma not_in_app {A} (x : A) a b : ~ In x a -> ~ In x b -> ~ In x (a ++ b).
Proof. intros Ha Hb Hi. apply in_app_or in Hi as [H|H]; auto. Qed.

(* ---------- attribute names ---------- *)
Lemma attr_of_name_name a : attr_of_name (attr_name a) = Some a.
Proof. destruct a; reflexivity. Qed.

Lemma attr_name_no_rp a : ~ In c_rp (attr_name a).
Proof. destruct a; apply notin_b; reflexivity. Qed.
Lemma attr_name_no_colon a : ~ In c_colon (attr_name a).
Proof. destruct a; apply notin_b; reflexivity. Qed.
Lemma attr_name_nonempty a : attr_name a <> [].
Proof. destruct a; discriminate. Qed.

Lemma attr_idx_inj a b : attr_idx a = attr_idx b -> a = b.
Proof. destruct a, b; cbn; intros H; try reflexivity; discriminate. Qed.
Lemma attr_idx_lt a : attr_idx a < ATTR_NR_ITEMS.
Proof. destruct a; cbn; unfold ATTR_NR_ITEMS; lia. Qed.
Lemma attr_eqb_eq a b : attr_eqb a b = true <-> a = b.
Proof.
  unfold attr_eqb. rewrite Nat.eqb_eq. split; [apply attr_idx_inj|now intros ->].
Qed.
Lemma all_attrs_complete a : In a all_attrs.
Proof. destruct a; cbn; tauto. Qed.
Lemma all_attrs_nodup : NoDup all_attrs.
Proof.
  unfold all_attrs.
  repeat (constructor; [cbn; intros H; repeat (destruct H as [H|H]; [discriminate|]); exact H|]).
  constructor.
Qed.
Lemma fill_order_complete a : In a fill_order.
Proof. destruct a; cbn; tauto. Qed.

(* ---------- well-formed patterns ---------- *)
(* literal text: no brace, no "%(";  spec: none of ) { } and no "%(" *)
Definition wf_item (it : item) : Prop :=
  match it with
  | Lit s => ~ In c_lb s /\ ~ In c_rb s /\ find_attr s = None
  | Attr _ None => True
  | Attr _ (Some sp) => ~ In c_rp sp /\ ~ In c_lb sp /\ ~ In c_rb sp /\ find_attr sp = None
  end.

(* normal form: the literal text between two attributes is ONE Lit item (two adjacent literals
   "a%" "(b" would print as the attribute opener "%("); [normalize] below merges them *)
Fixpoint no_adj_lit (p : pat) : Prop :=
  match p with
  | [] => True
  | Lit _ :: r => match r with Lit _ :: _ => False | _ => no_adj_lit r end
  | Attr _ _ :: r => no_adj_lit r
  end.

Definition wf (p : pat) : Prop := NoDup (attrs p) /\ Forall wf_item p /\ no_adj_lit p.

(* the same without the brace restriction on the literal text (the patterns of the variant that
   escapes literal braces; the rewriting loop itself never looks at braces) *)
Definition wfg_item (it : item) : Prop :=
  match it with
  | Lit s => find_attr s = None
  | Attr _ None => True
  | Attr _ (Some sp) => ~ In c_rp sp /\ ~ In c_lb sp /\ ~ In c_rb sp /\ find_attr sp = None
  end.
Definition wfg (p : pat) : Prop := NoDup (attrs p) /\ Forall wfg_item p /\ no_adj_lit p.

Lemma wf_item_wfg it : wf_item it -> wfg_item it.
Proof. destruct it as [s|a [sp|]]; cbn [wf_item wfg_item]; tauto. Qed.
Lemma wf_wfg p : wf p -> wfg p.
Proof.
  intros (H1 & H2 & H3). split; [exact H1|split; [|exact H3]].
  eapply Forall_impl; [|exact H2]. apply wf_item_wfg.
Qed.

Lemma print_cons it r : print (it :: r) = print_item it ++ print r.
Proof. reflexivity. Qed.
Lemma fmt_body_cons it r : fmt_body (it :: r) = fmt_item it ++ fmt_body r.
Proof. reflexivity. Qed.

Lemma find_attr_field sp :
  wfg_item (Attr Time sp) -> find_attr (c_lb :: fspec sp ++ [c_rb]) = None.
Proof.
  destruct sp as [sp|]; intros H; [|reflexivity].
  destruct H as (_ & _ & _ & H). cbn [fspec app].
  rewrite find_attr_cons. cbv zeta. change (N.eqb c_lb c_pct) with false. cbv iota.
  rewrite find_attr_cons. cbv zeta. change (N.eqb c_colon c_pct) with false. cbv iota.
  rewrite find_attr_app_none; [reflexivity|exact H|reflexivity|apply andb_false_r].
Qed.

Lemma ends_pct_app_snoc a b c : ends_pct (a ++ b ++ [c]) = N.eqb c c_pct.
Proof. rewrite app_assoc. apply ends_pct_snoc. Qed.

(* one iteration of the loop on "<clean prefix>%(name:spec)<rest>" *)
Lemma gen_loop_step f acc a sp post idx order iset :
  find_attr acc = None -> wfg_item (Attr a sp) ->
  gen_loop (S f) (acc ++ print_item (Attr a sp) ++ post) idx order iset =
  gen_loop f (acc ++ fmt_item (Attr a sp) ++ post) (Nat.modulo (S idx) 256)
           (set_nth (attr_idx a) idx order) (set_nth (attr_idx a) true iset).
Proof.
  intros Hacc Hwf. cbn [print_item fmt_item].
  replace (acc ++ ([c_pct; c_lp] ++ attr_name a ++ fspec sp ++ [c_rp]) ++ post)
    with (acc ++ c_pct :: c_lp :: ((attr_name a ++ fspec sp) ++ c_rp :: post))
    by (cbn [app]; now rewrite <- !app_assoc).
  cbn [gen_loop]. rewrite (find_attr_here _ _ Hacc).
  assert (Hrp : ~ In c_rp (attr_name a ++ fspec sp)).
  { apply not_in_app; [apply attr_name_no_rp|]. destruct sp as [sp|]; [|intros []].
    cbn [fspec]. destruct Hwf as (H & _). intros [E|Hi]; [discriminate|now apply H]. }
  rewrite (split_at_app _ _ _ Hrp).
  destruct sp as [sp|]; cbn [fspec] in *.
  - rewrite (split_at_app _ _ _ (attr_name_no_colon a)). rewrite attr_of_name_name.
    f_equal. cbn [app]. now rewrite <- !app_assoc.
  - rewrite app_nil_r in *. rewrite (split_at_none _ _ (attr_name_no_colon a)).
    rewrite attr_of_name_name. f_equal.
Qed.

Definition boundary (acc : bytes) (p : pat) : Prop :=
  match p with Lit s :: _ => find_attr (acc ++ s) = None | _ => True end.

Lemma boundary_nil p : Forall wfg_item p -> boundary [] p.
Proof.
  destruct p as [|[s|a sp] r]; cbn [boundary app]; auto.
  intros H. inversion H as [|? ? Hs _]; subst. exact Hs.
Qed.

Lemma gen_loop_items : forall p acc idx order iset fuel,
  Forall wfg_item p -> no_adj_lit p -> find_attr acc = None -> boundary acc p ->
  length (attrs p) < fuel ->
  gen_loop fuel (acc ++ print p ++ [c_nl]) idx order iset =
  LOk (acc ++ fmt_body p ++ [c_nl]) (order_fold (attrs p) idx order) (set_fold (attrs p) iset).
Proof.
  induction p as [|it r IH]; intros acc idx order iset fuel Hwf Hadj Hacc Hb Hfuel.
  - destruct fuel as [|f]; [cbn in Hfuel; lia|].
    cbn [print map concat fmt_body app attrs order_fold set_fold gen_loop].
    rewrite find_attr_app_none; [reflexivity|exact Hacc|reflexivity|apply andb_false_r].
  - inversion Hwf as [|? ? Hit Hr]; subst.
    destruct it as [s|a sp].
    + (* literal: it joins the clean prefix *)
      rewrite print_cons, fmt_body_cons. cbn [print_item fmt_item attrs].
      replace (acc ++ (s ++ print r) ++ [c_nl]) with ((acc ++ s) ++ print r ++ [c_nl])
        by (now rewrite <- !app_assoc).
      replace (acc ++ (s ++ fmt_body r) ++ [c_nl]) with ((acc ++ s) ++ fmt_body r ++ [c_nl])
        by (now rewrite <- !app_assoc).
      apply IH; auto.
      * cbn [no_adj_lit] in Hadj. destruct r as [|[s'|a' sp'] r']; auto. contradiction.
      * cbn [no_adj_lit] in Hadj. destruct r as [|[s'|a' sp'] r']; cbn [boundary]; auto. contradiction.
    + (* attribute: one replacement, then the scan restarts from 0 on the rewritten string *)
      cbn [attrs length] in Hfuel. destruct fuel as [|f]; [lia|].
      rewrite print_cons, fmt_body_cons. cbn [attrs order_fold set_fold].
      replace (acc ++ (print_item (Attr a sp) ++ print r) ++ [c_nl])
        with (acc ++ print_item (Attr a sp) ++ (print r ++ [c_nl])) by (now rewrite <- !app_assoc).
      rewrite gen_loop_step by auto.
      assert (Hf : find_attr (acc ++ fmt_item (Attr a sp)) = None).
      { cbn [fmt_item app]. apply find_attr_app_none; [exact Hacc| |apply andb_false_r].
        apply find_attr_field. destruct sp; exact Hit. }
      replace (acc ++ fmt_item (Attr a sp) ++ print r ++ [c_nl])
        with ((acc ++ fmt_item (Attr a sp)) ++ print r ++ [c_nl]) by (now rewrite <- !app_assoc).
      replace (acc ++ (fmt_item (Attr a sp) ++ fmt_body r) ++ [c_nl])
        with ((acc ++ fmt_item (Attr a sp)) ++ fmt_body r ++ [c_nl]) by (now rewrite <- !app_assoc).
      apply IH; auto; [|lia].
      destruct r as [|[s'|a' sp'] r']; cbn [boundary]; auto.
      apply find_attr_app_none; [exact Hf| |].
      * inversion Hr as [|? ? Hs' _]; subst. exact Hs'.
      * unfold fmt_item. rewrite (app_assoc [c_lb]), ends_pct_app_snoc. reflexivity.
Qed.

Lemma attrs_le_print p : length (attrs p) <= length (print p).
Proof.
  induction p as [|[s|a sp] r IH]; [cbn; lia| |]; rewrite print_cons, app_length; cbn [attrs length print_item].
  - lia.
  - cbn [app length]. lia.
Qed.

Lemma print_nil_iff p : print p = [] -> fmt_body p = [].
Proof.
  induction p as [|[s|a sp] r IH]; [reflexivity| |]; rewrite print_cons, fmt_body_cons; cbn [print_item fmt_item].
  - intros H. apply app_eq_nil in H as [-> H]. now rewrite IH.
  - cbn [app]. discriminate.
Qed.

(* the constructor on the text the rewriting loop is given (after the optional pre-pass) *)
Definition gen_raw (s : bytes) : lres :=
  gen_loop (S (length s)) (s ++ [c_nl]) 0 (repeat (ATTR_NR_ITEMS - 1) ATTR_NR_ITEMS)
           (repeat false ATTR_NR_ITEMS).

Lemma generate_eq v s :
  generate v s =
  match gen_raw (if pv_esc v then esc_scan false s else s) with
  | LOk f o b => GOk {| g_fmt := f; g_order := o; g_set := b;
                        g_empty := match s with [] => true | _ => false end |}
  | LErr e => GErr e
  end.
Proof. reflexivity. Qed.

(* the rewriting loop on a printed pattern: exactly the expected fmt string, slot table and
   "is set" bits (braces in the literal text play no role in it) *)
Lemma gen_raw_print p : wfg p -> gen_raw (print p) = LOk (fmt_of p) (order_of p) (set_of p).
Proof.
  intros (Hnd & Hwf & Hadj). unfold gen_raw.
  change (print p ++ [c_nl]) with ([] ++ print p ++ [c_nl]).
  rewrite gen_loop_items; [reflexivity|exact Hwf|exact Hadj|reflexivity|apply boundary_nil; exact Hwf|].
  pose proof (attrs_le_print p). lia.
Qed.

(* ---------- the pre-pass that doubles the braces of the literal text ---------- *)
Lemma esc_scan_in body : forall rest, ~ In c_rp body ->
  esc_scan true (body ++ c_rp :: rest) = body ++ c_rp :: esc_scan false rest.
Proof.
  induction body as [|c t IH]; intros rest H; cbn [app esc_scan].
  - change (N.eqb c_rp c_rp) with true. reflexivity.
  - destruct (N.eqb_spec c c_rp) as [E|E]; [exfalso; apply H; now left|].
    cbn [negb]. rewrite IH; [reflexivity|]. intros Hi; apply H; now right.
Qed.

Lemma esc_scan_in_none s : ~ In c_rp s -> esc_scan true s = s.
Proof.
  induction s as [|c t IH]; intros H; cbn [esc_scan]; [reflexivity|].
  destruct (N.eqb_spec c c_rp) as [E|E]; [exfalso; apply H; now left|].
  cbn [negb]. rewrite IH; [reflexivity|]. intros Hi; apply H; now right.
Qed.

Lemma esc_scan_cons c t :
  esc_scan false (c :: t) =
  if N.eqb c c_pct then
    match t with
    | d :: r => if N.eqb d c_lp then c :: d :: esc_scan true r else c :: esc_scan false t
    | [] => [c]
    end
  else if is_brace c then c :: c :: esc_scan false t
  else c :: esc_scan false t.
Proof. reflexivity. Qed.

Lemma is_brace_pct : is_brace c_pct = false.
Proof. reflexivity. Qed.

(* literal text (no "%(" inside, and none formed with what follows) *)
Lemma esc_scan_lit s : forall rest,
  find_attr s = None -> ends_pct s && starts_lp rest = false ->
  esc_scan false (s ++ rest) = dbl_braces s ++ esc_scan false rest.
Proof.
  induction s as [|c t IH]; intros rest Hs Hb; [reflexivity|].
  rewrite find_attr_cons in Hs. cbv zeta in Hs.
  cbn [app]. rewrite esc_scan_cons. cbn [dbl_braces].
  destruct (N.eqb_spec c c_pct) as [Ec|Ec].
  - subst c. rewrite is_brace_pct.
    destruct t as [|d r].
    + cbn [app dbl_braces]. cbn [ends_pct] in Hb. change (N.eqb c_pct c_pct) with true in Hb.
      cbn [andb] in Hb. destruct rest as [|d r]; [reflexivity|].
      cbn [starts_lp] in Hb. rewrite Hb. reflexivity.
    + cbn [app]. destruct (N.eqb_spec d c_lp) as [Ed|Ed]; [discriminate|].
      change (d :: r ++ rest) with ((d :: r) ++ rest). rewrite IH; [reflexivity| |exact Hb].
      destruct (find_attr (d :: r)) as [[a0 b0]|]; [discriminate|reflexivity].
  - assert (Ht : find_attr t = None) by (destruct (find_attr t) as [[a0 b0]|]; [discriminate|reflexivity]).
    assert (Hb' : ends_pct t && starts_lp rest = false).
    { destruct t as [|d r]; [reflexivity|exact Hb]. }
    rewrite (IH rest Ht Hb'). destruct (is_brace c); reflexivity.
Qed.

Lemma esc_scan_attr a sp rest : wfg_item (Attr a sp) ->
  esc_scan false (print_item (Attr a sp) ++ rest) = print_item (Attr a sp) ++ esc_scan false rest.
Proof.
  intros Hwf. cbn [print_item].
  assert (Hrp : ~ In c_rp (attr_name a ++ fspec sp)).
  { apply not_in_app; [apply attr_name_no_rp|]. destruct sp as [sp|]; [|intros []].
    cbn [fspec]. destruct Hwf as (H & _). intros [E|Hi]; [discriminate|now apply H]. }
  replace (([c_pct; c_lp] ++ attr_name a ++ fspec sp ++ [c_rp]) ++ rest)
    with (c_pct :: c_lp :: ((attr_name a ++ fspec sp) ++ c_rp :: rest))
    by (cbn [app]; now rewrite <- !app_assoc).
  rewrite esc_scan_cons. change (N.eqb c_pct c_pct) with true. cbv iota.
  change (N.eqb c_lp c_lp) with true. cbv iota.
  rewrite (esc_scan_in _ _ Hrp). cbn [app]. now rewrite <- !app_assoc.
Qed.

(* the pre-pass on a printed pattern followed by any text that does not start with '(' *)
Lemma esc_scan_print : forall p tail, Forall wfg_item p -> no_adj_lit p -> starts_lp tail = false ->
  esc_scan false (print p ++ tail) = print (esc_pat p) ++ esc_scan false tail.
Proof.
  induction p as [|[s|a sp] r IH]; intros tail Hwf Hadj Ht.
  - reflexivity.
  - inversion Hwf as [|? ? Hit Hr]; subst. cbn [esc_pat map esc_item].
    rewrite !print_cons. cbn [print_item]. rewrite <- !app_assoc.
    cbn [no_adj_lit] in Hadj.
    rewrite esc_scan_lit; [|exact Hit|].
    + f_equal. apply IH; [exact Hr| |exact Ht]. destruct r as [|[s'|a' sp'] r']; auto. contradiction.
    + destruct r as [|[s'|a' sp'] r']; [cbn [print map concat app]; rewrite Ht; apply andb_false_r|contradiction|].
      rewrite print_cons. cbn [print_item app starts_lp]. apply andb_false_r.
  - inversion Hwf as [|? ? Hit Hr]; subst. cbn [esc_pat map esc_item].
    rewrite !print_cons. rewrite <- !app_assoc.
    rewrite esc_scan_attr by exact Hit. f_equal. apply IH; [exact Hr|exact Hadj|exact Ht].
Qed.

Lemma esc_scan_print_nil p : Forall wfg_item p -> no_adj_lit p ->
  esc_scan false (print p) = print (esc_pat p).
Proof.
  intros Hwf Hadj. rewrite <- (app_nil_r (print p)), esc_scan_print by auto.
  cbn [esc_scan]. now rewrite app_nil_r.
Qed.

Lemma dbl_braces_head c t : exists t', dbl_braces (c :: t) = c :: t'.
Proof. cbn [dbl_braces]. destruct (is_brace c); eauto. Qed.

Lemma find_attr_dbl s : find_attr s = None -> find_attr (dbl_braces s) = None.
Proof.
  induction s as [|c t IH]; intros H; [reflexivity|].
  rewrite find_attr_cons in H. cbv zeta in H. cbn [dbl_braces].
  destruct (N.eqb_spec c c_pct) as [Ec|Ec].
  - subst c. rewrite is_brace_pct. rewrite find_attr_cons. cbv zeta.
    change (N.eqb c_pct c_pct) with true. cbv iota.
    destruct t as [|d r]; [reflexivity|].
    destruct (N.eqb_spec d c_lp) as [Ed|Ed]; [discriminate|].
    destruct (dbl_braces_head d r) as [t' Ht']. rewrite Ht'.
    destruct (N.eqb_spec d c_lp) as [Ed'|_]; [contradiction|].
    rewrite <- Ht', IH; [reflexivity|].
    destruct (find_attr (d :: r)) as [[a0 b0]|]; [discriminate|reflexivity].
  - assert (Ht : find_attr t = None) by (destruct (find_attr t) as [[a0 b0]|]; [discriminate|reflexivity]).
    destruct (is_brace c).
    + rewrite !find_attr_cons. cbv zeta.
      destruct (N.eqb_spec c c_pct) as [E|_]; [contradiction|]. now rewrite (IH Ht).
    + rewrite find_attr_cons. cbv zeta.
      destruct (N.eqb_spec c c_pct) as [E|_]; [contradiction|]. now rewrite (IH Ht).
Qed.

Lemma attrs_esc_pat p : attrs (esc_pat p) = attrs p.
Proof.
  induction p as [|[s|a sp] r IH]; [reflexivity| |]; cbn [esc_pat map esc_item attrs];
    [exact IH|f_equal; exact IH].
Qed.

Lemma wfg_esc_pat p : wfg p -> wfg (esc_pat p).
Proof.
  intros (Hnd & Hwf & Hadj). split; [now rewrite attrs_esc_pat|split].
  - unfold esc_pat. apply Forall_map. eapply Forall_impl; [|exact Hwf].
    intros [s|a sp]; cbn [esc_item wfg_item]; [apply find_attr_dbl|auto].
  - clear Hnd Hwf. induction p as [|[s|a sp] r IH]; [exact I| |].
    + cbn [esc_pat map esc_item no_adj_lit] in *. destruct r as [|[s'|a' sp'] r']; [exact I|contradiction|].
      apply IH. exact Hadj.
    + cbn [esc_pat map esc_item no_adj_lit] in *. now apply IH.
Qed.

Lemma dbl_braces_id s : ~ In c_lb s -> ~ In c_rb s -> dbl_braces s = s.
Proof.
  induction s as [|c t IH]; intros Hl Hr; [reflexivity|]. cbn [dbl_braces]. unfold is_brace.
  destruct (N.eqb_spec c c_lb) as [E|E]; [exfalso; apply Hl; now left|].
  destruct (N.eqb_spec c c_rb) as [E'|E']; [exfalso; apply Hr; now left|].
  cbn [orb]. rewrite IH; [reflexivity| |]; intros Hi; [apply Hl|apply Hr]; now right.
Qed.

(* brace-free literal text: the pre-pass changes nothing *)
Lemma esc_pat_wf p : Forall wf_item p -> esc_pat p = p.
Proof.
  induction 1 as [|it r Hit _ IH]; [reflexivity|].
  change (esc_pat (it :: r)) with (esc_item it :: esc_pat r). rewrite IH. f_equal.
  destruct it as [s|a sp]; [|reflexivity]. cbn [esc_item]. destruct Hit as (Hl & Hr & _).
  now rewrite dbl_braces_id.
Qed.

Lemma print_esc_pat_nil p : match print (esc_pat p) with [] => true | _ => false end
                            = match print p with [] => true | _ => false end.
Proof.
  destruct p as [|[s|a sp] r]; [reflexivity| |reflexivity].
  cbn [esc_pat map esc_item]. rewrite !print_cons. cbn [print_item].
  destruct s as [|c t]; [|cbn [dbl_braces]; destruct (is_brace c); reflexivity].
  cbn [dbl_braces app]. clear. induction r as [|[s|a sp] r IH]; [reflexivity| |reflexivity].
  cbn [map esc_item]. rewrite !print_cons. cbn [print_item].
  destruct s as [|c t]; [exact IH|cbn [dbl_braces]; destruct (is_brace c); reflexivity].
Qed.

(* generate (print p) is exactly the expected rewriting, slot table and "is set" bits: for the
   variant without the pre-pass (literal braces reach fmt as they are) ... *)
Lemma gen_print_unesc v p : pv_esc v = false -> wfg p -> generate v (print p) = GOk (gen_of p).
Proof. intros He Hwf. rewrite generate_eq, He, (gen_raw_print p Hwf). reflexivity. Qed.

(* ... and for the variant with it: the literal braces arrive doubled *)
Lemma gen_print_esc v p : pv_esc v = true -> wfg p ->
  generate v (print p) = GOk (gen_of (esc_pat p)).
Proof.
  intros He Hwf. rewrite generate_eq, He.
  destruct Hwf as (Hnd & Hit & Hadj).
  rewrite (esc_scan_print_nil p Hit Hadj).
  rewrite (gen_raw_print (esc_pat p) (wfg_esc_pat p (conj Hnd (conj Hit Hadj)))).
  unfold gen_of. now rewrite print_esc_pat_nil.
Qed.

(* brace-free literal text: both variants *)
Lemma gen_print v p : wf p -> generate v (print p) = GOk (gen_of p).
Proof.
  intros Hwf. destruct (pv_esc v) eqn:He.
  - rewrite (gen_print_esc v p He (wf_wfg p Hwf)). destruct Hwf as (_ & Hit & _).
    now rewrite (esc_pat_wf p Hit).
  - exact (gen_print_unesc v p He (wf_wfg p Hwf)).
Qed.

(* ---------- slot table ---------- *)
Fixpoint index_of (a : attr) (l : list attr) : option nat :=
  match l with
  | [] => None
  | b :: r => if attr_eqb a b then Some 0 else option_map S (index_of a r)
  end.

(* the slot the property expects: position of the attribute in the pattern, 15 when unused *)
Definition slot_fn (p : pat) (a : attr) : nat :=
  match index_of a (attrs p) with Some j => j | None => ATTR_NR_ITEMS - 1 end.

Lemma index_of_none a l : ~ In a l -> index_of a l = None.
Proof.
  induction l as [|b r IH]; intros H; [reflexivity|]. cbn [index_of].
  destruct (attr_eqb a b) eqn:E; [apply attr_eqb_eq in E; subst; exfalso; apply H; now left|].
  rewrite IH; [reflexivity|]. intros Hi; apply H; now right.
Qed.

Lemma index_of_some a l : forall j, index_of a l = Some j -> nth_error l j = Some a.
Proof.
  induction l as [|b r IH]; intros j H; [discriminate|]. cbn [index_of] in H.
  destruct (attr_eqb a b) eqn:E.
  - apply attr_eqb_eq in E; subst. now inversion H.
  - destruct (index_of a r) as [k|]; [|discriminate]. inversion H; subst. cbn. now apply IH.
Qed.

Lemma index_of_in a l : In a l -> exists j, index_of a l = Some j.
Proof.
  induction l as [|b r IH]; intros H; [destruct H|]. cbn [index_of].
  destruct (attr_eqb a b) eqn:E; [eauto|].
  destruct H as [H|H]; [subst; rewrite (proj2 (attr_eqb_eq a a) eq_refl) in E; discriminate|].
  destruct (IH H) as [j Hj]. rewrite Hj. cbn. eauto.
Qed.

Lemma index_of_nth l : NoDup l -> forall j a, nth_error l j = Some a -> index_of a l = Some j.
Proof.
  induction 1 as [|b r Hb Hnd IH]; intros [|j] a H; cbn in H; try discriminate.
  - inversion H; subst. cbn [index_of]. now rewrite (proj2 (attr_eqb_eq a a) eq_refl).
  - cbn [index_of]. destruct (attr_eqb a b) eqn:E.
    + apply attr_eqb_eq in E; subst. exfalso. apply Hb. eapply nth_error_In; eauto.
    + now rewrite (IH _ _ H).
Qed.

Lemma nodup_attrs_le (l : list attr) : NoDup l -> length l <= ATTR_NR_ITEMS.
Proof.
  intros H. change ATTR_NR_ITEMS with (length all_attrs).
  apply NoDup_incl_length; [exact H|]. intros a _. apply all_attrs_complete.
Qed.

Lemma nodup_attrs_full (l : list attr) : NoDup l -> ATTR_NR_ITEMS <= length l -> forall a, In a l.
Proof.
  intros H Hl a.
  apply (NoDup_length_incl H (l' := all_attrs)); [exact Hl| |apply all_attrs_complete].
  intros b _. apply all_attrs_complete.
Qed.

Lemma order_fold_length l : forall idx order, length (order_fold l idx order) = length order.
Proof. induction l as [|b r IH]; intros; cbn [order_fold]; [reflexivity|]. now rewrite IH, set_nth_length. Qed.
Lemma set_fold_length l : forall iset, length (set_fold l iset) = length iset.
Proof. induction l as [|b r IH]; intros; cbn [set_fold]; [reflexivity|]. now rewrite IH, set_nth_length. Qed.

Lemma order_fold_nth l : forall idx order a,
  NoDup l -> idx + length l < 256 -> length order = ATTR_NR_ITEMS ->
  nth (attr_idx a) (order_fold l idx order) 0 =
  match index_of a l with Some j => idx + j | None => nth (attr_idx a) order 0 end.
Proof.
  induction l as [|b r IH]; intros idx order a Hnd Hlen Ho; [reflexivity|].
  inversion Hnd as [|? ? Hb Hr]; subst. cbn [length] in Hlen.
  cbn [order_fold index_of]. rewrite Nat.mod_small by lia.
  rewrite IH; [|exact Hr|lia|now rewrite set_nth_length].
  destruct (attr_eqb a b) eqn:E.
  - apply attr_eqb_eq in E; subst. rewrite (index_of_none _ _ Hb).
    rewrite nth_set_nth_eq; [lia|]. rewrite Ho. apply attr_idx_lt.
  - destruct (index_of a r) as [j|]; cbn [option_map]; [lia|].
    apply nth_set_nth_neq. intros Hi. apply attr_idx_inj in Hi. subst.
    rewrite (proj2 (attr_eqb_eq a a) eq_refl) in E. discriminate.
Qed.

Lemma set_fold_nth l : forall iset a, length iset = ATTR_NR_ITEMS ->
  nth (attr_idx a) (set_fold l iset) false = existsb (attr_eqb a) l || nth (attr_idx a) iset false.
Proof.
  induction l as [|b r IH]; intros iset a Hl; [reflexivity|].
  cbn [set_fold existsb]. rewrite IH by now rewrite set_nth_length.
  destruct (attr_eqb a b) eqn:E.
  - apply attr_eqb_eq in E; subst. rewrite nth_set_nth_eq; [|rewrite Hl; apply attr_idx_lt].
    now rewrite orb_true_r.
  - rewrite nth_set_nth_neq; [reflexivity|]. intros Hi. apply attr_idx_inj in Hi. subst.
    rewrite (proj2 (attr_eqb_eq a a) eq_refl) in E. discriminate.
Qed.

Lemma slot_of_gen_of p a : NoDup (attrs p) -> slot_of (gen_of p) a = slot_fn p a.
Proof.
  intros Hnd. unfold slot_of, gen_of, order_of, slot_fn. cbn [g_order].
  pose proof (nodup_attrs_le _ Hnd) as Hle. unfold ATTR_NR_ITEMS in *.
  rewrite order_fold_nth; [|exact Hnd|cbn; lia|reflexivity].
  destruct (index_of a (attrs p)); [reflexivity|].
  destruct a; reflexivity.
Qed.

Lemma is_set_gen_of p a : is_set (gen_of p) a = existsb (attr_eqb a) (attrs p).
Proof.
  unfold is_set, gen_of, set_of. cbn [g_set]. rewrite set_fold_nth by reflexivity.
  destruct a; cbn [attr_idx nth repeat ATTR_NR_ITEMS]; apply orb_false_r.
Qed.

Lemma is_set_in p a : is_set (gen_of p) a = true <-> In a (attrs p).
Proof.
  rewrite is_set_gen_of, existsb_exists. split.
  - intros (b & Hb & E). apply attr_eqb_eq in E. now subst.
  - intros H. exists a. split; [exact H|now apply attr_eqb_eq].
Qed.

Lemma slot_fn_used p a j : index_of a (attrs p) = Some j -> slot_fn p a = j /\ j < length (attrs p).
Proof.
  intros H. unfold slot_fn. rewrite H. split; [reflexivity|].
  apply index_of_some in H. apply nth_error_Some. congruence.
Qed.

(* used attributes get distinct slots below the number of used attributes; unused attributes
   share slot 15, which no used attribute has (then fewer than 16 are used) *)
Lemma slot_injective p : NoDup (attrs p) ->
  (forall a b, In a (attrs p) -> In b (attrs p) ->
               slot_of (gen_of p) a = slot_of (gen_of p) b -> a = b) /\
  (forall a, In a (attrs p) -> slot_of (gen_of p) a < length (attrs p) /\
                                nth_error (attrs p) (slot_of (gen_of p) a) = Some a) /\
  (forall a, ~ In a (attrs p) -> slot_of (gen_of p) a = ATTR_NR_ITEMS - 1 /\
                                  length (attrs p) <= ATTR_NR_ITEMS - 1).
Proof.
  intros Hnd. split; [|split].
  - intros a b Ha Hb. rewrite !slot_of_gen_of by exact Hnd.
    destruct (index_of_in _ _ Ha) as [i Hi]. destruct (index_of_in _ _ Hb) as [j Hj].
    unfold slot_fn. rewrite Hi, Hj. intros ->.
    apply index_of_some in Hi. apply index_of_some in Hj. congruence.
  - intros a Ha. rewrite slot_of_gen_of by exact Hnd.
    destruct (index_of_in _ _ Ha) as [i Hi]. destruct (slot_fn_used _ _ _ Hi) as [-> Hlt].
    split; [exact Hlt|now apply index_of_some].
  - intros a Ha. rewrite slot_of_gen_of by exact Hnd. unfold slot_fn.
    rewrite (index_of_none _ _ Ha). split; [reflexivity|].
    pose proof (nodup_attrs_le _ Hnd) as Hle.
    destruct (Nat.eq_dec (length (attrs p)) ATTR_NR_ITEMS) as [E|E]; [|unfold ATTR_NR_ITEMS in *; lia].
    exfalso. apply Ha. apply nodup_attrs_full; [exact Hnd|lia].
Qed.

(* ---------- the argument array after format() filled it ---------- *)
Lemma fold_set_nth_length {A V} (sl : A -> nat) (val : A -> V) ws : forall s0,
  length (fold_left (fun s w => set_nth (sl w) (val w) s) ws s0) = length s0.
Proof. induction ws as [|w ws IH]; intros; cbn [fold_left]; [reflexivity|]. now rewrite IH, set_nth_length. Qed.

Lemma fold_set_nth_last {A V} (sl : A -> nat) (val : A -> V) ws : forall s0 j v,
  j < length s0 -> (exists w, In w ws /\ sl w = j) -> (forall w, In w ws -> sl w = j -> val w = v) ->
  nth_error (fold_left (fun s w => set_nth (sl w) (val w) s) ws s0) j = Some v.
Proof.
  induction ws as [|w ws IH] using rev_ind; intros s0 j v Hj (w0 & Hin & Hs) Hall; [destruct Hin|].
  rewrite fold_left_app. cbn [fold_left].
  destruct (Nat.eq_dec (sl w) j) as [E|E].
  - rewrite E, nth_error_set_nth_eq by now rewrite fold_set_nth_length.
    f_equal. apply Hall; [apply in_or_app; right; now left|exact E].
  - rewrite nth_error_set_nth_neq by exact E. apply IH; [exact Hj| |].
    + apply in_app_or in Hin as [Hin|[->|[]]]; [eauto|contradiction].
    + intros w' Hw'. apply Hall. apply in_or_app. now left.
Qed.

Lemma writes_in g a : In a (writes g) <-> (is_set g a = true \/ a = Message).
Proof.
  unfold writes. rewrite filter_In, orb_true_iff, attr_eqb_eq. split; [tauto|].
  intros H. split; [apply fill_order_complete|exact H].
Qed.

Lemma filled_args p env j a : NoDup (attrs p) -> nth_error (attrs p) j = Some a ->
  nth_error (fill_args (gen_of p) env (set_pattern_args (gen_of p))) j = Some (Some (env a)).
Proof.
  intros Hnd Hj. unfold fill_args.
  pose proof (nodup_attrs_le _ Hnd) as Hle.
  assert (Hlt : j < length (attrs p)) by (apply nth_error_Some; congruence).
  assert (Hin : In a (attrs p)) by (eapply nth_error_In; eauto).
  apply (fold_set_nth_last (slot_of (gen_of p)) (fun a => Some (env a))).
  - unfold set_pattern_args. rewrite fold_set_nth_length, repeat_length. lia.
  - exists a. split; [apply writes_in; left; now apply is_set_in|].
    rewrite slot_of_gen_of by exact Hnd. unfold slot_fn. now rewrite (index_of_nth _ Hnd _ _ Hj).
  - intros b Hb Hs. do 2 f_equal.
    destruct (slot_injective p Hnd) as (Hinj & Hused & Hun).
    destruct (in_dec (fun x y => Bool.reflect_dec _ _ (iff_reflect _ _ (iff_sym (attr_eqb_eq x y)))) b (attrs p)) as [Hbi|Hbn].
    + destruct (Hused b Hbi) as [_ Hnb]. rewrite Hs in Hnb. congruence.
    + destruct (Hun b Hbn) as [Hs15 Hl15]. unfold ATTR_NR_ITEMS in *. lia.
Qed.

(* ---------- mini-fmt on a rewritten pattern ---------- *)
Section FmtProofs.
Variable apply_spec : bytes -> bytes -> bytes.
Variable args : list (option bytes).

Lemma fapp_nil r : fapp [] r = r.
Proof. destruct r; reflexivity. Qed.
Lemma fcons_fapp c s r : fcons c (fapp s r) = fapp (c :: s) r.
Proof. destruct r; reflexivity. Qed.
Lemma fapp_fapp a b r : fapp a (fapp b r) = fapp (a ++ b) r.
Proof. destruct r; cbn; [now rewrite app_assoc|reflexivity]. Qed.

Lemma mf_text s : forall i rest, ~ In c_lb s -> ~ In c_rb s ->
  mf apply_spec args MText i (s ++ rest) = fapp s (mf apply_spec args MText i rest).
Proof.
  induction s as [|c s IH]; intros i rest Hl Hr; [now rewrite fapp_nil|].
  cbn [app mf].
  destruct (N.eqb_spec c c_lb) as [E|E]; [exfalso; apply Hl; now left|].
  destruct (N.eqb_spec c c_rb) as [E'|E']; [exfalso; apply Hr; now left|].
  rewrite IH; [apply fcons_fapp| |]; intros Hi; [apply Hl|apply Hr]; now right.
Qed.

Lemma mf_field fs : forall acc i rest, ~ In c_lb fs -> ~ In c_rb fs ->
  mf apply_spec args (MField acc) i (fs ++ c_rb :: rest) =
  if field_supported (rev acc ++ fs) then
    match nth_error args i with
    | Some (Some v) => fapp (apply_spec (rev acc ++ fs) v) (mf apply_spec args MText (S i) rest)
    | _ => FErr FE_arg_not_found
    end
  else FErr FE_unsupported.
Proof.
  induction fs as [|c fs IH]; intros acc i rest Hl Hr.
  - cbn [app mf]. change (N.eqb c_rb c_rb) with true. cbv iota. now rewrite app_nil_r.
  - cbn [app mf].
    destruct (N.eqb_spec c c_rb) as [E'|E']; [exfalso; apply Hr; now left|].
    destruct (N.eqb_spec c c_lb) as [E|E]; [exfalso; apply Hl; now left|].
    rewrite IH; [|intros Hi; apply Hl; now right|intros Hi; apply Hr; now right].
    cbn [rev]. now rewrite <- app_assoc.
Qed.

(* literal text whose braces were doubled comes out as it was written *)
Lemma mf_dbl s : forall i rest,
  mf apply_spec args MText i (dbl_braces s ++ rest) = fapp s (mf apply_spec args MText i rest).
Proof.
  induction s as [|c s IH]; intros i rest; [now rewrite fapp_nil|].
  cbn [dbl_braces]. unfold is_brace.
  destruct (N.eqb_spec c c_lb) as [El|El].
  - subst c. cbn [orb app mf]. change (N.eqb c_lb c_lb) with true. cbv iota.
    rewrite IH. apply fcons_fapp.
  - destruct (N.eqb_spec c c_rb) as [Er|Er].
    + subst c. cbn [orb app mf]. change (N.eqb c_rb c_lb) with false.
      change (N.eqb c_rb c_rb) with true. cbv iota. rewrite IH. apply fcons_fapp.
    + cbn [orb app mf].
      destruct (N.eqb_spec c c_lb) as [E|_]; [contradiction|].
      destruct (N.eqb_spec c c_rb) as [E|_]; [contradiction|].
      rewrite IH. apply fcons_fapp.
Qed.

Lemma fspec_no_braces a sp : wfg_item (Attr a sp) -> ~ In c_lb (fspec sp) /\ ~ In c_rb (fspec sp).
Proof.
  destruct sp as [sp|]; cbn [wfg_item fspec]; [|split; intros []].
  intros (_ & Hl & Hr & _). split; intros [E|Hi]; try discriminate; auto.
Qed.

Lemma field_supported_fspec sp : field_supported (fspec sp) = true.
Proof. destruct sp; reflexivity. Qed.

Lemma mf_attr a sp i rest v : wfg_item (Attr a sp) -> nth_error args i = Some (Some v) ->
  mf apply_spec args MText i (fmt_item (Attr a sp) ++ rest) =
  fapp (apply_spec (fspec sp) v) (mf apply_spec args MText (S i) rest).
Proof.
  intros Hwf Hv. destruct (fspec_no_braces _ _ Hwf) as [Hl Hr].
  cbn [fmt_item]. rewrite <- !app_assoc. cbn [app].
  assert (Hstep : mf apply_spec args MText i (c_lb :: fspec sp ++ c_rb :: rest)
                  = mf apply_spec args (MField []) i (fspec sp ++ c_rb :: rest)).
  { destruct sp as [sp|]; reflexivity. }
  rewrite Hstep, mf_field by assumption. cbn [rev app].
  now rewrite field_supported_fspec, Hv.
Qed.

Lemma line_spec_cons env it r :
  line_spec apply_spec (it :: r) env = subst apply_spec env it ++ line_spec apply_spec r env.
Proof. unfold line_spec. cbn [map concat]. now rewrite <- app_assoc. Qed.

Lemma mf_items env : forall p i, Forall wf_item p ->
  (forall k a, nth_error (attrs p) k = Some a -> nth_error args (i + k) = Some (Some (env a))) ->
  mf apply_spec args MText i (fmt_body p ++ [c_nl]) = FOk (line_spec apply_spec p env).
Proof.
  induction p as [|[s|a sp] r IH]; intros i Hwf Hargs.
  - reflexivity.
  - inversion Hwf as [|? ? Hit Hwr]; subst. destruct Hit as (Hl & Hr & _).
    rewrite fmt_body_cons. cbn [fmt_item]. rewrite <- app_assoc, mf_text by assumption.
    rewrite (IH i Hwr) by exact Hargs. now rewrite line_spec_cons.
  - inversion Hwf as [|? ? Hit Hwr]; subst.
    rewrite fmt_body_cons, <- app_assoc.
    rewrite (mf_attr a sp i _ (env a)); [|exact Hit|].
    + rewrite (IH (S i) Hwr); [now rewrite line_spec_cons|].
      intros k b Hk. replace (S i + k) with (i + S k) by lia. now apply Hargs.
    + replace i with (i + 0) by lia. now apply Hargs.
Qed.

(* the same for the fmt string of the variant that doubles the literal braces: the literal text of
   the pattern comes out unchanged, braces included *)
Lemma mf_items_esc env : forall p i, Forall wfg_item p ->
  (forall k a, nth_error (attrs p) k = Some a -> nth_error args (i + k) = Some (Some (env a))) ->
  mf apply_spec args MText i (fmt_body (esc_pat p) ++ [c_nl]) = FOk (line_spec apply_spec p env).
Proof.
  induction p as [|[s|a sp] r IH]; intros i Hwf Hargs.
  - reflexivity.
  - inversion Hwf as [|? ? Hit Hwr]; subst.
    change (esc_pat (Lit s :: r)) with (Lit (dbl_braces s) :: esc_pat r).
    rewrite fmt_body_cons. cbn [fmt_item]. rewrite <- app_assoc, mf_dbl.
    rewrite (IH i Hwr) by exact Hargs. now rewrite line_spec_cons.
  - inversion Hwf as [|? ? Hit Hwr]; subst.
    change (esc_pat (Attr a sp :: r)) with (Attr a sp :: esc_pat r).
    rewrite fmt_body_cons, <- app_assoc.
    rewrite (mf_attr a sp i _ (env a)); [|exact Hit|].
    + rewrite (IH (S i) Hwr); [now rewrite line_spec_cons|].
      intros k b Hk. replace (S i + k) with (i + S k) by lia. now apply Hargs.
    + replace i with (i + 0) by lia. now apply Hargs.
Qed.
End FmtProofs.

Lemma slot_oob_gen_of p : NoDup (attrs p) -> slot_oob (gen_of p) = false.
Proof.
  intros Hnd. unfold slot_oob. destruct (existsb _ _) eqn:E; [|reflexivity].
  apply existsb_exists in E as (a & _ & Ha). apply Nat.leb_le in Ha.
  rewrite slot_of_gen_of in Ha by exact Hnd. unfold slot_fn in Ha.
  pose proof (nodup_attrs_le _ Hnd) as Hle.
  destruct (index_of a (attrs p)) as [j|] eqn:Ej; [|unfold ATTR_NR_ITEMS in *; lia].
  apply slot_fn_used in Ej as [_ Hlt]. lia.
Qed.

(* C12, one line: the formatter created from the printed pattern renders every statement as the
   pattern with each attribute replaced by apply_spec spec value, plus the final newline *)
Lemma format_env_line apply_spec p env : wf p -> print p <> [] ->
  format_env apply_spec (gen_of p) env = FOk (line_spec apply_spec p env).
Proof.
  intros (Hnd & Hwf & _) Hne. unfold format_env.
  assert (He : g_empty (gen_of p) = false).
  { unfold gen_of. cbn [g_empty]. destruct (print p); [contradiction|reflexivity]. }
  rewrite He, (slot_oob_gen_of _ Hnd). unfold minifmt.
  change (g_fmt (gen_of p)) with (fmt_body p ++ [c_nl]).
  apply mf_items; [exact Hwf|]. intros k a Hk. cbn [plus]. now apply filled_args.
Qed.

(* ... and for the variant that doubles the braces of the literal text: the same line, for
   literal text with any braces *)
Lemma format_env_line_esc apply_spec p env : wfg p -> print p <> [] ->
  format_env apply_spec (gen_of (esc_pat p)) env = FOk (line_spec apply_spec p env).
Proof.
  intros (Hnd & Hwf & _) Hne. unfold format_env.
  assert (Hnd' : NoDup (attrs (esc_pat p))) by now rewrite attrs_esc_pat.
  assert (He : g_empty (gen_of (esc_pat p)) = false).
  { unfold gen_of. cbn [g_empty]. rewrite print_esc_pat_nil. destruct (print p); [contradiction|reflexivity]. }
  rewrite He, (slot_oob_gen_of _ Hnd'). unfold minifmt.
  change (g_fmt (gen_of (esc_pat p))) with (fmt_body (esc_pat p) ++ [c_nl]).
  apply mf_items_esc; [exact Hwf|]. intros k a Hk. cbn [plus].
  apply filled_args; [exact Hnd'|now rewrite attrs_esc_pat].
Qed.

Lemma format_env_empty apply_spec p env : print p = [] ->
  format_env apply_spec (gen_of p) env = FOk [].
Proof. intros H. unfold format_env, gen_of. cbn [g_empty]. now rewrite H. Qed.

(* ---------- rejection at creation; fuel ---------- *)
Fixpoint idx_fold (l : list attr) (idx : nat) : nat :=
  match l with [] => idx | _ :: r => idx_fold r (Nat.modulo (S idx) 256) end.

(* processing a well-formed prefix of the pattern, whatever follows *)
Lemma gen_loop_prefix : forall p acc idx order iset fuel tail,
  Forall wfg_item p -> no_adj_lit p -> find_attr acc = None -> boundary acc p ->
  gen_loop (length (attrs p) + fuel) (acc ++ print p ++ tail) idx order iset =
  gen_loop fuel ((acc ++ fmt_body p) ++ tail) (idx_fold (attrs p) idx)
           (order_fold (attrs p) idx order) (set_fold (attrs p) iset)
  /\ find_attr (acc ++ fmt_body p) = None.
Proof.
  induction p as [|it r IH]; intros acc idx order iset fuel tail Hwf Hadj Hacc Hb.
  - cbn [print map concat fmt_body app attrs order_fold set_fold idx_fold length plus].
    rewrite app_nil_r. auto.
  - inversion Hwf as [|? ? Hit Hr]; subst.
    destruct it as [s|a sp].
    + rewrite print_cons, fmt_body_cons. cbn [print_item fmt_item attrs].
      replace (acc ++ (s ++ print r) ++ tail) with ((acc ++ s) ++ print r ++ tail)
        by (now rewrite <- !app_assoc).
      replace (acc ++ s ++ fmt_body r) with ((acc ++ s) ++ fmt_body r)
        by (now rewrite <- !app_assoc).
      apply IH; auto.
      * cbn [no_adj_lit] in Hadj. destruct r as [|[s'|a' sp'] r']; auto. contradiction.
      * cbn [no_adj_lit] in Hadj. destruct r as [|[s'|a' sp'] r']; cbn [boundary]; auto. contradiction.
    + rewrite print_cons, fmt_body_cons. cbn [attrs order_fold set_fold idx_fold length plus].
      replace (acc ++ (print_item (Attr a sp) ++ print r) ++ tail)
        with (acc ++ print_item (Attr a sp) ++ (print r ++ tail)) by (now rewrite <- !app_assoc).
      rewrite gen_loop_step by auto.
      assert (Hf : find_attr (acc ++ fmt_item (Attr a sp)) = None).
      { cbn [fmt_item app]. apply find_attr_app_none; [exact Hacc| |apply andb_false_r].
        apply find_attr_field. destruct sp; exact Hit. }
      replace (acc ++ fmt_item (Attr a sp) ++ print r ++ tail)
        with ((acc ++ fmt_item (Attr a sp)) ++ print r ++ tail) by (now rewrite <- !app_assoc).
      replace (acc ++ fmt_item (Attr a sp) ++ fmt_body r)
        with ((acc ++ fmt_item (Attr a sp)) ++ fmt_body r) by (now rewrite <- !app_assoc).
      apply IH; auto.
      destruct r as [|[s'|a' sp'] r']; cbn [boundary]; auto.
      apply find_attr_app_none; [exact Hf| |].
      * inversion Hr as [|? ? Hs' _]; subst. exact Hs'.
      * unfold fmt_item. rewrite (app_assoc [c_lb]), ends_pct_app_snoc. reflexivity.
Qed.

(* an unterminated "%(" after any well-formed prefix is rejected when the formatter is created *)
Lemma gen_raw_unterminated p rest : wfg p -> ~ In c_rp rest ->
  gen_raw (print p ++ [c_pct; c_lp] ++ rest) = LErr GE_unterminated.
Proof.
  intros (Hnd & Hwf & Hadj) Hrest. unfold gen_raw.
  set (pattern := print p ++ [c_pct; c_lp] ++ rest).
  assert (Hfuel : exists k, S (length pattern) = length (attrs p) + S k).
  { exists (length pattern - length (attrs p)). pose proof (attrs_le_print p).
    unfold pattern. rewrite !app_length in *. lia. }
  destruct Hfuel as [k ->].
  replace (pattern ++ [c_nl]) with ([] ++ print p ++ (c_pct :: c_lp :: rest ++ [c_nl]))
    by (unfold pattern; cbn [app]; now rewrite <- !app_assoc).
  destruct (gen_loop_prefix p [] 0 (repeat (ATTR_NR_ITEMS - 1) ATTR_NR_ITEMS)
              (repeat false ATTR_NR_ITEMS) (S k) (c_pct :: c_lp :: rest ++ [c_nl])
              Hwf Hadj eq_refl (boundary_nil p Hwf)) as [-> Hclean].
  cbn [gen_loop]. rewrite (find_attr_here _ _ Hclean).
  rewrite split_at_none; [reflexivity|].
  apply not_in_app; [exact Hrest|]. intros [E|[]]; discriminate.
Qed.

(* (for both variants, whatever braces the literal text of the prefix holds) *)
Lemma gen_rejects_unterminated v p rest : wfg p -> ~ In c_rp rest ->
  generate v (print p ++ [c_pct; c_lp] ++ rest) = GErr GE_unterminated.
Proof.
  intros Hwf Hrest. rewrite generate_eq. destruct (pv_esc v).
  - destruct Hwf as (Hnd & Hit & Hadj).
    rewrite (esc_scan_print p ([c_pct; c_lp] ++ rest) Hit Hadj eq_refl).
    cbn [app]. rewrite esc_scan_cons. change (N.eqb c_pct c_pct) with true. cbv iota.
    change (N.eqb c_lp c_lp) with true. cbv iota. rewrite (esc_scan_in_none _ Hrest).
    change (print (esc_pat p) ++ c_pct :: c_lp :: rest) with (print (esc_pat p) ++ [c_pct; c_lp] ++ rest).
    now rewrite (gen_raw_unterminated _ _ (wfg_esc_pat p (conj Hnd (conj Hit Hadj))) Hrest).
  - now rewrite (gen_raw_unterminated _ _ Hwf Hrest).
Qed.

(* an unknown attribute name after any well-formed prefix is rejected when the formatter is
   created (with or without a spec, whatever follows the closing parenthesis) *)
Lemma gen_raw_unknown p name sp post : wfg p ->
  ~ In c_rp name -> ~ In c_colon name -> attr_of_name name = None ->
  ~ In c_rp (fspec sp) ->
  gen_raw (print p ++ [c_pct; c_lp] ++ name ++ fspec sp ++ [c_rp] ++ post) = LErr (GE_unknown name).
Proof.
  intros (Hnd & Hwf & Hadj) Hn1 Hn2 Hname Hsp. unfold gen_raw.
  set (pattern := print p ++ [c_pct; c_lp] ++ name ++ fspec sp ++ [c_rp] ++ post).
  assert (Hfuel : exists k, S (length pattern) = length (attrs p) + S k).
  { exists (length pattern - length (attrs p)). pose proof (attrs_le_print p).
    unfold pattern. rewrite !app_length in *. lia. }
  destruct Hfuel as [k ->].
  replace (pattern ++ [c_nl])
    with ([] ++ print p ++ (c_pct :: c_lp :: (name ++ fspec sp) ++ c_rp :: (post ++ [c_nl])))
    by (unfold pattern; cbn [app]; repeat first [rewrite <- app_assoc | rewrite <- app_comm_cons];
        reflexivity).
  destruct (gen_loop_prefix p [] 0 (repeat (ATTR_NR_ITEMS - 1) ATTR_NR_ITEMS)
              (repeat false ATTR_NR_ITEMS) (S k)
              (c_pct :: c_lp :: (name ++ fspec sp) ++ c_rp :: (post ++ [c_nl]))
              Hwf Hadj eq_refl (boundary_nil p Hwf)) as [-> Hclean].
  cbn [gen_loop]. rewrite (find_attr_here _ _ Hclean).
  rewrite split_at_app by (apply not_in_app; assumption).
  destruct sp as [sp|]; cbn [fspec] in *.
  - rewrite (split_at_app _ _ _ Hn2). now rewrite Hname.
  - rewrite app_nil_r. rewrite (split_at_none _ _ Hn2). now rewrite Hname.
Qed.

Lemma gen_rejects_unknown v p name sp post : wfg p ->
  ~ In c_rp name -> ~ In c_colon name -> attr_of_name name = None ->
  ~ In c_rp (fspec sp) ->
  generate v (print p ++ [c_pct; c_lp] ++ name ++ fspec sp ++ [c_rp] ++ post) = GErr (GE_unknown name).
Proof.
  intros Hwf Hn1 Hn2 Hname Hsp. rewrite generate_eq. destruct (pv_esc v).
  - destruct Hwf as (Hnd & Hit & Hadj).
    rewrite (esc_scan_print p ([c_pct; c_lp] ++ name ++ fspec sp ++ [c_rp] ++ post) Hit Hadj eq_refl).
    replace ([c_pct; c_lp] ++ name ++ fspec sp ++ [c_rp] ++ post)
      with (c_pct :: c_lp :: (name ++ fspec sp) ++ c_rp :: post)
      by (cbn [app]; now rewrite <- !app_assoc).
    rewrite esc_scan_cons. change (N.eqb c_pct c_pct) with true. cbv iota.
    change (N.eqb c_lp c_lp) with true. cbv iota.
    rewrite (esc_scan_in _ _ (not_in_app _ _ _ Hn1 Hsp)).
    replace (print (esc_pat p) ++ c_pct :: c_lp :: (name ++ fspec sp) ++ c_rp :: esc_scan false post)
      with (print (esc_pat p) ++ [c_pct; c_lp] ++ name ++ fspec sp ++ [c_rp] ++ esc_scan false post)
      by (cbn [app]; now rewrite <- !app_assoc).
    now rewrite (gen_raw_unknown _ _ sp _ (wfg_esc_pat p (conj Hnd (conj Hit Hadj))) Hn1 Hn2 Hname Hsp).
  - now rewrite (gen_raw_unknown _ _ sp _ Hwf Hn1 Hn2 Hname Hsp).
Qed.

(* the explicit fuel of the re-scan is never exhausted: every replacement shortens the string *)
Lemma gen_loop_fuel_ok : forall fuel s idx order iset,
  length s <= fuel -> 1 <= fuel -> gen_loop fuel s idx order iset <> LErr GE_fuel.
Proof.
  induction fuel as [|f IH]; intros s idx order iset Hlen Hpos; [lia|].
  cbn [gen_loop].
  destruct (find_attr s) as [[pre rest]|] eqn:Ef; [|discriminate].
  apply find_attr_some in Ef. subst s.
  destruct (split_at c_rp rest) as [[body post]|] eqn:Er; [|discriminate].
  apply split_at_some in Er as [-> _].
  destruct (split_at c_colon body) as [[n sp]|] eqn:Ec.
  - apply split_at_some in Ec as [-> _].
    destruct (attr_of_name n); [|discriminate].
    apply IH; rewrite ?app_length in *; cbn [length] in *; rewrite ?app_length in *; cbn [length] in *; lia.
  - destruct (attr_of_name body); [|discriminate].
    apply IH; rewrite ?app_length in *; cbn [length] in *; rewrite ?app_length in *; cbn [length] in *; lia.
Qed.

Lemma generate_fuel_ok v s : generate v s <> GErr GE_fuel.
Proof.
  rewrite generate_eq. set (s' := if pv_esc v then esc_scan false s else s). unfold gen_raw.
  pose proof (gen_loop_fuel_ok (S (length s')) (s' ++ [c_nl]) 0
                (repeat (ATTR_NR_ITEMS - 1) ATTR_NR_ITEMS) (repeat false ATTR_NR_ITEMS)) as H.
  destruct (gen_loop _ _ _ _ _) as [? ? ?|e]; [discriminate|].
  intros E. inversion E; subst. apply H; [rewrite app_length; cbn; lia|lia|reflexivity].
Qed.

(* ---------- multi-line ---------- *)
Lemma split_on_nonempty c s : split_on c s <> [].
Proof.
  induction s as [|x t IH]; cbn [split_on]; [discriminate|].
  destruct (N.eqb x c); [discriminate|]. destruct (split_on c t); [contradiction|discriminate].
Qed.

Lemma split_on_no_sep c s : ~ In c s -> split_on c s = [s].
Proof.
  induction s as [|x t IH]; intros H; [reflexivity|]. cbn [split_on].
  destruct (N.eqb_spec x c) as [E|E]; [exfalso; apply H; now left|].
  rewrite IH; [reflexivity|]. intros Hi; apply H; now right.
Qed.

Lemma split_on_app c a b : ~ In c a -> split_on c (a ++ c :: b) = a :: split_on c b.
Proof.
  induction a as [|x a IH]; intros H; cbn [app split_on].
  - now rewrite N.eqb_refl.
  - destruct (N.eqb_spec x c) as [E|E]; [exfalso; apply H; now left|].
    rewrite IH; [reflexivity|]. intros Hi; apply H; now right.
Qed.

(* split_on is "the" split: segments hold no separator and joining them gives the text back *)
Fixpoint join_with (c : N) (l : list bytes) : bytes :=
  match l with
  | [] => []
  | x :: r => match r with [] => x | _ => x ++ c :: join_with c r end
  end.

Lemma split_on_join c s : join_with c (split_on c s) = s.
Proof.
  induction s as [|x t IH]; [reflexivity|]. cbn [split_on].
  destruct (N.eqb_spec x c) as [E|E].
  - subst. pose proof (split_on_nonempty c t) as Hn. cbn [join_with].
    destruct (split_on c t) eqn:Es; [contradiction|]. cbn [app]. now rewrite IH.
  - destruct (split_on c t) as [|h r] eqn:Es; [exfalso; now apply (split_on_nonempty c t)|].
    cbn [join_with] in *. destruct r; cbn [app]; now rewrite IH.
Qed.

Lemma split_on_segments c s : Forall (fun l => ~ In c l) (split_on c s).
Proof.
  induction s as [|x t IH]; cbn [split_on]; [constructor; [intros []|constructor]|].
  destruct (N.eqb_spec x c) as [E|E]; [constructor; [intros []|exact IH]|].
  destruct (split_on c t) as [|h r]; [constructor; [|constructor]|].
  - intros [H|[]]. now apply E.
  - inversion IH; subst. constructor; [|assumption]. intros [H|H]; [now apply E|contradiction].
Qed.

Lemma ml_loop_spec : forall fuel s, length s < fuel ->
  ml_loop fuel s = Some (drop_last_empty (split_on c_nl s)).
Proof.
  induction fuel as [|f IH]; intros s Hlen; [lia|]. cbn [ml_loop].
  destruct s as [|x t]; [reflexivity|].
  destruct (split_at c_nl (x :: t)) as [[l rest]|] eqn:Es.
  - apply split_at_some in Es as [Es Hl]. rewrite Es.
    rewrite IH; [|rewrite Es, app_length in Hlen; cbn [length] in Hlen; lia].
    rewrite (split_on_app _ _ _ Hl).
    pose proof (split_on_nonempty c_nl rest) as Hn.
    destruct (split_on c_nl rest) as [|h r] eqn:E; [contradiction|].
    destruct l; reflexivity.
  - apply split_at_none_inv in Es. rewrite (split_on_no_sep _ _ Es). reflexivity.
Qed.

(* add_metadata_to_multi_line_logs on (and no named args): one statement per message line;
   an empty message is one statement *)
Lemma multiline_on na msg : nargs_empty na = true ->
  dispatch_msgs true na msg =
  Some (match msg with [] => [[]] | _ => drop_last_empty (split_on c_nl msg) end).
Proof.
  intros Hna. unfold dispatch_msgs. rewrite Hna. cbn [andb]. unfold process_multi_line.
  destruct msg as [|x t]; [reflexivity|]. apply ml_loop_spec. lia.
Qed.

Lemma strip_one_nl_spec msg :
  (exists m, msg = m ++ [c_nl] /\ strip_one_nl msg = m) \/
  (strip_one_nl msg = msg /\ forall m, msg <> m ++ [c_nl]).
Proof.
  unfold strip_one_nl. destruct (rev msg) as [|c r] eqn:E.
  - right. split; [reflexivity|]. intros m Hm. rewrite Hm, rev_app_distr in E. discriminate.
  - assert (Hm : msg = rev r ++ [c]) by (rewrite <- (rev_involutive msg), E; reflexivity).
    destruct (N.eqb_spec c c_nl) as [Ec|Ec].
    + left. exists (rev r). subst c. auto.
    + right. split; [reflexivity|]. intros m Hm'. rewrite Hm' in Hm.
      apply app_inj_tail in Hm as [_ Hc]. congruence.
Qed.

(* option off, or named args present: a single statement *)
Lemma multiline_off add_meta na msg : add_meta && nargs_empty na = false ->
  dispatch_msgs add_meta na msg = Some [strip_one_nl msg].
Proof. intros H. unfold dispatch_msgs. now rewrite H. Qed.

(* ---------- MacroMetadata ---------- *)
Lemma rfind_none c s : ~ In c s -> rfind c s = None.
Proof.
  induction s as [|x t IH]; intros H; [reflexivity|]. cbn [rfind].
  rewrite IH by (intros Hi; apply H; now right).
  destruct (N.eqb_spec x c) as [E|E]; [exfalso; apply H; now left|reflexivity].
Qed.

Lemma rfind_app c a b : ~ In c b -> rfind c (a ++ c :: b) = Some (N.of_nat (length a)).
Proof.
  intros Hb. induction a as [|x a IH]; cbn [app rfind length].
  - now rewrite (rfind_none _ _ Hb), N.eqb_refl.
  - rewrite IH. now rewrite Nat2N.inj_succ.
Qed.

Lemma fnpos_loop_app a : forall b i f,
  fnpos_loop (a ++ b) i f = fnpos_loop b (i + N.of_nat (length a)) (fnpos_loop a i f).
Proof.
  induction a as [|x a IH]; intros b i f; cbn [app fnpos_loop length].
  - now rewrite N.add_0_r.
  - rewrite Nat2N.inj_succ.
    destruct (N.eqb x c_slash); rewrite IH; f_equal; lia.
Qed.

Lemma fnpos_loop_none s : forall i f, ~ In c_slash s -> fnpos_loop s i f = f.
Proof.
  induction s as [|x t IH]; intros i f H; [reflexivity|]. cbn [fnpos_loop].
  destruct (N.eqb_spec x c_slash) as [E|E]; [exfalso; apply H; now left|].
  apply IH. intros Hi; apply H; now right.
Qed.

Lemma firstn_length_app {A} (a b : list A) : firstn (length a) (a ++ b) = a.
Proof. induction a as [|x a IH]; cbn; [now destruct b|now rewrite IH]. Qed.
Lemma skipn_length_app {A} (a b : list A) : skipn (length a) (a ++ b) = b.
Proof. induction a as [|x a IH]; cbn; auto. Qed.

(* a position that fits the width of the two members is stored unchanged; with size_t (>= 64
   bits) every position is *)
Definition fits (v : pvar) (n : N) : Prop := (64 <= pv_bits v \/ n < 2 ^ pv_bits v)%N.

Lemma wpos_small v x n : fits v n -> (x <= n)%N -> wpos v x = x.
Proof.
  intros [H|H] Hx; unfold wpos.
  - apply N.leb_le in H. now rewrite H.
  - destruct (N.leb 64 (pv_bits v)); [reflexivity|]. apply N.mod_small. lia.
Qed.

(* dir is empty or ends with '/'; fname has no '/'; line has neither '/' nor ':' *)
Lemma mm_fields v dir fname line :
  (dir = [] \/ exists d, dir = d ++ [c_slash]) ->
  ~ In c_slash fname -> ~ In c_slash line -> ~ In c_colon line ->
  let sl := dir ++ fname ++ [c_colon] ++ line in
  fits v (N.of_nat (length sl)) ->
  mm_source_location sl = (dir ++ fname) ++ [c_colon] ++ line /\
  mm_full_path v sl = dir ++ fname /\
  mm_line v sl = line /\
  mm_file_name v sl = fname /\
  mm_short_source_location v sl = fname ++ [c_colon] ++ line /\
  mm_in_bounds v sl = true.
Proof.
  intros Hdir Hf Hl1 Hl2 sl Hlen.
  assert (Hsl : sl = (dir ++ fname) ++ c_colon :: line) by (unfold sl; now rewrite <- app_assoc).
  assert (Hsl2 : sl = dir ++ (fname ++ c_colon :: line)) by reflexivity.
  clearbody sl.
  assert (Hcp : colon_pos v sl = N.of_nat (length (dir ++ fname))).
  { unfold colon_pos. rewrite Hsl at 1. rewrite (rfind_app _ _ _ Hl2).
    apply (wpos_small v _ _ Hlen). rewrite Hsl, !app_length. cbn [length]. lia. }
  assert (Hfp : file_name_pos v sl = N.of_nat (length dir)).
  { unfold file_name_pos. rewrite Hsl2, fnpos_loop_app.
    rewrite fnpos_loop_none.
    - destruct Hdir as [->|[d ->]]; [cbn [fnpos_loop length]; apply (wpos_small v _ _ Hlen); lia|].
      rewrite fnpos_loop_app. cbn [fnpos_loop]. change (N.eqb c_slash c_slash) with true. cbv iota.
      rewrite app_length. cbn [length].
      rewrite (wpos_small v _ _ Hlen); [lia|]. rewrite Hsl2, !app_length. cbn [length]. lia.
    - apply not_in_app; [exact Hf|]. intros [E|Hi]; [discriminate|now apply Hl1]. }
  unfold mm_source_location, mm_full_path, mm_line, mm_file_name, mm_short_source_location,
    mm_in_bounds, firstN, skipN.
  rewrite Hcp, Hfp.
  replace (N.to_nat (N.of_nat (length (dir ++ fname)) + 1)) with (S (length (dir ++ fname))) by lia.
  replace (N.to_nat (N.of_nat (length (dir ++ fname)) - N.of_nat (length dir))) with (length fname)
    by (rewrite app_length; lia).
  rewrite !Nat2N.id.
  repeat split.
  - exact Hsl.
  - rewrite Hsl. apply firstn_length_app.
  - rewrite Hsl. replace ((dir ++ fname) ++ c_colon :: line) with (((dir ++ fname) ++ [c_colon]) ++ line)
      by (now rewrite <- app_assoc).
    replace (S (length (dir ++ fname))) with (length ((dir ++ fname) ++ [c_colon]))
      by (rewrite (app_length _ [c_colon]); cbn; lia).
    apply skipn_length_app.
  - rewrite Hsl2, skipn_length_app. apply firstn_length_app.
  - rewrite Hsl2. apply skipn_length_app.
  - apply andb_true_iff. split; [apply N.ltb_lt|apply N.leb_le].
    + rewrite Hsl, !app_length. cbn [length]. lia.
    + rewrite app_length. lia.
Qed.

(* size_t members (the repaired code): no premise on the length *)
Lemma mm_fields_wide v dir fname line :
  (64 <= pv_bits v)%N ->
  (dir = [] \/ exists d, dir = d ++ [c_slash]) ->
  ~ In c_slash fname -> ~ In c_slash line -> ~ In c_colon line ->
  let sl := dir ++ fname ++ [c_colon] ++ line in
  mm_source_location sl = (dir ++ fname) ++ [c_colon] ++ line /\
  mm_full_path v sl = dir ++ fname /\
  mm_line v sl = line /\
  mm_file_name v sl = fname /\
  mm_short_source_location v sl = fname ++ [c_colon] ++ line /\
  mm_in_bounds v sl = true.
Proof. intros Hb Hdir Hf Hl1 Hl2 sl. apply mm_fields; auto. now left. Qed.

(* ---------- runtime metadata split ---------- *)
Lemma starts_with_sep_app c t r :
  starts_with sep (c :: t) = false -> starts_with sep (c :: t ++ sep ++ r) = false.
Proof.
  unfold sep. cbn [starts_with].
  destruct (N.eqb_spec 1 c) as [E1|E1]; [|reflexivity]. cbn [andb].
  destruct t as [|d t]; [reflexivity|]. cbn [app].
  destruct (N.eqb_spec 2 d) as [E2|E2]; [|reflexivity]. cbn [andb].
  destruct t as [|e t]; [reflexivity|]. cbn [app].
  destruct (N.eqb_spec 3 e) as [E3|E3]; [|reflexivity]. cbn [andb]. discriminate.
Qed.

Lemma find_sep_here f r : find_sep f = None -> find_sep (f ++ sep ++ r) = Some (f, r).
Proof.
  induction f as [|c t IH]; intros H; [reflexivity|].
  cbn [find_sep] in H. destruct (starts_with sep (c :: t)) eqn:Es; [discriminate|].
  destruct (find_sep t) as [[a b]|] eqn:Et; [discriminate|].
  change ((c :: t) ++ sep ++ r) with (c :: t ++ sep ++ r). cbn [find_sep].
  rewrite (starts_with_sep_app _ _ _ Es). now rewrite IH.
Qed.

Lemma rt_split_fields msg file line func :
  find_sep msg = None -> find_sep file = None -> find_sep line = None ->
  rt_split (msg ++ sep ++ file ++ sep ++ line ++ sep ++ func) = Some (msg, file, line, func).
Proof.
  intros Hm Hf Hl. unfold rt_split.
  now rewrite (find_sep_here _ _ Hm), (find_sep_here _ _ Hf), (find_sep_here _ _ Hl).
Qed.

(* ---------- patterns that are not in normal form ---------- *)
Fixpoint normalize (p : pat) : pat :=
  match p with
  | [] => []
  | Lit s :: r => match normalize r with
                  | Lit t :: r' => Lit (s ++ t) :: r'
                  | r' => Lit s :: r'
                  end
  | Attr a sp :: r => Attr a sp :: normalize r
  end.

Lemma normalize_print p : print (normalize p) = print p.
Proof.
  induction p as [|[s|a sp] r IH]; [reflexivity| |].
  - cbn [normalize]. rewrite (print_cons (Lit s) r), <- IH.
    destruct (normalize r) as [|[t|a sp] r']; rewrite !print_cons; cbn [print_item]; auto.
    now rewrite app_assoc.
  - cbn [normalize]. now rewrite !print_cons, IH.
Qed.

Lemma normalize_line apply_spec env p :
  line_spec apply_spec (normalize p) env = line_spec apply_spec p env.
Proof.
  induction p as [|[s|a sp] r IH]; [reflexivity| |].
  - cbn [normalize]. rewrite (line_spec_cons apply_spec env (Lit s) r), <- IH.
    destruct (normalize r) as [|[t|a sp] r']; rewrite !line_spec_cons; cbn [subst]; auto.
    now rewrite app_assoc.
  - cbn [normalize]. now rewrite !line_spec_cons, IH.
Qed.

Lemma normalize_attrs p : attrs (normalize p) = attrs p.
Proof.
  induction p as [|[s|a sp] r IH]; [reflexivity| |]; cbn [normalize attrs].
  - rewrite <- IH. destruct (normalize r) as [|[t|a sp] r']; reflexivity.
  - now rewrite IH.
Qed.

Lemma normalize_no_adj p : no_adj_lit (normalize p).
Proof.
  induction p as [|[s|a sp] r IH]; [exact I| |]; cbn [normalize]; [|exact IH].
  destruct (normalize r) as [|[t|a sp] r']; cbn [no_adj_lit] in *; auto.
Qed.

(* ---------- refutations: what the faithful model shows false ---------- *)
Definition id_spec (fs v : bytes) : bytes := v.
Definition env0 (a : attr) : bytes := attr_name a.

(* (1) the empty pattern is special-cased: format() returns an empty string, no newline *)
Lemma empty_pattern_refuted : forall v,
  wf [] /\ generate v (print []) = GOk (gen_of []) /\
  format_env id_spec (gen_of []) env0 = FOk [] /\
  format_env id_spec (gen_of []) env0 <> FOk (line_spec id_spec [] env0).
Proof.
  intros v. repeat split; try (vm_compute; reflexivity).
  - constructor.
  - constructor.
  - destruct v as [b [|]]; reflexivity.
  - vm_compute. discriminate.
Qed.

(* (2) literal braces are not preserved: "{{" comes out as "{", a lone "{" makes format() throw
   (so "arbitrary literal text" has to exclude braces) *)
Lemma brace_literal_refuted :
  generate pv_pinned (print [Lit [c_lb; c_lb]; Attr Message None]) = GOk (gen_of [Lit [c_lb; c_lb]; Attr Message None]) /\
  format_env id_spec (gen_of [Lit [c_lb; c_lb]; Attr Message None]) env0
    = FOk (c_lb :: attr_name Message ++ [c_nl]) /\
  line_spec id_spec [Lit [c_lb; c_lb]; Attr Message None] env0
    = c_lb :: c_lb :: attr_name Message ++ [c_nl] /\
  generate pv_pinned (print [Lit [c_lb]; Attr Message None]) = GOk (gen_of [Lit [c_lb]; Attr Message None]) /\
  format_env id_spec (gen_of [Lit [c_lb]; Attr Message None]) env0 = FErr FE_unmatched_rb.
Proof. repeat split; vm_compute; reflexivity. Qed.

(* ... the same two patterns on the variant that doubles the literal braces: both are rendered
   as written *)
Lemma brace_literal_repaired :
  (exists g, generate pv_repaired (print [Lit [c_lb; c_lb]; Attr Message None]) = GOk g /\
             format_env id_spec g env0 = FOk (c_lb :: c_lb :: attr_name Message ++ [c_nl])) /\
  (exists g, generate pv_repaired (print [Lit [c_lb]; Attr Message None]) = GOk g /\
             format_env id_spec g env0 = FOk (c_lb :: attr_name Message ++ [c_nl])).
Proof. split; eexists; split; vm_compute; reflexivity. Qed.

(* (3) an attribute used twice (excluded by the property): accepted at creation, the slot of the
   first occurrence is never filled and format() throws "argument not found" *)
Lemma duplicate_attr_refuted :
  forall v, let p := [Attr Message None; Lit [32%N]; Attr Message None] in
  generate v (print p) = GOk (gen_of p) /\
  format_env id_spec (gen_of p) env0 = FErr FE_arg_not_found.
Proof. intros [b [|]]; split; vm_compute; reflexivity. Qed.

(* (4) two adjacent literal items can print as an attribute opener: the normal-form condition of
   [wf] is needed (and [normalize] restores it) *)
Lemma adjacent_literals_need_normal_form :
  forall v, let p := [Lit [c_pct]; Lit (c_lp :: attr_name Message ++ [c_rp])] in
  Forall wf_item p /\ NoDup (attrs p) /\
  generate v (print p) = GOk (gen_of [Attr Message None]) /\
  ~ Forall wf_item (normalize p).
Proof.
  intros v. cbv zeta. repeat split.
  - repeat constructor; try (apply notin_b; reflexivity).
  - constructor.
  - destruct v as [b [|]]; reflexivity.
  - intros H. inversion H as [|? ? Hit _]. destruct Hit as (_ & _ & Hf). vm_compute in Hf. discriminate.
Qed.

(* (5) MacroMetadata keeps the ':' and file-name positions in uint16_t: a source location of
   65536 bytes or more (only possible with run-time metadata) yields wrong fields *)
Definition long_path : bytes := repeat 97%N (N.to_nat 65536).
Lemma mm_long_path_refuted :
  let sl := long_path ++ [c_colon] ++ [49%N] in
  mm_full_path pv_pinned sl = [] /\ mm_full_path pv_pinned sl <> long_path /\
  N.of_nat (length (mm_line pv_pinned sl)) = 65537%N.
Proof.
  cbv zeta. assert (H : mm_full_path pv_pinned (long_path ++ [c_colon] ++ [49%N]) = []) by (vm_compute; reflexivity).
  split; [exact H|split; [rewrite H; intros E; apply (f_equal (fun l => N.of_nat (length l))) in E; vm_compute in E; discriminate|vm_compute; reflexivity]].
Qed.

(* ... the same source location with size_t positions: the fields are the stated substrings *)
Lemma mm_long_path_repaired : forall v, (64 <= pv_bits v)%N ->
  let sl := long_path ++ [c_colon] ++ [49%N] in
  mm_full_path v sl = long_path /\ mm_line v sl = [49%N] /\ mm_file_name v sl = long_path /\
  mm_in_bounds v sl = true.
Proof.
  intros v Hv.
  assert (Hns : ~ In c_slash long_path).
  { unfold long_path. intros Hi. apply repeat_spec in Hi. discriminate. }
  destruct (mm_fields_wide v [] long_path [49%N] Hv (or_introl eq_refl) Hns) as (_ & H1 & H2 & H3 & _ & H5).
  - intros [E|[]]; discriminate.
  - intros [E|[]]; discriminate.
  - cbn [app] in *. auto.
Qed.

(* ---------- non-vacuity ---------- *)
Definition ex_pat : pat :=
  [Attr Time None; Lit [32; 91]%N; Attr ThreadId None; Lit [93; 32; 37]%N;
   Attr ShortSourceLocation (Some [60; 50; 56]%N); Lit [32; 76; 79; 71; 95; 40; 41; 58]%N;
   Attr LogLevel (Some [37; 60; 57]%N); Lit [32]%N; Attr Logger None; Lit [32; 37]%N; Attr Message None].

Definition wf_itemb (it : item) : bool :=
  match it with
  | Lit s => negb (existsb (N.eqb c_lb) s) && negb (existsb (N.eqb c_rb) s)
             && match find_attr s with None => true | _ => false end
  | Attr _ None => true
  | Attr _ (Some sp) => negb (existsb (N.eqb c_rp) sp) && negb (existsb (N.eqb c_lb) sp)
                        && negb (existsb (N.eqb c_rb) sp)
                        && match find_attr sp with None => true | _ => false end
  end.

Lemma wf_itemb_sound it : wf_itemb it = true -> wf_item it.
Proof.
  destruct it as [s|a [sp|]]; cbn [wf_itemb wf_item]; [| |auto].
  - rewrite !andb_true_iff, !negb_true_iff. intros [[H1 H2] H3].
    repeat split; try (now apply notin_b). now destruct (find_attr s).
  - rewrite !andb_true_iff, !negb_true_iff. intros [[[H1 H2] H3] H4].
    repeat split; try (now apply notin_b). now destruct (find_attr sp).
Qed.

Lemma ex_pat_wf : wf ex_pat.
Proof.
  split; [|split].
  - cbn [ex_pat attrs].
    repeat (constructor; [cbn; intros H; repeat (destruct H as [H|H]; [discriminate|]); exact H|]).
    constructor.
  - unfold ex_pat. repeat (constructor; [apply wf_itemb_sound; reflexivity|]). constructor.
  - cbn. exact I.
Qed.

Lemma ex_pat_nonempty : print ex_pat <> [].
Proof. vm_compute. discriminate. Qed.

(* ---------- the statements of C12 assembled ---------- *)
Lemma line_created v apply_spec p : wf p -> print p <> [] ->
  exists g, generate v (print p) = GOk g /\
            forall st, format v apply_spec g st = FOk (line_spec apply_spec p (env_of v st)).
Proof.
  intros Hwf Hne. exists (gen_of p). split; [now apply gen_print|].
  intros st. unfold format. now apply format_env_line.
Qed.

(* the variant that doubles the braces of the literal text: literal text with any braces *)
Lemma line_created_esc v apply_spec p : pv_esc v = true -> wfg p -> print p <> [] ->
  exists g, generate v (print p) = GOk g /\
            forall st, format v apply_spec g st = FOk (line_spec apply_spec p (env_of v st)).
Proof.
  intros He Hwf Hne. exists (gen_of (esc_pat p)). split; [now apply gen_print_esc|].
  intros st. unfold format. now apply format_env_line_esc.
Qed.

(* the patterns of a variant: literal text without braces for the code that hands them to fmt as
   they are, any literal text (without "%(") for the code that doubles them first *)
Definition wfv (v : pvar) (p : pat) : Prop := if pv_esc v then wfg p else wf p.

Lemma wf_wfv v p : wf p -> wfv v p.
Proof. unfold wfv. destruct (pv_esc v); [apply wf_wfg|auto]. Qed.

Lemma line_created_v v apply_spec p : wfv v p -> print p <> [] ->
  exists g, generate v (print p) = GOk g /\
            forall st, format v apply_spec g st = FOk (line_spec apply_spec p (env_of v st)).
Proof.
  unfold wfv. destruct (pv_esc v) eqn:He; intros Hwf Hne;
    [now apply line_created_esc|now apply line_created].
Qed.

(* any item list whose normal form is well formed (adjacent literals are merged first) *)
Lemma line_created_normalized apply_spec p : wf (normalize p) -> print p <> [] ->
  forall v, exists g, generate v (print p) = GOk g /\
            forall env, format_env apply_spec g env = FOk (line_spec apply_spec p env).
Proof.
  intros Hwf Hne v. exists (gen_of (normalize p)). split.
  - rewrite <- (normalize_print p). now apply gen_print.
  - intros env. rewrite <- (normalize_line apply_spec env p).
    apply format_env_line; [exact Hwf|now rewrite normalize_print].
Qed.

Lemma sink_lines_on v apply_spec p st : wf p -> print p <> [] -> nargs_empty (s_nargs st) = true ->
  sink_lines v apply_spec true (gen_of p) st =
  Some (map (fun m => FOk (line_spec apply_spec p (env_of v (with_msg st m))))
            (match s_msg st with [] => [[]] | _ => drop_last_empty (split_on c_nl (s_msg st)) end)).
Proof.
  intros Hwf Hne Hna. unfold sink_lines. rewrite (multiline_on _ _ Hna). f_equal.
  apply map_ext. intros m. unfold format. now apply format_env_line.
Qed.

Lemma sink_lines_on_esc v apply_spec p st : wfg p -> print p <> [] -> nargs_empty (s_nargs st) = true ->
  sink_lines v apply_spec true (gen_of (esc_pat p)) st =
  Some (map (fun m => FOk (line_spec apply_spec p (env_of v (with_msg st m))))
            (match s_msg st with [] => [[]] | _ => drop_last_empty (split_on c_nl (s_msg st)) end)).
Proof.
  intros Hwf Hne Hna. unfold sink_lines. rewrite (multiline_on _ _ Hna). f_equal.
  apply map_ext. intros m. unfold format. now apply format_env_line_esc.
Qed.

Lemma sink_lines_off v apply_spec add_meta p st : wf p -> print p <> [] ->
  add_meta && nargs_empty (s_nargs st) = false ->
  sink_lines v apply_spec add_meta (gen_of p) st =
  Some [FOk (line_spec apply_spec p (env_of v (with_msg st (strip_one_nl (s_msg st)))))].
Proof.
  intros Hwf Hne Hoff. unfold sink_lines. rewrite (multiline_off _ _ _ Hoff). cbn [map].
  unfold format. now rewrite format_env_line.
Qed.

Lemma sink_lines_off_esc v apply_spec add_meta p st : wfg p -> print p <> [] ->
  add_meta && nargs_empty (s_nargs st) = false ->
  sink_lines v apply_spec add_meta (gen_of (esc_pat p)) st =
  Some [FOk (line_spec apply_spec p (env_of v (with_msg st (strip_one_nl (s_msg st)))))].
Proof.
  intros Hwf Hne Hoff. unfold sink_lines. rewrite (multiline_off _ _ _ Hoff). cbn [map].
  unfold format. now rewrite format_env_line_esc.
Qed.

(* the text a line is made of: every attribute of the statement, as the property lists them *)
Lemma env_of_fields v st :
  env_of v st Time = s_time st /\ env_of v st LogLevel = s_level st /\
  env_of v st LogLevelShortCode = s_short st /\ env_of v st Logger = s_logger st /\
  env_of v st ThreadId = s_thread_id st /\ env_of v st ThreadName = s_thread_name st /\
  env_of v st ProcessId = s_process_id st /\ env_of v st CallerFunction = s_func st /\
  env_of v st Message = s_msg st /\
  env_of v st Tags = match s_tags st with Some t => t | None => [] end /\
  env_of v st NamedArgs = match s_nargs st with Some l => join_nargs l | None => [] end /\
  env_of v st SourceLocation = s_srcloc st /\
  env_of v st FullPath = mm_full_path v (s_srcloc st) /\ env_of v st LineNumber = mm_line v (s_srcloc st) /\
  env_of v st FileName = mm_file_name v (s_srcloc st) /\
  env_of v st ShortSourceLocation = mm_short_source_location v (s_srcloc st).
Proof. repeat split. Qed.

(* the named_args text is "k: v" joined with ", " *)
Fixpoint join_str (sp : bytes) (l : list bytes) : bytes :=
  match l with
  | [] => []
  | x :: r => match r with [] => x | _ => x ++ sp ++ join_str sp r end
  end.

Lemma join_nargs_spec l :
  join_nargs l = join_str [44; 32]%N (map (fun kv => fst kv ++ [58; 32]%N ++ snd kv) l).
Proof.
  induction l as [|[k v] r IH]; [reflexivity|].
  cbn [join_nargs map fst snd join_str]. destruct r as [|kv r'].
  - cbn [map]. now rewrite app_nil_r.
  - rewrite IH. cbn [map]. now rewrite <- !app_assoc.
Qed.

(* ---------- the adjacency test of the scan, as the C++ writes it ---------- *)
(* pattern.find_first_of('(', arg_identifier_pos) - arg_identifier_pos == 1, at a '%': the first
   '(' at or after the '%' is one position further, i.e. the character after the '%' is '(' —
   which is what find_attr tests *)
Fixpoint find_first (c : N) (s : bytes) : option nat :=
  match s with
  | [] => None
  | x :: t => if N.eqb x c then Some 0 else option_map S (find_first c t)
  end.

Lemma adjacency_test t :
  find_first c_lp (c_pct :: t) = Some 1 <-> exists r, t = c_lp :: r.
Proof.
  split.
  - cbn [find_first]. change (N.eqb c_pct c_lp) with false. cbv iota.
    destruct t as [|d r]; cbn [find_first option_map]; [discriminate|].
    destruct (N.eqb_spec d c_lp) as [E|E]; [subst; eauto|].
    destruct (find_first c_lp r); cbn [option_map]; discriminate.
  - intros [r ->]. reflexivity.
Qed.

(* ---------- more non-vacuity witnesses ---------- *)
Definition ex_name : bytes := [102; 111; 111]%N.      (* "foo" *)
Lemma ex_unknown_name : forall v,
  ~ In c_rp ex_name /\ ~ In c_colon ex_name /\ attr_of_name ex_name = None /\
  ~ In c_rp (fspec (Some [62; 53]%N)) /\
  generate v (print ex_pat ++ [c_pct; c_lp] ++ ex_name ++ fspec (Some [62; 53]%N) ++ [c_rp] ++ [33%N])
    = GErr (GE_unknown ex_name) /\
  generate v (print ex_pat ++ [c_pct; c_lp] ++ ex_name) = GErr GE_unterminated.
Proof.
  intros [b [|]]; repeat split; try (apply notin_b; reflexivity); vm_compute; reflexivity.
Qed.

Definition ex_dir : bytes := [47; 97; 47]%N.          (* "/a/" *)
Definition ex_fname : bytes := [120; 46; 99]%N.       (* "x.c" *)
Definition ex_line : bytes := [49; 50]%N.             (* "12" *)
Lemma ex_mm :
  (ex_dir = [] \/ exists d, ex_dir = d ++ [c_slash]) /\
  ~ In c_slash ex_fname /\ ~ In c_slash ex_line /\ ~ In c_colon ex_line /\
  fits pv_pinned (N.of_nat (length (ex_dir ++ ex_fname ++ [c_colon] ++ ex_line))) /\
  fits pv_repaired (N.of_nat (length (ex_dir ++ ex_fname ++ [c_colon] ++ ex_line))) /\
  mm_file_name pv_pinned (ex_dir ++ ex_fname ++ [c_colon] ++ ex_line) = ex_fname /\
  mm_file_name pv_repaired (ex_dir ++ ex_fname ++ [c_colon] ++ ex_line) = ex_fname.
Proof.
  split; [right; exists [47; 97]%N; reflexivity|].
  repeat split; try (apply notin_b; reflexivity).
  - right. reflexivity.
  - left. cbn. discriminate.
Qed.

(* a pattern with braces in its literal text: {"level": "%(log_level)", "msg": "%(message)"} *)
Definition ex_json_pat : pat :=
  [Lit [123; 34; 108; 101; 118; 101; 108; 34; 58; 32; 34]%N; Attr LogLevel None;
   Lit [34; 44; 32; 34; 109; 115; 103; 34; 58; 32; 34]%N; Attr Message None; Lit [34; 125]%N].

Lemma ex_json_pat_wfg : wfg ex_json_pat /\ print ex_json_pat <> [] /\ ~ wf ex_json_pat.
Proof.
  split; [|split].
  - split; [|split].
    + cbn [ex_json_pat attrs].
      repeat (constructor; [cbn; intros H; repeat (destruct H as [H|H]; [discriminate|]); exact H|]).
      constructor.
    + unfold ex_json_pat. repeat (constructor; [cbn [wfg_item]; try reflexivity; exact I|]). constructor.
    + cbn. exact I.
  - vm_compute. discriminate.
  - intros (_ & H & _). inversion H as [|? ? Hit _]. destruct Hit as (Hl & _). apply Hl. now left.
Qed.

Lemma ex_multiline :
  nargs_empty None = true /\
  dispatch_msgs true None [97; 10; 10; 98; 10]%N = Some [[97%N]; []; [98%N]] /\
  dispatch_msgs false None [97; 10; 10]%N = Some [[97; 10]%N] /\
  dispatch_msgs true (Some [([107%N], [118%N])]) [97; 10; 98]%N = Some [[97; 10; 98]%N].
Proof. repeat split. Qed.
