(* M-NA / Json: detail::JsonSink::write_log + generate_json_message, and a small recogniser for the
   JSON subset the sink can produce (one object, string members, no insignificant white space).
   Definitions only.
   [json_line] is the line for a list of pairs appended as they are; [json_sink_line esc] is what the
   sink writes for the pairs it is handed: esc = false is the sink as pinned (keys and values appended
   raw: D16), esc = true the repaired sink (JsonSink::_append_escaping_newlines: every newline of a key
   or value is written as the two characters backslash n).  Which one stands for the code is read
   from the source on every run (TieC19.src_json_esc). *)
From Coq Require Import List NArith Arith Bool.
From Quill Require Import Format.NaFmt.
Import ListNotations.

(* the fixed member names as bytes (NaJsonProofs.member_names_spelled checks the spelling against
   Coq string literals; literals are kept out of this file because it is extracted) *)
Local Open Scope N_scope.
Definition k_timestamp : str := [116; 105; 109; 101; 115; 116; 97; 109; 112].
Definition k_file_name : str := [102; 105; 108; 101; 95; 110; 97; 109; 101].
Definition k_line : str := [108; 105; 110; 101].
Definition k_thread_id : str := [116; 104; 114; 101; 97; 100; 95; 105; 100].
Definition k_logger : str := [108; 111; 103; 103; 101; 114].
Definition k_log_level : str := [108; 111; 103; 95; 108; 101; 118; 101; 108].
Definition k_message : str := [109; 101; 115; 115; 97; 103; 101].
Local Close Scope N_scope.

(* the fields the sink receives besides the template and the pairs; std::to_string(timestamp),
   MacroMetadata::file_name()/line(), the thread id, logger name and level description are
   inputs here (they are produced by code outside this property) *)
Record hdr := { h_ts : str; h_file : str; h_line : str; h_tid : str; h_logger : str; h_level : str }.

(* write_log: every '\n' of the message format becomes ' ' *)
Definition no_newlines (t : str) : str := map (fun c => if N.eqb c NL then SP else c) t.

(* "name":"value" *)
Definition member (k v : str) : str := QUOTE :: k ++ [QUOTE; COLON; QUOTE] ++ v ++ [QUOTE].

Definition fixed_members (h : hdr) (t : str) : list (str * str) :=
  [ (k_timestamp, h_ts h); (k_file_name, h_file h); (k_line, h_line h);
    (k_thread_id, h_tid h); (k_logger, h_logger h); (k_log_level, h_level h);
    (k_message, no_newlines t) ].

(* generate_json_message: the fixed part produced by one fmtquill::format call, then
   ,"key":"value" appended for each pair; write_log appends "}\n" *)
Definition json_fixed (h : hdr) (t : str) : str :=
  LB :: join [COMMA] (map (fun kv => member (fst kv) (snd kv)) (fixed_members h t)).

Fixpoint json_pairs (l : list (str * str)) : str :=
  match l with
  | [] => []
  | (k, v) :: r => COMMA :: member k v ++ json_pairs r
  end.

Definition json_line (h : hdr) (t : str) (named : option (list (str * str))) : str :=
  json_fixed h t ++ json_pairs (match named with Some l => l | None => [] end) ++ [RB; NL].

(* JsonSink::_append_escaping_newlines: the text with every '\n' replaced by the two bytes '\' 'n' *)
Definition esc_nl (s : str) : str := flat_map (fun c => if N.eqb c NL then [BSL; 110%N] else [c]) s.
Definition esc_if (esc : bool) (s : str) : str := if esc then esc_nl s else s.
Definition esc_pairs (esc : bool) (l : list (str * str)) : list (str * str) :=
  map (fun kv => (esc_if esc (fst kv), esc_if esc (snd kv))) l.

(* the line the sink writes when it is handed the template [t] and the pairs [named] *)
Definition json_sink_line (esc : bool) (h : hdr) (t : str) (named : option (list (str * str))) : str :=
  json_line h t (option_map (esc_pairs esc) named).

(* ---- a JSON recogniser ------------------------------------------------------------------------ *)
(* Accepts  {"k":"v","k":"v",...}  with RFC 8259 strings restricted to ASCII: any byte 0x20..0x7F
   except '"' and '\', or a two-character escape  \" \\ \/ \b \f \n \r \t  (decoded).  \uXXXX,
   bytes >= 0x80, white space between tokens and non-string values are rejected, so whatever is
   accepted is valid JSON denoting the returned list of members (in order, duplicates kept). *)
Definition unesc (e : N) : option N :=
  if N.eqb e QUOTE then Some QUOTE
  else if N.eqb e BSL then Some BSL
  else if N.eqb e 47 then Some 47%N
  else if N.eqb e 98 then Some 8%N
  else if N.eqb e 102 then Some 12%N
  else if N.eqb e 110 then Some 10%N
  else if N.eqb e 114 then Some 13%N
  else if N.eqb e 116 then Some 9%N
  else None.

(* after the opening quote: (decoded contents, rest after the closing quote) *)
Fixpoint jstring (s : str) : option (str * str) :=
  match s with
  | [] => None
  | c :: t =>
    if N.eqb c QUOTE then Some ([], t)
    else if N.eqb c BSL then
      match t with
      | e :: t' =>
        match unesc e, jstring t' with
        | Some d, Some (r, rest) => Some (d :: r, rest)
        | _, _ => None
        end
      | [] => None
      end
    else if N.ltb c 32 || N.leb 128 c then None
    else match jstring t with
         | Some (r, rest) => Some (c :: r, rest)
         | None => None
         end
  end.

(* one member "k":"v" *)
Definition jmember (s : str) : option ((str * str) * str) :=
  match s with
  | q :: t =>
    if N.eqb q QUOTE then
      match jstring t with
      | Some (k, c :: q2 :: t2) =>
        if N.eqb c COLON && N.eqb q2 QUOTE then
          match jstring t2 with
          | Some (v, rest) => Some ((k, v), rest)
          | None => None
          end
        else None
      | _ => None
      end
    else None
  | [] => None
  end.

(* members separated by ',' up to the closing '}' ; returns the rest after '}' *)
Fixpoint jmembers (fuel : nat) (s : str) : option (list (str * str) * str) :=
  match fuel with
  | O => None
  | S f =>
    match jmember s with
    | Some (kv, c :: rest) =>
      if N.eqb c RB then Some ([kv], rest)
      else if N.eqb c COMMA then
        match jmembers f rest with
        | Some (l, rest') => Some (kv :: l, rest')
        | None => None
        end
      else None
    | _ => None
    end
  end.

(* a whole sink line: one non-empty object followed by exactly "\n" *)
Definition json_parse_line (s : str) : option (list (str * str)) :=
  match s with
  | c :: t =>
    if N.eqb c LB then
      match jmembers (length t) t with
      | Some (l, [n]) => if N.eqb n NL then Some l else None
      | _ => None
      end
    else None
  | [] => None
  end.

(* a byte that may stand unescaped inside a JSON string *)
Definition plain (c : N) : bool :=
  N.leb 32 c && N.ltb c 128 && negb (N.eqb c QUOTE) && negb (N.eqb c BSL).
Definition plain_str (s : str) : bool := forallb plain s.
