(* Fmt (C12 part): byte strings and the *mini-fmt* field parser standing for fmtquill::vformat_to on
   the format strings PatternFormatter generates.
   Definitions only (no proofs) so that the extracted model still runs when a proof breaks.

   What ONE replacement field renders to is NOT modelled: [apply_spec fs v] is an oracle (Section
   variable).  [fs] is the text between '{' and '}' (empty, or ':' followed by the format spec),
   [v] the argument.  In the extracted runner it is backed by a table the harness fills by calling
   the real fmtquill::format("{fs}", v).  Neither fill/align/width nor precision is re-implemented. *)
From Coq Require Import List NArith Bool.
Import ListNotations.

Definition bytes := list N.

Definition c_nl : N := 10%N.      (* '\n' *)
Definition c_pct : N := 37%N.     (* '%' *)
Definition c_lp : N := 40%N.      (* '(' *)
Definition c_rp : N := 41%N.      (* ')' *)
Definition c_slash : N := 47%N.   (* '/' *)
Definition c_colon : N := 58%N.   (* ':' *)
Definition c_lb : N := 123%N.     (* '{' *)
Definition c_rb : N := 125%N.     (* '}' *)

Fixpoint bytes_eqb (a b : bytes) : bool :=
  match a, b with
  | [], [] => true
  | x :: a', y :: b' => N.eqb x y && bytes_eqb a' b'
  | _, _ => false
  end.

(* s.find_first_of(c): split at the first occurrence of c (c itself dropped) *)
Fixpoint split_at (c : N) (s : bytes) : option (bytes * bytes) :=
  match s with
  | [] => None
  | x :: t =>
    if N.eqb x c then Some ([], t)
    else match split_at c t with
         | Some (a, b) => Some (x :: a, b)
         | None => None
         end
  end.

(* vector / array element assignment; an index past the end leaves the list unchanged (callers
   that mirror C++ array writes check the bound separately and report it) *)
Fixpoint set_nth {A} (i : nat) (x : A) (l : list A) : list A :=
  match l, i with
  | [], _ => []
  | _ :: t, O => x :: t
  | h :: t, S i' => h :: set_nth i' x t
  end.

(* ---------------------------------------------------------------------------------------------
   mini-fmt *)
Inductive ferr :=
| FE_unmatched_rb     (* "unmatched '}' in format string" *)
| FE_unterminated     (* '{' at the end / replacement field without '}' : "invalid format string" *)
| FE_arg_not_found    (* automatic index past the supplied arguments, or an argument of type none *)
| FE_unsupported      (* manual / named index, nested '{' in a spec: outside the mini-fmt fragment *)
| FE_slot_oob.        (* (used by M-PAT) _args[] written past its 16 elements *)

Inductive fres := FOk (s : bytes) | FErr (e : ferr).

Definition fcons (c : N) (r : fres) : fres := match r with FOk s => FOk (c :: s) | e => e end.
Definition fapp (a : bytes) (r : fres) : fres := match r with FOk s => FOk (a ++ s) | e => e end.

(* a replacement field "{fs}" is in the fragment when fs is empty ("{}") or starts with ':' *)
Definition field_supported (fs : bytes) : bool :=
  match fs with [] => true | c :: _ => N.eqb c c_colon end.

Inductive fmode := MText | MField (acc : bytes).   (* acc: field text read so far, reversed *)

Section MiniFmt.
Variable apply_spec : bytes -> bytes -> bytes.
Variable args : list (option bytes).     (* None = basic_format_arg of type none *)

(* one pass over the format string, automatic argument indexing ([i] = next index) *)
Fixpoint mf (m : fmode) (i : nat) (s : bytes) {struct s} : fres :=
  match m with
  | MText =>
    match s with
    | [] => FOk []
    | c :: t =>
      if N.eqb c c_lb then
        match t with
        | [] => FErr FE_unterminated
        | d :: t' => if N.eqb d c_lb then fcons c_lb (mf MText i t')       (* "{{" *)
                     else mf (MField []) i t
        end
      else if N.eqb c c_rb then
        match t with
        | d :: t' => if N.eqb d c_rb then fcons c_rb (mf MText i t')       (* "}}" *)
                     else FErr FE_unmatched_rb
        | [] => FErr FE_unmatched_rb
        end
      else fcons c (mf MText i t)
    end
  | MField acc =>
    match s with
    | [] => FErr FE_unterminated
    | c :: t =>
      if N.eqb c c_rb then
        let fs := rev acc in
        if field_supported fs then
          match nth_error args i with
          | Some (Some v) => fapp (apply_spec fs v) (mf MText (S i) t)
          | _ => FErr FE_arg_not_found
          end
        else FErr FE_unsupported
      else if N.eqb c c_lb then FErr FE_unsupported
      else mf (MField (c :: acc)) i t
    end
  end.

Definition minifmt (s : bytes) : fres := mf MText 0 s.
End MiniFmt.

(* ---------------------------------------------------------------------------------------------
   table-backed oracle for the extracted runner: entries ((fs, v), rendering); a missing entry
   yields the non-byte marker 257 so that it is visible in the observation *)
Fixpoint table_lookup (tbl : list (bytes * bytes * bytes)) (fs v : bytes) : bytes :=
  match tbl with
  | [] => [257%N]
  | (fs', v', out) :: r => if bytes_eqb fs fs' && bytes_eqb v v' then out else table_lookup r fs v
  end.

(* decoding helpers for the flat integer case lines: a string is <len> <byte>*len *)
Definition take_bytes (l : list N) : option (bytes * list N) :=
  match l with
  | [] => None
  | n :: r => let k := N.to_nat n in
              if Nat.leb k (length r) then Some (firstn k r, skipn k r) else None
  end.

Definition enc_bytes (s : bytes) : list N := N.of_nat (length s) :: s.

(* observation of a formatting result: 0 <len> bytes | 1 <error kind>; a rendering that contains
   a non-byte (>= 256: the oracle reported that fmt throws for that field, or a missing table
   entry) is the observation "throws" *)
Definition ferr_code (e : ferr) : N :=
  match e with
  | FE_unmatched_rb => 1 | FE_unterminated => 2 | FE_arg_not_found => 3
  | FE_unsupported => 4 | FE_slot_oob => 5
  end%N.

Definition enc_fres (r : fres) : list N :=
  match r with
  | FOk s => if existsb (fun b => N.leb 256 b) s then [1; 6]%N else 0%N :: enc_bytes s
  | FErr e => [1%N; ferr_code e]
  end.
