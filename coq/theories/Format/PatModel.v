(* M-PAT: executable model of quill::PatternFormatter (include/quill/backend/PatternFormatter.h),
   the derived fields of MacroMetadata (include/quill/core/MacroMetadata.h), the runtime-metadata
   split and the multi-line handling of BackendWorker (_apply_runtime_metadata,
   _dispatch_transit_event_to_sinks, _process_multi_line_message).
   Definitions only (no proofs) so that the extracted model still runs when a proof breaks. *)
From Coq Require Import List NArith Arith Bool Ascii.
From Quill Require Import Format.PatFmt.
Import ListNotations.

(* ---------------------------------------------------------------------------------------------
   attributes: enum PatternFormatter::Attribute, in enum order *)
Inductive attr :=
| Time | FileName | CallerFunction | LogLevel | LogLevelShortCode | LineNumber | Logger | FullPath
| ThreadId | ThreadName | ProcessId | SourceLocation | ShortSourceLocation | Message | Tags | NamedArgs.

Definition all_attrs : list attr :=
  [Time; FileName; CallerFunction; LogLevel; LogLevelShortCode; LineNumber; Logger; FullPath;
   ThreadId; ThreadName; ProcessId; SourceLocation; ShortSourceLocation; Message; Tags; NamedArgs].

Definition ATTR_NR_ITEMS : nat := 16.

Definition attr_idx (a : attr) : nat :=
  match a with
  | Time => 0 | FileName => 1 | CallerFunction => 2 | LogLevel => 3 | LogLevelShortCode => 4
  | LineNumber => 5 | Logger => 6 | FullPath => 7 | ThreadId => 8 | ThreadName => 9
  | ProcessId => 10 | SourceLocation => 11 | ShortSourceLocation => 12 | Message => 13
  | Tags => 14 | NamedArgs => 15
  end.

Definition attr_eqb (a b : attr) : bool := Nat.eqb (attr_idx a) (attr_idx b).

(* the names passed to _generate_fmt_format_string ("time"_a = "", ...) = keys of attr_map *)
(* bytes of the names, written out so that no Coq [string] is extracted (the text form is the
   lemma PatProofs.attr_name_text) *)
Definition attr_name (a : attr) : bytes :=
  match a with
  | Time => [116; 105; 109; 101]    (* "time" *)
  | FileName => [102; 105; 108; 101; 95; 110; 97; 109; 101]    (* "file_name" *)
  | CallerFunction => [99; 97; 108; 108; 101; 114; 95; 102; 117; 110; 99; 116; 105; 111; 110]    (* "caller_function" *)
  | LogLevel => [108; 111; 103; 95; 108; 101; 118; 101; 108]    (* "log_level" *)
  | LogLevelShortCode => [108; 111; 103; 95; 108; 101; 118; 101; 108; 95; 115; 104; 111; 114; 116; 95; 99; 111; 100; 101]    (* "log_level_short_code" *)
  | LineNumber => [108; 105; 110; 101; 95; 110; 117; 109; 98; 101; 114]    (* "line_number" *)
  | Logger => [108; 111; 103; 103; 101; 114]    (* "logger" *)
  | FullPath => [102; 117; 108; 108; 95; 112; 97; 116; 104]    (* "full_path" *)
  | ThreadId => [116; 104; 114; 101; 97; 100; 95; 105; 100]    (* "thread_id" *)
  | ThreadName => [116; 104; 114; 101; 97; 100; 95; 110; 97; 109; 101]    (* "thread_name" *)
  | ProcessId => [112; 114; 111; 99; 101; 115; 115; 95; 105; 100]    (* "process_id" *)
  | SourceLocation => [115; 111; 117; 114; 99; 101; 95; 108; 111; 99; 97; 116; 105; 111; 110]    (* "source_location" *)
  | ShortSourceLocation => [115; 104; 111; 114; 116; 95; 115; 111; 117; 114; 99; 101; 95; 108; 111; 99; 97; 116; 105; 111; 110]    (* "short_source_location" *)
  | Message => [109; 101; 115; 115; 97; 103; 101]    (* "message" *)
  | Tags => [116; 97; 103; 115]    (* "tags" *)
  | NamedArgs => [110; 97; 109; 101; 100; 95; 97; 114; 103; 115]    (* "named_args" *)
  end%N.

(* for (i...) if (named_args[i].name == attr_name) { id = named_args[i].id; break; }
   followed by _attribute_from_string(attr_name) (the two tables list the same names in the same
   order, so one lookup stands for both) *)
Definition attr_of_name (n : bytes) : option attr :=
  find (fun a => bytes_eqb (attr_name a) n) all_attrs.

(* ---------------------------------------------------------------------------------------------
   patterns *)
Inductive item := Lit (s : bytes) | Attr (a : attr) (sp : option bytes).
Definition pat := list item.

(* text of a replacement field between the braces: "" or ":spec" *)
Definition fspec (sp : option bytes) : bytes :=
  match sp with None => [] | Some s => c_colon :: s end.

Definition print_item (it : item) : bytes :=
  match it with
  | Lit s => s
  | Attr a sp => [c_pct; c_lp] ++ attr_name a ++ fspec sp ++ [c_rp]
  end.
Definition print (p : pat) : bytes := concat (map print_item p).

Fixpoint attrs (p : pat) : list attr :=
  match p with
  | [] => []
  | Lit _ :: r => attrs r
  | Attr a _ :: r => a :: attrs r
  end.

(* ---------------------------------------------------------------------------------------------
   the variant of the code the model stands for (leading arguments of a case line; the variant of
   the checked tree is read from the T-src facts, TieC12.v):
     pv_bits = width of MacroMetadata::_colon_separator_pos / _file_name_pos (16 = uint16_t, the
               pinned code; 32 = uint32_t; >= 64 = size_t: no position of a string in memory wraps)
     pv_esc  = _generate_fmt_format_string doubles the '{' and '}' of the literal text before the
               %(...) attributes are rewritten (false = the pinned code: handed to fmt as they are) *)
Record pvar := { pv_bits : N; pv_esc : bool }.
Definition pv_pinned : pvar := {| pv_bits := 16; pv_esc := false |}.
Definition pv_repaired : pvar := {| pv_bits := 64; pv_esc := true |}.

(* ---------------------------------------------------------------------------------------------
   _generate_fmt_format_string *)

(* the pre-pass of the repaired code:
     for (i = 0; i < pattern.size(); ++i)
       if (pattern[i] == '%' && i + 1 < pattern.size() && pattern[i + 1] == '(')
         { i = pattern.find_first_of(')', i); if (i == npos) break; }
       else if (pattern[i] == '{' || pattern[i] == '}') { pattern.insert(i, 1, pattern[i]); ++i; }
   [inattr] = between "%(" and the next ')' (copied unchanged, as is everything behind a "%("
   that is never closed) *)
Definition is_brace (c : N) : bool := N.eqb c c_lb || N.eqb c c_rb.

Fixpoint esc_scan (inattr : bool) (s : bytes) : bytes :=
  match s with
  | [] => []
  | c :: t =>
    if inattr then c :: esc_scan (negb (N.eqb c c_rp)) t
    else if N.eqb c c_pct then
      match t with
      | d :: r => if N.eqb d c_lp then c :: d :: esc_scan true r else c :: esc_scan false t
      | [] => [c]
      end
    else if is_brace c then c :: c :: esc_scan false t
    else c :: esc_scan false t
  end.

(* what the pre-pass is expected to do to a pattern given as items: every brace of the literal
   text doubled, attributes (and their specs) unchanged *)
Fixpoint dbl_braces (s : bytes) : bytes :=
  match s with
  | [] => []
  | c :: t => if is_brace c then c :: c :: dbl_braces t else c :: dbl_braces t
  end.
Definition esc_item (it : item) : item :=
  match it with Lit s => Lit (dbl_braces s) | Attr a sp => Attr a sp end.
Definition esc_pat (p : pat) : pat := map esc_item p.

(* The scan for the next attribute: arg_identifier_pos = find_first_of('%') then, at each '%',
   the test  find_first_of('(', pos) - pos == 1  (the character after the '%' is '('), otherwise
   find_first_of('%', pos + 1).  Returns the text before "%(" and the text after it. *)
Fixpoint find_attr (s : bytes) : option (bytes * bytes) :=
  match s with
  | [] => None
  | c :: t =>
    let next := match find_attr t with
                | Some (a, b) => Some (c :: a, b)
                | None => None
                end in
    if N.eqb c c_pct then
      match t with
      | d :: r => if N.eqb d c_lp then Some ([], r) else next
      | [] => None
      end
    else next
  end.

Inductive gerr :=
| GE_unterminated              (* "Invalid format pattern" : no ')' after "%(" *)
| GE_unknown (name : bytes)    (* "attribute with name ... is invalid" *)
| GE_fuel.                     (* the re-scan ran out of fuel (never happens: PatProofs.generate_fuel_ok) *)

(* result of the constructor: _fmt_format, _order_index, _is_set_in_pattern, and whether
   _options.format_pattern is empty (format() tests that first) *)
Record gen := { g_fmt : bytes; g_order : list nat; g_set : list bool; g_empty : bool }.
Inductive gres := GOk (g : gen) | GErr (e : gerr).

(* One iteration of the while loop = one replacement; after it the scan restarts from position 0
   of the rewritten string (arg_identifier_pos = pattern.find_first_of('%')), which is what the
   recursive call on the whole new string does.  [idx] is the uint8_t arg_idx. *)
Inductive lres := LOk (s : bytes) (order : list nat) (iset : list bool) | LErr (e : gerr).

Fixpoint gen_loop (fuel : nat) (s : bytes) (idx : nat) (order : list nat) (iset : list bool) : lres :=
  match fuel with
  | O => LErr GE_fuel
  | S f =>
    match find_attr s with
    | None => LOk s order iset
    | Some (pre, rest) =>
      (* closed_paren_pos = pattern.find_first_of(')', open_paren_pos) *)
      match split_at c_rp rest with
      | None => LErr GE_unterminated
      | Some (body, post) =>
        (* attr = "%(" body ")";  pos = attr.find(':') *)
        let '(name, fs) := match split_at c_colon body with
                           | Some (n, sp) => (n, c_colon :: sp)    (* custom_format_specifier *)
                           | None => (body, [])
                           end in
        match attr_of_name name with
        | None => LErr (GE_unknown name)
        | Some a =>
          gen_loop f (pre ++ [c_lb] ++ fs ++ [c_rb] ++ post)       (* pattern.replace(...) *)
                   (Nat.modulo (S idx) 256)
                   (set_nth (attr_idx a) idx order)                (* order_index[id] = arg_idx++ *)
                   (set_nth (attr_idx a) true iset)                (* is_set_in_pattern.set(...) *)
        end
      end
    end
  end.

Definition generate (v : pvar) (pattern : bytes) : gres :=
  let pattern' := if pv_esc v then esc_scan false pattern else pattern in
  match gen_loop (S (length pattern')) (pattern' ++ [c_nl]) 0
                 (repeat (ATTR_NR_ITEMS - 1) ATTR_NR_ITEMS) (repeat false ATTR_NR_ITEMS) with
  | LOk f o b =>
      GOk {| g_fmt := f; g_order := o; g_set := b;
             g_empty := match pattern with [] => true | _ => false end |}
  | LErr e => GErr e
  end.

(* what the rewriting is expected to produce for a pattern given as items *)
Definition fmt_item (it : item) : bytes :=
  match it with
  | Lit s => s
  | Attr _ sp => [c_lb] ++ fspec sp ++ [c_rb]
  end.
Definition fmt_body (p : pat) : bytes := concat (map fmt_item p).
Definition fmt_of (p : pat) : bytes := fmt_body p ++ [c_nl].

Fixpoint order_fold (l : list attr) (idx : nat) (order : list nat) : list nat :=
  match l with
  | [] => order
  | a :: r => order_fold r (Nat.modulo (S idx) 256) (set_nth (attr_idx a) idx order)
  end.
Fixpoint set_fold (l : list attr) (iset : list bool) : list bool :=
  match l with
  | [] => iset
  | a :: r => set_fold r (set_nth (attr_idx a) true iset)
  end.
Definition order_of (p : pat) : list nat :=
  order_fold (attrs p) 0 (repeat (ATTR_NR_ITEMS - 1) ATTR_NR_ITEMS).
Definition set_of (p : pat) : list bool := set_fold (attrs p) (repeat false ATTR_NR_ITEMS).
Definition gen_of (p : pat) : gen :=
  {| g_fmt := fmt_of p; g_order := order_of p; g_set := set_of p;
     g_empty := match print p with [] => true | _ => false end |}.

(* ---------------------------------------------------------------------------------------------
   PatternFormatter::format *)
Definition slot_of (g : gen) (a : attr) : nat := nth (attr_idx a) (g_order g) 0.
Definition is_set (g : gen) (a : attr) : bool := nth (attr_idx a) (g_set g) false.

(* _set_pattern: _set_arg<I>(name) for every I in enum order: _args[_order_index[I]] = name
   (this fixes the *type* of each slot; the value is a placeholder) *)
Definition set_pattern_args (g : gen) : list (option bytes) :=
  fold_left (fun sl a => set_nth (slot_of g a) (Some (attr_name a)) sl) all_attrs
            (repeat None ATTR_NR_ITEMS).

(* the order of the `if (_is_set_in_pattern[...]) _set_arg_val<...>(...)` statements in format();
   the message is written unconditionally, last *)
Definition fill_order : list attr :=
  [Time; FileName; CallerFunction; LogLevel; LogLevelShortCode; LineNumber; Logger; FullPath;
   ThreadId; ThreadName; ProcessId; SourceLocation; ShortSourceLocation; NamedArgs; Tags; Message].

Definition writes (g : gen) : list attr :=
  filter (fun a => is_set g a || attr_eqb a Message) fill_order.

Definition fill_args (g : gen) (env : attr -> bytes) (sl : list (option bytes)) : list (option bytes) :=
  fold_left (fun sl a => set_nth (slot_of g a) (Some (env a)) sl) (writes g) sl.

(* an _order_index entry >= 16 (possible only when an attribute occurs more than once) makes
   _set_arg write past _args: undefined behaviour, reported as FE_slot_oob *)
Definition slot_oob (g : gen) : bool :=
  existsb (fun a => Nat.leb ATTR_NR_ITEMS (slot_of g a)) all_attrs.

Section Format.
Variable apply_spec : bytes -> bytes -> bytes.

Definition format_env (g : gen) (env : attr -> bytes) : fres :=
  if g_empty g then FOk []                      (* if (_options.format_pattern.empty()) return {} *)
  else if slot_oob g then FErr FE_slot_oob
  else minifmt apply_spec (fill_args g env (set_pattern_args g)) (g_fmt g).

(* the property's right-hand side: each item replaced by its value *)
Definition subst (env : attr -> bytes) (it : item) : bytes :=
  match it with
  | Lit s => s
  | Attr a sp => apply_spec (fspec sp) (env a)
  end.
Definition line_spec (p : pat) (env : attr -> bytes) : bytes :=
  concat (map (subst env) p) ++ [c_nl].
End Format.

(* ---------------------------------------------------------------------------------------------
   MacroMetadata derived fields.  _colon_separator_pos and _file_name_pos are unsigned integers
   of pv_bits bits (uint16_t in the pinned code): static_cast<T>(x) = x mod 2^bits; for size_t
   (>= 64) the cast of a position inside a string, or of npos, is the identity. *)
Definition wpos (v : pvar) (x : N) : N :=
  if N.leb 64 (pv_bits v) then x else N.modulo x (2 ^ pv_bits v).

(* source_loc.rfind(':') : index of the last occurrence; npos (2^64 - 1) when absent *)
Fixpoint rfind (c : N) (s : bytes) : option N :=
  match s with
  | [] => None
  | x :: t => match rfind c t with
              | Some i => Some (N.succ i)
              | None => if N.eqb x c then Some 0%N else None
              end
  end.
Definition npos : N := 18446744073709551615%N.
Definition colon_pos (v : pvar) (sl : bytes) : N :=
  wpos v (match rfind c_colon sl with Some i => i | None => npos end).

(* _calc_file_name_pos: file = position after the last '/' seen so far *)
Fixpoint fnpos_loop (s : bytes) (i file : N) : N :=
  match s with
  | [] => file
  | x :: t => if N.eqb x c_slash then fnpos_loop t (N.succ i) (N.succ i)
              else fnpos_loop t (N.succ i) file
  end.
Definition file_name_pos (v : pvar) (sl : bytes) : N := wpos v (fnpos_loop sl 0 0).

Definition skipN (n : N) (s : bytes) := skipn (N.to_nat n) s.
Definition firstN (n : N) (s : bytes) := firstn (N.to_nat n) s.

Definition mm_source_location (sl : bytes) : bytes := sl.
Definition mm_full_path (v : pvar) (sl : bytes) : bytes := firstN (colon_pos v sl) sl.
Definition mm_line (v : pvar) (sl : bytes) : bytes := skipN (colon_pos v sl + 1) sl.
Definition mm_short_source_location (v : pvar) (sl : bytes) : bytes := skipN (file_name_pos v sl) sl.
Definition mm_file_name (v : pvar) (sl : bytes) : bytes :=
  firstN (colon_pos v sl - file_name_pos v sl) (skipN (file_name_pos v sl) sl).
(* the views stay inside the string iff the stored colon position is inside it and is not before
   the file name; otherwise the C++ reads outside the buffer (undefined behaviour) *)
Definition mm_in_bounds (v : pvar) (sl : bytes) : bool :=
  N.ltb (colon_pos v sl) (N.of_nat (length sl)) && N.leb (file_name_pos v sl) (colon_pos v sl).

(* ---------------------------------------------------------------------------------------------
   the statement handed to format() *)
Record stmt := {
  s_time : bytes;              (* TimestampFormatter::format_timestamp(ts): C13's subject, an input here *)
  s_thread_id : bytes; s_thread_name : bytes; s_process_id : bytes;
  s_logger : bytes; s_level : bytes; s_short : bytes;
  s_srcloc : bytes;            (* MacroMetadata::_source_location = "path:line" *)
  s_func : bytes;
  s_tags : option bytes;       (* None = nullptr *)
  s_nargs : option (list (bytes * bytes));   (* None = nullptr *)
  s_msg : bytes }.

(* the named_args join loop: "k: v" separated by ", " *)
Fixpoint join_nargs (l : list (bytes * bytes)) : bytes :=
  match l with
  | [] => []
  | (k, v) :: r => k ++ [58; 32]%N ++ v ++ match r with [] => [] | _ => [44; 32]%N ++ join_nargs r end
  end.

Definition env_of (v : pvar) (st : stmt) (a : attr) : bytes :=
  match a with
  | Time => s_time st
  | FileName => mm_file_name v (s_srcloc st)
  | CallerFunction => s_func st
  | LogLevel => s_level st
  | LogLevelShortCode => s_short st
  | LineNumber => mm_line v (s_srcloc st)
  | Logger => s_logger st
  | FullPath => mm_full_path v (s_srcloc st)
  | ThreadId => s_thread_id st
  | ThreadName => s_thread_name st
  | ProcessId => s_process_id st
  | SourceLocation => mm_source_location (s_srcloc st)
  | ShortSourceLocation => mm_short_source_location v (s_srcloc st)
  | Message => s_msg st
  | Tags => match s_tags st with Some t => t | None => [] end
  | NamedArgs => match s_nargs st with Some l => join_nargs l | None => [] end
  end.

Definition format (v : pvar) (apply_spec : bytes -> bytes -> bytes) (g : gen) (st : stmt) : fres :=
  format_env apply_spec g (env_of v st).

(* ---------------------------------------------------------------------------------------------
   runtime metadata: formatted = msg SEP file SEP line SEP function, SEP = "\x01\x02\x03" *)
Definition sep : bytes := [1; 2; 3]%N.

Fixpoint starts_with (p s : bytes) : bool :=
  match p, s with
  | [], _ => true
  | x :: p', y :: s' => N.eqb x y && starts_with p' s'
  | _ :: _, [] => false
  end.

(* formatted_view.find(delimiter): (text before, text after the delimiter) *)
Fixpoint find_sep (s : bytes) : option (bytes * bytes) :=
  match s with
  | [] => None
  | c :: t => if starts_with sep s then Some ([], skipn (length sep) s)
              else match find_sep t with
                   | Some (a, b) => Some (c :: a, b)
                   | None => None
                   end
  end.

(* message, file, line, function; None when fewer than three delimiters are present (not
   reachable through LOG_RUNTIME_METADATA, which appends them itself) *)
Definition rt_split (formatted : bytes) : option (bytes * bytes * bytes * bytes) :=
  match find_sep formatted with
  | None => None
  | Some (msg, r1) =>
    match find_sep r1 with
    | None => None
    | Some (file, r2) =>
      match find_sep r2 with
      | None => None
      | Some (line, func) => Some (msg, file, line, func)
      end
    end
  end.

(* fileline = file + ":" + line : the _source_location of the MacroMetadata created at run time *)
Definition rt_srcloc (file line : bytes) : bytes := file ++ [c_colon] ++ line.

(* ---------------------------------------------------------------------------------------------
   multi-line handling *)

(* the while loop of _process_multi_line_message on msg[start..]: [s] is the part from start *)
Fixpoint ml_loop (fuel : nat) (s : bytes) : option (list bytes) :=
  match fuel with
  | O => None
  | S f =>
    match s with
    | [] => Some []                               (* start < msg.size() is false *)
    | _ :: _ =>
      match split_at c_nl s with                  (* end = msg.find_first_of('\n', start) *)
      | None => Some [s]                          (* last line / no newline; break *)
      | Some (l, rest) =>
        match ml_loop f rest with                 (* start = end + 1 *)
        | Some ls => Some (l :: ls)
        | None => None
        end
      end
    end
  end.

Definition process_multi_line (msg : bytes) : option (list bytes) :=
  match msg with
  | [] => Some [[]]                               (* an empty message is one statement *)
  | _ => ml_loop (S (length msg)) msg
  end.

(* "if the log_message ends with \n we should exclude it" *)
Definition strip_one_nl (msg : bytes) : bytes :=
  match rev msg with
  | c :: r => if N.eqb c c_nl then rev r else msg
  | [] => msg
  end.

Definition nargs_empty (na : option (list (bytes * bytes))) : bool :=
  match na with None => true | Some [] => true | Some (_ :: _) => false end.

(* _dispatch_transit_event_to_sinks: the message texts passed to _write_log_statement, in order;
   None = out of fuel (never: PatProofs) *)
Definition dispatch_msgs (add_meta : bool) (na : option (list (bytes * bytes))) (msg : bytes)
  : option (list bytes) :=
  if add_meta && nargs_empty na then process_multi_line msg
  else Some [strip_one_nl msg].

Definition with_msg (st : stmt) (m : bytes) : stmt :=
  {| s_time := s_time st; s_thread_id := s_thread_id st; s_thread_name := s_thread_name st;
     s_process_id := s_process_id st; s_logger := s_logger st; s_level := s_level st;
     s_short := s_short st; s_srcloc := s_srcloc st; s_func := s_func st; s_tags := s_tags st;
     s_nargs := s_nargs st; s_msg := m |}.

(* the log_statement strings handed to the sink for one transit event *)
Definition sink_lines (v : pvar) (apply_spec : bytes -> bytes -> bytes) (add_meta : bool) (g : gen)
                      (st : stmt) : option (list fres) :=
  match dispatch_msgs add_meta (s_nargs st) (s_msg st) with
  | Some ms => Some (map (fun m => format v apply_spec g (with_msg st m)) ms)
  | None => None
  end.

(* the specification side of the splitting: segments between newlines (always at least one) *)
Fixpoint split_on (c : N) (s : bytes) : list bytes :=
  match s with
  | [] => [[]]
  | x :: t => if N.eqb x c then [] :: split_on c t
              else match split_on c t with
                   | h :: r => (x :: h) :: r
                   | [] => [[x]]
                   end
  end.
(* ... without a final empty segment *)
Fixpoint drop_last_empty (l : list bytes) : list bytes :=
  match l with
  | [] => []
  | [[]] => []
  | x :: r => x :: drop_last_empty r
  end.

(* ---------------------------------------------------------------------------------------------
   encoded entry points for the extracted runner (flat list of N, strings length-prefixed) *)
Definition bind {A B} (o : option A) (f : A -> option B) : option B :=
  match o with Some x => f x | None => None end.

Fixpoint take_pairs (n : nat) (l : list N) : option (list (bytes * bytes) * list N) :=
  match n with
  | O => Some ([], l)
  | S n' => bind (take_bytes l) (fun '(k, l1) =>
            bind (take_bytes l1) (fun '(v, l2) =>
            bind (take_pairs n' l2) (fun '(ps, l3) => Some ((k, v) :: ps, l3))))
  end.

Fixpoint take_table (n : nat) (l : list N) : option (list (bytes * bytes * bytes) * list N) :=
  match n with
  | O => Some ([], l)
  | S n' => bind (take_bytes l) (fun '(fs, l1) =>
            bind (take_bytes l1) (fun '(v, l2) =>
            bind (take_bytes l2) (fun '(o, l3) =>
            bind (take_table n' l3) (fun '(t, l4) => Some ((fs, v, o) :: t, l4)))))
  end.

Definition take_opt_bytes (l : list N) : option (option bytes * list N) :=
  match l with
  | 0%N :: r => Some (None, r)
  | _ :: r => bind (take_bytes r) (fun '(b, r') => Some (Some b, r'))
  | [] => None
  end.

(* <time> <tid> <tname> <pid> <logger> <level> <short> <srcloc> <func> <tags?> <nargs?> <msg> <ts> *)
Definition take_stmt (l : list N) : option (stmt * list N) :=
  bind (take_bytes l) (fun '(tm, l) =>
  bind (take_bytes l) (fun '(tid, l) =>
  bind (take_bytes l) (fun '(tn, l) =>
  bind (take_bytes l) (fun '(pid, l) =>
  bind (take_bytes l) (fun '(lg, l) =>
  bind (take_bytes l) (fun '(lv, l) =>
  bind (take_bytes l) (fun '(sc, l) =>
  bind (take_bytes l) (fun '(sl, l) =>
  bind (take_bytes l) (fun '(fn, l) =>
  bind (take_opt_bytes l) (fun '(tg, l) =>
  bind (match l with
        | 0%N :: r => Some (None, r)
        | _ :: n :: r => bind (take_pairs (N.to_nat n) r) (fun '(ps, r') => Some (Some ps, r'))
        | _ => None
        end) (fun '(na, l) =>
  bind (take_bytes l) (fun '(msg, l) =>
  match l with
  | _ts :: l =>
    Some ({| s_time := tm; s_thread_id := tid; s_thread_name := tn; s_process_id := pid;
             s_logger := lg; s_level := lv; s_short := sc; s_srcloc := sl; s_func := fn;
             s_tags := tg; s_nargs := na; s_msg := msg |}, l)
  | [] => None
  end)))))))))))).

Definition take_tbl (l : list N) : list (bytes * bytes * bytes) :=
  match l with
  | n :: r => match take_table (N.to_nat n) r with Some (t, _) => t | None => [] end
  | [] => []
  end.

Definition gerr_code (e : gerr) : N :=
  match e with GE_unterminated => 1 | GE_unknown _ => 2 | GE_fuel => 9 end%N.

Definition enc_nats (l : list nat) : list N := map N.of_nat l.
Definition enc_bools (l : list bool) : list N := map (fun b : bool => if b then 1%N else 0%N) l.

Definition bad_case : list N := [999999%N].

(* the transit event of a LOG_RUNTIME_METADATA statement: the frontend formats
   "<fmt> SEP {} SEP {} SEP {}" with (args..., file, line, function); _apply_runtime_metadata
   splits it again and builds MacroMetadata(file ":" line, function, "{}", nullptr, ...) *)
Definition rt_stmt (st : stmt) (file line : bytes) : option stmt :=
  match rt_split (s_msg st ++ sep ++ file ++ sep ++ line ++ sep ++ s_func st) with
  | None => None
  | Some (msg, f, l, fn) =>
    Some {| s_time := s_time st; s_thread_id := s_thread_id st; s_thread_name := s_thread_name st;
            s_process_id := s_process_id st; s_logger := s_logger st; s_level := s_level st;
            s_short := s_short st; s_srcloc := rt_srcloc f l; s_func := fn; s_tags := None;
            s_nargs := s_nargs st; s_msg := msg |}
  end.

(* [9 <pv_bits> <pv_esc>] then
   mode 0: create + format        0 <pattern> <stmt> <table>
     obs: 1 <kind>  (constructor throws)  |  0 <format result>   (0 1 7 when the MacroMetadata
     views leave the buffer and an attribute that uses them is in the pattern: UB)
   mode 1: sink lines             1 <add_meta> <site> <pattern> <stmt> <rt_file> <rt_line> <table>
     site 0 = LOG_RUNTIME_METADATA (srcloc/func/tags of <stmt> replaced by the runtime split),
     site > 0 = a compile-time call site whose constants are already in <stmt>
     obs: 1 <kind> | 0 <n> <format result>*n
   mode 2: mini-fmt alone         2 <fmt> <nargs> (<0> | <1> <bytes>)*nargs <table>
     obs: <format result>
   mode 3: constructor state      3 <pattern>
     obs: 1 <kind> | 0 <fmt> <order x16> <set x16> *)
Fixpoint take_args (n : nat) (l : list N) : option (list (option bytes) * list N) :=
  match n with
  | O => Some ([], l)
  | S n' => bind (take_opt_bytes l) (fun '(a, l1) =>
            bind (take_args n' l1) (fun '(r, l2) => Some (a :: r, l2)))
  end.

Definition uses_mm (g : gen) : bool :=
  is_set g FileName || is_set g LineNumber || is_set g FullPath || is_set g ShortSourceLocation.

Definition pat_run_v (v : pvar) (l : list N) : list N :=
  match l with
  | 0%N :: r =>
    match take_bytes r with
    | Some (pt, r1) =>
      match generate v pt with
      | GErr e => [1%N; gerr_code e]
      | GOk g =>
        match take_stmt r1 with
        | Some (st, r2) =>
          if uses_mm g && negb (mm_in_bounds v (s_srcloc st)) then [0; 1; 7]%N
          else 0%N :: enc_fres (format v (table_lookup (take_tbl r2)) g st)
        | None => bad_case
        end
      end
    | None => bad_case
    end
  | 1%N :: am :: site :: r =>
    match take_bytes r with
    | Some (pt, r1) =>
      match generate v pt with
      | GErr e => [1%N; gerr_code e]
      | GOk g =>
        match take_stmt r1 with
        | Some (st0, r2) =>
          match take_bytes r2 with
          | Some (rf, r3) =>
            match take_bytes r3 with
            | Some (rl, r4) =>
              match (if N.eqb site 0 then rt_stmt st0 rf rl else Some st0) with
              | Some st =>
                match sink_lines v (table_lookup (take_tbl r4)) (negb (N.eqb am 0)) g st with
                | Some ls => 0%N :: N.of_nat (length ls) :: flat_map enc_fres ls
                | None => [1; 9]%N
                end
              | None => [1; 8]%N
              end
            | None => bad_case
            end
          | None => bad_case
          end
        | None => bad_case
        end
      end
    | None => bad_case
    end
  | 2%N :: r =>
    match take_bytes r with
    | Some (f, n :: r1) =>
      match take_args (N.to_nat n) r1 with
      | Some (args, r2) => enc_fres (minifmt (table_lookup (take_tbl r2)) args f)
      | None => bad_case
      end
    | _ => bad_case
    end
  | 3%N :: r =>
    match take_bytes r with
    | Some (pt, _) =>
      match generate v pt with
      | GErr e => [1%N; gerr_code e]
      | GOk g => 0%N :: enc_bytes (g_fmt g) ++ enc_nats (g_order g) ++ enc_bools (g_set g)
      end
    | None => bad_case
    end
  | _ => bad_case
  end.

(* a case line may start with the variant header  9 <pv_bits> <pv_esc> ; without it the case is
   run on the pinned variant (uint16_t positions, braces handed to fmt as they are) *)
Definition pat_run_enc (l : list N) : list N :=
  match l with
  | 9%N :: bits :: esc :: r => pat_run_v {| pv_bits := bits; pv_esc := negb (N.eqb esc 0) |} r
  | _ => pat_run_v pv_pinned l
  end.
