(* Refutation witnesses (each replayed on the real code: corpus/C19/*.case) and non-vacuity examples
   for the C19 theorems.  Everything here is closed by computation. *)
From Coq Require Import String Ascii.
From Coq Require Import List NArith Arith Bool Lia.
From Quill Require Import Format.NaFmt Format.NaModel Format.NaJson Format.NaProofs Format.NaJsonProofs.
Import ListNotations.

(* B "text" = the bytes of the literal *)
Definition B (s : string) : str := bytes_of s.
Arguments B s%string_scope.
Notation "'#' s" := (B s) (at level 9, only parsing).

(* a toy oracle: arguments are numbers, every spec renders the decimal digits *)
Definition dec_oracle (_ : str) (a : N) : option str := Some (decN a).
Definition no_strings (_ : N) : bool := false.

(* ---- D11: an escaped "}}" directly after a placeholder -------------------------------------- *)
Definition d11_tpl : tpl := [Text #"braces "; EscL; Hole #"name" None; EscR; Text #" end"].

(* the pinned scanner (skip = true) *)
Lemma scan_adj_refuted :
  wf_tpl d11_tpl = true /\ ok_adj d11_tpl = false /\
  print d11_tpl = #"braces {{{name}}} end" /\
  (positional d11_tpl, holes d11_tpl) = (#"braces {{{}}} end", [(#"name", [])]) /\
  scan true (print d11_tpl) = (#"braces {{{} end", [(#"name}}", [])]) /\
  scan true (print d11_tpl) <> (positional d11_tpl, holes d11_tpl) /\
  snd (process N dec_oracle no_strings true [] (print d11_tpl) [7%N])
  = {| r_text := Some #"braces {7 end"; r_named := Some [(#"name}}", #"7")] |} /\
  render N dec_oracle d11_tpl [7%N] = Some #"braces {7} end".
Proof. repeat split; try (vm_compute; reflexivity). vm_compute. discriminate. Qed.

(* the same input through the repaired scanner (skip = false) *)
Example d11_repaired :
  scan false (print d11_tpl) = (positional d11_tpl, holes d11_tpl) /\
  snd (process N dec_oracle no_strings false [] (print d11_tpl) [7%N])
  = {| r_text := Some #"braces {7} end"; r_named := Some [(#"name", #"7")] |}.
Proof. split; vm_compute; reflexivity. Qed.

(* ---- D12: a value holding the separator ------------------------------------------------------ *)
Definition d12_tpl : tpl := [Text #"a "; Hole #"x" None; Text #" b "; Hole #"y" None; Text #" c "; Hole #"z" None].
Definition d12_values : list str := [ #"1"; [115; 1; 2; 3; 116]%N; #"2.5" ].        (* "s\1\2\3t" *)
Definition d12_oracle (_ : str) (a : N) : option str := nth_error d12_values (N.to_nat a).

Lemma sep_refuted : forall skip : bool,
  wf_tpl d12_tpl = true /\ ok_adj d12_tpl = true /\ first_hole_named d12_tpl = true /\
  renders N d12_oracle (named_specs (holes d12_tpl) 3) [0; 1; 2]%N d12_values /\
  existsb has_sep d12_values = true /\
  r_named (snd (process N d12_oracle no_strings skip [] (print d12_tpl) [0; 1; 2]%N))
  = Some [(#"x", #"1"); (#"y", #"s"); (#"z", #"t")] /\
  r_named (snd (process N d12_oracle no_strings skip [] (print d12_tpl) [0; 1; 2]%N))
  <> Some (combine (named_keys (holes d12_tpl) 3) d12_values) /\
  (* the text is not affected *)
  r_text (snd (process N d12_oracle no_strings skip [] (print d12_tpl) [0; 1; 2]%N))
  = Some ([97; 32; 49; 32; 98; 32; 115; 1; 2; 3; 116; 32; 99; 32; 50; 46; 53]%N).
Proof.
  intros skip. do 3 (split; [vm_compute; reflexivity|]).
  split; [split; vm_compute; reflexivity|]. split; [vm_compute; reflexivity|].
  split; [destruct skip; vm_compute; reflexivity|].
  split; [destruct skip; vm_compute; discriminate|destruct skip; vm_compute; reflexivity].
Qed.

(* ---- a newline inside a value: the JSON object spans two lines -------------------------------- *)
Definition ex_hdr : hdr :=
  {| h_ts := #"1002"; h_file := #"na_case.cpp"; h_line := #"14"; h_tid := #"0"; h_logger := #"na"; h_level := #"INFO" |}.

(* the pinned sink (esc = false) *)
Lemma json_nl_refuted :
  hdr_ok no_nl ex_hdr = true /\
  count_occ N.eq_dec (json_sink_line false ex_hdr #"nl {x}" (Some [(#"x", [97; 10; 98]%N)])) NL = 2 /\
  ~ (exists body, json_sink_line false ex_hdr #"nl {x}" (Some [(#"x", [97; 10; 98]%N)]) = body ++ [NL] /\ no_nl body = true).
Proof.
  split; [reflexivity|]. split; [vm_compute; reflexivity|].
  intros [body [E Hb]].
  assert (C : count_occ N.eq_dec (body ++ [NL]) NL = 1).
  { rewrite count_occ_app. simpl.
    assert (Z : count_occ N.eq_dec body NL = 0).
    { apply count_occ_not_In. intros Hin. unfold no_nl in Hb. rewrite forallb_forall in Hb.
      specialize (Hb NL Hin). discriminate. }
    rewrite Z. reflexivity. }
  rewrite <- E in C. vm_compute in C. discriminate.
Qed.

(* the same input through the repaired sink (esc = true): one line, the value is "a\nb" (4 bytes) *)
Example d16_repaired :
  json_sink_line true ex_hdr #"nl {x}" (Some [(#"x", [97; 10; 98]%N)])
  = #"{""timestamp"":""1002"",""file_name"":""na_case.cpp"",""line"":""14"",""thread_id"":""0"",""logger"":""na"",""log_level"":""INFO"",""message"":""nl {x}"",""x"":""a\nb""}" ++ [NL] /\
  count_occ N.eq_dec (json_sink_line true ex_hdr #"nl {x}" (Some [(#"x", [97; 10; 98]%N)])) NL = 1 /\
  json_parse_line (json_sink_line true ex_hdr #"nl {x}" (Some [(#"x", [97; 10; 98]%N)]))
  = Some (members_of ex_hdr #"nl {x}" (Some [(#"x", [97; 10; 98]%N)])).
Proof. repeat split; vm_compute; reflexivity. Qed.

(* ---- _contains_named_args: the byte after a placeholder is skipped ---------------------------- *)
Lemma contains_refuted :
  (* a letter-initial placeholder right after a placeholder whose name is not letter-initial is missed *)
  (wf_tpl [Hole #"_a" None; Hole #"b" None] = true /\
   print [Hole #"_a" None; Hole #"b" None] = #"{_a}{b}" /\ contains_named #"{_a}{b}" = false) /\
  (* and literal text can be taken for a named placeholder *)
  (wf_tpl [Hole #"1" None; EscL; Text #"abc"; EscR] = true /\
   print [Hole #"1" None; EscL; Text #"abc"; EscR] = #"{1}{{abc}}" /\ contains_named #"{1}{{abc}}" = true).
Proof. repeat split; vm_compute; reflexivity. Qed.

(* ---- observation: a LOGJ_ expression containing ':' is cut at the colon ------------------------ *)
(* LOGJ_INFO(l, "m", ns::v) generates "m {ns::v}": the name becomes "ns" and "::v" a format spec
   (replayed on the real code: the statement cannot be formatted); names with ':' are outside
   [wf_tpl] *)
Lemma logj_colon_observation :
  forall skip : bool,
  scan skip #"m {ns::v}" = (#"m {::v}", [(#"ns", #"::v")]) /\
  scan skip #"m {flag ? a : b}" = (#"m {: b}", [(#"flag ? a ", #": b")]).
Proof. intros [|]; split; vm_compute; reflexivity. Qed.

(* ---- non-vacuity ------------------------------------------------------------------------------ *)
(* a template with every token kind in most adjacencies satisfies the hypotheses of scan_print,
   contains_agrees, text_clause and pairs_clause *)
Definition ex_tpl : tpl :=
  [Text #"a "; EscL; Hole #"x" None; Text #" "; EscR; Hole #"y" (Some #">5"); EscL; EscL;
   Hole #"z" (Some []); Hole #"w" (Some #"x"); EscL; EscR; EscR; Text #":end"].

Example ex_tpl_hyps :
  wf_tpl ex_tpl = true /\ ok_adj ex_tpl = true /\ first_hole_named ex_tpl = true /\ has_hole ex_tpl = true /\
  print ex_tpl = #"a {{{x} }}{y:>5}{{{{{z:}{w:x}{{}}}}:end" /\
  (forall skip : bool,
   scan skip (print ex_tpl) = (#"a {{{} }}{:>5}{{{{{:}{:x}{{}}}}:end", [(#"x", []); (#"y", #":>5"); (#"z", #":"); (#"w", #":x")])).
Proof. do 5 (split; [vm_compute; reflexivity|]). intros [|]; vm_compute; reflexivity. Qed.

(* a template with an escaped "}}" directly after placeholders (outside [ok_adj]): the hypotheses of the
   theorems about the repaired scanner are satisfiable there *)
Definition ex_tpl_adj : tpl := [EscL; Hole #"x" None; EscR; Text #" "; Hole #"y" (Some #">5"); EscR; EscR].
Example ex_tpl_adj_hyps :
  wf_tpl ex_tpl_adj = true /\ ok_adj ex_tpl_adj = false /\ first_hole_named ex_tpl_adj = true /\ has_hole ex_tpl_adj = true /\
  print ex_tpl_adj = #"{{{x}}} {y:>5}}}}}" /\
  scan false (print ex_tpl_adj) = (#"{{{}}} {:>5}}}}}", [(#"x", []); (#"y", #":>5")]) /\
  snd (process N dec_oracle no_strings false [] (print ex_tpl_adj) [10; 20]%N)
  = {| r_text := Some #"{10} 20}}"; r_named := Some [(#"x", #"10"); (#"y", #"20")] |}.
Proof. repeat split; vm_compute; reflexivity. Qed.

Example ex_pairs_hyps :
  length (holes ex_tpl) <= 5 /\
  renders N dec_oracle (named_specs (holes ex_tpl) 5) [10; 20; 30; 40; 50]%N [ #"10"; #"20"; #"30"; #"40"; #"50" ] /\
  Forall (fun x => has_sep x = false) [ #"10"; #"20"; #"30"; #"40"; #"50" ] /\
  (forall skip : bool,
   snd (process N dec_oracle no_strings skip [] (print ex_tpl) [10; 20; 30; 40; 50]%N)
   = {| r_text := Some #"a {10 }20{{3040{}}:end";
        r_named := Some [(#"x", #"10"); (#"y", #"20"); (#"z", #"30"); (#"w", #"40"); (#"_4", #"50")] |}).
Proof.
  split; [vm_compute; lia|]. split; [split; vm_compute; reflexivity|]. split.
  - repeat constructor.
  - intros [|]; vm_compute; reflexivity.
Qed.

Example ex_json_hyps :
  hdr_ok plain_str ex_hdr = true /\ hdr_ok no_nl ex_hdr = true /\
  plain_str (no_newlines [108; 10; 123; 120; 125]%N) = true /\                      (* "l\n{x}" *)
  pairs_ok plain_str [(#"x", #"10")] = true /\ pairs_ok no_nl [(#"x", #"10")] = true /\
  forall esc : bool,
  json_sink_line esc ex_hdr [108; 10; 123; 120; 125]%N (Some [(#"x", #"10")])
  = #"{""timestamp"":""1002"",""file_name"":""na_case.cpp"",""line"":""14"",""thread_id"":""0"",""logger"":""na"",""log_level"":""INFO"",""message"":""l {x}"",""x"":""10""}" ++ [NL].
Proof. do 5 (split; [vm_compute; reflexivity|]). intros [|]; vm_compute; reflexivity. Qed.

(* the recogniser rejects what is not JSON: a raw quote or a raw newline inside a value *)
Example ex_json_rejects :
  (forall esc : bool, json_parse_line (json_sink_line esc ex_hdr #"q {x}" (Some [(#"x", #"say ""hi""")])) = None) /\
  json_parse_line (json_sink_line false ex_hdr #"nl {x}" (Some [(#"x", [97; 10; 98]%N)])) = None.
Proof. split; [intros [|]|]; vm_compute; reflexivity. Qed.

(* first use in either order gives the same results *)
Example ex_cache_orders :
  forall skip : bool,
  let p := process_all N dec_oracle no_strings skip [] in
  let one := fun s => snd (process N dec_oracle no_strings skip [] (fst s) (snd s)) in
  let s1 := (#"{a} {b}", [1; 2]%N) in let s2 := (#"{x} {y}", [3; 4]%N) in
  p [s1; s2; s1] = [one s1; one s2; one s1] /\ p [s2; s1; s1] = [one s2; one s1; one s1] /\
  r_named (one s1) = Some [(#"a", #"1"); (#"b", #"2")] /\ r_named (one s2) = Some [(#"x", #"3"); (#"y", #"4")].
Proof. intros [|]; cbv zeta; (do 3 (split; [vm_compute; reflexivity|])); vm_compute; reflexivity. Qed.
