(* Encoded entry point of M-CODEC for the extracted model runner (definitions only).
   case:  codec <clear> <showbytes> <base> <dyn> <sig> <fmtk> <nstale> stale... <tylen> <nargs> ty... val...
     clear     1 = the clearing rule of the code, 0 = defective variant (never clear)
     showbytes 1 = print the encoded bytes, 0 = only their number
     base      address (mod 64 is enough) of the first argument byte
     dyn       0 = no dynamic level, l+1 = dynamic level l
     sig, fmtk ignored by the model (C++ instantiation id, format string selector)
     stale     content of the thread-local size cache before the statement
     tylen     number of tokens of the type encodings (lets the C++ side skip them)
   type encoding (prefix):  0 k w Fixed | 1 CStr | 2 n CharArr | 3 k LenStr | 4 Direct | 5 StringRef
     | 6 w a DeferredAligned | 7 k t Seq | 8 t FwdList | 9 n t Arr | 10 t Opt | 11 a b Pair
     | 12 n t1..tn Tuple | 13 k kt vt MapLike
   value encoding (driven by the type): Fixed/CharArr/DeferredAligned: the bytes; CStr: 0 (null) or
     1 n bytes; LenStr/Direct: n bytes; StringRef: p n bytes (content, skipped by the model);
     Seq/FwdList/MapLike: n elements; Arr/Pair/Tuple: elements; Opt: 0 | 1 element
   output: args_size ncache cache... enc_ok [nbytes bytes... dec_ok consumed] reserved *)
From Coq Require Import List NArith Arith Bool.
From Quill Require Import Base.Bytes Codec.CodecDefs.
From QuillGen Require SrcFacts.
Import ListNotations.
Local Open Scope N_scope.

Definition fk (k : N) : fkind := match k with 0 => KArith | 1 => KEnum | 2 => KPtr | 3 => KPod | _ => KChrono end.
Definition sk (k : N) : skind := match k with 0 => KStr | 1 => KStrView | _ => KPath end.
Definition ck (k : N) : ckind := match k with 0 => KVec | 1 => KDeque | 2 => KList | 3 => KSet | _ => KUSet end.
Definition mk (k : N) : mkind := match k with 0 => KMap | _ => KUMap end.

Fixpoint parse_ty (fuel : nat) (l : list N) : option (ty * list N) :=
  match fuel with
  | O => None
  | S f =>
    let one (c : ty -> ty) (r : list N) :=
      match parse_ty f r with None => None | Some (t, r') => Some (c t, r') end in
    let two (c : ty -> ty -> ty) (r : list N) :=
      match parse_ty f r with None => None | Some (a, r1) =>
      match parse_ty f r1 with None => None | Some (b, r2) => Some (c a b, r2) end end in
    match l with
    | 0 :: k :: w :: r => Some (Fixed (fk k) w, r)
    | 1 :: r => Some (CStr, r)
    | 2 :: n :: r => Some (CharArr (N.to_nat n), r)
    | 3 :: k :: r => Some (LenStr (sk k), r)
    | 4 :: r => Some (Direct, r)
    | 5 :: r => Some (StringRef, r)
    | 6 :: w :: a :: r => Some (DeferredAligned w a, r)
    | 7 :: k :: r => one (Seq (ck k)) r
    | 8 :: r => one FwdList r
    | 9 :: n :: r => one (Arr (N.to_nat n)) r
    | 10 :: r => one Opt r
    | 11 :: r => two Pair r
    | 12 :: n :: r =>
      match (fix go (k : nat) (r : list N) : option (list ty * list N) :=
               match k with
               | O => Some ([], r)
               | S k' => match parse_ty f r with None => None | Some (t, r1) =>
                         match go k' r1 with None => None | Some (ts, r2) => Some (t :: ts, r2) end end
               end) (N.to_nat n) r with
      | None => None
      | Some (ts, r') => Some (Tuple ts, r')
      end
    | 13 :: k :: r => two (MapLike (mk k)) r
    | _ => None
    end
  end.

Fixpoint parse_tys (fuel : nat) (k : nat) (r : list N) : option (list ty * list N) :=
  match k with
  | O => Some ([], r)
  | S k' => match parse_ty fuel r with None => None | Some (t, r1) =>
            match parse_tys fuel k' r1 with None => None | Some (ts, r2) => Some (t :: ts, r2) end end
  end.

Fixpoint take_n (n : nat) (l : list N) : option (list N * list N) :=
  match n with
  | O => Some ([], l)
  | S n' => match l with [] => None | x :: r =>
            match take_n n' r with None => None | Some (a, b) => Some (x :: a, b) end end
  end.

Definition pvF := list N -> option (val * list N).
Fixpoint pv_seq (fs : list pvF) (l : list N) : option (list val * list N) :=
  match fs with
  | [] => Some ([], l)
  | f :: fs' => match f l with None => None | Some (x, r1) =>
                match pv_seq fs' r1 with None => None | Some (xs, r2) => Some (x :: xs, r2) end end
  end.
Definition pv_bytes (n : nat) : pvF := fun l =>
  match take_n n l with None => None | Some (a, r) => Some (VB a, r) end.
Definition pv_list (fs : list pvF) : pvF := fun l =>
  match pv_seq fs l with None => None | Some (xs, r) => Some (VL xs, r) end.

Fixpoint parse_val (t : ty) {struct t} : pvF := fun l =>
  match t with
  | Fixed _ w => pv_bytes (N.to_nat w) l
  | CStr => match l with
            | 0 :: r => Some (VNull, r)
            | _ :: n :: r => pv_bytes (N.to_nat n) r
            | _ => None
            end
  | CharArr n => pv_bytes n l
  | LenStr _ | Direct => match l with n :: r => pv_bytes (N.to_nat n) r | [] => None end
  | StringRef => match l with
                 | p :: n :: r => match take_n (N.to_nat n) r with None => None | Some (_, r') => Some (VRef p n, r') end
                 | _ => None
                 end
  | DeferredAligned w _ => pv_bytes (N.to_nat w) l
  | Seq _ t' | FwdList t' =>
    match l with n :: r => pv_list (repeat (parse_val t') (N.to_nat n)) r | [] => None end
  | Arr n t' => pv_list (repeat (parse_val t') n) l
  | Opt t' => match l with
              | 0 :: r => Some (VO None, r)
              | _ :: r => match parse_val t' r with None => None | Some (x, r') => Some (VO (Some x), r') end
              | [] => None
              end
  | Pair a b => pv_list [parse_val a; parse_val b] l
  | Tuple ts => pv_list (map parse_val ts) l
  | MapLike _ kt vt =>
    match l with
    | n :: r => pv_list (repeat (pv_list [parse_val kt; parse_val vt]) (N.to_nat n)) r
    | [] => None
    end
  end.

Definition MALFORMED : list N := [18446744073709551615].

Definition codec_run_enc (l : list N) : list N :=
  match l with
  | clear :: showb :: base :: dyn :: _sig :: _fmtk :: nstale :: r0 =>
    match take_n (N.to_nat nstale) r0 with
    | None => MALFORMED
    | Some (stale0, r1) =>
      match r1 with
      | tylen :: nargs :: r2 =>
        match parse_tys (S (N.to_nat tylen)) (N.to_nat nargs) r2 with
        | None => MALFORMED
        | Some (ts, r3) =>
          match pv_seq (map parse_val ts) r3 with
          | None => MALFORMED
          | Some (vs, _) =>
            let clear_rule := negb (clear =? 0) in
            let dyno := if dyn =? 0 then None else Some (dyn - 1) in
            let (sz, cache) := args_size clear_rule stale0 ts vs in
            let reserved := fst (stmt_reserved clear_rule stale0 ts vs dyno) in
            sz :: lenN cache :: cache ++
            match args_encode ts vs base cache with
            | None => [0; reserved]
            | Some (bs, _) =>
              1 :: lenN bs :: (if showb =? 0 then [] else bs) ++
              (* the tuple decoder of the source tree (T-src, tools/srcfacts.py c04t_facts; TieC04.src_disp) *)
              match args_decode (fun _ xs => xs) (negb (SrcFacts.codec_tuple_decode_shape =? 1)) ts base bs with
              | None => [0; 0; reserved]
              | Some (_, rest) => [1; lenN bs - lenN rest; reserved]
              end
            end
          end
        end
      | _ => MALFORMED
      end
    end
  | _ => MALFORMED
  end.
