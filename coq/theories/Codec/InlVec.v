(* M-IV: detail::InlinedVector<uint32_t, 12> (SizeCacheVector), include/quill/core/InlinedVector.h.
   push_back / operator[] / assign / clear with an [alloc] output: true iff push_back executed
   `new value_type[new_capacity]`.  Definitions only (extracted). *)
From Coq Require Import List NArith Bool.
Import ListNotations.
Local Open Scope N_scope.

Definition IV_INLINE : N := 12.
Record iv := { iv_data : list N; iv_cap : N }.
Definition iv_size (s : iv) : N := N.of_nat (length (iv_data s)).
Definition iv_init : iv := {| iv_data := []; iv_cap := IV_INLINE |}.

(* if (_size == _capacity) { new_capacity = _capacity * 2; new ...; } store; ++_size *)
Definition iv_push (x : N) (s : iv) : iv * bool :=
  if iv_size s =? iv_cap s
  then ({| iv_data := iv_data s ++ [x]; iv_cap := iv_cap s * 2 |}, true)
  else ({| iv_data := iv_data s ++ [x]; iv_cap := iv_cap s |}, false).

(* clear(): _size = 0; the capacity (and a heap buffer once acquired) is kept *)
Definition iv_clear (s : iv) : iv := {| iv_data := []; iv_cap := iv_cap s |}.

(* operator[]: None = QuillError "index out of bounds" *)
Definition iv_get (i : N) (s : iv) : option N := nth_error (iv_data s) (N.to_nat i).

Inductive iop := IPush (x : N) | IClear.

Definition iv_step (s : iv) (o : iop) : iv * bool :=
  match o with IPush x => iv_push x s | IClear => (iv_clear s, false) end.

Fixpoint iv_run (s : iv) (ops : list iop) : iv * list bool :=
  match ops with
  | [] => (s, [])
  | o :: ops' => let (s1, a) := iv_step s o in let (s2, al) := iv_run s1 ops' in (s2, a :: al)
  end.

(* largest size reached when running ops from size n *)
Fixpoint peak (n : N) (ops : list iop) : N :=
  match ops with
  | [] => n
  | IPush _ :: ops' => N.max n (peak (n + 1) ops')
  | IClear :: ops' => N.max n (peak 0 ops')
  end.

(* encoded entry point: 0 x = push_back x ; 1 = clear.  Output per op: size, capacity *)
Fixpoint iv_decode (fuel : nat) (l : list N) : list iop :=
  match fuel with
  | O => []
  | S f => match l with
           | 0 :: x :: r => IPush x :: iv_decode f r
           | 1 :: r => IClear :: iv_decode f r
           | _ => []
           end
  end.

Fixpoint iv_obs (s : iv) (ops : list iop) : list N :=
  match ops with
  | [] => []
  | o :: ops' => let s1 := fst (iv_step s o) in iv_size s1 :: iv_cap s1 :: iv_obs s1 ops'
  end.

Definition iv_run_enc (l : list N) : list N := iv_obs iv_init (iv_decode (length l) l).
