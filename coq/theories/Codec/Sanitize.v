(* Sanitize: BackendWorker::sanitize_non_printable_chars with the default
   BackendOptions::check_printable_char  (c >= ' ' && c <= '~') || c == '\n'.
   Definitions only (extracted). Bytes are N in 0..255 (char is signed on x86-64: bytes >= 0x80
   are negative, hence below ' ', hence not printable; (c >> 4) & 0xF and c & 0xF are the two
   nibbles of the byte in either signedness). *)
From Coq Require Import List NArith Bool.
From Quill Require Import Base.Bytes.
Import ListNotations.
Local Open Scope N_scope.

Definition printable (c : byte) : bool := ((32 <=? c) && (c <=? 126)) || (c =? 10).
(* "0123456789ABCDEF"[d] *)
Definition hexd (d : N) : byte := if d <? 10 then 48 + d else 55 + d.
(* '\\' 'x' hi lo *)
Definition esc (c : byte) : list byte := [92; 120; hexd ((c / 16) mod 16); hexd (c mod 16)].

Definition sanitize_map (s : list byte) : list byte :=
  flat_map (fun c => if printable c then [c] else esc c) s.

(* the code: first scan for a non-printable character; only then rebuild the message *)
Definition sanitize (s : list byte) : list byte :=
  if forallb printable s then s else sanitize_map s.

(* _populate_formatted_log_message: options.check_printable_char is set (enabled) and the
   decoded arguments contain a string-related type *)
Definition sanitize_msg (enabled strrel : bool) (s : list byte) : list byte :=
  if enabled && strrel then sanitize s else s.

Definition sanitize_run_enc (l : list N) : list N := sanitize l.
