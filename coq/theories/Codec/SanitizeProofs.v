From Coq Require Import List NArith Bool Lia.
From Quill Require Import Base.Bytes Codec.Sanitize.
Import ListNotations.
Local Open Scope N_scope.

Lemma sanitize_map_printable s : forallb printable s = true -> sanitize_map s = s.
Proof.
  induction s as [|c s IH]; cbn [forallb sanitize_map flat_map]; intro H; [reflexivity|].
  apply andb_prop in H. destruct H as [Hc Hs]. rewrite Hc. cbn [app]. f_equal. now apply IH.
Qed.

(* sanitize_spec: the output is the concat-map "printable c ? c : \xHH", and the identity when
   every byte is printable *)
Theorem sanitize_spec_thm : forall s,
  sanitize s = flat_map (fun c => if printable c then [c] else esc c) s /\
  (forallb printable s = true -> sanitize s = s).
Proof.
  intro s. unfold sanitize. destruct (forallb printable s) eqn:E.
  - split; [symmetry; now apply sanitize_map_printable | reflexivity].
  - split; [reflexivity | discriminate].
Qed.

Lemma hexd_printable d : d < 16 -> printable (hexd d) = true.
Proof.
  intro H. unfold hexd, printable. destruct (N.ltb_spec d 10).
  - replace (32 <=? 48 + d) with true by (symmetry; apply N.leb_le; lia).
    replace (48 + d <=? 126) with true by (symmetry; apply N.leb_le; lia). reflexivity.
  - replace (32 <=? 55 + d) with true by (symmetry; apply N.leb_le; lia).
    replace (55 + d <=? 126) with true by (symmetry; apply N.leb_le; lia). reflexivity.
Qed.

(* every byte handed to the sinks is printable *)
Theorem sanitize_output_printable : forall s, forallb printable (sanitize s) = true.
Proof.
  intro s. unfold sanitize. destruct (forallb printable s) eqn:E; [exact E|]. clear E.
  induction s as [|c s IH]; [reflexivity|]. cbn [sanitize_map flat_map].
  rewrite forallb_app. fold (sanitize_map s). rewrite IH, andb_true_r.
  destruct (printable c) eqn:Ec.
  - cbn [forallb]. now rewrite Ec.
  - cbn [esc forallb]. rewrite !hexd_printable; [reflexivity | |].
    + apply N.mod_lt. discriminate.
    + apply N.mod_lt. discriminate.
Qed.

(* the escape is upper-case hex of the byte *)
Example esc_examples :
  sanitize [97; 0; 9; 127; 128; 255; 10; 126; 31; 171] =
  [97; 92;120;48;48; 92;120;48;57; 92;120;55;70; 92;120;56;48; 92;120;70;70; 10; 126; 92;120;49;70; 92;120;65;66].
Proof. vm_compute. reflexivity. Qed.

Theorem sanitize_msg_off : forall strrel s, sanitize_msg false strrel s = s.
Proof. reflexivity. Qed.
Theorem sanitize_msg_nostr : forall en s, sanitize_msg en false s = s.
Proof. intros en s. unfold sanitize_msg. now rewrite andb_false_r. Qed.
