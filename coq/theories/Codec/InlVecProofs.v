From Coq Require Import List NArith Bool Lia.
From Quill Require Import Codec.InlVec.
Import ListNotations.
Local Open Scope N_scope.

Lemma iv_size_push x s : iv_size (fst (iv_push x s)) = iv_size s + 1.
Proof. unfold iv_push, iv_size. destruct (_ =? _); cbn [fst iv_data]; rewrite app_length; cbn [length]; lia. Qed.

(* iv_no_alloc_le_inline: as long as no more than 12 entries are ever live, no push allocates and
   the capacity stays the inline one (for every sequence of pushes and clears) *)
Lemma iv_no_alloc_gen : forall ops s, iv_cap s = IV_INLINE -> peak (iv_size s) ops <= IV_INLINE ->
  Forall (fun a => a = false) (snd (iv_run s ops)) /\ iv_cap (fst (iv_run s ops)) = IV_INLINE.
Proof.
  induction ops as [|o ops IH]; intros s Hc Hp; cbn [iv_run peak] in *.
  - split; [constructor | assumption].
  - destruct o as [x|]; cbn [iv_step].
    + assert (Hlt : iv_size s < IV_INLINE).
      { assert (iv_size s + 1 <= peak (iv_size s + 1) ops).
        { clear. generalize (iv_size s + 1). induction ops as [|[y|] ops IH]; intro n; cbn [peak]; lia. }
        lia. }
      unfold iv_push. destruct (N.eqb_spec (iv_size s) (iv_cap s)) as [E|E]; [lia|].
      set (s1 := {| iv_data := iv_data s ++ [x]; iv_cap := iv_cap s |}).
      assert (Hs1 : iv_size s1 = iv_size s + 1)
        by (unfold iv_size, s1; cbn [iv_data]; rewrite app_length; cbn [length]; lia).
      specialize (IH s1 Hc). rewrite Hs1 in IH. specialize (IH ltac:(lia)).
      destruct (iv_run s1 ops) as [s2 al]. cbn [fst snd] in *. destruct IH. split; [constructor; auto | assumption].
    + specialize (IH (iv_clear s) Hc). cbn in IH. specialize (IH ltac:(lia)).
      destruct (iv_run (iv_clear s) ops) as [s2 al]. cbn [fst snd] in *. destruct IH. split; [constructor; auto | assumption].
Qed.

Theorem iv_no_alloc_le_inline_thm : forall ops, peak 0 ops <= IV_INLINE ->
  Forall (fun a => a = false) (snd (iv_run iv_init ops)) /\ iv_cap (fst (iv_run iv_init ops)) = IV_INLINE.
Proof. intros ops H. now apply iv_no_alloc_gen. Qed.

(* iv_alloc_at_13: a push onto a full vector allocates and doubles the capacity; from the initial
   state that is exactly the 13th live entry *)
Theorem iv_alloc_when_full : forall x s, iv_size s = iv_cap s ->
  snd (iv_push x s) = true /\ iv_cap (fst (iv_push x s)) = 2 * iv_cap s.
Proof. intros x s H. unfold iv_push. rewrite (proj2 (N.eqb_eq _ _) H). cbn [fst snd iv_cap]. split; [reflexivity | lia]. Qed.

Theorem iv_alloc_at_13_thm :
  snd (iv_run iv_init (repeat (IPush 7) 13)) = repeat false 12 ++ [true] /\
  iv_cap (fst (iv_run iv_init (repeat (IPush 7) 13))) = 24.
Proof. vm_compute. auto. Qed.

(* iv_clear_keeps_capacity: clear() keeps the capacity, so a thread that once logged 13 lengths
   never allocates again below 24; and no operation ever lowers the capacity *)
Theorem iv_clear_keeps_capacity_thm : forall s, iv_cap (iv_clear s) = iv_cap s /\ iv_size (iv_clear s) = 0.
Proof. intro s. split; reflexivity. Qed.

Theorem iv_cap_monotone : forall ops s, iv_cap s <= iv_cap (fst (iv_run s ops)).
Proof.
  induction ops as [|o ops IH]; intro s; cbn [iv_run]; [cbn; lia|].
  destruct o as [x|]; cbn [iv_step].
  - unfold iv_push. destruct (_ =? _).
    + specialize (IH {| iv_data := iv_data s ++ [x]; iv_cap := iv_cap s * 2 |}).
      destruct (iv_run _ ops) as [s2 al]. cbn [fst iv_cap] in *. lia.
    + specialize (IH {| iv_data := iv_data s ++ [x]; iv_cap := iv_cap s |}).
      destruct (iv_run _ ops) as [s2 al]. cbn [fst iv_cap] in *. lia.
  - specialize (IH (iv_clear s)). destruct (iv_run (iv_clear s) ops) as [s2 al]. cbn [fst iv_cap iv_clear] in *. lia.
Qed.

(* the vector holds what was pushed since the last clear (it is the [list N] cache of M-CODEC) *)
Theorem iv_push_data : forall x s, iv_data (fst (iv_push x s)) = iv_data s ++ [x].
Proof. intros x s. unfold iv_push. destruct (_ =? _); reflexivity. Qed.

Example iv_peak_example : peak 0 [IPush 1; IPush 2; IClear; IPush 3] = 2.
Proof. reflexivity. Qed.
