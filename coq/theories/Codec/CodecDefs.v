(* M-CODEC: executable model of quill's argument codecs (include/quill/core/Codec.h,
   include/quill/std/*.h, DeferredFormatCodec.h, DirectFormatCodec.h, StringRef.h) and of the
   statement layout written by LoggerImpl::log_statement / read back by
   BackendWorker::_populate_transit_event_from_frontend_queue.
   Definitions only (extracted into modelrun); proofs are in CodecProofs.v.

   Each C++ triplet  compute_encoded_size / encode / decode_arg  is one case of
   [size] / [enc] / [dec] below, with the same branches:
   - the thread-local SizeCacheVector is a [list N]; the size pass returns the entries it
     pushes (in push order), the encode pass reads them from the front (index++);
   - arithmetic payloads are opaque byte strings (the claim is that the same bytes reach libfmt);
   - the encode/decode passes carry the absolute address [off] of the write/read position,
     because non-trivially-copyable DeferredFormatCodec types are placed at the next aligned
     address inside a worst-case reservation. *)
From Coq Require Import List NArith Arith Bool.
From Quill Require Import Base.Bytes.
Import ListNotations.
Local Open Scope N_scope.

(* ---------------------------------------------------------------- type universe *)
(* fixed-width kinds that are memcpy'ed: Codec<Arg> primary template (arithmetic, enum,
   pointer-to-const-void), DeferredFormatCodec<T> with use_memcpy (user PODs; std::chrono duration /
   time_point via quill/std/Chrono.h) *)
Inductive fkind := KArith | KEnum | KPtr | KPod | KChrono.
(* uint32 length prefix + bytes: std::string, std::string_view, fs::path (POSIX: via .string()) *)
Inductive skind := KStr | KStrView | KPath.
(* size_t count prefix + elements: vector, deque, list, (multi)set, unordered_(multi)set *)
Inductive ckind := KVec | KDeque | KList | KSet | KUSet.
(* size_t count prefix + pairs: (multi)map, unordered_(multi)map *)
Inductive mkind := KMap | KUMap.

Inductive ty :=
| Fixed (k : fkind) (w : N)
| CStr                               (* char const* / char*                         *)
| CharArr (n : nat)                  (* char[n]                                     *)
| LenStr (k : skind)
| Direct                             (* DirectFormatCodec<T>: formatted on the caller *)
| StringRef                          (* utility::StringRef: pointer + size, no copy  *)
| DeferredAligned (w a : N)          (* DeferredFormatCodec<T>, not trivially copyable *)
| Seq (k : ckind) (t : ty)
| FwdList (t : ty)                   (* std::forward_list: element count goes through the cache *)
| Arr (n : nat) (t : ty)             (* T[n] (T != char) and std::array<T, n>        *)
| Opt (t : ty)
| Pair (a b : ty)
| Tuple (ts : list ty)
| MapLike (k : mkind) (kt vt : ty).

(* the names used in DESIGN section 5 C04 *)
Definition Arith w := Fixed KArith w.
Definition Enum w := Fixed KEnum w.
Definition Ptr := Fixed KPtr 8.
Definition DeferredPOD w := Fixed KPod w.
Definition Chrono w := Fixed KChrono w.
Definition Str := LenStr KStr.
Definition StrView := LenStr KStrView.
Definition Path := LenStr KPath.
Definition Vec := Seq KVec.
Definition SetLike := Seq KSet.

(* values. VB: a byte string (arithmetic payload, string content, the memory a char const*
   points to up to and excluding its terminator - it may contain NULs, the C string then ends at
   the first one -, the object representation of a deferred user type, the text a direct user
   type formats to).  VNull: null char const*.  VRef p n: a StringRef to n bytes at address p. *)
Inductive val := VB (b : list byte) | VNull | VRef (p n : N) | VL (l : list val) | VO (o : option val).

Definition U32MAX : N := 4294967295.
Definition clamp32 (x : N) : N := if U32MAX <? x then U32MAX else x.
Definition wrap32 (x : N) : N := x mod 4294967296.

(* safe_strnlen on the bytes a pointer designates: index of the first NUL, else all of them *)
Fixpoint cstrlen (b : list byte) : nat :=
  match b with
  | [] => O
  | x :: r => if N.eqb x 0 then O else S (cstrlen r)
  end.
Definition cut (b : list byte) : list byte := firstn (cstrlen b) b.

Definition lenN {A} (l : list A) : N := N.of_nat (length l).

(* is_arithmetic || is_enum: the "no iteration" branch of the container codecs *)
Definition arith_w (t : ty) : option N :=
  match t with
  | Fixed KArith w | Fixed KEnum w => Some w
  | _ => None
  end.

(* ---------------------------------------------------------------- per-element function lists *)
Definition sizeF := val -> N * list N.
Definition encF := val -> N -> list N -> option (list byte * list N).
Definition decF := N -> list byte -> option (val * list byte).
Definition canF := val -> val.

Fixpoint size_zip (fs : list sizeF) (l : list val) : N * list N :=
  match fs, l with
  | f :: fs', x :: l' => let (s1, c1) := f x in let (s2, c2) := size_zip fs' l' in (s1 + s2, c1 ++ c2)
  | _, _ => (0, [])
  end.

Fixpoint enc_zip (fs : list encF) (l : list val) (off : N) (cache : list N) : option (list byte * list N) :=
  match fs, l with
  | f :: fs', x :: l' =>
    match f x off cache with
    | None => None
    | Some (b1, c1) =>
      match enc_zip fs' l' (off + lenN b1) c1 with
      | None => None
      | Some (b2, c2) => Some (b1 ++ b2, c2)
      end
    end
  | _, _ => Some ([], cache)
  end.

(* address after having consumed r down to r1 *)
Definition adv (off : N) (r r1 : list byte) : N := off + N.of_nat (length r - length r1).

Fixpoint dec_seq (fs : list decF) (off : N) (r : list byte) : option (list val * list byte) :=
  match fs with
  | [] => Some ([], r)
  | f :: fs' =>
    match f off r with
    | None => None
    | Some (x, r1) =>
      match dec_seq fs' (adv off r r1) r1 with
      | None => None
      | Some (xs, r2) => Some (x :: xs, r2)
      end
    end
  end.

Fixpoint can_zip (fs : list canF) (l : list val) : list val :=
  match fs, l with
  | f :: fs', x :: l' => f x :: can_zip fs' l'
  | _, _ => []
  end.

Definition take (n : N) (bs : list byte) : option (list byte * list byte) :=
  if n <=? lenN bs then Some (firstn (N.to_nat n) bs, skipn (N.to_nat n) bs) else None.

(* decode of a C string: the bytes before the first NUL; the NUL is consumed *)
Fixpoint take_cstr (bs : list byte) : option (list byte * list byte) :=
  match bs with
  | [] => None
  | x :: r => if N.eqb x 0 then Some ([], r)
              else match take_cstr r with None => None | Some (a, b) => Some (x :: a, b) end
  end.

(* padding in front of an object of alignment a placed at the first aligned address >= off *)
Definition apad (off a : N) : N := (a - off mod a) mod a.

(* uint32 length prefix + bytes (Codec<std::string>::decode_arg) *)
Definition dec_lenstr : decF := fun _ bs =>
  match decn 4 bs with
  | None => None
  | Some (n, r) => match take n r with None => None | Some (a, r') => Some (VB a, r') end
  end.

Section Codec.
(* std::set / std::map / unordered containers are rebuilt on the backend by inserting the decoded
   elements one by one into an empty container; what the rebuilt container then iterates as is
   decided by the standard library, not by quill: [reinsert].  (vector, deque, list,
   forward_list, arrays are rebuilt by push_back / assignment in order: no such step.) *)
Inductive cont := CSeq (k : ckind) | CMap (k : mkind).
Variable reinsert : cont -> list val -> list val.
(* [disp] = true: the code as it is (a tuple decodes its elements with the codec of their
   *decoded* type, see [dec]); false: the variant that dispatches on the original element types *)
Variable disp : bool.

Definition rebuild_seq (k : ckind) (l : list val) : list val :=
  match k with
  | KSet | KUSet => reinsert (CSeq k) l
  | _ => l
  end.

(* ---------------------------------------------------------------- compute_encoded_size *)
Definition pairS (f g : sizeF) : sizeF := fun v =>
  match v with VL l => size_zip [f; g] l | _ => (0, []) end.

Fixpoint size (t : ty) (v : val) {struct t} : N * list N :=
  match t, v with
  | Fixed _ w, VB _ => (w, [])
  | CStr, VNull => (1, [1])                    (* safe_strnlen(nullptr) = 0 *)
  | CStr, VB b => let len := clamp32 (N.of_nat (cstrlen b) + 1) in (len, [len])
  | CharArr n, VB b => let len := clamp32 (N.min (N.of_nat (cstrlen b)) (N.of_nat n) + 1) in (len, [len])
  | LenStr _, VB b => (4 + wrap32 (lenN b), [])
  | Direct, VB b => let len := wrap32 (lenN b) in (4 + len, [len])
  | StringRef, VRef _ _ => (16, [])
  | DeferredAligned w a, VB _ => (w + a - 1, [])
  | Seq _ t', VL l =>
    match arith_w t' with
    | Some w => (8 + w * lenN l, [])
    | None => let (s, c) := size_zip (repeat (size t') (length l)) l in (8 + s, c)
    end
  | FwdList t', VL l =>
    let (s, c) := size_zip (repeat (size t') (length l)) l in (8 + s, wrap32 (lenN l) :: c)
  | Arr n t', VL l =>
    match arith_w t' with
    | Some w => (w * N.of_nat n, [])
    | None => size_zip (repeat (size t') n) l
    end
  | Opt _, VO None => (1, [])
  | Opt t', VO (Some x) => let (s, c) := size t' x in (1 + s, c)
  | Pair a b, _ => pairS (size a) (size b) v
  | Tuple ts, VL l => size_zip (map size ts) l
  | MapLike _ kt vt, VL l =>
    match arith_w kt, arith_w vt with
    | Some wk, Some wv => (8 + (wk + wv) * lenN l, [])
    | _, _ => let (s, c) := size_zip (repeat (pairS (size kt) (size vt)) (length l)) l in (8 + s, c)
    end
  | _, _ => (0, [])
  end.

(* ---------------------------------------------------------------- encode *)
Definition pairE (f g : encF) : encF := fun v off cache =>
  match v with VL l => enc_zip [f; g] l off cache | _ => None end.

Fixpoint enc (t : ty) (v : val) (off : N) (cache : list N) {struct t} : option (list byte * list N) :=
  match t, v with
  | Fixed _ _, VB b => Some (b, cache)                                     (* memcpy sizeof(Arg) *)
  | CStr, VNull => match cache with len :: c' => Some ([0], c') | [] => None end
  | CStr, VB b =>
    match cache with
    | len :: c' => Some (firstn (N.to_nat (len - 1)) b ++ [0], c')       (* memcpy len-1, then '\0' *)
    | [] => None
    end
  | CharArr n, VB b =>
    match cache with
    | len :: c' =>
      if N.of_nat n <? len then Some (firstn n b ++ [0], c')              (* no '\0' in the array *)
      else Some (firstn (N.to_nat len) b, c')
    | [] => None
    end
  | LenStr _, VB b => let len := wrap32 (lenN b) in Some (encn 4 len ++ firstn (N.to_nat len) b, cache)
  | Direct, VB b =>
    match cache with
    | len :: c' => Some (encn 4 len ++ firstn (N.to_nat len) b, c')      (* format_to_n(buffer, len, ...) *)
    | [] => None
    end
  | StringRef, VRef p n => Some (encn 8 p ++ encn 8 n, cache)
  | DeferredAligned w a, VB b =>
    let pad := apad off a in
    Some (zeros (N.to_nat pad) ++ b ++ zeros (N.to_nat (a - 1 - pad)), cache)   (* placement new at the aligned address *)
  | Seq _ t', VL l =>
    (* Codec<size_t>::encode(size()), then the elements (one memcpy of the contiguous storage
       when T is arithmetic/enum and the container is a vector: the same bytes) *)
    match enc_zip (repeat (enc t') (length l)) l (off + 8) cache with
    | None => None
    | Some (bs, c) => Some (encn 8 (lenN l) ++ bs, c)
    end
  | FwdList t', VL l =>
    match cache with
    | n :: c' =>
      match enc_zip (repeat (enc t') (length l)) l (off + 8) c' with
      | None => None
      | Some (bs, c) => Some (encn 8 n ++ bs, c)
      end
    | [] => None
    end
  | Arr n t', VL l => enc_zip (repeat (enc t') n) l off cache
  | Opt _, VO None => Some ([0], cache)
  | Opt t', VO (Some x) =>
    match enc t' x (off + 1) cache with None => None | Some (b, c) => Some (1 :: b, c) end
  | Pair a b, _ => pairE (enc a) (enc b) v off cache
  | Tuple ts, VL l => enc_zip (map enc ts) l off cache
  | MapLike _ kt vt, VL l =>
    match enc_zip (repeat (pairE (enc kt) (enc vt)) (length l)) l (off + 8) cache with
    | None => None
    | Some (bs, c) => Some (encn 8 (lenN l) ++ bs, c)
    end
  | _, _ => None
  end.

(* ---------------------------------------------------------------- decode_arg *)
Definition pairD (f g : decF) : decF := fun off bs =>
  match dec_seq [f; g] off bs with None => None | Some (xs, r) => Some (VL xs, r) end.

(* [dd] = "decode as the decoded type": Codec<std::tuple<Types...>>::decode_arg assigns each
   element with Codec<std::decay_t<decltype(elem)>>::decode_arg, where elem already has the
   *decoded* type (std::string_view for std::string, char const* for char[N], ...), so below a
   tuple the codec of the decoded type is the one that runs.  Its wire format is the same as the
   original type's for every type except StringRef (decoded type std::string_view, whose codec
   reads a uint32 length prefix, whereas StringRef wrote pointer + size). *)
Fixpoint dec (dd : bool) (t : ty) {struct t} : decF := fun off bs =>
  match t with
  | Fixed _ w => match take w bs with None => None | Some (a, r) => Some (VB a, r) end
  | CStr | CharArr _ => match take_cstr bs with None => None | Some (a, r) => Some (VB a, r) end
  | LenStr _ | Direct => dec_lenstr off bs
  | StringRef =>
    if dd then dec_lenstr off bs
    else match decn 8 bs with
         | None => None
         | Some (p, r) => match decn 8 r with None => None | Some (n, r') => Some (VRef p n, r') end
         end
  | DeferredAligned w a =>
    let pad := apad off a in
    match take pad bs with
    | None => None
    | Some (_, r1) =>
      match take w r1 with
      | None => None
      | Some (b, r2) => match take (a - 1 - pad) r2 with None => None | Some (_, r3) => Some (VB b, r3) end
      end
    end
  | Seq k t' =>
    match decn 8 bs with
    | None => None
    | Some (n, r) =>
      match dec_seq (repeat (dec dd t') (N.to_nat n)) (off + 8) r with
      | None => None
      | Some (xs, r') => Some (VL (rebuild_seq k xs), r')
      end
    end
  | FwdList t' =>
    match decn 8 bs with
    | None => None
    | Some (n, r) =>
      match dec_seq (repeat (dec dd t') (N.to_nat n)) (off + 8) r with
      | None => None
      | Some (xs, r') => Some (VL xs, r')
      end
    end
  | Arr n t' =>
    match dec_seq (repeat (dec dd t') n) off bs with None => None | Some (xs, r') => Some (VL xs, r') end
  | Opt t' =>
    match bs with
    | 0 :: r => Some (VO None, r)
    | 1 :: r => match dec dd t' (off + 1) r with None => None | Some (x, r') => Some (VO (Some x), r') end
    | _ => None
    end
  | Pair a b => pairD (dec dd a) (dec dd b) off bs
  | Tuple ts =>
    match dec_seq (map (dec disp) ts) off bs with None => None | Some (xs, r') => Some (VL xs, r') end
  | MapLike k kt vt =>
    match decn 8 bs with
    | None => None
    | Some (n, r) =>
      match dec_seq (repeat (pairD (dec dd kt) (dec dd vt)) (N.to_nat n)) (off + 8) r with
      | None => None
      | Some (xs, r') => Some (VL (reinsert (CMap k) xs), r')
      end
    end
  end.

(* ---------------------------------------------------------------- what the backend holds *)
(* canon t v: the value the backend's DynamicFormatArgStore holds for argument v of type t when
   everything works: a C string / char array is cut at its first NUL, a null char const* is the
   empty string, sets and maps are re-inserted; everything else (embedded NULs of std::string
   included) is unchanged. *)
Definition pairC (f g : canF) : canF := fun v =>
  match v with VL l => VL (can_zip [f; g] l) | _ => v end.

Fixpoint canon (t : ty) (v : val) {struct t} : val :=
  match t, v with
  | CStr, VNull => VB []
  | CStr, VB b => VB (cut b)
  | CharArr _, VB b => VB (cut b)
  | Seq k t', VL l => VL (rebuild_seq k (can_zip (repeat (canon t') (length l)) l))
  | FwdList t', VL l => VL (can_zip (repeat (canon t') (length l)) l)
  | Arr n t', VL l => VL (can_zip (repeat (canon t') n) l)
  | Opt t', VO (Some x) => VO (Some (canon t' x))
  | Pair a b, _ => pairC (canon a) (canon b) v
  | Tuple ts, VL l => VL (can_zip (map canon ts) l)
  | MapLike k kt vt, VL l => VL (reinsert (CMap k) (can_zip (repeat (pairC (canon kt) (canon vt)) (length l)) l))
  | _, _ => v
  end.

(* what the caller's own formatting sees: the same, without any container rebuilt *)
Fixpoint view (t : ty) (v : val) {struct t} : val :=
  match t, v with
  | CStr, VNull => VB []
  | CStr, VB b => VB (cut b)
  | CharArr _, VB b => VB (cut b)
  | Seq _ t', VL l => VL (can_zip (repeat (view t') (length l)) l)
  | FwdList t', VL l => VL (can_zip (repeat (view t') (length l)) l)
  | Arr n t', VL l => VL (can_zip (repeat (view t') n) l)
  | Opt t', VO (Some x) => VO (Some (view t' x))
  | Pair a b, _ => pairC (view a) (view b) v
  | Tuple ts, VL l => VL (can_zip (map view ts) l)
  | MapLike _ kt vt, VL l => VL (can_zip (repeat (pairC (view kt) (view vt)) (length l)) l)
  | _, _ => v
  end.

(* ---------------------------------------------------------------- the statement *)
(* detail::compute_encoded_size_and_cache_string_lengths: the cache is cleared iff some argument
   type is outside {arithmetic, enum, void const*, std::string, std::string_view} *)
Definition simple_ty (t : ty) : bool :=
  match t with
  | Fixed KArith _ | Fixed KEnum _ | Fixed KPtr _ => true
  | LenStr KStr | LenStr KStrView => true
  | _ => false
  end.
Definition needs_clear (ts : list ty) : bool := negb (forallb simple_ty ts).

(* [clear_rule] = false is the defective variant "the cache is never cleared" *)
Definition args_size (clear_rule : bool) (cache0 : list N) (ts : list ty) (vs : list val) : N * list N :=
  let c0 := if clear_rule && needs_clear ts then [] else cache0 in
  let (s, pushed) := size_zip (map size ts) vs in (s, c0 ++ pushed).

(* detail::encode: conditional_arg_size_cache_index starts at 0 *)
Definition args_encode (ts : list ty) (vs : list val) (off : N) (cache : list N) :=
  enc_zip (map enc ts) vs off cache.

(* detail::decode_and_store_args<Args...> *)
Definition args_decode (ts : list ty) (off : N) (bs : list byte) :=
  dec_seq (map (dec false) ts) off bs.

(* header: timestamp, MacroMetadata*, LoggerBase*, FormatArgsDecoder  (8 + 3 * sizeof(uintptr_t)) *)
Record header := { h_ts : N; h_meta : N; h_logger : N; h_decoder : N }.
Definition HEADER_SIZE : N := 32.
Definition enc_header (h : header) : list byte :=
  encn 8 (h_ts h) ++ encn 8 (h_meta h) ++ encn 8 (h_logger h) ++ encn 8 (h_decoder h).

(* total_size in log_statement; dyn = Some level  <->  has_dynamic_log_level (sizeof(LogLevel) = 1) *)
Definition stmt_reserved (clear_rule : bool) (cache0 : list N) (ts : list ty) (vs : list val) (dyn : option N) : N * list N :=
  let (s, c) := args_size clear_rule cache0 ts vs in
  (HEADER_SIZE + s + (match dyn with Some _ => 1 | None => 0 end), c).

Definition dyn_bytes (dyn : option N) : list byte := match dyn with Some l => [l] | None => [] end.

(* what log_statement writes at address base *)
Definition stmt_encode (h : header) (ts : list ty) (vs : list val) (dyn : option N) (base : N) (cache : list N)
  : option (list byte) :=
  match args_encode ts vs (base + HEADER_SIZE) cache with
  | None => None
  | Some (bs, _) => Some (enc_header h ++ bs ++ dyn_bytes dyn)
  end.

(* what the backend reads at address base; is_dyn = (macro_metadata->log_level() == Dynamic) *)
Definition stmt_decode (ts : list ty) (is_dyn : bool) (base : N) (bs : list byte)
  : option (header * list val * option N * list byte) :=
  match decn 8 bs with None => None | Some (t, r1) =>
  match decn 8 r1 with None => None | Some (m, r2) =>
  match decn 8 r2 with None => None | Some (l, r3) =>
  match decn 8 r3 with None => None | Some (d, r4) =>
  match args_decode ts (base + HEADER_SIZE) r4 with None => None | Some (xs, r5) =>
    let h := {| h_ts := t; h_meta := m; h_logger := l; h_decoder := d |} in
    if is_dyn then match r5 with lv :: r6 => Some (h, xs, Some lv, r6) | [] => None end
    else Some (h, xs, None, r5)
  end end end end end.

End Codec.

(* ---------------------------------------------------------------- deep copy *)
(* caller memory at the time the backend formats: mem p n = the n bytes at address p *)
Fixpoint resolve (mem : N -> N -> list byte) (v : val) {struct v} : val :=
  match v with
  | VRef p n => VB (mem p n)
  | VL l => VL (map (resolve mem) l)
  | VO (Some x) => VO (Some (resolve mem x))
  | _ => v
  end.

Fixpoint noref (t : ty) : bool :=
  match t with
  | StringRef => false
  | Seq _ t' | FwdList t' | Arr _ t' | Opt t' => noref t'
  | Pair a b => noref a && noref b
  | Tuple ts => forallb noref ts
  | MapLike _ kt vt => noref kt && noref vt
  | _ => true
  end.

(* no unordered container anywhere *)
Fixpoint ordered_ty (t : ty) : bool :=
  match t with
  | Seq KUSet _ => false
  | MapLike KUMap _ _ => false
  | Seq _ t' | FwdList t' | Arr _ t' | Opt t' => ordered_ty t'
  | Pair a b => ordered_ty a && ordered_ty b
  | Tuple ts => forallb ordered_ty ts
  | MapLike _ kt vt => ordered_ty kt && ordered_ty vt
  | _ => true
  end.

(* decoder dispatch is consistent: no StringRef below a tuple ([dd] as in [dec]) *)
Fixpoint ok_ty (disp dd : bool) (t : ty) : bool :=
  match t with
  | StringRef => negb dd
  | Seq _ t' | FwdList t' | Arr _ t' | Opt t' => ok_ty disp dd t'
  | Pair a b => ok_ty disp dd a && ok_ty disp dd b
  | Tuple ts => forallb (ok_ty disp disp) ts
  | MapLike _ kt vt => ok_ty disp dd kt && ok_ty disp dd vt
  | _ => true
  end.

(* ---------------------------------------------------------------- well-typed values *)
Fixpoint wt_zip (ps : list (val -> Prop)) (l : list val) : Prop :=
  match ps, l with
  | [], [] => True
  | p :: ps', x :: l' => p x /\ wt_zip ps' l'
  | _, _ => False
  end.

Definition pairW (p q : val -> Prop) : val -> Prop := fun v =>
  match v with VL l => wt_zip [p; q] l | _ => False end.

(* the value has the shape of the type and stays inside the ranges the C++ integer types can
   represent (uint32 string lengths, size_t element counts, 64-bit addresses) *)
Fixpoint wt (t : ty) (v : val) {struct t} : Prop :=
  match t, v with
  | Fixed _ w, VB b => lenN b = w
  | CStr, VNull => True
  | CStr, VB b => lenN b < U32MAX
  | CharArr n, VB b => length b = n /\ N.of_nat n < U32MAX
  | LenStr _, VB b => lenN b < 4294967296
  | Direct, VB b => lenN b < 4294967296
  | StringRef, VRef p n => p < 256 ^ 8 /\ n < 256 ^ 8
  | DeferredAligned w a, VB b => lenN b = w /\ 0 < a
  | Seq _ t', VL l => lenN l < 256 ^ 8 /\ wt_zip (repeat (wt t') (length l)) l
  | FwdList t', VL l => lenN l < 4294967296 /\ wt_zip (repeat (wt t') (length l)) l
  | Arr n t', VL l => wt_zip (repeat (wt t') n) l
  | Opt _, VO None => True
  | Opt t', VO (Some x) => wt t' x
  | Pair a b, _ => pairW (wt a) (wt b) v
  | Tuple ts, VL l => wt_zip (map wt ts) l
  | MapLike _ kt vt, VL l => lenN l < 256 ^ 8 /\ wt_zip (repeat (pairW (wt kt) (wt vt)) (length l)) l
  | _, _ => False
  end.
