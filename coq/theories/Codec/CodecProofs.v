(* Proofs about M-CODEC (CodecDefs.v): for every type of the universe (arbitrary nesting) and every
   well-typed value, for any surrounding cache content, any address and any trailing bytes:
   the encode pass consumes exactly the cache entries the size pass pushed (in order), writes
   exactly the number of bytes the size pass computed, and the decoder reads exactly those bytes
   back to the canonical value. *)
From Coq Require Import List NArith Arith Bool Lia PeanoNat.
From Quill Require Import Base.Bytes Codec.CodecDefs.
Import ListNotations.
Local Open Scope N_scope.

(* ------------------------------------------------------------------ small facts *)
Lemma lenN_app {A} (a b : list A) : lenN (a ++ b) = lenN a + lenN b.
Proof. unfold lenN. rewrite app_length. lia. Qed.
Lemma lenN_cons {A} (x : A) (l : list A) : lenN (x :: l) = 1 + lenN l.
Proof. unfold lenN. cbn [length]. lia. Qed.
Lemma lenN_nil {A} : lenN (@nil A) = 0.
Proof. reflexivity. Qed.
Lemma lenN_encn w n : lenN (encn w n) = N.of_nat w.
Proof. unfold lenN. now rewrite encn_len. Qed.
Lemma lenN_zeros n : lenN (zeros n) = N.of_nat n.
Proof. unfold lenN. now rewrite zeros_len. Qed.

Lemma to_nat_lenN {A} (l : list A) : N.to_nat (lenN l) = length l.
Proof. unfold lenN. apply Nat2N.id. Qed.
Lemma firstn_lenN {A} (l : list A) : firstn (N.to_nat (lenN l)) l = l.
Proof. rewrite to_nat_lenN. apply firstn_all. Qed.

Lemma adv_app off (a r : list byte) : adv off (a ++ r) r = off + lenN a.
Proof. unfold adv, lenN. rewrite app_length. f_equal. f_equal. lia. Qed.

Lemma take_app n (a r : list byte) : lenN a = n -> take n (a ++ r) = Some (a, r).
Proof.
  intros <-. unfold take. rewrite lenN_app.
  replace (lenN a <=? lenN a + lenN r) with true by (symmetry; apply N.leb_le; lia).
  unfold lenN. rewrite Nat2N.id, firstn_app_exact, skipn_app_exact. reflexivity.
Qed.

Lemma cstrlen_le b : (cstrlen b <= length b)%nat.
Proof. induction b as [|x b IH]; cbn [cstrlen length]; [lia|]. destruct (N.eqb x 0); lia. Qed.

Lemma cut_length b : length (cut b) = cstrlen b.
Proof. unfold cut. apply firstn_length_le, cstrlen_le. Qed.

Lemma take_cstr_cut b tl : take_cstr (cut b ++ 0 :: tl) = Some (cut b, tl).
Proof.
  unfold cut. induction b as [|x b IH]; cbn [cstrlen firstn app take_cstr].
  - reflexivity.
  - destruct (N.eqb x 0) eqn:E; cbn [firstn app take_cstr].
    + reflexivity.
    + rewrite E, IH. reflexivity.
Qed.

(* no NUL in the array: the whole array is the string *)
Lemma cut_all b : cstrlen b = length b -> cut b = b.
Proof. intro H. unfold cut. rewrite H. apply firstn_all. Qed.

(* a NUL inside: the first cstrlen+1 bytes are the string and its terminator *)
Lemma firstn_S_cstrlen b : (cstrlen b < length b)%nat -> firstn (S (cstrlen b)) b = cut b ++ [0].
Proof.
  unfold cut. induction b as [|x b IH]; cbn [cstrlen length]; intro H; [lia|].
  destruct (N.eqb_spec x 0) as [->|Hx].
  - reflexivity.
  - cbn [firstn app]. f_equal. apply IH. lia.
Qed.

Lemma clamp32_small x : x <= U32MAX -> clamp32 x = x.
Proof. intro H. unfold clamp32. destruct (N.ltb_spec U32MAX x); [lia | reflexivity]. Qed.
Lemma wrap32_small x : x < 4294967296 -> wrap32 x = x.
Proof. intro H. unfold wrap32. now apply N.mod_small. Qed.

Lemma apad_lt off a : 0 < a -> apad off a < a.
Proof. intro H. unfold apad. apply N.mod_lt. lia. Qed.

(* the address the object lands on is aligned *)
Lemma apad_aligned off a : 0 < a -> (off + apad off a) mod a = 0.
Proof.
  intro H. unfold apad. assert (Ha : a <> 0) by lia.
  pose proof (N.mod_lt off a Ha) as Hlt.
  pose proof (N.div_mod off a Ha) as Hdm.
  remember (off mod a) as x eqn:Ex. remember (off / a) as q eqn:Eq.
  destruct (N.eq_dec x 0) as [E|E].
  - rewrite E, N.sub_0_r, N.mod_same, N.add_0_r by assumption. rewrite Ex in E. exact E.
  - rewrite (N.mod_small (a - x) a) by lia.
    replace (off + (a - x)) with (a + q * a) by nia.
    rewrite N.mod_add by assumption. now apply N.mod_same.
Qed.

(* ------------------------------------------------------------------ element lists *)
Section Proofs.
Variable reinsert : cont -> list val -> list val.
Variable disp : bool.

(* one element is "ok": for any address, any cache entries following its own, any bytes following
   its own *)
Definition okE (p : val -> Prop) (sz : sizeF) (en : encF) (de : decF) (cn : canF) : Prop :=
  forall v, p v -> forall off rest tl,
  exists bs, en v off (snd (sz v) ++ rest) = Some (bs, rest)
             /\ lenN bs = fst (sz v)
             /\ de off (bs ++ tl) = Some (cn v, tl).

Inductive okL : list (val -> Prop) -> list sizeF -> list encF -> list decF -> list canF -> Prop :=
| okL_nil : okL [] [] [] [] []
| okL_cons p s e d c ps ss es ds cs :
    okE p s e d c -> okL ps ss es ds cs -> okL (p :: ps) (s :: ss) (e :: es) (d :: ds) (c :: cs).

Lemma zip_ok ps ss es ds cs : okL ps ss es ds cs -> forall l, wt_zip ps l -> forall off rest tl,
  exists bs, enc_zip es l off (snd (size_zip ss l) ++ rest) = Some (bs, rest)
             /\ lenN bs = fst (size_zip ss l)
             /\ dec_seq ds off (bs ++ tl) = Some (can_zip cs l, tl)
             /\ length l = length ps.
Proof.
  induction 1 as [|p s e d c ps ss es ds cs H1 HL IH]; intros l W off rest tl;
    destruct l as [|x l]; cbn [wt_zip] in W; try contradiction.
  - exists []. cbn. auto.
  - destruct W as [Wx Wl]. cbn [size_zip enc_zip dec_seq can_zip].
    destruct (s x) as [s1 c1] eqn:E1. destruct (size_zip ss l) as [s2 c2] eqn:E2. cbn [fst snd].
    destruct (H1 x Wx off (c2 ++ rest) []) as (b1 & En1 & L1 & _).
    destruct (IH l Wl (off + lenN b1) rest tl) as (b2 & En2 & L2 & D2 & Ln).
    destruct (H1 x Wx off (c2 ++ rest) (b2 ++ tl)) as (b1' & En1' & _ & D1).
    rewrite E1 in En1, En1', L1. cbn [fst snd] in En1, En1', L1.
    assert (b1' = b1) by congruence. subst b1'.
    rewrite E2 in En2, L2. cbn [fst snd] in En2, L2.
    exists (b1 ++ b2). rewrite <- app_assoc, En1, En2.
    rewrite <- app_assoc, D1, adv_app, D2. rewrite lenN_app.
    repeat split; cbn [length]; auto; lia.
Qed.

Lemma okL_repeat p s e d c n : okE p s e d c -> okL (repeat p n) (repeat s n) (repeat e n) (repeat d n) (repeat c n).
Proof. induction n; cbn; constructor; auto. Qed.

Lemma wt_zip_length ps l : wt_zip ps l -> length l = length ps.
Proof.
  revert l. induction ps as [|p ps IH]; intros [|x l] W; cbn [wt_zip] in W; try contradiction; [reflexivity|].
  cbn [length]. f_equal. apply IH. tauto.
Qed.

(* pairs (std::pair and the elements of maps) *)
Lemma pair_ok p1 s1 e1 d1 c1 p2 s2 e2 d2 c2 :
  okE p1 s1 e1 d1 c1 -> okE p2 s2 e2 d2 c2 ->
  okE (pairW p1 p2) (pairS s1 s2) (pairE e1 e2) (pairD d1 d2) (pairC c1 c2).
Proof.
  intros H1 H2 v W off rest tl. destruct v as [b| |pp nn|l|o]; cbn [pairW] in W; try contradiction.
  assert (HL : okL [p1; p2] [s1; s2] [e1; e2] [d1; d2] [c1; c2]) by (repeat constructor; assumption).
  destruct (zip_ok _ _ _ _ _ HL l W off rest tl) as (bs & En & Ln & De & _).
  exists bs. unfold pairS, pairE, pairD, pairC. rewrite De. auto.
Qed.

(* ------------------------------------------------------------------ the "no iteration" branches *)
Lemma size_zip_fixed k w : forall n l, wt_zip (repeat (wt (Fixed k w)) n) l ->
  size_zip (repeat (size (Fixed k w)) n) l = (w * N.of_nat n, []).
Proof.
  induction n as [|n IH]; intros [|x l] W; cbn [repeat wt_zip] in W; try contradiction.
  - cbn [repeat size_zip]. f_equal. lia.
  - destruct W as [Wx Wl]. cbn [repeat size_zip]. rewrite (IH l Wl).
    destruct x as [b| |pp nn|l'|o]; cbn [wt] in Wx; try contradiction.
    cbn [size app]. f_equal. lia.
Qed.

Lemma arith_w_fixed t w : arith_w t = Some w -> exists k, t = Fixed k w.
Proof.
  destruct t as [k w'| | | | | | | | | | | | |]; cbn [arith_w]; try discriminate.
  destruct k; try discriminate; intro H; inversion H; subst; eauto.
Qed.

Lemma size_zip_fixed_pair k1 w1 k2 w2 : forall n l,
  wt_zip (repeat (pairW (wt (Fixed k1 w1)) (wt (Fixed k2 w2))) n) l ->
  size_zip (repeat (pairS (size (Fixed k1 w1)) (size (Fixed k2 w2))) n) l = ((w1 + w2) * N.of_nat n, []).
Proof.
  induction n as [|n IH]; intros [|x l] W; cbn [repeat wt_zip] in W; try contradiction.
  - cbn [repeat size_zip]. f_equal. lia.
  - destruct W as [Wx Wl]. cbn [repeat size_zip]. rewrite (IH l Wl).
    destruct x as [b| |pp nn|l'|o]; cbn [pairW] in Wx; try contradiction.
    destruct l' as [|x1 [|x2 [|x3 l3]]]; cbn [wt_zip] in Wx; try tauto.
    destruct Wx as (W1 & W2 & _).
    destruct x1 as [b1| | | |]; cbn [wt] in W1; try contradiction.
    destruct x2 as [b2| | | |]; cbn [wt] in W2; try contradiction.
    cbn [pairS size_zip size app]. f_equal. lia.
Qed.

(* ------------------------------------------------------------------ the main theorem *)
Section Ind.
  Variable P : ty -> Prop.
  Hypothesis HF : forall k w, P (Fixed k w).
  Hypothesis HC : P CStr.
  Hypothesis HA : forall n, P (CharArr n).
  Hypothesis HS : forall k, P (LenStr k).
  Hypothesis HD : P Direct.
  Hypothesis HR : P StringRef.
  Hypothesis HG : forall w a, P (DeferredAligned w a).
  Hypothesis HQ : forall k t, P t -> P (Seq k t).
  Hypothesis HW : forall t, P t -> P (FwdList t).
  Hypothesis HY : forall n t, P t -> P (Arr n t).
  Hypothesis HO : forall t, P t -> P (Opt t).
  Hypothesis HP : forall a b, P a -> P b -> P (Pair a b).
  Hypothesis HT : forall ts, Forall P ts -> P (Tuple ts).
  Hypothesis HM : forall k kt vt, P kt -> P vt -> P (MapLike k kt vt).
  Fixpoint ty_ind' (t : ty) : P t :=
    match t with
    | Fixed k w => HF k w | CStr => HC | CharArr n => HA n | LenStr k => HS k | Direct => HD
    | StringRef => HR | DeferredAligned w a => HG w a
    | Seq k t' => HQ k _ (ty_ind' t') | FwdList t' => HW _ (ty_ind' t') | Arr n t' => HY n _ (ty_ind' t')
    | Opt t' => HO _ (ty_ind' t') | Pair a b => HP _ _ (ty_ind' a) (ty_ind' b)
    | Tuple ts => HT ts ((fix go ts : Forall P ts :=
                            match ts with [] => Forall_nil _ | t' :: ts' => Forall_cons _ (ty_ind' t') (go ts') end) ts)
    | MapLike k kt vt => HM k _ _ (ty_ind' kt) (ty_ind' vt)
    end.
End Ind.

Definition ok (dd : bool) (t : ty) : Prop :=
  okE (wt t) (size t) (enc t) (dec reinsert disp dd t) (canon reinsert t).

Lemma okL_map dd ts : Forall (fun t => forall dd, ok_ty disp dd t = true -> ok dd t) ts -> forallb (ok_ty disp dd) ts = true ->
  okL (map wt ts) (map size ts) (map enc ts) (map (dec reinsert disp dd) ts) (map (canon reinsert) ts).
Proof.
  induction 1 as [|t ts Ht _ IH]; cbn [forallb map]; intro Hb; [constructor|].
  apply andb_prop in Hb. destruct Hb as [Hb1 Hb2]. constructor; [apply Ht, Hb1 | apply IH, Hb2].
Qed.

Lemma lenstr_ok (b : list byte) tl : lenN b < 4294967296 ->
  dec_lenstr 0 ((encn 4 (lenN b) ++ b) ++ tl) = Some (VB b, tl).
Proof.
  intro H. unfold dec_lenstr. rewrite <- app_assoc, decn_encn by (cbn; lia).
  rewrite take_app by reflexivity. reflexivity.
Qed.

Theorem codec_ok : forall t dd, ok_ty disp dd t = true -> ok dd t.
Proof.
  induction t using ty_ind'; intros dd Hok v W off rest tl.
  - (* Fixed *)
    destruct v as [b| |pp nn|l|o]; cbn [wt] in W; try contradiction.
    exists b. cbn [size enc dec canon fst snd app]. rewrite take_app by assumption. auto.
  - (* CStr *)
    destruct v as [b| |pp nn|l|o]; cbn [wt] in W; try contradiction.
    + pose proof (cstrlen_le b) as Hle. unfold lenN in W.
      cbn [size enc dec canon fst snd app].
      rewrite clamp32_small by lia.
      exists (cut b ++ [0]). replace (N.to_nat (N.of_nat (cstrlen b) + 1 - 1)) with (cstrlen b) by lia.
      split; [reflexivity|]. split.
      * rewrite lenN_app. unfold lenN at 1. rewrite cut_length. cbn. lia.
      * rewrite <- app_assoc. cbn [app]. rewrite take_cstr_cut. reflexivity.
    + exists [0]. cbn. auto.
  - (* CharArr *)
    destruct v as [b| |pp nn|l|o]; cbn [wt] in W; try contradiction.
    destruct W as [Wn Wm]. pose proof (cstrlen_le b) as Hle.
    cbn [size enc dec canon fst snd app].
    rewrite N.min_l by lia. rewrite clamp32_small by lia.
    exists (cut b ++ [0]). split; [|split].
    + destruct (N.ltb_spec (N.of_nat n) (N.of_nat (cstrlen b) + 1)) as [Hlt|Hge].
      * assert (E : cstrlen b = length b) by lia.
        rewrite <- Wn, firstn_all, (cut_all b E). reflexivity.
      * replace (N.to_nat (N.of_nat (cstrlen b) + 1)) with (S (cstrlen b)) by lia.
        rewrite firstn_S_cstrlen by lia. reflexivity.
    + rewrite lenN_app. unfold lenN at 1. rewrite cut_length. cbn. lia.
    + rewrite <- app_assoc. cbn [app]. rewrite take_cstr_cut. reflexivity.
  - (* LenStr *)
    destruct v as [b| |pp nn|l|o]; cbn [wt] in W; try contradiction.
    cbn [size enc dec canon fst snd app]. rewrite wrap32_small by assumption.
    rewrite firstn_lenN.
    exists (encn 4 (lenN b) ++ b). split; [reflexivity|]. split.
    + rewrite lenN_app, lenN_encn. lia.
    + unfold dec_lenstr. rewrite <- app_assoc, decn_encn by (cbn; lia).
      rewrite take_app by reflexivity. reflexivity.
  - (* Direct *)
    destruct v as [b| |pp nn|l|o]; cbn [wt] in W; try contradiction.
    cbn [size enc dec canon fst snd app]. rewrite wrap32_small by assumption.
    rewrite firstn_lenN.
    exists (encn 4 (lenN b) ++ b). split; [reflexivity|]. split.
    + rewrite lenN_app, lenN_encn. lia.
    + unfold dec_lenstr. rewrite <- app_assoc, decn_encn by (cbn; lia).
      rewrite take_app by reflexivity. reflexivity.
  - (* StringRef *)
    destruct v as [b| |pp nn|l|o]; cbn [wt] in W; try contradiction.
    destruct W as [Wp Wn]. cbn [ok_ty] in Hok. destruct dd; [discriminate|].
    cbn [size enc dec canon fst snd app].
    exists (encn 8 pp ++ encn 8 nn). split; [reflexivity|]. split.
    + rewrite lenN_app, !lenN_encn. reflexivity.
    + rewrite <- !app_assoc, decn_encn by assumption. rewrite decn_encn by assumption. reflexivity.
  - (* DeferredAligned *)
    destruct v as [b| |pp nn|l|o]; cbn [wt] in W; try contradiction.
    destruct W as [Ww Wa]. pose proof (apad_lt off a Wa) as Hp.
    cbn [size enc dec canon fst snd app].
    exists (zeros (N.to_nat (apad off a)) ++ b ++ zeros (N.to_nat (a - 1 - apad off a))).
    split; [reflexivity|]. split.
    + rewrite !lenN_app, !lenN_zeros. lia.
    + rewrite <- !app_assoc.
      rewrite take_app by (rewrite lenN_zeros; lia).
      rewrite take_app by assumption.
      rewrite take_app by (rewrite lenN_zeros; lia). reflexivity.
  - (* Seq *)
    destruct v as [b| |pp nn|l|o]; cbn [wt] in W; try contradiction.
    destruct W as [Wl Wz]. cbn [ok_ty] in Hok.
    destruct (zip_ok _ _ _ _ _ (okL_repeat _ _ _ _ _ (length l) (IHt dd Hok)) l Wz (off + 8) rest tl) as (bs & En & Ln & De & _).
    unfold sizeF, encF, decF, canF in *.
    assert (Hsz : size (Seq k t) (VL l) = (8 + fst (size_zip (repeat (size t) (length l)) l), snd (size_zip (repeat (size t) (length l)) l))).
    { cbn [size]. destruct (arith_w t) as [w|] eqn:Ea.
      - destruct (arith_w_fixed _ _ Ea) as [k' ->]. rewrite size_zip_fixed by assumption. reflexivity.
      - destruct (size_zip (repeat (size t) (length l)) l). reflexivity. }
    rewrite Hsz. cbn [fst snd enc dec canon]. rewrite En.
    exists (encn 8 (lenN l) ++ bs). split; [reflexivity|]. split.
    + rewrite lenN_app, lenN_encn, Ln. lia.
    + rewrite <- app_assoc, decn_encn by assumption. rewrite to_nat_lenN. unfold decF in *. rewrite De. reflexivity.
  - (* FwdList *)
    destruct v as [b| |pp nn|l|o]; cbn [wt] in W; try contradiction.
    destruct W as [Wl Wz]. cbn [ok_ty] in Hok.
    destruct (zip_ok _ _ _ _ _ (okL_repeat _ _ _ _ _ (length l) (IHt dd Hok)) l Wz (off + 8) rest tl) as (bs & En & Ln & De & _).
    unfold sizeF, encF, decF, canF in *.
    cbn [size enc dec canon]. destruct (size_zip (repeat (size t) (length l)) l) as [s c] eqn:Es.
    cbn [fst snd app] in *. rewrite wrap32_small by assumption. rewrite En.
    exists (encn 8 (lenN l) ++ bs). split; [reflexivity|]. split.
    + rewrite lenN_app, lenN_encn, Ln. lia.
    + rewrite <- app_assoc, decn_encn by (cbn; lia). rewrite to_nat_lenN. unfold decF in *. rewrite De. reflexivity.
  - (* Arr *)
    destruct v as [b| |pp nn|l|o]; cbn [wt] in W; try contradiction.
    cbn [ok_ty] in Hok.
    destruct (zip_ok _ _ _ _ _ (okL_repeat _ _ _ _ _ n (IHt dd Hok)) l W off rest tl) as (bs & En & Ln & De & _).
    unfold sizeF, encF, decF, canF in *.
    assert (Hsz : size (Arr n t) (VL l) = size_zip (repeat (size t) n) l).
    { cbn [size]. destruct (arith_w t) as [w|] eqn:Ea; [|reflexivity].
      destruct (arith_w_fixed _ _ Ea) as [k' ->]. rewrite size_zip_fixed by assumption. reflexivity. }
    rewrite Hsz. cbn [enc dec canon]. exists bs. unfold decF in *. rewrite De. auto.
  - (* Opt *)
    destruct v as [b| |pp nn|l|o]; cbn [wt] in W; try contradiction.
    cbn [ok_ty] in Hok. destruct o as [x|].
    + destruct (IHt dd Hok x W (off + 1) rest tl) as (bs & En & Ln & De).
      cbn [size enc dec canon]. destruct (size t x) as [s c] eqn:Es. cbn [fst snd] in *. rewrite En.
      exists (1 :: bs). cbn [app]. rewrite De, lenN_cons, Ln. auto.
    + exists [0]. cbn. auto.
  - (* Pair *)
    cbn [ok_ty] in Hok. apply andb_prop in Hok. destruct Hok as [Hk1 Hk2].
    exact (pair_ok _ _ _ _ _ _ _ _ _ _ (IHt1 dd Hk1) (IHt2 dd Hk2) v W off rest tl).
  - (* Tuple *)
    destruct v as [b| |pp nn|l|o]; cbn [wt] in W; try contradiction.
    cbn [ok_ty] in Hok.
    destruct (zip_ok _ _ _ _ _ (okL_map _ _ H Hok) l W off rest tl) as (bs & En & Ln & De & _).
    unfold sizeF, encF, decF, canF in *.
    exists bs. cbn [size enc dec canon]. unfold decF in *. rewrite De. auto.
  - (* MapLike *)
    destruct v as [b| |pp nn|l|o]; cbn [wt] in W; try contradiction.
    destruct W as [Wl Wz]. cbn [ok_ty] in Hok. apply andb_prop in Hok. destruct Hok as [Hk1 Hk2].
    pose proof (pair_ok _ _ _ _ _ _ _ _ _ _ (IHt1 dd Hk1) (IHt2 dd Hk2)) as HP.
    destruct (zip_ok _ _ _ _ _ (okL_repeat _ _ _ _ _ (length l) HP) l Wz (off + 8) rest tl) as (bs & En & Ln & De & _).
    assert (Hsz : size (MapLike k t1 t2) (VL l) =
                  (8 + fst (size_zip (repeat (pairS (size t1) (size t2)) (length l)) l),
                   snd (size_zip (repeat (pairS (size t1) (size t2)) (length l)) l))).
    { cbn [size]. destruct (arith_w t1) as [w1|] eqn:Ea1; [destruct (arith_w t2) as [w2|] eqn:Ea2|].
      - destruct (arith_w_fixed _ _ Ea1) as [k1 ->]. destruct (arith_w_fixed _ _ Ea2) as [k2 ->].
        rewrite size_zip_fixed_pair by assumption. reflexivity.
      - destruct (size_zip (repeat (pairS (size t1) (size t2)) (length l)) l). reflexivity.
      - destruct (size_zip (repeat (pairS (size t1) (size t2)) (length l)) l). reflexivity. }
    rewrite Hsz. cbn [fst snd enc dec canon]. rewrite En.
    exists (encn 8 (lenN l) ++ bs). split; [reflexivity|]. split.
    + rewrite lenN_app, lenN_encn, Ln. lia.
    + rewrite <- app_assoc, decn_encn by assumption. rewrite to_nat_lenN, De. reflexivity.
Qed.

End Proofs.

(* ================================================================== consequences *)

(* with the original-type dispatch no type is excluded *)
Lemma ok_ty_nodisp : forall t, ok_ty false false t = true.
Proof.
  induction t using ty_ind'; cbn [ok_ty negb]; auto.
  - now rewrite IHt1, IHt2.
  - induction H as [|t ts Ht _ IH]; cbn [forallb]; [reflexivity | now rewrite Ht, IH].
  - now rewrite IHt1, IHt2.
Qed.

Lemma forallb_ok_ty_nodisp ts : forallb (ok_ty false false) ts = true.
Proof. induction ts as [|t ts IH]; cbn [forallb]; [reflexivity | now rewrite ok_ty_nodisp, IH]. Qed.

(* reserved = written, and the cache discipline, per argument: no hypothesis on the type *)
Theorem codec_size_cache_exact : forall t v, wt t v -> forall off rest,
  exists bs, enc t v off (snd (size t v) ++ rest) = Some (bs, rest) /\ lenN bs = fst (size t v).
Proof.
  intros t v W off rest.
  destruct (codec_ok (fun _ l => l) false t false (ok_ty_nodisp t) v W off rest []) as (bs & En & Ln & _).
  exists bs. auto.
Qed.

Theorem codec_roundtrip_thm : forall reinsert disp dd t, ok_ty disp dd t = true -> forall v, wt t v ->
  forall off rest tl,
  exists bs, enc t v off (snd (size t v) ++ rest) = Some (bs, rest)
             /\ dec reinsert disp dd t off (bs ++ tl) = Some (canon reinsert t v, tl).
Proof.
  intros reinsert disp dd t Hok v W off rest tl.
  destruct (codec_ok reinsert disp t dd Hok v W off rest tl) as (bs & En & _ & De). exists bs. auto.
Qed.

(* ------------------------------------------------------------------ argument lists *)
Lemma okL_args reinsert disp dd ts : forallb (ok_ty disp dd) ts = true ->
  okL (map wt ts) (map size ts) (map enc ts) (map (dec reinsert disp dd) ts) (map (canon reinsert) ts).
Proof.
  induction ts as [|t ts IH]; cbn [forallb map]; intro Hb; [constructor|].
  apply andb_prop in Hb. destruct Hb as [Hb1 Hb2]. constructor; [apply codec_ok, Hb1 | apply IH, Hb2].
Qed.

Lemma simple_no_push : forall ts vs, forallb simple_ty ts = true -> snd (size_zip (map size ts) vs) = [].
Proof.
  induction ts as [|t ts IH]; intros vs Hb; [reflexivity|].
  cbn [forallb] in Hb. apply andb_prop in Hb. destruct Hb as [Ht Hts].
  destruct vs as [|v vs]; [reflexivity|]. cbn [map size_zip].
  specialize (IH vs Hts). destruct (size_zip (map size ts) vs) as [s2 c2]. cbn [snd] in IH. subst c2.
  destruct t as [k w| | |k| | | | | | | | | |]; try discriminate Ht.
  - destruct v; cbn [size]; reflexivity.
  - destruct v; cbn [size]; reflexivity.
Qed.

(* the stale part of the cache after the clearing rule *)
Definition stale (cache0 : list N) (ts : list ty) : list N := if needs_clear ts then [] else cache0.

Lemma args_size_eq cache0 ts vs :
  args_size true cache0 ts vs =
  (fst (size_zip (map size ts) vs), snd (size_zip (map size ts) vs) ++ stale cache0 ts).
Proof.
  unfold args_size, stale, needs_clear. cbn [andb].
  destruct (forallb simple_ty ts) eqn:E; cbn [negb].
  - pose proof (simple_no_push ts vs E) as Hp.
    destruct (size_zip (map size ts) vs) as [s c]. cbn [fst snd] in *. subst c. now rewrite app_nil_r.
  - destruct (size_zip (map size ts) vs) as [s c]. cbn [fst snd]. now rewrite app_nil_r.
Qed.

(* codec_cache_sync, whole argument list: whatever the thread-local cache held before the call
   ([cache0]), after the size pass the cache is [pushed ++ stale] where [pushed] are exactly the
   entries of this statement, the encode pass (index 0 onwards) never reads out of bounds, reads
   exactly [pushed] in order and stops in front of [stale]; written = reserved. *)
Theorem args_cache_sync : forall ts vs, wt_zip (map wt ts) vs -> forall cache0 off,
  exists bs,
    snd (args_size true cache0 ts vs) = snd (size_zip (map size ts) vs) ++ stale cache0 ts
    /\ args_encode ts vs off (snd (args_size true cache0 ts vs)) = Some (bs, stale cache0 ts)
    /\ lenN bs = fst (args_size true cache0 ts vs).
Proof.
  intros ts vs W cache0 off. rewrite args_size_eq. cbn [fst snd].
  destruct (zip_ok _ _ _ _ _ (okL_args (fun _ l => l) false false ts (forallb_ok_ty_nodisp ts)) vs W off (stale cache0 ts) [])
    as (bs & En & Ln & _).
  exists bs. auto.
Qed.

Lemma is_dyn_enc (dyn : option N) : lenN (dyn_bytes dyn) = match dyn with Some _ => 1 | None => 0 end.
Proof. destruct dyn; reflexivity. Qed.

Definition h_ok (h : header) : Prop :=
  h_ts h < 256 ^ 8 /\ h_meta h < 256 ^ 8 /\ h_logger h < 256 ^ 8 /\ h_decoder h < 256 ^ 8.

Definition is_some {A} (o : option A) : bool := match o with Some _ => true | None => false end.

(* stmt_size_exact: reserved = written = consumed for the whole statement, and what is read back *)
Theorem stmt_exact : forall reinsert disp ts vs, forallb (ok_ty disp false) ts = true -> wt_zip (map wt ts) vs ->
  forall h, h_ok h -> forall dyn cache0 base tl,
  exists bs,
    stmt_encode h ts vs dyn base (snd (stmt_reserved true cache0 ts vs dyn)) = Some bs
    /\ lenN bs = fst (stmt_reserved true cache0 ts vs dyn)
    /\ stmt_decode reinsert disp ts (is_some dyn) base (bs ++ tl)
       = Some (h, can_zip (map (canon reinsert) ts) vs, dyn, tl).
Proof.
  intros reinsert disp ts vs Hok W h (H1 & H2 & H3 & H4) dyn cache0 base tl.
  unfold stmt_reserved. rewrite args_size_eq. cbn [fst snd].
  destruct (zip_ok _ _ _ _ _ (okL_args reinsert disp false ts Hok) vs W (base + HEADER_SIZE) (stale cache0 ts)
              (dyn_bytes dyn ++ tl)) as (bs & En & Ln & De & _).
  unfold stmt_encode, args_encode. rewrite En.
  exists (enc_header h ++ bs ++ dyn_bytes dyn).
  split; [reflexivity|]. split.
  - unfold enc_header. rewrite !lenN_app, !lenN_encn, is_dyn_enc, Ln. unfold HEADER_SIZE. lia.
  - unfold stmt_decode, enc_header, args_decode. rewrite <- !app_assoc.
    rewrite decn_encn by assumption. rewrite decn_encn by assumption.
    rewrite decn_encn by assumption. rewrite decn_encn by assumption.
    rewrite De. destruct h; destruct dyn; reflexivity.
Qed.

(* ------------------------------------------------------------------ text *)
Theorem text_equal : forall (render : list byte -> list val -> list byte) reinsert disp ts vs,
  forallb (ok_ty disp false) ts = true -> wt_zip (map wt ts) vs ->
  forall f cache0 off tl,
  exists bs decoded,
    args_encode ts vs off (snd (args_size true cache0 ts vs)) = Some (bs, stale cache0 ts)
    /\ args_decode reinsert disp ts off (bs ++ tl) = Some (decoded, tl)
    /\ render f decoded = render f (can_zip (map (canon reinsert) ts) vs).
Proof.
  intros render reinsert disp ts vs Hok W f cache0 off tl. rewrite args_size_eq. cbn [snd].
  destruct (zip_ok _ _ _ _ _ (okL_args reinsert disp false ts Hok) vs W off (stale cache0 ts) tl) as (bs & En & _ & De & _).
  exists bs, (can_zip (map (canon reinsert) ts) vs). auto.
Qed.

(* canon = view when no unordered container occurs and ordered ones re-insert to themselves *)
Lemma can_zip_ext_repeat (f g : canF) n : (forall v, f v = g v) -> forall l, can_zip (repeat f n) l = can_zip (repeat g n) l.
Proof. intro H. induction n as [|n IH]; intros [|x l]; cbn [repeat can_zip]; try reflexivity. now rewrite H, IH. Qed.

Lemma pairC_ext (f1 g1 f2 g2 : canF) : (forall v, f1 v = f2 v) -> (forall v, g1 v = g2 v) -> forall v, pairC f1 g1 v = pairC f2 g2 v.
Proof.
  intros Hf Hg v. destruct v as [| | |l|]; cbn [pairC]; try reflexivity.
  destruct l as [|x [|y l]]; cbn [can_zip]; try reflexivity; rewrite ?Hf, ?Hg; reflexivity.
Qed.

Section View.
Variable reinsert : cont -> list val -> list val.
Hypothesis reinsert_set : forall l, reinsert (CSeq KSet) l = l.
Hypothesis reinsert_map : forall l, reinsert (CMap KMap) l = l.

Lemma canon_view : forall t, ordered_ty t = true -> forall v, canon reinsert t v = view t v.
Proof.
  induction t using ty_ind'; intros Ho v; try reflexivity.
  - (* Seq *)
    destruct v as [| | |l|]; try reflexivity. cbn [canon view].
    rewrite (can_zip_ext_repeat (canon reinsert t) (view t) (length l)).
    + destruct k; cbn [rebuild_seq]; try reflexivity; [apply f_equal, reinsert_set | discriminate Ho].
    + apply IHt. destruct k; cbn [ordered_ty] in Ho; try assumption. discriminate.
  - destruct v as [| | |l|]; try reflexivity. cbn [canon view ordered_ty] in *.
    now rewrite (can_zip_ext_repeat (canon reinsert t) (view t) (length l)) by auto.
  - destruct v as [| | |l|]; try reflexivity. cbn [canon view ordered_ty] in *.
    now rewrite (can_zip_ext_repeat (canon reinsert t) (view t) n) by auto.
  - destruct v as [| | | |[x|]]; try reflexivity. cbn [canon view ordered_ty] in *. now rewrite IHt.
  - cbn [ordered_ty] in Ho. apply andb_prop in Ho. destruct Ho as [Ho1 Ho2]. cbn [canon view].
    apply pairC_ext; auto.
  - destruct v as [| | |l|]; try reflexivity. cbn [canon view ordered_ty] in *. f_equal.
    revert l. induction H as [|t ts Ht _ IH]; intros l; [reflexivity|].
    cbn [forallb] in Ho. apply andb_prop in Ho. destruct Ho as [Ho1 Ho2].
    destruct l as [|x l]; cbn [map can_zip]; [reflexivity|]. now rewrite Ht, IH.
  - destruct v as [| | |l|]; try reflexivity. cbn [canon view].
    assert (Ho' : ordered_ty t1 = true /\ ordered_ty t2 = true).
    { destruct k; cbn [ordered_ty] in Ho; [|discriminate]. now apply andb_prop in Ho. }
    destruct Ho' as [Ho1 Ho2].
    rewrite (can_zip_ext_repeat (pairC (canon reinsert t1) (canon reinsert t2)) (pairC (view t1) (view t2)) (length l))
      by (apply pairC_ext; auto).
    destruct k; [apply f_equal, reinsert_map | discriminate Ho].
Qed.

Lemma canon_view_list : forall ts, forallb ordered_ty ts = true -> forall vs,
  can_zip (map (canon reinsert) ts) vs = can_zip (map view ts) vs.
Proof.
  induction ts as [|t ts IH]; intros Ho vs; [reflexivity|].
  cbn [forallb] in Ho. apply andb_prop in Ho. destruct Ho as [Ho1 Ho2].
  destruct vs as [|v vs]; cbn [map can_zip]; [reflexivity|]. now rewrite canon_view, IH.
Qed.

(* the full-strength clause: what the backend formats is what the caller would have formatted *)
Theorem callsite_text_equal : forall (render : list byte -> list val -> list byte) disp ts vs,
  forallb (ok_ty disp false) ts = true -> forallb ordered_ty ts = true -> wt_zip (map wt ts) vs ->
  forall f cache0 off tl,
  exists bs decoded,
    args_encode ts vs off (snd (args_size true cache0 ts vs)) = Some (bs, stale cache0 ts)
    /\ args_decode reinsert disp ts off (bs ++ tl) = Some (decoded, tl)
    /\ render f decoded = render f (can_zip (map view ts) vs).
Proof.
  intros render disp ts vs Hok Ho W f cache0 off tl.
  destruct (text_equal render reinsert disp ts vs Hok W f cache0 off tl) as (bs & d & En & De & R).
  exists bs, d. rewrite <- (canon_view_list ts Ho vs). auto.
Qed.
End View.

(* ------------------------------------------------------------------ deep copy *)
Lemma noref_ok_ty disp : forall t dd, noref t = true -> ok_ty disp dd t = true.
Proof.
  induction t using ty_ind'; intros dd Hn; cbn [noref ok_ty] in *; auto; try discriminate.
  - apply andb_prop in Hn. destruct Hn. now rewrite IHt1, IHt2.
  - induction H as [|t ts Ht _ IH]; cbn [forallb] in *; [reflexivity|].
    apply andb_prop in Hn. destruct Hn as [H1 H2]. now rewrite Ht, IH.
  - apply andb_prop in Hn. destruct Hn. now rewrite IHt1, IHt2.
Qed.

Lemma noref_ok_ty_list disp dd ts : forallb noref ts = true -> forallb (ok_ty disp dd) ts = true.
Proof.
  induction ts as [|t ts IH]; cbn [forallb]; [reflexivity|]. intro H. apply andb_prop in H. destruct H as [H1 H2].
  now rewrite noref_ok_ty, IH.
Qed.

Lemma map_id_in {A} (f : A -> A) l : (forall x, In x l -> f x = x) -> map f l = l.
Proof. induction l as [|a l IH]; cbn [map]; intro H; [reflexivity|]. rewrite H, IH; auto using in_eq, in_cons. Qed.

Lemma can_zip_in_repeat (p : val -> Prop) (c : canF) n : forall l, wt_zip (repeat p n) l ->
  forall y, In y (can_zip (repeat c n) l) -> exists x, p x /\ y = c x.
Proof.
  induction n as [|n IH]; intros [|x l] W y Hy; cbn [repeat wt_zip can_zip] in *; try contradiction.
  destruct W as [Wx Wl]. destruct Hy as [<-|Hy]; [eauto | eapply IH; eauto].
Qed.

Section Deep.
Variable reinsert : cont -> list val -> list val.
(* a rebuilt container holds nothing but the elements that were inserted *)
Hypothesis reinsert_incl : forall c l x, In x (reinsert c l) -> In x l.

Lemma rebuild_seq_incl k l x : In x (rebuild_seq reinsert k l) -> In x l.
Proof. destruct k; cbn [rebuild_seq]; auto; apply reinsert_incl. Qed.

Lemma canon_noref : forall t, noref t = true -> forall v, wt t v -> forall mem,
  resolve mem (canon reinsert t v) = canon reinsert t v.
Proof.
  induction t using ty_ind'; intros Hn v W mem; cbn [noref] in Hn; try discriminate;
    destruct v as [b| |pp nn|l|o]; cbn [wt pairW] in W; try contradiction; try reflexivity.
  - (* Seq *) destruct W as [_ W]. cbn [canon resolve]. f_equal. apply map_id_in. intros x Hx.
    apply rebuild_seq_incl in Hx. destruct (can_zip_in_repeat _ _ _ _ W _ Hx) as (x0 & Wx & ->). now apply IHt.
  - (* FwdList *) destruct W as [_ W]. cbn [canon resolve]. f_equal. apply map_id_in. intros x Hx.
    destruct (can_zip_in_repeat _ _ _ _ W _ Hx) as (x0 & Wx & ->). now apply IHt.
  - (* Arr *) cbn [canon resolve]. f_equal. apply map_id_in. intros x Hx.
    destruct (can_zip_in_repeat _ _ _ _ W _ Hx) as (x0 & Wx & ->). now apply IHt.
  - (* Opt *) destruct o as [x|]; [|reflexivity]. cbn [canon resolve]. now rewrite IHt.
  - (* Pair *) apply andb_prop in Hn. destruct Hn as [Hn1 Hn2].
    destruct l as [|x [|y [|z l]]]; cbn [wt_zip] in W; try tauto. destruct W as (W1 & W2 & _).
    cbn [canon pairC can_zip resolve map]. now rewrite IHt1, IHt2.
  - (* Tuple *) cbn [canon resolve]. f_equal.
    revert l W. induction H as [|t ts Ht _ IH]; intros [|x l] W; cbn [map wt_zip can_zip] in *; try contradiction; [reflexivity|].
    cbn [forallb] in Hn. apply andb_prop in Hn. destruct Hn as [Hn1 Hn2]. destruct W as [Wx Wl].
    now rewrite Ht, IH.
  - (* MapLike *) apply andb_prop in Hn. destruct Hn as [Hn1 Hn2]. destruct W as [_ W].
    cbn [canon resolve]. f_equal. apply map_id_in. intros x Hx. apply reinsert_incl in Hx.
    destruct (can_zip_in_repeat _ _ _ _ W _ Hx) as (x0 & Wx & ->).
    destruct x0 as [| | |l0|]; cbn [pairW] in Wx; try contradiction.
    destruct l0 as [|x [|y [|z l0]]]; cbn [wt_zip] in Wx; try tauto. destruct Wx as (W1 & W2 & _).
    cbn [pairC can_zip resolve map]. now rewrite IHt1, IHt2.
Qed.

Lemma canon_noref_list mem : forall ts, forallb noref ts = true -> forall vs, wt_zip (map wt ts) vs ->
  map (resolve mem) (can_zip (map (canon reinsert) ts) vs) = can_zip (map (canon reinsert) ts) vs.
Proof.
  induction ts as [|t ts IH]; intros Hn [|v vs] W; cbn [map wt_zip can_zip] in *; try contradiction; [reflexivity|].
  cbn [forallb] in Hn. apply andb_prop in Hn. destruct Hn as [Hn1 Hn2]. destruct W as [Wv Wvs].
  now rewrite canon_noref, IH.
Qed.

(* C04_deep_copy: with no StringRef among the argument types, what the backend formats is the
   canonical value of the arguments at call time, whatever the caller's memory holds by then *)
Theorem deep_copy : forall disp ts vs, forallb noref ts = true -> wt_zip (map wt ts) vs ->
  forall cache0 off tl,
  exists bs decoded,
    args_encode ts vs off (snd (args_size true cache0 ts vs)) = Some (bs, stale cache0 ts)
    /\ args_decode reinsert disp ts off (bs ++ tl) = Some (decoded, tl)
    /\ forall mem, map (resolve mem) decoded = can_zip (map (canon reinsert) ts) vs.
Proof.
  intros disp ts vs Hn W cache0 off tl.
  destruct (text_equal (fun _ _ => []) reinsert disp ts vs (noref_ok_ty_list disp false ts Hn) W [] cache0 off tl)
    as (bs & d & En & De & _).
  exists bs, d. split; [exact En|]. split; [exact De|]. intro mem.
  (* d is the canonical list *)
  rewrite args_size_eq in En. cbn [snd] in En.
  destruct (zip_ok _ _ _ _ _ (okL_args reinsert disp false ts (noref_ok_ty_list disp false ts Hn)) vs W off (stale cache0 ts) tl)
    as (bs' & En' & _ & De' & _).
  unfold args_encode in En. assert (bs' = bs) by congruence. subst bs'.
  unfold args_decode in De. assert (d = can_zip (map (canon reinsert) ts) vs) by congruence. subst d.
  now apply canon_noref_list.
Qed.
End Deep.

(* ================================================================== refutations and examples *)
Definition id_reinsert : cont -> list val -> list val := fun _ l => l.
(* libstdc++: a fresh unordered container iterates in reverse insertion order for small integer
   keys (each new node is linked at the head); ordered containers re-insert to themselves *)
Definition rev_reinsert : cont -> list val -> list val := fun c l =>
  match c with CSeq KUSet | CMap KUMap => rev l | _ => l end.

(* a statement with nested arguments of most kinds, used as the non-vacuity witness *)
Definition ex_ts : list ty :=
  [ Arith 4; CStr; CharArr 3; Str;
    Vec (Opt CStr);
    MapLike KMap Str (Arr 2 (CharArr 3));
    FwdList Direct;
    Tuple [Enum 1; Pair StrView Ptr; Seq KSet (Arith 2)];
    DeferredAligned 16 16; CStr ].
Definition ex_vs : list val :=
  [ VB [1; 2; 3; 4]; VB [104; 105; 0; 120]; VB [97; 98; 99]; VB [0; 1; 0];
    VL [VO (Some (VB [122])); VO None; VO (Some VNull)];
    VL [VL [VB [107]; VL [VB [97; 0; 99]; VB [100; 101; 102]]]];
    VL [VB [85; 49]; VB []];
    VL [VB [9]; VL [VB [115; 118]; VB [1; 0; 0; 0; 0; 0; 0; 0]]; VL [VB [1; 0]; VB [2; 0]]];
    VB [1; 2; 3; 4; 5; 6; 7; 8; 9; 10; 11; 12; 13; 14; 15; 16]; VNull ].

Example ex_wt : wt_zip (map wt ex_ts) ex_vs.
Proof. cbn. repeat split. Qed.
Example ex_ok : forallb (ok_ty true false) ex_ts = true /\ forallb noref ex_ts = true /\ forallb ordered_ty ex_ts = true.
Proof. vm_compute. auto. Qed.
Example ex_pushed : snd (args_size true [77; 78] ex_ts ex_vs) = [3; 4; 2; 1; 2; 4; 2; 2; 0; 1].
Proof. vm_compute. reflexivity. Qed.
Example ex_roundtrip :
  match stmt_encode {| h_ts := 5; h_meta := 6; h_logger := 7; h_decoder := 8 |} ex_ts ex_vs (Some 3) 1000
          (snd (stmt_reserved true [77; 78] ex_ts ex_vs (Some 3))) with
  | Some bs => lenN bs = fst (stmt_reserved true [77; 78] ex_ts ex_vs (Some 3))
               /\ stmt_decode id_reinsert true ex_ts true 1000 (bs ++ [42])
                  = Some ({| h_ts := 5; h_meta := 6; h_logger := 7; h_decoder := 8 |},
                          can_zip (map (canon id_reinsert) ex_ts) ex_vs, Some 3, [42])
  | None => False
  end.
Proof. vm_compute. split; reflexivity. Qed.

(* (1) a StringRef inside a std::tuple: the tuple decoder runs Codec<std::string_view> on the
   16 bytes (pointer, size) that Codec<StringRef> wrote; here the pointer's low four bytes are
   read as a 4 GiB string length and the decoder runs off the record *)
Definition rf_t := Tuple [StringRef; Arith 4].
Definition rf_v := VL [VRef 140737488347136 5; VB [7; 0; 0; 0]].
Theorem roundtrip_refuted_tuple_stringref :
  wt rf_t rf_v /\ ok_ty true false rf_t = false /\
  exists bs, enc rf_t rf_v 0 [] = Some (bs, []) /\ lenN bs = fst (size rf_t rf_v) /\
             dec id_reinsert true false rf_t 0 bs = None /\
             (* the same bytes under original-type dispatch *)
             dec id_reinsert false false rf_t 0 bs = Some (rf_v, []).
Proof.
  split; [cbn; repeat split|]. split; [reflexivity|].
  eexists. split; [vm_compute; reflexivity|]. vm_compute. auto.
Qed.

(* the same defect with the pointer of the replayed case (corpus/C04/f3_tuple_stringref.case):
   low four pointer bytes 0, so the decoder sees an empty string and consumes 8 of the 20 bytes *)
Definition rf_v2 := VL [VRef 35184372088832 5; VB [7; 0; 0; 0]].
Theorem roundtrip_refuted_tuple_stringref_replay :
  wt rf_t rf_v2 /\
  exists bs rest, enc rf_t rf_v2 0 [] = Some (bs, []) /\ lenN bs = 20 /\
                  dec id_reinsert true false rf_t 0 bs = Some (VL [VB []; VB [0; 32; 0; 0]], rest) /\ lenN rest = 12.
Proof.
  split; [cbn; repeat split|].
  eexists. eexists. split; [vm_compute; reflexivity|]. split; [reflexivity|]. split; [vm_compute; reflexivity|]. reflexivity.
Qed.

(* (2) without the clearing rule the encode pass reads another statement's lengths *)
Theorem cache_sync_refuted_noclear :
  let ts := [CStr] in let vs := [VB [97; 98; 99]] in let stale0 := [2] in
  wt_zip (map wt ts) vs /\
  fst (args_size false stale0 ts vs) = 4 /\
  args_encode ts vs 0 (snd (args_size false stale0 ts vs)) = Some ([97; 0], [4]) /\
  args_decode id_reinsert true ts 0 [97; 0] = Some ([VB [97]], []).
Proof. cbn zeta. split; [cbn; repeat split|]. vm_compute. auto. Qed.

(* (3) unordered containers: with the standard library's re-insertion order the backend formats
   another sequence than the caller would *)
Definition flat_render : list byte -> list val -> list byte := fun f vs =>
  f ++ flat_map (fun v => match v with VL l => flat_map (fun x => match x with VB b => b | _ => [] end) l | _ => [] end) vs.
Theorem text_equal_refuted_unordered :
  let ts := [Seq KUSet (Arith 1)] in let vs := [VL [VB [3]; VB [2]; VB [1]]] in
  wt_zip (map wt ts) vs /\ forallb (ok_ty true false) ts = true /\ forallb ordered_ty ts = false /\
  exists bs decoded,
    args_encode ts vs 0 (snd (args_size true [] ts vs)) = Some (bs, []) /\
    args_decode rev_reinsert true ts 0 bs = Some (decoded, []) /\
    flat_render [] decoded = [1; 2; 3] /\ flat_render [] (can_zip (map view ts) vs) = [3; 2; 1].
Proof.
  cbn zeta. split; [cbn; repeat split|]. split; [reflexivity|]. split; [reflexivity|].
  eexists. eexists. split; [vm_compute; reflexivity|]. split; [vm_compute; reflexivity|]. vm_compute. auto.
Qed.

(* (4) StringRef is the opt-out of the deep copy: the value formatted depends on caller memory *)
Theorem deep_copy_refuted_stringref :
  let ts := [StringRef] in let vs := [VRef 4096 1] in
  wt_zip (map wt ts) vs /\ forallb noref ts = false /\
  exists bs decoded,
    args_encode ts vs 0 (snd (args_size true [] ts vs)) = Some (bs, []) /\
    args_decode id_reinsert true ts 0 bs = Some (decoded, []) /\
    map (resolve (fun _ _ => [65])) decoded <> map (resolve (fun _ _ => [66])) decoded.
Proof.
  cbn zeta. split; [cbn; repeat split|]. split; [reflexivity|].
  eexists. eexists. split; [vm_compute; reflexivity|]. split; [vm_compute; reflexivity|].
  vm_compute. discriminate.
Qed.

Example id_reinsert_incl : forall c l x, In x (id_reinsert c l) -> In x l.
Proof. intros c l x H. exact H. Qed.
Example rev_reinsert_incl : forall c l x, In x (rev_reinsert c l) -> In x l.
Proof. intros c l x H. unfold rev_reinsert in H. destruct c as [[]|[]]; auto; now apply in_rev. Qed.
