(* Proofs about M-CODEC (CodecDefs.v): for every type of the universe (arbitrary nesting) and every
   well-typed value, for any surrounding cache content, any address and any trailing bytes:
   the encode pass consumes exactly the cache entries the size pass pushed (in order), writes
   exactly the number of bytes the size pass computed, and the decoder reads exactly those bytes
   back to the canonical value. *)
From Coq Require Import List NArith Arith Bool Lia PeanoNat.
From Quill Require Import Base.Bytes Codec.CodecDefs.
Import ListNotations.
Local Open Scope N_scope.

(* ------------------------------------------------------------------ small facts *)
Lemma lenN_app {A} (a b : list A) : lenN (a ++ b) = lenN a + lenN b.
Proof. unfold lenN. rewrite app_length. lia. Qed.
Lemma lenN_cons {A} (x : A) (l : list A) : lenN (x :: l) = 1 + lenN l.
Proof. unfold lenN. cbn [length]. lia. Qed.
Lemma lenN_nil {A} : lenN (@nil A) = 0.
Proof. reflexivity. Qed.
Lemma lenN_encn w n : lenN (encn w n) = N.of_nat w.
Proof. unfold lenN. now rewrite encn_len. Qed.
Lemma lenN_zeros n : lenN (zeros n) = N.of_nat n.
Proof. unfold lenN. now rewrite zeros_len. Qed.

Lemma to_nat_lenN {A} (l : list A) : N.to_nat (lenN l) = length l.
Proof. unfold lenN. apply Nat2N.id. Qed.
Lemma firstn_lenN {A} (l : list A) : firstn (N.to_nat (lenN l)) l = l.
Proof. rewrite to_nat_lenN. apply firstn_all. Qed.

Lemma adv_app off (a r : list byte) : adv off (a ++ r) r = off + lenN a.
Proof. unfold adv, lenN. rewrite app_length. f_equal. f_equal. lia. Qed.

Lemma take_app n (a r : list byte) : lenN a = n -> take n (a ++ r) = Some (a, r).
Proof.
  intros <-. unfold take. rewrite lenN_app.
  replace (lenN a <=? lenN a + lenN r) with true by (symmetry; apply N.leb_le; lia).
  unfold lenN. rewrite Nat2N.id, firstn_app_exact, skipn_app_exact. reflexivity.
Qed.

Lemma cstrlen_le b : (cstrlen b <= length b)%nat.
Proof. induction b as [|x b IH]; cbn [cstrlen length]; [lia|]. destruct (N.eqb x 0); lia. Qed.

Lemma cut_length b : length (cut b) = cstrlen b.
Proof. unfold cut. apply firstn_length_le, cstrlen_le. Qed.

Lemma take_cstr_cut b tl : take_cstr (cut b ++ 0 :: tl) = Some (cut b, tl).
Proof.
  unfold cut. induction b as [|x b IH]; cbn [cstrlen firstn app take_cstr].
  - reflexivity.
  - destruct (N.eqb x 0) eqn:E; cbn [firstn app take_cstr].
    + reflexivity.
    + rewrite E, IH. reflexivity.
Qed.

(* no NUL in the array: the whole array is the string *)
Lemma cut_all b : cstrlen b = length b -> cut b = b.
Proof. intro H. unfold cut. rewrite H. apply firstn_all. Qed.

(* a NUL inside: the first cstrlen+1 bytes are the string and its terminator *)
Lemma firstn_S_cstrlen b : (cstrlen b < length b)%nat -> firstn (S (cstrlen b)) b = cut b ++ [0].
Proof.
  unfold cut. induction b as [|x b IH]; cbn [cstrlen length]; intro H; [lia|].
  destruct (N.eqb_spec x 0) as [->|Hx].
  - reflexivity.
  - cbn [firstn app]. f_equal. apply IH. lia.
Qed.

Lemma clamp32_small x : x <= U32MAX -> clamp32 x = x.
Proof. intro H. unfold clamp32. destruct (N.ltb_spec U32MAX x); [lia | reflexivity]. Qed.
Lemma wrap32_small x : x < 4294967296 -> wrap32 x = x.
Proof. intro H. unfold wrap32. now apply N.mod_small. Qed.

Lemma apad_lt off a : 0 < a -> apad off a < a.
Proof. intro H. unfold apad. apply N.mod_lt. lia. Qed.

(* the address the object lands on is aligned *)
Lemma apad_aligned off a : 0 < a -> (off + apad off a) mod a = 0.
Proof.
  intro H. unfold apad. assert (Ha : a <> 0) by lia.
  pose proof (N.mod_lt off a Ha) as Hlt.
  pose proof (N.div_mod off a Ha) as Hdm.
  remember (off mod a) as x eqn:Ex. remember (off / a) as q eqn:Eq.
  destruct (N.eq_dec x 0) as [E|E].
  - rewrite E, N.sub_0_r, N.mod_same, N.add_0_r by assumption. rewrite Ex in E. exact E.
  - rewrite (N.mod_small (a - x) a) by lia.
    replace (off + (a - x)) with (a + q * a) by nia.
    rewrite N.mod_add by assumption. now apply N.mod_same.
Qed.

(* ------------------------------------------------------------------ element lists *)
Section Proofs.
Variable reinsert : cont -> list val -> list val.
Variable disp : bool.

(* one element is "ok": for any address, any cache entries following its own, any bytes following
   its own *)
Definition okE (p : val -> Prop) (sz : sizeF) (en : encF) (de : decF) (cn : canF) : Prop :=
  forall v, p v -> forall off rest tl,
  exists bs, en v off (snd (sz v) ++ rest) = Some (bs, rest)
             /\ lenN bs = fst (sz v)
             /\ de off (bs ++ tl) = Some (cn v, tl).

Inductive okL : list (val -> Prop) -> list sizeF -> list encF -> list decF -> list canF -> Prop :=
| okL_nil : okL [] [] [] [] []
| okL_cons p s e d c ps ss es ds cs :
    okE p s e d c -> okL ps ss es ds cs -> okL (p :: ps) (s :: ss) (e :: es) (d :: ds) (c :: cs).

Lemma zip_ok ps ss es ds cs : okL ps ss es ds cs -> forall l, wt_zip ps l -> forall off rest tl,
  exists bs, enc_zip es l off (snd (size_zip ss l) ++ rest) = Some (bs, rest)
             /\ lenN bs = fst (size_zip ss l)
             /\ dec_seq ds off (bs ++ tl) = Some (can_zip cs l, tl)
             /\ length l = length ps.
Proof.
  induction 1 as [|p s e d c ps ss es ds cs H1 HL IH]; intros l W off rest tl;
    destruct l as [|x l]; cbn [wt_zip] in W; try contradiction.
  - exists []. cbn. auto.
  - destruct W as [Wx Wl]. cbn [size_zip enc_zip dec_seq can_zip].
    destruct (s x) as [s1 c1] eqn:E1. destruct (size_zip ss l) as [s2 c2] eqn:E2. cbn [fst snd].
    destruct (H1 x Wx off (c2 ++ rest) []) as (b1 & En1 & L1 & _).
    destruct (IH l Wl (off + lenN b1) rest tl) as (b2 & En2 & L2 & D2 & Ln).
    destruct (H1 x Wx off (c2 ++ rest) (b2 ++ tl)) as (b1' & En1' & _ & D1).
    rewrite E1 in En1, En1', L1. cbn [fst snd] in En1, En1', L1.
    assert (b1' = b1) by congruence. subst b1'.
    rewrite E2 in En2, L2. cbn [fst snd] in En2, L2.
    exists (b1 ++ b2). rewrite <- app_assoc, En1, En2.
    rewrite <- app_assoc, D1, adv_app, D2. rewrite lenN_app.
    repeat split; cbn [length]; auto; lia.
Qed.

Lemma okL_repeat p s e d c n : okE p s e d c -> okL (repeat p n) (repeat s n) (repeat e n) (repeat d n) (repeat c n).
Proof. induction n; cbn; constructor; auto. Qed.

Lemma wt_zip_length ps l : wt_zip ps l -> length l = length ps.
Proof.
  revert l. induction ps as [|p ps IH]; intros [|x l] W; cbn [wt_zip] in W; try contradiction; [reflexivity|].
  cbn [length]. f_equal. apply IH. tauto.
Qed.

(* pairs (std::pair and the elements of maps) *)
Lemma pair_ok p1 s1 e1 d1 c1 p2 s2 e2 d2 c2 :
  okE p1 s1 e1 d1 c1 -> okE p2 s2 e2 d2 c2 ->
  okE (pairW p1 p2) (pairS s1 s2) (pairE e1 e2) (pairD d1 d2) (pairC c1 c2).
Proof.
  intros H1 H2 v W off rest tl. destruct v as [b| |pp nn|l|o]; cbn [pairW] in W; try contradiction.
  assert (HL : okL [p1; p2] [s1; s2] [e1; e2] [d1; d2] [c1; c2]) by (repeat constructor; assumption).
  destruct (zip_ok _ _ _ _ _ HL l W off rest tl) as (bs & En & Ln & De & _).
  exists bs. unfold pairS, pairE, pairD, pairC. rewrite De. auto.
Qed.

(* ------------------------------------------------------------------ the "no iteration" branches *)
Lemma size_zip_fixed k w : forall n l, wt_zip (repeat (wt (Fixed k w)) n) l ->
  size_zip (repeat (size (Fixed k w)) n) l = (w * N.of_nat n, []).
Proof.
  induction n as [|n IH]; intros [|x l] W; cbn [repeat wt_zip] in W; try contradiction.
  - cbn [repeat size_zip]. f_equal. lia.
  - destruct W as [Wx Wl]. cbn [repeat size_zip]. rewrite (IH l Wl).
    destruct x as [b| |pp nn|l'|o]; cbn [wt] in Wx; try contradiction.
    cbn [size app]. f_equal. lia.
Qed.

Lemma arith_w_fixed t w : arith_w t = Some w -> exists k, t = Fixed k w.
Proof.
  destruct t as [k w'| | | | | | | | | | | | |]; cbn [arith_w]; try discriminate.
  destruct k; try discriminate; intro H; inversion H; subst; eauto.
Qed.

Lemma size_zip_fixed_pair k1 w1 k2 w2 : forall n l,
  wt_zip (repeat (pairW (wt (Fixed k1 w1)) (wt (Fixed k2 w2))) n) l ->
  size_zip (repeat (pairS (size (Fixed k1 w1)) (size (Fixed k2 w2))) n) l = ((w1 + w2) * N.of_nat n, []).
Proof.
  induction n as [|n IH]; intros [|x l] W; cbn [repeat wt_zip] in W; try contradiction.
  - cbn [repeat size_zip]. f_equal. lia.
  - destruct W as [Wx Wl]. cbn [repeat size_zip]. rewrite (IH l Wl).
    destruct x as [b| |pp nn|l'|o]; cbn [pairW] in Wx; try contradiction.
    destruct l' as [|x1 [|x2 [|x3 l3]]]; cbn [wt_zip] in Wx; try tauto.
    destruct Wx as (W1 & W2 & _).
    destruct x1 as [b1| | | |]; cbn [wt] in W1; try contradiction.
    destruct x2 as [b2| | | |]; cbn [wt] in W2; try contradiction.
    cbn [pairS size_zip size app]. f_equal. lia.
Qed.

(* ------------------------------------------------------------------ the main theorem *)
Section Ind.
  Variable P : ty -> Prop.
  Hypothesis HF : forall k w, P (Fixed k w).
  Hypothesis HC : P CStr.
  Hypothesis HA : forall n, P (CharArr n).
  Hypothesis HS : forall k, P (LenStr k).
  Hypothesis HD : P Direct.
  Hypothesis HR : P StringRef.
  Hypothesis HG : forall w a, P (DeferredAligned w a).
  Hypothesis HQ : forall k t, P t -> P (Seq k t).
  Hypothesis HW : forall t, P t -> P (FwdList t).
  Hypothesis HY : forall n t, P t -> P (Arr n t).
  Hypothesis HO : forall t, P t -> P (Opt t).
  Hypothesis HP : forall a b, P a -> P b -> P (Pair a b).
  Hypothesis HT : forall ts, Forall P ts -> P (Tuple ts).
  Hypothesis HM : forall k kt vt, P kt -> P vt -> P (MapLike k kt vt).
  Fixpoint ty_ind' (t : ty) : P t :=
    match t with
    | Fixed k w => HF k w | CStr => HC | CharArr n => HA n | LenStr k => HS k | Direct => HD
    | StringRef => HR | DeferredAligned w a => HG w a
    | Seq k t' => HQ k _ (ty_ind' t') | FwdList t' => HW _ (ty_ind' t') | Arr n t' => HY n _ (ty_ind' t')
    | Opt t' => HO _ (ty_ind' t') | Pair a b => HP _ _ (ty_ind' a) (ty_ind' b)
    | Tuple ts => HT ts ((fix go ts : Forall P ts :=
                            match ts with [] => Forall_nil _ | t' :: ts' => Forall_cons _ (ty_ind' t') (go ts') end) ts)
    | MapLike k kt vt => HM k _ _ (ty_ind' kt) (ty_ind' vt)
    end.
End Ind.

Definition ok (dd : bool) (t : ty) : Prop :=
  okE (wt t) (size t) (enc t) (dec reinsert disp dd t) (canon reinsert t).

Lemma okL_map dd ts : Forall (fun t => forall dd, ok_ty disp dd t = true -> ok dd t) ts -> forallb (ok_ty disp dd) ts = true ->
  okL (map wt ts) (map size ts) (map enc ts) (map (dec reinsert disp dd) ts) (map (canon reinsert) ts).
Proof.
  induction 1 as [|t ts Ht _ IH]; cbn [forallb map]; intro Hb; [constructor|].
  apply andb_prop in Hb. destruct Hb as [Hb1 Hb2]. constructor; [apply Ht, Hb1 | apply IH, Hb2].
Qed.

Lemma lenstr_ok (b : list byte) tl : lenN b < 4294967296 ->
  dec_lenstr 0 ((encn 4 (lenN b) ++ b) ++ tl) = Some (VB b, tl).
Proof.
  intro H. unfold dec_lenstr. rewrite <- app_assoc, decn_encn by (cbn; lia).
  rewrite take_app by reflexivity. reflexivity.
Qed.

Theorem codec_ok : forall t dd, ok_ty disp dd t = true -> ok dd t.
Proof.
  induction t using ty_ind'; intros dd Hok v W off rest tl.
  - (* Fixed *)
    destruct v as [b| |pp nn|l|o]; cbn [wt] in W; try contradiction.
    exists b. cbn [size enc dec canon fst snd app]. rewrite take_app by assumption. auto.
  - (* CStr *)
    destruct v as [b| |pp nn|l|o]; cbn [wt] in W; try contradiction.
    + pose proof (cstrlen_le b) as Hle. unfold lenN in W.
      cbn [size enc dec canon fst snd app].
      rewrite clamp32_small by lia.
      exists (cut b ++ [0]). replace (N.to_nat (N.of_nat (cstrlen b) + 1 - 1)) with (cstrlen b) by lia.
      split; [reflexivity|]. split.
      * rewrite lenN_app. unfold lenN at 1. rewrite cut_length. cbn. lia.
      * rewrite <- app_assoc. cbn [app]. rewrite take_cstr_cut. reflexivity.
    + exists [0]. cbn. auto.
  - (* CharArr *)
    destruct v as [b| |pp nn|l|o]; cbn [wt] in W; try contradiction.
    destruct W as [Wn Wm]. pose proof (cstrlen_le b) as Hle.
    cbn [size enc dec canon fst snd app].
    rewrite N.min_l by lia. rewrite clamp32_small by lia.
    exists (cut b ++ [0]). split; [|split].
    + destruct (N.ltb_spec (N.of_nat n) (N.of_nat (cstrlen b) + 1)) as [Hlt|Hge].
      * assert (E : cstrlen b = length b) by lia.
        rewrite <- Wn, firstn_all, (cut_all b E). reflexivity.
      * replace (N.to_nat (N.of_nat (cstrlen b) + 1)) with (S (cstrlen b)) by lia.
        rewrite firstn_S_cstrlen by lia. reflexivity.
    + rewrite lenN_app. unfold lenN at 1. rewrite cut_length. cbn. lia.
    + rewrite <- app_assoc. cbn [app]. rewrite take_cstr_cut. reflexivity.
  - (* LenStr *)
    destruct v as [b| |pp nn|l|o]; cbn [wt] in W; try contradiction.
    cbn [size enc dec canon fst snd app]. rewrite wrap32_small by assumption.
    rewrite firstn_lenN.
    exists (encn 4 (lenN b) ++ b). split; [reflexivity|]. split.
    + rewrite lenN_app, lenN_encn. lia.
    + unfold dec_lenstr. rewrite <- app_assoc, decn_encn by (cbn; lia).
      rewrite take_app by reflexivity. reflexivity.
  - (* Direct *)
    destruct v as [b| |pp nn|l|o]; cbn [wt] in W; try contradiction.
    cbn [size enc dec canon fst snd app]. rewrite wrap32_small by assumption.
    rewrite firstn_lenN.
    exists (encn 4 (lenN b) ++ b). split; [reflexivity|]. split.
    + rewrite lenN_app, lenN_encn. lia.
    + unfold dec_lenstr. rewrite <- app_assoc, decn_encn by (cbn; lia).
      rewrite take_app by reflexivity. reflexivity.
  - (* StringRef *)
    destruct v as [b| |pp nn|l|o]; cbn [wt] in W; try contradiction.
    destruct W as [Wp Wn]. cbn [ok_ty] in Hok. destruct dd; [discriminate|].
    cbn [size enc dec canon fst snd app].
    exists (encn 8 pp ++ encn 8 nn). split; [reflexivity|]. split.
    + rewrite lenN_app, !lenN_encn. reflexivity.
    + rewrite <- !app_assoc, decn_encn by assumption. rewrite decn_encn by assumption. reflexivity.
  - (* DeferredAligned *)
    destruct v as [b| |pp nn|l|o]; cbn [wt] in W; try contradiction.
    destruct W as [Ww Wa]. pose proof (apad_lt off a Wa) as Hp.
    cbn [size enc dec canon fst snd app].
    exists (zeros (N.to_nat (apad off a)) ++ b ++ zeros (N.to_nat (a - 1 - apad off a))).
    split; [reflexivity|]. split.
    + rewrite !lenN_app, !lenN_zeros. lia.
    + rewrite <- !app_assoc.
      rewrite take_app by (rewrite lenN_zeros; lia).
      rewrite take_app by assumption.
      rewrite take_app by (rewrite lenN_zeros; lia). reflexivity.
  - (* Seq *)
    destruct v as [b| |pp nn|l|o]; cbn [wt] in W; try contradiction.
    destruct W as [Wl Wz]. cbn [ok_ty] in Hok.
    destruct (zip_ok _ _ _ _ _ (okL_repeat _ _ _ _ _ (length l) (IHt dd Hok)) l Wz (off + 8) rest tl) as (bs & En & Ln & De & _).
    unfold sizeF, encF, decF, canF in *.
    assert (Hsz : size (Seq k t) (VL l) = (8 + fst (size_zip (repeat (size t) (length l)) l), snd (size_zip (repeat (size t) (length l)) l))).
    { cbn [size]. destruct (arith_w t) as [w|] eqn:Ea.
      - destruct (arith_w_fixed _ _ Ea) as [k' ->]. rewrite size_zip_fixed by assumption. reflexivity.
      - destruct (size_zip (repeat (size t) (length l)) l). reflexivity. }
    rewrite Hsz. cbn [fst snd enc dec canon]. rewrite En.
    exists (encn 8 (lenN l) ++ bs). split; [reflexivity|]. split.
    + rewrite lenN_app, lenN_encn, Ln. lia.
    + rewrite <- app_assoc, decn_encn by assumption. rewrite to_nat_lenN. unfold decF in *. rewrite De. reflexivity.
  - (* FwdList *)
    destruct v as [b| |pp nn|l|o]; cbn [wt] in W; try contradiction.
    destruct W as [Wl Wz]. cbn [ok_ty] in Hok.
    destruct (zip_ok _ _ _ _ _ (okL_repeat _ _ _ _ _ (length l) (IHt dd Hok)) l Wz (off + 8) rest tl) as (bs & En & Ln & De & _).
    unfold sizeF, encF, decF, canF in *.
    cbn [size enc dec canon]. destruct (size_zip (repeat (size t) (length l)) l) as [s c] eqn:Es.
    cbn [fst snd app] in *. rewrite wrap32_small by assumption. rewrite En.
    exists (encn 8 (lenN l) ++ bs). split; [reflexivity|]. split.
    + rewrite lenN_app, lenN_encn, Ln. lia.
    + rewrite <- app_assoc, decn_encn by (cbn; lia). rewrite to_nat_lenN. unfold decF in *. rewrite De. reflexivity.
  - (* Arr *)
    destruct v as [b| |pp nn|l|o]; cbn [wt] in W; try contradiction.
    cbn [ok_ty] in Hok.
    destruct (zip_ok _ _ _ _ _ (okL_repeat _ _ _ _ _ n (IHt dd Hok)) l W off rest tl) as (bs & En & Ln & De & _).
    unfold sizeF, encF, decF, canF in *.
    assert (Hsz : size (Arr n t) (VL l) = size_zip (repeat (size t) n) l).
    { cbn [size]. destruct (arith_w t) as [w|] eqn:Ea; [|reflexivity].
      destruct (arith_w_fixed _ _ Ea) as [k' ->]. rewrite size_zip_fixed by assumption. reflexivity. }
    rewrite Hsz. cbn [enc dec canon]. exists bs. unfold decF in *. rewrite De. auto.
  - (* Opt *)
    destruct v as [b| |pp nn|l|o]; cbn [wt] in W; try contradiction.
    cbn [ok_ty] in Hok. destruct o as [x|].
    + destruct (IHt dd Hok x W (off + 1) rest tl) as (bs & En & Ln & De).
      cbn [size enc dec canon]. destruct (size t x) as [s c] eqn:Es. cbn [fst snd] in *. rewrite En.
      exists (1 :: bs). cbn [app]. rewrite De, lenN_cons, Ln. auto.
    + exists [0]. cbn. auto.
  - (* Pair *)
    cbn [ok_ty] in Hok. apply andb_prop in Hok. destruct Hok as [Hk1 Hk2].
    exact (pair_ok _ _ _ _ _ _ _ _ _ _ (IHt1 dd Hk1) (IHt2 dd Hk2) v W off rest tl).
  - (* Tuple *)
    destruct v as [b| |pp nn|l|o]; cbn [wt] in W; try contradiction.
    cbn [ok_ty] in Hok.
    destruct (zip_ok _ _ _ _ _ (okL_map _ _ H Hok) l W off rest tl) as (bs & En & Ln & De & _).
    unfold sizeF, encF, decF, canF in *.
    exists bs. cbn [size enc dec canon]. unfold decF in *. rewrite De. auto.
  - (* MapLike *)
    destruct v as [b| |pp nn|l|o]; cbn [wt] in W; try contradiction.
    destruct W as [Wl Wz]. cbn [ok_ty] in Hok. apply andb_prop in Hok. destruct Hok as [Hk1 Hk2].
    pose proof (pair_ok _ _ _ _ _ _ _ _ _ _ (IHt1 dd Hk1) (IHt2 dd Hk2)) as HP.
    destruct (zip_ok _ _ _ _ _ (okL_repeat _ _ _ _ _ (length l) HP) l Wz (off + 8) rest tl) as (bs & En & Ln & De & _).
    assert (Hsz : size (MapLike k t1 t2) (VL l) =
                  (8 + fst (size_zip (repeat (pairS (size t1) (size t2)) (length l)) l),
                   snd (size_zip (repeat (pairS (size t1) (size t2)) (length l)) l))).
    { cbn [size]. destruct (arith_w t1) as [w1|] eqn:Ea1; [destruct (arith_w t2) as [w2|] eqn:Ea2|].
      - destruct (arith_w_fixed _ _ Ea1) as [k1 ->]. destruct (arith_w_fixed _ _ Ea2) as [k2 ->].
        rewrite size_zip_fixed_pair by assumption. reflexivity.
      - destruct (size_zip (repeat (pairS (size t1) (size t2)) (length l)) l). reflexivity.
      - destruct (size_zip (repeat (pairS (size t1) (size t2)) (length l)) l). reflexivity. }
    rewrite Hsz. cbn [fst snd enc dec canon]. rewrite En.
    exists (encn 8 (lenN l) ++ bs). split; [reflexivity|]. split.
    + rewrite lenN_app, lenN_encn, Ln. lia.
    + rewrite <- app_assoc, decn_encn by assumption. rewrite to_nat_lenN, De. reflexivity.
Qed.

End Proofs.
