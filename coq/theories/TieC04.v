(* T-src tie for C04: which codec decodes the elements of a std::tuple (tools/srcfacts.py, c04t_facts).
   [disp] of Codec/CodecDefs.v: true = Codec<std::tuple<Types...>>::decode_arg runs the codec of each element's
   *decoded* type (the pinned code: wrong wire format for StringRef, finding C04-F3), false = it runs Codec<Types_i>,
   the codec that encoded the element (the repaired code). The flag that stands for the source tree: *)
From Coq Require Import List NArith Bool String.
From QuillGen Require SrcFacts.
From Quill Require Import Base.Bytes Codec.CodecDefs Codec.CodecProofs.
Import ListNotations.
Local Open Scope N_scope.

Definition src_disp : bool := negb (SrcFacts.codec_tuple_decode_shape =? 1).

Lemma src_tuple_decodes_with_element_codecs : src_disp = false.
Proof. vm_compute. reflexivity. Qed.

Definition expected_tuple_decode_body : list string :=
  ["{ return std::tuple<decltype(Codec<Types>::decode_arg(buffer))...>{Codec<Types>::decode_arg(buffer)...}; }"%string].
Lemma src_tuple_decode_body : SrcFacts.sk_codec_tuple_decode_body = expected_tuple_decode_body.
Proof. vm_compute. reflexivity. Qed.

(* without the dispatch on decoded types every type is decoded by the codec that encoded it: no side condition *)
Lemma ok_ty_element_codecs : forall t, ok_ty false false t = true.
Proof.
  apply ty_ind'; cbn [ok_ty]; intros; auto.
  - rewrite H, H0. reflexivity.
  - rewrite forallb_forall. rewrite Forall_forall in H. exact H.
  - rewrite H, H0. reflexivity.
Qed.
Lemma ok_tys_element_codecs : forall ts, forallb (ok_ty false false) ts = true.
Proof. intro ts. rewrite forallb_forall. intros t _. apply ok_ty_element_codecs. Qed.
