(* T-src tie shared by C03, C07 and C20: the predicate that lets the backend remove the context of an exited thread
   (BackendWorker::_cleanup_invalidated_thread_contexts) requires the thread's queue AND its transit event buffer to
   be empty, for bounded and unbounded queues. M-BE's find_dead is that predicate; a removal destroys the content. *)
From QuillGen Require SrcFacts.
Lemma src_be_ctx_removal_requires_empty_buffer : SrcFacts.be_ctx_removal_requires_empty_buffer = true.
Proof. vm_compute. reflexivity. Qed.
