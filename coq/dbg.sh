#!/bin/bash
# dbg.sh FILE LINE : show the goal just before LINE (1-based) of FILE
f=$1; n=$2
mkdir -p /tmp/coqdbg
head -n $((n-1)) "$f" > /tmp/coqdbg/D.v
echo 'Show.' >> /tmp/coqdbg/D.v
cd "$(dirname "$0")"
timeout 120 coqc -Q theories Quill -Q gen QuillGen /tmp/coqdbg/D.v 2>&1 | grep -v "^Warning\|There are pending proofs\|^File \"/tmp/coqdbg" | head -${3:-60}
